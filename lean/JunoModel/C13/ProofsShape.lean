import JunoModel.C12.ProofsCommitLast
import JunoModel.C13.ProofsTimeout
/-!
C13 — the SHAPE hypotheses of `ReplaySafeUpTo` proved for C12's transcription of juno's state
machine (with the ignored-timeout fix, `tmMachineT`), for ALL states and inputs, no invariant:
heights of own messages and timers, height changes exactly at a commit, a commit is last, silence
before `start` and for future heights. What remains a hypothesis is collected in `ReplaySafeRest`.
-/
namespace Juno.C13
open Juno

/-- Own messages and timers of the action carry height `h`. -/
def actH (h : Nat) : C12.Action → Prop
  | .bcastProposal p => p.height = h
  | .bcastPrevote v => v.height = h
  | .bcastPrecommit v => v.height = h
  | .schedule _ h' _ => h' = h
  | _ => True

theorem startRound_height (env : C12.Env) (m : C12.Machine) (r : Int) :
    (m.startRound env r).1.state.height = m.state.height ∧ actH m.state.height (m.startRound env r).2 := by
  unfold C12.Machine.startRound
  simp only
  split
  · split <;> simp [C12.Machine.sendProposal, C12.Machine.resetState, C12.State.reset, actH]
  · simp [C12.Machine.scheduleTimeout, C12.Machine.resetState, C12.State.reset, actH]

/-- One rule firing: the action carries the current height; the height moves (by one) exactly when
the action is a commit. -/
theorem process_height (env : C12.Env) (m : C12.Machine) (rr : Option Int) :
    (∀ a, (m.process env rr).2.1 = some a → actH m.state.height a) ∧
    (∀ p, (m.process env rr).2.1 = some (C12.Action.commit p) →
      (m.process env rr).1.state.height = m.state.height + 1) ∧
    ((∀ p, (m.process env rr).2.1 ≠ some (C12.Action.commit p)) →
      (m.process env rr).1.state.height = m.state.height) := by
  unfold C12.Machine.process
  split
  · simp [C12.Machine.doFirstProposal, C12.Machine.setStepAndSendPrevote, actH]
  · simp [C12.Machine.doProposalAndPolkaPrevious, C12.Machine.setStepAndSendPrevote, actH]
  · simp [C12.Machine.doPolkaAny, C12.Machine.scheduleTimeout, actH]
  · unfold C12.Machine.doProposalAndPolkaCurrent
    by_cases hst : (m.state.step == C12.Step.prevote) = true
    · simp [hst, C12.Machine.setStepAndSendPrecommit, actH]
    · simp [hst]
  · simp [C12.Machine.doPolkaNil, C12.Machine.setStepAndSendPrecommit, actH]
  · simp [C12.Machine.doPrecommitAny, C12.Machine.scheduleTimeout, actH]
  · simp [C12.Machine.doCommitValue, C12.State.reset, actH]
  · have h := startRound_height env m ‹Int›
    have hn := C12.startRound_not_commit env m ‹Int›
    simp only [C12.Machine.doSkipRound]
    refine ⟨fun a ha => by simp at ha; subst ha; exact h.2, fun p hp => ?_, fun _ => h.1⟩
    simp at hp; exact absurd hp (hn p)
  · simp

/-- What a call from state `m` returns, as far as heights go. -/
structure CallHeights (m : C12.Machine) (r : C12.Machine × List C12.Action) : Prop where
  acts : ∀ a ∈ r.2, actH m.state.height a
  commit : (∃ p, C12.Action.commit p ∈ r.2) → r.1.state.height = m.state.height + 1
  nocommit : (∀ p, C12.Action.commit p ∉ r.2) → r.1.state.height = m.state.height

theorem loop_height (env : C12.Env) (rr : Option Int) : ∀ (fuel : Nat) (m : C12.Machine)
    (acc : List C12.Action),
    ∃ out, (C12.Machine.processLoopAux env rr fuel m acc).2.1 = acc ++ out ∧
      (∀ a ∈ out, actH m.state.height a) ∧
      ((∃ p, C12.Action.commit p ∈ out) →
        (C12.Machine.processLoopAux env rr fuel m acc).1.state.height = m.state.height + 1) ∧
      ((∀ p, C12.Action.commit p ∉ out) →
        (C12.Machine.processLoopAux env rr fuel m acc).1.state.height = m.state.height) := by
  intro fuel
  induction fuel with
  | zero =>
    intro m acc
    exact ⟨[], by simp [C12.Machine.processLoopAux], by simp, by simp,
      fun _ => by simp [C12.Machine.processLoopAux]⟩
  | succ n ih =>
    intro m acc
    have hp := process_height env m rr
    have hpc := C12.process_commit env m rr
    unfold C12.Machine.processLoopAux
    generalize m.process env rr = res at hp hpc
    obtain ⟨m', a, cont⟩ := res
    simp only at hp hpc ⊢
    obtain ⟨hp1, hp2, hp3⟩ := hp
    cases a with
    | none =>
      have hm' : m'.state.height = m.state.height := hp3 (by simp)
      cases cont with
      | false => exact ⟨[], by simp, by simp, by simp, fun _ => hm'⟩
      | true =>
        simp only [if_true]
        obtain ⟨out, e1, e2, e3, e4⟩ := ih m' acc
        rw [hm'] at e2 e3 e4
        exact ⟨out, e1, e2, e3, e4⟩
    | some x =>
      have hx : actH m.state.height x := hp1 x rfl
      cases cont with
      | false =>
        refine ⟨[x], by simp, by intro a ha; simp at ha; subst ha; exact hx, ?_, ?_⟩
        · intro ⟨p, hp⟩; simp at hp; subst hp; exact hp2 p rfl
        · intro hn
          exact hp3 (fun p hp => by simp at hp; subst hp; exact hn p (by simp))
      | true =>
        simp only [if_true]
        have hnc : ∀ p, x ≠ C12.Action.commit p := by
          intro p hp; subst hp
          have := (hpc p rfl).1
          cases this
        have hm' : m'.state.height = m.state.height :=
          hp3 (fun p hp => by simp at hp; exact hnc p hp)
        obtain ⟨out, e1, e2, e3, e4⟩ := ih m' (acc ++ [x])
        rw [hm'] at e2 e3 e4
        refine ⟨[x] ++ out, by rw [e1, List.append_assoc], ?_, ?_, ?_⟩
        · intro a ha
          rcases List.mem_append.mp ha with h | h
          · simp at h; subst h; exact hx
          · exact e2 a h
        · intro ⟨p, hp⟩
          rcases List.mem_append.mp hp with h | h
          · simp at h; exact absurd h.symm (hnc p)
          · exact e3 ⟨p, h⟩
        · intro hn
          exact e4 (fun p hp => hn p (List.mem_append_right _ hp))

/-- The loop started in `m1` (same height as `m`) with actions `acc` (of height `m`, no commit). -/
theorem processLoop_callHeights (env : C12.Env) (m m1 : C12.Machine) (acc : List C12.Action)
    (rr : Option Int) (hm : m1.state.height = m.state.height)
    (hacc : ∀ a ∈ acc, actH m.state.height a) (hnc : ∀ p, C12.Action.commit p ∉ acc) :
    CallHeights m (m1.processLoop env acc rr) := by
  unfold C12.Machine.processLoop
  obtain ⟨out, e1, e2, e3, e4⟩ := loop_height env rr C12.loopFuel m1 acc
  rw [hm] at e2 e3 e4
  refine ⟨?_, ?_, ?_⟩
  · show ∀ a ∈ (C12.Machine.processLoopAux env rr C12.loopFuel m1 acc).2.1, _
    rw [e1]
    intro a ha
    rcases List.mem_append.mp ha with h | h
    · exact hacc a h
    · exact e2 a h
  · intro ⟨p, hp⟩
    have hp' : C12.Action.commit p ∈ (C12.Machine.processLoopAux env rr C12.loopFuel m1 acc).2.1 := hp
    rw [e1] at hp'
    rcases List.mem_append.mp hp' with h | h
    · exact absurd h (hnc p)
    · exact e3 ⟨p, h⟩
  · intro hn
    apply e4
    intro p hp
    apply hn p
    show C12.Action.commit p ∈ (C12.Machine.processLoopAux env rr C12.loopFuel m1 acc).2.1
    rw [e1]; exact List.mem_append_right _ hp

theorem callHeights_quiet (m m1 : C12.Machine) (acts : List C12.Action)
    (hm : m1.state.height = m.state.height) (hacc : ∀ a ∈ acts, actH m.state.height a)
    (hnc : ∀ p, C12.Action.commit p ∉ acts) : CallHeights m (m1, acts) :=
  ⟨hacc, fun ⟨p, hp⟩ => absurd hp (hnc p), fun _ => hm⟩

theorem processMessage_callHeights (env : C12.Env) (m m1 : C12.Machine) (h : Nat) (r : Int)
    (w : C12.WalEntry) (hm : m1.state.height = m.state.height) :
    CallHeights m (m1.processMessage env h r w) := by
  unfold C12.Machine.processMessage
  split
  · exact callHeights_quiet m m1 _ hm (by intro a ha; simp at ha; subst ha; trivial)
      (by intro p hp; simp at hp)
  · exact processLoop_callHeights env m m1 _ _ hm (by intro a ha; simp at ha; subst ha; trivial)
      (by intro p hp; simp at hp)

theorem onTimeout_height (env : C12.Env) (m : C12.Machine) (s : C12.Step) (h : Nat) (r : Int) :
    (m.onTimeout env s h r).1.state.height = m.state.height ∧
    ∀ a ∈ (m.onTimeout env s h r).2, actH m.state.height a := by
  unfold C12.Machine.onTimeout
  cases s <;> simp only <;> split
  · simp [C12.Machine.setStepAndSendPrevote, actH]
  · simp
  · simp [C12.Machine.setStepAndSendPrecommit, actH]
  · simp
  · have := startRound_height env m (r + 1)
    refine ⟨this.1, ?_⟩
    intro a ha; simp at ha
    rcases ha with rfl | rfl
    · trivial
    · exact this.2
  · simp

/-- **Heights of one call of C12's machine**, every state, every input of the driver. -/
theorem step_callHeights (env : C12.Env) (m : C12.Machine) (ci : C12.Input)
    (hci : ∀ p vs, ci ≠ .sync p vs) (hw : ∀ e, ci ≠ .wal e) : CallHeights m (m.step env ci) := by
  cases ci with
  | start r =>
    simp only [C12.Machine.step, C12.Machine.processStart]
    split
    · exact callHeights_quiet m m [] rfl (by simp) (by simp)
    · have hs := startRound_height env { m with isHeightStarted := true } r
      have hn := C12.startRound_not_commit env { m with isHeightStarted := true } r
      have hl := processLoop_callHeights env m ({ m with isHeightStarted := true }.startRound env r).1
        [({ m with isHeightStarted := true }.startRound env r).2] none hs.1
        (by intro a ha; simp at ha; subst ha; exact hs.2)
        (by intro p hp; simp at hp; exact absurd hp.symm (hn p))
      refine ⟨?_, ?_, ?_⟩
      · intro a ha; simp at ha
        rcases ha with rfl | ha
        · trivial
        · exact hl.acts a ha
      · intro ⟨p, hp⟩; simp at hp; exact hl.commit ⟨p, hp⟩
      · intro hn'; exact hl.nocommit (fun p hp => hn' p (by simp [hp]))
  | proposal p =>
    simp only [C12.Machine.step, C12.Machine.processProposal]
    split
    · exact callHeights_quiet m _ [] rfl (by simp) (by simp)
    · exact processMessage_callHeights env m _ _ _ _ rfl
  | prevote v =>
    simp only [C12.Machine.step, C12.Machine.processPrevote]
    split
    · exact callHeights_quiet m _ [] rfl (by simp) (by simp)
    · exact processMessage_callHeights env m _ _ _ _ rfl
  | precommit v =>
    simp only [C12.Machine.step, C12.Machine.processPrecommit]
    split
    · exact callHeights_quiet m _ [] rfl (by simp) (by simp)
    · split
      · split
        · exact callHeights_quiet m _ _ rfl (by intro a ha; simp at ha; rcases ha with rfl | rfl <;> trivial)
            (by intro p hp; simp at hp)
        · exact processMessage_callHeights env m _ _ _ _ rfl
      · exact processMessage_callHeights env m _ _ _ _ rfl
  | timeout s h r =>
    simp only [C12.Machine.step, C12.Machine.processTimeout]
    have ho := onTimeout_height env m s h r
    -- since cd6cea9 C12's `processTimeout` returns at once when `onTimeout*` ignored the timeout
    split
    · exact callHeights_quiet m _ [] ho.1 (by simp) (by simp)
    · exact processLoop_callHeights env m _ _ none ho.1 ho.2 (C12.onTimeout_noCommit env m s h r)
  | sync p vs => exact absurd rfl (hci p vs)
  | wal e => exact absurd rfl (hw e)

/-! ## from C12's action lists to what the driver executes -/

/-- What the driver gets: `TriggerSync` left out. -/
def drvActs (acts : List C12.Action) : List Action := (acts.map convAction).filter (fun a => !a.isSync)

theorem drvActs_cons (a : C12.Action) (t : List C12.Action) :
    drvActs (a :: t) = (if (convAction a).isSync then [] else [convAction a]) ++ drvActs t := by
  simp only [drvActs, List.map_cons, List.filter_cons]
  by_cases h : (convAction a).isSync = true <;> simp [h]

theorem committed_drvActs (acts : List C12.Action) :
    committed (drvActs acts) = true ↔ ∃ p, C12.Action.commit p ∈ acts := by
  induction acts with
  | nil => simp [drvActs, committed]
  | cons a t ih =>
    rw [drvActs_cons]
    cases a <;> simp_all [convAction, Action.isSync, committed]

theorem committed_of_split (l pre post : List Action) (h : Nat) (v : Nat)
    (e : l = pre ++ Action.commit h v :: post) : committed l = true := by
  subst e
  induction pre with
  | nil => rfl
  | cons x pre ih => cases x <;> simp_all [committed]

/-- A commit is the last action the driver gets, and the only one. -/
theorem commitLast_drvActs (acts : List C12.Action) (hcl : C12.CommitLast acts) :
    ∀ pre h v post, drvActs acts = pre ++ Action.commit h v :: post →
      post = [] ∧ committed pre = false := by
  induction acts with
  | nil => intro pre h v post e; cases pre <;> simp [drvActs] at e
  | cons a t ih =>
    have hclt : C12.CommitLast t := by
      intro pre post p e
      exact hcl (a :: pre) post p (by rw [e]; rfl)
    intro pre h v post e
    rw [drvActs_cons] at e
    cases a with
    | commit p =>
      have ht : t = [] := hcl [] t p rfl
      subst ht
      simp only [convAction, Action.isSync, Bool.false_eq_true, if_false, drvActs, List.map_nil,
        List.filter_nil, List.append_nil] at e
      cases pre with
      | nil => simp at e; exact ⟨e.2, rfl⟩
      | cons y pre' => cases pre' <;> simp at e
    | triggerSync a b =>
      simp only [convAction, Action.isSync, if_true, List.nil_append] at e
      exact ih hclt pre h v post e
    | writeWAL w =>
      simp only [convAction, Action.isSync, Bool.false_eq_true, if_false, List.singleton_append] at e
      cases pre with
      | nil => simp at e
      | cons y pre' =>
        simp only [List.cons_append, List.cons.injEq] at e
        obtain ⟨h1, h2⟩ := ih hclt pre' h v post e.2
        exact ⟨h1, by rw [← e.1]; simpa [committed] using h2⟩
    | bcastProposal q =>
      simp only [convAction, Action.isSync, Bool.false_eq_true, if_false, List.singleton_append] at e
      cases pre with
      | nil => simp at e
      | cons y pre' =>
        simp only [List.cons_append, List.cons.injEq] at e
        obtain ⟨h1, h2⟩ := ih hclt pre' h v post e.2
        exact ⟨h1, by rw [← e.1]; simpa [committed] using h2⟩
    | bcastPrevote q =>
      simp only [convAction, Action.isSync, Bool.false_eq_true, if_false, List.singleton_append] at e
      cases pre with
      | nil => simp at e
      | cons y pre' =>
        simp only [List.cons_append, List.cons.injEq] at e
        obtain ⟨h1, h2⟩ := ih hclt pre' h v post e.2
        exact ⟨h1, by rw [← e.1]; simpa [committed] using h2⟩
    | bcastPrecommit q =>
      simp only [convAction, Action.isSync, Bool.false_eq_true, if_false, List.singleton_append] at e
      cases pre with
      | nil => simp at e
      | cons y pre' =>
        simp only [List.cons_append, List.cons.injEq] at e
        obtain ⟨h1, h2⟩ := ih hclt pre' h v post e.2
        exact ⟨h1, by rw [← e.1]; simpa [committed] using h2⟩
    | schedule st hh rr =>
      simp only [convAction, Action.isSync, Bool.false_eq_true, if_false, List.singleton_append] at e
      cases pre with
      | nil => simp at e
      | cons y pre' =>
        simp only [List.cons_append, List.cons.injEq] at e
        obtain ⟨h1, h2⟩ := ih hclt pre' h v post e.2
        exact ⟨h1, by rw [← e.1]; simpa [committed] using h2⟩

/-- The votes the driver broadcasts for an action list carry the height of the own messages. -/
theorem votes_drvActs (hh : Nat) (acts : List C12.Action) (ha : ∀ a ∈ acts, actH hh a) (v : Vote)
    (hv : v ∈ votesOf (effectsOf true (drvActs acts))) : v.h = hh := by
  unfold drvActs at hv
  rw [votes_filter_sync] at hv
  have := votes_effects_sub acts v hv
  unfold voteIn at this
  cases hk : v.kind <;> simp only [hk] at this <;> obtain ⟨s, hs⟩ := this <;> exact ha _ hs

theorem timers_drvActs (hh : Nat) (acts : List C12.Action) (ha : ∀ a ∈ acts, actH hh a) (t : Timer)
    (ht : t ∈ timersOf (effectsOf true (drvActs acts))) : t.h = hh := by
  induction acts with
  | nil => simp [drvActs, effectsOf, timersOf] at ht
  | cons a rest ih =>
    have hrest := ih (fun b hb => ha b (List.mem_cons_of_mem _ hb))
    have ha0 := ha a List.mem_cons_self
    rw [drvActs_cons] at ht
    cases a with
    | commit p => simp [convAction, Action.isSync, effectsOf, timersOf, Effect.timer?] at ht
    | schedule st h2 r2 =>
      simp only [convAction, Action.isSync, Bool.false_eq_true, if_false, List.singleton_append,
        effectsOf, Bool.not_true, Bool.false_and, List.nil_append, timersOf, List.filterMap_cons,
        Effect.timer?, List.mem_cons] at ht
      rcases ht with rfl | ht
      · exact ha0
      · exact hrest ht
    | _ =>
      simp only [convAction, Action.isSync, Bool.false_eq_true, if_false, if_true,
        List.singleton_append, List.nil_append, effectsOf, Bool.not_true, Bool.false_and,
        timersOf, List.filterMap_cons, Effect.timer?] at ht
      exact hrest ht

/-! ## the machine-level statements -/

/-- juno's machine with the fix, as the driver's log / broadcast / timer / commit logic sees it. -/
def tmQT (env : C12.Env) (node : Nat) : Machine C12.Machine := quietOf (tmMachineT env node)

theorem tmQT_step (env : C12.Env) (node : Nat) (m : C12.Machine) (i : Input) :
    (tmQT env node).step m i =
      (((tmMachineT env node).step m i).1,
        ((tmMachineT env node).step m i).2.filter (fun a => !a.isSync)) := rfl

/-- One call of the fixed machine is a call of C12's machine (or does nothing). -/
theorem tmT_step_spec (env : C12.Env) (node : Nat) (m : C12.Machine) (i : Input) :
    ∃ m' acts, (tmMachineT env node).step m i = (m', acts.map convAction) ∧
      CallHeights m (m', acts) ∧ C12.CallOK (m', acts) := by
  have triv : CallHeights m (m, []) ∧ C12.CallOK (m, []) :=
    ⟨callHeights_quiet m m [] rfl (by simp) (by simp),
      C12.callOK_noCommit m [] (by intro p hp; cases hp)⟩
  by_cases hig : timeoutIgnored env m i = true
  · exact ⟨m, [], by simp [tmMachineT, hig], triv⟩
  · have hstep : (tmMachineT env node).step m i = (tmMachine env node).step m i := by
      simp [tmMachineT, hig]
    rw [hstep]
    simp only [tmMachine]
    cases hci : convInput i with
    | none => exact ⟨m, [], rfl, triv⟩
    | some ci =>
      refine ⟨(m.step env ci).1, (m.step env ci).2, rfl, ?_, C12.step_commit_last env m ci⟩
      apply step_callHeights
      · intro p vs h; subst h; cases i <;> simp [convInput] at hci
      · intro e h; subst h; cases i <;> simp [convInput] at hci

theorem tmQT_step_spec (env : C12.Env) (node : Nat) (m : C12.Machine) (i : Input) :
    ∃ m' acts, (tmQT env node).step m i = (m', drvActs acts) ∧
      CallHeights m (m', acts) ∧ C12.CallOK (m', acts) := by
  obtain ⟨m', acts, e, h1, h2⟩ := tmT_step_spec env node m i
  exact ⟨m', acts, by rw [tmQT_step, e]; rfl, h1, h2⟩

theorem walOf_filter_sync (l : List Action) : walOf (l.filter (fun a => !a.isSync)) = walOf l := by
  induction l with
  | nil => rfl
  | cons a t ih => cases a <;> simp_all [Action.isSync, walOf, List.filter]

theorem tmQT_logged_first (env : C12.Env) (node : Nat) (m : C12.Machine) (i : Input) :
    LoggedFirst i ((tmQT env node).step m i).2 := by
  rw [tmQT_step]
  rcases tmT_logged_first env node m i with h | ⟨e, rest, h, he, hw⟩
  · left; simp [h]
  · right
    refine ⟨e, rest.filter (fun a => !a.isSync), ?_, he, by rw [walOf_filter_sync]; exact hw⟩
    simp [h, Action.isSync]

theorem onTimeout_nonempty (env : C12.Env) (m : C12.Machine) (s : C12.Step) (h : Nat) (r : Int)
    (hne : (m.onTimeout env s h r).2.isEmpty = false) : m.state.height = h := by
  unfold C12.Machine.onTimeout at hne
  cases s <;> simp only at hne <;> split at hne <;>
    simp_all [C12.Machine.isSameHeightAndRound]

/-- The first action of a call, when it is the log entry of a timeout or of `start`, carries the
machine's height. -/
theorem tmT_entry_current (env : C12.Env) (node : Nat) (m : C12.Machine) (i : Input) (e : Entry)
    (rest : List Action) (h : ((tmMachineT env node).step m i).2 = Action.writeWAL e :: rest)
    (hk : e.isTimeout = true ∨ i = Input.start) : e.height = m.state.height := by
  by_cases hig : timeoutIgnored env m i = true
  · simp [tmMachineT, hig] at h
  · rcases tmT_logged_first env node m i with h0 | ⟨e', rest', h1, he, _⟩
    · rw [h0] at h; cases h
    · rw [h1] at h
      have : e' = e := by injection h with h2 _; injection h2
      subst this
      cases i with
      | start =>
        have hstep : (tmMachineT env node).step m .start = (tmMachine env node).step m .start := by
          simp [tmMachineT, hig]
        rw [hstep] at h1
        simp only [tmMachine, convInput, C12.Machine.step, C12.Machine.processStart] at h1
        split at h1
        · cases h1
        · simp only [List.map_cons, convAction, convEntry] at h1
          injection h1 with h2 _
          injection h2 with h3
          rw [← h3]; rfl
      | timeout st hh r =>
        have hee : e' = Entry.timeout st hh r := by
          cases e' <;> simp [Entry.toInput] at he
          obtain ⟨h1, h2, h3⟩ := he
          rw [h1, h2, h3]
        subst hee
        simp only [Entry.height]
        cases hs : stepOfNat st with
        | none =>
          have : (tmMachineT env node).step m (.timeout st hh r) = (m, []) := by
            simp [tmMachineT, tmMachine, convInput, hs, timeoutIgnored]
          rw [this] at h1; cases h1
        | some sp =>
          simp only [timeoutIgnored, hs, Bool.not_eq_true] at hig
          exact (onTimeout_nonempty env m sp hh r hig).symm
      | proposal a b c d f =>
        rcases hk with hk | hk
        · cases e' <;> simp [Entry.toInput] at he; simp [Entry.isTimeout] at hk
        · cases hk
      | prevote a b c d =>
        rcases hk with hk | hk
        · cases e' <;> simp [Entry.toInput] at he; simp [Entry.isTimeout] at hk
        · cases hk
      | precommit a b c d =>
        rcases hk with hk | hk
        · cases e' <;> simp [Entry.toInput] at he; simp [Entry.isTimeout] at hk
        · cases hk

/-- What is left of `ReplaySafeUpTo` once the shape fields are proved: the state-relation part
(`bisim`, an ignored input leaves an equivalent state, `commute`, `commit_reset`) and two facts that
hold in every REACHABLE state of juno's machine but not for arbitrary records of its state type
(C12's invariant `MInv`: the vote counter is at the state's height, a stored proposal carries the
height of its slot): an accepted message is not below the current height, a commit is for the
current height. -/
structure ReplaySafeRest {S : Type} (M : Machine S) (r : Setoid S) : Prop where
  bisim : Bisim M r
  inert_equiv : ∀ s i, (M.started s = true ∨ i = Input.start) → (M.step s i).2 = [] →
    r.r (M.step s i).1 s
  entry_height : ∀ s i e rest, (M.started s = true ∨ i = Input.start) →
    (M.step s i).2 = Action.writeWAL e :: rest → M.height s ≤ e.height
  commit_height : ∀ s i pre h v post, (M.step s i).2 = pre ++ Action.commit h v :: post →
    h = M.height s
  commute : ∀ s (a b : Entry), M.height s ≤ b.height → b.height < a.height → a.toInput ≠ Input.start →
    r.r (replayStep M (replayStep M s a).1 b).1 (replayStep M (replayStep M s b).1 a).1 ∧
    visA (replayStep M (replayStep M s b).1 a).2 = [] ∧
    visA (replayStep M (replayStep M s a).1 b).2 = visA (replayStep M s b).2
  commit_reset : ∀ h (A : List Entry) e, (∀ x ∈ A ++ [e], x.height = h) →
    committed (replayStep M (replayRun M (M.init h) A).1 e).2 = true →
    r.r (replayStep M (replayRun M (M.init h) A).1 e).1 (M.init (h + 1))

theorem tmQT_unstarted_msg (env : C12.Env) (node : Nat) (m : C12.Machine) (i : Input)
    (hs : m.isHeightStarted = false) (hi : i ≠ Input.start) (ht : i.isTimeout = false) :
    ((tmQT env node).step m i).2 = [] ∧ ((tmQT env node).step m i).1.isHeightStarted = false ∧
      ((tmQT env node).step m i).1.state.height = m.state.height := by
  rw [tmQT_step]
  cases i with
  | start => exact absurd rfl hi
  | timeout => simp [Input.isTimeout] at ht
  | proposal h r s vr v =>
    simp [tmMachineT, timeoutIgnored, tmMachine, convInput, C12.Machine.step,
      C12.Machine.processProposal, hs]
  | prevote h r s id =>
    simp [tmMachineT, timeoutIgnored, tmMachine, convInput, C12.Machine.step,
      C12.Machine.processPrevote, hs]
  | precommit h r s id =>
    simp [tmMachineT, timeoutIgnored, tmMachine, convInput, C12.Machine.step,
      C12.Machine.processPrecommit, hs]

theorem processMessage_other_height (env : C12.Env) (m : C12.Machine) (h : Nat) (r : Int)
    (w : C12.WalEntry) (hne : h ≠ m.state.height) :
    m.processMessage env h r w = (m, [C12.Action.writeWAL w]) := by
  simp [C12.Machine.processMessage, hne]

/-- A message or timeout of a FUTURE height: nothing visible, `started` unchanged. -/
theorem tmQT_future_silent (env : C12.Env) (node : Nat) (m : C12.Machine) (a : Entry)
    (hlt : m.state.height < a.height) (hns : a.toInput ≠ Input.start) :
    visA ((tmQT env node).step m a.toInput).2 = [] ∧
      ((tmQT env node).step m a.toInput).1.isHeightStarted = m.isHeightStarted := by
  rw [tmQT_step]
  cases a with
  | start h => exact absurd rfl hns
  | timeout st h r =>
    simp only [Entry.height] at hlt
    have hig : ((tmMachineT env node).step m (Entry.timeout st h r).toInput) = (m, []) := by
      simp only [Entry.toInput, tmMachineT]
      cases hs : stepOfNat st with
      | none => simp [timeoutIgnored, hs, tmMachine, convInput]
      | some sp =>
        have : timeoutIgnored env m (.timeout st h r) = true := by
          simp only [timeoutIgnored, hs]
          cases hE : (m.onTimeout env sp h r).2.isEmpty with
          | true => rfl
          | false => exact absurd (onTimeout_nonempty env m sp h r hE) (by omega)
        simp [this]
    rw [hig]; exact ⟨rfl, rfl⟩
  | proposal h r s vr v =>
    simp only [Entry.height] at hlt
    have hne : h ≠ m.state.height := by omega
    simp only [Entry.toInput, tmMachineT, timeoutIgnored, Bool.false_eq_true, if_false, tmMachine,
      convInput, C12.Machine.step, C12.Machine.processProposal]
    split
    · exact ⟨rfl, rfl⟩
    · simp [C12.Machine.processMessage, hne, visA, visibleOf, effectsOf, convAction, Action.isSync]
  | prevote h r s id =>
    simp only [Entry.height] at hlt
    have hne : h ≠ m.state.height := by omega
    simp only [Entry.toInput, tmMachineT, timeoutIgnored, Bool.false_eq_true, if_false, tmMachine,
      convInput, C12.Machine.step, C12.Machine.processPrevote]
    split
    · exact ⟨rfl, rfl⟩
    · simp [C12.Machine.processMessage, hne, visA, visibleOf, effectsOf, convAction, Action.isSync]
  | precommit h r s id =>
    simp only [Entry.height] at hlt
    have hne : h ≠ m.state.height := by omega
    simp only [Entry.toInput, tmMachineT, timeoutIgnored, Bool.false_eq_true, if_false, tmMachine,
      convInput, C12.Machine.step, C12.Machine.processPrecommit]
    split
    · exact ⟨rfl, rfl⟩
    · split
      · split
        · exact ⟨rfl, rfl⟩
        · simp [C12.Machine.processMessage, hne, visA, visibleOf, effectsOf, convAction, Action.isSync]
      · simp [C12.Machine.processMessage, hne, visA, visibleOf, effectsOf, convAction, Action.isSync]

/-- **The shape hypotheses hold for juno's machine with the fix**: `ReplaySafeUpTo` follows from
the state-relation part alone. -/
theorem tmQT_replaySafeUpTo (env : C12.Env) (node : Nat) (r : Setoid C12.Machine)
    (h : ReplaySafeRest (tmQT env node) r) : ReplaySafeUpTo (tmQT env node) r where
  bisim := h.bisim
  height_init := fun _ => rfl
  started_init := fun _ => rfl
  logged_or_inert := by
    intro m i hst
    rcases tmQT_logged_first env node m i with h0 | ⟨e, rest, h1, he, hw⟩
    · exact Or.inl ⟨h.inert_equiv m i hst h0, h0⟩
    · refine Or.inr ⟨e, rest, h1, he, h.entry_height m i e rest hst h1, ?_, hw⟩
      intro hi
      rw [tmQT_step] at h1
      rcases tmT_logged_first env node m i with h0 | ⟨e', rest', h2, _, _⟩
      · rw [h0] at h1; cases h1
      · have : e' = e := by
          rw [h2] at h1; simp [Action.isSync] at h1; exact h1.1
        subst this
        exact tmT_entry_current env node m i e' rest' h2 (Or.inr hi)
  timeout_entry_current := by
    intro m i e rest h1 ht
    rw [tmQT_step] at h1
    rcases tmT_logged_first env node m i with h0 | ⟨e', rest', h2, _, _⟩
    · rw [h0] at h1; cases h1
    · have : e' = e := by
        rw [h2] at h1; simp [Action.isSync] at h1; exact h1.1
      subst this
      exact tmT_entry_current env node m i e' rest' h2 (Or.inl ht)
  height_mono := by
    intro m i
    obtain ⟨m', acts, e, hh, _⟩ := tmQT_step_spec env node m i
    rw [e]
    show m.state.height ≤ m'.state.height
    by_cases hc : ∃ p, C12.Action.commit p ∈ acts
    · have := hh.commit hc; simp only at this; omega
    · have := hh.nocommit (fun p hp => hc ⟨p, hp⟩); simp only at this; omega
  commit_last := by
    intro m i pre hh v post hsplit
    obtain ⟨m', acts, e, hH, hC⟩ := tmQT_step_spec env node m i
    rw [e] at hsplit ⊢
    simp only at hsplit ⊢
    obtain ⟨h1, h2⟩ := commitLast_drvActs acts hC.1 pre hh v post hsplit
    have hc : ∃ p, C12.Action.commit p ∈ acts :=
      (committed_drvActs acts).1 (committed_of_split _ pre post hh v hsplit)
    have hch := h.commit_height m i pre hh v post (by rw [e]; exact hsplit)
    refine ⟨h1, h2, hch, ?_, hC.2 hc⟩
    have := hH.commit hc
    simp only at this
    show m'.state.height = hh + 1
    rw [this, hch]; rfl
  no_commit_height := by
    intro m i hnc
    obtain ⟨m', acts, e, hH, _⟩ := tmQT_step_spec env node m i
    rw [e] at hnc ⊢
    simp only at hnc ⊢
    have : ∀ p, C12.Action.commit p ∉ acts := by
      intro p hp
      have := (committed_drvActs acts).2 ⟨p, hp⟩
      rw [this] at hnc; cases hnc
    exact hH.nocommit this
  votes_current_height := by
    intro m i v hv
    obtain ⟨m', acts, e, hH, _⟩ := tmQT_step_spec env node m i
    rw [e] at hv
    exact votes_drvActs m.state.height acts hH.acts v hv
  timers_current_height := by
    intro m i t ht
    obtain ⟨m', acts, e, hH, _⟩ := tmQT_step_spec env node m i
    rw [e] at ht
    exact timers_drvActs m.state.height acts hH.acts t ht
  unstarted_silent := by
    intro m i hs hi ht
    obtain ⟨h1, h2, h3⟩ := tmQT_unstarted_msg env node m i hs hi ht
    exact ⟨by rw [h1]; rfl, h2, h3⟩
  future_silent := fun m a hlt hns => tmQT_future_silent env node m a hlt hns
  commute := h.commute
  commit_reset := h.commit_reset

end Juno.C13
