import JunoModel.C13.ProofsCrash2
/-!
C13 — helper lemmas, part 7: crash points DURING a recovery, the boundary context AFTER a recovery,
and hence histories with any number of crashes (`Moment`).
-/
namespace Juno.C13
variable {S : Type}

/-! ## The node while a replay runs on the crashed node `m` -/

def RPh0 (m x : Node) : Prop := x.store = m.store ∧ x.chainHeight = m.chainHeight
def RPh1 (m : Node) (h : Nat) (x : Node) : Prop := x.store = m.store ∧ x.chainHeight = h
def RPh2 (m : Node) (h : Nat) (x : Node) : Prop :=
  x.store = ⟨[Rec.prune h], m.store.flushed⟩ ∧ x.chainHeight = h
def RPh3 (m : Node) (h : Nat) (x : Node) : Prop :=
  x.store = ⟨[], m.store.flushed ++ [Rec.prune h]⟩ ∧ x.chainHeight = h

theorem effects_inert_of_nocommit (acts : List Action) (h : committed acts = false) :
    ∀ y ∈ effectsOf true acts, y.inert = true := by
  induction acts with
  | nil => intro y hy; simp [effectsOf] at hy
  | cons a rest ih =>
    cases a <;> simp only [committed] at h <;> try (cases h)
    all_goals
      intro y hy
      simp only [effectsOf, Bool.not_true, Bool.false_and, Bool.false_eq_true, if_false,
        List.nil_append, if_true, List.mem_cons] at hy
      first
        | exact ih h y hy
        | (rcases hy with rfl | hy
           · rfl
           · exact ih h y hy)

theorem applyEffects_inert (x : Node) (q : List Effect) (h : ∀ y ∈ q, y.inert = true) :
    (applyEffects x q).store = x.store ∧ (applyEffects x q).chainHeight = x.chainHeight := by
  induction q generalizing x with
  | nil => exact ⟨rfl, rfl⟩
  | cons y q ih =>
    obtain ⟨a, b⟩ := inert_node x y (h y (by simp))
    obtain ⟨c, d⟩ := ih (applyEffect x y) (fun z hz => h z (by simp [hz]))
    rw [applyEffects_cons]
    exact ⟨c.trans a, d.trans b⟩

theorem nocommit_prefix_same (acts : List Action) (h : committed acts = false) (x : Node)
    (q post : List Effect) (hs : effectsOf true acts = q ++ post) :
    (applyEffects x q).store = x.store ∧ (applyEffects x q).chainHeight = x.chainHeight :=
  applyEffects_inert x q (fun y hy =>
    effects_inert_of_nocommit acts h y (by rw [hs]; simp [hy]))

/-- The prefixes of the effects of a committing action list, replay mode. -/
theorem commit_prefix_phases (m : Node) (hm : m.store.pending = []) (h v : Nat)
    (hp : m.store.pruned < h) (pre : List Action) (hpre : committed pre = false) (x : Node)
    (hx : RPh0 m x) (q post : List Effect)
    (hs : effectsOf true (pre ++ [Action.commit h v]) = q ++ post) :
    (RPh0 m (applyEffects x q) ∧ post ≠ []) ∨ (RPh1 m h (applyEffects x q) ∧ post ≠ []) ∨
    (RPh2 m h (applyEffects x q) ∧ post ≠ []) ∨ (RPh3 m h (applyEffects x q) ∧ post = []) := by
  rw [effectsOf_append_nocommit true pre _ hpre] at hs
  have htail : effectsOf true [Action.commit h v] =
      [Effect.deliver h v, Effect.prune h, Effect.flush] := by simp [effectsOf]
  rw [htail] at hs
  have hinert := effects_inert_of_nocommit pre hpre
  rcases List.append_eq_append_iff.1 hs with ⟨a', h1, h2⟩ | ⟨c', h1, h2⟩
  · -- q = effects(pre) ++ a', a' a prefix of [deliver, prune, flush]
    obtain ⟨s0, c0⟩ := applyEffects_inert x (effectsOf true pre) hinert
    have hx0 : RPh0 m (applyEffects x (effectsOf true pre)) :=
      ⟨s0.trans hx.1, c0.trans hx.2⟩
    rw [h1, applyEffects_append]
    generalize applyEffects x (effectsOf true pre) = y at hx0
    rcases a' with _ | ⟨e1, a'⟩
    · exact Or.inl ⟨hx0, by intro hp'; subst hp'; simp at h2⟩
    · simp only [List.cons_append, List.cons.injEq] at h2
      obtain ⟨rfl, h2⟩ := h2
      have hy1 : RPh1 m h (applyEffect y (Effect.deliver h v)) := ⟨hx0.1, rfl⟩
      rcases a' with _ | ⟨e2, a'⟩
      · exact Or.inr (Or.inl ⟨hy1, by intro hp'; subst hp'; simp at h2⟩)
      · simp only [List.cons_append, List.cons.injEq] at h2
        obtain ⟨rfl, h2⟩ := h2
        have hy2 : RPh2 m h (applyEffect (applyEffect y (Effect.deliver h v)) (Effect.prune h)) := by
          refine ⟨?_, hy1.2⟩
          show (applyEffect y (Effect.deliver h v)).store.delete h = _
          rw [hy1.1]
          have hlt : ¬ h ≤ m.store.pruned := by omega
          simp [Store.delete, hlt, hm, raisePrune]
        rcases a' with _ | ⟨e3, a'⟩
        · exact Or.inr (Or.inr (Or.inl ⟨hy2, by intro hp'; subst hp'; simp at h2⟩))
        · simp only [List.cons_append, List.cons.injEq] at h2
          obtain ⟨rfl, h2⟩ := h2
          obtain ⟨ha', hpost⟩ := List.append_eq_nil_iff.1 h2.symm
          subst ha'
          refine Or.inr (Or.inr (Or.inr ⟨⟨?_, hy2.2⟩, hpost⟩))
          show (applyEffect (applyEffect y (Effect.deliver h v)) (Effect.prune h)).store.flush = _
          rw [hy2.1]
          simp [Store.flush]
  · -- q lies within the effects of `pre`
    obtain ⟨s0, c0⟩ := applyEffects_inert x q (fun y hy => hinert y (by rw [h1]; simp [hy]))
    refine Or.inl ⟨⟨s0.trans hx.1, c0.trans hx.2⟩, ?_⟩
    rw [h2]; simp

/-- Where the node is after a prefix of a replay that starts at height `c + 1` on the crashed node
`m` (chain `c`), given that the replay ends at height `≤ c + 2`. -/
theorem replay_phases (M : Machine S) (hs : ReplaySafe M) (m : Node) (hm : m.store.pending = [])
    (hp : m.store.pruned < m.chainHeight + 1) :
    ∀ (X : List Entry) (t : S) (x : Node),
      ((RPh0 m x ∧ M.height t = m.chainHeight + 1) ∨
        (RPh3 m (m.chainHeight + 1) x ∧ M.height t = m.chainHeight + 2)) →
      M.height (replayRun M t X).1 ≤ m.chainHeight + 2 →
      ∀ q post, (replayRun M t X).2 = q ++ post →
        (RPh0 m (applyEffects x q) ∧
          (post = [] → M.height (replayRun M t X).1 = m.chainHeight + 1)) ∨
        ((RPh1 m (m.chainHeight + 1) (applyEffects x q) ∨ RPh2 m (m.chainHeight + 1) (applyEffects x q)) ∧
          post ≠ [] ∧ M.height (replayRun M t X).1 = m.chainHeight + 2) ∨
        (RPh3 m (m.chainHeight + 1) (applyEffects x q) ∧
          M.height (replayRun M t X).1 = m.chainHeight + 2) := by
  intro X
  induction X with
  | nil =>
    intro t x hph _ q post hsplit
    obtain ⟨hq, _⟩ := List.append_eq_nil_iff.1 (by simpa [replayRun] using hsplit.symm)
    subst hq
    rcases hph with ⟨h0, ht⟩ | ⟨h3, ht⟩
    · exact Or.inl ⟨h0, fun _ => ht⟩
    · exact Or.inr (Or.inr ⟨h3, ht⟩)
  | cons e X ih =>
    intro t x hph hbound q post hsplit
    simp only [replayRun] at hsplit hbound ⊢
    have hmono1 := replayStep_height_mono M hs t e
    have hmono2 := replayRun_height_mono M hs X (replayStep M t e).1
    -- facts about this entry's step
    have hstepfacts : (committed (replayStep M t e).2 = false ∧
          M.height (replayStep M t e).1 = M.height t) ∨
        (∃ pre v, (replayStep M t e).2 = pre ++ [Action.commit (M.height t) v] ∧
          committed pre = false ∧ M.height (replayStep M t e).1 = M.height t + 1) := by
      unfold replayStep
      split
      · exact Or.inl ⟨rfl, rfl⟩
      · cases hc : committed (M.step t e.toInput).2
        · exact Or.inl ⟨rfl, hs.no_commit_height t _ hc⟩
        · obtain ⟨pre, hh, v, post', hsp, hpre⟩ := split_commit _ hc
          obtain ⟨hpost, _, hheq, hnew, _⟩ := hs.commit_last t e.toInput pre hh v post' hsp
          subst hpost; subst hheq
          exact Or.inr ⟨pre, v, hsp, hpre, hnew⟩
    rcases List.append_eq_append_iff.1 hsplit with ⟨a', h1, h2⟩ | ⟨c', h1, h2⟩
    · -- the prefix goes beyond this entry's effects
      rw [h1, applyEffects_append]
      rcases hstepfacts with ⟨hnc, hh⟩ | ⟨pre, v, hacts, hpre, hh⟩
      · obtain ⟨s0, c0⟩ := nocommit_prefix_same _ hnc x (effectsOf true (replayStep M t e).2) [] (by simp)
        refine ih _ _ ?_ hbound a' post h2
        rcases hph with ⟨h0, ht⟩ | ⟨h3, ht⟩
        · exact Or.inl ⟨⟨s0.trans h0.1, c0.trans h0.2⟩, by rw [hh]; exact ht⟩
        · exact Or.inr ⟨⟨s0.trans h3.1, c0.trans h3.2⟩, by rw [hh]; exact ht⟩
      · rcases hph with ⟨h0, ht⟩ | ⟨h3, ht⟩
        · have hph := commit_prefix_phases m hm (M.height t) v (by rw [ht]; exact hp) pre hpre x h0
            (effectsOf true (replayStep M t e).2) [] (by rw [hacts]; simp)
          rcases hph with ⟨_, hne⟩ | ⟨_, hne⟩ | ⟨_, hne⟩ | ⟨h3', _⟩
          · exact absurd rfl hne
          · exact absurd rfl hne
          · exact absurd rfl hne
          · rw [ht] at h3'
            exact ih _ _ (Or.inr ⟨h3', by rw [hh, ht]⟩) hbound a' post h2
        · -- a second commit would exceed the final height
          omega
    · -- the prefix ends within this entry's effects
      by_cases hc' : c' = []
      · -- exactly at the end: same as going beyond with an empty remainder
        subst hc'
        simp only [List.append_nil] at h1
        simp only [List.nil_append] at h2
        rcases hstepfacts with ⟨hnc, hh⟩ | ⟨pre, v, hacts, hpre, hh⟩
        · obtain ⟨s0, c0⟩ := nocommit_prefix_same _ hnc x q [] (by rw [h1]; simp)
          have := ih (replayStep M t e).1 (applyEffects x q) (by
            rcases hph with ⟨h0, ht⟩ | ⟨h3, ht⟩
            · exact Or.inl ⟨⟨s0.trans h0.1, c0.trans h0.2⟩, by rw [hh]; exact ht⟩
            · exact Or.inr ⟨⟨s0.trans h3.1, c0.trans h3.2⟩, by rw [hh]; exact ht⟩) hbound [] post h2.symm
          simpa [applyEffects] using this
        · rcases hph with ⟨h0, ht⟩ | ⟨h3, ht⟩
          · have hph := commit_prefix_phases m hm (M.height t) v (by rw [ht]; exact hp) pre hpre x h0
              q [] (by rw [← hacts, h1]; simp)
            rcases hph with ⟨_, hne⟩ | ⟨_, hne⟩ | ⟨_, hne⟩ | ⟨h3', _⟩
            · exact absurd rfl hne
            · exact absurd rfl hne
            · exact absurd rfl hne
            · rw [ht] at h3'
              have := ih (replayStep M t e).1 (applyEffects x q) (Or.inr ⟨h3', by rw [hh, ht]⟩)
                hbound [] post h2.symm
              simpa [applyEffects] using this
          · omega
      · have hpostne : post ≠ [] := by rw [h2]; simp [hc']
        rcases hstepfacts with ⟨hnc, hh⟩ | ⟨pre, v, hacts, hpre, hh⟩
        · obtain ⟨s0, c0⟩ := nocommit_prefix_same _ hnc x q c' h1
          rcases hph with ⟨h0, ht⟩ | ⟨h3, ht⟩
          · exact Or.inl ⟨⟨s0.trans h0.1, c0.trans h0.2⟩, fun hp' => absurd hp' hpostne⟩
          · exact Or.inr (Or.inr ⟨⟨s0.trans h3.1, c0.trans h3.2⟩, by omega⟩)
        · rcases hph with ⟨h0, ht⟩ | ⟨h3, ht⟩
          · have hfin : M.height (replayRun M (replayStep M t e).1 X).1 = m.chainHeight + 2 := by omega
            have hph := commit_prefix_phases m hm (M.height t) v (by rw [ht]; exact hp) pre hpre x h0
              q c' (by rw [← hacts]; exact h1)
            rw [ht] at hph
            rcases hph with ⟨h0', _⟩ | ⟨h1', _⟩ | ⟨h2', _⟩ | ⟨h3', _⟩
            · exact Or.inl ⟨h0', fun hp' => absurd hp' hpostne⟩
            · exact Or.inr (Or.inl ⟨Or.inl h1', hpostne, hfin⟩)
            · exact Or.inr (Or.inl ⟨Or.inr h2', hpostne, hfin⟩)
            · exact Or.inr (Or.inr ⟨h3', hfin⟩)
          · omega

/-! ## Recovery from a durable image -/

theorem recover_unfold (M : Machine S) (hs : ReplaySafe M) (n : Node) (Ed : List Entry) (p : Nat)
    (hp : p ≤ n.chainHeight) (hview : (view n.store.flushed).2 = above p Ed) :
    recover M n =
      ((replayRun M (M.init (n.chainHeight + 1)) (sortByHeight (above n.chainHeight Ed))).1,
       (replayRun M (M.init (n.chainHeight + 1)) (sortByHeight (above n.chainHeight Ed))).2,
       applyEffects n.crash
         (replayRun M (M.init (n.chainHeight + 1)) (sortByHeight (above n.chainHeight Ed))).2) := by
  have hload : n.crash.store.load = sortByHeight (above p Ed) := by
    simp [Node.crash, Store.crash, Store.load, hview]
  have hch : n.crash.chainHeight = n.chainHeight := rfl
  have hrun : replayRun M (M.init (n.chainHeight + 1)) (sortByHeight (above p Ed)) =
      replayRun M (M.init (n.chainHeight + 1)) (sortByHeight (above n.chainHeight Ed)) := by
    rw [skipStale M hs n.chainHeight _ _ (by rw [hs.height_init]; exact Nat.le_refl _)]
    have : above n.chainHeight (sortByHeight (above p Ed)) = sortByHeight (above n.chainHeight Ed) := by
      unfold above
      rw [sort_filter]
      exact congrArg sortByHeight (above_above p n.chainHeight Ed hp)
    rw [this]
  simp only [recover, hload, hch, hrun]

theorem votes_prefix_sub (q post : List Effect) (v : Vote) (h : v ∈ votesOf q) :
    v ∈ votesOf (q ++ post) := by
  rw [votesOf_append, List.mem_append]; exact Or.inl h

/-- **Crash points during a recovery, and the context after it.** From a durable image: every prefix
of the replay's effects leaves a durable image again, and when the replay is complete the boundary
context holds for the recovered machine — which is in the state of the uncrashed reference run. -/
theorem recovery_durable (M : Machine S) (hs : ReplaySafe M) (c0 : Nat) (n : Node)
    (hist : List Effect) (hd : Durable M c0 n hist) :
    (∀ q post, (recover M n).2.1 = q ++ post →
      Durable M c0 (applyEffects n.crash q) (hist ++ q)) ∧
    ∃ insd sd Ed trd, (recover M n).1 = sd ∧
      Ctx M c0 insd sd Ed (M.height sd - 1) trd (hist ++ (recover M n).2.1) (recover M n).2.2 := by
  obtain ⟨sd, Ed, trd, p, insd, href, hW, hL, hb1, hb2, hp, hview, hent, hv⟩ := hd
  have hun := recover_unfold M hs n Ed p hp (by rw [hview])
  rw [hun]
  simp only
  -- the crashed node
  have hm : n.crash.store.pending = [] := rfl
  have hmf : n.crash.store.flushed = n.store.flushed := rfl
  have hmc : n.crash.chainHeight = n.chainHeight := rfl
  have hpr : n.crash.store.pruned = p := by simp [Store.pruned, hmf, hview]
  have hstate : (replayRun M (M.init (n.chainHeight + 1))
      (sortByHeight (above n.chainHeight Ed))).1 = sd := hW.state.symm
  have hph := replay_phases M hs n.crash hm (by rw [hpr, hmc]; omega)
    (sortByHeight (above n.chainHeight Ed)) (M.init (n.chainHeight + 1)) n.crash
    (Or.inl ⟨⟨rfl, rfl⟩, by rw [hs.height_init]; rfl⟩) (by rw [hmc, hstate]; exact hb2)
  rw [hmc, hstate] at hph
  -- votes of a replay prefix are votes of the reference run
  have hvq : ∀ q post, (replayRun M (M.init (n.chainHeight + 1))
      (sortByHeight (above n.chainHeight Ed))).2 = q ++ post →
      ∀ v ∈ votesOf (hist ++ q), v ∈ votesOf trd := by
    intro q post hsp v hvv
    rw [votesOf_append, List.mem_append] at hvv
    rcases hvv with hvv | hvv
    · exact hv v hvv
    · exact hW.votesR v (by rw [hsp]; exact votes_prefix_sub q post v hvv)
  -- durable image for each phase
  have mkDur : ∀ q post, (replayRun M (M.init (n.chainHeight + 1))
      (sortByHeight (above n.chainHeight Ed))).2 = q ++ post →
      Durable M c0 (applyEffects n.crash q) (hist ++ q) := by
    intro q post hsp
    rcases hph q post hsp with ⟨h0, _⟩ | ⟨h12, _, hfin⟩ | ⟨h3, hfin⟩
    · refine ⟨sd, Ed, trd, p, insd, href, ?_, hL, ?_, ?_, ?_, ?_, ?_, hvq q post hsp⟩
      · rw [h0.2, hmc]; exact hW
      · rw [h0.2, hmc]; exact hb1
      · rw [h0.2, hmc]; exact hb2
      · rw [h0.2, hmc]; exact hp
      · rw [h0.1, hmf]; exact hview
      · rw [h0.1, hmf]; exact hent
    · have hbase : M.height sd - 1 = n.chainHeight + 1 := by omega
      have hLW := hL.toW
      rw [hbase] at hLW
      have hfl : (applyEffects n.crash q).store.flushed = n.store.flushed ∧
          (applyEffects n.crash q).chainHeight = n.chainHeight + 1 := by
        rcases h12 with h | h
        · exact ⟨by rw [h.1, hmf], h.2⟩
        · exact ⟨by rw [h.1]; exact hmf, h.2⟩
      refine ⟨sd, Ed, trd, p, insd, href, ?_, hL, ?_, ?_, ?_, ?_, ?_, hvq q post hsp⟩
      · rw [hfl.2]; exact hLW
      · rw [hfl.2]; omega
      · rw [hfl.2]; omega
      · rw [hfl.2]; omega
      · rw [hfl.1]; exact hview
      · rw [hfl.1]; exact hent
    · have hbase : M.height sd - 1 = n.chainHeight + 1 := by omega
      have hLW := hL.toW
      rw [hbase] at hLW
      refine ⟨sd, Ed, trd, n.chainHeight + 1, insd, href, ?_, hL, ?_, ?_, ?_, ?_, ?_, hvq q post hsp⟩
      · rw [h3.2]; exact hLW
      · rw [h3.2]; omega
      · rw [h3.2]; omega
      · rw [h3.2]; exact Nat.le_refl _
      · rw [h3.1, hmf]
        show view (n.store.flushed ++ [Rec.prune (n.chainHeight + 1)]) = _
        rw [view_append_prune _ _ (by rw [hview]; show p < n.chainHeight + 1; omega), hview]
        show (n.chainHeight + 1, above (n.chainHeight + 1) (above p Ed)) = _
        rw [above_above p (n.chainHeight + 1) _ (by omega)]
      · rw [h3.1, hmf]
        show entriesOfRecs (n.store.flushed ++ [Rec.prune (n.chainHeight + 1)]) = _
        rw [entriesOfRecs_append, hent]; simp [entriesOfRecs]
  refine ⟨mkDur, insd, sd, Ed, trd, hstate, ?_⟩
  have hfullDur := mkDur (replayRun M (M.init (n.chainHeight + 1))
    (sortByHeight (above n.chainHeight Ed))).2 [] (by simp)
  have hfullV := hvq (replayRun M (M.init (n.chainHeight + 1))
    (sortByHeight (above n.chainHeight Ed))).2 [] (by simp)
  rcases hph (replayRun M (M.init (n.chainHeight + 1))
    (sortByHeight (above n.chainHeight Ed))).2 [] (by simp) with ⟨h0, hfin⟩ | ⟨_, hne, _⟩ | ⟨h3, hfin⟩
  · have hH := hfin rfl
    have hbase : M.height sd - 1 = n.chainHeight := by omega
    rw [hbase] at hL ⊢
    exact ⟨href, hL, by rw [h0.2, hmc], ⟨p, hp, by rw [h0.1, hmf, hent]; exact hview⟩,
      ⟨[], by rw [h0.1]; rfl, by rw [h0.1, hmf, hent]; simp, by intro x hx; cases hx⟩,
      hfullV, hfullDur⟩
  · exact absurd rfl hne
  · have hbase : M.height sd - 1 = n.chainHeight + 1 := by omega
    rw [hbase] at hL ⊢
    have hentP : entriesOfRecs (n.store.flushed ++ [Rec.prune (n.chainHeight + 1)]) = Ed := by
      rw [entriesOfRecs_append, hent]; simp [entriesOfRecs]
    exact ⟨href, hL, h3.2, ⟨n.chainHeight + 1, Nat.le_refl _, by
        rw [h3.1, hmf]
        show view (n.store.flushed ++ [Rec.prune (n.chainHeight + 1)]) = _
        rw [hentP, view_append_prune _ _ (by rw [hview]; show p < n.chainHeight + 1; omega), hview]
        show (n.chainHeight + 1, above (n.chainHeight + 1) (above p Ed)) = _
        rw [above_above p (n.chainHeight + 1) _ (by omega)]⟩,
      ⟨[], by rw [h3.1]; rfl, by rw [h3.1, hmf]; show entriesOfRecs (n.store.flushed ++ _) ++ [] = Ed; rw [hentP]; simp,
        by intro x hx; cases hx⟩,
      hfullV, hfullDur⟩

end Juno.C13
