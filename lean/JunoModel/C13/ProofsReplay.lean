import JunoModel.C13.Proofs
/-!
C13 — helper lemmas, part 2: under `ReplaySafe`, a live run equals the replay of its own log, and
the replay of the height-sorted log (what `LoadAllEntries` returns) equals the replay of the log in
recording order.
-/
namespace Juno.C13
variable {S : Type}

/-! ## Basic algebra of `replayRun` -/

theorem visibleOf_append (a b : List Effect) : visibleOf (a ++ b) = visibleOf a ++ visibleOf b := by
  simp [visibleOf]

theorem replayRun_append (M : Machine S) (s : S) (X Y : List Entry) :
    replayRun M s (X ++ Y) =
      ((replayRun M (replayRun M s X).1 Y).1,
        (replayRun M s X).2 ++ (replayRun M (replayRun M s X).1 Y).2) := by
  induction X generalizing s with
  | nil => simp [replayRun]
  | cons x X ih => simp [replayRun, ih, List.append_assoc]

/-- Same final state and same visible effects. -/
def REq (r1 r2 : S × List Effect) : Prop := r1.1 = r2.1 ∧ visibleOf r1.2 = visibleOf r2.2

theorem REq.refl (r : S × List Effect) : REq r r := ⟨rfl, rfl⟩

theorem REq.trans {a b c : S × List Effect} (h1 : REq a b) (h2 : REq b c) : REq a c :=
  ⟨h1.1.trans h2.1, h1.2.trans h2.2⟩

theorem REq_cons (M : Machine S) (t : S) (x : Entry) (X Y : List Entry)
    (h : REq (replayRun M (replayStep M t x).1 X) (replayRun M (replayStep M t x).1 Y)) :
    REq (replayRun M t (x :: X)) (replayRun M t (x :: Y)) := by
  refine ⟨h.1, ?_⟩
  simp only [replayRun, visibleOf_append]
  rw [h.2]

theorem REq_append_right (M : Machine S) (t : S) (X Y Z : List Entry)
    (h : REq (replayRun M t X) (replayRun M t Y)) :
    REq (replayRun M t (X ++ Z)) (replayRun M t (Y ++ Z)) := by
  simp only [REq, replayRun_append, visibleOf_append]
  rw [h.1, h.2]
  exact ⟨rfl, rfl⟩

/-! ## Heights -/

theorem replayStep_height_mono (M : Machine S) (hs : ReplaySafe M) (t : S) (e : Entry) :
    M.height t ≤ M.height (replayStep M t e).1 := by
  unfold replayStep
  split
  · exact Nat.le_refl _
  · exact hs.height_mono _ _

theorem replayRun_height_mono (M : Machine S) (hs : ReplaySafe M) (L : List Entry) (t : S) :
    M.height t ≤ M.height (replayRun M t L).1 := by
  induction L generalizing t with
  | nil => exact Nat.le_refl _
  | cons e L ih =>
    exact Nat.le_trans (replayStep_height_mono M hs t e) (ih _)

theorem replayStep_of_not_stale (M : Machine S) (s : S) (e : Entry) (h : M.height s ≤ e.height) :
    replayStep M s e = M.step s e.toInput := by
  simp [replayStep, skipOnReplay, Nat.not_lt.mpr h]

theorem visA_nil_not_committed (acts : List Action) (h : visA acts = []) : committed acts = false := by
  induction acts with
  | nil => rfl
  | cons a rest ih =>
    cases a <;>
      simp_all [visA, visibleOf, effectsOf, committed, Effect.observable, List.filter]

theorem replayStep_silent_height (M : Machine S) (hs : ReplaySafe M) (t : S) (b : Entry)
    (h : visA (replayStep M t b).2 = []) : M.height (replayStep M t b).1 = M.height t := by
  unfold replayStep at h ⊢
  split
  · rfl
  · next hsk =>
    rw [if_neg hsk] at h
    exact hs.no_commit_height _ _ (visA_nil_not_committed _ h)

/-- The log of a live run, as `replay` meets it: no entry is below the machine's height when its
turn comes, and an entry above it (a future-height message) is never a `Start`. -/
def HeightOK (M : Machine S) : S → List Entry → Prop
  | _, [] => True
  | s, e :: rest =>
    M.height s ≤ e.height ∧ (M.height s < e.height → e.toInput ≠ Input.start) ∧
      HeightOK M (replayStep M s e).1 rest

/-! ## T-A: a live run is the replay of its own log -/

theorem live_eq_replay (M : Machine S) (hs : ReplaySafe M) (ins : List Input) (s : S)
    (ok : ListenOK M s ins) :
    (liveRun M s ins).1 = (replayRun M s (loggedEntries M s ins)).1 ∧
    visibleOf (liveRun M s ins).2 = visibleOf (replayRun M s (loggedEntries M s ins)).2 ∧
    HeightOK M s (loggedEntries M s ins) := by
  induction ins generalizing s with
  | nil => simp [liveRun, loggedEntries, replayRun, HeightOK]
  | cons i rest ih =>
    obtain ⟨hst, okr⟩ := ok
    rcases hs.logged_or_inert s i hst with ⟨h1, h2⟩ | ⟨e, ar, h2, hi, hh, hstart, hw⟩
    · -- ignored input
      have ih' := ih s (by rw [h1] at okr; exact okr)
      simp only [liveRun, loggedEntries, h1, h2, walOf, effectsOf, List.nil_append]
      exact ih'
    · have hwal : walOf (M.step s i).2 = [e] := by rw [h2]; simp [walOf, hw]
      have hrs : replayStep M s e = M.step s i := by
        rw [replayStep_of_not_stale M s e hh, hi]
      have ih' := ih (M.step s i).1 okr
      simp only [liveRun, loggedEntries, hwal, List.singleton_append, replayRun, hrs,
        visibleOf_append, visible_effectsOf_mode, HeightOK]
      refine ⟨ih'.1, by rw [ih'.2.1], hh, ?_, ih'.2.2⟩
      intro hlt hst'
      rw [hi] at hst'
      have := hstart hst'
      omega

/-! ## T-B: the sorted log replays like the log in recording order -/

/-- Moving an entry `e` past a block `B` of higher, non-`Start` entries changes nothing. -/
theorem swapPast (M : Machine S) (hs : ReplaySafe M) (e : Entry) :
    ∀ (B : List Entry) (t : S), M.height t ≤ e.height →
      (∀ b ∈ B, e.height < b.height ∧ b.toInput ≠ Input.start) →
      REq (replayRun M t (e :: B)) (replayRun M t (B ++ [e])) ∧
      visibleOf (replayRun M t B).2 = [] ∧
      visA (replayStep M (replayRun M t B).1 e).2 = visA (replayStep M t e).2 ∧
      M.height (replayRun M t B).1 = M.height t := by
  intro B
  induction B with
  | nil =>
    intro t _ _
    exact ⟨REq.refl _, rfl, rfl, rfl⟩
  | cons b B ih =>
    intro t ht hB
    have hb := hB b (by simp)
    have hlt : M.height t < b.height := by omega
    have hnst : replayStep M t b = M.step t b.toInput :=
      replayStep_of_not_stale M t b (by omega)
    have vb0 : visA (replayStep M t b).2 = [] := by
      rw [hnst]; exact (hs.future_silent t b hlt hb.2).1
    have htb : M.height (replayStep M t b).1 = M.height t := replayStep_silent_height M hs t b vb0
    obtain ⟨c1, c2, c3⟩ := hs.commute t b e ht hb.1 hb.2
    have ihb := ih (replayStep M t b).1 (by omega) (fun y hy => hB y (by simp [hy]))
    obtain ⟨⟨i1, i2⟩, i3, i4, i5⟩ := ihb
    refine ⟨⟨?_, ?_⟩, ?_, ?_, ?_⟩
    · -- final states
      show (replayRun M (replayStep M (replayStep M t e).1 b).1 B).1 = _
      rw [← c1]
      exact i1
    · -- visible effects
      show visibleOf (effectsOf true (replayStep M t e).2 ++
          (effectsOf true (replayStep M (replayStep M t e).1 b).2 ++
            (replayRun M (replayStep M (replayStep M t e).1 b).1 B).2)) =
        visibleOf (effectsOf true (replayStep M t b).2 ++ (replayRun M (replayStep M t b).1 (B ++ [e])).2)
      have c2' : visibleOf (effectsOf true (replayStep M (replayStep M t e).1 b).2) = [] := c2
      have vb0' : visibleOf (effectsOf true (replayStep M t b).2) = [] := vb0
      have c3' : visibleOf (effectsOf true (replayStep M (replayStep M t b).1 e).2) =
          visibleOf (effectsOf true (replayStep M t e).2) := c3
      simp only [visibleOf_append, c2', vb0', List.nil_append]
      rw [← i2]
      show _ = visibleOf (effectsOf true (replayStep M (replayStep M t b).1 e).2 ++
        (replayRun M (replayStep M (replayStep M t b).1 e).1 B).2)
      rw [visibleOf_append, c3', c1]
    · show visibleOf (effectsOf true (replayStep M t b).2 ++ (replayRun M (replayStep M t b).1 B).2) = []
      have vb0' : visibleOf (effectsOf true (replayStep M t b).2) = [] := vb0
      rw [visibleOf_append, vb0', i3]; rfl
    · show visA (replayStep M (replayRun M (replayStep M t b).1 B).1 e).2 = _
      rw [i4]; exact c3
    · show M.height (replayRun M (replayStep M t b).1 B).1 = _
      rw [i5, htb]

/-- Heights ascending (what `sortByHeight` produces). -/
def SortedH : List Entry → Prop
  | [] => True
  | x :: xs => (∀ y ∈ xs, x.height ≤ y.height) ∧ SortedH xs

theorem mem_insertByHeight (e y : Entry) (X : List Entry) :
    y ∈ insertByHeight e X ↔ y = e ∨ y ∈ X := by
  induction X with
  | nil => simp [insertByHeight]
  | cons x xs ih =>
    simp only [insertByHeight]
    split
    · simp only [List.mem_cons, ih]
      constructor
      · rintro (h | h | h)
        · exact Or.inr (Or.inl h)
        · exact Or.inl h
        · exact Or.inr (Or.inr h)
      · rintro (h | h | h)
        · exact Or.inr (Or.inl h)
        · exact Or.inl h
        · exact Or.inr (Or.inr h)
    · simp [List.mem_cons]

theorem sorted_insert (e : Entry) (X : List Entry) (h : SortedH X) : SortedH (insertByHeight e X) := by
  induction X with
  | nil => simp [insertByHeight, SortedH]
  | cons x xs ih =>
    obtain ⟨h1, h2⟩ := h
    simp only [insertByHeight]
    split
    · next hle =>
      refine ⟨?_, ih h2⟩
      intro y hy
      rcases (mem_insertByHeight e y xs).1 hy with rfl | hy
      · exact hle
      · exact h1 y hy
    · next hgt =>
      refine ⟨?_, h1, h2⟩
      intro y hy
      simp only [List.mem_cons] at hy
      rcases hy with rfl | hy
      · omega
      · have := h1 y hy; omega

/-- Inserting `e` at its sorted position behaves like appending it at the end. -/
theorem insert_equiv (M : Machine S) (hs : ReplaySafe M) (e : Entry) :
    ∀ (X : List Entry) (t : S), SortedH X → M.height (replayRun M t X).1 ≤ e.height →
      (∀ x ∈ X, e.height < x.height → x.toInput ≠ Input.start) →
      REq (replayRun M t (insertByHeight e X)) (replayRun M t (X ++ [e])) := by
  intro X
  induction X with
  | nil => intro t _ _ _; exact REq.refl _
  | cons x xs ih =>
    intro t hsrt hh hns
    obtain ⟨s1, s2⟩ := hsrt
    simp only [insertByHeight]
    split
    · next hle =>
      have := ih (replayStep M t x).1 s2 hh (fun y hy => hns y (by simp [hy]))
      exact REq_cons M t x _ _ this
    · next hgt =>
      have ht : M.height t ≤ e.height :=
        Nat.le_trans (replayRun_height_mono M hs (x :: xs) t) hh
      have hB : ∀ b ∈ x :: xs, e.height < b.height ∧ b.toInput ≠ Input.start := by
        intro b hb
        have hlt : e.height < b.height := by
          simp only [List.mem_cons] at hb
          rcases hb with rfl | hb
          · omega
          · have := s1 b hb; omega
        exact ⟨hlt, hns b hb hlt⟩
      exact (swapPast M hs e (x :: xs) t ht hB).1

/-- Entries of `acc` above the height reached after `acc` are not `Start` entries. -/
def FutNS (M : Machine S) (t : S) (acc : List Entry) : Prop :=
  ∀ x ∈ acc, M.height (replayRun M t acc).1 < x.height → x.toInput ≠ Input.start

theorem sort_equiv_aux (M : Machine S) (hs : ReplaySafe M) :
    ∀ (L acc : List Entry) (t : S), SortedH acc → FutNS M t acc →
      HeightOK M (replayRun M t acc).1 L →
      REq (replayRun M t (L.foldl (fun a e => insertByHeight e a) acc)) (replayRun M t (acc ++ L)) := by
  intro L
  induction L with
  | nil => intro acc t _ _ _; simp only [List.foldl_nil, List.append_nil]; exact REq.refl _
  | cons e L ih =>
    intro acc t hsrt hfn hok
    obtain ⟨h1, h2, h3⟩ := hok
    have hins := insert_equiv M hs e acc t hsrt h1
      (fun x hx hlt => hfn x hx (by omega))
    have hstate : (replayRun M t (insertByHeight e acc)).1 =
        (replayStep M (replayRun M t acc).1 e).1 := by
      rw [hins.1, replayRun_append]
      simp [replayRun]
    have hfn' : FutNS M t (insertByHeight e acc) := by
      intro x hx hlt
      rw [hstate] at hlt
      have hm := replayStep_height_mono M hs (replayRun M t acc).1 e
      rcases (mem_insertByHeight e x acc).1 hx with rfl | hx
      · exact h2 (by omega)
      · exact hfn x hx (by omega)
    have ih' := ih (insertByHeight e acc) t (sorted_insert e acc hsrt) hfn' (by rw [hstate]; exact h3)
    have happ := REq_append_right M t _ _ L hins
    simp only [List.foldl_cons]
    refine REq.trans ih' ?_
    have : acc ++ e :: L = acc ++ [e] ++ L := by simp
    rw [this]
    exact happ

/-- **T-B.** -/
theorem replay_sorted_eq (M : Machine S) (hs : ReplaySafe M) (s : S) (L : List Entry)
    (hok : HeightOK M s L) :
    REq (replayRun M s (sortByHeight L)) (replayRun M s L) := by
  have := sort_equiv_aux M hs L [] s trivial (by intro x hx; cases hx) hok
  simpa [sortByHeight] using this

end Juno.C13
