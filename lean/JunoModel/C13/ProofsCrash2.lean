import JunoModel.C13.ProofsCrash
/-!
C13 — helper lemmas, part 6: the per-input step and the induction over the run: every prefix of the
effect trace yields a durable image.
-/
namespace Juno.C13
variable {S : Type}

/-- What is known at an input boundary about the machine (`LiveInv`), the node and their relation. -/
structure Ctx (M : Machine S) (c0 : Nat) (s : S) (E : List Entry) (b : Nat) (tr : List Effect)
    (n : Node) : Prop where
  inv : LiveInv M s E b tr
  chain : n.chainHeight = b
  viewF : ∃ p, p ≤ b ∧ view n.store.flushed = (p, above p (entriesOfRecs n.store.flushed))
  pend : ∃ pe, n.store.pending = pe.map Rec.entry ∧ entriesOfRecs n.store.flushed ++ pe = E ∧
    ∀ x ∈ pe, b < x.height
  twin : s = (replayRun M (M.init (c0 + 1)) E).1
  dur : Durable M c0 n tr

theorem Ctx.init (M : Machine S) (hs : ReplaySafe M) (c0 : Nat) :
    Ctx M c0 (M.init (c0 + 1)) [] c0 [] (Node.fresh c0) where
  inv := liveInv_init M hs c0
  chain := rfl
  viewF := ⟨0, Nat.zero_le _, by simp [Node.fresh, Store.empty, view, entriesOfRecs, above]⟩
  pend := ⟨[], by simp [Node.fresh, Store.empty], by simp [Node.fresh, Store.empty, entriesOfRecs],
    by intro x hx; cases hx⟩
  twin := by simp [replayRun]
  dur := ⟨M.init (c0 + 1), [], [], 0, (liveInv_init M hs c0).toW, Nat.zero_le _,
    by simp [Node.fresh, Store.empty, view, above],
    by simp [Node.fresh, Store.empty, entriesOfRecs], by intro v hv; exact hv, by simp [replayRun]⟩

theorem votesOf_cons_append (e : Entry) (q : List Effect) :
    votesOf (Effect.append e :: q) = votesOf q := rfl

theorem committed_cons_wal (e : Entry) (ar : List Action) :
    committed (Action.writeWAL e :: ar) = committed ar := rfl

/-- One live input: every prefix of its effects leaves a durable image, and the boundary context
holds again afterwards. -/
theorem chunk (M : Machine S) (hs : ReplaySafe M) (c0 : Nat) (s : S) (E : List Entry) (b : Nat)
    (tr : List Effect) (n : Node) (ctx : Ctx M c0 s E b tr n) (i : Input)
    (hi : M.started s = true ∨ i = Input.start) :
    (∀ q post, effectsOf false (M.step s i).2 = q ++ post →
      Durable M c0 (applyEffects n q) (tr ++ q)) ∧
    Ctx M c0 (M.step s i).1 (E ++ walOf (M.step s i).2) (M.height (M.step s i).1 - 1)
      (tr ++ effectsOf false (M.step s i).2) (applyEffects n (effectsOf false (M.step s i).2)) := by
  have hbh := ctx.inv.height
  rcases hs.logged_or_inert s i hi with ⟨h1, h2⟩ | ⟨e, ar, h2, he, hh, hstart, hw⟩
  · -- ignored input
    have hb : M.height s - 1 = b := by omega
    rw [h1, h2]
    simp only [effectsOf, walOf, List.append_nil, applyEffects, List.foldl_nil, hb]
    refine ⟨?_, ctx⟩
    intro q post hsplit
    obtain ⟨hq, _⟩ := List.append_eq_nil_iff.1 hsplit.symm
    subst hq
    simpa [applyEffects] using ctx.dur
  · obtain ⟨p, hp, hview⟩ := ctx.viewF
    obtain ⟨pe, hpend, hpe, hpeh⟩ := ctx.pend
    obtain ⟨hW, inv'⟩ := liveInv_step M hs s E b tr ctx.inv i e ar hi h2 he hh hstart
    have hwal : walOf (M.step s i).2 = [e] := by rw [h2]; simp [walOf, hw]
    have heff : effectsOf false (M.step s i).2 = Effect.append e :: effectsOf false ar := by
      rw [h2]; simp [effectsOf, Action.requiresWALFlush]
    have hcomm : committed (M.step s i).2 = committed ar := by rw [h2]; rfl
    -- the twin state
    have htwin : (M.step s i).1 = (replayRun M (M.init (c0 + 1)) (E ++ [e])).1 := by
      rw [replayRun_append, ← ctx.twin]
      simp [replayRun, replayStep_of_not_stale M s e hh, he]
    -- the node right after the append
    have hpr : n.store.pruned = p := by simp [Store.pruned, hview]
    have hA : PhA n e (applyEffect n (Effect.append e)) := by
      refine ⟨?_, rfl⟩
      show n.store.setEntry e = _
      simp only [Store.setEntry, hpr]
      rw [if_neg (by omega)]
    -- the flushed records once everything pending is flushed
    have hFB : FB n e = n.store.flushed ++ (pe ++ [e]).map Rec.entry := by
      simp [FB, hpend, List.append_assoc]
    have hheights : ∀ x ∈ pe ++ [e], (view n.store.flushed).1 < x.height := by
      intro x hx
      rw [hview]
      simp only [List.mem_append, List.mem_singleton] at hx
      rcases hx with hx | rfl
      · have := hpeh x hx; show p < x.height; omega
      · show p < x.height; omega
    have hvFB : view (FB n e) = (p, above p (E ++ [e])) := by
      rw [hFB, view_append_entries _ _ hheights, hview]
      simp only
      rw [← hpe, List.append_assoc, above_append p _ (pe ++ [e]),
        above_all p (pe ++ [e]) (fun x hx => by have := hheights x hx; rw [hview] at this; exact this)]
    have heFB : entriesOfRecs (FB n e) = E ++ [e] := by
      rw [hFB, entriesOfRecs_append, entriesOfRecs_map_entry, ← hpe, List.append_assoc]
    have hpFB : (view (FB n e)).1 < b + 1 := by rw [hvFB]; show p < b + 1; omega
    have hcl : ∀ pre h' v post, ar = pre ++ Action.commit h' v :: post → post = [] ∧ h' = b + 1 := by
      intro pre h' v post har
      obtain ⟨a1, _, a3, _, _⟩ := hs.commit_last s i (Action.writeWAL e :: pre) h' v post
        (by rw [h2, har]; rfl)
      exact ⟨a1, by omega⟩
    -- height after a commit
    have hcommitH : committed ar = true → M.height (M.step s i).1 = b + 2 := by
      intro hc
      obtain ⟨pre, hh', v, post, hsp, _⟩ := split_commit _ (hcomm.trans hc)
      obtain ⟨_, _, a3, a4, _⟩ := hs.commit_last s i pre hh' v post hsp
      omega
    have hnocommitH : committed ar = false → M.height (M.step s i).1 = b + 1 := by
      intro hc
      rw [hs.no_commit_height s i (hcomm.trans hc)]; exact hbh
    -- durable images for the phases
    have durB : ∀ n' q', PhB n e n' →
        Durable M c0 n' (tr ++ Effect.append e :: q') → True := fun _ _ _ _ => trivial
    have hvotesPrefix : ∀ q' post, effectsOf false ar = q' ++ post →
        ∀ v ∈ votesOf (tr ++ Effect.append e :: q'),
          v ∈ votesOf (tr ++ effectsOf false (M.step s i).2) := by
      intro q' post hsp v hv
      rw [heff, hsp]
      rw [votesOf_append, List.mem_append] at hv ⊢
      rcases hv with hv | hv
      · exact Or.inl hv
      · right
        rw [votesOf_cons_append] at hv ⊢
        rw [votesOf_append, List.mem_append]
        exact Or.inl hv
    have mkDur : ∀ (n' : Node) (q' post : List Effect), effectsOf false ar = q' ++ post →
        Where n e (b + 1) ar true q' post n' → Durable M c0 n' (tr ++ Effect.append e :: q') := by
      intro n' q' post hsp hwh
      rcases hwh with ⟨hPA, _, hv0, _⟩ | ⟨hPB, _⟩ | ⟨hPC, hc, _⟩ | ⟨hPD, hc, _⟩ | ⟨hPE, hc⟩
      · -- nothing flushed yet: the image is the one before the input
        refine ctx.dur.congr (by rw [hPA.1]) hPA.2 ?_
        rw [votesOf_append, votesOf_cons_append, hv0, List.append_nil]
      · refine ⟨(M.step s i).1, E ++ [e], tr ++ effectsOf false (M.step s i).2, p, ?_, ?_, ?_, ?_,
          hvotesPrefix q' post hsp, htwin⟩
        · rw [hPB.2, ctx.chain]; exact hW
        · rw [hPB.2, ctx.chain]; exact hp
        · rw [hPB.1]; exact hvFB
        · rw [hPB.1]; exact heFB
      · have hbase : M.height (M.step s i).1 - 1 = b + 1 := by have := hcommitH hc; omega
        rw [hbase] at inv'
        refine ⟨(M.step s i).1, E ++ [e], tr ++ effectsOf false (M.step s i).2, p, ?_, ?_, ?_, ?_,
          hvotesPrefix q' post hsp, htwin⟩
        · rw [hPC.2]; exact inv'.toW
        · rw [hPC.2]; omega
        · rw [hPC.1]; exact hvFB
        · rw [hPC.1]; exact heFB
      · have hbase : M.height (M.step s i).1 - 1 = b + 1 := by have := hcommitH hc; omega
        rw [hbase] at inv'
        refine ⟨(M.step s i).1, E ++ [e], tr ++ effectsOf false (M.step s i).2, p, ?_, ?_, ?_, ?_,
          hvotesPrefix q' post hsp, htwin⟩
        · rw [hPD.2]; exact inv'.toW
        · rw [hPD.2]; omega
        · rw [hPD.1]; exact hvFB
        · rw [hPD.1]; exact heFB
      · have hbase : M.height (M.step s i).1 - 1 = b + 1 := by have := hcommitH hc; omega
        rw [hbase] at inv'
        refine ⟨(M.step s i).1, E ++ [e], tr ++ effectsOf false (M.step s i).2, b + 1, ?_, ?_, ?_, ?_,
          hvotesPrefix q' post hsp, htwin⟩
        · rw [hPE.2]; exact inv'.toW
        · rw [hPE.2]; exact Nat.le_refl _
        · rw [hPE.1, view_append_prune _ _ hpFB, hvFB]
          show (b + 1, above (b + 1) (above p (E ++ [e]))) = _
          rw [above_above p (b + 1) _ (by omega)]
        · rw [hPE.1, entriesOfRecs_append, heFB]; simp [entriesOfRecs]
    have hwhere : ∀ q' post, effectsOf false ar = q' ++ post →
        Where n e (b + 1) ar true q' post (applyEffects (applyEffect n (Effect.append e)) q') :=
      fun q' post hsp => traverse n e (b + 1) hpFB ar hw hcl true _ hA q' post hsp
    constructor
    · intro q post hsplit
      rw [heff] at hsplit
      rcases q with _ | ⟨x, q'⟩
      · simpa [applyEffects] using ctx.dur
      · simp only [List.cons_append, List.cons.injEq] at hsplit
        obtain ⟨rfl, hsplit⟩ := hsplit
        rw [applyEffects_cons]
        exact mkDur _ q' post hsplit (hwhere q' post hsplit)
    · -- the boundary after the input
      rw [hwal, heff, applyEffects_cons]
      have hfull := hwhere (effectsOf false ar) [] (by simp)
      have hdurFull := mkDur _ (effectsOf false ar) [] (by simp) hfull
      rw [heff] at inv'
      rcases hfull with ⟨hPA, _, _, hnc⟩ | ⟨hPB, hnc⟩ | ⟨_, _, hne⟩ | ⟨_, _, hne⟩ | ⟨hPE, hc⟩
      · have hbase : M.height (M.step s i).1 - 1 = b := by have := hnocommitH (hnc rfl); omega
        rw [hbase] at inv' ⊢
        exact ⟨inv', by rw [hPA.2]; exact ctx.chain, ⟨p, hp, by rw [hPA.1]; exact hview⟩,
          ⟨pe ++ [e], by rw [hPA.1]; simp [hpend], by rw [hPA.1]; simp [← hpe, List.append_assoc],
            by
              intro x hx
              simp only [List.mem_append, List.mem_singleton] at hx
              rcases hx with hx | rfl
              · exact hpeh x hx
              · omega⟩,
          htwin, hdurFull⟩
      · have hbase : M.height (M.step s i).1 - 1 = b := by have := hnocommitH (hnc rfl); omega
        rw [hbase] at inv' ⊢
        exact ⟨inv', by rw [hPB.2]; exact ctx.chain,
          ⟨p, hp, by rw [hPB.1, heFB]; exact hvFB⟩,
          ⟨[], by rw [hPB.1]; rfl, by rw [hPB.1, heFB]; simp, by intro x hx; cases hx⟩,
          htwin, hdurFull⟩
      · exact absurd rfl hne
      · exact absurd rfl hne
      · have hbase : M.height (M.step s i).1 - 1 = b + 1 := by have := hcommitH hc; omega
        rw [hbase] at inv' ⊢
        have hent : entriesOfRecs (FB n e ++ [Rec.prune (b + 1)]) = E ++ [e] := by
          rw [entriesOfRecs_append, heFB]; simp [entriesOfRecs]
        exact ⟨inv', hPE.2,
          ⟨b + 1, Nat.le_refl _, by
            rw [hPE.1, hent, view_append_prune _ _ hpFB, hvFB]
            show (b + 1, above (b + 1) (above p (E ++ [e]))) = _
            rw [above_above p (b + 1) _ (by omega)]⟩,
          ⟨[], by rw [hPE.1]; rfl, by rw [hPE.1, hent]; simp, by intro x hx; cases hx⟩,
          htwin, hdurFull⟩

/-- **Every prefix of the effect trace of a live run yields a durable image.** -/
theorem durable_all (M : Machine S) (hs : ReplaySafe M) (c0 : Nat) :
    ∀ (ins : List Input) (s : S) (E : List Entry) (b : Nat) (tr : List Effect) (n : Node),
      Ctx M c0 s E b tr n → ListenOK M s ins →
      ∀ pre post, (liveRun M s ins).2 = pre ++ post →
        Durable M c0 (applyEffects n pre) (tr ++ pre) := by
  intro ins
  induction ins with
  | nil =>
    intro s E b tr n ctx _ pre post hsplit
    obtain ⟨hq, _⟩ := List.append_eq_nil_iff.1 (by simpa [liveRun] using hsplit.symm)
    subst hq
    simpa [applyEffects] using ctx.dur
  | cons i rest ih =>
    intro s E b tr n ctx ok pre post hsplit
    obtain ⟨hi, okr⟩ := ok
    obtain ⟨hpre, hctx⟩ := chunk M hs c0 s E b tr n ctx i hi
    simp only [liveRun] at hsplit
    rcases List.append_eq_append_iff.1 hsplit with ⟨a', h1, h2⟩ | ⟨c', h1, h2⟩
    · -- the crash point lies in a later input
      rw [h1, applyEffects_append, ← List.append_assoc]
      exact ih _ _ _ _ _ hctx okr a' post h2
    · -- the crash point lies within this input's effects
      exact hpre pre c' h1

end Juno.C13

namespace Juno.C13
variable {S : Type}

/-- The boundary context holds after every run. -/
theorem ctx_all (M : Machine S) (hs : ReplaySafe M) (c0 : Nat) :
    ∀ (ins : List Input) (s : S) (E : List Entry) (b : Nat) (tr : List Effect) (n : Node),
      Ctx M c0 s E b tr n → ListenOK M s ins →
      Ctx M c0 (liveRun M s ins).1 (E ++ loggedEntries M s ins) (M.height (liveRun M s ins).1 - 1)
        (tr ++ (liveRun M s ins).2) (applyEffects n (liveRun M s ins).2) := by
  intro ins
  induction ins with
  | nil =>
    intro s E b tr n ctx _
    have : M.height s - 1 = b := by have := ctx.inv.height; omega
    simpa [liveRun, loggedEntries, applyEffects, this] using ctx
  | cons i rest ih =>
    intro s E b tr n ctx ok
    obtain ⟨hi, okr⟩ := ok
    have := ih _ _ _ _ _ (chunk M hs c0 s E b tr n ctx i hi).2 okr
    simpa [liveRun, loggedEntries, applyEffects_append, List.append_assoc] using this

/-- A regular stop (`Run` returns, the deferred `Close` flushes the pending batch) after any run:
the image holds the whole log. -/
theorem stopped_image (M : Machine S) (hs : ReplaySafe M) (c0 : Nat) (ins : List Input)
    (ok : ListenOK M (M.init (c0 + 1)) ins) :
    let n := applyEffects (Node.fresh c0) ((liveRun M (M.init (c0 + 1)) ins).2 ++ [Effect.flush])
    n.chainHeight + 1 = M.height (liveRun M (M.init (c0 + 1)) ins).1 ∧
    ∃ p, p ≤ n.chainHeight ∧
      (view n.store.flushed).2 = above p (loggedEntries M (M.init (c0 + 1)) ins) := by
  have ctx := ctx_all M hs c0 ins _ [] c0 [] (Node.fresh c0) (Ctx.init M hs c0) ok
  simp only [List.nil_append] at ctx
  obtain ⟨p, hp, hview⟩ := ctx.viewF
  obtain ⟨pe, hpend, hpe, hpeh⟩ := ctx.pend
  have hh := ctx.inv.height
  have hch := ctx.chain
  simp only [applyEffects_append]
  refine ⟨?_, p, ?_, ?_⟩
  · show (applyEffects (Node.fresh c0) _).chainHeight + 1 = _
    rw [hch]; omega
  · show p ≤ (applyEffects (Node.fresh c0) _).chainHeight
    rw [hch]; exact hp
  · show (view ((applyEffects (Node.fresh c0) _).store.flushed ++
        (applyEffects (Node.fresh c0) _).store.pending)).2 = _
    rw [hpend, view_append_entries _ _ (fun x hx => by
      rw [hview]; have := hpeh x hx; show p < x.height; omega), hview]
    show above p _ ++ pe = _
    rw [← hpe, above_append, above_all p pe (fun x hx => by have := hpeh x hx; omega)]

end Juno.C13
