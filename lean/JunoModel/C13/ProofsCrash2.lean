import JunoModel.C13.ProofsCrash
/-!
C13 — helper lemmas, part 6: the per-input step and the induction over the run: every prefix of the
effect trace yields a durable image.
-/
namespace Juno.C13
variable {S : Type}

theorem liveRun_snoc (M : Machine S) (s : S) (ins : List Input) (i : Input) :
    liveRun M s (ins ++ [i]) =
      ((M.step (liveRun M s ins).1 i).1,
        (liveRun M s ins).2 ++ effectsOf false (M.step (liveRun M s ins).1 i).2) := by
  induction ins generalizing s with
  | nil => simp [liveRun]
  | cons j ins ih => simp [liveRun, ih, List.append_assoc]

theorem loggedEntries_snoc (M : Machine S) (s : S) (ins : List Input) (i : Input) :
    loggedEntries M s (ins ++ [i]) =
      loggedEntries M s ins ++ walOf (M.step (liveRun M s ins).1 i).2 := by
  induction ins generalizing s with
  | nil => simp [loggedEntries, liveRun]
  | cons j ins ih => simp [loggedEntries, liveRun, ih, List.append_assoc]

theorem listenOK_snoc (M : Machine S) (s : S) (ins : List Input) (i : Input)
    (h : ListenOK M s ins) (hi : M.started (liveRun M s ins).1 = true ∨ i = Input.start) :
    ListenOK M s (ins ++ [i]) := by
  induction ins generalizing s with
  | nil => exact ⟨hi, trivial⟩
  | cons j ins ih => exact ⟨h.1, ih _ h.2 hi⟩

theorem RefRun.snoc {M : Machine S} {c0 : Nat} {insd : List Input} {sd : S} {Ed : List Entry}
    {trd : List Effect} (h : RefRun M c0 insd sd Ed trd) (i : Input)
    (hi : M.started sd = true ∨ i = Input.start) :
    RefRun M c0 (insd ++ [i]) (M.step sd i).1 (Ed ++ walOf (M.step sd i).2)
      (trd ++ effectsOf false (M.step sd i).2) := by
  obtain ⟨ok, rfl, rfl, rfl⟩ := h
  exact ⟨listenOK_snoc M _ insd i ok hi, by rw [liveRun_snoc], by rw [loggedEntries_snoc],
    by rw [liveRun_snoc]⟩

/-- What is known at an input boundary: the machine is in the state `s` of the uncrashed reference
run over `insd` (log `E`, trace `tr`); `hist` is the real history of effects (all process instances
so far), whose votes are among the reference run's; the node holds all of `E`, nothing but entries
pending, chain one below the machine's height. -/
structure Ctx (M : Machine S) (c0 : Nat) (insd : List Input) (s : S) (E : List Entry) (b : Nat)
    (tr : List Effect) (hist : List Effect) (n : Node) : Prop where
  ref : RefRun M c0 insd s E tr
  inv : LiveInv M s E b tr
  chain : n.chainHeight = b
  viewF : ∃ p, p ≤ b ∧ view n.store.flushed = (p, above p (entriesOfRecs n.store.flushed))
  pend : ∃ pe, n.store.pending = pe.map Rec.entry ∧ entriesOfRecs n.store.flushed ++ pe = E ∧
    ∀ x ∈ pe, b < x.height
  hv : ∀ v ∈ votesOf hist, v ∈ votesOf tr
  dur : Durable M c0 n hist

theorem Ctx.init (M : Machine S) (hs : ReplaySafe M) (c0 : Nat) :
    Ctx M c0 [] (M.init (c0 + 1)) [] c0 [] [] (Node.fresh c0) where
  ref := ⟨trivial, rfl, rfl, rfl⟩
  inv := liveInv_init M hs c0
  chain := rfl
  viewF := ⟨0, Nat.zero_le _, by simp [Node.fresh, Store.empty, view, entriesOfRecs, above]⟩
  pend := ⟨[], by simp [Node.fresh, Store.empty], by simp [Node.fresh, Store.empty, entriesOfRecs],
    by intro x hx; cases hx⟩
  hv := by intro v hv; exact hv
  dur := ⟨M.init (c0 + 1), [], [], 0, [], ⟨trivial, rfl, rfl, rfl⟩, (liveInv_init M hs c0).toW,
    by rw [hs.height_init]; exact liveInv_init M hs c0,
    by rw [hs.height_init]; exact Nat.le_refl _, by rw [hs.height_init]; exact Nat.le_succ _,
    Nat.zero_le _, by simp [Node.fresh, Store.empty, view, above],
    by simp [Node.fresh, Store.empty, entriesOfRecs], by intro v hv; exact hv⟩

theorem votesOf_cons_append (e : Entry) (q : List Effect) :
    votesOf (Effect.append e :: q) = votesOf q := rfl

theorem committed_cons_wal (e : Entry) (ar : List Action) :
    committed (Action.writeWAL e :: ar) = committed ar := rfl

/-- One live input: every prefix of its effects leaves a durable image, and the boundary context
holds again afterwards. -/
theorem chunk (M : Machine S) (hs : ReplaySafe M) (c0 : Nat) (insd : List Input) (s : S)
    (E : List Entry) (b : Nat) (tr hist : List Effect) (n : Node)
    (ctx : Ctx M c0 insd s E b tr hist n) (i : Input)
    (hi : M.started s = true ∨ i = Input.start) :
    (∀ q post, effectsOf false (M.step s i).2 = q ++ post →
      Durable M c0 (applyEffects n q) (hist ++ q)) ∧
    Ctx M c0 (insd ++ [i]) (M.step s i).1 (E ++ walOf (M.step s i).2)
      (M.height (M.step s i).1 - 1) (tr ++ effectsOf false (M.step s i).2)
      (hist ++ effectsOf false (M.step s i).2) (applyEffects n (effectsOf false (M.step s i).2)) := by
  have href' := ctx.ref.snoc i hi
  have hbh := ctx.inv.height
  rcases hs.logged_or_inert s i hi with ⟨h1, h2⟩ | ⟨e, ar, h2, he, hh, hstart, hw⟩
  · -- ignored input
    have hb : M.height s - 1 = b := by omega
    rw [h1, h2] at href' ⊢
    simp only [effectsOf, walOf, List.append_nil, applyEffects, List.foldl_nil, hb] at href' ⊢
    refine ⟨?_, ⟨href', ctx.inv, ctx.chain, ctx.viewF, ctx.pend, ctx.hv, ctx.dur⟩⟩
    intro q post hsplit
    obtain ⟨hq, _⟩ := List.append_eq_nil_iff.1 hsplit.symm
    subst hq
    simpa [applyEffects] using ctx.dur
  · obtain ⟨p, hp, hview⟩ := ctx.viewF
    obtain ⟨pe, hpend, hpe, hpeh⟩ := ctx.pend
    obtain ⟨hW, inv'⟩ := liveInv_step M hs s E b tr ctx.inv i e ar hi h2 he hh hstart
    have hwal : walOf (M.step s i).2 = [e] := by rw [h2]; simp [walOf, hw]
    have heff : effectsOf false (M.step s i).2 = Effect.append e :: effectsOf false ar := by
      rw [h2]; simp [effectsOf, Action.requiresWALFlush]
    have hcomm : committed (M.step s i).2 = committed ar := by rw [h2]; rfl
    -- the reference run, one input further
    have href1 : RefRun M c0 (insd ++ [i]) (M.step s i).1 (E ++ [e])
        (tr ++ effectsOf false (M.step s i).2) := by rw [hwal] at href'; exact href'
    -- the node right after the append
    have hpr : n.store.pruned = p := by simp [Store.pruned, hview]
    have hA : PhA n e (applyEffect n (Effect.append e)) := by
      refine ⟨?_, rfl⟩
      show n.store.setEntry e = _
      simp only [Store.setEntry, hpr]
      rw [if_neg (by omega)]
    -- the flushed records once everything pending is flushed
    have hFB : FB n e = n.store.flushed ++ (pe ++ [e]).map Rec.entry := by
      simp [FB, hpend, List.append_assoc]
    have hheights : ∀ x ∈ pe ++ [e], (view n.store.flushed).1 < x.height := by
      intro x hx
      rw [hview]
      simp only [List.mem_append, List.mem_singleton] at hx
      rcases hx with hx | rfl
      · have := hpeh x hx; show p < x.height; omega
      · show p < x.height; omega
    have hvFB : view (FB n e) = (p, above p (E ++ [e])) := by
      rw [hFB, view_append_entries _ _ hheights, hview]
      simp only
      rw [← hpe, List.append_assoc, above_append p _ (pe ++ [e]),
        above_all p (pe ++ [e]) (fun x hx => by have := hheights x hx; rw [hview] at this; exact this)]
    have heFB : entriesOfRecs (FB n e) = E ++ [e] := by
      rw [hFB, entriesOfRecs_append, entriesOfRecs_map_entry, ← hpe, List.append_assoc]
    have hpFB : (view (FB n e)).1 < b + 1 := by rw [hvFB]; show p < b + 1; omega
    have hcl : ∀ pre h' v post, ar = pre ++ Action.commit h' v :: post → post = [] ∧ h' = b + 1 := by
      intro pre h' v post har
      obtain ⟨a1, _, a3, _, _⟩ := hs.commit_last s i (Action.writeWAL e :: pre) h' v post
        (by rw [h2, har]; rfl)
      exact ⟨a1, by omega⟩
    -- height after a commit
    have hcommitH : committed ar = true → M.height (M.step s i).1 = b + 2 := by
      intro hc
      obtain ⟨pre, hh', v, post, hsp, _⟩ := split_commit _ (hcomm.trans hc)
      obtain ⟨_, _, a3, a4, _⟩ := hs.commit_last s i pre hh' v post hsp
      omega
    have hnocommitH : committed ar = false → M.height (M.step s i).1 = b + 1 := by
      intro hc
      rw [hs.no_commit_height s i (hcomm.trans hc)]; exact hbh
    have hbounds : b + 1 ≤ M.height (M.step s i).1 ∧ M.height (M.step s i).1 ≤ b + 2 := by
      cases hc : committed ar
      · have := hnocommitH hc; omega
      · have := hcommitH hc; omega
    -- durable images for the phases
    have hvotesPrefix : ∀ q' post, effectsOf false ar = q' ++ post →
        ∀ v ∈ votesOf (hist ++ Effect.append e :: q'),
          v ∈ votesOf (tr ++ effectsOf false (M.step s i).2) := by
      intro q' post hsp v hv
      rw [heff, hsp]
      rw [votesOf_append, List.mem_append] at hv ⊢
      rcases hv with hv | hv
      · exact Or.inl (ctx.hv v hv)
      · right
        rw [votesOf_cons_append] at hv ⊢
        rw [votesOf_append, List.mem_append]
        exact Or.inl hv
    have mkDur : ∀ (n' : Node) (q' post : List Effect), effectsOf false ar = q' ++ post →
        Where n e (b + 1) ar true q' post n' → Durable M c0 n' (hist ++ Effect.append e :: q') := by
      intro n' q' post hsp hwh
      rcases hwh with ⟨hPA, _, hv0, _⟩ | ⟨hPB, _⟩ | ⟨hPC, hc, _⟩ | ⟨hPD, hc, _⟩ | ⟨hPE, hc⟩
      · -- nothing flushed yet: the image is the one before the input
        refine ctx.dur.congr (by rw [hPA.1]) hPA.2 ?_
        rw [votesOf_append, votesOf_cons_append, hv0, List.append_nil]
      · refine ⟨(M.step s i).1, E ++ [e], tr ++ effectsOf false (M.step s i).2, p, insd ++ [i], href1,
          ?_, inv', ?_, ?_, ?_, ?_, ?_, hvotesPrefix q' post hsp⟩
        · rw [hPB.2, ctx.chain]; exact hW
        · rw [hPB.2, ctx.chain]; exact hbounds.1
        · rw [hPB.2, ctx.chain]; exact hbounds.2
        · rw [hPB.2, ctx.chain]; exact hp
        · rw [hPB.1]; exact hvFB
        · rw [hPB.1]; exact heFB
      · have hH := hcommitH hc
        have hbase : M.height (M.step s i).1 - 1 = b + 1 := by omega
        have invW := inv'.toW
        rw [hbase] at invW
        refine ⟨(M.step s i).1, E ++ [e], tr ++ effectsOf false (M.step s i).2, p, insd ++ [i], href1,
          ?_, inv', ?_, ?_, ?_, ?_, ?_, hvotesPrefix q' post hsp⟩
        · rw [hPC.2]; exact invW
        · rw [hPC.2]; omega
        · rw [hPC.2]; omega
        · rw [hPC.2]; omega
        · rw [hPC.1]; exact hvFB
        · rw [hPC.1]; exact heFB
      · have hH := hcommitH hc
        have hbase : M.height (M.step s i).1 - 1 = b + 1 := by omega
        have invW := inv'.toW
        rw [hbase] at invW
        refine ⟨(M.step s i).1, E ++ [e], tr ++ effectsOf false (M.step s i).2, p, insd ++ [i], href1,
          ?_, inv', ?_, ?_, ?_, ?_, ?_, hvotesPrefix q' post hsp⟩
        · rw [hPD.2]; exact invW
        · rw [hPD.2]; omega
        · rw [hPD.2]; omega
        · rw [hPD.2]; omega
        · rw [hPD.1]; exact hvFB
        · rw [hPD.1]; exact heFB
      · have hH := hcommitH hc
        have hbase : M.height (M.step s i).1 - 1 = b + 1 := by omega
        have invW := inv'.toW
        rw [hbase] at invW
        refine ⟨(M.step s i).1, E ++ [e], tr ++ effectsOf false (M.step s i).2, b + 1, insd ++ [i], href1,
          ?_, inv', ?_, ?_, ?_, ?_, ?_, hvotesPrefix q' post hsp⟩
        · rw [hPE.2]; exact invW
        · rw [hPE.2]; omega
        · rw [hPE.2]; omega
        · rw [hPE.2]; exact Nat.le_refl _
        · rw [hPE.1, view_append_prune _ _ hpFB, hvFB]
          show (b + 1, above (b + 1) (above p (E ++ [e]))) = _
          rw [above_above p (b + 1) _ (by omega)]
        · rw [hPE.1, entriesOfRecs_append, heFB]; simp [entriesOfRecs]
    have hwhere : ∀ q' post, effectsOf false ar = q' ++ post →
        Where n e (b + 1) ar true q' post (applyEffects (applyEffect n (Effect.append e)) q') :=
      fun q' post hsp => traverse n e (b + 1) hpFB ar hw hcl true _ hA q' post hsp
    constructor
    · intro q post hsplit
      rw [heff] at hsplit
      rcases q with _ | ⟨x, q'⟩
      · simpa [applyEffects] using ctx.dur
      · simp only [List.cons_append, List.cons.injEq] at hsplit
        obtain ⟨rfl, hsplit⟩ := hsplit
        rw [applyEffects_cons]
        exact mkDur _ q' post hsplit (hwhere q' post hsplit)
    · -- the boundary after the input
      have hfull := hwhere (effectsOf false ar) [] (by simp)
      have hdurFull := mkDur _ (effectsOf false ar) [] (by simp) hfull
      have hvFull := hvotesPrefix (effectsOf false ar) [] (by simp)
      rw [hwal]
      rw [heff] at inv' href1 hvFull ⊢
      rw [applyEffects_cons]
      rcases hfull with ⟨hPA, _, _, hnc⟩ | ⟨hPB, hnc⟩ | ⟨_, _, hne⟩ | ⟨_, _, hne⟩ | ⟨hPE, hc⟩
      · have hbase : M.height (M.step s i).1 - 1 = b := by have := hnocommitH (hnc rfl); omega
        rw [hbase] at inv' ⊢
        exact ⟨href1, inv', by rw [hPA.2]; exact ctx.chain, ⟨p, hp, by rw [hPA.1]; exact hview⟩,
          ⟨pe ++ [e], by rw [hPA.1]; simp [hpend], by rw [hPA.1]; simp [← hpe, List.append_assoc],
            by
              intro x hx
              simp only [List.mem_append, List.mem_singleton] at hx
              rcases hx with hx | rfl
              · exact hpeh x hx
              · omega⟩,
          hvFull, hdurFull⟩
      · have hbase : M.height (M.step s i).1 - 1 = b := by have := hnocommitH (hnc rfl); omega
        rw [hbase] at inv' ⊢
        exact ⟨href1, inv', by rw [hPB.2]; exact ctx.chain,
          ⟨p, hp, by rw [hPB.1, heFB]; exact hvFB⟩,
          ⟨[], by rw [hPB.1]; rfl, by rw [hPB.1, heFB]; simp, by intro x hx; cases hx⟩,
          hvFull, hdurFull⟩
      · exact absurd rfl hne
      · exact absurd rfl hne
      · have hbase : M.height (M.step s i).1 - 1 = b + 1 := by have := hcommitH hc; omega
        rw [hbase] at inv' ⊢
        have hent : entriesOfRecs (FB n e ++ [Rec.prune (b + 1)]) = E ++ [e] := by
          rw [entriesOfRecs_append, heFB]; simp [entriesOfRecs]
        exact ⟨href1, inv', hPE.2,
          ⟨b + 1, Nat.le_refl _, by
            rw [hPE.1, hent, view_append_prune _ _ hpFB, hvFB]
            show (b + 1, above (b + 1) (above p (E ++ [e]))) = _
            rw [above_above p (b + 1) _ (by omega)]⟩,
          ⟨[], by rw [hPE.1]; rfl, by rw [hPE.1, hent]; simp, by intro x hx; cases hx⟩,
          hvFull, hdurFull⟩

/-- **Every prefix of the effect trace of a live run yields a durable image**, from any boundary
context (first boot or a recovered process). -/
theorem durable_all (M : Machine S) (hs : ReplaySafe M) (c0 : Nat) :
    ∀ (ins : List Input) (insd : List Input) (s : S) (E : List Entry) (b : Nat)
      (tr hist : List Effect) (n : Node),
      Ctx M c0 insd s E b tr hist n → ListenOK M s ins →
      ∀ pre post, (liveRun M s ins).2 = pre ++ post →
        Durable M c0 (applyEffects n pre) (hist ++ pre) := by
  intro ins
  induction ins with
  | nil =>
    intro insd s E b tr hist n ctx _ pre post hsplit
    obtain ⟨hq, _⟩ := List.append_eq_nil_iff.1 (by simpa [liveRun] using hsplit.symm)
    subst hq
    simpa [applyEffects] using ctx.dur
  | cons i rest ih =>
    intro insd s E b tr hist n ctx ok pre post hsplit
    obtain ⟨hi, okr⟩ := ok
    obtain ⟨hpre, hctx⟩ := chunk M hs c0 insd s E b tr hist n ctx i hi
    simp only [liveRun] at hsplit
    rcases List.append_eq_append_iff.1 hsplit with ⟨a', h1, h2⟩ | ⟨c', h1, h2⟩
    · -- the crash point lies in a later input
      rw [h1, applyEffects_append, ← List.append_assoc]
      exact ih _ _ _ _ _ _ _ hctx okr a' post h2
    · -- the crash point lies within this input's effects
      exact hpre pre c' h1

/-- The boundary context holds after every run. -/
theorem ctx_all (M : Machine S) (hs : ReplaySafe M) (c0 : Nat) :
    ∀ (ins : List Input) (insd : List Input) (s : S) (E : List Entry) (b : Nat)
      (tr hist : List Effect) (n : Node),
      Ctx M c0 insd s E b tr hist n → ListenOK M s ins →
      Ctx M c0 (insd ++ ins) (liveRun M s ins).1 (E ++ loggedEntries M s ins)
        (M.height (liveRun M s ins).1 - 1) (tr ++ (liveRun M s ins).2)
        (hist ++ (liveRun M s ins).2) (applyEffects n (liveRun M s ins).2) := by
  intro ins
  induction ins with
  | nil =>
    intro insd s E b tr hist n ctx _
    have : M.height s - 1 = b := by have := ctx.inv.height; omega
    simpa [liveRun, loggedEntries, applyEffects, this] using ctx
  | cons i rest ih =>
    intro insd s E b tr hist n ctx ok
    obtain ⟨hi, okr⟩ := ok
    have := ih _ _ _ _ _ _ _ (chunk M hs c0 insd s E b tr hist n ctx i hi).2 okr
    simpa [liveRun, loggedEntries, applyEffects_append, List.append_assoc] using this

/-- A regular stop (`Run` returns, the deferred `Close` flushes the pending batch) after any run:
the image holds the whole log. -/
theorem stopped_image (M : Machine S) (hs : ReplaySafe M) (c0 : Nat) (ins : List Input)
    (ok : ListenOK M (M.init (c0 + 1)) ins) :
    let n := applyEffects (Node.fresh c0) ((liveRun M (M.init (c0 + 1)) ins).2 ++ [Effect.flush])
    n.chainHeight + 1 = M.height (liveRun M (M.init (c0 + 1)) ins).1 ∧
    ∃ p, p ≤ n.chainHeight ∧
      (view n.store.flushed).2 = above p (loggedEntries M (M.init (c0 + 1)) ins) := by
  have ctx := ctx_all M hs c0 ins [] _ [] c0 [] [] (Node.fresh c0) (Ctx.init M hs c0) ok
  simp only [List.nil_append] at ctx
  obtain ⟨p, hp, hview⟩ := ctx.viewF
  obtain ⟨pe, hpend, hpe, hpeh⟩ := ctx.pend
  have hh := ctx.inv.height
  have hch := ctx.chain
  simp only [applyEffects_append]
  refine ⟨?_, p, ?_, ?_⟩
  · show (applyEffects (Node.fresh c0) _).chainHeight + 1 = _
    rw [hch]; omega
  · show p ≤ (applyEffects (Node.fresh c0) _).chainHeight
    rw [hch]; exact hp
  · show (view ((applyEffects (Node.fresh c0) _).store.flushed ++
        (applyEffects (Node.fresh c0) _).store.pending)).2 = _
    rw [hpend, view_append_entries _ _ (fun x hx => by
      rw [hview]; have := hpeh x hx; show p < x.height; omega), hview]
    show above p _ ++ pe = _
    rw [← hpe, above_append, above_all p pe (fun x hx => by have := hpeh x hx; omega)]

/-- **A stop at an input boundary leaves a durable image.** `Run` returns between two inputs (the
context is cancelled / a listener is closed in the select loop, or the `SetWALEntry` of the next
input fails, which is the first thing the driver does for it) and the deferred `Close` flushes the
pending batch: the image then holds the WHOLE log of the reference run, above the same watermark. -/
theorem Ctx.flush_durable {M : Machine S} {c0 : Nat} {insd : List Input} {s : S} {E : List Entry}
    {b : Nat} {tr hist : List Effect} {n : Node} (ctx : Ctx M c0 insd s E b tr hist n) :
    Durable M c0 (applyEffect n Effect.flush) (hist ++ [Effect.flush]) := by
  obtain ⟨p, hp, hview⟩ := ctx.viewF
  obtain ⟨pe, hpend, hpe, hpeh⟩ := ctx.pend
  have hh := ctx.inv.height
  have hch := ctx.chain
  have hb : M.height s - 1 = b := by omega
  refine ⟨s, E, tr, p, insd, ctx.ref, ?_, ?_, ?_, ?_, ?_, ?_, ?_, ?_⟩
  · show LiveInvW M s E n.chainHeight tr
    rw [hch]; exact ctx.inv.toW
  · rw [hb]; exact ctx.inv
  · show n.chainHeight + 1 ≤ M.height s
    omega
  · show M.height s ≤ n.chainHeight + 2
    omega
  · show p ≤ n.chainHeight
    omega
  · show view (n.store.flushed ++ n.store.pending) = _
    rw [hpend, view_append_entries _ _ (fun x hx => by
      rw [hview]; have := hpeh x hx; show p < x.height; omega), hview]
    show (p, above p _ ++ pe) = _
    rw [← hpe, above_append, above_all p pe (fun x hx => by have := hpeh x hx; omega)]
  · show entriesOfRecs (n.store.flushed ++ n.store.pending) = E
    rw [hpend, entriesOfRecs_append, entriesOfRecs_map_entry, hpe]
  · intro v hv
    refine ctx.hv v ?_
    simpa [votesOf_append, votesOf, Effect.vote?] using hv

end Juno.C13
