import JunoModel.C13.Model
/-!
C13 — the ways `driver.Run` ENDS other than by a process death (core Lean; linked into `c13drv`).

`Run` = `replay`, then `listen`; both return as soon as `execute` returns an error; `listen` also
returns (nil) when the context is cancelled or a listener is closed — only in its select loop, i.e.
between two inputs. In every case the deferred `d.db.Close()` runs, and walstore's `Close` flushes
the pending batch.

`execute` / `commit` return an error — and perform NOTHING further — when
* `db.Flush()` fails (in front of an action that `RequiresWALFlush`, or the flush that ends a commit),
* `db.SetWALEntry` fails (`WriteWAL`),
* `commitListener.OnCommit` returns false (no build result for the value, the persister reported an
  error, or the context was cancelled while waiting for it): `commit` returns before
  `DeleteWALEntries` — nothing is pruned,
* `db.DeleteWALEntries` fails.
Each of these is one effect of the trace that is attempted and does not happen.
-/
namespace Juno.C13

/-- Effects whose attempt can fail with an error that stops the driver. -/
def Effect.canFail : Effect → Bool
  | .flush => true
  | .append _ => true
  | .deliver .. => true
  | .prune _ => true
  | _ => false

/-- What a process performs when the `k`-th effect of its trace (0-based) fails: the effects before
it, then `Close` (a flush of the pending batch; `closeOK = false`: the store is broken and `Close`
fails as well — the image is the crash image of that point). `k = trace.length`: a regular stop. -/
def stopTrace (trace : List Effect) (k : Nat) (closeOK : Bool) : List Effect :=
  trace.take k ++ (if closeOK then [Effect.flush] else [])

end Juno.C13
