import JunoModel.C13.ProofsReplay2
/-!
C13 — helper lemmas, part 4: the invariant over whole runs, recovery from a crash image, votes
after recovery, resume height.
-/
namespace Juno.C13
variable {S : Type}

theorem liveInv_init (M : Machine S) (hs : ReplaySafe M) (c0 : Nat) :
    LiveInv M (M.init (c0 + 1)) [] c0 [] where
  height := hs.height_init _
  state := by simp [above, sortByHeight, replayRun]
  futns := by intro x hx; cases hx
  votes := by intro v hv; simp [votesOf] at hv
  rok := by simp [above, sortByHeight, ReplayOK]
  votesR := by simp [above, sortByHeight, replayRun, votesOf]
  timers := by intro t ht; simp [timersOf] at ht
  timersR := by simp [above, sortByHeight, replayRun, timersOf]

theorem liveInv_run (M : Machine S) (hs : ReplaySafe M) (ins : List Input) (s : S) (E : List Entry)
    (b : Nat) (tr : List Effect) (inv : LiveInv M s E b tr) (ok : ListenOK M s ins) :
    LiveInv M (liveRun M s ins).1 (E ++ loggedEntries M s ins) (M.height (liveRun M s ins).1 - 1)
      (tr ++ (liveRun M s ins).2) := by
  induction ins generalizing s E b tr with
  | nil =>
    have : M.height s - 1 = b := by have := inv.height; omega
    simpa [liveRun, loggedEntries, this] using inv
  | cons i rest ih =>
    obtain ⟨hst, okr⟩ := ok
    rcases hs.logged_or_inert s i hst with ⟨h1, h2⟩ | ⟨e, ar, h2, hi, hh, hstart, hw⟩
    · have okr' : ListenOK M s rest := by rw [h1] at okr; exact okr
      have := ih s E b tr inv okr'
      simpa [liveRun, loggedEntries, h1, h2, walOf, effectsOf] using this
    · have hwal : walOf (M.step s i).2 = [e] := by rw [h2]; simp [walOf, hw]
      obtain ⟨_, inv'⟩ := liveInv_step M hs s E b tr inv i e ar hst h2 hi hh hstart
      have := ih (M.step s i).1 (E ++ [e]) _ _ inv' okr
      simpa [liveRun, loggedEntries, hwal, List.append_assoc] using this

/-! ## Recovery from a crash image -/

/-- What `recover` computes when the image's live entries are the log above some `p ≤ b` and the
chain is at `b`: the replay of the sorted log above `b` from a fresh machine at `b + 1`. -/
theorem recover_eq (M : Machine S) (hs : ReplaySafe M) (n : Node) (E : List Entry) (b p : Nat)
    (hchain : n.chainHeight = b) (hp : p ≤ b) (hview : (view n.store.flushed).2 = above p E) :
    (recover M n).1 = (replayRun M (M.init (b + 1)) (sortByHeight (above b E))).1 ∧
    (recover M n).2.1 = (replayRun M (M.init (b + 1)) (sortByHeight (above b E))).2 := by
  have hload : n.crash.store.load = sortByHeight (above p E) := by
    simp [Node.crash, Store.crash, Store.load, hview]
  have hch : n.crash.chainHeight = b := by simp [Node.crash, hchain]
  have hrun : replayRun M (M.init (b + 1)) (sortByHeight (above p E)) =
      replayRun M (M.init (b + 1)) (sortByHeight (above b E)) := by
    rw [skipStale M hs b _ _ (by rw [hs.height_init]; exact Nat.le_refl _)]
    have : above b (sortByHeight (above p E)) = sortByHeight (above b E) := by
      unfold above
      rw [sort_filter]
      exact congrArg sortByHeight (above_above p b E hp)
    rw [this]
  simp only [recover, hload, hch, hrun]
  exact ⟨trivial, trivial⟩

/-! ## Votes of a replay are for heights at or above the start -/

theorem votes_height_ge (M : Machine S) (hs : ReplaySafe M) (L : List Entry) (t : S) (v : Vote)
    (hv : v ∈ votesOf (replayRun M t L).2) : M.height t ≤ v.h := by
  induction L generalizing t with
  | nil => simp [replayRun, votesOf] at hv
  | cons e L ih =>
    simp only [replayRun, votesOf_append, List.mem_append] at hv
    rcases hv with hv | hv
    · unfold replayStep at hv
      split at hv
      · simp [effectsOf, votesOf] at hv
      · rw [hs.votes_current_height t e.toInput v hv]
        exact Nat.le_refl _
    · exact Nat.le_trans (replayStep_height_mono M hs t e) (ih _ hv)

theorem live_replayOK (M : Machine S) (hs : ReplaySafe M) (ins : List Input) (s : S)
    (ok : ListenOK M s ins) : ReplayOK M s (loggedEntries M s ins) := by
  induction ins generalizing s with
  | nil => trivial
  | cons i rest ih =>
    obtain ⟨hst, okr⟩ := ok
    rcases hs.logged_or_inert s i hst with ⟨h1, h2⟩ | ⟨e, ar, h2, hi, hh, hstart, hw⟩
    · have := ih s (by rw [h1] at okr; exact okr)
      simpa [loggedEntries, h1, h2, walOf] using this
    · have hwal : walOf (M.step s i).2 = [e] := by rw [h2]; simp [walOf, hw]
      have hrs : replayStep M s e = M.step s i := by rw [replayStep_of_not_stale M s e hh, hi]
      simp only [loggedEntries, hwal, List.singleton_append, ReplayOK, hrs]
      refine ⟨fun htm _ => ?_, ih _ okr⟩
      rcases hst with h | h
      · exact h
      · rw [← hi] at h
        cases e <;> simp [Entry.isTimeout] at htm <;> simp [Entry.toInput] at h

/-- No vote after the restart conflicts with one broadcast before it, when the crash image holds
the log above the chain height (see `Props.no_conflicting_vote_after_recovery_partial`). -/
theorem no_conflict_core (M : Machine S) (hs : ReplaySafe M) (ne : NoEquivocation M)
    (s : S) (E : List Entry) (b : Nat) (tr : List Effect) (inv : LiveInvW M s E b tr)
    (n : Node) (p : Nat) (hchain : n.chainHeight = b) (hp : p ≤ b)
    (hview : (view n.store.flushed).2 = above p E)
    (pre : List Effect) (hpre : ∀ v ∈ votesOf pre, v ∈ votesOf tr)
    (cont : List Input) (okc : ListenOK M (recover M n).1 cont) :
    ∀ v ∈ votesOf pre, ∀ w ∈ votesOf ((recover M n).2.1 ++ (liveRun M (recover M n).1 cont).2),
      ¬ v.conflicts w := by
  obtain ⟨r1, r2⟩ := recover_eq M hs n E b p hchain hp hview
  have hrs : (recover M n).1 = s := by rw [r1, ← inv.state]
  rw [hrs] at okc
  obtain ⟨_, tv, _⟩ := live_eq_replay M hs cont s okc
  -- everything after the restart is part of ONE uncrashed execution from `init (b + 1)`
  let L := sortByHeight (above b E) ++ loggedEntries M s cont
  have hL : votesOf (replayRun M (M.init (b + 1)) L).2 =
      votesOf (replayRun M (M.init (b + 1)) (sortByHeight (above b E))).2 ++
        votesOf (liveRun M s cont).2 := by
    show votesOf (replayRun M (M.init (b + 1)) (sortByHeight (above b E) ++ loggedEntries M s cont)).2 = _
    rw [replayRun_append, votesOf_append, ← inv.state, votesOf_visibleOf_eq tv]
  intro v hv w hw
  rw [hrs, r2, votesOf_append, ← hL] at hw
  have hvt := inv.votes v (hpre v hv)
  by_cases hvh : v.h = b + 1
  · have hv' : v ∈ votesOf (replayRun M (M.init (b + 1)) L).2 := by
      rw [hL, List.mem_append]; exact Or.inl (hvt.2 hvh)
    have hrokL : ReplayOK M (M.init (b + 1)) L :=
      (replayOK_append M _ _ _).2 ⟨inv.rok, by rw [← inv.state]; exact live_replayOK M hs cont s okc⟩
    exact ne (b + 1) L hrokL v w hv' hw
  · have hwge := votes_height_ge M hs L (M.init (b + 1)) w hw
    rw [hs.height_init] at hwge
    intro hc
    have := hc.2.1
    have := hvt.1
    omega

/-! ## Resume height -/

theorem effectsOf_append_nocommit (r : Bool) (pre rest : List Action) (h : committed pre = false) :
    effectsOf r (pre ++ rest) = effectsOf r pre ++ effectsOf r rest := by
  induction pre with
  | nil => rfl
  | cons a pre ih =>
    cases a <;> simp_all [effectsOf, committed, List.append_assoc]

theorem chain_nocommit (r : Bool) (acts : List Action) (n : Node) (h : committed acts = false) :
    (applyEffects n (effectsOf r acts)).chainHeight = n.chainHeight := by
  induction acts generalizing n with
  | nil => rfl
  | cons a rest ih =>
    cases a <;> simp only [committed] at h <;> try (cases h)
    all_goals
      cases r <;>
        simp [effectsOf, Action.requiresWALFlush, applyEffects, applyEffect] <;>
        (first | exact ih _ h | skip)

theorem split_commit (acts : List Action) (h : committed acts = true) :
    ∃ pre hh v post, acts = pre ++ Action.commit hh v :: post ∧ committed pre = false := by
  induction acts with
  | nil => simp [committed] at h
  | cons a rest ih =>
    cases a with
    | commit hh v => exact ⟨[], hh, v, rest, rfl, rfl⟩
    | _ =>
      simp only [committed] at h
      obtain ⟨pre, hh, v, post, hsp, hpre⟩ := ih h
      exact ⟨_ :: pre, hh, v, post, by rw [hsp]; rfl, by simpa [committed] using hpre⟩

theorem resume_height_run (M : Machine S) (hs : ReplaySafe M) (L : List Entry) (t : S) (n : Node)
    (h : M.height t = n.chainHeight + 1) :
    M.height (replayRun M t L).1 = (applyEffects n (replayRun M t L).2).chainHeight + 1 := by
  induction L generalizing t n with
  | nil => simpa [replayRun, applyEffects] using h
  | cons e L ih =>
    simp only [replayRun, applyEffects_append]
    apply ih
    unfold replayStep
    split
    · simpa [effectsOf, applyEffects] using h
    · cases hc : committed (M.step t e.toInput).2
      · rw [hs.no_commit_height t _ hc, chain_nocommit true _ n hc]
        exact h
      · obtain ⟨pre, hh, v, post, hsp, hpre⟩ := split_commit _ hc
        obtain ⟨hpost, _, hheq, hnew, _⟩ := hs.commit_last t e.toInput pre hh v post hsp
        subst hpost
        rw [hnew, hsp, effectsOf_append_nocommit true pre _ hpre, applyEffects_append]
        simp [effectsOf, applyEffects, applyEffect]

end Juno.C13
