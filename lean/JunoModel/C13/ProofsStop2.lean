import JunoModel.C13.ProofsStop
/-!
C13 — error exits, part 2 (round 5): the remaining ways `execute` returns an error.

`ProofsStop.lean` covers a failing `Flush` and a refused commit. Here:
* `DeleteWALEntries` fails (inside `commit`, after the delivery): nothing is pending at that point,
  `Close` changes nothing — the image is the crash image of that boundary;
* `SetWALEntry` fails: for a machine whose call returns its log entry FIRST (juno's does:
  `tendermint_fixed_logs_first`) this is the first thing the driver does for the input, so the process
  stops at an INPUT BOUNDARY and `Close` flushes the pending batch — the same image as a regular stop
  (context cancelled / listener closed in the select loop). These images are NOT prefixes of the
  effect trace (entries that no visible effect had forced out yet become durable); they are the
  `Moment.stoppedFirst` / `Moment.stoppedResumed` moments;
* any of these failing while the restarted process is still REPLAYING (`replay` returns the error of
  `execute`, `Run` ends): during a replay nothing is appended, so the image is a prefix image.
-/
namespace Juno.C13
variable {S : Type}

/-! ## Nothing is pending when a prune is attempted -/

/-- Every `prune` of the trace happens at a moment when (abstractly) nothing is pending. -/
def pruneSafe (pe : Bool) : List Effect → Bool
  | [] => true
  | x :: rest => (match x with | .prune _ => pe | _ => true) && pruneSafe (peStep pe x) rest

theorem pruneSafe_append (pe : Bool) (a b : List Effect) :
    pruneSafe pe (a ++ b) = (pruneSafe pe a && pruneSafe (peAfter pe a) b) := by
  induction a generalizing pe with
  | nil => simp [pruneSafe, peAfter]
  | cons x a ih => simp [pruneSafe, peAfter, ih, Bool.and_assoc]

theorem pruneSafe_effectsOf_live (acts : List Action) (pe : Bool) :
    pruneSafe pe (effectsOf false acts) = true := by
  induction acts generalizing pe with
  | nil => simp [effectsOf, pruneSafe]
  | cons a rest ih =>
    cases a <;> simp [effectsOf, Action.requiresWALFlush, pruneSafe, peStep, ih]

theorem pruneSafe_effectsOf_replay (acts : List Action) :
    pruneSafe true (effectsOf true acts) = true := by
  induction acts with
  | nil => simp [effectsOf, pruneSafe]
  | cons a rest ih =>
    cases a <;> simp_all [effectsOf, pruneSafe, peStep]

theorem pruneSafe_liveRun (M : Machine S) (s : S) (ins : List Input) (pe : Bool) :
    pruneSafe pe (liveRun M s ins).2 = true := by
  induction ins generalizing s pe with
  | nil => simp [liveRun, pruneSafe]
  | cons i rest ih =>
    simp only [liveRun, pruneSafe_append, Bool.and_eq_true]
    exact ⟨pruneSafe_effectsOf_live _ _, ih _ _⟩

theorem pruneSafe_replayRun (M : Machine S) (s : S) (L : List Entry) :
    pruneSafe true (replayRun M s L).2 = true := by
  induction L generalizing s with
  | nil => simp [replayRun, pruneSafe]
  | cons e rest ih =>
    have h := safe_effectsOf_replay (replayStep M s e).2
    simp only [replayRun, pruneSafe_append, Bool.and_eq_true]
    rw [h.2]
    exact ⟨pruneSafe_effectsOf_replay _, ih _⟩

theorem pending_empty_at_prune (es : List Effect) (pe : Bool) (n : Node)
    (hpe : pe = true → n.store.pending = []) (hs : pruneSafe pe es = true)
    (pre : List Effect) (h : Nat) (post : List Effect) (hsplit : es = pre ++ Effect.prune h :: post) :
    (applyEffects n pre).store.pending = [] := by
  induction es generalizing pe n pre with
  | nil => cases pre <;> simp at hsplit
  | cons y rest ih =>
    simp only [pruneSafe, Bool.and_eq_true] at hs
    cases pre with
    | nil =>
      simp only [List.nil_append, List.cons.injEq] at hsplit
      obtain ⟨rfl, -⟩ := hsplit
      exact hpe (by simpa using hs.1)
    | cons p pre' =>
      simp only [List.cons_append, List.cons.injEq] at hsplit
      obtain ⟨rfl, hrest⟩ := hsplit
      rw [applyEffects_cons]
      exact ih (peStep pe y) (applyEffect n y) (peStep_sound n pe y hpe) hs.2 pre' hrest

/-! ## `DeleteWALEntries` fails -/

/-- The node a process leaves when the `DeleteWALEntries` of a commit fails, at any commit of any
live run from any boot node with nothing pending: the node after the prefix in front of the prune
(`Close` has nothing to flush). -/
theorem stop_node_at_prune (M : Machine S) (s : S) (ins : List Input) (n : Node)
    (hn : n.store.pending = []) (pre : List Effect) (h : Nat) (post : List Effect)
    (hsplit : (liveRun M s ins).2 = pre ++ Effect.prune h :: post) (closeOK : Bool) :
    applyEffects n (stopTrace (liveRun M s ins).2 pre.length closeOK) = applyEffects n pre := by
  have htake : (liveRun M s ins).2.take pre.length = pre := by rw [hsplit]; simp
  unfold stopTrace
  rw [htake]
  cases closeOK with
  | false => simp
  | true =>
    have hp := pending_empty_at_prune _ true n (fun _ => hn) (pruneSafe_liveRun M s ins true)
      pre h post hsplit
    simp only [if_true, applyEffects_append]
    exact flush_noop_of_pending_empty _ hp

theorem prune_stop_moment_first (M : Machine S) (c0 : Nat) (ins : List Input)
    (ok : ListenOK M (M.init (c0 + 1)) ins) (pre : List Effect) (h : Nat) (post : List Effect)
    (hsplit : (liveRun M (M.init (c0 + 1)) ins).2 = pre ++ Effect.prune h :: post) (closeOK : Bool) :
    Moment M c0
      (applyEffects (Node.fresh c0) (stopTrace (liveRun M (M.init (c0 + 1)) ins).2 pre.length closeOK))
      pre := by
  rw [stop_node_at_prune M _ ins (Node.fresh c0) rfl pre h post hsplit closeOK]
  exact Moment.first ins ok pre _ hsplit

theorem prune_stop_moment_resumed (M : Machine S) (c0 : Nat) (n : Node) (hist : List Effect)
    (hm : Moment M c0 n hist) (cont : List Input) (okc : ListenOK M (recover M n).1 cont)
    (pre : List Effect) (h : Nat) (post : List Effect)
    (hsplit : (liveRun M (recover M n).1 cont).2 = pre ++ Effect.prune h :: post) (closeOK : Bool) :
    Moment M c0
      (applyEffects (recover M n).2.2 (stopTrace (liveRun M (recover M n).1 cont).2 pre.length closeOK))
      (hist ++ (recover M n).2.1 ++ pre) := by
  rw [stop_node_at_prune M _ cont (recover M n).2.2 (recover_node_pending M n) pre h post hsplit closeOK]
  exact Moment.resumed n hist hm cont okc pre _ hsplit

/-! ## `SetWALEntry` fails: a stop at an input boundary -/

theorem liveRun_append (M : Machine S) (s : S) (a b : List Input) :
    liveRun M s (a ++ b) =
      ((liveRun M (liveRun M s a).1 b).1, (liveRun M s a).2 ++ (liveRun M (liveRun M s a).1 b).2) := by
  induction a generalizing s with
  | nil => simp [liveRun]
  | cons i a ih => simp [liveRun, ih, List.append_assoc]

theorem listenOK_prefix (M : Machine S) (s : S) (a b : List Input) (h : ListenOK M s (a ++ b)) :
    ListenOK M s a := by
  induction a generalizing s with
  | nil => trivial
  | cons i a ih => exact ⟨h.1, ih _ h.2⟩

/-- The effect trace of a run in which input `i` follows the inputs `ins`, when the call for `i`
returns its log entry first: `append e` is the effect right behind the trace of `ins`. -/
theorem trace_at_logged_input (M : Machine S) (s : S) (ins : List Input) (i : Input)
    (rest : List Input) (e : Entry) (ar : List Action)
    (hstep : (M.step (liveRun M s ins).1 i).2 = Action.writeWAL e :: ar) :
    ∃ post, (liveRun M s (ins ++ i :: rest)).2 = (liveRun M s ins).2 ++ Effect.append e :: post := by
  refine ⟨effectsOf false ar ++ (liveRun M (M.step (liveRun M s ins).1 i).1 rest).2, ?_⟩
  rw [liveRun_append]
  simp [liveRun, hstep, effectsOf, Action.requiresWALFlush]

/-- The node a process leaves when the `SetWALEntry` for input `i` fails: the node after the
complete effects of the inputs before `i`, plus `Close`'s flush. -/
theorem stop_node_at_append (M : Machine S) (s : S) (ins : List Input) (i : Input)
    (rest : List Input) (e : Entry) (ar : List Action) (n : Node)
    (hstep : (M.step (liveRun M s ins).1 i).2 = Action.writeWAL e :: ar) (closeOK : Bool) :
    applyEffects n (stopTrace (liveRun M s (ins ++ i :: rest)).2 (liveRun M s ins).2.length closeOK) =
      applyEffects n ((liveRun M s ins).2 ++ (if closeOK then [Effect.flush] else [])) := by
  obtain ⟨post, hp⟩ := trace_at_logged_input M s ins i rest e ar hstep
  unfold stopTrace
  rw [hp]
  simp

/-- **A failed `SetWALEntry` in the first process leaves a `Moment`** (an input-boundary stop, or —
`Close` failing as well — the crash image of that boundary), with the votes broadcast so far. -/
theorem append_stop_moment_first (M : Machine S) (c0 : Nat) (ins : List Input) (i : Input)
    (rest : List Input) (ok : ListenOK M (M.init (c0 + 1)) (ins ++ i :: rest)) (e : Entry)
    (ar : List Action)
    (hstep : (M.step (liveRun M (M.init (c0 + 1)) ins).1 i).2 = Action.writeWAL e :: ar)
    (closeOK : Bool) :
    ∃ hist, Moment M c0 (applyEffects (Node.fresh c0)
        (stopTrace (liveRun M (M.init (c0 + 1)) (ins ++ i :: rest)).2
          (liveRun M (M.init (c0 + 1)) ins).2.length closeOK)) hist ∧
      votesOf hist = votesOf (liveRun M (M.init (c0 + 1)) ins).2 := by
  rw [stop_node_at_append M _ ins i rest e ar (Node.fresh c0) hstep closeOK]
  have ok' := listenOK_prefix M _ ins (i :: rest) ok
  cases closeOK with
  | true =>
    exact ⟨_, Moment.stoppedFirst ins ok', by simp [votesOf, Effect.vote?]⟩
  | false =>
    refine ⟨(liveRun M (M.init (c0 + 1)) ins).2, ?_, rfl⟩
    simpa using Moment.first ins ok' (liveRun M (M.init (c0 + 1)) ins).2 [] (by simp)

/-- The same for a process restarted at any `Moment`, after its replay and any further inputs. -/
theorem append_stop_moment_resumed (M : Machine S) (c0 : Nat) (n : Node) (hist : List Effect)
    (hm : Moment M c0 n hist) (ins : List Input) (i : Input) (rest : List Input)
    (okc : ListenOK M (recover M n).1 (ins ++ i :: rest)) (e : Entry) (ar : List Action)
    (hstep : (M.step (liveRun M (recover M n).1 ins).1 i).2 = Action.writeWAL e :: ar)
    (closeOK : Bool) :
    ∃ hist', Moment M c0 (applyEffects (recover M n).2.2
        (stopTrace (liveRun M (recover M n).1 (ins ++ i :: rest)).2
          (liveRun M (recover M n).1 ins).2.length closeOK)) hist' ∧
      votesOf hist' = votesOf (hist ++ (recover M n).2.1 ++ (liveRun M (recover M n).1 ins).2) := by
  rw [stop_node_at_append M _ ins i rest e ar (recover M n).2.2 hstep closeOK]
  have ok' := listenOK_prefix M _ ins (i :: rest) okc
  cases closeOK with
  | true =>
    exact ⟨_, Moment.stoppedResumed n hist hm ins ok', by simp [votesOf, Effect.vote?]⟩
  | false =>
    refine ⟨hist ++ (recover M n).2.1 ++ (liveRun M (recover M n).1 ins).2, ?_, rfl⟩
    simpa using Moment.resumed n hist hm ins ok' (liveRun M (recover M n).1 ins).2 [] (by simp)

/-! ## An error while the restarted process is still replaying -/

theorem no_append_effectsOf_replay (acts : List Action) (e : Entry) :
    Effect.append e ∉ effectsOf true acts := by
  induction acts with
  | nil => simp [effectsOf]
  | cons a rest ih => cases a <;> simp_all [effectsOf]

theorem no_append_replayRun (M : Machine S) (s : S) (L : List Entry) (e : Entry) :
    Effect.append e ∉ (replayRun M s L).2 := by
  induction L generalizing s with
  | nil => simp [replayRun]
  | cons x rest ih =>
    simp only [replayRun, List.mem_append, not_or]
    exact ⟨no_append_effectsOf_replay _ e, ih _⟩

/-- **An error stop during the replay is a crash point of the replay.** The restarted process is
replaying its log when an effect that can fail does (the commit listener refuses a re-executed
commit, the prune or the flush behind it fails): `replay` returns the error, `Run` ends, `Close`
runs. The image is that of a prefix of the replay's effects — `Moment.replaying`. -/
theorem error_stop_moment_replaying (M : Machine S) (c0 : Nat) (n : Node) (hist : List Effect)
    (hm : Moment M c0 n hist) (q : List Effect) (x : Effect) (post : List Effect)
    (hsplit : (recover M n).2.1 = q ++ x :: post) (hx : x.canFail = true) (closeOK : Bool) :
    ∃ hist', Moment M c0 (applyEffects n.crash (stopTrace (recover M n).2.1 q.length closeOK)) hist' ∧
      votesOf hist' = votesOf (hist ++ q) := by
  have htake : (recover M n).2.1.take q.length = q := by rw [hsplit]; simp
  have hrun : (recover M n).2.1 =
      (replayRun M (M.init (n.crash.chainHeight + 1)) n.crash.store.load).2 := rfl
  unfold stopTrace
  rw [htake]
  cases closeOK with
  | false =>
    exact ⟨hist ++ q, by simpa using Moment.replaying n hist hm q (x :: post) hsplit, rfl⟩
  | true =>
    simp only [if_true]
    have hsafe := safe_replayRun M (M.init (n.crash.chainHeight + 1)) n.crash.store.load
    have same : (applyEffects n.crash q).store.pending = [] →
        ∃ hist', Moment M c0 (applyEffects n.crash (q ++ [Effect.flush])) hist' ∧
          votesOf hist' = votesOf (hist ++ q) := by
      intro hp
      refine ⟨hist ++ q, ?_, rfl⟩
      rw [applyEffects_append]
      show Moment M c0 (applyEffect (applyEffects n.crash q) Effect.flush) (hist ++ q)
      rw [flush_noop_of_pending_empty _ hp]
      exact Moment.replaying n hist hm q (x :: post) hsplit
    cases x with
    | flush =>
      refine ⟨hist ++ (q ++ [Effect.flush]), Moment.replaying n hist hm (q ++ [Effect.flush]) post
        (by rw [hsplit]; simp), ?_⟩
      simp [votesOf, Effect.vote?]
    | append e =>
      exact absurd (by rw [hrun] at hsplit; rw [hsplit]; simp) (no_append_replayRun M _ _ e)
    | deliver h v =>
      exact same (pending_empty_at_visible _ true n.crash (fun _ => rfl) hsafe.1 q _ post
        (by rw [← hrun]; exact hsplit) rfl)
    | prune h =>
      exact same (pending_empty_at_prune _ true n.crash (fun _ => rfl)
        (pruneSafe_replayRun M _ _) q h post (by rw [← hrun]; exact hsplit))
    | sendProposal => simp [Effect.canFail] at hx
    | sendPrevote => simp [Effect.canFail] at hx
    | sendPrecommit => simp [Effect.canFail] at hx
    | setTimer => simp [Effect.canFail] at hx
    | sync => simp [Effect.canFail] at hx

end Juno.C13
