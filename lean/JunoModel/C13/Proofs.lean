import JunoModel.C13.Spec
/-!
C13 — helper lemmas, part 1: facts that hold for EVERY state machine (they are about
`driver.execute` and the log store only).
-/
namespace Juno.C13

/-! ## Tracking "the pending batch is empty" along an effect trace -/

/-- Abstract effect of one driver effect on the fact `pending = []`. -/
def peStep (pe : Bool) : Effect → Bool
  | .flush => true
  | .append _ => false
  | .prune _ => false
  | _ => pe

def peAfter (pe : Bool) (es : List Effect) : Bool := es.foldl peStep pe

/-- Every visible effect of the trace happens at a moment when (abstractly) nothing is pending. -/
def safeFrom (pe : Bool) : List Effect → Bool
  | [] => true
  | x :: rest => (!x.visible || pe) && safeFrom (peStep pe x) rest

theorem safeFrom_append (pe : Bool) (a b : List Effect) :
    safeFrom pe (a ++ b) = (safeFrom pe a && safeFrom (peAfter pe a) b) := by
  induction a generalizing pe with
  | nil => simp [safeFrom, peAfter]
  | cons x a ih => simp [safeFrom, peAfter, ih, Bool.and_assoc]

theorem peAfter_append (pe : Bool) (a b : List Effect) :
    peAfter pe (a ++ b) = peAfter (peAfter pe a) b := by
  simp [peAfter, List.foldl_append]

theorem peStep_mono {p q : Bool} (h : p = true → q = true) (x : Effect) :
    peStep p x = true → peStep q x = true := by
  cases x <;> simp [peStep] <;> exact h

theorem safeFrom_mono {p q : Bool} (h : p = true → q = true) (es : List Effect) :
    safeFrom p es = true → safeFrom q es = true := by
  induction es generalizing p q with
  | nil => simp [safeFrom]
  | cons x es ih =>
    simp only [safeFrom, Bool.and_eq_true, Bool.or_eq_true, Bool.not_eq_true']
    rintro ⟨h1, h2⟩
    refine ⟨?_, ih (peStep_mono h x) h2⟩
    cases h1 with
    | inl h1 => exact Or.inl h1
    | inr h1 => exact Or.inr (h h1)

/-- Live mode: from any starting situation, `execute` is safe (a flush precedes every visible
effect). -/
theorem safe_effectsOf_live (acts : List Action) (pe : Bool) :
    safeFrom pe (effectsOf false acts) = true := by
  induction acts generalizing pe with
  | nil => simp [effectsOf, safeFrom]
  | cons a rest ih =>
    cases a <;>
      simp [effectsOf, Action.requiresWALFlush, safeFrom, Effect.visible, peStep, ih]

/-- Replay mode: safe when nothing is pending at the start, and nothing is pending at the end. -/
theorem safe_effectsOf_replay (acts : List Action) :
    safeFrom true (effectsOf true acts) = true ∧ peAfter true (effectsOf true acts) = true := by
  induction acts with
  | nil => simp [effectsOf, safeFrom, peAfter]
  | cons a rest ih =>
    have h1 := ih.1
    have h2 := ih.2
    cases a <;>
      simp_all [effectsOf, safeFrom, Effect.visible, peStep, peAfter]

theorem safe_liveRun {S} (M : Machine S) (s : S) (ins : List Input) (pe : Bool) :
    safeFrom pe (liveRun M s ins).2 = true := by
  induction ins generalizing s pe with
  | nil => simp [liveRun, safeFrom]
  | cons i rest ih =>
    simp only [liveRun, safeFrom_append, Bool.and_eq_true]
    exact ⟨safe_effectsOf_live _ _, ih _ _⟩

theorem safe_replayRun {S} (M : Machine S) (s : S) (L : List Entry) :
    safeFrom true (replayRun M s L).2 = true ∧ peAfter true (replayRun M s L).2 = true := by
  induction L generalizing s with
  | nil => simp [replayRun, safeFrom, peAfter]
  | cons e rest ih =>
    have h := safe_effectsOf_replay (replayStep M s e).2
    have h' := ih (replayStep M s e).1
    simp only [replayRun, safeFrom_append, peAfter_append, Bool.and_eq_true]
    rw [h.2]
    exact ⟨⟨h.1, h'.1⟩, h'.2⟩

/-! ## Soundness of the tracking w.r.t. the store -/

theorem applyEffects_cons (n : Node) (x : Effect) (es : List Effect) :
    applyEffects n (x :: es) = applyEffects (applyEffect n x) es := rfl

theorem applyEffects_append (n : Node) (a b : List Effect) :
    applyEffects n (a ++ b) = applyEffects (applyEffects n a) b := by
  simp [applyEffects, List.foldl_append]

theorem peStep_sound (n : Node) (pe : Bool) (x : Effect)
    (h : pe = true → n.store.pending = []) :
    peStep pe x = true → (applyEffect n x).store.pending = [] := by
  cases x <;> simp [peStep, applyEffect, Store.flush] <;> exact h

/-- If the trace is safe then at every visible effect the pending batch is really empty. -/
theorem pending_empty_at_visible (es : List Effect) (pe : Bool) (n : Node)
    (hpe : pe = true → n.store.pending = []) (hs : safeFrom pe es = true)
    (pre : List Effect) (x : Effect) (post : List Effect) (hsplit : es = pre ++ x :: post)
    (hv : x.visible = true) : (applyEffects n pre).store.pending = [] := by
  induction es generalizing pe n pre with
  | nil => cases pre <;> simp at hsplit
  | cons y rest ih =>
    simp only [safeFrom, Bool.and_eq_true, Bool.or_eq_true, Bool.not_eq_true'] at hs
    cases pre with
    | nil =>
      simp only [List.nil_append, List.cons.injEq] at hsplit
      obtain ⟨rfl, -⟩ := hsplit
      cases hs.1 with
      | inl h => rw [hv] at h; cases h
      | inr h => exact hpe h
    | cons p pre' =>
      simp only [List.cons_append, List.cons.injEq] at hsplit
      obtain ⟨rfl, hrest⟩ := hsplit
      rw [applyEffects_cons]
      exact ih (peStep pe y) (applyEffect n y) (peStep_sound n pe y hpe) hs.2 pre' hrest

/-! ## Every appended entry is covered by the store -/

theorem applyRec_fst_mono (v : View) (r : Rec) : v.1 ≤ (applyRec v r).1 := by
  cases r with
  | entry e => simp only [applyRec]; split <;> simp
  | prune h => simp only [applyRec]; split <;> simp <;> omega

theorem foldl_applyRec_fst_mono (rs : List Rec) (v : View) : v.1 ≤ (rs.foldl applyRec v).1 := by
  induction rs generalizing v with
  | nil => simp
  | cons r rs ih => exact Nat.le_trans (applyRec_fst_mono v r) (ih _)

theorem pruned_flush_mono (s : Store) : s.pruned ≤ s.flush.pruned := by
  simp only [Store.pruned, Store.flush, view, List.foldl_append]
  exact foldl_applyRec_fst_mono _ _

/-- `e` is accounted for by the store: durable, or buffered, or at/below the prune watermark. -/
def Covered (st : Store) (e : Entry) : Prop :=
  Rec.entry e ∈ st.flushed ∨ Rec.entry e ∈ st.pending ∨ e.height ≤ st.pruned

theorem raisePrune_entry_mem (h : Nat) (l l' : List Rec) (e : Entry)
    (hr : raisePrune h l = some l') : Rec.entry e ∈ l → Rec.entry e ∈ l' := by
  induction l generalizing l' with
  | nil => simp [raisePrune] at hr
  | cons r rest ih =>
    cases r with
    | prune k =>
      simp only [raisePrune, Option.some.injEq] at hr
      subst hr
      intro hm
      simp only [List.mem_cons] at hm ⊢
      cases hm with
      | inl hm => cases hm
      | inr hm => exact Or.inr hm
    | entry e' =>
      simp only [raisePrune, Option.map_eq_some_iff] at hr
      obtain ⟨l'', hl'', rfl⟩ := hr
      intro hm
      simp only [List.mem_cons] at hm ⊢
      cases hm with
      | inl hm => exact Or.inl hm
      | inr hm => exact Or.inr (ih l'' hl'' hm)

theorem covered_setEntry_self (st : Store) (e : Entry) : Covered (st.setEntry e) e := by
  unfold Store.setEntry
  split
  · next h => exact Or.inr (Or.inr h)
  · exact Or.inr (Or.inl (by simp))

theorem covered_setEntry (st : Store) (e e' : Entry) (h : Covered st e) :
    Covered (st.setEntry e') e := by
  unfold Store.setEntry
  split
  · exact h
  · rcases h with h | h | h
    · exact Or.inl h
    · exact Or.inr (Or.inl (by simp [h]))
    · exact Or.inr (Or.inr h)

theorem covered_delete (st : Store) (k : Nat) (e : Entry) (h : Covered st e) :
    Covered (st.delete k) e := by
  unfold Store.delete
  split
  · exact h
  · split
    · next p hp =>
      rcases h with h | h | h
      · exact Or.inl h
      · exact Or.inr (Or.inl (raisePrune_entry_mem k _ _ e hp h))
      · exact Or.inr (Or.inr h)
    · rcases h with h | h | h
      · exact Or.inl h
      · exact Or.inr (Or.inl (by simp [h]))
      · exact Or.inr (Or.inr h)

theorem covered_flush (st : Store) (e : Entry) (h : Covered st e) : Covered st.flush e := by
  rcases h with h | h | h
  · exact Or.inl (by simp [Store.flush, h])
  · exact Or.inl (by simp [Store.flush, h])
  · exact Or.inr (Or.inr (Nat.le_trans h (pruned_flush_mono st)))

theorem covered_applyEffect (n : Node) (x : Effect) (e : Entry) (h : Covered n.store e) :
    Covered (applyEffect n x).store e := by
  cases x <;> simp only [applyEffect] <;>
    first
      | exact h
      | exact covered_flush _ _ h
      | exact covered_setEntry _ _ _ h
      | exact covered_delete _ _ _ h

theorem covered_applyEffects (n : Node) (es : List Effect) (e : Entry) (h : Covered n.store e) :
    Covered (applyEffects n es).store e := by
  induction es generalizing n with
  | nil => exact h
  | cons x es ih => exact ih _ (covered_applyEffect n x e h)

/-- Every entry appended somewhere in `es` is covered by the store after `es`. -/
theorem appended_covered (n : Node) (es : List Effect) (e : Entry) (hm : Effect.append e ∈ es) :
    Covered (applyEffects n es).store e := by
  induction es generalizing n with
  | nil => cases hm
  | cons x es ih =>
    rw [applyEffects_cons]
    simp only [List.mem_cons] at hm
    cases hm with
    | inl hm =>
      subst hm
      exact covered_applyEffects _ _ _ (by simpa [applyEffect] using covered_setEntry_self n.store e)
    | inr hm => exact ih _ hm

/-- Combination: at a visible effect, every entry appended before it is durable (or at/below the
durable prune watermark, i.e. belongs to a height whose commit was delivered and pruned). -/
theorem logged_before_visible (es : List Effect) (pe : Bool) (n : Node)
    (hpe : pe = true → n.store.pending = []) (hs : safeFrom pe es = true)
    (pre : List Effect) (x : Effect) (post : List Effect) (hsplit : es = pre ++ x :: post)
    (hv : x.visible = true) (e : Entry) (hm : Effect.append e ∈ pre) :
    Rec.entry e ∈ (applyEffects n pre).store.crash.flushed ∨
      e.height ≤ (applyEffects n pre).store.crash.pruned := by
  have hp := pending_empty_at_visible es pe n hpe hs pre x post hsplit hv
  rcases appended_covered n pre e hm with h | h | h
  · exact Or.inl h
  · rw [hp] at h; cases h
  · exact Or.inr h

/-! ## Replay writes nothing to the log except the prune of a commit -/

theorem effectsOf_replay_no_append (acts : List Action) (e : Entry) :
    Effect.append e ∉ effectsOf true acts := by
  induction acts with
  | nil => simp [effectsOf]
  | cons a rest ih => cases a <;> simp_all [effectsOf]

theorem replayRun_no_append {S} (M : Machine S) (s : S) (L : List Entry) (e : Entry) :
    Effect.append e ∉ (replayRun M s L).2 := by
  induction L generalizing s with
  | nil => simp [replayRun]
  | cons x rest ih =>
    simp only [replayRun, List.mem_append, not_or]
    exact ⟨effectsOf_replay_no_append _ _, ih _⟩

/-! ## Mode independence of what is visible -/

theorem visible_effectsOf_mode (acts : List Action) :
    visibleOf (effectsOf false acts) = visibleOf (effectsOf true acts) := by
  induction acts with
  | nil => rfl
  | cons a rest ih =>
    cases a <;>
      simp_all [effectsOf, visibleOf, Action.requiresWALFlush, Effect.observable, List.filter]

theorem votesOf_visibleOf (es : List Effect) : votesOf (visibleOf es) = votesOf es := by
  induction es with
  | nil => rfl
  | cons x es ih =>
    simp only [votesOf, visibleOf] at ih ⊢
    cases x <;> simp [Effect.observable, Effect.vote?, List.filter, List.filterMap, ih]

theorem votes_effectsOf_mode (acts : List Action) :
    votesOf (effectsOf false acts) = votesOf (effectsOf true acts) := by
  rw [← votesOf_visibleOf, visible_effectsOf_mode, votesOf_visibleOf]

theorem timersOf_visibleOf (es : List Effect) : timersOf (visibleOf es) = timersOf es := by
  induction es with
  | nil => rfl
  | cons x es ih =>
    simp only [timersOf, visibleOf] at ih ⊢
    cases x <;> simp [Effect.observable, Effect.timer?, List.filter, List.filterMap, ih]

theorem timers_effectsOf_mode (acts : List Action) :
    timersOf (effectsOf false acts) = timersOf (effectsOf true acts) := by
  rw [← timersOf_visibleOf, visible_effectsOf_mode, timersOf_visibleOf]

end Juno.C13
