/-
C16 — SMALL-STEP model of the history-pruner migration's resume bookkeeping
(migration/historyprunner/migrator.go: `Before`, `Migrate`, `runStager`, `setupBeforeRestorer`, `runRestorer`,
`encodeIntermediateState`; the runner persists the token a RETURNING `Migrate` hands it). Core Lean only.

What is modelled: for every retained block `n ∈ [k, h]` (`k` = the pinned cut-off `oldestBlockKept`, `h` = chain
height) whether its legacy history entries are in the LIVE buckets (`live n`) and whether the scratch namespace
holds their staged copy (`scratch n`); the restaging marker of the proposed fix (`mark`); the resume token the
runner holds (`tok = (stagerProgress, restorerProgress)`, `(0,0)` = none); where the current start of `Migrate`
is (`pc`) and which blocks its workers have processed (`proc`). One step = one batch write (the pipeline's
workers stage / restore blocks in ANY order, one block per write — coarser batches only remove kill points),
a cancellation (the run returns a token and the runner records it), a kill (`kill`: the process dies, the token
on disk stays what it was — this is also "the run returned but the runner's commit never reached the disk"),
the runner recording completion (`record`).

Not modelled here (they are in `Model.lean` / judged by the harness): the number-keyed prune and the wipe and
rebuild of the reverse-lookup buckets (`setupBeforeStager`, restorer), the cut-off computation (`migKeep`).
-/
namespace Juno.C16.MigStep

structure Cfg where
  /-- pinned cut-off `oldestBlockKept` (`≥ 1`: a cut-off of 0 is "nothing to prune") -/
  k : Nat
  /-- chain height -/
  h : Nat
  /-- proposed-fixes/C16-historyprunner-restage-marker.diff: a stager run that stages again from the cut-off
  although the token claims more leaves a durable marker -/
  marker : Bool

/-- Where the current start of `Migrate` is. -/
inductive Pc
  | idle
  /-- `runStager` is staging `[sp, h]`; `rp0` = the `restorerProgress` this start was given -/
  | stager (sp rp0 : Nat)
  /-- `runRestorer` is restoring `[rp, h]` -/
  | restorer (rp : Nat)
  /-- the restorer is through and the scratch namespace is wiped; `Migrate` is about to return `nil, nil` -/
  | finishing
  deriving DecidableEq, Repr

structure St where
  live : Nat → Bool
  scratch : Nat → Bool
  /-- blocks the workers of the current phase have processed -/
  proc : Nat → Bool
  mark : Bool
  /-- the token the runner holds: `(stagerProgress, restorerProgress)`; `(0, 0)` = none -/
  tok : Nat × Nat
  pc : Pc
  /-- the runner has recorded the migration as applied -/
  done : Bool

def init (orig : Nat → Bool) : St :=
  { live := orig, scratch := fun _ => false, proc := fun _ => false, mark := false, tok := (0, 0), pc := .idle,
    done := false }

/-- `scratchSpaceEmpty` (staged copies only: the marker is looked up first). -/
def scratchEmpty (c : Cfg) (s : St) : Bool := (List.range (c.h + 1)).all fun n => !s.scratch n

/-- Every block of `[a, b)` has been processed by the current phase. -/
def allProc (s : St) (a b : Nat) : Bool := (List.range (b - a)).all fun j => s.proc (a + j)

/-- No block of `[a, b]` has been processed. -/
def noneProc (s : St) (a b : Nat) : Bool := (List.range (b + 1 - a)).all fun j => !s.proc (a + j)

inductive Op
  /-- a start of `Migrate` with the token on disk: `Before`, the resume decision of `runStager` -/
  | start
  /-- a stager worker's batch with block `n`: `copyStateHistory(history → scratch)`; a missing source entry is
  "nothing to copy" -/
  | stage (n : Nat)
  /-- the context is cancelled inside the stager: the source stops at `r` (`[sp, r)` is staged, nothing above);
  `Migrate` returns the token `(r, 0, k)` and the runner records it -/
  | cancelStager (r : Nat)
  /-- the stager is through: `setupBeforeRestorer` (one batch: the live history buckets wiped, the marker deleted
  — unless this start resumed a restorer) -/
  | stagerDone
  /-- a restorer worker's batch with block `n`: `copyStateHistory(scratch → history)` -/
  | restore (n : Nat)
  /-- the context is cancelled inside the restorer: token `(h+1, r, k)` recorded -/
  | cancelRestorer (r : Nat)
  /-- the restorer is through: the scratch namespace is wiped (one batch) -/
  | restorerDone
  /-- `Migrate` has returned `nil, nil` and the runner records the migration as applied -/
  | record
  /-- the process dies (at any point of a start); the token on disk stays -/
  | kill
  deriving DecidableEq, Repr

/-- One step; an operation that is not enabled leaves the state alone. -/
def step (c : Cfg) (s : St) : Op → St
  | .start =>
    if s.done then s else
    match s.pc with
    | .idle =>
      let sp0 := s.tok.1
      let rp0 := s.tok.2
      if sp0 > c.h then
        -- "Stager already completed in a previous run, skipping" → setupBeforeRestorer is the next write
        { s with pc := .stager (c.h + 1) rp0, proc := fun _ => false }
      else if sp0 > c.k then
        if c.marker then
          -- restaging := Has(marker); if !restaging && scratchSpaceEmpty { Put(marker); restaging = true }
          let restaging := s.mark || scratchEmpty c s
          { s with mark := restaging, pc := .stager (if restaging then c.k else sp0) rp0, proc := fun _ => false }
        else
          -- if scratchSpaceEmpty { stagerProgress = oldestBlockKept }
          { s with pc := .stager (if scratchEmpty c s then c.k else sp0) rp0, proc := fun _ => false }
      else { s with pc := .stager c.k rp0, proc := fun _ => false }
    | _ => s
  | .stage n =>
    match s.pc with
    | .stager sp _ =>
      if sp ≤ n ∧ n ≤ c.h ∧ s.proc n = false then
        { s with scratch := fun m => if m = n then s.scratch n || s.live n else s.scratch m,
                 proc := fun m => if m = n then true else s.proc m }
      else s
    | _ => s
  | .cancelStager r =>
    match s.pc with
    | .stager sp _ =>
      if sp ≤ r ∧ r ≤ c.h ∧ allProc s sp r ∧ noneProc s r c.h then
        { s with tok := (r, 0), pc := .idle }
      else s
    | _ => s
  | .stagerDone =>
    match s.pc with
    | .stager sp rp0 =>
      if allProc s sp (c.h + 1) then
        if rp0 = 0 then
          { s with live := fun _ => false, mark := false, pc := .restorer c.k, proc := fun _ => false }
        else { s with pc := .restorer (max c.k rp0), proc := fun _ => false }
      else s
    | _ => s
  | .restore n =>
    match s.pc with
    | .restorer rp =>
      if rp ≤ n ∧ n ≤ c.h ∧ s.proc n = false then
        { s with live := fun m => if m = n then s.live n || s.scratch n else s.live m,
                 proc := fun m => if m = n then true else s.proc m }
      else s
    | _ => s
  | .cancelRestorer r =>
    match s.pc with
    | .restorer rp =>
      if rp ≤ r ∧ r ≤ c.h ∧ allProc s rp r ∧ noneProc s r c.h then
        { s with tok := (c.h + 1, r), pc := .idle }
      else s
    | _ => s
  | .restorerDone =>
    match s.pc with
    | .restorer rp =>
      if allProc s rp (c.h + 1) then
        { s with scratch := fun _ => false, mark := false, pc := .finishing }
      else s
    | _ => s
  | .record =>
    match s.pc with
    | .finishing => { s with done := true, tok := (0, 0), pc := .idle }
    | _ => s
  | .kill => { s with pc := .idle }

def run (c : Cfg) (s : St) : List Op → St
  | [] => s
  | op :: ops => run c (step c s op) ops

/-- States reachable from a never-migrated node whose retained blocks `n` with `orig n` have history entries. -/
inductive Reach (c : Cfg) (orig : Nat → Bool) : St → Prop
  | init : Reach c orig (init orig)
  | step {s : St} (op : Op) : Reach c orig s → Reach c orig (step c s op)

end Juno.C16.MigStep
