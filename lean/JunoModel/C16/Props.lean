import JunoModel.C16.ProofsObs
import JunoModel.C16.ProofsMig
/-!
C16 — Pruning never damages retained blocks, the head state, or L1-unconfirmed history.
Property theorems (statements only; lemmas are in `Proofs*.lean`). Every theorem of this module is an
obligation listed in evidence/C16.json with its axioms.

Vocabulary (JunoModel/C16/Model.lean): `Reach c s` — `s` is reachable from the empty node by ANY
interleaving of store / revert-down-to-the-floor / L1-head writes / L1 and new-head events (stale and
repeated ones included) / every single batch write of a prune / end of a prune at any cursor
(= context cancellation) / write error / crash + restart (seeded or unseeded floor) / min-age sample,
for any configuration `c` (retention incl. 0 and > chain, coalescing, min-age, either state backend).
`effFloor s` — the retention floor of the running node; `lo d` — the durable floor (what
`OldestRetainedBlock` reports); `answer` — what the node answers; `twinAnswer` — what the unpruned twin answers.

Two variants of the prune procedure are modelled (`Cfg.fixed`). For the REPAIRED procedure
(`fixed = true`, proposed-fixes/C16-prune-batches-crash-consistent.diff) `Reach` allows a crash or a
write error after EVERY batch write and the theorems are at full strength. For the procedure as it is at
the pinned commit (`fixed = false`) `Reach` excludes a crash / write error between two batch writes of
one prune (`interruptible`), which is why the instances for it carry `_partial`; the excluded case is a
genuine defect of juno (DESIGN §7 L10) and is recorded below as proved negations with concrete witnesses
(`orig_interrupted_prune_*`), the same histories the harness replays on the real code.
-/
namespace Juno.C16.Props
open Juno.C16

/-! ## floor_bound -/

/-- L1-head path (`onNewL1Head`): whenever the guards let an event through, `l1 - retained` did not
underflow (`retained ≤ l1`, also for `retained = 0` and `retained > chain`), the L1 head is strictly
below the local head, and the target floor is at most `min(l1, head) - retained`. -/
theorem floor_bound_l1 (c : Cfg) (sampled : UInt64) (head : Nat) (l1 keep : UInt64)
    (h : l1Keep c sampled head l1 = some keep) :
    c.retained.toNat ≤ l1.toNat ∧ keep.toNat + c.retained.toNat ≤ min l1.toNat head := by
  have := l1Keep_bound c sampled head l1 keep h; omega

/-- New-head path (`onNewBlock`): whenever the guards let an event for block `n` through,
`n - retained` did not underflow, `n` is strictly below the recorded L1 head, and the target floor is at
most `min(l1, n) - retained` (`n` is on the local chain, so this is `≤ min(l1, head) - retained`). -/
theorem floor_bound_l2 (c : Cfg) (sampled l1 n : UInt64) (within : Bool) (h : l2Guard c l1 n = false) :
    c.retained.toNat ≤ n.toNat ∧ (l2Keep c sampled n within).toNat + c.retained.toNat ≤ min l1.toNat n.toNat := by
  have := l2Keep_bound c sampled l1 n within h; omega

/-- With a min-age configured the target floor is never above the min-age sample: always on the L1 path,
and on the new-head path unless the event's block is itself older than the min-age (deep catch-up, where
every block up to it is older too). -/
theorem floor_min_age (c : Cfg) (sampled : UInt64) (hm : c.minAge = true) :
    (∀ head l1 keep, l1Keep c sampled head l1 = some keep → keep.toNat ≤ sampled.toNat) ∧
    (∀ n, (l2Keep c sampled n true).toNat ≤ sampled.toNat) :=
  ⟨fun head l1 keep h => l1Keep_minAge c sampled head l1 keep hm h, fun n => l2Keep_minAge c sampled n hm⟩

/-- The min-age sample is right: on non-decreasing block timestamps `FindOldestBlockAtOrAfter` returns
the LOWEST block of `[lower, upper]` at or after the cut-off (so no block younger than the min-age is
below the sample), and `ErrNoBlockInWindow` exactly when every block is older. -/
theorem min_age_sample_spec (ts : Nat → Nat) (lower upper cutoff : Nat) (hm : Mono ts)
    (hbelow : ∀ i, i < lower → ts i < cutoff) :
    match findOldestAtOrAfter ts lower upper cutoff with
    | some r => lower ≤ r ∧ r ≤ upper ∧ cutoff ≤ ts r ∧ ∀ i, i < r → ts i < cutoff
    | none => ∀ i, i ≤ upper → ts i < cutoff :=
  findOldest_spec ts lower upper cutoff hm hbelow

/-- Along any history the floor rises only as far as the event that raises it allows:
`min(L1 head, local head) - retained` (0 if fewer than `retained` blocks exist). Both variants. -/
theorem floor_bound (c : Cfg) (s : St) (op : Op) (R : Reach c s) (L : Legal c s op) :
    effFloor (step c s op).1 ≤ max (effFloor s) (allowed c s op) :=
  (step_facts op (inv_reach R) L).floorLe

/-- Whole histories: after ANY legal history the floor is at most the highest `min(L1 head, local head) -
retained` that some event (or the migration) of that history was entitled to, and the durable floor has
not moved down. -/
theorem floor_bound_history (c : Cfg) (s : St) (R : Reach c s) (ops : List Op) (L : LegalRun c s ops) :
    effFloor (run c s ops) ≤ max (effFloor s) (maxAllowed c s ops) ∧ lo s.db ≤ lo (run c s ops).db :=
  floor_run_le ops s R L

/-- The carve-out arithmetic: the `uint64` code `if e > lag { e - lag }` never underflows, and a header
is deleted iff it is at least `BlockHashLag` below the range end. -/
theorem header_carve_out (e : UInt64) (m : Nat) :
    (headerEnd64 e).toNat = headerEnd e.toNat ∧ (m < headerEnd e.toNat ↔ m + blockHashLag < e.toNat) :=
  ⟨headerEnd64_toNat e, lt_headerEnd_iff m e.toNat⟩

/-- Aggregated bloom filters, for ANY range end — window-aligned or not: `pruneAggregatedBloomFiltersUpto(e)`
deletes the persisted filter of window `w` iff the window lies ENTIRELY below `e` (its last block
`w*8192+8191 < e`). In particular the window that contains an unaligned `e` (it indexes the retained
blocks `e ..`) is kept. -/
theorem bloom_windows_kept (e w : Nat) :
    aggDeleted e w = true ↔ (w + 1) * numBlocksPerFilter ≤ e :=
  aggDeleted_iff e w

/-- Which persisted windows exist, in every reachable state: exactly the complete windows (last block
at or below the head) that are not entirely below the durable floor — so the window holding an
unaligned floor survives as long as it is complete. -/
theorem bloom_windows_survive (c : Cfg) (s : St) (R : Reach c s) (h : Nat) (hh : s.db.height = some h) (w : Nat) :
    s.db.agg w = true ↔ (lo s.db / numBlocksPerFilter ≤ w ∧ (w + 1) * numBlocksPerFilter ≤ h + 1) := by
  have I := inv_reach R
  unfold Inv at I; rw [hh] at I; obtain ⟨a, IA⟩ := I
  rw [lo_of_inv hh IA]; exact IA.aggIff w

/-- Consequences for retained blocks: an event query from any block at or above the durable floor finds
every persisted window it reads (all windows of `[n, head]` but the running one), and reverting the head
back across a window boundary above the floor finds the window it re-opens. -/
theorem bloom_windows_for_retained (c : Cfg) (s : St) (R : Reach c s) (h : Nat) (hh : s.db.height = some h) :
    (∀ n, lo s.db ≤ n → n ≤ h → windowsOk s.db n h = true) ∧
    (effFloor s < h → revertFilterOk s.db h = true) := by
  have I := inv_reach R
  unfold Inv at I; rw [hh] at I; obtain ⟨a, IA⟩ := I
  rw [lo_of_inv hh IA]
  refine ⟨fun n h1 h2 => windowsOk_of_inv IA n h1 h2, ?_⟩
  intro hL
  unfold revertFilterOk
  by_cases hb : (h + 1) % numBlocksPerFilter = 0
  · have := (IA.aggIff (h / numBlocksPerFilter)).mpr (by
      have := IA.ale; unfold numBlocksPerFilter at *; omega)
    simp [this]
  · simp [hb]

/-- The closed form the driver starts long chains from IS the node after `k` stores. -/
theorem bulk_is_k_stores (c : Cfg) (k : Nat) (h0 : 0 < k) (hk : k < 2 ^ 64) :
    let s := run c St.init (List.replicate k .store)
    s.db.height = (Db.bulk k).height ∧ (∀ i m, s.db.has i m = (Db.bulk k).has i m) ∧
      (∀ w, s.db.agg w = (Db.bulk k).agg w) ∧ s.db.l1 = (Db.bulk k).l1 ∧ s.mem = St.init.mem ∧ s.job = .idle :=
  bulk_eq_stores c k h0 hk

/-! ## floor_monotone -/

/-- The durable floor never moves down — across stores, reverts, prunes, interruptions and restarts. -/
theorem floor_monotone (c : Cfg) (s : St) (op : Op) (R : Reach c s) (L : Legal c s op) :
    lo s.db ≤ lo (step c s op).1.db :=
  (step_facts op (inv_reach R) L).loMono

/-- Within one process (no crash, no migration-then-start) the shared `RetentionFloor` never moves down
(readers never see it lower). -/
theorem shared_floor_monotone (c : Cfg) (s : St) (op : Op) (R : Reach c s) (L : Legal c s op)
    (hop : (∀ seed, op ≠ .crash seed) ∧ ∀ mf u, op ≠ .migrate mf u) :
    s.mem.floorState.toNat ≤ (step c s op).1.mem.floorState.toNat :=
  (step_facts op (inv_reach R) L).fsMono hop

/-- `raiseTo` / `pruneUpto`: the floor word becomes exactly `max(old, keep)`: no underflow at `keep = 0`
(guarded), no overflow; `Seed` on a fresh floor gives `max(oldest, 1)` (floor = `max(oldest,1) - 1`). -/
theorem shared_floor_arith (st keep o : UInt64) :
    (raiseForPrune st keep).toNat = (if keep.toNat = 0 then st.toNat else max st.toNat keep.toNat) ∧
    (seedState 0 o).toNat = max o.toNat 1 :=
  ⟨raiseForPrune_toNat st keep, seedState_zero o⟩

/-! ## retained_untouched -/

/-- In every reachable state: every query — Reader API, retention probe, historical state by number and
by hash — about a block at or above the floor answers exactly what the unpruned twin answers. -/
theorem retained_untouched_any (c : Cfg) (s : St) (R : Reach c s) (h : Nat) (hh : s.db.height = some h)
    (q : Q) (n : Nat) (hn : effFloor s ≤ n) : answer c s q n = twinAnswer (some h) q n := by
  have I := inv_reach R
  unfold Inv at I; rw [hh] at I; obtain ⟨a, IA⟩ := I
  by_cases hle : n ≤ h
  · have : answer c s q n = .ok :=
      answer_ok_above hh IA q n (by unfold effFloor at hn; rw [lo_of_inv hh IA] at hn; exact hn) hle
    rw [this]; simp [twinAnswer, hle]
  · exact answer_beyond_head hh IA q n (by omega)

/-- FULL STRENGTH (repaired procedure): after ANY interleaving of store / L1-head / prune batches /
cancellation / write error / crash after any batch write / restart, every query about a block at or above
the floor equals the unpruned twin. -/
theorem retained_untouched (c : Cfg) (hf : c.fixed = true) (s : St) (R : Reach c s) (h : Nat)
    (hh : s.db.height = some h) (q : Q) (n : Nat) (hn : effFloor s ≤ n) :
    answer c s q n = twinAnswer (some h) q n :=
  let _ := hf
  retained_untouched_any c s R h hh q n hn

/-- PARTIAL (procedure as it is at the pinned commit): the same conclusion, but `Reach` excludes a crash
or write error between two batch writes of one prune (cancellation is covered). What is missing is
exactly `orig_interrupted_prune_serves_wrong_state` / `orig_interrupted_prune_partial_blocks` below. -/
theorem retained_untouched_partial (c : Cfg) (hf : c.fixed = false) (s : St) (R : Reach c s) (h : Nat)
    (hh : s.db.height = some h) (q : Q) (n : Nat) (hn : effFloor s ≤ n) :
    answer c s q n = twinAnswer (some h) q n :=
  let _ := hf
  retained_untouched_any c s R h hh q n hn

/-- Historical state is served from ONE BLOCK BELOW the floor (through the seeded `RetentionFloor`),
and answers like the twin. Both variants (for `fixed = false` with the restriction built into `Reach`). -/
theorem state_one_below_floor (c : Cfg) (s : St) (R : Reach c s) (h : Nat) (hh : s.db.height = some h)
    (hseed : s.mem.floorState ≠ 0) (n : Nat) (hn : effFloor s ≤ n + 1) (hle : n ≤ h) :
    answer c s .stateAtNumber n = .ok := by
  have I := inv_reach R
  unfold Inv at I; rw [hh] at I; obtain ⟨a, IA⟩ := I
  exact stateAtNumber_below hh IA n hseed (by unfold effFloor at hn; rw [lo_of_inv hh IA] at hn; exact hn) hle

/-- Repaired procedure: relative to the DURABLE floor (what survives a crash at any point), every block at
or above it is complete, the probe is truthful, and state by block hash works from one block below it
(the `oldestKept-1` carve-out survives completion, cancellation and crash alike). -/
theorem durable_floor_consistent (c : Cfg) (hf : c.fixed = true) (s : St) (R : Reach c s) (h : Nat)
    (hh : s.db.height = some h) (n : Nat) (hle : n ≤ h) :
    (lo s.db ≤ n → ∀ q, q.blockLevel = true → answer c s q n = .ok) ∧
    (answer c s .requireRetained n = .ok → ∀ q, q.blockLevel = true → answer c s q n = .ok) ∧
    (lo s.db ≤ n + 1 → answer c s .stateAtHash n = .ok) := by
  have I := inv_reach R
  unfold Inv at I; rw [hh] at I; obtain ⟨a, IA⟩ := I
  rw [lo_of_inv hh IA]
  refine ⟨?_, ?_, ?_⟩
  · intro hn q hq
    have hp : answer c s .requireRetained n = .ok := by
      have := (IA.commIff n).mpr ⟨hn, hle⟩
      simp [answer, this]
    exact probe_truthful IA n (not_dirty_fixed _ _ hf) hp q hq
  · intro hp q hq
    exact probe_truthful IA n (not_dirty_fixed _ _ hf) hp q hq
  · intro hn
    exact stateAtHash_below_fixed hh IA hf n hn hle

/-- Below the floor: "pruned / not found", never partial or wrong data. In every reachable state NO state
reader is ever answered from incomplete history (no `stale` answer, for any query and block), the
retention probe says `pruned` below the durable floor, and the state backend refuses reads below the
shared floor. -/
theorem below_floor_pruned_not_partial (c : Cfg) (s : St) (R : Reach c s) (h : Nat) (hh : s.db.height = some h) :
    (∀ q n m, answer c s q n ≠ .stale m) ∧
    (∀ n, n < lo s.db → answer c s .requireRetained n = .pruned) ∧
    (∀ n, s.mem.floorState ≠ 0 → n < (s.mem.floorState - 1).toNat → answer c s .stateAtNumber n = .notfound) := by
  have I := inv_reach R
  unfold Inv at I; rw [hh] at I; obtain ⟨a, IA⟩ := I
  refine ⟨fun q n m => never_stale hh IA q n m, ?_, fun n hs hn => state_below_floor_notfound c s n hs hn⟩
  intro n hn
  rw [lo_of_inv hh IA] at hn
  exact probe_below IA n hn

/-- The head state always answers. -/
theorem head_state_untouched (c : Cfg) (s : St) (R : Reach c s) (h : Nat) (hh : s.db.height = some h) :
    headState c s = .ok := by
  have I := inv_reach R
  unfold Inv at I; rw [hh] at I; obtain ⟨a, IA⟩ := I
  exact headState_ok hh IA

/-! ## extend_and_revert_ok -/

/-- In every reachable state the chain can be extended (`Store` succeeds), and reverted while the head is
above the floor (`RevertHead` succeeds); the successor states are reachable again, so everything above
keeps holding after them. -/
theorem extend_and_revert_ok (c : Cfg) (s : St) (R : Reach c s) (h : Nat) (hh : s.db.height = some h) :
    (h + 1 < 2 ^ 64 → (step c s .store).2 = .ok ∧ Reach c (step c s .store).1) ∧
    (effFloor s < h → (step c s .revert).2 = .ok ∧ Reach c (step c s .revert).1) := by
  have I := inv_reach R
  unfold Inv at I; rw [hh] at I; obtain ⟨a, IA⟩ := I
  constructor
  · intro hL
    exact ⟨(inv_store hh IA hL).1, Reach.step .store R (fun h' e => by rw [hh] at e; cases e; exact hL)⟩
  · intro hL
    have hL' : max a s.mem.keepMax < h := by unfold effFloor at hL; rw [lo_of_inv hh IA] at hL; exact hL
    exact ⟨(inv_revert hh IA hL').1, Reach.step .revert R ⟨h, hh, hL⟩⟩

/-! ## The defect of the procedure at the pinned commit (DESIGN §7 L10), as proved negations -/

/-- Legacy backend, retained 0, 6 blocks, L1 head 4: the prune of `[0,4)` is killed after its second
batch write and the node restarts (re-seeded floor). -/
def origCfg : Cfg := { retained := 0, l2PerPrune := 1, minAge := false, legacy := true, fixed := false }
def repairedCfg : Cfg := { origCfg with fixed := true }
def interrupted : List Op :=
  [.crash true, .store, .store, .store, .store, .store, .store, .writeL1 4, .evL1 4, .flush 1, .flush 1, .crash true]

/-- Everything up to the kill is a legal history (the kill itself is the excluded interruption). -/
theorem orig_interrupted_prefix_reachable :
    Reach origCfg (run origCfg St.init interrupted.dropLast) :=
  reach_run Reach.init _ (by decide)

/-- NEGATION WITNESS 1: after the restart the durable floor is still 0, the shared floor lets block 0
through, and the historical read at block 0 is served with the state of block 1 — a wrong value
instead of "pruned". (`retained_untouched` / `below_floor_pruned_not_partial` fail for `fixed = false`
without the restriction in `Reach`.) -/
theorem orig_interrupted_prune_serves_wrong_state :
    lo (run origCfg St.init interrupted).db = 0 ∧
    answer origCfg (run origCfg St.init interrupted) .stateAtNumber 0 = .stale 1 := by decide

/-- NEGATION WITNESS 2: in the same state the retention probe reports blocks 0 and 1 as retained while
their hash lookups are gone (block by hash, transaction by hash). -/
theorem orig_interrupted_prune_partial_blocks :
    answer origCfg (run origCfg St.init interrupted) .requireRetained 1 = .ok ∧
    answer origCfg (run origCfg St.init interrupted) .blockByNumber 1 = .ok ∧
    answer origCfg (run origCfg St.init interrupted) .blockByHash 1 = .notfound ∧
    answer origCfg (run origCfg St.init interrupted) .txByHash 1 = .notfound := by decide

/-- The same history on the repaired procedure is legal to its end and harmless: the durable floor has
moved to 2 with the batches, blocks 0 and 1 are reported pruned, block 2 is complete, state at block 1
(one below the floor) answers — by number and by hash. -/
theorem repaired_interrupted_prune_consistent :
    Reach repairedCfg (run repairedCfg St.init interrupted) ∧
    lo (run repairedCfg St.init interrupted).db = 2 ∧
    answer repairedCfg (run repairedCfg St.init interrupted) .requireRetained 1 = .pruned ∧
    answer repairedCfg (run repairedCfg St.init interrupted) .blockByHash 2 = .ok ∧
    answer repairedCfg (run repairedCfg St.init interrupted) .stateAtNumber 1 = .ok ∧
    answer repairedCfg (run repairedCfg St.init interrupted) .stateAtHash 1 = .ok ∧
    answer repairedCfg (run repairedCfg St.init interrupted) .stateAtNumber 0 = .notfound :=
  ⟨reach_run Reach.init _ (by decide), by decide⟩

/-- A cancelled prune (context cancelled after the first block of `[0,4)`; orderly restart). -/
def cancelled : List Op :=
  [.crash true, .store, .store, .store, .store, .store, .store, .writeL1 4, .evL1 4, .flush 1, .flush 0, .finish, .crash true]

/-- NEGATION WITNESS 3 (second, smaller defect of the procedure at the pinned commit): a LEGAL history —
a prune cancelled by shutdown — after which state by block HASH one block below the floor is not found
(the hash→number carve-out is only kept on completion), although state by number at the same block
answers. -/
theorem orig_cancelled_prune_loses_hash_carve_out :
    Reach origCfg (run origCfg St.init cancelled) ∧
    lo (run origCfg St.init cancelled).db = 1 ∧
    answer origCfg (run origCfg St.init cancelled) .stateAtNumber 0 = .ok ∧
    answer origCfg (run origCfg St.init cancelled) .stateAtHash 0 = .notfound :=
  ⟨reach_run Reach.init _ (by decide), by decide⟩

/-- The repaired procedure keeps it. -/
theorem repaired_cancelled_prune_keeps_hash_carve_out :
    lo (run repairedCfg St.init cancelled).db = 1 ∧
    answer repairedCfg (run repairedCfg St.init cancelled) .stateAtHash 0 = .ok := by decide

/-! ## The history-pruner migration (migration/historyprunner) -/

/-- Cut-off arithmetic of `Migrator.Migrate`: when the guard lets it run, `pivot - retained` did not underflow
and the cut-off is at most `min(L1 head, local head) - retained` (min-age floor included). -/
theorem migration_floor_bound (c : Cfg) (h : Nat) (hh : h < 2 ^ 64) (l1 : UInt64) (mf : Option UInt64) (k : UInt64)
    (hk : migKeep c h l1 mf = some k) :
    c.retained.toNat ≤ min l1.toNat h ∧ k.toNat + c.retained.toNat ≤ min l1.toNat h := by
  have := migKeep_bound c h hh l1 mf k hk; omega

/-- `migrate` is one of the operations of `Reach`: every theorem above (`floor_bound`, `floor_monotone`,
`retained_untouched*`, `state_one_below_floor`, `durable_floor_consistent`, `below_floor_pruned_not_partial`,
`bloom_windows_survive`, `extend_and_revert_ok`) holds for histories in which the node was started through the
history-pruner migration at any point (on a database no prune has touched above its cut-off), followed by
the running pruner, reverts, crashes … In particular, right after it: -/
theorem migration_then_retained_untouched (c : Cfg) (s : St) (R : Reach c s) (mf : Option UInt64) (u : Bool)
    (L : Legal c s (.migrate mf u)) (h : Nat) (hh : (step c s (.migrate mf u)).1.db.height = some h)
    (q : Q) (n : Nat) (hn : effFloor (step c s (.migrate mf u)).1 ≤ n) :
    answer c (step c s (.migrate mf u)).1 q n = twinAnswer (some h) q n :=
  retained_untouched_any c _ (Reach.step _ R L) h hh q n hn

open Mig in
/-- KEY INJECTIVITY across the three history kinds: two well-formed keys with the same history key, or the
same scratch key, are the same key (kind, address, slot, block); and no scratch key is a history key. So
staging never merges two entries and the scratch namespace cannot be mistaken for a history bucket. -/
theorem scratch_keys_injective (k1 k2 : HKey) (w1 : k1.wf) (w2 : k2.wf) :
    (historyKey k1 = historyKey k2 → k1 = k2) ∧ (scratchKey k1 = scratchKey k2 → k1 = k2) ∧
    scratchKey k1 ≠ historyKey k2 := by
  refine ⟨historyKey_inj k1 k2 w1 w2, scratchKey_inj k1 k2 w1 w2, ?_⟩
  intro h
  unfold scratchKey historyKey at h
  have := (List.cons.inj h).1
  cases hk : k2.kind <;> rw [hk] at this <;> exact absurd this (by decide)

open Mig in
/-- STAGE → WIPE → RESTORE preserves every history entry of the retained blocks, for ANY list of keys the
state diffs name (any order, repetitions, the same address under several kinds in the same block): each
listed key that had an entry gets exactly its own value back, and nothing else appears. -/
theorem migration_round_trip (history : Store) (keys : List HKey) (hwf : ∀ k ∈ keys, k.wf) :
    (∀ k ∈ keys, ∀ v, history (historyKey k) = some v → roundTrip history keys (historyKey k) = some v) ∧
    (∀ b, (∀ k ∈ keys, historyKey k ≠ b) → roundTrip history keys b = none) := by
  refine ⟨?_, fun b hb => restore_only _ keys _ b hb⟩
  intro k hk v hv
  exact restore_spec _ keys _ hwf k hk v (stage_spec history keys _ hwf k hk v hv)

open Mig in
/-- Why injectivity is the point: with that copy-paste the nonce entry and the class-hash entry of ONE
contract in ONE block share a scratch key (so the second overwrites the first and both buckets get it back),
while the real key function keeps them apart. -/
theorem nonce_tag_for_class_hash_collides :
    nonceAt5.wf ∧ classAt5.wf ∧ nonceAt5 ≠ classAt5 ∧
    scratchKeyNonceForClass nonceAt5 = scratchKeyNonceForClass classAt5 ∧
    scratchKey nonceAt5 ≠ scratchKey classAt5 := by decide

/-- Pinned-commit migration, retained = pivot (or a min-age floor of 0): cut-off 0. -/
def zeroCutoff : List Op :=
  [.crash true, .store, .store, .store, .store, .store, .store, .writeL1 3, .migrate none false]

/-- NEGATION WITNESS (defect of the migration at the pinned commit): with `retained = 3 = min(L1, head)` the
cut-off is block 0 — nothing may be pruned — yet the migration fails (`GetBlockHeaderByNumber(0-1)`) after
having wiped the lookup buckets: every block's hash lookups are gone. -/
theorem migration_cutoff_zero_fails :
    let c : Cfg := { origCfg with retained := 3 }
    Reach c (run c St.init zeroCutoff.dropLast) ∧
    (step c (run c St.init zeroCutoff.dropLast) (.migrate none false)).2 = .err ∧
    effFloor (run c St.init zeroCutoff) = 0 ∧
    answer c (run c St.init zeroCutoff) .blockByNumber 4 = .ok ∧
    answer c (run c St.init zeroCutoff) .blockByHash 4 = .notfound ∧
    answer c (run c St.init zeroCutoff) .txByHash 0 = .notfound :=
  ⟨reach_run Reach.init _ (by decide), by decide⟩

/-- NEGATION WITNESS (second defect of the migration at the pinned commit): one retained block whose state
diff writes zero to an empty storage slot (no history entry) makes the stager fail — after the lookup
buckets were wiped and the blocks below the cut-off deleted. -/
theorem migration_unchanged_slot_fails :
    let c : Cfg := { origCfg with retained := 1 }
    let ops : List Op := [.crash true, .store, .store, .store, .store, .store, .store, .writeL1 3]
    (step c (run c St.init ops) (.migrate none true)).2 = .err ∧
    answer c (step c (run c St.init ops) (.migrate none true)).1 .blockByNumber 4 = .ok ∧
    answer c (step c (run c St.init ops) (.migrate none true)).1 .blockByHash 4 = .notfound := by decide

/-- With the two proposed repairs the same starts are harmless: cut-off 0 is "nothing to prune", an
unchanged slot is skipped, and both are legal histories (covered by every theorem above). -/
theorem repaired_migration_handles_both :
    let c : Cfg := { repairedCfg with retained := 3, migSkipsMissing := true, migZeroNoop := true }
    Reach c (run c St.init zeroCutoff) ∧
    answer c (run c St.init zeroCutoff) .blockByHash 4 = .ok ∧
    (let c1 : Cfg := { c with retained := 1 }
     let ops : List Op := [.crash true, .store, .store, .store, .store, .store, .store, .writeL1 3, .migrate none true]
     Reach c1 (run c1 St.init ops) ∧ lo (run c1 St.init ops).db = 2 ∧
     answer c1 (run c1 St.init ops) .blockByHash 2 = .ok ∧ answer c1 (run c1 St.init ops) .stateAtHash 1 = .ok ∧
     answer c1 (run c1 St.init ops) .requireRetained 1 = .pruned) :=
  ⟨reach_run Reach.init _ (by decide), by decide, reach_run Reach.init _ (by decide), by decide⟩

/-! ## Non-vacuity -/

-- a reachable state in which a prune has completed and moved both floors (hypotheses of the theorems hold)
example : Reach repairedCfg (run repairedCfg St.init
    [.crash true, .store, .store, .store, .store, .store, .writeL1 3, .evL1 3, .flush 3, .finish]) :=
  reach_run Reach.init _ (by decide)
example : effFloor (run repairedCfg St.init
    [.crash true, .store, .store, .store, .store, .store, .writeL1 3, .evL1 3, .flush 3, .finish]) = 3 := by decide
-- guards: retained larger than the chain / L1 ahead of the head → no prune, no underflow
example : l1Keep { origCfg with retained := 1000 } 0 10 5 = none := by decide
example : l1Keep origCfg 0 10 12 = none := by decide
example : l1Keep { origCfg with retained := 2 } 0 10 5 = some 3 := by decide
example : l2Guard { origCfg with retained := 2 } 9 5 = false ∧ l2Keep { origCfg with retained := 2 } 0 5 false = 3 := by decide
example : headerEnd64 12 = 2 ∧ headerEnd64 10 = 0 ∧ headerEnd64 3 = 0 := by decide
example : findOldestAtOrAfter (fun n => 10 * n) 0 9 35 = some 4 := by decide
-- unaligned range end inside window 1: window 0 goes, window 1 (it indexes retained blocks) stays
example : aggDeleted 8242 0 = true ∧ aggDeleted 8242 1 = false ∧ aggDeleted 50 0 = false ∧ aggDeleted 16384 1 = true := by
  decide

end Juno.C16.Props
