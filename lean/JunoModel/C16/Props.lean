import JunoModel.C16.ProofsObs
import JunoModel.C16.ProofsMig
import JunoModel.C16.ProofsMigStep
/-!
C16 — Pruning never damages retained blocks, the head state, or L1-unconfirmed history.
Property theorems (statements only; lemmas are in `Proofs*.lean`). Every theorem of this module is an
obligation listed in evidence/C16.json with its axioms. Theorems about code that /repo no longer contains
(regression witnesses of repaired defects, `*_before_<commit>`) live in `Regress.lean`, not here.

Vocabulary (JunoModel/C16/Model.lean): `Reach c s` — `s` is reachable from the empty node by ANY
interleaving of store / revert-down-to-the-floor / L1-head writes / L1 and new-head events (stale and
repeated ones included) / every single batch write of a prune / end of a prune at any cursor
(= context cancellation) / write error / crash + restart (seeded or unseeded floor) / the wall clock
advancing / the min-age ticker / the one-time history-pruner migration, for any configuration `c`
(retention incl. 0 and > chain, coalescing, min-age over any block timestamps `c.ts`, either state backend).
`effFloor s` — the retention floor of the running node; `lo d` — the durable floor (what
`OldestRetainedBlock` reports); `answer` — what the node answers; `twinAnswer` — what the unpruned twin
answers; `s.cutoff` — the wall clock minus the configured minimum age.

/repo contains the REPAIRED prune procedure (`Cfg.fixed = true`, 55da2ac), the repaired migration
(`migSkipsMissing`, `migZeroNoop`; 322dd0d, 3c301f0) and the clamp of stale new-head events (`l2Clamps`,
868e51a): the theorems below are stated for them.
Two clauses of the property do NOT hold for the code in /repo; each has a `_partial` theorem (what does
hold) and a proved negation with a reachable witness, the history the harness replays on the real code:
 * `ContractStorageLastUpdatedBlock` on the legacy backend after a prune (`last_update_block_*`),
 * a historical reader held across a prune on the legacy backend (`held_reader_*`; full strength for the
   proposed guard `Cfg.readerGuard`).
-/
namespace Juno.C16.Props
open Juno.C16

/-! ## floor_bound -/

/-- L1-head path (`onNewL1Head`): whenever the guards let an event through, `l1 - retained` did not
underflow (`retained ≤ l1`, also for `retained = 0` and `retained > chain`), the L1 head is strictly
below the local head, and the target floor is at most `min(l1, head) - retained`. -/
theorem floor_bound_l1 (c : Cfg) (sampled : UInt64) (head : Nat) (l1 keep : UInt64)
    (h : l1Keep c sampled head l1 = some keep) :
    c.retained.toNat ≤ l1.toNat ∧ keep.toNat + c.retained.toNat ≤ min l1.toNat head := by
  have := l1Keep_bound c sampled head l1 keep h; omega

/-- New-head path (`onNewBlock`): whenever the guards let an event for block `n` through,
`n - retained` did not underflow, `n` is strictly below the recorded L1 head, and the target floor is at
most `min(l1, n) - retained`. (That this is `≤ min(l1, head) - retained` needs `n ≤ head`: `onNewBlock`
checks it since 868e51a, see `floor_bound_head`.) -/
theorem floor_bound_l2 (c : Cfg) (sampled l1 n : UInt64) (within : Bool) (h : l2Guard c l1 n = false) :
    c.retained.toNat ≤ n.toNat ∧ (l2Keep c sampled n within).toNat + c.retained.toNat ≤ min l1.toNat n.toNat := by
  have := l2Keep_bound c sampled l1 n within h; omega

/-- Along any history the floor rises only as far as the event that raises it allows:
`min(L1 head, block of the event) - retained` (0 if fewer than `retained` blocks exist). The bound is a
RUNNING MAXIMUM: a floor reached under an earlier, higher head stays after a revert. -/
theorem floor_bound (c : Cfg) (s : St) (op : Op) (R : Reach c s) (L : Legal c s op) :
    effFloor (step c s op).1 ≤ max (effFloor s) (allowed c s op) :=
  (step_facts op (inv_reach R) L).floorLe

/-- Whole histories: after ANY legal history the floor is at most the highest `min(L1 head, local head) -
retained` that some event (or the migration) of that history was entitled to, and the durable floor has
not moved down. -/
theorem floor_bound_history (c : Cfg) (s : St) (R : Reach c s) (ops : List Op) (L : LegalRun c s ops) :
    effFloor (run c s ops) ≤ max (effFloor s) (maxAllowed c s ops) ∧ lo s.db ≤ lo (run c s ops).db :=
  floor_run_le ops s R L

/-- No step raises the floor above `max(old floor, CURRENT head - retained)` — with NO assumption on the events
(`onNewBlock` ignores a new-head event whose block is above the current chain height, 868e51a): whatever block
number an event carries, also one of a block that has been reverted while the event sat in the feed buffer. -/
theorem floor_bound_head (c : Cfg) (hc : c.l2Clamps = true) (s : St) (op : Op) (R : Reach c s)
    (L : Legal c s op) : effFloor (step c s op).1 ≤ max (effFloor s) (headBound c s) := by
  have hb := (step_facts op (inv_reach R) L).floorLe
  have key : (step c s op).1 = s ∨ allowed c s op ≤ headBound c s := by
    cases op with
    | evL2 n =>
      cases hh : s.db.height with
      | none => exact Or.inl (evL2_empty_noop hc hh)
      | some h =>
        cases Nat.lt_or_ge h n.toNat with
        | inl hlt => exact Or.inl (evL2_stale_noop hc hh hlt)
        | inr hge => right; simp only [allowed, headBound, hh]; cases s.db.l1 <;> simp only <;> omega
    | evL1 n => right; simp only [allowed, headBound]; cases s.db.height <;> simp only <;> omega
    | migrate u => right; simp only [allowed, headBound]; cases s.db.height <;> cases s.db.l1 <;> simp only <;> omega
    | _ => right; simp only [allowed]; omega
  rcases key with e | e
  · rw [e]; omega
  · omega

/-- Whole histories, by the CURRENT head: after any legal history the floor is at most the highest
`local head - retained` the node had at a moment one of the history's operations was taken (or the floor it started
with) — whatever block numbers the new-head events carried. -/
theorem floor_bound_head_history (c : Cfg) (hc : c.l2Clamps = true) :
    ∀ (ops : List Op) (s : St), Reach c s → LegalRun c s ops →
      effFloor (run c s ops) ≤ max (effFloor s) (maxHeadBound c s ops)
  | [], _, _, _ => by simp [run, maxHeadBound]
  | op :: ops, s, R, L => by
    have h1 := floor_bound_head c hc s op R L.1
    have ih := floor_bound_head_history c hc ops _ (Reach.step op R L.1) L.2
    simp only [run, maxHeadBound]
    omega

/-! ## min_age -/

/-- The min-age sample is right: on non-decreasing block timestamps `FindOldestBlockAtOrAfter` returns
the LOWEST block of `[lower, upper]` at or after the cut-off (so no block younger than the min-age is
below the sample), and `ErrNoBlockInWindow` exactly when every block is older. -/
theorem min_age_sample_spec (ts : Nat → Nat) (lower upper cutoff : Nat) (hm : Mono ts)
    (hbelow : ∀ i, i < lower → ts i < cutoff) :
    match findOldestAtOrAfter ts lower upper cutoff with
    | some r => lower ≤ r ∧ r ≤ upper ∧ cutoff ≤ ts r ∧ ∀ i, i < r → ts i < cutoff
    | none => ∀ i, i ≤ upper → ts i < cutoff :=
  findOldest_spec ts lower upper cutoff hm hbelow

/-- THE MIN-AGE CLAUSE, on the chain as first offered (no fork switch: `s.chain.fork = 0`; this is the statement
of the earlier rounds, whose model had one chain only). With a minimum age configured and non-decreasing block
timestamps, in EVERY reachable state every block below the retention floor is older than the minimum age: its
timestamp is before `now - minAge`. The sample is not an input: it is what `seedFloor` / the ticker's
`sampleHeight` (binary search over the stored headers) / the end of a prune compute from the timestamps and the
clock; the "deep catch-up" bypass of `onNewBlock` is taken exactly when the event's block is itself older
than the minimum age; the clock only advances; the migration computes its own floor the same way. Covers
interruption and restart (re-seeded sample) at any point, reverts and re-stores of the same blocks. -/
theorem min_age_respected (c : Cfg) (hma : c.minAge = true) (hm : Mono c.ts) (s : St) (R : Reach c s)
    (h0 : s.chain.fork = 0) : ∀ n, n < effFloor s → c.ts n < s.cutoff :=
  age_of_reach R hm hma h0

/-- PARTIAL — the min-age clause THROUGH REORGS (`Op.fork`: the network switches to another fork above the node's
head, any number of times; the blocks of a fork carry their own timestamps `Cfg.forkTs`; `s.tsAt c n` is the
timestamp of the block that is — or was, when it was pruned — number `n` of the node's chain). With non-decreasing
timestamps along the first chain, along every fork taken so far (`ForksMono`) and across every fork point
(`chain.mono`): every block below the retention floor is older than the minimum age, PROVIDED no fork switch
put a block younger than the minimum age at a height between the node's head and the CACHED sample
(`chain.fresh`; true in particular whenever the sample ticker fired — or the node restarted — between the revert
below the sample and the switch: `reorg_with_tick_keeps_young_blocks`).
What is missing: `stale_min_age_sample_after_reorg` (the code in /repo uses the cached sample as it is). -/
theorem min_age_respected_reorg_partial (c : Cfg) (hma : c.minAge = true) (hm : Mono c.ts) (s : St)
    (R : Reach c s) (hmf : ForksMono c s) (hj : s.chain.mono = true) (hf : s.chain.fresh = true) :
    ∀ n, n < effFloor s → s.tsAt c n < s.cutoff :=
  age_of_reach_forks R hm hmf hma hj (Or.inr hf)

/-- FULL STRENGTH through reorgs with the proposed `refreshStaleSample`
(proposed-fixes/C16-stale-min-age-sample-after-reorg.diff, `Cfg.sampleChecked`: before the cached sample is used the
block right below it must still be there and older than the minimum age, else the sample is derived again from
the oldest retained block): no assumption on when the ticker fires or what the forks bring. -/
theorem min_age_respected_reorg_checked (c : Cfg) (hc : c.sampleChecked = true) (hma : c.minAge = true)
    (hm : Mono c.ts) (s : St) (R : Reach c s) (hmf : ForksMono c s) (hj : s.chain.mono = true) :
    ∀ n, n < effFloor s → s.tsAt c n < s.cutoff :=
  age_of_reach_forks R hm hmf hma hj (Or.inl hc)

/-- The code in /repo with a minimum age; block `n` of the first chain has timestamp `n`, block `n` of every
other fork `1000 + n`. -/
def reorgCfg : Cfg :=
  { retained := 0, l2PerPrune := 1, minAge := true, legacy := true, fixed := true, migSkipsMissing := true,
    migZeroNoop := true, l2Clamps := true, ts := fun n => n, forkTs := fun _ n => 1000 + n }
/-- 6 blocks; the clock: cut-off 100 (all 6 blocks are older than the minimum age); the node (re)starts: the cached
sample is the head, 5; the head is reverted to 2; the network switches to a fork whose blocks 3', 4', … have
timestamps 1003, 1004, … — younger than the minimum age; five of them are stored (head 7); L1 head 5. No tick. -/
def reorgOps : List Op :=
  [.crash true, .store, .store, .store, .store, .store, .store, .advance 100, .crash true,
   .revert, .revert, .revert, .fork, .store, .store, .store, .store, .store, .writeL1 5, .evL1 5]

/-- NEGATION (genuine defect of the code in /repo; known finding
`min-age-floor-above-young-block-after-reorg-below-cached-sample`): the history is legal, timestamps never
decrease, yet `onNewL1Head` takes `min(cached sample 5, 5 - 0) = 5` for the floor and the prune deletes blocks 3'
and 4' of the new fork, which are younger than the minimum age (timestamps 1003, 1004 ≥ cut-off 100). The cache
vouched for the block NUMBERS 3 and 4; nothing lowers it when the chain is reverted below it
(`sampleHeight` only ever searches upwards from the cached value, and no tick fired while the head was below it). -/
theorem stale_min_age_sample_after_reorg :
    let s := run reorgCfg St.init (reorgOps ++ [.flush 5, .finish])
    Reach reorgCfg s ∧ Mono reorgCfg.ts ∧ (∀ f, Mono (reorgCfg.forkTs f)) ∧ s.chain.mono = true ∧
    s.cutoff = 100 ∧ effFloor s = 5 ∧ lo s.db = 5 ∧ s.tsAt reorgCfg 3 = 1003 ∧ s.tsAt reorgCfg 4 = 1004 ∧
    s.chain.fresh = false :=
  ⟨reach_run Reach.init _ (by decide), fun i j h => h, fun _ i j h => by show 1000 + i ≤ 1000 + j; omega,
   by decide, by decide, by decide, by decide, by decide, by decide, by decide⟩

/-- The same history when the sample ticker fires once while the head is below the cached sample (`sampleHeight`:
the search window `[5, 2]` is empty, the sample drops to the head 2) and once after the fork is stored (the
search from 2 finds 3', the first young block): `chain.fresh` holds, the floor stops at 3 — what
`min_age_respected_reorg_partial` says — and blocks 3', 4' stay readable. -/
theorem reorg_with_tick_keeps_young_blocks :
    let ops : List Op :=
      [.crash true, .store, .store, .store, .store, .store, .store, .advance 100, .crash true,
       .revert, .revert, .revert, .tick, .fork, .store, .store, .store, .store, .store, .tick, .writeL1 5, .evL1 5,
       .flush 3, .finish]
    let s := run reorgCfg St.init ops
    Reach reorgCfg s ∧ s.chain.mono = true ∧ s.chain.fresh = true ∧ s.chain.fork = 1 ∧ effFloor s = 3 ∧
    answer reorgCfg s .blockByNumber 3 = .ok ∧ answer reorgCfg s .stateAtNumber 4 = .ok :=
  ⟨reach_run Reach.init _ (by decide), by decide, by decide, by decide, by decide, by decide, by decide⟩

/-- The history of `stale_min_age_sample_after_reorg` (no tick) on the code with the proposed
`refreshStaleSample`: block 4' right below the cached sample 5 is younger than the minimum age, the sample is
derived again (3), the prune stops at 3. -/
theorem reorg_without_tick_checked_keeps_young_blocks :
    let c : Cfg := { reorgCfg with sampleChecked := true }
    let s := run c St.init (reorgOps ++ [.flush 3, .finish])
    Reach c s ∧ s.chain.fresh = false ∧ effFloor s = 3 ∧ lo s.db = 3 ∧ s.mem.sampled = 3 ∧
    answer c s .blockByNumber 3 = .ok :=
  ⟨reach_run Reach.init _ (by decide), by decide, by decide, by decide, by decide, by decide⟩

/-! ## floor_monotone -/

/-- The durable floor never moves down — across stores, reverts, prunes, interruptions and restarts. -/
theorem floor_monotone (c : Cfg) (s : St) (op : Op) (R : Reach c s) (L : Legal c s op) :
    lo s.db ≤ lo (step c s op).1.db :=
  (step_facts op (inv_reach R) L).loMono

/-- Within one process (no crash, no migration-then-start) the shared `RetentionFloor` never moves down
(readers never see it lower). -/
theorem shared_floor_monotone (c : Cfg) (s : St) (op : Op) (R : Reach c s) (L : Legal c s op)
    (hop : (∀ seed, op ≠ .crash seed) ∧ ∀ u, op ≠ .migrate u) :
    s.mem.floorState.toNat ≤ (step c s op).1.mem.floorState.toNat :=
  (step_facts op (inv_reach R) L).fsMono hop

/-- `raiseTo` / `pruneUpto`: the floor word becomes exactly `max(old, keep)`: no underflow at `keep = 0`
(guarded), no overflow; `Seed` on a fresh floor gives `max(oldest, 1)` (floor = `max(oldest,1) - 1`). -/
theorem shared_floor_arith (st keep o : UInt64) :
    (raiseForPrune st keep).toNat = (if keep.toNat = 0 then st.toNat else max st.toNat keep.toNat) ∧
    (seedState 0 o).toNat = max o.toNat 1 :=
  ⟨raiseForPrune_toNat st keep, seedState_zero o⟩


/-! ## retained_untouched -/

/-- After ANY interleaving of store / revert / L1-head / events / prune batches / cancellation / write error /
crash after any batch write / restart / migration: every query — Reader API, retention probe, events,
historical state by number and by hash — about a block at or above the floor answers exactly what the
unpruned twin answers. (Stated for every variant; for the procedure before 55da2ac `Reach` excludes the
interruption between two batch writes, see Regress.lean.) -/
theorem retained_untouched (c : Cfg) (s : St) (R : Reach c s) (h : Nat) (hh : s.db.height = some h)
    (q : Q) (n : Nat) (hn : effFloor s ≤ n) : answer c s q n = twinAnswer (some h) q n := by
  have I := inv_reach R
  unfold Inv at I; rw [hh] at I; obtain ⟨a, IA, _⟩ := I
  by_cases hle : n ≤ h
  · have : answer c s q n = .ok :=
      answer_ok_above hh IA q n (by unfold effFloor at hn; rw [lo_of_inv hh IA] at hn; exact hn) hle
    rw [this]; simp [twinAnswer, hle]
  · exact answer_beyond_head hh IA q n (by omega)

/-- Historical state is served from ONE BLOCK BELOW the floor (through the seeded `RetentionFloor`),
and answers like the twin. -/
theorem state_one_below_floor (c : Cfg) (s : St) (R : Reach c s) (h : Nat) (hh : s.db.height = some h)
    (hseed : s.mem.floorState ≠ 0) (n : Nat) (hn : effFloor s ≤ n + 1) (hle : n ≤ h) :
    answer c s .stateAtNumber n = .ok := by
  have I := inv_reach R
  unfold Inv at I; rw [hh] at I; obtain ⟨a, IA, _⟩ := I
  exact stateAtNumber_below hh IA n hseed (by unfold effFloor at hn; rw [lo_of_inv hh IA] at hn; exact hn) hle

/-- The pruned database opened WITHOUT prune mode (unseeded `RetentionFloor`, `Op.crash false`: no pruner, readers
probe the header and the hash→number mapping): historical state by number is served from one block below the
durable floor upwards, and refused more than one block below it (the mapping is gone) — the same answers the
seeded floor gives. -/
theorem state_unseeded_floor (c : Cfg) (hf : c.fixed = true) (s : St) (R : Reach c s) (h : Nat)
    (hh : s.db.height = some h) (hu : s.mem.floorState = 0) (n : Nat) (hle : n ≤ h) :
    (lo s.db ≤ n + 1 → answer c s .stateAtNumber n = .ok) ∧
    (n + 1 < lo s.db → answer c s .stateAtNumber n = .notfound) := by
  have I := inv_reach R
  unfold Inv at I; rw [hh] at I; obtain ⟨a, IA, _⟩ := I
  rw [lo_of_inv hh IA]
  exact ⟨fun hn => stateAtNumber_unseeded_fixed hh IA hf hu n hn hle,
    fun hn => stateAtNumber_unseeded_far_below hh hu n (h2n_below IA hf n hn)⟩

/-- Relative to the DURABLE floor (what survives a crash at any point): every block at or above it is
complete, the probe is truthful, and state by block hash works from one block below it (the
`oldestKept-1` carve-out survives completion, cancellation and crash alike). -/
theorem durable_floor_consistent (c : Cfg) (hf : c.fixed = true) (s : St) (R : Reach c s) (h : Nat)
    (hh : s.db.height = some h) (n : Nat) (hle : n ≤ h) :
    (lo s.db ≤ n → ∀ q, q.blockLevel = true → answer c s q n = .ok) ∧
    (answer c s .requireRetained n = .ok → ∀ q, q.blockLevel = true → answer c s q n = .ok) ∧
    (lo s.db ≤ n + 1 → answer c s .stateAtHash n = .ok) := by
  have I := inv_reach R
  unfold Inv at I; rw [hh] at I; obtain ⟨a, IA, _⟩ := I
  rw [lo_of_inv hh IA]
  refine ⟨?_, ?_, ?_⟩
  · intro hn q hq
    have hp : answer c s .requireRetained n = .ok := by
      have := (IA.commIff n).mpr ⟨hn, hle⟩
      simp [answer, this]
    exact probe_truthful IA n (not_dirty_fixed _ _ hf) hp q hq
  · intro hp q hq
    exact probe_truthful IA n (not_dirty_fixed _ _ hf) hp q hq
  · intro hn
    exact stateAtHash_below_fixed hh IA hf n hn hle

/-- The BlockHashLag window: in every reachable state the headers of the `blockHashLag` (= 10) blocks below
the durable floor are still there — `get_block_hash(n - 10)` executed on a retained block `n` finds its
header. (With `blockHashLag := 1` in the model this theorem fails.) -/
theorem lag_window_headers_survive (c : Cfg) (s : St) (R : Reach c s) (h : Nat) (hh : s.db.height = some h)
    (n : Nat) (hn : n ≤ h) (hlag : lo s.db ≤ n + blockHashLag) : answer c s .headerByNumber n = .ok := by
  have I := inv_reach R
  unfold Inv at I; rw [hh] at I; obtain ⟨a, IA, _⟩ := I
  rw [lo_of_inv hh IA] at hlag
  have := IA.hdrLag n hn hlag
  simp [answer, allOf, this]

/-! ## below_floor -/

/-- Below the floor: "pruned / not found", never partial or wrong data, for EVERY query. In every reachable
state: (1) no state reader handed out NOW is answered from incomplete history (no `stale` answer, any query,
any block); (2) below the durable floor the retention probe and the event filter say `pruned`, and every
query that reads the block's commitments, state update or transactions, its transaction-hash or L1-message
lookups says not found; (3) more than one block below it the hash→number mapping is gone, so every by-hash
query and both state readers (by hash: no floor consulted, the mapping is what refuses; by number: the
shared floor, or header+mapping when unseeded) say not found. Only the bare header survives, down to the
lag window. -/
theorem below_floor_pruned_not_partial (c : Cfg) (hf : c.fixed = true) (s : St) (R : Reach c s) (h : Nat)
    (hh : s.db.height = some h) :
    (∀ q n m, answer c s q n ≠ .stale m) ∧
    (∀ n, n < lo s.db →
      answer c s .requireRetained n = .pruned ∧ answer c s .eventsFrom n = .pruned ∧
      answer c s .txLookup n = .notfound ∧ answer c s .l1HandlerMsg n = .notfound ∧
      ∀ q, q.readsPruned = true → answer c s q n = .notfound) ∧
    (∀ n, n + 1 < lo s.db →
      answer c s .numberByHash n = .notfound ∧ answer c s .headerByHash n = .notfound ∧
      answer c s .stateAtHash n = .notfound ∧ answer c s .stateAtNumber n = .notfound) := by
  have I := inv_reach R
  unfold Inv at I; rw [hh] at I; obtain ⟨a, IA, _⟩ := I
  rw [lo_of_inv hh IA]
  refine ⟨fun q n m => never_stale hh IA q n m, ?_, ?_⟩
  · intro n hn
    obtain ⟨g1, g2, g3⟩ := below_gone IA n hn
    obtain ⟨l1, l2, _⟩ := IA.lowGone hf n hn
    have hle : ¬ n > h := by have := IA.ale; omega
    refine ⟨probe_below IA n hn, ?_, ?_, ?_, fun q hq => below_floor_readsPruned IA q hq n hn⟩
    · simp [answer, hh, hle, g1]
    · simp [answer, allOf, l1]
    · simp [answer, allOf, l2]
  · intro n hn
    have h2 := h2n_below IA hf n hn
    refine ⟨?_, ?_, ?_, stateAtNumber_far_below hh IA hf n hn⟩
    · simp [answer, allOf, h2]
    · simp [answer, allOf, h2]
    · simp [answer, hh, h2]

/-! ## head_state and ContractStorageLastUpdatedBlock -/

/-- PARTIAL. The head state always opens (`HeadState` needs the chain-height key and, on the new backend,
the head's header) and `ContractStorageLastUpdatedBlock` through it is right for every slot whose last
write is at or above the durable floor — on the new backend for every slot. (The value getters of the
head reader — storage, nonce, class hash, class — read the current-state buckets, for which the pruner
has no delete at all: nothing to prove in the model; the harness compares them with the shadow node.)
What is missing: `last_update_block_lost_below_floor`. -/
theorem head_state_partial (c : Cfg) (hf : c.fixed = true) (s : St) (R : Reach c s) (h : Nat)
    (hh : s.db.height = some h) :
    headState c s = .ok ∧
    ∀ lw, lw ≤ h → (c.legacy = false ∨ lo s.db ≤ lw) → lastUpdAtHead c s lw = .ok := by
  have I := inv_reach R
  unfold Inv at I; rw [hh] at I; obtain ⟨a, IA, _⟩ := I
  rw [lo_of_inv hh IA]
  have hs := headState_ok hh IA
  refine ⟨hs, fun lw hl hc => ?_⟩
  unfold lastUpdAtHead
  rw [hs]
  simp only
  rw [lastUpdRead_eq IA hf lw hl]
  rcases hc with hc | hc
  · simp [hc]
  · have : ¬ lw < a := by omega
    simp [this]

/-- PARTIAL. `ContractStorageLastUpdatedBlock` through a historical reader at a block the node still serves
(from one below the floor up) is right for every slot whose last write is at or above the durable floor —
on the new backend for every slot. What is missing: `last_update_block_lost_below_floor`. -/
theorem last_update_block_partial (c : Cfg) (hf : c.fixed = true) (s : St) (R : Reach c s) (h : Nat)
    (hh : s.db.height = some h) (hseed : s.mem.floorState ≠ 0) (lw n : Nat) (hl : lw ≤ n) (hn : n ≤ h)
    (hfl : effFloor s ≤ n + 1) (hc : c.legacy = false ∨ lo s.db ≤ lw) :
    lastUpdAtNumber c s lw n = .ok ∧ lastUpdAtHash c s lw n = .ok := by
  have hnum := state_one_below_floor c s R h hh hseed n hfl hn
  have I := inv_reach R
  unfold Inv at I; rw [hh] at I; obtain ⟨a, IA, _⟩ := I
  have hlo := lo_of_inv hh IA
  have hhash := stateAtHash_below_fixed hh IA hf n (by unfold effFloor at hfl; rw [hlo] at hfl; omega) hn
  have hr : lastUpdRead c s.db lw = .ok := by
    rw [lastUpdRead_eq IA hf lw (by omega)]
    rcases hc with hc | hc
    · simp [hc]
    · rw [hlo] at hc
      have : ¬ lw < a := by omega
      simp [this]
  unfold lastUpdAtNumber lastUpdAtHash
  rw [hnum, hhash]
  exact ⟨hr, hr⟩

/-- NEGATION (genuine defect of the code in /repo, legacy backend; known finding
`storage-last-update-block-lost-below-floor-*`): in EVERY reachable state, for every slot whose last
write is below the durable floor, the head reader and every historical reader the node still hands out
answer `ContractStorageLastUpdatedBlock` without error but wrongly (the block of an older surviving entry,
or 0 = never written): the history entry that records the write was deleted with its block. -/
theorem last_update_block_lost_below_floor (c : Cfg) (hf : c.fixed = true) (hleg : c.legacy = true)
    (s : St) (R : Reach c s) (h : Nat) (hh : s.db.height = some h) (lw : Nat) (hl : lw < lo s.db) :
    lastUpdAtHead c s lw = .lost ∧
    ∀ n, n ≤ h → s.mem.floorState ≠ 0 → effFloor s ≤ n + 1 →
      lastUpdAtNumber c s lw n = .lost ∧ lastUpdAtHash c s lw n = .lost := by
  have I := inv_reach R
  unfold Inv at I; rw [hh] at I; obtain ⟨a, IA, _⟩ := I
  have hlo := lo_of_inv hh IA
  rw [hlo] at hl
  have hr : lastUpdRead c s.db lw = .lost := by
    rw [lastUpdRead_eq IA hf lw (by have := IA.ale; omega)]
    simp [hleg, hl]
  refine ⟨?_, fun n hn hseed hfl => ?_⟩
  · unfold lastUpdAtHead
    rw [headState_ok hh IA]
    exact hr
  · have hnum := state_one_below_floor c s R h hh hseed n hfl hn
    have hhash := stateAtHash_below_fixed hh IA hf n (by unfold effFloor at hfl; rw [hlo] at hfl; omega) hn
    unfold lastUpdAtNumber lastUpdAtHash
    rw [hnum, hhash]
    exact ⟨hr, hr⟩

/-- Legacy backend, retained 0, 6 blocks, L1 head 4, the code in /repo. -/
def repairedCfg : Cfg :=
  { retained := 0, l2PerPrune := 1, minAge := false, legacy := true, fixed := true, migSkipsMissing := true,
    migZeroNoop := true, l2Clamps := true }
/-- One COMPLETE, uninterrupted prune of `[0,4)`. -/
def prunedTo4 : List Op :=
  [.crash true, .store, .store, .store, .store, .store, .store, .writeL1 4, .evL1 4, .flush 4, .finish]

/-- … and such states exist: after one complete prune to block 4 a slot last written in block 1 reports a
wrong last-update block at the head and at blocks 3, 4, 5; the new backend answers correctly. -/
theorem last_update_block_lost_witness :
    Reach repairedCfg (run repairedCfg St.init prunedTo4) ∧
    lo (run repairedCfg St.init prunedTo4).db = 4 ∧
    lastUpdAtHead repairedCfg (run repairedCfg St.init prunedTo4) 1 = .lost ∧
    lastUpdAtNumber repairedCfg (run repairedCfg St.init prunedTo4) 1 3 = .lost ∧
    lastUpdAtHash repairedCfg (run repairedCfg St.init prunedTo4) 1 5 = .lost ∧
    lastUpdAtHead { repairedCfg with legacy := false } (run { repairedCfg with legacy := false } St.init prunedTo4) 1 = .ok :=
  ⟨reach_run Reach.init _ (by decide), by decide⟩

/-! ## held_reader -/

/-- PARTIAL. A historical reader that was handed out earlier keeps reading exactly its block's state for as
long as its block stays at or above one below the floor — on the new backend for ever (its history is never
pruned). What is missing: `held_reader_across_prune_stale`. -/
theorem held_reader_partial (c : Cfg) (hg : c.readerGuard = false) (s : St) (R : Reach c s) (h : Nat)
    (hh : s.db.height = some h) (byHash : Bool) (b : Nat) (hc : c.legacy = false ∨ effFloor s ≤ b + 1) :
    heldRead c s byHash b = .ok := by
  have I := inv_reach R
  unfold Inv at I; rw [hh] at I; obtain ⟨a, IA, _⟩ := I
  unfold heldRead
  rw [hh]
  simp only [hg, Bool.false_and, Bool.false_eq_true, if_false]
  apply stateRead_ok
  intro hleg
  rcases hc with hc | hc
  · rw [hleg] at hc; cases hc
  · unfold effFloor at hc; rw [lo_of_inv hh IA] at hc
    exact hist_above IA (by omega) (fun m hm1 hm2 => not_dirty_above IA (by omega))

/-- 8 blocks; a reader for block 2 is open; a complete prune of `[0,6)` runs. -/
def prunedTo6 : List Op :=
  [.crash true, .store, .store, .store, .store, .store, .store, .store, .store, .writeL1 6, .evL1 6, .flush 6, .finish]

/-- NEGATION (genuine defect of the code in /repo, legacy backend; known finding
`reader-held-across-prune-stale-value`): a reader for block 2 is admitted before the prune (`ok`); the
prune is legal and complete; a NEW reader for block 2 is refused afterwards (not found) — but the reader
that is still open reads, without error, a later block's state (the legacy history reader consults the
floor only when it is opened). -/
theorem held_reader_across_prune_stale :
    answer repairedCfg (run repairedCfg St.init (prunedTo6.take 9)) .stateAtNumber 2 = .ok ∧
    Reach repairedCfg (run repairedCfg St.init prunedTo6) ∧
    answer repairedCfg (run repairedCfg St.init prunedTo6) .stateAtNumber 2 = .notfound ∧
    heldRead repairedCfg (run repairedCfg St.init prunedTo6) false 2 = .stale 5 ∧
    heldRead repairedCfg (run repairedCfg St.init prunedTo6) true 2 = .stale 5 ∧
    heldRead { repairedCfg with legacy := false } (run { repairedCfg with legacy := false } St.init prunedTo6) false 2 = .ok :=
  ⟨by decide, reach_run Reach.init _ (by decide), by decide⟩

/-- FULL STRENGTH with the proposed guard (proposed-fixes/C16-legacy-reader-held-across-prune.diff: the
legacy historical reader repeats its retention check after every read): in every reachable state a reader
that was handed out at ANY earlier time answers like a reader opened now — never another block's state
— and in the history above it is refused. -/
theorem held_reader_guarded (c : Cfg) (hg : c.readerGuard = true) (s : St) (R : Reach c s) (h : Nat)
    (hh : s.db.height = some h) (byHash : Bool) (b m : Nat) : heldRead c s byHash b ≠ .stale m := by
  have I := inv_reach R
  unfold Inv at I; rw [hh] at I; obtain ⟨a, IA, _⟩ := I
  unfold heldRead
  cases hl : c.legacy with
  | true =>
    simp only [hg, hl, Bool.and_self, if_true]
    exact never_stale hh IA _ b m
  | false =>
    simp only [hl, Bool.and_false, Bool.false_eq_true, if_false, hh]
    unfold stateRead
    simp [hl]

theorem guarded_held_reader_refused :
    let c : Cfg := { repairedCfg with readerGuard := true }
    heldRead c (run c St.init prunedTo6) false 2 = .notfound ∧ heldRead c (run c St.init prunedTo6) true 2 = .notfound ∧
    heldRead c (run c St.init prunedTo6) false 5 = .ok := by decide

/-! ## stale_new_head_event -/

/-- 8 blocks, L1 head 9 (ahead of the local head), the head is reverted 7 → 3 while the new-head event of
block 6 still sits in the pruner's 1-slot feed buffer; retained = 1 (`repairedCfg` = the code in /repo). -/
def staleCfg : Cfg := { repairedCfg with retained := 1 }
def staleEvent : List Op :=
  [.crash true, .store, .store, .store, .store, .store, .store, .store, .store, .writeL1 9,
   .revert, .revert, .revert, .revert, .evL2 6]

/-- The history is legal to its end and the stale event does nothing (`floor_bound_head` is the general
statement; what happened before 868e51a: Regress.lean). -/
theorem stale_new_head_event_ignored :
    let c : Cfg := staleCfg
    Reach c (run c St.init staleEvent) ∧ effFloor (run c St.init staleEvent) = 0 ∧
    answer c (run c St.init staleEvent) .blockByNumber 3 = .ok ∧
    answer c (run c St.init staleEvent) .stateAtNumber 3 = .ok :=
  ⟨reach_run Reach.init _ (by decide), by decide⟩

/-! ## extend_and_revert_ok -/

/-- In every reachable state the chain can be extended (`Store` succeeds), and reverted while the head is
above the floor (`RevertHead` succeeds); the successor states are reachable again, so everything above
keeps holding after them. -/
theorem extend_and_revert_ok (c : Cfg) (s : St) (R : Reach c s) (h : Nat) (hh : s.db.height = some h) :
    (h + 1 < 2 ^ 64 → (step c s .store).2 = .ok ∧ Reach c (step c s .store).1) ∧
    (effFloor s < h → (step c s .revert).2 = .ok ∧ Reach c (step c s .revert).1) := by
  have I := inv_reach R
  unfold Inv at I; rw [hh] at I; obtain ⟨a, IA, _⟩ := I
  constructor
  · intro hL
    exact ⟨(inv_store hh IA hL).1, Reach.step .store R (fun h' e => by rw [hh] at e; cases e; exact hL)⟩
  · intro hL
    have hL' : max a s.mem.keepMax < h := by unfold effFloor at hL; rw [lo_of_inv hh IA] at hL; exact hL
    exact ⟨(inv_revert hh IA hL').1, Reach.step .revert R ⟨h, hh, hL⟩⟩


/-! ## carve-outs and bloom windows -/

/-- The carve-out arithmetic: the `uint64` code `if e > lag { e - lag }` never underflows, and a header
is deleted iff it is at least `BlockHashLag` below the range end. -/
theorem header_carve_out (e : UInt64) (m : Nat) :
    (headerEnd64 e).toNat = headerEnd e.toNat ∧ (m < headerEnd e.toNat ↔ m + blockHashLag < e.toNat) :=
  ⟨headerEnd64_toNat e, lt_headerEnd_iff m e.toNat⟩

/-- Aggregated bloom filters, for ANY range end — window-aligned or not: `pruneAggregatedBloomFiltersUpto(e)`
deletes the persisted filter of window `w` iff the window lies ENTIRELY below `e` (its last block
`w*8192+8191 < e`). In particular the window that contains an unaligned `e` (it indexes the retained
blocks `e ..`) is kept. -/
theorem bloom_windows_kept (e w : Nat) :
    aggDeleted e w = true ↔ (w + 1) * numBlocksPerFilter ≤ e :=
  aggDeleted_iff e w

/-- Which persisted windows exist, in every reachable state: exactly the complete windows (last block
at or below the head) that are not entirely below the durable floor — so the window holding an
unaligned floor survives as long as it is complete. -/
theorem bloom_windows_survive (c : Cfg) (s : St) (R : Reach c s) (h : Nat) (hh : s.db.height = some h) (w : Nat) :
    s.db.agg w = true ↔ (lo s.db / numBlocksPerFilter ≤ w ∧ (w + 1) * numBlocksPerFilter ≤ h + 1) := by
  have I := inv_reach R
  unfold Inv at I; rw [hh] at I; obtain ⟨a, IA, _⟩ := I
  rw [lo_of_inv hh IA]; exact IA.aggIff w

/-- Consequences for retained blocks: an event query from any block at or above the durable floor finds
every persisted window it reads (all windows of `[n, head]` but the running one), and reverting the head
back across a window boundary above the floor finds the window it re-opens. -/
theorem bloom_windows_for_retained (c : Cfg) (s : St) (R : Reach c s) (h : Nat) (hh : s.db.height = some h) :
    (∀ n, lo s.db ≤ n → n ≤ h → windowsOk s.db n h = true) ∧
    (effFloor s < h → revertFilterOk s.db h = true) := by
  have I := inv_reach R
  unfold Inv at I; rw [hh] at I; obtain ⟨a, IA, _⟩ := I
  rw [lo_of_inv hh IA]
  refine ⟨fun n h1 h2 => windowsOk_of_inv IA n h1 h2, ?_⟩
  intro hL
  unfold revertFilterOk
  by_cases hb : (h + 1) % numBlocksPerFilter = 0
  · have := (IA.aggIff (h / numBlocksPerFilter)).mpr (by
      have := IA.ale; unfold numBlocksPerFilter at *; omega)
    simp [this]
  · simp [hb]

/-- The closed form the driver starts long chains from IS the node after `k` stores. -/
theorem bulk_is_k_stores (c : Cfg) (k : Nat) (h0 : 0 < k) (hk : k < 2 ^ 64) :
    let s := run c St.init (List.replicate k .store)
    s.db.height = (Db.bulk k).height ∧ (∀ i m, s.db.has i m = (Db.bulk k).has i m) ∧
      (∀ w, s.db.agg w = (Db.bulk k).agg w) ∧ s.db.l1 = (Db.bulk k).l1 ∧ s.mem = St.init.mem ∧ s.job = .idle :=
  bulk_eq_stores c k h0 hk


/-! ## The history-pruner migration (migration/historyprunner) -/

/-- Cut-off arithmetic of `Migrator.Migrate`: when the guard lets it run, `pivot - retained` did not underflow
and the cut-off is at most `min(L1 head, local head) - retained` (min-age floor included). -/
theorem migration_floor_bound (c : Cfg) (h : Nat) (hh : h < 2 ^ 64) (l1 : UInt64) (mf : Option UInt64) (k : UInt64)
    (hk : migKeep c h l1 mf = some k) :
    c.retained.toNat ≤ min l1.toNat h ∧ k.toNat + c.retained.toNat ≤ min l1.toNat h := by
  have := migKeep_bound c h hh l1 mf k hk; omega

/-- `migrate` is one of the operations of `Reach`: every theorem above holds for histories in which the node
was started through the history-pruner migration at any point (on a database no prune has touched above
its cut-off), followed by the running pruner, reverts, crashes … In particular, right after it: -/
theorem migration_then_retained_untouched (c : Cfg) (s : St) (R : Reach c s) (u : Bool)
    (L : Legal c s (.migrate u)) (h : Nat) (hh : (step c s (.migrate u)).1.db.height = some h)
    (q : Q) (n : Nat) (hn : effFloor (step c s (.migrate u)).1 ≤ n) :
    answer c (step c s (.migrate u)).1 q n = twinAnswer (some h) q n :=
  retained_untouched c _ (Reach.step _ R L) h hh q n hn

open Mig in
/-- KEY INJECTIVITY across the three history kinds: two well-formed keys with the same history key, or the
same scratch key, are the same key (kind, address, slot, block); and no scratch key is a history key. So
staging never merges two entries and the scratch namespace cannot be mistaken for a history bucket. -/
theorem scratch_keys_injective (k1 k2 : HKey) (w1 : k1.wf) (w2 : k2.wf) :
    (historyKey k1 = historyKey k2 → k1 = k2) ∧ (scratchKey k1 = scratchKey k2 → k1 = k2) ∧
    scratchKey k1 ≠ historyKey k2 := by
  refine ⟨historyKey_inj k1 k2 w1 w2, scratchKey_inj k1 k2 w1 w2, ?_⟩
  intro h
  unfold scratchKey historyKey at h
  have := (List.cons.inj h).1
  cases hk : k2.kind <;> rw [hk] at this <;> exact absurd this (by decide)

open Mig in
/-- STAGE → WIPE → RESTORE preserves every history entry of the retained blocks, for ANY list of keys the
state diffs name (any order, repetitions, the same address under several kinds in the same block): each
listed key that had an entry gets exactly its own value back, and nothing else appears. -/
theorem migration_round_trip (history : Store) (keys : List HKey) (hwf : ∀ k ∈ keys, k.wf) :
    (∀ k ∈ keys, ∀ v, history (historyKey k) = some v → roundTrip history keys (historyKey k) = some v) ∧
    (∀ b, (∀ k ∈ keys, historyKey k ≠ b) → roundTrip history keys b = none) := by
  refine ⟨?_, fun b hb => restore_only _ keys _ b hb⟩
  intro k hk v hv
  exact restore_spec _ keys _ hwf k hk v (stage_spec history keys _ hwf k hk v hv)

open Mig in
/-- Why injectivity is the point: with that copy-paste the nonce entry and the class-hash entry of ONE
contract in ONE block share a scratch key (so the second overwrites the first and both buckets get it back),
while the real key function keeps them apart. -/
theorem nonce_tag_for_class_hash_collides :
    nonceAt5.wf ∧ classAt5.wf ∧ nonceAt5 ≠ classAt5 ∧
    scratchKeyNonceForClass nonceAt5 = scratchKeyNonceForClass classAt5 ∧
    scratchKey nonceAt5 ≠ scratchKey classAt5 := by decide


/-- The migration as it is in /repo (322dd0d, 3c301f0): a cut-off of block 0 is "nothing to prune", a
retained block whose state diff names a slot without history entry is skipped; both starts are legal
histories (covered by every theorem above) and leave the node complete. -/
theorem migration_handles_zero_cutoff_and_unchanged_slot :
    let c : Cfg := { repairedCfg with retained := 3 }
    let zeroCutoff : List Op := [.crash true, .store, .store, .store, .store, .store, .store, .writeL1 3, .migrate false]
    Reach c (run c St.init zeroCutoff) ∧
    answer c (run c St.init zeroCutoff) .blockByHash 4 = .ok ∧
    (let c1 : Cfg := { c with retained := 1 }
     let ops : List Op := [.crash true, .store, .store, .store, .store, .store, .store, .writeL1 3, .migrate true]
     Reach c1 (run c1 St.init ops) ∧ lo (run c1 St.init ops).db = 2 ∧
     answer c1 (run c1 St.init ops) .blockByHash 2 = .ok ∧ answer c1 (run c1 St.init ops) .stateAtHash 1 = .ok ∧
     answer c1 (run c1 St.init ops) .requireRetained 1 = .pruned) :=
  ⟨reach_run Reach.init _ (by decide), by decide, reach_run Reach.init _ (by decide), by decide⟩

/-! ## The migration's resume bookkeeping, small-step (ModelMigStep.lean)

`MigStep.Reach c orig s`: `s` is reachable from a never-migrated node by ANY sequence of starts of `Migrate` (each
reading the token the runner holds), single batch writes of the stager / restorer workers in any order,
cancellations inside either phase (the returned token is recorded), kills at any point (the token on disk
stays — also: the run returned but the runner's commit was lost), completions. `orig n`: retained block `n` has
legacy history entries; `s.live n`: they are in the live buckets; `s.scratch n`: staged copy. -/

/-- FULL STRENGTH with the restaging marker (proposed-fixes/C16-historyprunner-restage-marker.diff), for every
cut-off `1 ≤ k ≤ h`, every set of blocks with history, every interleaving: (1) at EVERY moment a copy of every
history entry of a retained block exists (live or staged) — no kill point loses data; (2) once the runner has
recorded the migration as applied, every entry is back in the live buckets. -/
theorem restage_marker_keeps_history (c : MigStep.Cfg) (orig : Nat → Bool) (hm : c.marker = true) (hk : 1 ≤ c.k)
    (hkh : c.k ≤ c.h) (s : MigStep.St) (R : MigStep.Reach c orig s) :
    (∀ n, c.k ≤ n → n ≤ c.h → orig n = true → s.live n = true ∨ s.scratch n = true) ∧
    (s.done = true → ∀ n, c.k ≤ n → n ≤ c.h → orig n = true → s.live n = true) := by
  have I := MigStep.inv_reach c orig hm hk hkh R
  exact ⟨I.safe, fun hd => (I.fin hd).1⟩

/-- Cut-off 2, head 5, every retained block has history entries. Start 1 stages blocks 2, 3 and is cancelled (token
(4,0) recorded); start 2 resumes at 4, completes — its result is never recorded; start 3 finds the token above the
cut-off and an empty scratch space, stages again from 2 — the worker holding block 4 writes first — and is
killed; start 4 trusts the token (the scratch space is not empty), stages 4, 5, wipes the live history, restores,
and the runner records "applied". -/
def restageOps : List MigStep.Op :=
  [.start, .stage 2, .stage 3, .cancelStager 4,
   .start, .stage 4, .stage 5, .stagerDone, .restore 2, .restore 3, .restore 4, .restore 5, .restorerDone, .kill,
   .start, .stage 4, .kill,
   .start, .stage 4, .stage 5, .stagerDone, .restore 2, .restore 3, .restore 4, .restore 5, .restorerDone, .record]

/-- NEGATION (genuine defect of the code in /repo; known finding
`migration-loses-history-after-interrupted-restage`): without the marker that history ends "applied" with the
history entries of blocks 2 and 3 gone for good (neither live nor staged). -/
theorem restage_interrupted_loses_history :
    let c : MigStep.Cfg := { k := 2, h := 5, marker := false }
    let orig : Nat → Bool := fun n => decide (2 ≤ n ∧ n ≤ 5)
    let s := MigStep.run c (MigStep.init orig) restageOps
    MigStep.Reach c orig s ∧ s.done = true ∧ s.live 2 = false ∧ s.live 3 = false ∧ s.scratch 2 = false ∧
    s.live 4 = true ∧ s.live 5 = true :=
  ⟨MigStep.reach_run _ _ MigStep.Reach.init _, by decide, by decide, by decide, by decide, by decide, by decide⟩

/-- With the marker start 3 leaves the marker behind, start 4 therefore stages again from the cut-off (its workers
have to stage 2 and 3 as well before `setupBeforeRestorer` runs) and everything comes back. -/
theorem restage_interrupted_with_marker_complete :
    let c : MigStep.Cfg := { k := 2, h := 5, marker := true }
    let orig : Nat → Bool := fun n => decide (2 ≤ n ∧ n ≤ 5)
    let ops : List MigStep.Op :=
      [.start, .stage 2, .stage 3, .cancelStager 4,
       .start, .stage 4, .stage 5, .stagerDone, .restore 2, .restore 3, .restore 4, .restore 5, .restorerDone, .kill,
       .start, .stage 4, .kill,
       .start, .stage 4, .stage 5, .stage 3, .stage 2, .stagerDone, .restore 2, .restore 3, .restore 4, .restore 5,
       .restorerDone, .record]
    let s := MigStep.run c (MigStep.init orig) ops
    s.done = true ∧ s.live 2 = true ∧ s.live 3 = true ∧ s.live 4 = true ∧ s.live 5 = true ∧ s.mark = false := by
  decide

/-! ## Non-vacuity -/

-- a reachable state in which a prune has completed and moved both floors (hypotheses of the theorems hold)
example : Reach repairedCfg (run repairedCfg St.init
    [.crash true, .store, .store, .store, .store, .store, .writeL1 3, .evL1 3, .flush 3, .finish]) :=
  reach_run Reach.init _ (by decide)
example : effFloor (run repairedCfg St.init
    [.crash true, .store, .store, .store, .store, .store, .writeL1 3, .evL1 3, .flush 3, .finish]) = 3 := by decide
-- the same history interrupted by a crash after the first batch write is reachable too (repaired procedure)
example : Reach repairedCfg (run repairedCfg St.init
    [.crash true, .store, .store, .store, .store, .store, .writeL1 3, .evL1 3, .flush 1, .crash true]) :=
  reach_run Reach.init _ (by decide)
-- an unseeded process on a pruned database (hypotheses of `state_unseeded_floor`)
example : (run repairedCfg St.init
    [.crash true, .store, .store, .store, .store, .store, .writeL1 3, .evL1 3, .flush 3, .finish, .crash false]).mem.floorState = 0 ∧
  lo (run repairedCfg St.init
    [.crash true, .store, .store, .store, .store, .store, .writeL1 3, .evL1 3, .flush 3, .finish, .crash false]).db = 3 := by decide
-- min-age: timestamps 10·n, cut-off 35: the ticker samples block 4, an L1 head at 6 prunes only to 4
def ageCfg : Cfg := { repairedCfg with minAge := true, ts := fun n => 10 * n }
def ageOps : List Op :=
  [.crash true, .store, .store, .store, .store, .store, .store, .store, .store, .writeL1 6, .advance 35, .tick,
   .evL1 6, .flush 4, .finish]
example : Reach ageCfg (run ageCfg St.init ageOps) := reach_run Reach.init _ (by decide)
example : effFloor (run ageCfg St.init ageOps) = 4 ∧ (run ageCfg St.init ageOps).cutoff = 35 := by decide
example : Mono ageCfg.ts := fun i j h => by show 10 * i ≤ 10 * j; omega
-- guards: retained larger than the chain / L1 ahead of the head → no prune, no underflow
example : l1Keep { repairedCfg with retained := 1000 } 0 10 5 = none := by decide
example : l1Keep repairedCfg 0 10 12 = none := by decide
example : l1Keep { repairedCfg with retained := 2 } 0 10 5 = some 3 := by decide
example : l2Guard { repairedCfg with retained := 2 } 9 5 = false ∧ l2Keep { repairedCfg with retained := 2 } 0 5 false = 3 := by decide
example : headerEnd64 12 = 2 ∧ headerEnd64 10 = 0 ∧ headerEnd64 3 = 0 := by decide
example : findOldestAtOrAfter (fun n => 10 * n) 0 9 35 = some 4 := by decide
-- unaligned range end inside window 1: window 0 goes, window 1 (it indexes retained blocks) stays
example : aggDeleted 8242 0 = true ∧ aggDeleted 8242 1 = false ∧ aggDeleted 50 0 = false ∧ aggDeleted 16384 1 = true := by
  decide

end Juno.C16.Props
