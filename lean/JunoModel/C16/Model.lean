/-
C16 — executable model of juno's block pruner and of what the Reader API / state readers answer
on a pruned node. Core Lean only (linked into `c16drv`).

Transcribed code (all under /repo):
  pruner/pruner.go      onNewBlock, onNewL1Head, applyTimeFloor, pruneUpto, FindOldestBlockAtOrAfter
  pruner/accessors.go   PruneUpto, pruneHashKeyedUpto, PruneBlockDataUpto, pruneAggregatedBloomFiltersUpto
  pruner/retention.go   RetentionFloor (Seed / raiseTo / floor), RequireRetained, OldestRetainedBlock,
                        RequireStateRetainedByBlockNumber, StateRootIfStateRetainedByBlockNumber
  blockchain/statebackend/{deprecated,statebackend}.go   StateAtBlockNumber / StateAtBlockHash / Store / RevertHead
  blockchain/blockchain.go + core/accessors.go           which buckets each Reader query reads

Abstraction. Blocks are immutable and manufactured once (the unpruned twin node holds all of them), so a
node's database is described by WHICH per-block entries are present: `Db.has bucket n`. A query about block
`n` answers with the genuine data iff every entry it reads is present; the legacy state reader answers a
historical read at block `b` from the first surviving history entry above `b` (`servedAs`).
Block numbers inside the database are `Nat` (they are `uint64` in Go and never reach 2^64); everything the
pruner computes with `-` on `uint64` (floor arithmetic) is modelled in `UInt64`, guards included.

Two variants of the prune procedure are modelled and selected by `Cfg.fixed`:
  `fixed = false`  the code as it is at the pinned commit (hash-keyed deletes flushed in size-bounded
                   batches FIRST, the number-keyed range deletes — which the retention probe reads — LAST);
  `fixed = true`   the repair in proposed-fixes/C16-prune-batches-crash-consistent.diff (every flushed batch
                   also carries the range deletes for the blocks it covers; hash→number mapping deleted one
                   iteration late so the mapping of oldestKept-1 always survives).
The harness detects which variant the tree under test implements (the model follows the code).
-/
namespace Juno.C16

/-- `core.BlockHashLag`. -/
def blockHashLag : Nat := 10
/-- `core.NumBlocksPerFilter`. -/
def numBlocksPerFilter : Nat := 8192

/-! ## Floor arithmetic (UInt64, guards and subtractions as in the Go code) -/

/-- Go's builtin `min` / `max` on `uint64`. -/
def umin (a b : UInt64) : UInt64 := if a ≤ b then a else b
def umax (a b : UInt64) : UInt64 := if a ≤ b then b else a

structure Cfg where
  /-- `numRetainedBlocks` -/
  retained : UInt64
  /-- `l2HeadsPerPrune` -/
  l2PerPrune : UInt64
  /-- `minAge > 0` -/
  minAge : Bool
  /-- legacy state backend (`core/deprecatedstate`): its history buckets are the ones the pruner deletes -/
  legacy : Bool
  /-- prune procedure variant, see the header -/
  fixed : Bool
  /-- history-pruner migration variant: a state-diff entry without a history entry (zero written to an
  empty storage slot; any entry on a database written by the new state backend) is skipped (`true`, proposed fix) or makes the stager fail (`false`, the code at
  the pinned commit: `copyValue` returns `ErrKeyNotFound`) -/
  migSkipsMissing : Bool := false
  /-- history-pruner migration variant: a cut-off of block 0 is "nothing to prune" (`true`, proposed fix)
  or runs into `GetBlockHeaderByNumber(oldestBlockKept-1)` with `0-1` (`false`, pinned commit) -/
  migZeroNoop : Bool := false
  /-- new-head handler variant: an event for a block above the current chain height (the block was reverted
  while the event waited in the 1-slot feed buffer) is dropped (`true`, proposed fix
  C16-stale-new-head-event.diff) or trusted (`false`, the code at the pinned commit) -/
  l2Clamps : Bool := false
  /-- proposed-fixes/C16-legacy-reader-held-across-prune.diff: the legacy historical reader repeats its
  retention check after every read -/
  readerGuard : Bool := false
  /-- header timestamp of block `n` of the chain the node follows (the blocks are manufactured once; the
  unpruned twin holds them) -/
  ts : Nat → Nat := fun _ => 0
  /-- header timestamp of block `n` on the `f`-th OTHER fork the network switches to (`Op.fork`), `f ≥ 1`; the
  chain as first offered (fork 0) is `ts`. A reorg replaces the blocks above the node's head by those of the
  next fork; they carry their own timestamps. -/
  forkTs : Nat → Nat → Nat := fun _ _ => 0
  /-- min-age sample variant: before the cached sample is used for a prune the block right below it must still
  be there and older than the minimum age, else `seedFloor` runs again (`true`,
  proposed-fixes/C16-stale-min-age-sample-after-reorg.diff: `refreshStaleSample`), or the cache is used as it
  is (`false`, the code in /repo) -/
  sampleChecked : Bool := false

/-- `applyTimeFloor`: `if p.minAge == 0 { return standardFloor }; return min(p.latestSampledHeight, standardFloor)` -/
def applyTimeFloor (c : Cfg) (sampled standardFloor : UInt64) : UInt64 :=
  if c.minAge then umin sampled standardFloor else standardFloor

/-- `onNewL1Head` up to the call of `pruneUpto`: `none` = the guards return without pruning.
`height` is the chain height read from the database. -/
def l1Keep (c : Cfg) (sampled : UInt64) (height : Nat) (l1 : UInt64) : Option UInt64 :=
  if l1.toNat ≥ height || l1 < c.retained then none
  else some (applyTimeFloor c sampled (l1 - c.retained))

/-- `onNewBlock` guards: `l1Head.BlockNumber <= block.Number || block.Number < p.numRetainedBlocks`. -/
def l2Guard (c : Cfg) (l1 blockNum : UInt64) : Bool :=
  l1 ≤ blockNum || blockNum < c.retained

/-- `onNewBlock` after the coalescing counter fired: `oldestToKeep`. `within` = `withinTimeWindow(block.Timestamp, minAge)`. -/
def l2Keep (c : Cfg) (sampled blockNum : UInt64) (within : Bool) : UInt64 :=
  let standardFloor := blockNum - c.retained
  if c.minAge && within then applyTimeFloor c sampled standardFloor else standardFloor

/-- `historyprunner.Migrator.Migrate`, first run: `pivot := min(l1Head.BlockNumber, chainHeight)`;
`if pivot < retainedBlocks { return nil, nil }`; `retentionFloorWithMinAge`: `standardFloor := pivot -
retainedBlocks`, lowered to the min-age floor unless `minAge == 0` or `FindOldestBlockAtOrAfter(0, pivot,
now-minAge)` found no block (`minAgeFloor = none`). `none` = nothing to prune. -/
def migKeep (c : Cfg) (height : Nat) (l1 : UInt64) (minAgeFloor : Option UInt64) : Option UInt64 :=
  let pivot := if l1.toNat ≤ height then l1 else UInt64.ofNat height
  if pivot < c.retained then none
  else
    let standardFloor := pivot - c.retained
    if c.minAge then
      match minAgeFloor with
      | none => some standardFloor
      | some f => some (umin standardFloor f)
    else some standardFloor

/-- `RetentionFloor.raiseTo` on the raw `state` word (`state = floor+1`, `0` = unseeded). -/
def raiseTo (state floor : UInt64) : UInt64 :=
  if floor + 1 ≤ state then state else floor + 1

/-- `RetentionFloor.Seed`: `f.raiseTo(max(oldest, 1) - 1)`; `oldest = 0` on an empty database. -/
def seedState (state oldest : UInt64) : UInt64 :=
  raiseTo state (umax oldest 1 - 1)

/-- `pruneUpto` : `if oldestBlockToKeep > 0 { p.retentionFloor.raiseTo(oldestBlockToKeep - 1) }`. -/
def raiseForPrune (state keep : UInt64) : UInt64 :=
  if keep > 0 then raiseTo state (keep - 1) else state

/-- `PruneBlockDataUpto`: `headerEnd := 0; if rangeEndExclusive > BlockHashLag { headerEnd = rangeEndExclusive - BlockHashLag }`. -/
def headerEnd64 (rangeEnd : UInt64) : UInt64 :=
  if rangeEnd > UInt64.ofNat blockHashLag then rangeEnd - UInt64.ofNat blockHashLag else 0

/-- The same bound on naturals (what the database model uses). -/
def headerEnd (rangeEnd : Nat) : Nat :=
  if rangeEnd > blockHashLag then rangeEnd - blockHashLag else 0

/-- `pruneAggregatedBloomFiltersUpto`: windows `[0, aggEnd)` (as first-block numbers) are deleted;
`none` = the early return for `rangeEndExclusive < NumBlocksPerFilter`. -/
def aggEnd (rangeEnd : Nat) : Option Nat :=
  if rangeEnd < numBlocksPerFilter then none else some (rangeEnd - rangeEnd % numBlocksPerFilter)

/-- `FindOldestBlockAtOrAfter`: binary search over block numbers `[lower, upper]` for the smallest
block whose timestamp is `≥ cutoff`; `none` = `ErrNoBlockInWindow`. `ts` = header timestamps. -/
def findOldestLoop (ts : Nat → Nat) (cutoff : Nat) : Nat → Nat → Nat → Nat
  | 0, low, _ => low
  | fuel + 1, low, high =>
    if low < high then
      let mid := low + (high - low) / 2
      if ts mid < cutoff then findOldestLoop ts cutoff fuel (mid + 1) high
      else findOldestLoop ts cutoff fuel low mid
    else low

def findOldestAtOrAfter (ts : Nat → Nat) (lower upper cutoff : Nat) : Option Nat :=
  if lower > upper then none
  else
    let low := findOldestLoop ts cutoff (upper + 1 - lower + 1) lower (upper + 1)
    if low > upper then none else some low

/-- `sampleHeight`: new `latestSampledHeight` from the old one, the chain height and the timestamps. -/
def sampleHeight (ts : Nat → Nat) (sampled height cutoff : Nat) : Nat :=
  match findOldestAtOrAfter ts sampled height cutoff with
  | none => height
  | some f => f

/-- The binary search reads the header timestamp of every block it probes
(`GetBlockHeaderTimestampByNumber`): are all of them there? Same loop, same probes. -/
def probesPresent (hdr : Nat → Bool) (ts : Nat → Nat) (cutoff : Nat) : Nat → Nat → Nat → Bool
  | 0, _, _ => true
  | fuel + 1, low, high =>
    if low < high then
      let mid := low + (high - low) / 2
      hdr mid &&
        (if ts mid < cutoff then probesPresent hdr ts cutoff fuel (mid + 1) high
         else probesPresent hdr ts cutoff fuel low mid)
    else true

/-! ## The database -/

/-- Per-block entry families ("buckets" restricted to one block). -/
inductive Bk
  /-- `BlockHeadersByNumber` -/
  | hdr
  /-- `BlockHeaderNumbersByHash` (hash → number) -/
  | h2n
  /-- `BlockCommitments` — the retention probe (`RequireRetained`, `OldestRetainedBlock`) -/
  | comm
  /-- `StateUpdatesByBlockNumber` -/
  | su
  /-- `BlockTransactions` (transactions + receipts) -/
  | txs
  /-- `TransactionBlockNumbersAndIndicesByHash` entries of the block's transactions -/
  | txl
  /-- `L1HandlerTxnHashByMsgHash` entries of the block's L1-handler transactions -/
  | l1m
  /-- legacy `Deprecated{ContractStorage,ContractNonce,ContractClassHash}History` entries logged at the block -/
  | hist
  deriving DecidableEq, Repr

/-- Deleted per block by `deleteTransactionHashReverseLookups` / `pruneStateHistoryFromUpdate`. -/
def Bk.hashKeyed : Bk → Bool
  | .txl | .l1m | .hist => true
  | _ => false

/-- Range-deleted `[0, rangeEnd)` by `PruneBlockDataUpto`. -/
def Bk.numRange : Bk → Bool
  | .comm | .su | .txs => true
  | _ => false

structure Db where
  /-- `ChainHeight` key -/
  height : Option Nat
  /-- `L1Height` key (block number of the recorded L1 head) -/
  l1 : Option UInt64
  has : Bk → Nat → Bool
  /-- `AggregatedBloomFilters`: the persisted filter of event-index window `w` = blocks
  `[w*8192, w*8192+8191]` (written when the running filter rolls over, i.e. when the last block of
  the window is stored; dropped again when that block is reverted) -/
  agg : Nat → Bool

def Db.empty : Db := { height := none, l1 := none, has := fun _ _ => false, agg := fun _ => false }

/-- `pruneAggregatedBloomFiltersUpto(w, rangeEnd)`: is the persisted filter of window `w` inside the
deleted key range `[key(0, 8191), key(oldestKept, oldestKept+8191))`? -/
def aggDeleted (rangeEnd w : Nat) : Bool :=
  match aggEnd rangeEnd with
  | none => false
  | some oldestKept => decide (w * numBlocksPerFilter < oldestKept)

/-- `OldestRetainedBlock`: first key of the `BlockCommitments` bucket (`none` = `ErrKeyNotFound`).
The scan is bounded by the chain height; no entry of any bucket lies above it (invariant `WF.bounded`). -/
def oldest (d : Db) : Option Nat :=
  match d.height with
  | none => none
  | some h => (List.range (h + 1)).find? (fun n => d.has .comm n)

/-- `PruneBlockDataUpto(w, rangeEnd)` as a set of deleted entries. -/
def rangeDel (rangeEnd : Nat) (i : Bk) (m : Nat) : Bool :=
  (i.numRange && decide (m < rangeEnd)) || (i == .hdr && decide (m < headerEnd rangeEnd))

/-! ## The node: database + in-memory state of the running process + the prune in progress -/

structure Mem where
  /-- `RetentionFloor.state` (`floor+1`; `0` = unseeded), shared with the state backend -/
  floorState : UInt64 := 0
  /-- `pendingL2Heads` -/
  pending : UInt64 := 0
  /-- `latestSampledHeight` -/
  sampled : UInt64 := 0
  /-- GHOST (not in the code): highest `oldestBlockToKeep` handed to `pruneUpto` since process start.
  Only the theorems read it. -/
  keepMax : Nat := 0

/-- A `PruneUpto` call in progress, observed at batch-write granularity. `cur` = `blockNum` of the
loop in `pruneHashKeyedUpto`; `first` = the batch that carries the clean-up of the previous call's
carve-out (`start-1`) has not been written yet. -/
inductive Job
  | idle
  | run (start end_ cur : Nat) (first : Bool)
  deriving DecidableEq, Repr

/-- The chain the node follows, as far as timestamps go. The network may switch to another fork (`Op.fork`):
the blocks above the node's head are then other blocks, with other timestamps; the node learns them by storing
them (after it has reverted down to the fork point). -/
structure Chain where
  /-- once a fork switch has happened (`fork > 0`): the header timestamp of block `n` — of the STORED block for
  `n ≤ head`, of the block the network delivers next for `n` above the head. Before the first switch the
  timestamps are `Cfg.ts` (see `St.tsAt`). -/
  ts : Nat → Nat := fun _ => 0
  /-- number of fork switches so far -/
  fork : Nat := 0
  /-- GHOST (only the theorems read it): at every fork switch the first block of the new fork was not older than
  the block it builds on (block timestamps do not decrease along a chain) -/
  mono : Bool := true
  /-- GHOST: no fork switch replaced a block number between the node's head and the CACHED min-age sample
  (`latestSampledHeight`) by a block that is younger than the minimum age. `false` = the history of
  `Props.stale_min_age_sample_after_reorg`. -/
  fresh : Bool := true

structure St where
  db : Db
  mem : Mem
  job : Job
  /-- the wall clock, as the pruner uses it: `now - minAge` in unix seconds. Blocks with a timestamp at or
  after it are younger than the minimum age. It only moves forward (`Op.advance`). -/
  cutoff : Nat := 0
  chain : Chain := {}

def St.init : St := { db := Db.empty, mem := {}, job := .idle }

/-- Header timestamp of block `n` of the chain the node currently follows. -/
def St.tsAt (c : Cfg) (s : St) (n : Nat) : Nat := if s.chain.fork = 0 then c.ts n else s.chain.ts n

/-- The first block number above the node's head. -/
def forkBase (d : Db) : Nat := match d.height with | none => 0 | some h => h + 1

/-- `Op.fork`: the network switches to the next fork above the node's head. -/
def forkChain (c : Cfg) (s : St) : Chain :=
  let h1 := forkBase s.db   -- the first block number that changes hands
  let ts' : Nat → Nat := fun n => if n < h1 then s.tsAt c n else c.forkTs (s.chain.fork + 1) n
  { ts := ts', fork := s.chain.fork + 1,
    mono := s.chain.mono && (h1 == 0 || decide (s.tsAt c (h1 - 1) ≤ ts' h1)),
    fresh := s.chain.fresh &&
      (List.range (s.mem.sampled.toNat - h1)).all (fun j => decide (ts' (h1 + j) < s.cutoff)) }

/-- The node after `k ≥ 1` stores on the empty database, in closed form (the driver starts long chains
from it; `Props.bulk_is_k_stores` proves it is the same database). -/
def Db.bulk (k : Nat) : Db :=
  { height := some (k - 1), l1 := none, has := fun _ m => decide (m < k),
    agg := fun w => decide ((w + 1) * numBlocksPerFilter ≤ k) }

inductive Op
  /-- `Store` of the next block of the chain (SanityCheckNewHeight + Store, valid block) -/
  | store
  /-- `RevertHead` -/
  | revert
  /-- the L1 head key is written (`SetL1Head`) -/
  | writeL1 (n : UInt64)
  /-- the pruner receives an L1-head event -/
  | evL1 (n : UInt64)
  /-- the pruner receives a new-L2-head event for block `n` (carrying that block's header timestamp) -/
  | evL2 (n : UInt64)
  /-- the prune loop processes `k` more blocks and then writes its batch (rotation or final hash-keyed write) -/
  | flush (k : Nat)
  /-- the prune call ends at the current `cur` (`cur = end` or context cancelled): trailing range-delete write, `OnPrune` -/
  | finish
  /-- a database read or batch write of the prune in progress returns an error: `PruneUpto` returns it, the pending batch is dropped -/
  | fail
  /-- the process dies and a new one starts on the surviving database; `seed` = the new `RetentionFloor` is seeded (`Seed`) -/
  | crash (seed : Bool)
  /-- the floor ticker fires: `sampleHeight` refreshes the min-age sample (only runs with `minAge > 0`) -/
  | tick
  /-- time passes: the cut-off `now - minAge` advances by `d` seconds -/
  | advance (d : Nat)
  /-- a node start that runs the one-time history-pruner migration (`migration/historyprunner`) to
  completion — interrupted runs are resumed / repeated until it is through, see `migrateDb` — and then
  starts the process (seeded floor). `unchangedSlot` = the
  state diff of some retained block names a key without a legacy history entry (zero written to an empty slot;
  on the new state backend: any key). -/
  | migrate (unchangedSlot : Bool)
  /-- a reorg as the node sees it begin: the network switches to another fork above the node's head (the node
  has reverted down to the fork point, or is about to learn that its head is the fork point); the blocks it
  stores from now on are those of the new fork, with their own timestamps `Cfg.forkTs` -/
  | fork
  deriving DecidableEq, Repr

inductive Out
  | ok
  /-- a guard returned before `pruneUpto` (or the L2 event was only counted) -/
  | noop
  | err
  /-- op not enabled in this state (e.g. `flush` without a prune in progress) -/
  | bad
  /-- `pruneHashKeyedUpto` entered with this `start` -/
  | started (start : Nat)
  /-- `OnPrune(oldestKept, blocksPruned)` -/
  | done (blocksPruned oldestKept : Nat)
  deriving DecidableEq, Repr

/-- All entries of block `n` written by `writeBlockContent` + the state update. -/
def storeBlock (d : Db) (n : Nat) : Db :=
  { d with height := some n, has := fun i m => m == n || d.has i m,
           -- RunningEventFilter.insert: `if blockNumber == inner.ToBlock() { WriteAggregatedBloomFilter }`
           agg := fun w => (decide ((n + 1) % numBlocksPerFilter = 0) && w == n / numBlocksPerFilter) || d.agg w }

/-- `deleteBlockContent` + state revert of block `n`. -/
def revertBlock (d : Db) (n : Nat) : Db :=
  { d with height := (if n = 0 then none else some (n - 1)), has := fun i m => m != n && d.has i m,
           -- RunningEventFilter.onReorg: reverting the last block of a window re-opens it and drops its persisted copy
           agg := fun w => !(decide ((n + 1) % numBlocksPerFilter = 0) && w == n / numBlocksPerFilter) && d.agg w }

/-- `onReorg` reloads the persisted filter of the window that is re-opened (`GetAggregatedBloomFilter`). -/
def revertFilterOk (d : Db) (n : Nat) : Bool :=
  !decide ((n + 1) % numBlocksPerFilter = 0) || d.agg (n / numBlocksPerFilter)

/-- The bloom-filter part of `PruneBlockDataUpto(w, rangeEnd)`. -/
def Db.pruneAgg (d : Db) (rangeEnd : Nat) : Db :=
  { d with agg := fun w => d.agg w && !aggDeleted rangeEnd w }

def Db.del (d : Db) (p : Bk → Nat → Bool) : Db :=
  { d with has := fun i m => d.has i m && !p i m }

/-- What one written batch of `pruneHashKeyedUpto` deletes when the loop went from `cur` to `cur'`.
orig:  per block `n ∈ [cur,cur')`: `h2n n` unless `n = end-1`, tx lookups, L1-message lookups, history;
       the first batch also deletes `h2n (start-1)` (the previous call's carve-out).
fixed: per block `n ∈ [cur,cur')`: `h2n (n-1)` (one iteration late), tx lookups, L1-message lookups,
       history; plus `PruneBlockDataUpto(batch, cur')`. -/
def flushDel (c : Cfg) (start end_ cur cur' : Nat) (first : Bool) (i : Bk) (m : Nat) : Bool :=
  (i.hashKeyed && decide (cur ≤ m) && decide (m < cur')) ||
  (if c.fixed then
    (i == .h2n && decide (cur ≤ m + 1) && decide (m + 1 < cur')) || rangeDel cur' i m
   else
    (i == .h2n && decide (cur ≤ m) && decide (m < cur') && decide (m + 1 ≠ end_)) ||
    (i == .h2n && first && decide (m + 1 = start)))

/-- The loop reads the state update and the transactions of every block it processes. -/
def loopReadsOk (d : Db) (cur k : Nat) : Bool :=
  (List.range k).all (fun j => d.has .su (cur + j) && d.has .txs (cur + j))

/-- `pruneUpto(oldestBlockToKeep)` up to the first batch. -/
def startPrune (s : St) (keep : UInt64) : St × Out :=
  let mem := { s.mem with floorState := raiseForPrune s.mem.floorState keep,
                          keepMax := max s.mem.keepMax keep.toNat }
  match oldest s.db with
  | none => ({ s with mem := mem }, .done 0 0)   -- empty database: `return 0, 0, nil`; max(sampled, 0)
  | some start =>
    if start ≥ keep.toNat then
      ({ s with mem := { mem with sampled := umax mem.sampled (UInt64.ofNat start) } }, .done 0 start)
    else if start > 0 && !s.db.has .hdr (start - 1) then
      ({ s with mem := mem }, .err)                -- GetBlockHeaderHashByNumber(start-1) fails
    else
      ({ s with mem := mem, job := .run start keep.toNat start true }, .started start)

/-- The database a COMPLETED history-pruner migration with cut-off `keep` leaves (`keep ≥ 1`):
`setupBeforeStager`: `PruneBlockDataUpto(keep)` + the three hash-keyed lookup buckets wiped entirely;
stager: every history entry of the blocks `[keep, h]` copied to a scratch key (see `ModelMig.lean`);
`setupBeforeRestorer`: the three legacy history buckets wiped entirely, hash→number of `keep-1` rewritten
from its header; restorer, per block of `[keep, h]`: history entries copied back, hash→number, tx-hash and
L1-message lookups rebuilt from the state update / the block's transactions; scratch wiped. -/
def migrateDb (d : Db) (keep h : Nat) : Db :=
  let kept (m : Nat) : Bool := decide (keep ≤ m) && decide (m ≤ h)
  ({ d with has := fun i m =>
      match i with
      | .comm | .su | .txs => d.has i m && !decide (m < keep)
      | .hdr => d.has .hdr m && !decide (m < headerEnd keep)
      | .h2n => kept m || decide (m + 1 = keep)
      | .txl | .l1m => kept m
      | .hist => d.has .hist m && kept m } : Db).pruneAgg keep

/-- What the migration reads: the state update and the transactions of every block it keeps, the history
entries those state updates name, and the header of `keep-1`. -/
def migrateReadsOk (d : Db) (keep h : Nat) : Bool :=
  (List.range (h + 1 - keep)).all (fun j => d.has .su (keep + j) && d.has .txs (keep + j) && d.has .hist (keep + j))
    && d.has .hdr (keep - 1)

/-- `sampleHeight` on the node: chain height missing → nothing; a probed header missing → error, the old
sample stays; else the search result (`ErrNoBlockInWindow` → chain height). -/
def sampleNode (ts : Nat → Nat) (d : Db) (cutoff : Nat) (sampled : UInt64) : UInt64 :=
  match d.height with
  | none => sampled
  | some h =>
    if sampled.toNat > h then UInt64.ofNat h      -- `lower > upper` → ErrNoBlockInWindow → chain height
    else if probesPresent (d.has .hdr) ts cutoff (h + 1 - sampled.toNat + 1) sampled.toNat (h + 1) then
      UInt64.ofNat (sampleHeight ts sampled.toNat h cutoff)
    else sampled

/-- Does `sampleHeight` return without error (every header the search probes is there)? -/
def sampleOk (ts : Nat → Nat) (d : Db) (cutoff : Nat) (sampled : UInt64) : Bool :=
  match d.height with
  | none => true
  | some h =>
    decide (sampled.toNat > h) ||
      probesPresent (d.has .hdr) ts cutoff (h + 1 - sampled.toNat + 1) sampled.toNat (h + 1)

/-- `seedFloor` (start of `Run`, only with `minAge > 0`): `latestSampledHeight = OldestRetainedBlock`, then
`sampleHeight`; an empty database leaves 0. -/
def seedSample (c : Cfg) (ts : Nat → Nat) (d : Db) (cutoff : Nat) : UInt64 :=
  if c.minAge then
    match oldest d with
    | none => 0
    | some o => sampleNode ts d cutoff (UInt64.ofNat o)
  else 0

/-- `refreshStaleSample` (proposed fix, `Cfg.sampleChecked`): `if minAge == 0 || latestSampledHeight == 0 { return
nil }`; the timestamp of block `latestSampledHeight-1` is read: there and before the cut-off → the cache stands;
missing (`ErrKeyNotFound`) or at/after the cut-off → `seedFloor()`: `OldestRetainedBlock` missing → nothing;
else `latestSampledHeight = oldest` and `sampleHeight()`. Result: the new sample, and `false` when the search
returned an error (the handler returns it; the sample then stays at `oldest`). -/
def refreshSample (c : Cfg) (ts : Nat → Nat) (d : Db) (cutoff : Nat) (sampled : UInt64) : UInt64 × Bool :=
  if !c.minAge || sampled == 0 then (sampled, true)
  else if d.has .hdr (sampled.toNat - 1) && decide (ts (sampled.toNat - 1) < cutoff) then (sampled, true)
  else
    match oldest d with
    | none => (sampled, true)
    | some o => (sampleNode ts d cutoff (UInt64.ofNat o), sampleOk ts d cutoff (UInt64.ofNat o))

/-- Restart: every in-memory field is rebuilt; the floor is (optionally) seeded from the database, the
min-age sample is seeded by the new pruner. -/
def restartMem (c : Cfg) (ts : Nat → Nat) (d : Db) (cutoff : Nat) (seed : Bool) : Mem :=
  { floorState := if seed then seedState 0 (UInt64.ofNat ((oldest d).getD 0)) else 0,
    sampled := seedSample c ts d cutoff }

/-- The migration's own min-age search: `FindOldestBlockAtOrAfter(database, 0, pivot, now-minAge)`. -/
def migMinAgeFloor (ts : Nat → Nat) (height : Nat) (l1 : UInt64) (cutoff : Nat) : Option UInt64 :=
  let pivot := if l1.toNat ≤ height then l1.toNat else height
  (findOldestAtOrAfter ts 0 pivot cutoff).map UInt64.ofNat

def step (c : Cfg) (s : St) : Op → St × Out
  | .store =>
    match s.db.height with
    | none => ({ s with db := storeBlock s.db 0 }, .ok)
    | some h =>
      -- verifyBlockSuccession reads the head's header hash
      if s.db.has .hdr h then ({ s with db := storeBlock s.db (h + 1) }, .ok) else (s, .err)
  | .revert =>
    match s.db.height with
    | none => (s, .err)
    | some h =>
      if s.db.has .su h && s.db.has .hdr h && s.db.has .txs h && (!c.legacy || s.db.has .hist h)
          && revertFilterOk s.db h then
        ({ s with db := revertBlock s.db h }, .ok)
      else (s, .err)
  | .writeL1 n => ({ s with db := { s.db with l1 := some n } }, .ok)
  | .evL1 n =>
    match s.job, s.db.height with
    | .run .., _ => (s, .bad)
    | .idle, none => (s, .noop)
    | .idle, some h =>
      match l1Keep c s.mem.sampled h n with
      | none => (s, .noop)
      | some keep =>
        if c.sampleChecked then
          -- proposed fix: `refreshStaleSample()` right after `p.pendingL2Heads = 0`
          let r := refreshSample c (s.tsAt c) s.db s.cutoff s.mem.sampled
          let s1 : St := { s with mem := { s.mem with pending := 0, sampled := r.1 } }
          if r.2 then
            match l1Keep c r.1 h n with
            | none => (s1, .noop)       -- not taken: the guards do not read the sample
            | some keep' => startPrune s1 keep'
          else (s1, .err)
        else startPrune { s with mem := { s.mem with pending := 0 } } keep
  | .evL2 n =>
    match s.job, s.db.l1 with
    | .run .., _ => (s, .bad)
    | .idle, none => (s, .noop)
    | .idle, some l1 =>
      -- `withinTimeWindow(block.Timestamp, minAge)`: the event's block is younger than the minimum age
      let within := decide (s.cutoff ≤ s.tsAt c n.toNat)
      -- proposed fix: `if block.Number > chainHeight { return nil }` (chain height missing: nothing to prune)
      let stale := c.l2Clamps && (match s.db.height with | none => true | some h => decide (h < n.toNat))
      if stale then (s, .noop)
      else if l2Guard c l1 n then (s, .noop)
      else
        let p := s.mem.pending + 1
        if p < c.l2PerPrune then ({ s with mem := { s.mem with pending := p } }, .noop)
        else if c.sampleChecked then
          let r := refreshSample c (s.tsAt c) s.db s.cutoff s.mem.sampled
          let s1 : St := { s with mem := { s.mem with pending := 0, sampled := r.1 } }
          if r.2 then startPrune s1 (l2Keep c r.1 n within) else (s1, .err)
        else startPrune { s with mem := { s.mem with pending := 0 } } (l2Keep c s.mem.sampled n within)
  | .flush k =>
    match s.job with
    | .idle => (s, .bad)
    | .run start end_ cur first =>
      if cur + k ≤ end_ then
        if loopReadsOk s.db cur k then
          let db := s.db.del (flushDel c start end_ cur (cur + k) first)
          ({ s with db := (if c.fixed then db.pruneAgg (cur + k) else db),
                    job := .run start end_ (cur + k) false }, .ok)
        else ({ s with job := .idle }, .err)
      else (s, .bad)
  | .finish =>
    match s.job with
    | .idle => (s, .bad)
    | .run start _ cur first =>
      if first then (s, .bad)   -- the hash-keyed batch is always written before the call ends
      else
        let db := if c.fixed then s.db else (s.db.del (rangeDel cur)).pruneAgg cur
        ({ s with db := db, mem := { s.mem with sampled := umax s.mem.sampled (UInt64.ofNat cur) }, job := .idle },
         .done (cur - start) cur)
  | .fail =>
    match s.job with
    | .idle => (s, .bad)
    | .run .. => ({ s with job := .idle }, .err)
  | .crash seed => ({ s with mem := restartMem c (s.tsAt c) s.db s.cutoff seed, job := .idle }, .ok)
  | .tick =>
    if c.minAge then
      ({ s with mem := { s.mem with sampled := sampleNode (s.tsAt c) s.db s.cutoff s.mem.sampled } }, .ok)
    else (s, .noop)
  | .fork => ({ s with chain := forkChain c s }, .ok)
  | .advance d => ({ s with cutoff := s.cutoff + d }, .ok)
  | .migrate unchangedSlot =>
    match s.job, s.db.height, s.db.l1 with
    | .run .., _, _ => (s, .bad)
    | .idle, none, _ => ({ s with mem := restartMem c (s.tsAt c) s.db s.cutoff true }, .noop)   -- "no chain data yet"
    | .idle, some _, none => (s, .err)                                    -- `getting L1 head` fails, the node does not start
    | .idle, some h, some l1 =>
      match migKeep c h l1 (migMinAgeFloor (s.tsAt c) h l1 s.cutoff) with
      | none => ({ s with mem := restartMem c (s.tsAt c) s.db s.cutoff true }, .noop)
      | some keep =>
        -- what `setupBeforeStager` has written by the time a later phase fails
        let afterSetup := (s.db.del (fun i m => rangeDel keep.toNat i m || i == .h2n || i == .txl || i == .l1m)).pruneAgg keep.toNat
        if keep = 0 then
          if c.migZeroNoop then ({ s with mem := restartMem c (s.tsAt c) s.db s.cutoff true }, .noop)
          -- `setupBeforeRestorer` reads the header of `oldestBlockKept - 1` = block 2^64-1: the migration
          -- fails after the lookup buckets were wiped, on every start
          else ({ s with db := afterSetup, mem := restartMem c (s.tsAt c) afterSetup s.cutoff true }, .err)
        else if unchangedSlot && !c.migSkipsMissing then
          ({ s with db := afterSetup, mem := restartMem c (s.tsAt c) afterSetup s.cutoff true }, .err)  -- stager: key not found
        else if migrateReadsOk s.db keep.toNat h then
          let db := migrateDb s.db keep.toNat h
          ({ s with db := db, mem := restartMem c (s.tsAt c) db s.cutoff true, job := .idle }, .ok)
        else (s, .err)

def run (c : Cfg) (s : St) : List Op → St
  | [] => s
  | op :: ops => run c (step c s op).1 ops

/-! ## Observations: what the Reader API and the state readers answer -/

inductive Q
  | headerByNumber      -- BlockHeaderByNumber, BlockHeaderHashByNumber, BlockTransactionCountByNumber
  | blockByNumber       -- BlockByNumber
  | numberByHash        -- BlockNumberByHash
  | headerByHash        -- BlockHeaderByHash
  | blockByHash         -- BlockByHash
  | stateUpdateByNumber
  | stateUpdateByHash
  | commitments         -- BlockCommitmentsByNumber
  | txsByNumber         -- Transactions*/Receipts* by block number (and index)
  | txAndReceiptByIndex -- TransactionAndReceiptByBlockNumberAndIndex (also reads the header hash)
  | txLookup            -- BlockNumberAndIndexByTxHash for a transaction of the block
  | txByHash            -- TransactionByHash
  | receiptByHash       -- Receipt
  | l1HandlerMsg        -- L1HandlerTxnHash for an L1-handler transaction of the block
  | requireRetained     -- pruner.RequireRetained (used by the event filter)
  | eventsFrom          -- EventFilter.Events over [n, head] (no address / key filter)
  | stateAtNumber       -- StateAtBlockNumber + reads
  | stateAtHash         -- StateAtBlockHash + reads
  deriving DecidableEq, Repr

inductive Ans
  /-- the genuine data of the block (what the unpruned twin answers) -/
  | ok
  | notfound
  /-- `BlockPrunedError` -/
  | pruned
  /-- a state reader was handed out, but history entries above the block are missing: a slot written in
  every block reads as it was after block `m ≠ b` -/
  | stale (m : Nat)
  /-- a reader was handed out and `ContractStorageLastUpdatedBlock` answers without error, but the history
  entry that records the slot's last write is gone: an older write's block (or 0 = "never written") is
  reported instead -/
  | lost
  deriving DecidableEq, Repr

/-- Every history entry logged in `(b, h]` is present: the legacy reader is exact at `b` for every key. -/
def histComplete (d : Db) (b h : Nat) : Bool :=
  (List.range (h - b)).all (fun j => d.has .hist (b + 1 + j))

/-- Legacy reader: a key written in every block reads at `b` as it was after block `servedAs - ...`: the
first surviving entry above `b` is at `m+1` and carries the value after `m`; none → head value. -/
def servedAs (d : Db) (b h : Nat) : Nat :=
  match (List.range (h - b)).find? (fun j => d.has .hist (b + 1 + j)) with
  | some j => b + j
  | none => h

def stateRead (c : Cfg) (d : Db) (b h : Nat) : Ans :=
  if !c.legacy then .ok           -- core/state keeps its history in buckets the pruner never touches
  else if histComplete d b h then .ok else .stale (servedAs d b h)

/-- `MatchedBlockIterator.loadNextWindow` over `[n, h]`: every window of the range except the one the
running filter holds (the window of block `h+1`) is read from the persisted filters (cache fallback
`core.GetAggregatedBloomFilter`; the in-memory LRU cache is not modelled: a fresh process has none). -/
def windowsOk (d : Db) (n h : Nat) : Bool :=
  (List.range (h / numBlocksPerFilter + 1 - n / numBlocksPerFilter)).all fun j =>
    let w := n / numBlocksPerFilter + j
    w == (h + 1) / numBlocksPerFilter || d.agg w

def allOf (d : Db) (n : Nat) (bs : List Bk) : Ans :=
  if bs.all (fun i => d.has i n) then .ok else .notfound

/-- The answer of the node to query `q` about block `n` (for transaction-level queries: about a
transaction of block `n`). -/
def answer (c : Cfg) (s : St) (q : Q) (n : Nat) : Ans :=
  let d := s.db
  match q with
  | .headerByNumber => allOf d n [.hdr]
  | .blockByNumber => allOf d n [.hdr, .txs]
  | .numberByHash => allOf d n [.h2n]
  | .headerByHash => allOf d n [.h2n, .hdr]
  | .blockByHash => allOf d n [.h2n, .hdr, .txs]
  | .stateUpdateByNumber => allOf d n [.su]
  | .stateUpdateByHash => allOf d n [.h2n, .su]
  | .commitments => allOf d n [.comm]
  | .txsByNumber => allOf d n [.txs]
  | .txAndReceiptByIndex => allOf d n [.txs, .hdr]
  | .txLookup => allOf d n [.txl]
  | .txByHash => allOf d n [.txl, .txs]
  | .receiptByHash => allOf d n [.txl, .txs, .hdr]
  | .l1HandlerMsg => allOf d n [.l1m]
  | .requireRetained => if d.has .comm n then .ok else .pruned
  | .eventsFrom =>
    match d.height with
    | none => .notfound          -- the chain height read fails
    | some h =>
      if n > h then .ok          -- nothing to scan; retention is only consulted for start blocks <= head
      else if d.has .comm n then -- RequireRetained(startBlock), then per window the bloom filter, then receipts + header hash
        (if (List.range (h + 1 - n)).all (fun j => d.has .txs (n + j) && d.has .hdr (n + j)) && windowsOk d n h
         then .ok else .notfound)
      else .pruned
  | .stateAtNumber =>
    match d.height with
    | none => .notfound
    | some h =>
      if s.mem.floorState ≠ 0 then
        -- seeded: `blockNumber < floor` → not found; upper bound = chain height (legacy) / header read (new)
        if n < (s.mem.floorState - 1).toNat then .notfound
        else if c.legacy then (if n > h then .notfound else stateRead c d n h)
        else (if d.has .hdr n then stateRead c d n h else .notfound)
      else
        if d.has .hdr n && d.has .h2n n then stateRead c d n h else .notfound
  | .stateAtHash =>
    match d.height with
    | none => .notfound
    | some h =>
      if c.legacy then (if d.has .h2n n then stateRead c d n h else .notfound)
      else (if d.has .h2n n && d.has .hdr n then stateRead c d n h else .notfound)

/-- `HeadState` + reads: the legacy backend needs the chain-height key, the new one also the head header. -/
def headState (c : Cfg) (s : St) : Ans :=
  match s.db.height with
  | none => .notfound
  | some h => if c.legacy || s.db.has .hdr h then .ok else .notfound

/-! ### `ContractStorageLastUpdatedBlock` (core.StateReader; served by `starknet_getStorageAt`)

Legacy backend (`deprecatedstate.lastUpdatedBlockNumber`): scans the `DeprecatedContractStorageHistory`
entries of the slot BACKWARDS from the reader's block (head reader: from 2^64-1) and answers the block number
of the first entry it meets — the history entry a write logs at ITS OWN block. These are the entries the
pruner deletes for every pruned block and the migration wipes. New backend: its own history buckets, never
pruned. `lastWrite` = the block of the slot's last write at or below the reader's block. -/

/-- The reader's answer for a slot last written at `lastWrite`. -/
def lastUpdRead (c : Cfg) (d : Db) (lastWrite : Nat) : Ans :=
  if !c.legacy then .ok else if d.has .hist lastWrite then .ok else .lost

/-- Through `StateAtBlockNumber(n)` (same admission as `answer .stateAtNumber`), `lastWrite ≤ n`. -/
def lastUpdAtNumber (c : Cfg) (s : St) (lastWrite n : Nat) : Ans :=
  match answer c s .stateAtNumber n with
  | .notfound => .notfound
  | .pruned => .pruned
  | _ => lastUpdRead c s.db lastWrite

/-- Through `StateAtBlockHash(hash of n)`. -/
def lastUpdAtHash (c : Cfg) (s : St) (lastWrite n : Nat) : Ans :=
  match answer c s .stateAtHash n with
  | .notfound => .notfound
  | .pruned => .pruned
  | _ => lastUpdRead c s.db lastWrite

/-- Through `HeadState()`, `lastWrite ≤ head`. -/
def lastUpdAtHead (c : Cfg) (s : St) (lastWrite : Nat) : Ans :=
  match headState c s with
  | .ok => lastUpdRead c s.db lastWrite
  | a => a

/-- A historical reader handed out EARLIER for block `b` (admitted then; by number or by hash) and read NOW:
the legacy reader (`deprecatedstate.NewHistory` over the live database) consults the retention floor only
when it is opened; every later read scans whatever history entries are in the database at that moment.
With the proposed guard the retention check is repeated after the read: the answer is what a reader opened
NOW would give. -/
def heldRead (c : Cfg) (s : St) (byHash : Bool) (b : Nat) : Ans :=
  if c.readerGuard && c.legacy then answer c s (if byHash then .stateAtHash else .stateAtNumber) b
  else
    match s.db.height with
    | none => .notfound
    | some h => stateRead c s.db b h

/-- The unpruned twin stores every block `≤ height` completely. -/
def twinAnswer (height : Option Nat) (q : Q) (n : Nat) : Ans :=
  match height with
  | none => if q = .requireRetained then .pruned else .notfound
  | some h =>
    if n ≤ h then .ok
    else if q = .requireRetained then .pruned
    else if q = .eventsFrom then .ok   -- an empty range: no events, no error
    else .notfound

/-! ## Specification vocabulary (used by the theorems; not executed by the driver) -/

/-- The durable floor: oldest block the retention probe still finds (`0` on an empty database). This is
what `BlockPrunedError.OldestRetained` reports to a user. -/
def lo (d : Db) : Nat := (oldest d).getD 0

/-- The retention floor of a running node: the durable floor, or — while / after this process asked for a
prune — the highest `oldestBlockToKeep` it asked for (the shared `RetentionFloor` is raised to it BEFORE
anything is deleted). -/
def effFloor (s : St) : Nat := max (lo s.db) s.mem.keepMax

/-- All entries of block `n` are present. -/
def intact (d : Db) (n : Nat) : Prop := ∀ i : Bk, d.has i n = true

/-- Between two batch writes of a prune the original code leaves a database that only the in-memory
floor protects; the repaired code does not. `interruptible` = a crash or a write error at this point
is covered by the theorems. For the repaired variant: always. -/
def interruptible (c : Cfg) : Job → Prop
  | .idle => True
  | .run _ _ _ first => c.fixed = true ∨ first = true

/-- The histories the property quantifies over. Everything is allowed at any time, except:
* `revert` only while the head is above the floor ("reverted down to the floor");
* a new-head event names a block that is on the local chain — ONLY for the code at the pinned commit, which
  trusts `block.Number` (`stale_new_head_event_prunes_the_head_before_<fix>`); with the proposed clamp
  (`l2Clamps`) stale events for reverted blocks are legal;
* the pruner runs with a seeded `RetentionFloor` (node.Run seeds it before the services start);
* block numbers stay below 2^64;
* (original code only) crash / write error not between two batch writes of one prune — the theorems
  about the original code are `_partial` for exactly this reason. -/
def Legal (c : Cfg) (s : St) : Op → Prop
  | .store => ∀ h, s.db.height = some h → h + 1 < 2 ^ 64
  | .revert => ∃ h, s.db.height = some h ∧ effFloor s < h
  | .evL1 _ => s.mem.floorState ≠ 0
  | .evL2 n => s.mem.floorState ≠ 0 ∧ (c.l2Clamps = true ∨ ∃ h, s.db.height = some h ∧ n.toNat ≤ h)
  | .crash _ => interruptible c s.job
  | .fail => interruptible c s.job
  -- the one-time migration runs on a database no prune has touched above its cut-off; for the code at the
  -- pinned commit additionally: its cut-off is not block 0 and no retained block names an unchanged slot
  -- (see `migration_cutoff_zero_fails`, `migration_unchanged_slot_fails`)
  | .migrate unchangedSlot => s.job = .idle ∧ (unchangedSlot = true → c.migSkipsMissing = true) ∧
      ∀ h l1 keep, s.db.height = some h → s.db.l1 = some l1 →
        migKeep c h l1 (migMinAgeFloor (s.tsAt c) h l1 s.cutoff) = some keep →
        (0 < keep.toNat ∨ c.migZeroNoop = true) ∧ max (lo s.db) s.mem.keepMax ≤ keep.toNat
  | _ => True

/-- The highest retention floor the property allows an event to ask for: the lower of the L1 head and
the local head (for a new-head event: the block the event names, which is on the local chain) minus the
number of retained blocks. Natural-number subtraction: if fewer than `retained` blocks exist the bound
is `0` (nothing may be pruned). -/
def allowed (c : Cfg) (s : St) : Op → Nat
  | .evL1 n =>
    match s.db.height with
    | some h => min n.toNat h - c.retained.toNat
    | none => 0
  | .evL2 n =>
    match s.db.l1 with
    | some l1 => min l1.toNat n.toNat - c.retained.toNat
    | none => 0
  | .migrate _ =>
    match s.db.height, s.db.l1 with
    | some h, some l1 => min l1.toNat h - c.retained.toNat
    | _, _ => 0
  | _ => 0

/-- States reachable from the empty node by legal histories. -/
inductive Reach (c : Cfg) : St → Prop
  | init : Reach c St.init
  | step {s : St} (op : Op) : Reach c s → Legal c s op → Reach c (step c s op).1

end Juno.C16
