import JunoModel.C16.ModelMigStep
/-!
C16 — the small-step model of the migration's resume bookkeeping: with the restaging marker every
interleaving of starts, cancellations (recorded tokens), kills (also "the run returned but the runner's commit
was lost") and completions ends with every history entry of the retained blocks back in the live buckets.
-/
namespace Juno.C16.MigStep

/-- Blocks `[k, sp)` with history have their staged copy. -/
def Staged (c : Cfg) (orig : Nat → Bool) (s : St) (sp : Nat) : Prop :=
  ∀ n, c.k ≤ n → n < sp → n ≤ c.h → orig n = true → s.scratch n = true

def LiveOk (c : Cfg) (orig : Nat → Bool) (s : St) : Prop :=
  ∀ n, c.k ≤ n → n ≤ c.h → orig n = true → s.live n = true

def ScrOk (c : Cfg) (orig : Nat → Bool) (s : St) : Prop :=
  ∀ n, c.k ≤ n → n ≤ c.h → orig n = true → s.scratch n = true

/-- What the program counter promises. -/
def PcOk (c : Cfg) (orig : Nat → Bool) (s : St) : Prop :=
  match s.pc with
  | .idle => True
  | .stager sp rp0 =>
    rp0 = s.tok.2 ∧ c.k ≤ sp ∧ (rp0 = 0 → Staged c orig s sp) ∧
    (∀ n, s.proc n = true → sp ≤ n ∧ n ≤ c.h ∧ (orig n = true → s.scratch n = true)) ∧
    (rp0 = 0 → c.k < s.tok.1 → s.mark = true ∨ Staged c orig s s.tok.1) ∧
    (rp0 ≠ 0 → sp = c.h + 1)
  | .restorer rp =>
    c.k ≤ rp ∧ (∀ n, c.k ≤ n → n < rp → n ≤ c.h → orig n = true → s.live n = true) ∧
    (∀ n, s.proc n = true → rp ≤ n ∧ n ≤ c.h ∧ (orig n = true → s.live n = true)) ∧
    (s.tok.2 = 0 → ScrOk c orig s)
  | .finishing => LiveOk c orig s ∧ scratchEmpty c s = true

structure Inv (c : Cfg) (orig : Nat → Bool) (s : St) : Prop where
  /-- a copy of every history entry of a retained block exists somewhere -/
  safe : ∀ n, c.k ≤ n → n ≤ c.h → orig n = true → s.live n = true ∨ s.scratch n = true
  /-- a stager token is truthful — unless the marker says otherwise or the scratch space is empty -/
  tokS : s.tok.2 = 0 → c.k < s.tok.1 → s.mark = false → scratchEmpty c s = false → Staged c orig s s.tok.1
  /-- a restorer token is truthful -/
  tokR : s.tok.2 ≠ 0 → s.tok.1 = c.h + 1 ∧ c.k ≤ s.tok.2 ∧
    ∀ n, c.k ≤ n → n < s.tok.2 → n ≤ c.h → orig n = true → s.live n = true
  tokForm : s.tok.2 = 0 → s.tok.1 ≤ c.h
  pcOk : PcOk c orig s
  fin : s.done = true → LiveOk c orig s ∧ s.pc = .idle

theorem scratchEmpty_true_iff (c : Cfg) (s : St) : scratchEmpty c s = true ↔ ∀ n, n ≤ c.h → s.scratch n = false := by
  unfold scratchEmpty
  rw [List.all_eq_true]
  constructor
  · intro h n hn
    have := h n (List.mem_range.mpr (by omega))
    simpa using this
  · intro h n hn
    have := h n (by have := List.mem_range.mp hn; omega)
    simp [this]

theorem allProc_spec (s : St) (a b n : Nat) (h : allProc s a b = true) (h1 : a ≤ n) (h2 : n < b) : s.proc n = true := by
  unfold allProc at h
  rw [List.all_eq_true] at h
  have := h (n - a) (List.mem_range.mpr (by omega))
  have e : a + (n - a) = n := by omega
  rw [e] at this; exact this

theorem Staged_mono {c : Cfg} {orig : Nat → Bool} {s s' : St} (h : ∀ m, s.scratch m = true → s'.scratch m = true)
    {b : Nat} (S : Staged c orig s b) : Staged c orig s' b :=
  fun m a1 a2 a3 a4 => h m (S m a1 a2 a3 a4)

theorem inv_init (c : Cfg) (orig : Nat → Bool) : Inv c orig (init orig) := by
  refine ⟨fun n _ _ h => Or.inl h, fun _ h => ?_, fun h => absurd rfl h, fun _ => Nat.zero_le _, trivial, fun h => ?_⟩
  · exact absurd h (by show ¬ c.k < 0; omega)
  · cases h

/-- With the marker, every step preserves the invariant. -/
theorem inv_step (c : Cfg) (orig : Nat → Bool) (hm : c.marker = true) (hk : 1 ≤ c.k) (hkh : c.k ≤ c.h) (s : St)
    (I : Inv c orig s) (op : Op) : Inv c orig (step c s op) := by
  have hP := I.pcOk
  -- a finished migration is idle: no run is in progress
  have notDone : s.pc ≠ .idle → ∀ s' : St, s'.done = s.done → (s'.done = true → LiveOk c orig s' ∧ s'.pc = .idle) := by
    intro hne s' e h; rw [e] at h; exact absurd (I.fin h).2 hne
  cases op with
  | kill =>
    exact ⟨I.safe, I.tokS, I.tokR, I.tokForm, trivial, fun h => ⟨(I.fin h).1, rfl⟩⟩
  | record =>
    unfold step
    cases hpc : s.pc with
    | finishing =>
      simp only
      unfold PcOk at hP; rw [hpc] at hP
      exact ⟨I.safe, fun _ h => absurd h (by show ¬ c.k < 0; omega), fun h => absurd rfl h, fun _ => Nat.zero_le _,
        trivial, fun _ => ⟨hP.1, rfl⟩⟩
    | idle => simp only; exact I
    | stager a b => simp only; exact I
    | restorer a => simp only; exact I
  | start =>
    unfold step
    by_cases hd : s.done = true
    · simp only [hd, if_true]; exact I
    · simp only [hd, Bool.false_eq_true, if_false]
      cases hpc : s.pc with
      | stager a b => simp only; exact I
      | restorer a => simp only; exact I
      | finishing => simp only; exact I
      | idle =>
        simp only
        have hfin : ∀ s' : St, s'.done = false → (s'.done = true → LiveOk c orig s' ∧ s'.pc = .idle) := by
          intro s' e h; rw [e] at h; cases h
        by_cases h1 : s.tok.1 > c.h
        · -- the stager is skipped
          simp only [h1, if_true]
          have h2 : s.tok.2 ≠ 0 := fun e => by have := I.tokForm e; omega
          refine ⟨I.safe, I.tokS, I.tokR, I.tokForm, ?_, hfin _ rfl⟩
          show _ ∧ _ ∧ _ ∧ _ ∧ _ ∧ _
          exact ⟨rfl, by omega, fun e => absurd e h2, fun n h => Bool.noConfusion h, fun e => absurd e h2, fun _ => rfl⟩
        · have h2 : s.tok.2 = 0 := by
            cases Nat.decEq s.tok.2 0 with
            | isTrue e => exact e
            | isFalse e => have := (I.tokR e).1; omega
          simp only [h1, if_false]
          by_cases h3 : s.tok.1 > c.k
          · simp only [h3, if_true, hm]
            cases hr : (s.mark || scratchEmpty c s) with
            | true =>
              simp only [if_true]
              refine ⟨I.safe, fun _ _ hmk _ => Bool.noConfusion hmk, I.tokR, I.tokForm, ?_, hfin _ rfl⟩
              show _ ∧ _ ∧ _ ∧ _ ∧ _ ∧ _
              exact ⟨rfl, Nat.le_refl _, fun _ n a b => by omega, fun n h => Bool.noConfusion h, fun _ _ => Or.inl rfl,
                fun e => absurd h2 e⟩
            | false =>
              simp only [Bool.false_eq_true, if_false]
              simp only [Bool.or_eq_false_iff] at hr
              have hst : Staged c orig s s.tok.1 := I.tokS h2 h3 hr.1 hr.2
              refine ⟨I.safe, fun a b hmk he => I.tokS a b hr.1 he, I.tokR, I.tokForm, ?_, hfin _ rfl⟩
              show _ ∧ _ ∧ _ ∧ _ ∧ _ ∧ _
              exact ⟨rfl, by omega, fun _ => hst, fun n h => Bool.noConfusion h, fun _ _ => Or.inr hst, fun e => absurd h2 e⟩
          · simp only [h3, if_false]
            refine ⟨I.safe, I.tokS, I.tokR, I.tokForm, ?_, hfin _ rfl⟩
            show _ ∧ _ ∧ _ ∧ _ ∧ _ ∧ _
            exact ⟨rfl, Nat.le_refl _, fun _ n a b => by omega, fun n h => Bool.noConfusion h, fun _ h => absurd h h3,
              fun e => absurd h2 e⟩
  | stage n =>
    unfold step
    cases hpc : s.pc with
    | idle => simp only; exact I
    | restorer a => simp only; exact I
    | finishing => simp only; exact I
    | stager sp rp0 =>
      simp only
      unfold PcOk at hP; rw [hpc] at hP
      obtain ⟨p1, p2, p3, p4, p5, p6⟩ := hP
      by_cases hg : sp ≤ n ∧ n ≤ c.h ∧ s.proc n = false
      · simp only [hg, and_self, if_true]
        have mono : ∀ m, s.scratch m = true → (if m = n then s.scratch n || s.live n else s.scratch m) = true := by
          intro m hm'
          by_cases e : m = n
          · subst e; simp [hm']
          · simp [e, hm']
        refine ⟨?_, ?_, I.tokR, I.tokForm, ?_, notDone (by rw [hpc]; exact fun e => by cases e) _ rfl⟩
        · intro m a1 a2 a3
          rcases I.safe m a1 a2 a3 with l | r
          · exact Or.inl l
          · exact Or.inr (mono m r)
        · intro a b hmk _
          rcases p5 (by rw [p1]; exact a) b with e | e
          · rw [e] at hmk; cases hmk
          · exact Staged_mono (fun m hm' => mono m hm') e
        · show _ ∧ _ ∧ _ ∧ _ ∧ _ ∧ _
          refine ⟨p1, p2, fun e => Staged_mono (fun m hm' => mono m hm') (p3 e), ?_, ?_, p6⟩
          · intro m hm'
            by_cases e : m = n
            · subst e
              refine ⟨hg.1, hg.2.1, fun ho => ?_⟩
              simp only [if_true]
              rcases I.safe m (by omega) hg.2.1 ho with l | r
              · simp [l]
              · simp [r]
            · simp only [e, if_false] at hm'
              obtain ⟨q1, q2, q3⟩ := p4 m hm'
              exact ⟨q1, q2, fun ho => mono m (q3 ho)⟩
          · intro a b
            rcases p5 a b with e | e
            · exact Or.inl e
            · exact Or.inr (Staged_mono (fun m hm' => mono m hm') e)
      · simp only [hg, if_false]; exact I
  | cancelStager r =>
    unfold step
    cases hpc : s.pc with
    | idle => simp only; exact I
    | restorer a => simp only; exact I
    | finishing => simp only; exact I
    | stager sp rp0 =>
      simp only
      unfold PcOk at hP; rw [hpc] at hP
      obtain ⟨p1, p2, p3, p4, p5, p6⟩ := hP
      by_cases hg : sp ≤ r ∧ r ≤ c.h ∧ allProc s sp r = true ∧ noneProc s r c.h = true
      · simp only [hg, and_self, if_true]
        have hr0 : rp0 = 0 := by
          cases Nat.decEq rp0 0 with
          | isTrue e => exact e
          | isFalse e => have := p6 e; omega
        refine ⟨I.safe, ?_, fun h => absurd rfl h, fun _ => hg.2.1, trivial,
          notDone (by rw [hpc]; exact fun e => by cases e) _ rfl⟩
        intro _ _ _ _ m a1 a2 a3 a4
        by_cases e : m < sp
        · exact p3 hr0 m a1 e a3 a4
        · exact (p4 m (allProc_spec s sp r m hg.2.2.1 (by omega) a2)).2.2 a4
      · simp only [hg, if_false]; exact I
  | stagerDone =>
    unfold step
    cases hpc : s.pc with
    | idle => simp only; exact I
    | restorer a => simp only; exact I
    | finishing => simp only; exact I
    | stager sp rp0 =>
      simp only
      unfold PcOk at hP; rw [hpc] at hP
      obtain ⟨p1, p2, p3, p4, p5, p6⟩ := hP
      by_cases hg : allProc s sp (c.h + 1) = true
      · simp only [hg, if_true]
        by_cases hr0 : rp0 = 0
        · simp only [hr0, if_true]
          have hScr : ScrOk c orig s := by
            intro m a1 a2 a3
            by_cases e : m < sp
            · exact p3 hr0 m a1 e a2 a3
            · exact (p4 m (allProc_spec s sp (c.h + 1) m hg (by omega) (by omega))).2.2 a3
          have ht2 : s.tok.2 = 0 := by rw [← p1]; exact hr0
          refine ⟨fun m a1 a2 a3 => Or.inr (hScr m a1 a2 a3), fun _ _ _ _ m a1 _ a3 a4 => hScr m a1 a3 a4,
            fun h => absurd ht2 h, I.tokForm, ?_, notDone (by rw [hpc]; exact fun e => by cases e) _ rfl⟩
          show _ ∧ _ ∧ _ ∧ _
          exact ⟨Nat.le_refl _, fun m a1 a2 => by omega, fun m h => Bool.noConfusion h, fun _ => hScr⟩
        · simp only [hr0, if_false]
          have ht2 : s.tok.2 ≠ 0 := by rw [← p1]; exact hr0
          obtain ⟨r1, r2, r3⟩ := I.tokR ht2
          refine ⟨I.safe, I.tokS, I.tokR, I.tokForm, ?_, notDone (by rw [hpc]; exact fun e => by cases e) _ rfl⟩
          show _ ∧ _ ∧ _ ∧ _
          refine ⟨by omega, fun m a1 a2 a3 a4 => r3 m a1 (by rw [← p1]; omega) a3 a4, fun m h => Bool.noConfusion h,
            fun e => absurd e ht2⟩
      · simp only [hg, Bool.false_eq_true, if_false]; exact I
  | restore n =>
    unfold step
    cases hpc : s.pc with
    | idle => simp only; exact I
    | stager a b => simp only; exact I
    | finishing => simp only; exact I
    | restorer rp =>
      simp only
      unfold PcOk at hP; rw [hpc] at hP
      obtain ⟨p1, p2, p3, p4⟩ := hP
      by_cases hg : rp ≤ n ∧ n ≤ c.h ∧ s.proc n = false
      · simp only [hg, and_self, if_true]
        have mono : ∀ m, s.live m = true → (if m = n then s.live n || s.scratch n else s.live m) = true := by
          intro m hm'
          by_cases e : m = n
          · subst e; simp [hm']
          · simp [e, hm']
        refine ⟨?_, I.tokS, ?_, I.tokForm, ?_, notDone (by rw [hpc]; exact fun e => by cases e) _ rfl⟩
        · intro m a1 a2 a3
          rcases I.safe m a1 a2 a3 with l | r
          · exact Or.inl (mono m l)
          · exact Or.inr r
        · intro h
          obtain ⟨r1, r2, r3⟩ := I.tokR h
          exact ⟨r1, r2, fun m a1 a2 a3 a4 => mono m (r3 m a1 a2 a3 a4)⟩
        · show _ ∧ _ ∧ _ ∧ _
          refine ⟨p1, fun m a1 a2 a3 a4 => mono m (p2 m a1 a2 a3 a4), ?_, p4⟩
          intro m hm'
          by_cases e : m = n
          · subst e
            refine ⟨hg.1, hg.2.1, fun ho => ?_⟩
            simp only [if_true]
            rcases I.safe m (by omega) hg.2.1 ho with l | r
            · simp [l]
            · simp [r]
          · simp only [e, if_false] at hm'
            obtain ⟨q1, q2, q3⟩ := p3 m hm'
            exact ⟨q1, q2, fun ho => mono m (q3 ho)⟩
      · simp only [hg, if_false]; exact I
  | cancelRestorer r =>
    unfold step
    cases hpc : s.pc with
    | idle => simp only; exact I
    | stager a b => simp only; exact I
    | finishing => simp only; exact I
    | restorer rp =>
      simp only
      unfold PcOk at hP; rw [hpc] at hP
      obtain ⟨p1, p2, p3, p4⟩ := hP
      by_cases hg : rp ≤ r ∧ r ≤ c.h ∧ allProc s rp r = true ∧ noneProc s r c.h = true
      · simp only [hg, and_self, if_true]
        refine ⟨I.safe, fun (h : r = 0) => by omega, fun _ => ⟨rfl, by show c.k ≤ r; omega, ?_⟩,
          fun (h : r = 0) => by omega, trivial, notDone (by rw [hpc]; exact fun e => by cases e) _ rfl⟩
        intro m a1 a2 a3 a4
        have a2' : m < r := a2
        by_cases e : m < rp
        · exact p2 m a1 e a3 a4
        · exact (p3 m (allProc_spec s rp r m hg.2.2.1 (by omega) a2')).2.2 a4
      · simp only [hg, if_false]; exact I
  | restorerDone =>
    unfold step
    cases hpc : s.pc with
    | idle => simp only; exact I
    | stager a b => simp only; exact I
    | finishing => simp only; exact I
    | restorer rp =>
      simp only
      unfold PcOk at hP; rw [hpc] at hP
      obtain ⟨p1, p2, p3, p4⟩ := hP
      by_cases hg : allProc s rp (c.h + 1) = true
      · simp only [hg, if_true]
        have hLive : LiveOk c orig s := by
          intro m a1 a2 a3
          by_cases e : m < rp
          · exact p2 m a1 e a2 a3
          · exact (p3 m (allProc_spec s rp (c.h + 1) m hg (by omega) (by omega))).2.2 a3
        have hEmpty : scratchEmpty c { s with scratch := fun _ => false, mark := false, pc := .finishing } = true :=
          (scratchEmpty_true_iff c _).mpr (fun _ _ => rfl)
        refine ⟨fun m a1 a2 a3 => Or.inl (hLive m a1 a2 a3), fun _ _ _ he => ?_, I.tokR, I.tokForm, ?_,
          notDone (by rw [hpc]; exact fun e => by cases e) _ rfl⟩
        · rw [hEmpty] at he; cases he
        · exact ⟨hLive, hEmpty⟩
      · simp only [hg, Bool.false_eq_true, if_false]; exact I

theorem inv_reach (c : Cfg) (orig : Nat → Bool) (hm : c.marker = true) (hk : 1 ≤ c.k) (hkh : c.k ≤ c.h) {s : St}
    (R : Reach c orig s) : Inv c orig s := by
  induction R with
  | init => exact inv_init c orig
  | step op _ ih => exact inv_step c orig hm hk hkh _ ih op

theorem reach_run (c : Cfg) (orig : Nat → Bool) {s : St} (R : Reach c orig s) : ∀ ops, Reach c orig (run c s ops)
  | [] => R
  | op :: ops => reach_run c orig (Reach.step op R) ops

end Juno.C16.MigStep
