/-
C16 — the history-pruner migration at KEY level (migration/historyprunner/keys.go, copy.go): how the history
entries of the retained blocks travel through the scratch namespace. Core Lean only (linked into `c16drv`).

  history key  = [bucket tag][addr:32][slot:32 — storage only][block:8]     (fill*HistoryKey)
  scratch key  = [Temporary][bucket tag][addr:32][slot:32 — storage only][block:8]   (fill*ScratchKey)
  stager   : for every key the state diff of a retained block names: scratch[scratchKey k] := history[historyKey k]
  restorer : (history buckets wiped) history[historyKey k] := scratch[scratchKey k]

`HKind.scratchTag` is the byte each `fill*ScratchKey` writes at position 1; the stager/restorer loops of
`copyStateHistory` pick the fill function per kind (`copyScratchKey`).
-/
namespace Juno.C16.Mig

abbrev Bytes := List UInt8

/-- The three legacy history buckets. -/
inductive HKind
  | storage
  | nonce
  | classHash
  deriving DecidableEq, Repr

/-- `db.DeprecatedContractStorageHistory` = 14, `…NonceHistory` = 15, `…ClassHashHistory` = 16. -/
def HKind.tag : HKind → UInt8
  | .storage => 14
  | .nonce => 15
  | .classHash => 16

/-- `db.Temporary`. -/
def temporaryTag : UInt8 := 22

structure HKey where
  kind : HKind
  addr : Bytes
  /-- only for `storage`; `[]` otherwise -/
  slot : Bytes
  block : Bytes
  deriving DecidableEq, Repr

/-- Field widths as the fill functions write them. -/
def HKey.wf (k : HKey) : Prop :=
  k.addr.length = 32 ∧ k.block.length = 8 ∧ (if k.kind = .storage then k.slot.length = 32 else k.slot = [])

instance (k : HKey) : Decidable k.wf := by unfold HKey.wf; exact inferInstance

/-- `fillStorageHistoryKey` / `fillNonceHistoryKey` / `fillClassHashHistoryKey`. -/
def historyKey (k : HKey) : Bytes := k.kind.tag :: (k.addr ++ (k.slot ++ k.block))

/-- `fillStorageScratchKey` / `fillNonceScratchKey` / `fillClassHashScratchKey`. -/
def scratchKey (k : HKey) : Bytes := temporaryTag :: k.kind.tag :: (k.addr ++ (k.slot ++ k.block))

/-- A key/value store restricted to the keys of interest. -/
abbrev Store := Bytes → Option Bytes

def Store.put (s : Store) (k : Bytes) (v : Bytes) : Store := fun k' => if k' = k then some v else s k'

/-- `copyStateHistory(historyToScratch)` over the keys a state diff names: `copyValue` per key; a key
without a history entry is skipped (`skipMissing`, the proposed fix) — at the pinned commit it aborts the
migration, which the node-level model expresses (`Cfg.migSkipsMissing`). -/
def stage (history : Store) : List HKey → Store → Store
  | [], scratch => scratch
  | k :: ks, scratch =>
    match history (historyKey k) with
    | some v => stage history ks (scratch.put (scratchKey k) v)
    | none => stage history ks scratch

/-- `copyStateHistory(scratchToHistory)`. -/
def restore (scratch : Store) : List HKey → Store → Store
  | [], history => history
  | k :: ks, history =>
    match scratch (scratchKey k) with
    | some v => restore scratch ks (history.put (historyKey k) v)
    | none => restore scratch ks history

/-- The whole trip for the retained keys: stage into an empty scratch space, wipe the history buckets,
restore. -/
def roundTrip (history : Store) (keys : List HKey) : Store :=
  restore (stage history keys (fun _ => none)) keys (fun _ => none)

/-- The copy-paste of the second seeded change (NOT the code): the class-hash loop builds its scratch key
with the NONCE fill function. Used only by the witness `Props.nonce_tag_for_class_hash_collides`. -/
def scratchKeyNonceForClass (k : HKey) : Bytes :=
  temporaryTag :: (if k.kind = .classHash then HKind.nonce.tag else k.kind.tag) :: (k.addr ++ (k.slot ++ k.block))

def addrA : Bytes := List.replicate 32 7
def block5 : Bytes := [0, 0, 0, 0, 0, 0, 0, 5]
def nonceAt5 : HKey := ⟨.nonce, addrA, [], block5⟩
def classAt5 : HKey := ⟨.classHash, addrA, [], block5⟩

end Juno.C16.Mig
