import JunoModel.C16.ProofsInv
/-!
C16 — helper lemmas, part 3: what the invariant means for the answers of the node
(Reader queries, historical state, head state, store / revert).
-/
namespace Juno.C16

/-- Queries answered from block entries only (everything except the two state readers). -/
def Q.blockLevel : Q → Bool
  | .stateAtNumber | .stateAtHash | .eventsFrom => false
  | _ => true

theorem not_dirty_above {c : Cfg} {s : St} {h a n : Nat} (I : InvA c s h a) (hn : s.mem.keepMax ≤ n) :
    dirty c s.job n = false := by
  have hj := I.jobWf
  unfold jobOk at hj
  cases hjob : s.job with
  | idle => rfl
  | run st en cu fi =>
    rw [hjob] at hj
    simp only [dirty, Bool.and_eq_false_iff, decide_eq_false_iff_not]
    right; omega

theorem not_dirty_fixed {c : Cfg} (j : Job) (n : Nat) (hf : c.fixed = true) : dirty c j n = false := by
  cases j with
  | idle => rfl
  | run st en cu fi => simp [dirty, hf]

theorem intact_of_clean {c : Cfg} {s : St} {h a n : Nat} (I : InvA c s h a) (h1 : a ≤ n) (h2 : n ≤ h)
    (hd : dirty c s.job n = false) : ∀ i, s.db.has i n = true := by
  have hc : s.db.has .comm n = true := (I.commIff n).mpr ⟨h1, h2⟩
  obtain ⟨k1, k2, k3, k4⟩ := I.keepIn n h1 h2 hd
  intro i
  cases i with
  | hdr => exact I.hdrKeep n h2 (by omega)
  | h2n => exact k1
  | comm => exact hc
  | su => rw [I.suEq]; exact hc
  | txs => rw [I.txsEq]; exact hc
  | txl => exact k2
  | l1m => exact k3
  | hist => exact k4

theorem histComplete_iff (d : Db) (b h : Nat) :
    histComplete d b h = true ↔ ∀ m, b < m → m ≤ h → d.has .hist m = true := by
  unfold histComplete
  rw [List.all_eq_true]
  constructor
  · intro H m h1 h2
    have := H (m - b - 1) (List.mem_range.mpr (by omega))
    have e : b + 1 + (m - b - 1) = m := by omega
    rw [e] at this; exact this
  · intro H j hj
    have := List.mem_range.mp hj
    exact H _ (by omega) (by omega)

theorem stateRead_ok {c : Cfg} {d : Db} {b h : Nat} (H : c.legacy = true → ∀ m, b < m → m ≤ h → d.has .hist m = true) :
    stateRead c d b h = .ok := by
  unfold stateRead
  cases hl : c.legacy with
  | false => simp
  | true =>
    have := (histComplete_iff d b h).mpr (H hl)
    simp [this]

/-- History entries above `b` are all present whenever `b+1` is at or above every floor. -/
theorem hist_above {c : Cfg} {s : St} {h a b : Nat} (I : InvA c s h a) (h1 : a ≤ b + 1)
    (hd : ∀ m, b < m → m ≤ h → dirty c s.job m = false) :
    ∀ m, b < m → m ≤ h → s.db.has .hist m = true := by
  intro m hm1 hm2
  exact (I.keepIn m (by omega) hm2 (hd m hm1 hm2)).2.2.2

/-- Every persisted bloom window an event query over `[n, h]` needs (all windows of the range except the
running one) is there as soon as `n` is at or above the durable floor — aligned or not. -/
theorem windowsOk_of_inv {c : Cfg} {s : St} {h a : Nat} (I : InvA c s h a) (n : Nat) (h1 : a ≤ n) (h2 : n ≤ h) :
    windowsOk s.db n h = true := by
  unfold windowsOk
  rw [List.all_eq_true]
  intro j hj
  have hj' := List.mem_range.mp hj
  simp only [Bool.or_eq_true, beq_iff_eq]
  by_cases hr : n / numBlocksPerFilter + j = (h + 1) / numBlocksPerFilter
  · exact Or.inl hr
  · right
    apply (I.aggIff _).mpr
    unfold numBlocksPerFilter at *
    omega

/-- At or above the floor every query is answered exactly like on the unpruned twin. -/
theorem answer_ok_above {c : Cfg} {s : St} {h a : Nat} (hh : s.db.height = some h) (I : InvA c s h a)
    (q : Q) (n : Nat) (h1 : max a s.mem.keepMax ≤ n) (h2 : n ≤ h) : answer c s q n = .ok := by
  have hall := intact_of_clean I (by omega) h2 (not_dirty_above I (by omega))
  have hst : stateRead c s.db n h = .ok := by
    apply stateRead_ok
    intro _
    exact hist_above I (by omega) (fun m hm1 hm2 => not_dirty_above I (by omega))
  have hev : (List.range (h + 1 - n)).all (fun j => s.db.has .txs (n + j) && s.db.has .hdr (n + j)) = true := by
    rw [List.all_eq_true]
    intro j hj
    have hj' := List.mem_range.mp hj
    have := intact_of_clean I (n := n + j) (by omega) (by omega) (not_dirty_above I (by omega))
    simp [this]
  have hwin : windowsOk s.db n h = true := windowsOk_of_inv I n (by omega) h2
  cases q <;> simp only [answer, allOf, List.all_cons, List.all_nil, hall, Bool.and_self, if_true, hh]
  · -- eventsFrom
    have hng : ¬ n > h := by omega
    simp [hng, hev, hwin]
  · -- stateAtNumber
    have hm2 := I.m2
    by_cases hs : s.mem.floorState ≠ 0
    · have hlt : ¬ n < (s.mem.floorState - 1).toNat := by
        have hs' := (u64_ne_zero_iff _).mp hs
        have h1le : (1 : UInt64) ≤ s.mem.floorState := by simp [UInt64.le_iff_toNat_le]; omega
        have := UInt64.toNat_sub_of_le _ _ h1le
        simp at this; omega
      have hng : ¬ n > h := by omega
      simp [hs, hlt, hng, hst]
    · simp only [hs, if_false]; simp [hst]
  · -- stateAtHash
    simp [hst]

/-- Historical state one block below the floor, through the seeded `RetentionFloor`. -/
theorem stateAtNumber_below {c : Cfg} {s : St} {h a : Nat} (hh : s.db.height = some h) (I : InvA c s h a)
    (n : Nat) (hseed : s.mem.floorState ≠ 0) (h1 : max a s.mem.keepMax ≤ n + 1) (h2 : n ≤ h) :
    answer c s .stateAtNumber n = .ok := by
  have hst : stateRead c s.db n h = .ok := by
    apply stateRead_ok
    intro _
    exact hist_above I (by omega) (fun m hm1 hm2 => not_dirty_above I (by omega))
  have hm2 := I.m2
  have hlt : ¬ n < (s.mem.floorState - 1).toNat := by
    have hs' := (u64_ne_zero_iff _).mp hseed
    have h1le : (1 : UInt64) ≤ s.mem.floorState := by simp [UInt64.le_iff_toNat_le]; omega
    have := UInt64.toNat_sub_of_le _ _ h1le
    simp at this; omega
  have hng : ¬ n > h := by omega
  have hhdr := I.hdrKeep n h2 (by omega)
  simp [answer, hh, hseed, hlt, hng, hst, hhdr]

/-- Repaired procedure: historical state by block hash one block below the durable floor (the
`oldestKept-1` carve-out survives completion, cancellation and crash alike). -/
theorem stateAtHash_below_fixed {c : Cfg} {s : St} {h a : Nat} (hh : s.db.height = some h) (I : InvA c s h a)
    (hf : c.fixed = true) (n : Nat) (h1 : a ≤ n + 1) (h2 : n ≤ h) : answer c s .stateAtHash n = .ok := by
  have hst : stateRead c s.db n h = .ok := by
    apply stateRead_ok
    intro _
    exact hist_above I h1 (fun m _ _ => not_dirty_fixed _ _ hf)
  have hh2n : s.db.has .h2n n = true := by
    by_cases hn : a ≤ n
    · exact (I.keepIn n hn h2 (not_dirty_fixed _ _ hf)).1
    · have : n = a - 1 := by omega
      rw [this]; exact I.carve hf (by omega)
  have hhdr := I.hdrKeep n h2 h1
  simp [answer, hh, hst, hh2n, hhdr]

/-- The same through an UNSEEDED `RetentionFloor` (a node started without prune mode on the pruned database):
`StateAtBlockNumber` probes the header and the hash→number mapping instead of the shared floor. -/
theorem stateAtNumber_unseeded_fixed {c : Cfg} {s : St} {h a : Nat} (hh : s.db.height = some h) (I : InvA c s h a)
    (hf : c.fixed = true) (hu : s.mem.floorState = 0) (n : Nat) (h1 : a ≤ n + 1) (h2 : n ≤ h) :
    answer c s .stateAtNumber n = .ok := by
  have hst : stateRead c s.db n h = .ok := by
    apply stateRead_ok
    intro _
    exact hist_above I h1 (fun m _ _ => not_dirty_fixed _ _ hf)
  have hh2n : s.db.has .h2n n = true := by
    by_cases hn : a ≤ n
    · exact (I.keepIn n hn h2 (not_dirty_fixed _ _ hf)).1
    · have : n = a - 1 := by omega
      rw [this]; exact I.carve hf (by omega)
  have hhdr := I.hdrKeep n h2 h1
  simp [answer, hh, hst, hh2n, hhdr, hu]

/-- Unseeded, more than one block below the durable floor: the mapping is gone, the probe refuses. -/
theorem stateAtNumber_unseeded_far_below {c : Cfg} {s : St} {h : Nat} (hh : s.db.height = some h)
    (hu : s.mem.floorState = 0) (n : Nat) (h2n : s.db.has .h2n n = false) :
    answer c s .stateAtNumber n = .notfound := by
  simp [answer, hh, hu, h2n]

/-- A state reader is never answered from incomplete history: no stale answer, at any block. -/
theorem never_stale {c : Cfg} {s : St} {h a : Nat} (hh : s.db.height = some h) (I : InvA c s h a)
    (q : Q) (n m : Nat) : answer c s q n ≠ .stale m := by
  have hj := I.jobWf
  unfold jobOk at hj
  -- history above `b` is complete as soon as a hash→number mapping for `b` exists
  have viaH2n : ∀ b, b ≤ h → s.db.has .h2n b = true → stateRead c s.db b h = .ok := by
    intro b hb hb2
    apply stateRead_ok
    intro _
    have hlow := I.h2nLow b hb2
    cases hjob : s.job with
    | idle =>
      rw [hjob] at hlow; simp only [h2nOk] at hlow
      exact hist_above I hlow (fun m _ _ => by rw [hjob]; rfl)
    | run st en cu fi =>
      rw [hjob] at hlow hj
      simp only [h2nOk] at hlow
      obtain ⟨j1, j2, j3, j4, j5⟩ := hj
      by_cases hf : c.fixed = true
      · simp only [hf, if_true] at hlow
        exact hist_above I hlow (fun m _ _ => not_dirty_fixed _ _ hf)
      · have hf' : c.fixed = false := by simpa using hf
        simp only [hf', Bool.false_eq_true, if_false] at hlow j5
        have hab : a ≤ b + 1 := by
          rcases hlow with hl | hl | ⟨_, hl⟩ <;> omega
        have := hist_above I hab (fun m hm1 hm2 => by
          rw [hjob]
          simp only [dirty, Bool.and_eq_false_iff, decide_eq_false_iff_not]
          rcases hlow with hl | hl | ⟨hfi, hl⟩
          · right; omega
          · right; omega
          · have := j4 hfi; right; omega)
        exact this
  have notStale : ∀ b, stateRead c s.db b h = .ok → stateRead c s.db b h ≠ .stale m := by
    intro b e; rw [e]; intro hc; cases hc
  cases q
  case stateAtNumber =>
    simp only [answer, hh]
    by_cases hs : s.mem.floorState ≠ 0
    · rw [if_pos hs]
      have hm1 := I.m1 hs
      have hs' := (u64_ne_zero_iff _).mp hs
      have h1le : (1 : UInt64) ≤ s.mem.floorState := by simp [UInt64.le_iff_toNat_le]; omega
      have hsub := UInt64.toNat_sub_of_le _ _ h1le
      simp at hsub
      split
      · intro hc; cases hc
      · rename_i hge
        have hst : n ≤ h → stateRead c s.db n h = .ok := by
          intro hnh
          apply stateRead_ok
          intro _
          exact hist_above I (by omega) (fun m hm1' hm2' => not_dirty_above I (by omega))
        split
        · split
          · intro hc; cases hc
          · rename_i hgt; exact notStale n (hst (by omega))
        · split
          · rename_i hhdr
            have := I.bounded .hdr n hhdr
            exact notStale n (hst this)
          · intro hc; cases hc
    · rw [if_neg hs]
      split
      · rename_i hb
        simp only [Bool.and_eq_true] at hb
        exact notStale n (viaH2n n (I.bounded .h2n n hb.2) hb.2)
      · intro hc; cases hc
  case stateAtHash =>
    simp only [answer, hh]
    split
    · split
      · rename_i hb
        exact notStale n (viaH2n n (I.bounded .h2n n hb) hb)
      · intro hc; cases hc
    · split
      · rename_i hb
        simp only [Bool.and_eq_true] at hb
        exact notStale n (viaH2n n (I.bounded .h2n n hb.1) hb.1)
      · intro hc; cases hc
  all_goals (simp only [answer, allOf]; repeat' split) <;> (intro hc; cases hc)

/-- Beyond the head the node answers like the twin: not found / pruned. -/
theorem answer_beyond_head {c : Cfg} {s : St} {h a : Nat} (hh : s.db.height = some h) (I : InvA c s h a)
    (q : Q) (n : Nat) (hn : h < n) : answer c s q n = twinAnswer (some h) q n := by
  have hnone : ∀ i, s.db.has i n = false := by
    intro i
    cases hi : s.db.has i n with
    | false => rfl
    | true => have := I.bounded i n hi; omega
  have hng : ¬ n ≤ h := by omega
  cases q <;> simp [answer, allOf, twinAnswer, hnone, hng, hh]
  all_goals (intros; omega)

/-- Below the durable floor the retention probe says "pruned". -/
theorem probe_below {c : Cfg} {s : St} {h a : Nat} (I : InvA c s h a) (n : Nat) (hn : n < a) :
    answer c s .requireRetained n = .pruned := by
  have : s.db.has .comm n = false := by
    cases hc : s.db.has .comm n with
    | false => rfl
    | true => have := (I.commIff n).mp hc; omega
  simp [answer, this]

/-- Below the in-memory floor the state backend refuses (`ErrKeyNotFound`) instead of reading. -/
theorem state_below_floor_notfound (c : Cfg) (s : St) (n : Nat) (hs : s.mem.floorState ≠ 0)
    (hn : n < (s.mem.floorState - 1).toNat) : answer c s .stateAtNumber n = .notfound := by
  simp only [answer]
  cases s.db.height with
  | none => rfl
  | some h => simp [hs, hn]

/-- The retention probe tells the truth wherever nothing half-deleted is on disk. -/
theorem probe_truthful {c : Cfg} {s : St} {h a : Nat} (I : InvA c s h a)
    (n : Nat) (hd : dirty c s.job n = false) (hp : answer c s .requireRetained n = .ok)
    (q : Q) (hq : q.blockLevel = true) : answer c s q n = .ok := by
  have hc : s.db.has .comm n = true := by
    cases hc : s.db.has .comm n with
    | true => rfl
    | false => simp [answer, hc] at hp
  have := (I.commIff n).mp hc
  have hall := intact_of_clean I this.1 this.2 hd
  cases q <;> simp_all [answer, allOf, Q.blockLevel]

theorem headState_ok {c : Cfg} {s : St} {h a : Nat} (hh : s.db.height = some h) (I : InvA c s h a) :
    headState c s = .ok := by
  have := I.hdrKeep h (Nat.le_refl _) (by have := I.ale; omega)
  simp [headState, hh, this]

/-! ### below the floor -/

/-- Queries that read an entry the pruner deletes for EVERY pruned block (commitments, state update,
transactions): everything except the bare header (kept for `BlockHashLag`), the hash→number mapping (kept
for the block just below the floor) and the state readers. -/
def Q.readsPruned : Q → Bool
  | .blockByNumber | .blockByHash | .stateUpdateByNumber | .stateUpdateByHash | .commitments | .txsByNumber
  | .txAndReceiptByIndex | .txByHash | .receiptByHash => true
  | _ => false

theorem below_gone {c : Cfg} {s : St} {h a : Nat} (I : InvA c s h a) (n : Nat) (hn : n < a) :
    s.db.has .comm n = false ∧ s.db.has .su n = false ∧ s.db.has .txs n = false := by
  have hc : s.db.has .comm n = false := by
    cases hc : s.db.has .comm n with
    | false => rfl
    | true => have := (I.commIff n).mp hc; omega
  exact ⟨hc, by rw [I.suEq, hc], by rw [I.txsEq, hc]⟩

theorem below_floor_readsPruned {c : Cfg} {s : St} {h a : Nat} (I : InvA c s h a) (q : Q)
    (hq : q.readsPruned = true) (n : Nat) (hn : n < a) : answer c s q n = .notfound := by
  obtain ⟨h1, h2, h3⟩ := below_gone I n hn
  cases q <;> simp_all [answer, allOf, Q.readsPruned]

theorem h2n_below {c : Cfg} {s : St} {h a : Nat} (I : InvA c s h a) (hf : c.fixed = true) (n : Nat)
    (hn : n + 1 < a) : s.db.has .h2n n = false := by
  cases hc : s.db.has .h2n n with
  | false => rfl
  | true =>
    have := I.h2nLow n hc
    cases hj : s.job with
    | idle => rw [hj] at this; simp only [h2nOk] at this; omega
    | run st en cu fi => rw [hj] at this; simp only [h2nOk, hf, if_true] at this; omega

theorem stateAtNumber_far_below {c : Cfg} {s : St} {h a : Nat} (hh : s.db.height = some h) (I : InvA c s h a)
    (hf : c.fixed = true) (n : Nat) (hn : n + 1 < a) : answer c s .stateAtNumber n = .notfound := by
  by_cases hs : s.mem.floorState = 0
  · have := h2n_below I hf n hn
    simp [answer, hh, hs, this]
  · have h1 := (I.m1 hs).1
    have hs' := (u64_ne_zero_iff _).mp hs
    have h1le : (1 : UInt64) ≤ s.mem.floorState := by simp [UInt64.le_iff_toNat_le]; omega
    have := UInt64.toNat_sub_of_le _ _ h1le
    exact state_below_floor_notfound c s n hs (by simp at this; omega)

/-! ### ContractStorageLastUpdatedBlock -/

/-- Repaired procedure: the history entry that records a write at `lw ≤ head` exists iff `lw` is at or above
the durable floor. -/
theorem hist_iff {c : Cfg} {s : St} {h a : Nat} (I : InvA c s h a) (hf : c.fixed = true) (lw : Nat) (hl : lw ≤ h) :
    s.db.has .hist lw = true ↔ a ≤ lw := by
  constructor
  · intro hp
    cases Nat.lt_or_ge lw a with
    | inl hlt => rw [(I.lowGone hf lw hlt).2.2] at hp; cases hp
    | inr hge => exact hge
  · intro hge
    exact (I.keepIn lw hge hl (not_dirty_fixed _ _ hf)).2.2.2

theorem lastUpdRead_eq {c : Cfg} {s : St} {h a : Nat} (I : InvA c s h a) (hf : c.fixed = true) (lw : Nat) (hl : lw ≤ h) :
    lastUpdRead c s.db lw = if c.legacy = true ∧ lw < a then .lost else .ok := by
  unfold lastUpdRead
  cases hleg : c.legacy with
  | false => simp
  | true =>
    by_cases hlt : lw < a
    · have : s.db.has .hist lw = false := (I.lowGone hf lw hlt).2.2
      simp [this, hlt]
    · have : s.db.has .hist lw = true := (hist_iff I hf lw hl).mpr (by omega)
      simp [this, hlt]

/-! ### a new-head event for a block that is not on the chain (any more) -/

/-- With the proposed clamp (`onNewBlock` ignores an event whose block is above the current head) a stale
event does nothing. -/
theorem evL2_stale_noop {c : Cfg} {s : St} {n : UInt64} {h : Nat} (hc : c.l2Clamps = true)
    (hh : s.db.height = some h) (hn : h < n.toNat) : (step c s (.evL2 n)).1 = s := by
  simp only [step]
  cases s.job with
  | run _ _ _ _ => rfl
  | idle =>
    cases s.db.l1 with
    | none => rfl
    | some l1 => simp [hc, hh, hn]

theorem evL2_empty_noop {c : Cfg} {s : St} {n : UInt64} (hc : c.l2Clamps = true)
    (hh : s.db.height = none) : (step c s (.evL2 n)).1 = s := by
  simp only [step]
  cases s.job with
  | run _ _ _ _ => rfl
  | idle =>
    cases s.db.l1 with
    | none => rfl
    | some l1 => simp [hc, hh]

/-- `head - retained` for the head the node has NOW. -/
def headBound (c : Cfg) (s : St) : Nat :=
  match s.db.height with
  | some h => h - c.retained.toNat
  | none => 0

/-! ### the minimum age -/

/-- Over forks: with non-decreasing timestamps on every chain the node has followed, and — for the code that uses
the cached sample as it is — no young block put between the head and the cached sample by a fork switch, every
block below the floor is older than the minimum age. -/
theorem age_of_reach_forks {c : Cfg} {s : St} (R : Reach c s) (hm : Mono c.ts) (hmf : ForksMono c s)
    (hma : c.minAge = true) (hj : s.chain.mono = true) (hg : c.sampleChecked = true ∨ s.chain.fresh = true) :
    ∀ n, n < effFloor s → s.tsAt c n < s.cutoff := by
  intro n hn
  have I := inv_reach R
  unfold Inv at I
  cases hh : s.db.height with
  | none =>
    rw [hh] at I
    simp only at I
    unfold effFloor at hn
    rw [lo_empty hh, I.2.2.1] at hn
    omega
  | some h =>
    rw [hh] at I
    simp only at I
    obtain ⟨a, IA, _, AG⟩ := I
    unfold effFloor at hn
    rw [lo_of_inv hh IA] at hn
    exact (AG hm hmf hj hma hg).1 n hn

/-- Every operation but the fork switch leaves the chain record alone. -/
theorem step_chain (c : Cfg) (s : St) (op : Op) (h : op ≠ .fork) : (step c s op).1.chain = s.chain := by
  cases op with
  | fork => exact absurd rfl h
  | store => simp only [step]; repeat' split
             all_goals rfl
  | revert => simp only [step]; repeat' split
              all_goals rfl
  | writeL1 n => rfl
  | evL1 n => simp only [step]; repeat' split
              all_goals first | rfl | exact startPrune_chain _ _
  | evL2 n => simp only [step]; repeat' split
              all_goals first | rfl | exact startPrune_chain _ _
  | flush k => simp only [step]; repeat' split
               all_goals rfl
  | finish => simp only [step]; repeat' split
              all_goals rfl
  | fail => simp only [step]; repeat' split
            all_goals rfl
  | crash seed => rfl
  | tick => simp only [step]; repeat' split
            all_goals rfl
  | advance d => rfl
  | migrate u => simp only [step]; repeat' split
                 all_goals rfl

/-- As long as the network has not switched forks the chain record is the initial one: the ghosts are `true` and
the timestamps are `Cfg.ts`. -/
theorem chain_of_reach_fork0 {c : Cfg} {s : St} (R : Reach c s) (h0 : s.chain.fork = 0) : s.chain = {} := by
  induction R with
  | init => rfl
  | step op _ _ ih =>
    by_cases hf : op = .fork
    · subst hf
      exact absurd h0 (by show ¬ _ + 1 = 0; omega)
    · rw [step_chain c _ op hf] at h0 ⊢
      exact ih h0

theorem age_of_reach {c : Cfg} {s : St} (R : Reach c s) (hm : Mono c.ts) (hma : c.minAge = true)
    (h0 : s.chain.fork = 0) : ∀ n, n < effFloor s → c.ts n < s.cutoff := by
  intro n hn
  have hc := chain_of_reach_fork0 R h0
  have := age_of_reach_forks R hm (fun f a b => by rw [h0] at b; omega) hma (by rw [hc]) (Or.inr (by rw [hc])) n hn
  unfold St.tsAt at this
  simpa [h0] using this

/-! ### The closed form the driver starts long chains from -/

theorem bulk_eq_stores (c : Cfg) : ∀ k, 0 < k → k < 2 ^ 64 →
    let s := run c St.init (List.replicate k .store)
    s.db.height = some (k - 1) ∧ (∀ i m, s.db.has i m = decide (m < k)) ∧
      (∀ w, s.db.agg w = decide ((w + 1) * numBlocksPerFilter ≤ k)) ∧ s.db.l1 = none ∧
      s.mem = St.init.mem ∧ s.job = .idle := by
  have run_append : ∀ (l1 l2 : List Op) (s : St), run c s (l1 ++ l2) = run c (run c s l1) l2 := by
    intro l1; induction l1 with
    | nil => intro l2 s; rfl
    | cons op l ih => intro l2 s; simp only [List.cons_append, run]; exact ih l2 _
  intro k
  induction k with
  | zero => intro h; omega
  | succ k ih =>
    intro _ hlt
    have hrep : List.replicate (k + 1) Op.store = List.replicate k Op.store ++ [Op.store] := by
      rw [List.replicate_succ']
    simp only [hrep, run_append, run]
    by_cases hk : k = 0
    · subst hk
      simp only [List.replicate, run, step, St.init, Db.empty, storeBlock]
      refine ⟨by first | rfl | trivial, ?_, ?_, by first | rfl | trivial, by first | rfl | trivial,
        by first | rfl | trivial⟩
      · intro i m
        rw [Bool.eq_iff_iff]
        simp only [Bool.or_eq_true, beq_iff_eq, decide_eq_true_eq, Bool.false_eq_true, or_false]
        omega
      · intro w
        rw [Bool.eq_iff_iff]
        unfold numBlocksPerFilter
        simp only [Bool.or_eq_true, Bool.and_eq_true, beq_iff_eq, decide_eq_true_eq, Bool.false_eq_true, or_false]
        omega
    · obtain ⟨e1, e2, e3, e4, e5, e6⟩ := ih (by omega) (by omega)
      have hhdr : (run c St.init (List.replicate k Op.store)).db.has .hdr (k - 1) = true := by
        rw [e2]; simp; omega
      simp only [step, e1, hhdr, if_true, storeBlock]
      have hk1 : k - 1 + 1 = k := by omega
      refine ⟨by simp [hk1], ?_, ?_, e4, e5, e6⟩
      · intro i m
        rw [Bool.eq_iff_iff]
        simp only [e2, hk1, Bool.or_eq_true, beq_iff_eq, decide_eq_true_eq]
        omega
      · intro w
        rw [Bool.eq_iff_iff]
        simp only [e3, hk1, Bool.or_eq_true, Bool.and_eq_true, beq_iff_eq, decide_eq_true_eq]
        unfold numBlocksPerFilter
        omega

/-! ### Whole histories -/

/-- Every step of the history is legal (as a proposition). -/
def LegalRun (c : Cfg) : St → List Op → Prop
  | _, [] => True
  | s, op :: ops => Legal c s op ∧ LegalRun c (step c s op).1 ops

/-- The highest floor any event of the history allowed. -/
def maxAllowed (c : Cfg) : St → List Op → Nat
  | _, [] => 0
  | s, op :: ops => max (allowed c s op) (maxAllowed c (step c s op).1 ops)

theorem reach_of_legalRun {c : Cfg} : ∀ (ops : List Op) (s : St), Reach c s → LegalRun c s ops → Reach c (run c s ops)
  | [], _, R, _ => R
  | op :: ops, _, R, L => reach_of_legalRun ops _ (Reach.step op R L.1) L.2

theorem floor_run_le {c : Cfg} : ∀ (ops : List Op) (s : St), Reach c s → LegalRun c s ops →
    effFloor (run c s ops) ≤ max (effFloor s) (maxAllowed c s ops) ∧ lo s.db ≤ lo (run c s ops).db
  | [], _, _, _ => ⟨by simp [run, maxAllowed], Nat.le_refl _⟩
  | op :: ops, s, R, L => by
    have f := step_facts op (inv_reach R) L.1
    have ih := floor_run_le ops _ (Reach.step op R L.1) L.2
    have h1 := f.floorLe
    have h2 := f.loMono
    simp only [run, maxAllowed]
    exact ⟨by omega, by omega⟩

/-- The highest `head - retained` seen along the history (at the moments its operations were taken). -/
def maxHeadBound (c : Cfg) : St → List Op → Nat
  | _, [] => 0
  | s, op :: ops => max (headBound c s) (maxHeadBound c (step c s op).1 ops)

/-! ### A decidable version of `Legal`, to exhibit concrete reachable states -/

def legalB (c : Cfg) (s : St) : Op → Bool
  | .store => match s.db.height with | none => true | some h => decide (h + 1 < 2 ^ 64)
  | .revert => match s.db.height with | none => false | some h => decide (effFloor s < h)
  | .evL1 _ => decide (s.mem.floorState ≠ 0)
  | .evL2 n => decide (s.mem.floorState ≠ 0) &&
      (c.l2Clamps || (match s.db.height with | none => false | some h => decide (n.toNat ≤ h)))
  | .crash _ | .fail => match s.job with | .idle => true | .run _ _ _ first => c.fixed || first
  | .migrate u =>
    (match s.job with | .idle => true | _ => false) && (!u || c.migSkipsMissing) &&
    (match s.db.height, s.db.l1 with
     | some h, some l1 =>
       match migKeep c h l1 (migMinAgeFloor (s.tsAt c) h l1 s.cutoff) with
       | some keep => (decide (0 < keep.toNat) || c.migZeroNoop) && decide (max (lo s.db) s.mem.keepMax ≤ keep.toNat)
       | none => true
     | _, _ => true)
  | _ => true

theorem legal_of_legalB {c : Cfg} {s : St} {op : Op} (h : legalB c s op = true) : Legal c s op := by
  cases op <;> simp only [legalB, Legal] at h ⊢
  · intro hh e; rw [e] at h; simpa using h
  · cases e : s.db.height with
    | none => rw [e] at h; cases h
    | some hh => rw [e] at h; exact ⟨hh, rfl, by simpa using h⟩
  · simpa using h
  · simp only [Bool.and_eq_true, Bool.or_eq_true, decide_eq_true_eq] at h
    refine ⟨h.1, ?_⟩
    rcases h.2 with h2 | h2
    · exact Or.inl h2
    · cases e : s.db.height with
      | none => rw [e] at h2; cases h2
      | some hh => rw [e] at h2; exact Or.inr ⟨hh, rfl, by simpa using h2⟩
  · cases e : s.job with
    | idle => trivial
    | run a b d f => rw [e] at h; simpa [interruptible] using h
  · cases e : s.job with
    | idle => trivial
    | run a b d f => rw [e] at h; simpa [interruptible] using h
  · rename_i u
    simp only [Bool.and_eq_true] at h
    obtain ⟨⟨hj, hu⟩, hrest⟩ := h
    refine ⟨?_, ?_, ?_⟩
    · cases e : s.job with
      | idle => rfl
      | run a b d f => rw [e] at hj; cases hj
    · intro hu'; subst hu'; simpa using hu
    · intro hh l1 keep e1 e2 e3
      rw [e1, e2] at hrest
      simp only [e3, Bool.and_eq_true, Bool.or_eq_true, decide_eq_true_eq] at hrest
      exact hrest

/-- Every step of the history is legal. -/
def runLegalB (c : Cfg) : St → List Op → Bool
  | _, [] => true
  | s, op :: ops => legalB c s op && runLegalB c (step c s op).1 ops

theorem reach_run {c : Cfg} {s : St} (R : Reach c s) : ∀ ops, runLegalB c s ops = true → Reach c (run c s ops)
  | [], _ => R
  | op :: ops, h => by
    simp only [runLegalB, Bool.and_eq_true] at h
    exact reach_run (Reach.step op R (legal_of_legalB h.1)) ops h.2

end Juno.C16
