import JunoModel.Common.Proto
import JunoModel.C16.Model
import JunoModel.C16.ModelMig
import JunoModel.C16.ModelMigStep
/-! Line-protocol driver for the C16 model (`lake build c16drv`).

State-changing requests (answer = `Out` of the model step):
  cfg <retained> <l2PerPrune> <minAge 0|1> <legacy 0|1> <fixed 0|1> <migSkipsMissing 0|1> <migZeroNoop 0|1> <l2Clamps 0|1> <readerGuard 0|1> <sampleChecked 0|1>
                     reset to the empty node with this configuration (block timestamps all 0)
  ts <t0> <t1> ...   the chain the network offers from now on has these header timestamps (blocks 0, 1, ...; beyond
                     the list: the last one): `Op.fork` to a fork of the configuration that carries them. The blocks
                     the node has stored keep the timestamps they were stored with (the harness sends the same
                     values for them); sent before the first store and whenever the chain grows or is reorganised
  clock <t>          the wall clock minus the minimum age is now t (it only advances: `advance (t - cutoff)`)
  bulk <k>           the node after k stores on the empty database, in closed form
  agg <w>            is the aggregated bloom filter of window w persisted (1/0)
  has <n>            store level: which entry families of block n exist, 8 bits: hdr h2n comm su txs txl l1m hist
  store | revert | writel1 <n> | evl1 <n> | evl2 <n> | flush <k> | finish | fail | crash <seed 0|1> | tick | migrate <unchangedSlot 0|1>
Observations:
  q <query> <n>      answer of the node about block n: ok | notfound | pruned | stale <m>
  held <num|hash> <b>   a historical reader opened earlier for block b, read now
  lu <num|hash|head> <w> <n>   ContractStorageLastUpdatedBlock of a slot last written at block w: ok | lost | notfound
  migfloor           the migration's own min-age floor (FindOldestBlockAtOrAfter(0, pivot, cutoff)); - = none
  head               head state
  info               height l1 floorState pending sampled job oldest
  migstep <k> <h> <marker 0|1> <orig bits 0..h> <op> ...   the small-step model of the migration's resume bookkeeping
                     (ModelMigStep.lean) run from a never-migrated node; ops: start | s<n> (stage) | cs<r> (cancelStager) |
                     sd (stagerDone) | r<n> (restore) | cr<r> (cancelRestorer) | rd (restorerDone) | rec | kill;
                     answer: <done> <live bits 0..h> <scratch bits 0..h> <mark> <tok.1>,<tok.2>
Pure functions (decimal in, decimal out):
  hdrend <e> | aggend <e> | find <lower> <upper> <cutoff> <ts_lower> ... <ts_upper>
All numbers are decimal. -/
open Juno.Proto Juno.C16

structure DSt where
  cfg : Cfg
  st : St

def initD : DSt := { cfg := { retained := 0, l2PerPrune := 1, minAge := false, legacy := true, fixed := false }, st := St.init }

def nat? (s : String) : Option Nat := s.toNat?
def u64? (s : String) : Option UInt64 := (s.toNat?).bind fun n => if n < 2^64 then some (UInt64.ofNat n) else none
def bool? (s : String) : Option Bool := if s == "1" then some true else if s == "0" then some false else none

def showOut : Out → String
  | .ok => "ok"
  | .noop => "noop"
  | .err => "err"
  | .bad => "bad"
  | .started s => s!"started {s}"
  | .done p o => s!"done {p} {o}"

def showAns : Ans → String
  | .ok => "ok"
  | .notfound => "notfound"
  | .pruned => "pruned"
  | .stale m => s!"stale {m}"
  | .lost => "lost"

def q? : String → Option Q
  | "headerByNumber" => some .headerByNumber
  | "blockByNumber" => some .blockByNumber
  | "numberByHash" => some .numberByHash
  | "headerByHash" => some .headerByHash
  | "blockByHash" => some .blockByHash
  | "stateUpdateByNumber" => some .stateUpdateByNumber
  | "stateUpdateByHash" => some .stateUpdateByHash
  | "commitments" => some .commitments
  | "txsByNumber" => some .txsByNumber
  | "txAndReceiptByIndex" => some .txAndReceiptByIndex
  | "txLookup" => some .txLookup
  | "txByHash" => some .txByHash
  | "receiptByHash" => some .receiptByHash
  | "l1HandlerMsg" => some .l1HandlerMsg
  | "requireRetained" => some .requireRetained
  | "eventsFrom" => some .eventsFrom
  | "stateAtNumber" => some .stateAtNumber
  | "stateAtHash" => some .stateAtHash
  | _ => none

def showOptNat : Option Nat → String
  | none => "-"
  | some n => toString n

def showJob : Job → String
  | .idle => "idle"
  | .run s e c f => s!"run:{s}:{e}:{c}:{if f then 1 else 0}"

def doOp (d : DSt) (op : Op) : DSt × String :=
  let (s', o) := step d.cfg d.st op
  ({ d with st := s' }, showOut o)

def listGet (l : List Nat) (i : Nat) : Nat := (l[i]?).getD 0

/-- hkey / skey <storage|nonce|classHash> <addr hex32> <slot hex32 | -> <block decimal>: the history / scratch key bytes -/
def keyBytes (scratch : Bool) (kind addr slot blk : String) : String :=
  let kind? : Option Mig.HKind := match kind with
    | "storage" => some .storage | "nonce" => some .nonce | "classHash" => some .classHash | _ => none
  match kind?, hexToBytes? addr, hexToBytes? slot, nat? blk with
  | some kd, some a, some sl, some b =>
    let be : List UInt8 := (List.range 8).map fun i => UInt8.ofNat ((b >>> (8 * (7 - i))) % 256)
    let key : Mig.HKey := ⟨kd, a, sl, be⟩
    bytesToHex (if scratch then Mig.scratchKey key else Mig.historyKey key)
  | _, _, _, _ => "bad-op"

def migOp? (w : String) : Option MigStep.Op :=
  if w == "start" then some .start
  else if w == "sd" then some .stagerDone
  else if w == "rd" then some .restorerDone
  else if w == "rec" then some .record
  else if w == "kill" then some .kill
  else if w.startsWith "cs" then (nat? (String.mk (w.toList.drop 2))).map .cancelStager
  else if w.startsWith "cr" then (nat? (String.mk (w.toList.drop 2))).map .cancelRestorer
  else if w.startsWith "s" then (nat? (String.mk (w.toList.drop 1))).map .stage
  else if w.startsWith "r" then (nat? (String.mk (w.toList.drop 1))).map .restore
  else none

def bits (f : Nat → Bool) (n : Nat) : String :=
  String.mk ((List.range n).map fun i => if f i then '1' else '0')

def migStepLine (k h mk orig : String) (ops : List String) : String :=
  match nat? k, nat? h, bool? mk, ops.mapM migOp? with
  | some k, some h, some mk, some ops =>
    if orig.length = h + 1 ∧ orig.all (fun ch => ch == '0' || ch == '1') then
      let o : Nat → Bool := fun n => (orig.toList[n]?).getD '0' == '1'
      let c : MigStep.Cfg := { k := k, h := h, marker := mk }
      let s := MigStep.run c (MigStep.init o) ops
      s!"{if s.done then 1 else 0} {bits s.live (h + 1)} {bits s.scratch (h + 1)} {if s.mark then 1 else 0} {s.tok.1},{s.tok.2}"
    else "bad-op"
  | _, _, _, _ => "bad-op"

def stepLine (d : DSt) (line : String) : DSt × String :=
  match words line with
  | "migstep" :: k :: h :: mk :: orig :: ops => (d, migStepLine k h mk orig ops)
  | ["cfg", r, l, m, lg, fx, ms, mz, cl, rg, sc] =>
    match u64? r, u64? l, bool? m, bool? lg, bool? fx, bool? ms, bool? mz, bool? cl, bool? rg with
    | some r, some l, some m, some lg, some fx, some ms, some mz, some cl, some rg =>
      match bool? sc with
      | some sc =>
        ({ cfg := { retained := r, l2PerPrune := l, minAge := m, legacy := lg, fixed := fx,
                    migSkipsMissing := ms, migZeroNoop := mz, l2Clamps := cl, readerGuard := rg, sampleChecked := sc },
           st := St.init }, "ok")
      | none => (d, "bad-op")
    | _, _, _, _, _, _, _, _, _ => (d, "bad-op")
  | "ts" :: tss =>
    match tss.mapM nat? with
    | some l =>
      let arr := l.toArray
      let last := arr.back?.getD 0
      let f := d.st.chain.fork + 1
      let old := d.cfg.forkTs
      doOp { d with cfg := { d.cfg with forkTs := fun g n => if g = f then arr.getD n last else old g n } } .fork
    | none => (d, "bad-op")
  | ["clock", t] =>
    match nat? t with
    | some t => if d.st.cutoff ≤ t then doOp d (.advance (t - d.st.cutoff)) else (d, "bad-op")
    | none => (d, "bad-op")
  | ["tick"] => doOp d .tick
  | ["held", how, b] =>
    match nat? b with
    | some b =>
      if how == "num" then (d, showAns (heldRead d.cfg d.st false b))
      else if how == "hash" then (d, showAns (heldRead d.cfg d.st true b))
      else (d, "bad-op")
    | none => (d, "bad-op")
  | ["migfloor"] =>
    match d.st.db.height, d.st.db.l1 with
    | some h, some l1 => (d, showOptNat ((migMinAgeFloor (d.st.tsAt d.cfg) h l1 d.st.cutoff).map (·.toNat)))
    | _, _ => (d, "-")
  | ["bulk", k] =>
    -- the node after k stores on the empty database (Props.bulk_is_k_stores), in closed form
    match nat? k with
    | some k => if 0 < k then ({ d with st := { St.init with db := Db.bulk k } }, "ok") else (d, "bad-op")
    | none => (d, "bad-op")
  | ["has", n] =>
    -- store level: which entry families of block n are in the database (hdr h2n comm su txs txl l1m hist)
    match nat? n with
    | some n =>
      let fams : List Bk := [.hdr, .h2n, .comm, .su, .txs, .txl, .l1m, .hist]
      (d, String.mk (fams.map fun i => if d.st.db.has i n then '1' else '0'))
    | none => (d, "bad-op")
  | ["agg", w] =>
    match nat? w with
    | some w => (d, if d.st.db.agg w then "1" else "0")
    | none => (d, "bad-op")
  | ["hkey", kind, addr, slot, blk] => (d, keyBytes false kind addr slot blk)
  | ["skey", kind, addr, slot, blk] => (d, keyBytes true kind addr slot blk)
  | ["store"] => doOp d .store
  | ["revert"] => doOp d .revert
  | ["writel1", n] => match u64? n with | some n => doOp d (.writeL1 n) | none => (d, "bad-op")
  | ["evl1", n] => match u64? n with | some n => doOp d (.evL1 n) | none => (d, "bad-op")
  | ["evl2", n] => match u64? n with | some n => doOp d (.evL2 n) | none => (d, "bad-op")
  | ["flush", k] => match nat? k with | some k => doOp d (.flush k) | none => (d, "bad-op")
  | ["finish"] => doOp d .finish
  | ["fail"] => doOp d .fail
  | ["crash", s] => match bool? s with | some s => doOp d (.crash s) | none => (d, "bad-op")
  | ["migrate", u] => match bool? u with | some u => doOp d (.migrate u) | none => (d, "bad-op")
  | ["q", q, n] =>
    match q? q, nat? n with
    | some q, some n => (d, showAns (answer d.cfg d.st q n))
    | _, _ => (d, "bad-op")
  | ["head"] => (d, showAns (headState d.cfg d.st))
  | ["lu", how, w, n] =>
    -- ContractStorageLastUpdatedBlock of a slot last written at block w, read through num|hash|head at block n
    match nat? w, nat? n with
    | some w, some n =>
      if how == "num" then (d, showAns (lastUpdAtNumber d.cfg d.st w n))
      else if how == "hash" then (d, showAns (lastUpdAtHash d.cfg d.st w n))
      else if how == "head" then (d, showAns (lastUpdAtHead d.cfg d.st w))
      else (d, "bad-op")
    | _, _ => (d, "bad-op")
  | ["info"] =>
    let s := d.st
    (d, s!"{showOptNat s.db.height} {showOptNat (s.db.l1.map (·.toNat))} {s.mem.floorState.toNat} {s.mem.pending.toNat} {s.mem.sampled.toNat} {showJob s.job} {showOptNat (oldest s.db)}")
  | ["hdrend", e] =>
    match u64? e with
    | some e => (d, toString (headerEnd64 e).toNat)
    | none => (d, "bad-op")
  | ["aggend", e] =>
    match nat? e with
    | some e => (d, showOptNat (aggEnd e))
    | none => (d, "bad-op")
  | "find" :: lo :: up :: cut :: tss =>
    match nat? lo, nat? up, nat? cut, tss.mapM nat? with
    | some lo, some up, some cut, some tss =>
      if lo ≤ up + 1 ∧ tss.length = up + 1 - lo then
        (d, showOptNat (findOldestAtOrAfter (fun n => listGet tss (n - lo)) lo up cut))
      else (d, "bad-op")
    | _, _, _, _ => (d, "bad-op")
  | _ => (d, "bad-op")

def main : IO Unit := loop stepLine initD
