import JunoModel.C16.Model
/-!
C16 — helper lemmas, part 1: the `uint64` floor arithmetic of the pruner (guards and subtractions),
`RetentionFloor`, the header carve-out bound, the bloom-window bound and the min-age binary search.
-/
namespace Juno.C16

theorem umin_toNat (a b : UInt64) : (umin a b).toNat = min a.toNat b.toNat := by
  unfold umin; split <;> rename_i h <;> simp [UInt64.le_iff_toNat_le] at h <;> omega

theorem umax_toNat (a b : UInt64) : (umax a b).toNat = max a.toNat b.toNat := by
  unfold umax; split <;> rename_i h <;> simp [UInt64.le_iff_toNat_le] at h <;> omega

theorem applyTimeFloor_le (c : Cfg) (s f : UInt64) : (applyTimeFloor c s f).toNat ≤ f.toNat := by
  unfold applyTimeFloor; split
  · rw [umin_toNat]; omega
  · omega

theorem applyTimeFloor_le_sampled (c : Cfg) (s f : UInt64) (hm : c.minAge = true) :
    (applyTimeFloor c s f).toNat ≤ s.toNat := by
  unfold applyTimeFloor; simp [hm, umin_toNat]; omega

/-- `onNewL1Head`: if the guards let the event through, the retention window does not underflow, the L1
head is strictly below the chain height and the target is at most `l1 - retained`. -/
theorem l1Keep_bound (c : Cfg) (sampled : UInt64) (h : Nat) (l1 k : UInt64)
    (hk : l1Keep c sampled h l1 = some k) :
    c.retained.toNat ≤ l1.toNat ∧ l1.toNat < h ∧ k.toNat ≤ l1.toNat - c.retained.toNat := by
  unfold l1Keep at hk
  split at hk
  · simp at hk
  · rename_i hg
    simp only [Bool.or_eq_true, decide_eq_true_eq, not_or, Nat.not_le] at hg
    have h2 : c.retained ≤ l1 := by
      have := hg.2
      simp [UInt64.lt_iff_toNat_lt, UInt64.le_iff_toNat_le] at this ⊢; omega
    have hs := UInt64.toNat_sub_of_le l1 c.retained h2
    simp at hk
    subst hk
    refine ⟨by simpa [UInt64.le_iff_toNat_le] using h2, hg.1, ?_⟩
    have := applyTimeFloor_le c sampled (l1 - c.retained)
    omega

theorem l1Keep_minAge (c : Cfg) (sampled : UInt64) (h : Nat) (l1 k : UInt64) (hm : c.minAge = true)
    (hk : l1Keep c sampled h l1 = some k) : k.toNat ≤ sampled.toNat := by
  unfold l1Keep at hk
  split at hk
  · simp at hk
  · simp at hk; subst hk; exact applyTimeFloor_le_sampled c _ _ hm

/-- `onNewBlock`: if the guards let the event through, `block.Number - retained` does not underflow, the
block is strictly below the recorded L1 head and the target is at most `block.Number - retained`. -/
theorem l2Keep_bound (c : Cfg) (sampled l1 n : UInt64) (within : Bool)
    (hg : l2Guard c l1 n = false) :
    c.retained.toNat ≤ n.toNat ∧ n.toNat < l1.toNat ∧
      (l2Keep c sampled n within).toNat ≤ n.toNat - c.retained.toNat := by
  unfold l2Guard at hg
  simp only [Bool.or_eq_false_iff, decide_eq_false_iff_not] at hg
  have h1 : n.toNat < l1.toNat := by
    have := hg.1; simp [UInt64.le_iff_toNat_le] at this; omega
  have h2 : c.retained ≤ n := by
    have := hg.2; simp [UInt64.lt_iff_toNat_lt, UInt64.le_iff_toNat_le] at this ⊢; omega
  have hs := UInt64.toNat_sub_of_le n c.retained h2
  refine ⟨by simpa [UInt64.le_iff_toNat_le] using h2, h1, ?_⟩
  unfold l2Keep
  simp only
  split
  · have := applyTimeFloor_le c sampled (n - c.retained); omega
  · omega

theorem l2Keep_minAge (c : Cfg) (sampled n : UInt64) (hm : c.minAge = true) :
    (l2Keep c sampled n true).toNat ≤ sampled.toNat := by
  unfold l2Keep; simp [hm]; exact applyTimeFloor_le_sampled c _ _ hm

/-- `historyprunner.Migrate`: if the guard lets the migration run, `pivot - retained` did not underflow and
the cut-off is at most `min(l1, head) - retained` (also with the min-age floor). -/
theorem migKeep_bound (c : Cfg) (h : Nat) (hh : h < 2 ^ 64) (l1 : UInt64) (mf : Option UInt64) (k : UInt64)
    (hk : migKeep c h l1 mf = some k) :
    c.retained.toNat ≤ min l1.toNat h ∧ k.toNat ≤ min l1.toNat h - c.retained.toNat := by
  unfold migKeep at hk
  simp only at hk
  have hp : (if l1.toNat ≤ h then l1 else UInt64.ofNat h).toNat = min l1.toNat h := by
    split
    · omega
    · rw [UInt64.toNat_ofNat']; omega
  generalize (if l1.toNat ≤ h then l1 else UInt64.ofNat h) = pivot at hk hp
  split at hk
  · cases hk
  · rename_i hg
    have h2 : c.retained ≤ pivot := by
      simp [UInt64.lt_iff_toNat_lt, UInt64.le_iff_toNat_le] at hg ⊢; omega
    have hs := UInt64.toNat_sub_of_le pivot c.retained h2
    have h2' : c.retained.toNat ≤ pivot.toNat := by simpa [UInt64.le_iff_toNat_le] using h2
    refine ⟨by omega, ?_⟩
    split at hk
    · split at hk
      · simp at hk; subst hk; omega
      · simp at hk; subst hk; rw [umin_toNat]; omega
    · simp at hk; subst hk; omega

/-- `raiseTo` never lowers the state word. -/
theorem raiseTo_ge (st f : UInt64) (hf : f.toNat + 1 < 2 ^ 64) : st.toNat ≤ (raiseTo st f).toNat := by
  unfold raiseTo
  split
  · omega
  · rename_i h
    have : (f + 1).toNat = f.toNat + 1 := by
      rw [UInt64.toNat_add]; simp; omega
    simp [UInt64.le_iff_toNat_le] at h; omega

theorem raiseTo_toNat (st f : UInt64) (hf : f.toNat + 1 < 2 ^ 64) :
    (raiseTo st f).toNat = max st.toNat (f.toNat + 1) := by
  unfold raiseTo
  have : (f + 1).toNat = f.toNat + 1 := by
    rw [UInt64.toNat_add]; simp; omega
  split
  · rename_i h; simp [UInt64.le_iff_toNat_le] at h; omega
  · rename_i h; simp [UInt64.le_iff_toNat_le] at h; omega

/-- `pruneUpto` raises the shared floor to exactly `max(state, keep)` (state word = floor+1): no
underflow for `keep = 0` (guarded), no overflow. -/
theorem raiseForPrune_toNat (st keep : UInt64) :
    (raiseForPrune st keep).toNat = if keep.toNat = 0 then st.toNat else max st.toNat keep.toNat := by
  unfold raiseForPrune
  by_cases hk : keep > 0
  · have hk' : 0 < keep.toNat := by simpa [UInt64.lt_iff_toNat_lt] using hk
    have h1 : (1 : UInt64) ≤ keep := by simp [UInt64.le_iff_toNat_le]; omega
    have hs : (keep - 1).toNat = keep.toNat - 1 := by
      have := UInt64.toNat_sub_of_le keep 1 h1; simpa using this
    have hlt := keep.toNat_lt
    simp only [hk, if_true]
    rw [raiseTo_toNat _ _ (by omega)]
    have : ¬ keep.toNat = 0 := by omega
    simp [this]; omega
  · have hk' : keep.toNat = 0 := by
      simp [UInt64.lt_iff_toNat_lt] at hk; omega
    simp [hk, hk']

/-- `Seed` on a fresh (`0`) floor: `state = max(oldest, 1)`, i.e. floor = `max(oldest,1) - 1`. -/
theorem seedState_zero (o : UInt64) : (seedState 0 o).toNat = max o.toNat 1 := by
  unfold seedState
  have hm := umax_toNat o 1
  have h1 : (1 : UInt64) ≤ umax o 1 := by simp [UInt64.le_iff_toNat_le, hm]; omega
  have hs : (umax o 1 - 1).toNat = (umax o 1).toNat - 1 := by
    have := UInt64.toNat_sub_of_le (umax o 1) 1 h1; simpa using this
  have hlt := (umax o 1).toNat_lt
  rw [raiseTo_toNat _ _ (by omega)]
  simp at hm ⊢; omega

theorem headerEnd_le (e : Nat) : headerEnd e ≤ e := by
  unfold headerEnd; split <;> omega

/-- The header carve-out: a header is deleted by `PruneBlockDataUpto(e)` iff it is at least
`BlockHashLag` below `e`. -/
theorem lt_headerEnd_iff (m e : Nat) : m < headerEnd e ↔ m + blockHashLag < e := by
  unfold headerEnd; split <;> omega

/-- The `uint64` code of the carve-out (`if e > lag { e - lag }`) computes the same bound: the guard
prevents the underflow. -/
theorem headerEnd64_toNat (e : UInt64) : (headerEnd64 e).toNat = headerEnd e.toNat := by
  unfold headerEnd64 headerEnd blockHashLag
  by_cases h : e > UInt64.ofNat 10
  · have h' : 10 < e.toNat := by simpa [UInt64.lt_iff_toNat_lt] using h
    have hle : UInt64.ofNat 10 ≤ e := by simp [UInt64.le_iff_toNat_le]; omega
    have := UInt64.toNat_sub_of_le e (UInt64.ofNat 10) hle
    simp only [h, if_true, this]
    simp [h']
  · have h' : ¬ 10 < e.toNat := by simpa [UInt64.lt_iff_toNat_lt] using h
    have h2 : ¬ ((10 : UInt64) < e) := by simp [UInt64.lt_iff_toNat_lt]; omega
    simp [h2, h']

/-- Aggregated bloom filters: only windows that end below `rangeEnd` are deleted — the window that
contains `rangeEnd` (and every later one) is kept. -/
theorem aggEnd_spec (e a : Nat) (h : aggEnd e = some a) :
    a ≤ e ∧ a % numBlocksPerFilter = 0 ∧ e < a + numBlocksPerFilter := by
  unfold aggEnd at h
  split at h
  · simp at h
  · simp at h; subst h
    have hpos : 0 < numBlocksPerFilter := by decide
    have hm := Nat.mod_lt e hpos
    have hd := Nat.div_add_mod e numBlocksPerFilter
    refine ⟨by omega, ?_, by omega⟩
    have : e - e % numBlocksPerFilter = numBlocksPerFilter * (e / numBlocksPerFilter) := by omega
    rw [this]; exact Nat.mul_mod_right _ _

/-! ### The min-age binary search -/

/-- Timestamps never decrease along the chain. -/
def Mono (ts : Nat → Nat) : Prop := ∀ i j, i ≤ j → ts i ≤ ts j

theorem findOldestLoop_spec (ts : Nat → Nat) (cutoff : Nat) (hm : Mono ts) :
    ∀ fuel low high, low ≤ high → high - low < fuel → (∀ i, i < low → ts i < cutoff) →
      let r := findOldestLoop ts cutoff fuel low high
      low ≤ r ∧ r ≤ high ∧ (∀ i, i < r → ts i < cutoff) ∧ (r < high → cutoff ≤ ts r) := by
  intro fuel
  induction fuel with
  | zero => intro low high _ h; omega
  | succ fuel ih =>
    intro low high hle hf hlow
    simp only [findOldestLoop]
    by_cases hlt : low < high
    · simp only [hlt, if_true]
      by_cases hts : ts (low + (high - low) / 2) < cutoff
      · simp only [hts, if_true]
        have hmid : low + (high - low) / 2 < high := by omega
        have := ih (low + (high - low) / 2 + 1) high (by omega) (by omega)
          (by
            intro i hi
            by_cases h1 : i < low
            · exact hlow i h1
            · have := hm i (low + (high - low) / 2) (by omega); omega)
        simp only at this
        obtain ⟨a, b, c, d⟩ := this
        exact ⟨by omega, b, c, d⟩
      · simp only [hts, if_false]
        have := ih low (low + (high - low) / 2) (by omega) (by omega) hlow
        simp only at this
        obtain ⟨a, b, c, d⟩ := this
        refine ⟨a, by omega, c, ?_⟩
        intro hr
        by_cases h2 : findOldestLoop ts cutoff fuel low (low + (high - low) / 2) < low + (high - low) / 2
        · exact d h2
        · have : findOldestLoop ts cutoff fuel low (low + (high - low) / 2) = low + (high - low) / 2 := by omega
          rw [this]; omega
    · simp only [hlt, if_false]
      exact ⟨by omega, by omega, hlow, by intro hh; first | exact hh.elim | omega⟩

/-- `FindOldestBlockAtOrAfter` on non-decreasing timestamps returns the LOWEST block of the window whose
timestamp is at or after the cut-off, and reports `ErrNoBlockInWindow` exactly when there is none. -/
theorem findOldest_spec (ts : Nat → Nat) (lower upper cutoff : Nat) (hm : Mono ts)
    (hbelow : ∀ i, i < lower → ts i < cutoff) :
    match findOldestAtOrAfter ts lower upper cutoff with
    | some r => lower ≤ r ∧ r ≤ upper ∧ cutoff ≤ ts r ∧ ∀ i, i < r → ts i < cutoff
    | none => ∀ i, i ≤ upper → ts i < cutoff := by
  unfold findOldestAtOrAfter
  by_cases h : lower > upper
  · simp only [h, if_true]
    intro i hi; exact hbelow i (by omega)
  · simp only [h, if_false]
    have := findOldestLoop_spec ts cutoff hm (upper + 1 - lower + 1) lower (upper + 1) (by omega) (by omega)
      hbelow
    simp only at this
    obtain ⟨a, b, c, d⟩ := this
    by_cases h2 : findOldestLoop ts cutoff (upper + 1 - lower + 1) lower (upper + 1) > upper
    · simp only [h2, if_true]
      intro i hi; exact c i (by omega)
    · simp only [h2, if_false]
      exact ⟨a, by omega, d (by omega), c⟩

end Juno.C16
