import JunoModel.C16.Proofs
/-!
C16 — helper lemmas, part 2: the invariant of the node model and its preservation by every legal
operation (store, revert, L1 head, both pruner events, every batch write of a prune, end of a prune,
write error, crash + restart, min-age sample).
-/
namespace Juno.C16

/-! ### `List.find?` over `List.range` -/

theorem find_range_some (p : Nat → Bool) : ∀ (n a : Nat), a < n → p a = true → (∀ m, m < a → p m = false) →
    (List.range n).find? p = some a := by
  intro n
  induction n with
  | zero => intro a h; omega
  | succ n ih =>
    intro a ha hp hlow
    rw [List.range_succ, List.find?_append]
    by_cases h : a < n
    · rw [ih a h hp hlow]; rfl
    · have : a = n := by omega
      subst this
      have hnone : (List.range a).find? p = none := by
        rw [List.find?_eq_none]
        intro x hx
        have := List.mem_range.mp hx
        simp [hlow x this]
      rw [hnone]; simp [hp]

theorem find_range_none (p : Nat → Bool) (n : Nat) (h : ∀ m, m < n → p m = false) :
    (List.range n).find? p = none := by
  rw [List.find?_eq_none]
  intro x hx
  have := List.mem_range.mp hx
  simp [h x this]

/-! ### The invariant -/

/-- Blocks whose hash-keyed entries the ORIGINAL prune procedure has already deleted while the
retention probe (commitments) still finds them. Always empty for the repaired procedure. -/
def dirty (c : Cfg) : Job → Nat → Bool
  | .idle, _ => false
  | .run start _ cur _, n => !c.fixed && decide (start ≤ n) && decide (n < cur)

/-- Where hash→number mappings may still exist, relative to the durable floor `a`. -/
def h2nOk (c : Cfg) : Job → Nat → Nat → Prop
  | .idle, a, b => a ≤ b + 1
  | .run start end_ cur first, a, b =>
    if c.fixed then a ≤ b + 1 else (cur ≤ b ∨ b + 1 = end_ ∨ (first = true ∧ b + 1 = start))

def jobOk (c : Cfg) (s : St) (a : Nat) : Prop :=
  match s.job with
  | .idle => True
  | .run start end_ cur first =>
    start ≤ cur ∧ cur ≤ end_ ∧ end_ ≤ s.mem.keepMax ∧ (first = true → cur = start) ∧
      (if c.fixed then a = cur else a = start)

/-- The invariant for a non-empty node with head `h` and durable floor `a`. -/
structure InvA (c : Cfg) (s : St) (h a : Nat) : Prop where
  hlt : h < 2 ^ 64
  ale : a ≤ h
  bounded : ∀ i n, s.db.has i n = true → n ≤ h
  commIff : ∀ n, s.db.has .comm n = true ↔ (a ≤ n ∧ n ≤ h)
  suEq : ∀ n, s.db.has .su n = s.db.has .comm n
  txsEq : ∀ n, s.db.has .txs n = s.db.has .comm n
  hdrKeep : ∀ n, n ≤ h → a ≤ n + 1 → s.db.has .hdr n = true
  keepIn : ∀ n, a ≤ n → n ≤ h → dirty c s.job n = false →
    (s.db.has .h2n n = true ∧ s.db.has .txl n = true ∧ s.db.has .l1m n = true ∧ s.db.has .hist n = true)
  h2nLow : ∀ b, s.db.has .h2n b = true → h2nOk c s.job a b
  carve : c.fixed = true → 0 < a → s.db.has .h2n (a - 1) = true
  jobWf : jobOk c s a
  keepLe : s.mem.keepMax ≤ h
  m1 : s.mem.floorState ≠ 0 → a ≤ s.mem.floorState.toNat ∧ s.mem.keepMax ≤ s.mem.floorState.toNat
  m2 : s.mem.floorState.toNat ≤ max (max a s.mem.keepMax) 1
  m3 : 0 < s.mem.keepMax → s.mem.floorState ≠ 0
  /-- exactly the persisted bloom windows that are complete and not entirely below the durable floor -/
  aggIff : ∀ w, s.db.agg w = true ↔ (a / numBlocksPerFilter ≤ w ∧ (w + 1) * numBlocksPerFilter ≤ h + 1)
  /-- the BlockHashLag window: the headers of the `blockHashLag` blocks below the durable floor survive
  (`get_block_hash` of a block at/above the floor reads the header `blockHashLag` below it) -/
  hdrLag : ∀ n, n ≤ h → a ≤ n + blockHashLag → s.db.has .hdr n = true
  /-- (repaired procedure) below the durable floor the per-transaction lookups, the L1-message lookups and the
  legacy history entries are gone -/
  lowGone : c.fixed = true → ∀ n, n < a →
    (s.db.has .txl n = false ∧ s.db.has .l1m n = false ∧ s.db.has .hist n = false)

/-- The min-age invariant: every block below the floor, and every block below the sample the pruner
keeps, is OLDER than the minimum age (timestamp before the cut-off `now - minAge`). -/
def AgeA (c : Cfg) (s : St) (a : Nat) : Prop :=
  (∀ n, n < max a s.mem.keepMax → s.tsAt c n < s.cutoff) ∧
  (c.sampleChecked = false → ∀ i, i < s.mem.sampled.toNat → s.tsAt c i < s.cutoff)

/-- Timestamps do not decrease along the chain the node follows: the chain as first offered and every fork the
network has switched to so far (`ForksMono`) are non-decreasing (hypotheses on the configuration), and every fork switch so far joined at a block that is not
younger than the first block of the new fork (`Chain.mono`). -/
def ForksMono (c : Cfg) (s : St) : Prop := ∀ f, 1 ≤ f → f ≤ s.chain.fork → Mono (c.forkTs f)

def MonoI (c : Cfg) (s : St) : Prop :=
  Mono c.ts → ForksMono c s → s.chain.mono = true → Mono (s.tsAt c)

/-- The min-age part of the invariant: it needs non-decreasing timestamps, and — for the code in /repo, which
uses the cached sample as it is — that no fork switch put a young block between the head and the cached sample
(`Chain.fresh`); the proposed `refreshStaleSample` (`sampleChecked`) needs no such assumption. -/
def AgeI (c : Cfg) (s : St) (a : Nat) : Prop :=
  Mono c.ts → ForksMono c s → s.chain.mono = true → c.minAge = true →
    (c.sampleChecked = true ∨ s.chain.fresh = true) → AgeA c s a

/-- The invariant. -/
def Inv (c : Cfg) (s : St) : Prop :=
  match s.db.height with
  | none => ((∀ i n, s.db.has i n = false) ∧ ∀ w, s.db.agg w = false) ∧ s.job = .idle ∧ s.mem.keepMax = 0 ∧
      s.mem.floorState.toNat ≤ 1 ∧ s.mem.sampled = 0 ∧ MonoI c s
  | some h => ∃ a, InvA c s h a ∧ (MonoI c s ∧ AgeI c s a)

theorem oldest_of_inv {c : Cfg} {s : St} {h a : Nat} (hh : s.db.height = some h) (I : InvA c s h a) :
    oldest s.db = some a := by
  unfold oldest
  rw [hh]
  apply find_range_some
  · have := I.ale; omega
  · exact (I.commIff a).mpr ⟨Nat.le_refl _, I.ale⟩
  · intro m hm
    cases hc : s.db.has .comm m with
    | false => rfl
    | true => have := (I.commIff m).mp hc; omega

theorem lo_of_inv {c : Cfg} {s : St} {h a : Nat} (hh : s.db.height = some h) (I : InvA c s h a) :
    lo s.db = a := by
  unfold lo; rw [oldest_of_inv hh I]; rfl

theorem oldest_empty {d : Db} (h : d.height = none) : oldest d = none := by
  unfold oldest; rw [h]

/-- Height and commitments alone determine the durable floor. -/
theorem inv_unique {c : Cfg} {s : St} {h a a' : Nat} (hh : s.db.height = some h)
    (I : InvA c s h a) (I' : InvA c s h a') : a = a' := by
  have h1 := oldest_of_inv hh I
  have h2 := oldest_of_inv hh I'
  rw [h1] at h2; exact Option.some.inj h2

/-- For ANY range end, aligned or not: exactly the windows that lie entirely below it are deleted. -/
theorem aggDeleted_iff (e w : Nat) : aggDeleted e w = true ↔ (w + 1) * numBlocksPerFilter ≤ e := by
  unfold aggDeleted aggEnd numBlocksPerFilter
  by_cases h : e < 8192
  · simp only [h, if_true]
    constructor
    · intro hc; cases hc
    · intro hc; omega
  · simp only [h, if_false, decide_eq_true_eq]
    omega

theorem u64_ne_zero_iff (x : UInt64) : x ≠ 0 ↔ x.toNat ≠ 0 := by
  constructor
  · intro h h0; apply h; apply UInt64.toNat_inj.mp; simpa using h0
  · intro h h0; apply h; rw [h0]; rfl

theorem ofNat_toNat_of_lt (n : Nat) (h : n < 2 ^ 64) : (UInt64.ofNat n).toNat = n := by
  simp [UInt64.toNat_ofNat']; omega

/-- Changing only `l1`, `pending`, `sampled` keeps the invariant. -/
theorem InvA.congr {c : Cfg} {s s' : St} {h a : Nat} (I : InvA c s h a)
    (h1 : s'.db.has = s.db.has) (h2 : s'.job = s.job) (h3 : s'.mem.keepMax = s.mem.keepMax)
    (h4 : s'.mem.floorState = s.mem.floorState) (h5 : s'.db.agg = s.db.agg := by rfl) : InvA c s' h a := by
  have hj : jobOk c s' a := by
    have := I.jobWf; unfold jobOk at this ⊢; rw [h2, h3]; exact this
  exact { hlt := I.hlt, ale := I.ale
          bounded := by rw [h1]; exact I.bounded
          commIff := by rw [h1]; exact I.commIff
          suEq := by rw [h1]; exact I.suEq
          txsEq := by rw [h1]; exact I.txsEq
          hdrKeep := by rw [h1]; exact I.hdrKeep
          keepIn := by rw [h1, h2]; exact I.keepIn
          h2nLow := by rw [h1, h2]; exact I.h2nLow
          carve := by rw [h1]; exact I.carve
          jobWf := hj
          keepLe := by rw [h3]; exact I.keepLe
          m1 := by rw [h3, h4]; exact I.m1
          m2 := by rw [h3, h4]; exact I.m2
          m3 := by rw [h3, h4]; exact I.m3
          aggIff := by rw [h5]; exact I.aggIff
          hdrLag := by rw [h1]; exact I.hdrLag
          lowGone := by rw [h1]; exact I.lowGone }

/-! ### store -/

theorem inv_store {c : Cfg} {s : St} {h a : Nat} (hh : s.db.height = some h) (I : InvA c s h a)
    (hL : h + 1 < 2 ^ 64) :
    (step c s .store).2 = .ok ∧ InvA c (step c s .store).1 (h + 1) a ∧
      (step c s .store).1.db.height = some (h + 1) := by
  have hhdr : s.db.has .hdr h = true := I.hdrKeep h (Nat.le_refl _) (by have := I.ale; omega)
  simp only [step, hh, hhdr, if_true]
  refine ⟨by first | rfl | trivial, ?_, by first | rfl | trivial⟩
  have hj := I.jobWf
  constructor
  · exact hL
  · have := I.ale; omega
  · intro i n hn
    simp only [storeBlock, Bool.or_eq_true, beq_iff_eq] at hn
    rcases hn with rfl | hn
    · omega
    · have := I.bounded i n hn; omega
  · intro n
    simp only [storeBlock, Bool.or_eq_true, beq_iff_eq]
    have := I.ale
    constructor
    · rintro (rfl | hn)
      · omega
      · have := (I.commIff n).mp hn; omega
    · intro hn
      by_cases h1 : n = h + 1
      · exact Or.inl h1
      · exact Or.inr ((I.commIff n).mpr (by omega))
  · intro n; simp only [storeBlock, I.suEq n]
  · intro n; simp only [storeBlock, I.txsEq n]
  · intro n hn ha
    simp only [storeBlock, Bool.or_eq_true, beq_iff_eq]
    by_cases h1 : n = h + 1
    · exact Or.inl h1
    · exact Or.inr (I.hdrKeep n (by omega) ha)
  · intro n ha hn hd
    simp only [storeBlock, Bool.or_eq_true, beq_iff_eq]
    by_cases h1 : n = h + 1
    · simp [h1]
    · have := I.keepIn n ha (by omega) hd
      simp [this]
  · intro b hb
    simp only [storeBlock, Bool.or_eq_true, beq_iff_eq] at hb
    rcases hb with rfl | hb
    · have := I.ale
      have := I.keepLe
      unfold jobOk at hj
      cases hjob : s.job with
      | idle => simp only [h2nOk]; omega
      | run st en cu fi =>
        rw [hjob] at hj
        simp only [h2nOk]
        split
        · omega
        · left; omega
    · exact I.h2nLow b hb
  · intro hf ha
    simp only [storeBlock, Bool.or_eq_true, beq_iff_eq]
    exact Or.inr (I.carve hf ha)
  · exact hj
  · have := I.keepLe; show s.mem.keepMax ≤ h + 1; omega
  · exact I.m1
  · exact I.m2
  · exact I.m3
  · intro w
    have := I.aggIff w
    have := I.ale
    simp only [storeBlock, Bool.or_eq_true, Bool.and_eq_true, decide_eq_true_eq, beq_iff_eq]
    unfold numBlocksPerFilter at *
    constructor
    · rintro (⟨h1, h2⟩ | h1)
      · omega
      · have := (I.aggIff w).mp h1; unfold numBlocksPerFilter at this; omega
    · intro h1
      by_cases h2 : (w + 1) * 8192 ≤ h + 1
      · exact Or.inr ((I.aggIff w).mpr (by unfold numBlocksPerFilter; omega))
      · left; omega
  · intro n hn ha
    simp only [storeBlock, Bool.or_eq_true, beq_iff_eq]
    by_cases h1 : n = h + 1
    · exact Or.inl h1
    · exact Or.inr (I.hdrLag n (by omega) ha)
  · intro hf n hn
    have hl := I.lowGone hf n hn
    have := I.ale
    have hne : (n == h + 1) = false := by simp; omega
    simp only [storeBlock, hne, Bool.false_or]; exact hl

theorem inv_store_empty {c : Cfg} {s : St} (hh : s.db.height = none)
    (I : ((∀ i n, s.db.has i n = false) ∧ ∀ w, s.db.agg w = false) ∧ s.job = .idle ∧ s.mem.keepMax = 0 ∧
      s.mem.floorState.toNat ≤ 1) :
    (step c s .store).2 = .ok ∧ InvA c (step c s .store).1 0 0 ∧
      (step c s .store).1.db.height = some 0 := by
  obtain ⟨⟨he, hag⟩, hj, hk, hf⟩ := I
  simp only [step, hh]
  refine ⟨by first | rfl | trivial, ?_, by first | rfl | trivial⟩
  constructor
  · omega
  · omega
  · intro i n hn
    simp only [storeBlock, he, Bool.or_false, beq_iff_eq] at hn; omega
  · intro n
    simp only [storeBlock, he, Bool.or_false, beq_iff_eq]; omega
  · intro n; simp only [storeBlock, he]
  · intro n; simp only [storeBlock, he]
  · intro n hn _
    simp only [storeBlock, he, Bool.or_false, beq_iff_eq]; omega
  · intro n _ hn _
    simp only [storeBlock, he, Bool.or_false, beq_iff_eq]
    have : n = 0 := by omega
    simp [this]
  · intro b _
    show h2nOk c s.job 0 b
    rw [hj]; simp only [h2nOk]; omega
  · intro _ h0; omega
  · show jobOk c _ 0
    unfold jobOk; simp only [hj]
  · show s.mem.keepMax ≤ 0; omega
  · intro _; show 0 ≤ s.mem.floorState.toNat ∧ s.mem.keepMax ≤ s.mem.floorState.toNat; omega
  · show s.mem.floorState.toNat ≤ max (max 0 s.mem.keepMax) 1; omega
  · intro h0; have : 0 < s.mem.keepMax := h0; omega
  · intro w
    simp only [storeBlock, hag, Bool.or_false, Bool.and_eq_true, decide_eq_true_eq, beq_iff_eq]
    unfold numBlocksPerFilter
    omega
  · intro n hn _
    simp only [storeBlock, he, Bool.or_false, beq_iff_eq]; omega
  · intro _ n hn; omega

/-! ### revert -/

theorem inv_revert {c : Cfg} {s : St} {h a : Nat} (hh : s.db.height = some h) (I : InvA c s h a)
    (hL : max a s.mem.keepMax < h) :
    (step c s .revert).2 = .ok ∧ InvA c (step c s .revert).1 (h - 1) a ∧
      (step c s .revert).1.db.height = some (h - 1) := by
  have hj := I.jobWf
  have hcomm : s.db.has .comm h = true := (I.commIff h).mpr ⟨I.ale, Nat.le_refl _⟩
  have hsu : s.db.has .su h = true := by rw [I.suEq]; exact hcomm
  have htxs : s.db.has .txs h = true := by rw [I.txsEq]; exact hcomm
  have hhdr : s.db.has .hdr h = true := I.hdrKeep h (Nat.le_refl _) (by have := I.ale; omega)
  have hnd : dirty c s.job h = false := by
    unfold jobOk at hj
    cases hjob : s.job with
    | idle => rfl
    | run st en cu fi =>
      rw [hjob] at hj
      simp only [dirty, Bool.and_eq_false_iff, decide_eq_false_iff_not]
      right; omega
  have hhist : s.db.has .hist h = true := (I.keepIn h I.ale (Nat.le_refl _) hnd).2.2.2
  have hne : ¬ h = 0 := by omega
  have hflt : revertFilterOk s.db h = true := by
    unfold revertFilterOk
    by_cases hb : (h + 1) % numBlocksPerFilter = 0
    · have := (I.aggIff (h / numBlocksPerFilter)).mpr (by
        have := I.ale; unfold numBlocksPerFilter at *; omega)
      simp [this]
    · simp [hb]
  simp only [step, hh, hsu, hhdr, htxs, hhist, hflt, Bool.and_self, Bool.or_true, if_true, revertBlock, hne, if_false]
  refine ⟨by first | rfl | trivial, ?_, by first | rfl | trivial⟩
  constructor
  · have := I.hlt; omega
  · omega
  · intro i n hn
    simp only [Bool.and_eq_true, bne_iff_ne, ne_eq] at hn
    have := I.bounded i n hn.2; omega
  · intro n
    simp only [Bool.and_eq_true, bne_iff_ne, ne_eq]
    have := I.commIff n
    constructor
    · rintro ⟨h1, h2⟩; have := this.mp h2; omega
    · intro h1; exact ⟨by omega, this.mpr (by omega)⟩
  · intro n; simp only [I.suEq n]
  · intro n; simp only [I.txsEq n]
  · intro n hn ha
    simp only [Bool.and_eq_true, bne_iff_ne, ne_eq]
    exact ⟨by omega, I.hdrKeep n (by omega) ha⟩
  · intro n ha hn hd
    have := I.keepIn n ha (by omega) hd
    have hne' : (n != h) = true := by simp; omega
    simp [this, hne']
  · intro b hb
    simp only [Bool.and_eq_true] at hb
    exact I.h2nLow b hb.2
  · intro hf ha
    have hne' : (a - 1 != h) = true := by simp; omega
    simp only [hne', Bool.true_and]
    exact I.carve hf ha
  · exact hj
  · show s.mem.keepMax ≤ h - 1; omega
  · exact I.m1
  · exact I.m2
  · exact I.m3
  · intro w
    have := I.ale
    show (!(decide ((h + 1) % numBlocksPerFilter = 0) && w == h / numBlocksPerFilter) && s.db.agg w) = true ↔ _
    simp only [Bool.and_eq_true, Bool.not_eq_true', Bool.and_eq_false_iff, decide_eq_false_iff_not,
      beq_eq_false_iff_ne, ne_eq]
    constructor
    · rintro ⟨h1, h2⟩
      have := (I.aggIff w).mp h2
      unfold numBlocksPerFilter at *
      rcases h1 with h1 | h1 <;> omega
    · intro h1
      refine ⟨?_, (I.aggIff w).mpr (by unfold numBlocksPerFilter at *; omega)⟩
      unfold numBlocksPerFilter at *
      by_cases hb : (h + 1) % 8192 = 0
      · right; omega
      · left; exact hb
  · intro n hn ha
    simp only [Bool.and_eq_true, bne_iff_ne, ne_eq]
    exact ⟨by omega, I.hdrLag n (by omega) ha⟩
  · intro hf n hn
    have hl := I.lowGone hf n hn
    simp [hl.1, hl.2.1, hl.2.2]

/-! ### pruneUpto up to the first batch -/

/-- What `startPrune` leaves behind, whichever branch it takes. -/
theorem inv_startPrune {c : Cfg} {s : St} {h a : Nat} (hh : s.db.height = some h) (I : InvA c s h a)
    (hidle : s.job = .idle) (keep : UInt64) (hk : keep.toNat ≤ h) (hseed : s.mem.floorState ≠ 0) :
    InvA c (startPrune s keep).1 h a ∧ (startPrune s keep).1.db = s.db := by
  have hold := oldest_of_inv hh I
  have hfs := raiseForPrune_toNat s.mem.floorState keep
  have hs0 := (u64_ne_zero_iff _).mp hseed
  have hm1 := I.m1 hseed
  have hm2 := I.m2
  -- the memory part, common to every branch
  have hmem : ∀ s' : St, s'.db.has = s.db.has → s'.db.agg = s.db.agg →
      s'.mem.keepMax = max s.mem.keepMax keep.toNat →
      s'.mem.floorState = raiseForPrune s.mem.floorState keep →
      (s'.job = .idle ∨ s'.job = .run a keep.toNat a true ∧ a < keep.toNat) → InvA c s' h a := by
    intro s' e1 e1' e2 e3 e4
    have hfs' : s'.mem.floorState.toNat = if keep.toNat = 0 then s.mem.floorState.toNat else max s.mem.floorState.toNat keep.toNat := by
      rw [e3]; exact hfs
    have hne : s'.mem.floorState ≠ 0 := by
      apply (u64_ne_zero_iff _).mpr
      rw [hfs']; split <;> omega
    refine { hlt := I.hlt, ale := I.ale
             bounded := by rw [e1]; exact I.bounded
             commIff := by rw [e1]; exact I.commIff
             suEq := by rw [e1]; exact I.suEq
             txsEq := by rw [e1]; exact I.txsEq
             hdrKeep := by rw [e1]; exact I.hdrKeep
             keepIn := ?_, h2nLow := ?_
             carve := by rw [e1]; exact I.carve
             jobWf := ?_, keepLe := ?_, m1 := ?_, m2 := ?_, m3 := fun _ => hne
             aggIff := by rw [e1']; exact I.aggIff
             hdrLag := by rw [e1]; exact I.hdrLag
             lowGone := by rw [e1]; exact I.lowGone }
    · intro n ha hn hd
      rw [e1]
      apply I.keepIn n ha hn
      rw [hidle]; rfl
    · intro b hb
      rw [e1] at hb
      have := I.h2nLow b hb
      rw [hidle] at this
      simp only [h2nOk] at this
      rcases e4 with e4 | ⟨e4, _⟩
      · rw [e4]; simpa only [h2nOk] using this
      · rw [e4]; simp only [h2nOk]
        split
        · exact this
        · by_cases hb' : a ≤ b
          · exact Or.inl hb'
          · right; right; exact ⟨by first | rfl | trivial, by omega⟩
    · unfold jobOk
      rcases e4 with e4 | ⟨e4, hlt⟩
      · rw [e4]; trivial
      · rw [e4]
        show a ≤ a ∧ a ≤ keep.toNat ∧ keep.toNat ≤ s'.mem.keepMax ∧ (true = true → a = a) ∧
          (if c.fixed then a = a else a = a)
        refine ⟨by omega, by omega, by rw [e2]; omega, fun _ => rfl, ?_⟩
        split <;> rfl
    · rw [e2]; have := I.keepLe; omega
    · intro _
      rw [hfs', e2]
      split <;> omega
    · rw [hfs', e2]
      split <;> omega
  unfold startPrune
  simp only [hold]
  by_cases h1 : a ≥ keep.toNat
  · simp only [h1, if_true]
    exact ⟨hmem _ rfl rfl rfl rfl (Or.inl hidle), by first | rfl | trivial⟩
  · simp only [h1, if_false]
    have hhdr : (decide (a > 0) && !s.db.has .hdr (a - 1)) = false := by
      by_cases ha : a > 0
      · have := I.hdrKeep (a - 1) (by have := I.ale; omega) (by omega)
        simp [this]
      · simp [ha]
    simp only [hhdr]
    exact ⟨hmem _ rfl rfl rfl rfl (Or.inr ⟨rfl, by omega⟩), by first | rfl | trivial⟩

theorem startPrune_empty {s : St} (hh : s.db.height = none) (keep : UInt64) :
    (startPrune s keep).1.db = s.db ∧ (startPrune s keep).1.job = s.job := by
  unfold startPrune
  simp only [oldest_empty hh]
  exact ⟨by first | rfl | trivial, by first | rfl | trivial⟩

/-! ### the batches of a prune -/

theorem loopReads_ok {c : Cfg} {s : St} {h a : Nat} (I : InvA c s h a) (cur k : Nat)
    (ha : a ≤ cur) (hk : cur + k ≤ h + 1) : loopReadsOk s.db cur k = true := by
  unfold loopReadsOk
  rw [List.all_eq_true]
  intro j hj
  have hj' := List.mem_range.mp hj
  have hc : s.db.has .comm (cur + j) = true := (I.commIff _).mpr ⟨by omega, by omega⟩
  simp [I.suEq, I.txsEq, hc]

theorem bk_beq (i j : Bk) : (i == j) = decide (i = j) := by cases i <;> cases j <;> rfl

theorem del_sub (d : Db) (p : Bk → Nat → Bool) (i : Bk) (n : Nat) (h : (d.del p).has i n = true) :
    d.has i n = true := by
  simp only [Db.del, Bool.and_eq_true] at h; exact h.1

/-- One written batch of the ORIGINAL procedure. -/
theorem inv_flush_orig {c : Cfg} {s : St} {h a st en cu : Nat} {fi : Bool} (k : Nat)
    (I : InvA c s h a) (hjob : s.job = .run st en cu fi) (hfix : c.fixed = false) (hk : cu + k ≤ en) :
    InvA c { s with db := s.db.del (flushDel c st en cu (cu + k) fi), job := .run st en (cu + k) false } h a := by
  have hj := I.jobWf
  unfold jobOk at hj
  rw [hjob] at hj
  simp only [hfix] at hj
  obtain ⟨h1, h2, h3, h4, h5⟩ := hj
  have h5 : a = st := by simpa using h5
  have hsame : ∀ i, i = .comm ∨ i = .su ∨ i = .txs ∨ i = .hdr → ∀ n,
      (s.db.del (flushDel c st en cu (cu + k) fi)).has i n = s.db.has i n := by
    intro i hi n
    rcases hi with rfl | rfl | rfl | rfl <;> simp [Db.del, flushDel, hfix, Bk.hashKeyed]
  constructor
  · exact I.hlt
  · exact I.ale
  · intro i n hn; exact I.bounded i n (del_sub _ _ _ _ hn)
  · intro n; show (s.db.del _).has .comm n = true ↔ _
    rw [hsame .comm (by simp)]; exact I.commIff n
  · intro n; show (s.db.del _).has .su n = (s.db.del _).has .comm n
    rw [hsame .su (by simp), hsame .comm (by simp)]; exact I.suEq n
  · intro n; show (s.db.del _).has .txs n = (s.db.del _).has .comm n
    rw [hsame .txs (by simp), hsame .comm (by simp)]; exact I.txsEq n
  · intro n hn ha; show (s.db.del _).has .hdr n = true
    rw [hsame .hdr (by simp)]; exact I.hdrKeep n hn ha
  · intro n ha hn hd
    simp only [dirty, hfix, Bool.not_false, Bool.true_and, Bool.and_eq_false_iff,
      decide_eq_false_iff_not] at hd
    have hge : cu + k ≤ n := by omega
    have hold : dirty c s.job n = false := by
      rw [hjob]; simp only [dirty, Bool.and_eq_false_iff, decide_eq_false_iff_not]; right; omega
    obtain ⟨k1, k2, k3, k4⟩ := I.keepIn n ha hn hold
    have e1 : ¬ n < cu + k := by omega
    have e2 : ¬ n + 1 = st := by omega
    show (s.db.del _).has .h2n n = true ∧ (s.db.del _).has .txl n = true ∧
      (s.db.del _).has .l1m n = true ∧ (s.db.del _).has .hist n = true
    simp [Db.del, flushDel, hfix, Bk.hashKeyed, k1, k2, k3, k4, e1, e2]
  · intro b hb
    have hb0 := del_sub _ _ _ _ hb
    have hold := I.h2nLow b hb0
    rw [hjob] at hold
    simp only [h2nOk, hfix] at hold
    show h2nOk c (.run st en (cu + k) false) a b
    simp only [h2nOk, hfix]
    have hb' : (s.db.del (flushDel c st en cu (cu + k) fi)).has .h2n b = true := hb
    simp only [Db.del, flushDel, hfix, Bk.hashKeyed, Bool.false_and, Bool.false_or, Bool.and_eq_true,
      Bool.not_eq_true', Bool.or_eq_false_iff, Bool.and_eq_false_iff, decide_eq_false_iff_not,
      beq_self_eq_true, Bool.true_and, if_false, Bool.false_eq_true] at hb'
    obtain ⟨_, hd1, hd2⟩ := hb'
    by_cases hc : cu + k ≤ b
    · exact Or.inl hc
    · right
      rcases hold with hold | hold | ⟨hf, hold⟩
      · left
        rcases hd1 with hd1 | hd1
        · rcases hd1 with hd1 | hd1
          · omega
          · omega
        · simpa using hd1
      · exact Or.inl hold
      · exfalso
        rcases hd2 with hd2 | hd2
        · rw [hf] at hd2; simp at hd2
        · omega
  · intro hf; rw [hfix] at hf; cases hf
  · show jobOk c _ a
    unfold jobOk
    simp only [hfix]
    exact ⟨by omega, hk, h3, by simp, by simpa using h5⟩
  · exact I.keepLe
  · exact I.m1
  · exact I.m2
  · exact I.m3
  · exact I.aggIff
  · intro n hn ha; show (s.db.del _).has .hdr n = true
    rw [hsame .hdr (by simp)]; exact I.hdrLag n hn ha
  · intro hf; rw [hfix] at hf; cases hf

/-- One written batch of the REPAIRED procedure: the durable floor moves to the loop cursor. -/
theorem inv_flush_fixed {c : Cfg} {s : St} {h a st en cu : Nat} {fi : Bool} (k : Nat)
    (I : InvA c s h a) (hjob : s.job = .run st en cu fi) (hfix : c.fixed = true) (hk : cu + k ≤ en) :
    InvA c { s with db := (s.db.del (flushDel c st en cu (cu + k) fi)).pruneAgg (cu + k),
                    job := .run st en (cu + k) false } h (cu + k) := by
  have hj := I.jobWf
  unfold jobOk at hj
  rw [hjob] at hj
  simp only [hfix, if_true] at hj
  obtain ⟨h1, h2, h3, h4, h5⟩ := hj
  have hK := I.keepLe
  have hnum : ∀ i, i = .comm ∨ i = .su ∨ i = .txs → ∀ n,
      (s.db.del (flushDel c st en cu (cu + k) fi)).has i n = (s.db.has i n && !decide (n < cu + k)) := by
    intro i hi n
    rcases hi with rfl | rfl | rfl <;> simp [Db.del, flushDel, hfix, Bk.hashKeyed, rangeDel, Bk.numRange, bk_beq]
  constructor
  · exact I.hlt
  · omega
  · intro i n hn; exact I.bounded i n (del_sub _ _ _ _ hn)
  · intro n; show (s.db.del _).has .comm n = true ↔ _
    rw [hnum .comm (by simp)]
    simp only [Bool.and_eq_true, Bool.not_eq_true', decide_eq_false_iff_not]
    have := I.commIff n
    constructor
    · rintro ⟨hc, hn⟩; have := this.mp hc; omega
    · intro hn; exact ⟨this.mpr (by omega), by omega⟩
  · intro n; show (s.db.del _).has .su n = (s.db.del _).has .comm n
    rw [hnum .su (by simp), hnum .comm (by simp), I.suEq n]
  · intro n; show (s.db.del _).has .txs n = (s.db.del _).has .comm n
    rw [hnum .txs (by simp), hnum .comm (by simp), I.txsEq n]
  · intro n hn ha; show (s.db.del _).has .hdr n = true
    have hh := I.hdrKeep n hn (by omega)
    have : ¬ n < headerEnd (cu + k) := by rw [lt_headerEnd_iff]; unfold blockHashLag; omega
    simp [Db.del, flushDel, hfix, Bk.hashKeyed, rangeDel, Bk.numRange, bk_beq, hh, this]
  · intro n ha hn _
    have hold : dirty c s.job n = false := by
      rw [hjob]; simp [dirty, hfix]
    obtain ⟨k1, k2, k3, k4⟩ := I.keepIn n (by omega) hn hold
    have e1 : ¬ n < cu + k := by omega
    have e2 : ¬ n + 1 < cu + k := by omega
    show (s.db.del _).has .h2n n = true ∧ (s.db.del _).has .txl n = true ∧
      (s.db.del _).has .l1m n = true ∧ (s.db.del _).has .hist n = true
    simp [Db.del, flushDel, hfix, Bk.hashKeyed, rangeDel, Bk.numRange, bk_beq, k1, k2, k3, k4, e1, e2]
  · intro b hb
    have hb0 := del_sub _ _ _ _ hb
    have hold := I.h2nLow b hb0
    rw [hjob] at hold
    simp only [h2nOk, hfix, if_true] at hold
    show h2nOk c (.run st en (cu + k) false) (cu + k) b
    simp only [h2nOk, hfix, if_true]
    have hb' : (s.db.del (flushDel c st en cu (cu + k) fi)).has .h2n b = true := hb
    simp only [Db.del, flushDel, hfix, Bk.hashKeyed, rangeDel, Bk.numRange, Bool.false_and, Bool.false_or,
      Bool.and_eq_true, Bool.not_eq_true', Bool.or_eq_false_iff, Bool.and_eq_false_iff,
      decide_eq_false_iff_not, beq_self_eq_true, Bool.true_and, if_true] at hb'
    obtain ⟨_, hd1, _⟩ := hb'
    rcases hd1 with hd1 | hd1 <;> omega
  · intro _ hpos
    show (s.db.del _).has .h2n (cu + k - 1) = true
    have hbase : s.db.has .h2n (cu + k - 1) = true := by
      by_cases hk0 : k = 0
      · subst hk0
        have := I.carve hfix (by omega)
        rw [h5] at this; simpa using this
      · have hold : dirty c s.job (cu + k - 1) = false := by
          rw [hjob]; simp [dirty, hfix]
        exact (I.keepIn (cu + k - 1) (by omega) (by omega) hold).1
    have e2 : ¬ (cu + k - 1 + 1 < cu + k) := by omega
    simp [Db.del, flushDel, hfix, Bk.hashKeyed, rangeDel, Bk.numRange, bk_beq, hbase, e2]
  · show jobOk c _ (cu + k)
    unfold jobOk
    simp only [hfix, if_true]
    exact ⟨by omega, hk, h3, by simp, trivial⟩
  · exact hK
  · intro hne; have := I.m1 hne
    show cu + k ≤ s.mem.floorState.toNat ∧ s.mem.keepMax ≤ s.mem.floorState.toNat; omega
  · have := I.m2; show s.mem.floorState.toNat ≤ max (max (cu + k) s.mem.keepMax) 1; omega
  · exact I.m3
  · intro w
    show (s.db.agg w && !aggDeleted (cu + k) w) = true ↔ _
    have h1 := I.aggIff w
    have h2 := aggDeleted_iff (cu + k) w
    cases hd : aggDeleted (cu + k) w with
    | true =>
      have := h2.mp hd
      simp only [Bool.not_true, Bool.and_false, Bool.false_eq_true, false_iff]
      unfold numBlocksPerFilter at *; omega
    | false =>
      have : ¬ (w + 1) * numBlocksPerFilter ≤ cu + k := fun hc => by rw [h2.mpr hc] at hd; cases hd
      simp only [Bool.not_false, Bool.and_true]
      rw [h1]
      unfold numBlocksPerFilter at *; omega
  · intro n hn ha; show (s.db.del _).has .hdr n = true
    have hh := I.hdrLag n hn (by omega)
    have : ¬ n < headerEnd (cu + k) := by rw [lt_headerEnd_iff]; omega
    simp [Db.del, flushDel, hfix, Bk.hashKeyed, rangeDel, Bk.numRange, bk_beq, hh, this]
  · intro hf n hn
    by_cases hlt : n < a
    · have hl := I.lowGone hf n hlt
      simp [Db.del, Db.pruneAgg, hl.1, hl.2.1, hl.2.2]
    · have : cu ≤ n := by omega
      simp [Db.del, Db.pruneAgg, flushDel, Bk.hashKeyed, this, hn]

/-- End of a prune call (completed or cancelled) in the ORIGINAL procedure: the trailing range delete. -/
theorem inv_finish_orig {c : Cfg} {s : St} {h a st en cu : Nat} (m' : Mem)
    (I : InvA c s h a) (hjob : s.job = .run st en cu false) (hfix : c.fixed = false)
    (hm1 : m'.keepMax = s.mem.keepMax) (hm2 : m'.floorState = s.mem.floorState) :
    InvA c { db := (s.db.del (rangeDel cu)).pruneAgg cu, mem := m', job := .idle } h cu := by
  have hj := I.jobWf
  unfold jobOk at hj
  rw [hjob] at hj
  simp only [hfix] at hj
  obtain ⟨h1, h2, h3, _, h5⟩ := hj
  have h5 : a = st := by simpa using h5
  have hK := I.keepLe
  have hnum : ∀ i, i = .comm ∨ i = .su ∨ i = .txs → ∀ n,
      (s.db.del (rangeDel cu)).has i n = (s.db.has i n && !decide (n < cu)) := by
    intro i hi n
    rcases hi with rfl | rfl | rfl <;> simp [Db.del, rangeDel, Bk.numRange, bk_beq]
  constructor
  · exact I.hlt
  · show cu ≤ h; omega
  · intro i n hn; exact I.bounded i n (del_sub _ _ _ _ hn)
  · intro n; show (s.db.del _).has .comm n = true ↔ _
    rw [hnum .comm (by simp)]
    simp only [Bool.and_eq_true, Bool.not_eq_true', decide_eq_false_iff_not]
    have := I.commIff n
    constructor
    · rintro ⟨hc, hn⟩; have := this.mp hc; omega
    · intro hn; exact ⟨this.mpr (by omega), by omega⟩
  · intro n; show (s.db.del _).has .su n = (s.db.del _).has .comm n
    rw [hnum .su (by simp), hnum .comm (by simp), I.suEq n]
  · intro n; show (s.db.del _).has .txs n = (s.db.del _).has .comm n
    rw [hnum .txs (by simp), hnum .comm (by simp), I.txsEq n]
  · intro n hn ha; show (s.db.del _).has .hdr n = true
    have hh := I.hdrKeep n hn (by omega)
    have : ¬ n < headerEnd cu := by rw [lt_headerEnd_iff]; unfold blockHashLag; omega
    simp [Db.del, rangeDel, Bk.numRange, bk_beq, hh, this]
  · intro n ha hn _
    have hold : dirty c s.job n = false := by
      rw [hjob]; simp only [dirty, Bool.and_eq_false_iff, decide_eq_false_iff_not]; right; omega
    obtain ⟨k1, k2, k3, k4⟩ := I.keepIn n (by omega) hn hold
    show (s.db.del _).has .h2n n = true ∧ (s.db.del _).has .txl n = true ∧
      (s.db.del _).has .l1m n = true ∧ (s.db.del _).has .hist n = true
    simp [Db.del, rangeDel, Bk.numRange, bk_beq, k1, k2, k3, k4]
  · intro b hb
    have hold := I.h2nLow b (del_sub _ _ _ _ hb)
    rw [hjob] at hold
    simp only [h2nOk, hfix] at hold
    show h2nOk c .idle cu b
    simp only [h2nOk]
    rcases hold with hold | hold | ⟨hf, _⟩
    · omega
    · omega
    · cases hf
  · intro hf; rw [hfix] at hf; cases hf
  · show jobOk c _ cu; unfold jobOk; trivial
  · show m'.keepMax ≤ h; rw [hm1]; exact hK
  · intro hne
    show cu ≤ m'.floorState.toNat ∧ m'.keepMax ≤ m'.floorState.toNat
    rw [hm1, hm2] at *
    have := I.m1 hne; omega
  · show m'.floorState.toNat ≤ max (max cu m'.keepMax) 1
    rw [hm1, hm2]; have := I.m2; omega
  · intro hpos; show m'.floorState ≠ 0
    rw [hm2]; apply I.m3; rw [← hm1]; exact hpos
  · intro w
    show (s.db.agg w && !aggDeleted cu w) = true ↔ _
    have h1' := I.aggIff w
    have h2' := aggDeleted_iff cu w
    cases hd : aggDeleted cu w with
    | true =>
      have := h2'.mp hd
      simp only [Bool.not_true, Bool.and_false, Bool.false_eq_true, false_iff]
      unfold numBlocksPerFilter at *; omega
    | false =>
      have : ¬ (w + 1) * numBlocksPerFilter ≤ cu := fun hc => by rw [h2'.mpr hc] at hd; cases hd
      simp only [Bool.not_false, Bool.and_true]
      rw [h1']
      unfold numBlocksPerFilter at *; omega
  · intro n hn ha; show (s.db.del _).has .hdr n = true
    have hh := I.hdrLag n hn (by omega)
    have : ¬ n < headerEnd cu := by rw [lt_headerEnd_iff]; omega
    simp [Db.del, rangeDel, Bk.numRange, bk_beq, hh, this]
  · intro hf; rw [hfix] at hf; cases hf

/-- Leaving a prune without touching the database: end of a call in the REPAIRED procedure, or a write
error / crash at a point where nothing half-done is on disk. -/
theorem inv_leave {c : Cfg} {s : St} {h a st en cu : Nat} {fi : Bool} (m' : Mem)
    (I : InvA c s h a) (hjob : s.job = .run st en cu fi) (hclean : c.fixed = true ∨ fi = true)
    (hk : m'.keepMax ≤ s.mem.keepMax)
    (hm1 : m'.floorState ≠ 0 → a ≤ m'.floorState.toNat ∧ m'.keepMax ≤ m'.floorState.toNat)
    (hm2 : m'.floorState.toNat ≤ max (max a m'.keepMax) 1)
    (hm3 : 0 < m'.keepMax → m'.floorState ≠ 0) :
    InvA c { db := s.db, mem := m', job := .idle } h a := by
  have hj := I.jobWf
  unfold jobOk at hj
  rw [hjob] at hj
  obtain ⟨h1, h2, h3, h4, h5⟩ := hj
  have hd : ∀ n, dirty c s.job n = false := by
    intro n; rw [hjob]
    rcases hclean with hf | hf
    · simp [dirty, hf]
    · have := h4 hf
      simp only [dirty, Bool.and_eq_false_iff, decide_eq_false_iff_not]
      by_cases hs : st ≤ n
      · right; omega
      · left; right; exact hs
  exact { hlt := I.hlt, ale := I.ale, bounded := I.bounded, commIff := I.commIff, suEq := I.suEq
          txsEq := I.txsEq, hdrKeep := I.hdrKeep
          keepIn := fun n ha hn _ => I.keepIn n ha hn (hd n)
          h2nLow := by
            intro b hb
            have hold := I.h2nLow b hb
            rw [hjob] at hold
            show h2nOk c .idle a b
            simp only [h2nOk] at hold ⊢
            rcases hclean with hf | hf
            · simpa [hf] using hold
            · by_cases hfx : c.fixed = true
              · simpa [hfx] using hold
              · have hfx' : c.fixed = false := by simpa using hfx
                simp only [hfx', if_false, Bool.false_eq_true] at hold h5
                have := h4 hf
                rcases hold with hold | hold | ⟨_, hold⟩ <;> omega
          carve := I.carve
          jobWf := by show jobOk c _ a; unfold jobOk; trivial
          keepLe := by show m'.keepMax ≤ h; have := I.keepLe; omega
          m1 := hm1, m2 := hm2, m3 := hm3, aggIff := I.aggIff, hdrLag := I.hdrLag, lowGone := I.lowGone }

theorem inv_leave_idle {c : Cfg} {s : St} {h a : Nat} (m' : Mem)
    (I : InvA c s h a) (hjob : s.job = .idle)
    (hk : m'.keepMax ≤ s.mem.keepMax)
    (hm1 : m'.floorState ≠ 0 → a ≤ m'.floorState.toNat ∧ m'.keepMax ≤ m'.floorState.toNat)
    (hm2 : m'.floorState.toNat ≤ max (max a m'.keepMax) 1)
    (hm3 : 0 < m'.keepMax → m'.floorState ≠ 0) :
    InvA c { db := s.db, mem := m', job := .idle } h a :=
  { hlt := I.hlt, ale := I.ale, bounded := I.bounded, commIff := I.commIff, suEq := I.suEq
    txsEq := I.txsEq, hdrKeep := I.hdrKeep
    keepIn := fun n ha hn _ => I.keepIn n ha hn (by rw [hjob]; rfl)
    h2nLow := by intro b hb; have := I.h2nLow b hb; rw [hjob] at this; exact this
    carve := I.carve
    jobWf := by show jobOk c _ a; unfold jobOk; trivial
    keepLe := by show m'.keepMax ≤ h; have := I.keepLe; omega
    m1 := hm1, m2 := hm2, m3 := hm3, aggIff := I.aggIff, hdrLag := I.hdrLag, lowGone := I.lowGone }

/-- The memory of a fresh process satisfies the memory clauses. -/
theorem restartMem_ok {c : Cfg} {s : St} {h a : Nat} (hh : s.db.height = some h) (I : InvA c s h a)
    (ts : Nat → Nat) (cut : Nat) (seed : Bool) :
    (restartMem c ts s.db cut seed).keepMax = 0 ∧
    ((restartMem c ts s.db cut seed).floorState ≠ 0 → a ≤ (restartMem c ts s.db cut seed).floorState.toNat) ∧
    (restartMem c ts s.db cut seed).floorState.toNat ≤ max a 1 := by
  have hlo : (oldest s.db).getD 0 = a := by rw [oldest_of_inv hh I]; rfl
  have ha : a < 2 ^ 64 := by have := I.hlt; have := I.ale; omega
  unfold restartMem
  simp only [hlo]
  cases seed with
  | false => simp
  | true =>
    have := seedState_zero (UInt64.ofNat a)
    rw [ofNat_toNat_of_lt a ha] at this
    simp only [if_true]
    refine ⟨trivial, fun _ => by omega, by omega⟩

/-! ### the minimum age -/

theorem tsAt_congr {c : Cfg} {s s' : St} (h : s'.chain = s.chain) : s'.tsAt c = s.tsAt c := by
  funext n; unfold St.tsAt; rw [h]

theorem monoI_congr {c : Cfg} {s s' : St} (h : s'.chain = s.chain) (M : MonoI c s) : MonoI c s' := by
  unfold MonoI ForksMono at *; rw [tsAt_congr h, h]; exact M

theorem ageI_congr {c : Cfg} {s s' : St} {a a' : Nat} (h : s'.chain = s.chain) (M : MonoI c s)
    (e : Mono (s.tsAt c) → c.minAge = true → AgeA c s a → AgeA c s' a') (A : AgeI c s a) : AgeI c s' a' := by
  intro h1 h2 h3 hma hg
  unfold ForksMono at h2
  rw [h] at h2 h3 hg
  exact e (M h1 h2 h3) hma (A h1 h2 h3 hma hg)

theorem age_keep {c : Cfg} {s s' : St} {a a' : Nat} (h1 : max a' s'.mem.keepMax ≤ max a s.mem.keepMax)
    (h2 : s'.mem.sampled = s.mem.sampled) (h3 : s.cutoff ≤ s'.cutoff) (A : AgeA c s a)
    (h4 : s'.tsAt c = s.tsAt c := by rfl) : AgeA c s' a' := by
  refine ⟨fun n hn => ?_, fun hc i hi => ?_⟩
  · rw [h4]; have := A.1 n (by omega); omega
  · rw [h4]; rw [h2] at hi; have := A.2 hc i hi; omega

/-- `sampleHeight` keeps the sample honest: on non-decreasing timestamps every block below the new sample is
older than the cut-off, provided every block below the old one was. -/
theorem sampleNode_age {ts : Nat → Nat} {d : Db} {h : Nat} (hm : Mono ts) (hh : d.height = some h) (hlt : h < 2 ^ 64)
    (cut : Nat) (sampled : UInt64) (hbelow : ∀ i, i < sampled.toNat → ts i < cut) :
    ∀ i, i < (sampleNode ts d cut sampled).toNat → ts i < cut := by
  intro i hi
  unfold sampleNode at hi
  rw [hh] at hi
  simp only at hi
  split at hi
  · rw [ofNat_toNat_of_lt h hlt] at hi; exact hbelow i (by omega)
  · rename_i hle
    split at hi
    · have spec := findOldest_spec ts sampled.toNat h cut hm hbelow
      unfold sampleHeight at hi
      cases hf : findOldestAtOrAfter ts sampled.toNat h cut with
      | none =>
        rw [hf] at hi spec
        rw [ofNat_toNat_of_lt h hlt] at hi
        exact spec i (by omega)
      | some r =>
        rw [hf] at hi spec
        simp only at hi spec
        rw [ofNat_toNat_of_lt r (by omega)] at hi
        exact spec.2.2.2 i hi
    · exact hbelow i hi

theorem seedSample_age {c : Cfg} {ts : Nat → Nat} {s : St} {h a : Nat} (hm : Mono ts) (hh : s.db.height = some h)
    (I : InvA c s h a) (cut : Nat) (hbelow : ∀ i, i < a → ts i < cut) :
    ∀ i, i < (seedSample c ts s.db cut).toNat → ts i < cut := by
  intro i hi
  unfold seedSample at hi
  split at hi
  · rw [oldest_of_inv hh I] at hi
    simp only at hi
    have ha : a < 2 ^ 64 := by have := I.hlt; have := I.ale; omega
    exact sampleNode_age hm hh I.hlt cut (UInt64.ofNat a) (by rw [ofNat_toNat_of_lt a ha]; exact hbelow) i hi
  · exact absurd hi (by simp)

/-- `refreshStaleSample` (proposed fix): whatever the cached sample was, afterwards every block below it is older
than the cut-off — the block right below it was checked (and timestamps do not decrease), or the sample was
derived again from the oldest retained block. -/
theorem refreshSample_age {c : Cfg} {ts : Nat → Nat} {s : St} {h a : Nat} (hm : Mono ts) (hma : c.minAge = true)
    (hh : s.db.height = some h) (I : InvA c s h a) (cut : Nat) (sampled : UInt64)
    (hbelow : ∀ i, i < a → ts i < cut) :
    ∀ i, i < (refreshSample c ts s.db cut sampled).1.toNat → ts i < cut := by
  intro i hi
  unfold refreshSample at hi
  rw [oldest_of_inv hh I] at hi
  simp only [hma, Bool.not_true, Bool.false_or] at hi
  split at hi
  · rename_i h0
    have : sampled = 0 := by simpa using h0
    rw [this] at hi; exact absurd hi (by simp)
  · split at hi
    · rename_i hchk
      simp only [Bool.and_eq_true, decide_eq_true_eq] at hchk
      have := hm i (sampled.toNat - 1) (by simp only at hi; omega)
      omega
    · simp only at hi
      have ha : a < 2 ^ 64 := by have := I.hlt; have := I.ale; omega
      exact sampleNode_age hm hh I.hlt cut (UInt64.ofNat a) (by rw [ofNat_toNat_of_lt a ha]; exact hbelow) i hi

theorem migKeep_some_le (c : Cfg) (hma : c.minAge = true) (h : Nat) (l1 f keep : UInt64)
    (hk : migKeep c h l1 (some f) = some keep) : keep.toNat ≤ f.toNat := by
  unfold migKeep at hk
  simp only [hma, if_true] at hk
  generalize (if l1.toNat ≤ h then l1 else UInt64.ofNat h) = pivot at hk
  split at hk
  · cases hk
  · simp at hk; subst hk; rw [umin_toNat]; omega

/-- The migration's own cut-off respects the minimum age. -/
theorem migKeep_age {c : Cfg} {ts : Nat → Nat} (hm : Mono ts) (hma : c.minAge = true) (h : Nat) (hlt : h < 2 ^ 64)
    (l1 keep : UInt64) (cut : Nat) (hk : migKeep c h l1 (migMinAgeFloor ts h l1 cut) = some keep) :
    ∀ n, n < keep.toNat → ts n < cut := by
  intro n hn
  have hb := migKeep_bound c h hlt l1 _ keep hk
  have spec := findOldest_spec ts 0 (if l1.toNat ≤ h then l1.toNat else h) cut hm (fun i hi => absurd hi (by omega))
  have hp : (if l1.toNat ≤ h then l1.toNat else h) = min l1.toNat h := by split <;> omega
  cases hf : findOldestAtOrAfter ts 0 (if l1.toNat ≤ h then l1.toNat else h) cut with
  | none =>
    rw [hf] at spec
    exact spec n (by omega)
  | some r =>
    rw [hf] at spec
    simp only at spec
    have hr : r < 2 ^ 64 := by
      have := spec.2.1; have := l1.toNat_lt; omega
    have he : migMinAgeFloor ts h l1 cut = some (UInt64.ofNat r) := by
      unfold migMinAgeFloor; simp only [hf, Option.map_some]
    rw [he] at hk
    have := migKeep_some_le c hma h l1 _ keep hk
    rw [ofNat_toNat_of_lt r hr] at this
    exact spec.2.2.2 n (by omega)

/-! ### the history-pruner migration -/

theorem migrate_reads_ok {c : Cfg} {s : St} {h a : Nat} (I : InvA c s h a) (hjob : s.job = .idle) (keep : Nat)
    (h0 : 0 < keep) (ha : a ≤ keep) (hk : keep ≤ h) : migrateReadsOk s.db keep h = true := by
  unfold migrateReadsOk
  rw [Bool.and_eq_true, List.all_eq_true]
  refine ⟨?_, I.hdrKeep (keep - 1) (by omega) (by omega)⟩
  intro j hj
  have hj' := List.mem_range.mp hj
  have hc : s.db.has .comm (keep + j) = true := (I.commIff _).mpr ⟨by omega, by omega⟩
  have hh := (I.keepIn (keep + j) (by omega) (by omega) (by rw [hjob]; rfl)).2.2.2
  simp [I.suEq, I.txsEq, hc, hh]

/-- A completed migration with cut-off `keep` leaves exactly what a completed prune to `keep` leaves. -/
theorem inv_migrate {c : Cfg} {s : St} {h a : Nat} (I : InvA c s h a) (hjob : s.job = .idle) (keep : Nat)
    (h0 : 0 < keep) (ha : a ≤ keep) (hk : keep ≤ h) :
    InvA c { db := migrateDb s.db keep h, mem := {}, job := .idle } h keep := by
  have hidle : ∀ n, dirty c s.job n = false := by intro n; rw [hjob]; rfl
  constructor
  · exact I.hlt
  · exact hk
  · intro i n hn
    cases i <;> simp only [migrateDb, Db.pruneAgg, Bool.and_eq_true, Bool.or_eq_true, decide_eq_true_eq] at hn
    all_goals first
      | exact I.bounded _ n hn.1
      | omega
  · intro n
    show (s.db.has .comm n && !decide (n < keep)) = true ↔ _
    simp only [Bool.and_eq_true, Bool.not_eq_true', decide_eq_false_iff_not]
    have := I.commIff n
    constructor
    · rintro ⟨hc, hn⟩; have := this.mp hc; omega
    · intro hn; exact ⟨this.mpr (by omega), by omega⟩
  · intro n
    show (s.db.has .su n && !decide (n < keep)) = (s.db.has .comm n && !decide (n < keep))
    rw [I.suEq]
  · intro n
    show (s.db.has .txs n && !decide (n < keep)) = (s.db.has .comm n && !decide (n < keep))
    rw [I.txsEq]
  · intro n hn hkn
    show (s.db.has .hdr n && !decide (n < headerEnd keep)) = true
    have hh := I.hdrKeep n hn (by omega)
    have : ¬ n < headerEnd keep := by rw [lt_headerEnd_iff]; unfold blockHashLag; omega
    simp [hh, this]
  · intro n hkn hn _
    have hh := (I.keepIn n (by omega) hn (hidle n)).2.2.2
    show ((decide (keep ≤ n) && decide (n ≤ h)) || decide (n + 1 = keep)) = true ∧
      (decide (keep ≤ n) && decide (n ≤ h)) = true ∧ (decide (keep ≤ n) && decide (n ≤ h)) = true ∧
      (s.db.has .hist n && (decide (keep ≤ n) && decide (n ≤ h))) = true
    simp [hkn, hn, hh]
  · intro b hb
    have hb' : ((decide (keep ≤ b) && decide (b ≤ h)) || decide (b + 1 = keep)) = true := hb
    show h2nOk c .idle keep b
    simp only [h2nOk]
    simp only [Bool.or_eq_true, Bool.and_eq_true, decide_eq_true_eq] at hb'
    omega
  · intro _ _
    show ((decide (keep ≤ keep - 1) && decide (keep - 1 ≤ h)) || decide (keep - 1 + 1 = keep)) = true
    have : keep - 1 + 1 = keep := by omega
    simp [this]
  · show jobOk c _ keep; unfold jobOk; trivial
  · show (0 : Nat) ≤ h; omega
  · intro hne; exact absurd rfl hne
  · show (0 : UInt64).toNat ≤ _; simp
  · intro hpos; exact absurd hpos (by show ¬ 0 < (0 : Nat); omega)
  · intro w
    show (s.db.agg w && !aggDeleted keep w) = true ↔ _
    have h1' := I.aggIff w
    have h2' := aggDeleted_iff keep w
    cases hd : aggDeleted keep w with
    | true =>
      have := h2'.mp hd
      simp only [Bool.not_true, Bool.and_false, Bool.false_eq_true, false_iff]
      unfold numBlocksPerFilter at *; omega
    | false =>
      have : ¬ (w + 1) * numBlocksPerFilter ≤ keep := fun hc => by rw [h2'.mpr hc] at hd; cases hd
      simp only [Bool.not_false, Bool.and_true]
      rw [h1']
      unfold numBlocksPerFilter at *; omega
  · intro n hn hkn
    show (s.db.has .hdr n && !decide (n < headerEnd keep)) = true
    have hh := I.hdrLag n hn (by omega)
    have : ¬ n < headerEnd keep := by rw [lt_headerEnd_iff]; omega
    simp [hh, this]
  · intro _ n hn
    have : ¬ keep ≤ n := by omega
    simp [migrateDb, Db.pruneAgg, this]

theorem step_store_mem (c : Cfg) (s : St) :
    (step c s .store).1.mem = s.mem ∧ (step c s .store).1.cutoff = s.cutoff := by
  simp only [step]
  cases s.db.height with
  | none => exact ⟨rfl, rfl⟩
  | some h => simp only []; split <;> exact ⟨rfl, rfl⟩

theorem step_revert_mem (c : Cfg) (s : St) :
    (step c s .revert).1.mem = s.mem ∧ (step c s .revert).1.cutoff = s.cutoff := by
  simp only [step]
  cases s.db.height with
  | none => exact ⟨rfl, rfl⟩
  | some h => simp only []; split <;> exact ⟨rfl, rfl⟩

theorem startPrune_mem (s : St) (keep : UInt64) :
    (startPrune s keep).1.mem.keepMax = max s.mem.keepMax keep.toNat ∧
    (startPrune s keep).1.mem.floorState = raiseForPrune s.mem.floorState keep ∧
    (startPrune s keep).1.cutoff = s.cutoff ∧
    ((startPrune s keep).1.mem.sampled = s.mem.sampled ∨
      ∃ st, oldest s.db = some st ∧ (startPrune s keep).1.mem.sampled = umax s.mem.sampled (UInt64.ofNat st)) := by
  unfold startPrune
  cases ho : oldest s.db with
  | none => exact ⟨rfl, rfl, rfl, Or.inl rfl⟩
  | some st =>
    simp only []
    split
    · exact ⟨rfl, rfl, rfl, Or.inr ⟨st, rfl, rfl⟩⟩
    · split <;> exact ⟨rfl, rfl, rfl, Or.inl rfl⟩

theorem startPrune_chain (s : St) (keep : UInt64) : (startPrune s keep).1.chain = s.chain := by
  unfold startPrune
  cases oldest s.db with
  | none => rfl
  | some st =>
    simp only []
    split
    · rfl
    · split <;> rfl

theorem raiseForPrune_ge (st keep : UInt64) : st.toNat ≤ (raiseForPrune st keep).toNat := by
  rw [raiseForPrune_toNat]; split <;> omega

/-- `pruneUpto(keep)` keeps the min-age invariant when every block below `keep` is old enough. -/
theorem age_startPrune {c : Cfg} {s : St} {h a : Nat} (hh : s.db.height = some h) (I : InvA c s h a)
    (keep : UInt64) (hold : ∀ n, n < keep.toNat → s.tsAt c n < s.cutoff) (A : AgeA c s a) :
    AgeA c (startPrune s keep).1 a := by
  obtain ⟨m1, _, m3, m4⟩ := startPrune_mem s keep
  have hts : (startPrune s keep).1.tsAt c = s.tsAt c := tsAt_congr (startPrune_chain s keep)
  refine ⟨fun n hn => ?_, fun hc i hi => ?_⟩
  · rw [m3, hts]; rw [m1] at hn
    by_cases h1 : n < max a s.mem.keepMax
    · exact A.1 n h1
    · exact hold n (by omega)
  · rw [m3, hts]
    rcases m4 with e | ⟨st, e1, e2⟩
    · rw [e] at hi; exact A.2 hc i hi
    · rw [oldest_of_inv hh I] at e1; cases e1
      rw [e2, umax_toNat, ofNat_toNat_of_lt a (by have := I.hlt; have := I.ale; omega)] at hi
      by_cases h1 : i < s.mem.sampled.toNat
      · exact A.2 hc i h1
      · exact A.1 i (by omega)

/-- What one legal step guarantees. -/
structure StepFacts (c : Cfg) (s : St) (op : Op) : Prop where
  /-- the invariant is preserved -/
  inv : Inv c (step c s op).1
  /-- the floor rises at most to what the event allows -/
  floorLe : effFloor (step c s op).1 ≤ max (effFloor s) (allowed c s op)
  /-- the durable floor never moves down -/
  loMono : lo s.db ≤ lo (step c s op).1.db
  /-- within one process the shared in-memory floor never moves down -/
  fsMono : ((∀ seed, op ≠ .crash seed) ∧ ∀ u, op ≠ .migrate u) →
    s.mem.floorState.toNat ≤ (step c s op).1.mem.floorState.toNat

theorem facts_some {c : Cfg} {s : St} {op : Op} {h a h' a' : Nat}
    (hh : s.db.height = some h) (IA : InvA c s h a)
    (hh' : (step c s op).1.db.height = some h') (IA' : InvA c (step c s op).1 h' a')
    (h1 : a ≤ a') (h2 : a' ≤ max (max a s.mem.keepMax) (allowed c s op))
    (h3 : (step c s op).1.mem.keepMax ≤ max s.mem.keepMax (allowed c s op))
    (h4 : ((∀ seed, op ≠ .crash seed) ∧ ∀ u, op ≠ .migrate u) →
      s.mem.floorState.toNat ≤ (step c s op).1.mem.floorState.toNat)
    (hA : MonoI c (step c s op).1 ∧ AgeI c (step c s op).1 a') :
    StepFacts c s op := by
  refine ⟨?_, ?_, ?_, h4⟩
  · unfold Inv; rw [hh']; exact ⟨a', IA', hA⟩
  · unfold effFloor; rw [lo_of_inv hh IA, lo_of_inv hh' IA']; omega
  · rw [lo_of_inv hh IA, lo_of_inv hh' IA']; exact h1

theorem lo_empty {d : Db} (h : d.height = none) : lo d = 0 := by
  unfold lo; rw [oldest_empty h]; rfl

theorem seedSample_empty (c : Cfg) (ts : Nat → Nat) {d : Db} (h : d.height = none) (cut : Nat) :
    seedSample c ts d cut = 0 := by
  unfold seedSample; rw [oldest_empty h]; split <;> rfl

/-- `pruneUpto(keep)` after the proposed `refreshStaleSample` (or a plain update of pending / sample): the state
the prune starts from differs from `s` in `pending` and `sampled` only. -/
theorem age_resampled {c : Cfg} {s : St} {a : Nat} (sm : UInt64) (hc : c.sampleChecked = true) (A : AgeA c s a) :
    AgeA c { s with mem := { s.mem with pending := 0, sampled := sm } } a :=
  ⟨A.1, fun hf => absurd hc (by rw [hf]; simp)⟩

theorem forkChain_tsAt (c : Cfg) (s : St) (n : Nat) :
    ({ s with chain := forkChain c s } : St).tsAt c n =
      if n < forkBase s.db then s.tsAt c n else c.forkTs (s.chain.fork + 1) n := by
  show (if (forkChain c s).fork = 0 then c.ts n else (forkChain c s).ts n) = _
  have : (forkChain c s).fork = s.chain.fork + 1 := rfl
  rw [this]
  simp only [Nat.add_one_ne_zero, if_false]
  rfl

/-- A fork switch keeps the timestamps non-decreasing when the first block of the new fork is not older than
the block it builds on. -/
theorem fork_monoI {c : Cfg} {s : St} (M : MonoI c s) : MonoI c { s with chain := forkChain c s } := by
  intro h1 h2 h3
  have h3' : (forkChain c s).mono = true := h3
  unfold forkChain at h3'
  simp only [Bool.and_eq_true, Bool.or_eq_true, beq_iff_eq, decide_eq_true_eq] at h3'
  obtain ⟨hmo, hj⟩ := h3'
  have h2o : ForksMono c s := fun f a b => h2 f a (Nat.le_succ_of_le b)
  have hold := M h1 h2o hmo
  intro i j hij
  rw [forkChain_tsAt, forkChain_tsAt]
  generalize forkBase s.db = b at hj ⊢
  by_cases hi : i < b
  · by_cases hj' : j < b
    · simp only [hi, hj', if_true]; exact hold i j hij
    · simp only [hi, hj', if_true, if_false]
      rcases hj with hb | hb
      · omega
      · have hbb : ¬ b < b := by omega
        simp only [hbb, if_false] at hb
        have e1 := hold i (b - 1) (by omega)
        have e2 := h2 (s.chain.fork + 1) (by omega) (Nat.le_refl _) b j (by omega)
        omega
  · have hj' : ¬ j < b := by omega
    simp only [hi, hj', if_false]
    exact h2 (s.chain.fork + 1) (by omega) (Nat.le_refl _) i j hij

/-- Every legal operation preserves the invariant, moves the floor only up and only as far as allowed. -/
theorem step_facts {c : Cfg} {s : St} (op : Op) (I : Inv c s) (L : Legal c s op) : StepFacts c s op := by
  unfold Inv at I
  cases hh : s.db.height with
  | none =>
    rw [hh] at I
    simp only at I
    obtain ⟨⟨he, hag⟩, hj, hk, hf, hsm, hmo⟩ := I
    have hF : effFloor s = 0 := by unfold effFloor; rw [lo_empty hh, hk]; rfl
    -- steps that leave height, entries, job and the ghost alone
    have same : ∀ (s' : St), (step c s op).1 = s' → s'.db.height = none → s'.db.has = s.db.has →
        s'.db.agg = s.db.agg → s'.job = .idle → s'.mem.keepMax = 0 → s'.mem.floorState.toNat ≤ 1 →
        s'.mem.sampled = 0 → MonoI c s' →
        (((∀ seed, op ≠ .crash seed) ∧ ∀ u, op ≠ .migrate u) →
          s.mem.floorState.toNat ≤ s'.mem.floorState.toNat) → StepFacts c s op := by
      intro s' e0 e1 e2 e2' e3 e4 e5 e5' e7 e6
      refine ⟨?_, ?_, ?_, ?_⟩
      · rw [e0]; unfold Inv; rw [e1]; exact ⟨⟨by rw [e2]; exact he, by rw [e2']; exact hag⟩, e3, e4, e5, e5', e7⟩
      · rw [e0, hF]; unfold effFloor; rw [lo_empty e1, e4]; simp
      · rw [e0, lo_empty hh]; omega
      · rw [e0]; exact e6
    cases op with
    | store =>
      have := inv_store_empty (c := c) hh ⟨⟨he, hag⟩, hj, hk, hf⟩
      have hmem := step_store_mem c s
      have hch : (step c s .store).1.chain = s.chain := by
        simp only [step, hh]
      refine ⟨?_, ?_, ?_, ?_⟩
      · unfold Inv; rw [this.2.2]
        refine ⟨0, this.2.1, monoI_congr hch hmo, fun _ _ _ _ _ => ⟨fun n hn => ?_, fun _ i hi => ?_⟩⟩
        · rw [hmem.1, hk] at hn; omega
        · rw [hmem.1, hsm] at hi; exact absurd hi (by simp)
      · unfold effFloor; rw [lo_of_inv this.2.2 this.2.1]
        rw [hmem.1, hk]; simp
      · rw [lo_empty hh]; omega
      · intro _; rw [hmem.1]; exact Nat.le_refl _
    | revert => obtain ⟨h', h1, _⟩ := L; rw [hh] at h1; cases h1
    | writeL1 n =>
      exact same ⟨{ s.db with l1 := some n }, s.mem, s.job, s.cutoff, s.chain⟩ rfl hh rfl rfl hj hk hf hsm hmo (fun _ => Nat.le_refl _)
    | evL1 n => exact same s (by simp only [step, hj, hh]) hh rfl rfl hj hk hf hsm hmo (fun _ => Nat.le_refl _)
    | evL2 n =>
      obtain ⟨_, hcl⟩ := L
      rcases hcl with hcl | ⟨h', h1, _⟩
      · refine same s ?_ hh rfl rfl hj hk hf hsm hmo (fun _ => Nat.le_refl _)
        simp only [step, hj]
        cases hl1 : s.db.l1 with
        | none => rfl
        | some l1 => simp [hcl, hh]
      · rw [hh] at h1; cases h1
    | flush k => exact same s (by simp only [step, hj]) hh rfl rfl hj hk hf hsm hmo (fun _ => Nat.le_refl _)
    | finish => exact same s (by simp only [step, hj]) hh rfl rfl hj hk hf hsm hmo (fun _ => Nat.le_refl _)
    | fail => exact same s (by simp only [step, hj]) hh rfl rfl hj hk hf hsm hmo (fun _ => Nat.le_refl _)
    | crash seed =>
      refine same ⟨s.db, restartMem c (s.tsAt c) s.db s.cutoff seed, .idle, s.cutoff, s.chain⟩ rfl hh rfl rfl rfl rfl ?_
        (seedSample_empty c _ hh _) hmo (fun hne => absurd rfl (hne.1 seed))
      show (restartMem c (s.tsAt c) s.db s.cutoff seed).floorState.toNat ≤ 1
      unfold restartMem
      simp only [oldest_empty hh, Option.getD_none]
      cases seed with
      | false => simp
      | true =>
        have := seedState_zero (UInt64.ofNat 0)
        simp only [if_true]
        simp at this ⊢; omega
    | tick =>
      by_cases hma : c.minAge = true
      · refine same ⟨s.db, { s.mem with sampled := sampleNode (s.tsAt c) s.db s.cutoff s.mem.sampled }, s.job, s.cutoff, s.chain⟩
          (by simp only [step, hma, if_true]) hh rfl rfl hj hk hf ?_ hmo (fun _ => Nat.le_refl _)
        show sampleNode (s.tsAt c) s.db s.cutoff s.mem.sampled = 0
        unfold sampleNode; rw [hh]; exact hsm
      · exact same s (by simp only [step, hma, Bool.false_eq_true, if_false]) hh rfl rfl hj hk hf hsm hmo (fun _ => Nat.le_refl _)
    | advance d =>
      exact same ⟨s.db, s.mem, s.job, s.cutoff + d, s.chain⟩ rfl hh rfl rfl hj hk hf hsm hmo (fun _ => Nat.le_refl _)
    | fork =>
      exact same ⟨s.db, s.mem, s.job, s.cutoff, forkChain c s⟩ rfl hh rfl rfl hj hk hf hsm (fork_monoI hmo)
        (fun _ => Nat.le_refl _)
    | migrate u =>
      refine same ⟨s.db, restartMem c (s.tsAt c) s.db s.cutoff true, s.job, s.cutoff, s.chain⟩ (by simp only [step, hj, hh]) hh rfl rfl hj rfl ?_
        (seedSample_empty c _ hh _) hmo (fun hne => absurd rfl (hne.2 u))
      show (restartMem c (s.tsAt c) s.db s.cutoff true).floorState.toNat ≤ 1
      unfold restartMem
      simp only [oldest_empty hh, Option.getD_none]
      have := seedState_zero (UInt64.ofNat 0)
      simp only [if_true]
      simp at this ⊢; omega
  | some h =>
    rw [hh] at I
    simp only at I
    obtain ⟨a, IA, MG, AG⟩ := I
    -- steps that keep head, durable floor and the chain
    have keepH : ∀ s' : St, (step c s op).1 = s' → s'.db.height = some h → InvA c s' h a →
        s'.mem.keepMax ≤ max s.mem.keepMax (allowed c s op) →
        (((∀ seed, op ≠ .crash seed) ∧ ∀ u, op ≠ .migrate u) →
          s.mem.floorState.toNat ≤ s'.mem.floorState.toNat) →
        (Mono (s.tsAt c) → c.minAge = true → AgeA c s a → AgeA c s' a) → s'.chain = s.chain → StepFacts c s op := by
      intro s' e0 e1 e2 e3 e4 e5 e6
      exact facts_some hh IA (by rw [e0]; exact e1) (by rw [e0]; exact e2) (Nat.le_refl _) (by omega)
        (by rw [e0]; exact e3) (by rw [e0]; exact e4)
        (by rw [e0]; exact ⟨monoI_congr e6 MG, fun h1 h2 h3 hma hg => by
          unfold ForksMono at h2
          rw [e6] at h2 h3 hg; exact e5 (MG h1 h2 h3) hma (AG h1 h2 h3 hma hg)⟩)
    have unchanged : (step c s op).1 = s → StepFacts c s op := fun e =>
      keepH s e hh IA (by omega) (fun _ => Nat.le_refl _) (fun _ _ A => A) rfl
    -- a fresh process on the same database (crash, or a migration that has nothing to do)
    have restarted : ∀ (seed : Bool), (step c s op).1 = ⟨s.db, restartMem c (s.tsAt c) s.db s.cutoff seed, .idle, s.cutoff, s.chain⟩ →
        interruptible c s.job → ¬((∀ seed, op ≠ .crash seed) ∧ ∀ u, op ≠ .migrate u) → StepFacts c s op := by
      intro seed e hI hop
      obtain ⟨r1, r2, r3⟩ := restartMem_ok hh IA (s.tsAt c) s.cutoff seed
      have hage : Mono (s.tsAt c) → c.minAge = true → AgeA c s a →
          AgeA c ⟨s.db, restartMem c (s.tsAt c) s.db s.cutoff seed, .idle, s.cutoff, s.chain⟩ a := by
        intro hm _ A
        refine ⟨fun n hn => A.1 n ?_, fun _ => ?_⟩
        · have : (restartMem c (s.tsAt c) s.db s.cutoff seed).keepMax = 0 := r1
          simp only [this] at hn; omega
        · exact seedSample_age hm hh IA s.cutoff (fun i hi => A.1 i (by omega))
      cases hjob : s.job with
      | idle =>
        exact keepH _ e hh
          ((inv_leave_idle _ IA hjob (by omega) (fun hne => ⟨r2 hne, by omega⟩) (by omega) (by omega)).congr rfl rfl rfl rfl)
          (by show (restartMem c (s.tsAt c) s.db s.cutoff seed).keepMax ≤ _; omega) (fun hne => absurd hne hop) hage rfl
      | run st en cu fi =>
        rw [hjob] at hI
        exact keepH _ e hh
          ((inv_leave _ IA hjob hI (by omega) (fun hne => ⟨r2 hne, by omega⟩) (by omega) (by omega)).congr rfl rfl rfl rfl)
          (by show (restartMem c (s.tsAt c) s.db s.cutoff seed).keepMax ≤ _; omega) (fun hne => absurd hne hop) hage rfl
    cases op with
    | store =>
      have := inv_store hh IA (L h hh)
      have hmem := step_store_mem c s
      have hch : (step c s .store).1.chain = s.chain := by
        simp only [step, hh]; split <;> rfl
      exact facts_some hh IA this.2.2 this.2.1 (Nat.le_refl _) (by omega)
        (by rw [hmem.1]; omega) (fun _ => by rw [hmem.1]; exact Nat.le_refl _)
        ⟨monoI_congr hch MG, ageI_congr hch MG (fun _ _ A =>
          age_keep (by rw [hmem.1]; exact Nat.le_refl _) (by rw [hmem.1]) (by rw [hmem.2]; exact Nat.le_refl _) A
            (tsAt_congr hch)) AG⟩
    | revert =>
      obtain ⟨h', h1, h2⟩ := L
      rw [hh] at h1; cases h1
      unfold effFloor at h2
      rw [lo_of_inv hh IA] at h2
      have := inv_revert hh IA h2
      have hmem := step_revert_mem c s
      have hch : (step c s .revert).1.chain = s.chain := by
        simp only [step, hh]; split <;> rfl
      exact facts_some hh IA this.2.2 this.2.1 (Nat.le_refl _) (by omega)
        (by rw [hmem.1]; omega) (fun _ => by rw [hmem.1]; exact Nat.le_refl _)
        ⟨monoI_congr hch MG, ageI_congr hch MG (fun _ _ A =>
          age_keep (by rw [hmem.1]; exact Nat.le_refl _) (by rw [hmem.1]) (by rw [hmem.2]; exact Nat.le_refl _) A
            (tsAt_congr hch)) AG⟩
    | writeL1 n =>
      exact keepH ⟨{ s.db with l1 := some n }, s.mem, s.job, s.cutoff, s.chain⟩ rfl hh (IA.congr rfl rfl rfl rfl)
        (by show s.mem.keepMax ≤ _; omega) (fun _ => Nat.le_refl _)
        (fun _ _ A => age_keep (Nat.le_refl _) rfl (Nat.le_refl _) A) rfl
    | advance d =>
      exact keepH ⟨s.db, s.mem, s.job, s.cutoff + d, s.chain⟩ rfl hh (IA.congr rfl rfl rfl rfl)
        (by show s.mem.keepMax ≤ _; omega) (fun _ => Nat.le_refl _)
        (fun _ _ A => age_keep (s := s) (Nat.le_refl _) rfl (Nat.le_add_right _ _) A) rfl
    | fork =>
      -- only timestamps above the head change hands
      have hb : forkBase s.db = h + 1 := by unfold forkBase; rw [hh]
      have hI' : InvA c ⟨s.db, s.mem, s.job, s.cutoff, forkChain c s⟩ h a := IA.congr rfl rfl rfl rfl
      have htsAll : ∀ n, (⟨s.db, s.mem, s.job, s.cutoff, forkChain c s⟩ : St).tsAt c n =
          if n < h + 1 then s.tsAt c n else c.forkTs (s.chain.fork + 1) n := by
        intro n
        have := forkChain_tsAt c s n
        rw [hb] at this
        exact this
      have hts : ∀ n, n ≤ h → (⟨s.db, s.mem, s.job, s.cutoff, forkChain c s⟩ : St).tsAt c n = s.tsAt c n := by
        intro n hn
        rw [htsAll n]
        have : n < h + 1 := by omega
        simp only [this, if_true]
      have hAge : AgeI c ⟨s.db, s.mem, s.job, s.cutoff, forkChain c s⟩ a := by
        intro h1 h2 h3 hma hg
        have h3m : (forkChain c s).mono = true := h3
        have h3' : s.chain.mono = true := by
          unfold forkChain at h3m; simp only [Bool.and_eq_true] at h3m; exact h3m.1
        have hfr : c.sampleChecked = false →
            s.chain.fresh = true ∧ ∀ j, j < s.mem.sampled.toNat - (h + 1) →
              (⟨s.db, s.mem, s.job, s.cutoff, forkChain c s⟩ : St).tsAt c (h + 1 + j) < s.cutoff := by
          intro hc
          rcases hg with hg | hg
          · rw [hc] at hg; cases hg
          · have hg' : (forkChain c s).fresh = true := hg
            unfold forkChain at hg'
            simp only [hb, Bool.and_eq_true, List.all_eq_true, List.mem_range, decide_eq_true_eq] at hg'
            refine ⟨hg'.1, fun j hj => ?_⟩
            have e := hg'.2 j hj
            rw [htsAll (h + 1 + j)]
            exact e
        have hg' : c.sampleChecked = true ∨ s.chain.fresh = true := by
          cases hc : c.sampleChecked with
          | true => exact Or.inl rfl
          | false => exact Or.inr (hfr hc).1
        have A := AG h1 (fun f a b => h2 f a (Nat.le_succ_of_le b)) h3' hma hg'
        refine ⟨fun n hn => ?_, fun hc i hi => ?_⟩
        · have hK := IA.keepLe; have hale := IA.ale
          have hn' : n < max a s.mem.keepMax := hn
          rw [hts n (by omega)]; exact A.1 n hn'
        · have hi' : i < s.mem.sampled.toNat := hi
          by_cases hle : i ≤ h
          · rw [hts i hle]; exact A.2 hc i hi'
          · have := (hfr hc).2 (i - (h + 1)) (by omega)
            have e : h + 1 + (i - (h + 1)) = i := by omega
            rw [e] at this; exact this
      have hstep : (step c s .fork).1 = ⟨s.db, s.mem, s.job, s.cutoff, forkChain c s⟩ := rfl
      exact facts_some hh IA (by rw [hstep]; exact hh) (by rw [hstep]; exact hI') (Nat.le_refl _) (by omega)
        (by rw [hstep]; show s.mem.keepMax ≤ _; omega)
        (fun _ => by rw [hstep]; exact Nat.le_refl _) (by rw [hstep]; exact ⟨fork_monoI MG, hAge⟩)
    | tick =>
      by_cases hma : c.minAge = true
      · refine keepH ⟨s.db, { s.mem with sampled := sampleNode (s.tsAt c) s.db s.cutoff s.mem.sampled }, s.job, s.cutoff, s.chain⟩
          (by simp only [step, hma, if_true]) hh (IA.congr rfl rfl rfl rfl)
          (by show s.mem.keepMax ≤ _; omega) (fun _ => Nat.le_refl _) ?_ rfl
        intro hm _ A
        exact ⟨A.1, fun hc => sampleNode_age hm hh IA.hlt s.cutoff s.mem.sampled (A.2 hc)⟩
      · exact unchanged (by simp only [step, hma, Bool.false_eq_true, if_false])
    | evL1 n =>
      cases hjob : s.job with
      | run st en cu fi => exact unchanged (by simp only [step, hjob])
      | idle =>
        cases hk : l1Keep c s.mem.sampled h n with
        | none => exact unchanged (by simp only [step, hjob, hh, hk])
        | some keep =>
          cases hsc : c.sampleChecked with
          | false =>
            have hb := l1Keep_bound c _ _ _ _ hk
            have I0 : InvA c { s with mem := { s.mem with pending := 0 }, job := .idle } h a :=
              IA.congr rfl hjob.symm rfl rfl
            have hsp := inv_startPrune (s := { s with mem := { s.mem with pending := 0 }, job := .idle })
              hh I0 rfl keep (by omega) L
            have hm := startPrune_mem { s with mem := { s.mem with pending := 0 }, job := .idle } keep
            refine keepH (startPrune { s with mem := { s.mem with pending := 0 }, job := .idle } keep).1
              (by simp only [step, hjob, hh, hk, hsc, Bool.false_eq_true, if_false]) (by rw [hsp.2]; exact hh) hsp.1 ?_ ?_ ?_
              (startPrune_chain _ _)
            · rw [hm.1]
              show max s.mem.keepMax keep.toNat ≤ max s.mem.keepMax (allowed c s (.evL1 n))
              simp only [allowed, hh]; omega
            · intro _; rw [hm.2.1]; exact raiseForPrune_ge _ _
            · intro hmo hma A
              have hks := l1Keep_minAge c s.mem.sampled h n keep hma hk
              exact age_startPrune (s := { s with mem := { s.mem with pending := 0 }, job := .idle }) hh I0 keep
                (fun m hmk => A.2 hsc m (by omega)) A
          | true =>
            -- the proposed `refreshStaleSample` runs first
            have hstep : (step c s (.evL1 n)) =
                (let r := refreshSample c (s.tsAt c) s.db s.cutoff s.mem.sampled
                 let s1 : St := { s with mem := { s.mem with pending := 0, sampled := r.1 } }
                 if r.2 then
                   match l1Keep c r.1 h n with
                   | none => (s1, .noop)
                   | some keep' => startPrune s1 keep'
                 else (s1, .err)) := by
              simp only [step, hjob, hh, hk, hsc, if_true]
              rfl
            generalize hr : refreshSample c (s.tsAt c) s.db s.cutoff s.mem.sampled = r at hstep
            have I1 : InvA c { s with mem := { s.mem with pending := 0, sampled := r.1 } } h a :=
              IA.congr rfl rfl rfl rfl
            have quiet : (step c s (.evL1 n)).1 = { s with mem := { s.mem with pending := 0, sampled := r.1 } } →
                StepFacts c s (.evL1 n) := fun e =>
              keepH { s with mem := { s.mem with pending := 0, sampled := r.1 } } e hh I1
                (by show s.mem.keepMax ≤ _; omega) (fun _ => Nat.le_refl _)
                (fun _ _ A => age_resampled r.1 hsc A) rfl
            cases hok : r.2 with
            | false => exact quiet (by rw [hstep]; simp only [hok, Bool.false_eq_true, if_false])
            | true =>
              cases hk' : l1Keep c r.1 h n with
              | none => exact quiet (by rw [hstep]; simp only [hok, if_true, hk'])
              | some keep' =>
                have hb := l1Keep_bound c _ _ _ _ hk'
                have I0 : InvA c { s with mem := { s.mem with pending := 0, sampled := r.1 }, job := .idle } h a :=
                  IA.congr rfl hjob.symm rfl rfl
                have hsp := inv_startPrune (s := { s with mem := { s.mem with pending := 0, sampled := r.1 }, job := .idle })
                  hh I0 rfl keep' (by omega) L
                have hm := startPrune_mem { s with mem := { s.mem with pending := 0, sampled := r.1 }, job := .idle } keep'
                have hjs : ({ s with mem := { s.mem with pending := 0, sampled := r.1 } } : St) =
                    { s with mem := { s.mem with pending := 0, sampled := r.1 }, job := .idle } := by
                  cases s; simp only at hjob; subst hjob; rfl
                refine keepH (startPrune { s with mem := { s.mem with pending := 0, sampled := r.1 }, job := .idle } keep').1
                  (by rw [hstep]; simp only [hok, if_true, hk']; rw [hjs]) (by rw [hsp.2]; exact hh) hsp.1 ?_ ?_ ?_
                  (startPrune_chain _ _)
                · rw [hm.1]
                  show max s.mem.keepMax keep'.toNat ≤ max s.mem.keepMax (allowed c s (.evL1 n))
                  simp only [allowed, hh]; omega
                · intro _; rw [hm.2.1]; exact raiseForPrune_ge _ _
                · intro hmo hma A
                  have hks := l1Keep_minAge c r.1 h n keep' hma hk'
                  have hfresh := refreshSample_age (c := c) hmo hma hh IA s.cutoff s.mem.sampled
                    (fun i hi => A.1 i (by omega))
                  rw [hr] at hfresh
                  exact age_startPrune (s := { s with mem := { s.mem with pending := 0, sampled := r.1 }, job := .idle }) hh I0 keep'
                    (fun m hmk => hfresh m (by omega)) (age_resampled r.1 hsc A)
    | evL2 n =>
      obtain ⟨hseed, hcl⟩ := L
      cases hjob : s.job with
      | run st en cu fi => exact unchanged (by simp only [step, hjob])
      | idle =>
        cases hl1 : s.db.l1 with
        | none => exact unchanged (by simp only [step, hjob, hl1])
        | some l1 =>
          by_cases hstale : (c.l2Clamps && decide (h < n.toNat)) = true
          · exact unchanged (by simp only [step, hjob, hl1, hh, hstale, if_true])
          · have hnh : n.toNat ≤ h := by
              rcases hcl with hcl | ⟨h', h1, h2⟩
              · simp only [hcl, Bool.true_and, decide_eq_true_eq] at hstale; omega
              · rw [hh] at h1; cases h1; exact h2
            have hstale' : (c.l2Clamps && decide (h < n.toNat)) = false := by simpa using hstale
            cases hg : l2Guard c l1 n with
            | true => exact unchanged (by simp only [step, hjob, hl1, hh, hstale', Bool.false_eq_true, if_false, hg, if_true])
            | false =>
              by_cases hp : s.mem.pending + 1 < c.l2PerPrune
              · exact keepH ⟨s.db, { s.mem with pending := s.mem.pending + 1 }, s.job, s.cutoff, s.chain⟩
                  (by simp only [step, hjob, hl1, hh, hstale', hg, Bool.false_eq_true, if_false, hp, if_true]) hh
                  (IA.congr rfl rfl rfl rfl) (by show s.mem.keepMax ≤ _; omega) (fun _ => Nat.le_refl _)
                  (fun _ _ A => age_keep (Nat.le_refl _) rfl (Nat.le_refl _) A) rfl
              · cases hsc : c.sampleChecked with
                | false =>
                  have hb := l2Keep_bound c s.mem.sampled l1 n (decide (s.cutoff ≤ s.tsAt c n.toNat)) hg
                  have I0 : InvA c { s with mem := { s.mem with pending := 0 }, job := .idle } h a :=
                    IA.congr rfl hjob.symm rfl rfl
                  have hsp := inv_startPrune (s := { s with mem := { s.mem with pending := 0 }, job := .idle })
                    hh I0 rfl (l2Keep c s.mem.sampled n (decide (s.cutoff ≤ s.tsAt c n.toNat))) (by omega) hseed
                  have hm := startPrune_mem { s with mem := { s.mem with pending := 0 }, job := .idle }
                    (l2Keep c s.mem.sampled n (decide (s.cutoff ≤ s.tsAt c n.toNat)))
                  refine keepH (startPrune { s with mem := { s.mem with pending := 0 }, job := .idle }
                      (l2Keep c s.mem.sampled n (decide (s.cutoff ≤ s.tsAt c n.toNat)))).1
                    (by simp only [step, hjob, hl1, hh, hstale', hg, Bool.false_eq_true, if_false, hp, hsc])
                    (by rw [hsp.2]; exact hh) hsp.1 ?_ ?_ ?_ (startPrune_chain _ _)
                  · rw [hm.1]
                    show max s.mem.keepMax (l2Keep c s.mem.sampled n _).toNat ≤ max s.mem.keepMax (allowed c s (.evL2 n))
                    simp only [allowed, hl1]; omega
                  · intro _; rw [hm.2.1]; exact raiseForPrune_ge _ _
                  · intro hmo hma A
                    refine age_startPrune (s := { s with mem := { s.mem with pending := 0 }, job := .idle }) hh I0 _ ?_ A
                    intro m hmk
                    by_cases hw : s.cutoff ≤ s.tsAt c n.toNat
                    · -- the event's block is young: the time floor applies
                      have : (l2Keep c s.mem.sampled n (decide (s.cutoff ≤ s.tsAt c n.toNat))).toNat ≤ s.mem.sampled.toNat := by
                        simp only [hw, decide_true]; exact l2Keep_minAge c s.mem.sampled n hma
                      exact A.2 hsc m (by omega)
                    · -- deep catch-up: the event's block is itself older than the minimum age, and so is every block below it
                      have := hmo m n.toNat (by omega)
                      show s.tsAt c m < s.cutoff
                      omega
                | true =>
                  have hstep : (step c s (.evL2 n)) =
                      (let r := refreshSample c (s.tsAt c) s.db s.cutoff s.mem.sampled
                       let s1 : St := { s with mem := { s.mem with pending := 0, sampled := r.1 } }
                       if r.2 then startPrune s1 (l2Keep c r.1 n (decide (s.cutoff ≤ s.tsAt c n.toNat))) else (s1, .err)) := by
                    simp only [step, hjob, hl1, hh, hstale', hg, Bool.false_eq_true, if_false, hp, hsc, if_true]
                  generalize hr : refreshSample c (s.tsAt c) s.db s.cutoff s.mem.sampled = r at hstep
                  have I1 : InvA c { s with mem := { s.mem with pending := 0, sampled := r.1 } } h a :=
                    IA.congr rfl rfl rfl rfl
                  cases hok : r.2 with
                  | false =>
                    exact keepH { s with mem := { s.mem with pending := 0, sampled := r.1 } }
                      (by rw [hstep]; simp only [hok, Bool.false_eq_true, if_false]) hh I1
                      (by show s.mem.keepMax ≤ _; omega) (fun _ => Nat.le_refl _)
                      (fun _ _ A => age_resampled r.1 hsc A) rfl
                  | true =>
                    have hb := l2Keep_bound c r.1 l1 n (decide (s.cutoff ≤ s.tsAt c n.toNat)) hg
                    have I0 : InvA c { s with mem := { s.mem with pending := 0, sampled := r.1 }, job := .idle } h a :=
                      IA.congr rfl hjob.symm rfl rfl
                    have hsp := inv_startPrune (s := { s with mem := { s.mem with pending := 0, sampled := r.1 }, job := .idle })
                      hh I0 rfl (l2Keep c r.1 n (decide (s.cutoff ≤ s.tsAt c n.toNat))) (by omega) hseed
                    have hm := startPrune_mem { s with mem := { s.mem with pending := 0, sampled := r.1 }, job := .idle }
                      (l2Keep c r.1 n (decide (s.cutoff ≤ s.tsAt c n.toNat)))
                    have hjs : ({ s with mem := { s.mem with pending := 0, sampled := r.1 } } : St) =
                        { s with mem := { s.mem with pending := 0, sampled := r.1 }, job := .idle } := by
                      cases s; simp only at hjob; subst hjob; rfl
                    refine keepH (startPrune { s with mem := { s.mem with pending := 0, sampled := r.1 }, job := .idle }
                        (l2Keep c r.1 n (decide (s.cutoff ≤ s.tsAt c n.toNat)))).1
                      (by rw [hstep]; simp only [hok, if_true]; rw [hjs])
                      (by rw [hsp.2]; exact hh) hsp.1 ?_ ?_ ?_ (startPrune_chain _ _)
                    · rw [hm.1]
                      show max s.mem.keepMax (l2Keep c r.1 n _).toNat ≤ max s.mem.keepMax (allowed c s (.evL2 n))
                      simp only [allowed, hl1]; omega
                    · intro _; rw [hm.2.1]; exact raiseForPrune_ge _ _
                    · intro hmo hma A
                      have hfresh := refreshSample_age (c := c) hmo hma hh IA s.cutoff s.mem.sampled
                        (fun i hi => A.1 i (by omega))
                      rw [hr] at hfresh
                      refine age_startPrune (s := { s with mem := { s.mem with pending := 0, sampled := r.1 }, job := .idle }) hh I0 _ ?_
                        (age_resampled r.1 hsc A)
                      intro m hmk
                      by_cases hw : s.cutoff ≤ s.tsAt c n.toNat
                      · have : (l2Keep c r.1 n (decide (s.cutoff ≤ s.tsAt c n.toNat))).toNat ≤ r.1.toNat := by
                          simp only [hw, decide_true]; exact l2Keep_minAge c r.1 n hma
                        exact hfresh m (by omega)
                      · have := hmo m n.toNat (by omega)
                        show s.tsAt c m < s.cutoff
                        omega
    | flush k =>
      cases hjob : s.job with
      | idle => exact unchanged (by simp only [step, hjob])
      | run st en cu fi =>
        by_cases hk : cu + k ≤ en
        · have hj := IA.jobWf
          unfold jobOk at hj
          rw [hjob] at hj
          have hK := IA.keepLe
          have hacu : a ≤ cu ∧ (c.fixed = true → a = cu) := by
            obtain ⟨h1, _, _, _, h5⟩ := hj
            split at h5
            · exact ⟨by omega, fun _ => h5⟩
            · rename_i hf; exact ⟨by omega, fun hf' => absurd hf' hf⟩
          have hr := loopReads_ok IA cu k hacu.1 (by omega)
          cases hfix : c.fixed with
          | false =>
            have hstep : (step c s (.flush k)).1 =
                (⟨s.db.del (flushDel c st en cu (cu + k) fi), s.mem, .run st en (cu + k) false, s.cutoff, s.chain⟩ : St) := by
              simp only [step, hjob, hk, if_true, hr, hfix, Bool.false_eq_true, if_false]
            exact keepH ⟨s.db.del (flushDel c st en cu (cu + k) fi), s.mem, .run st en (cu + k) false, s.cutoff, s.chain⟩ hstep hh
              (inv_flush_orig k IA hjob hfix hk) (by show s.mem.keepMax ≤ _; omega)
              (fun _ => Nat.le_refl _) (fun _ _ A => age_keep (Nat.le_refl _) rfl (Nat.le_refl _) A) rfl
          | true =>
            have hstep : (step c s (.flush k)).1 =
                (⟨(s.db.del (flushDel c st en cu (cu + k) fi)).pruneAgg (cu + k), s.mem, .run st en (cu + k) false, s.cutoff, s.chain⟩ : St) := by
              simp only [step, hjob, hk, if_true, hr, hfix]
            have hI := inv_flush_fixed k IA hjob hfix hk
            have ha := hacu.2 hfix
            have j3 : en ≤ s.mem.keepMax := hj.2.2.1
            exact facts_some hh IA (by rw [hstep]; exact hh) (by rw [hstep]; exact hI) (by omega) (by omega)
              (by rw [hstep]; show s.mem.keepMax ≤ _; omega) (fun _ => by rw [hstep]; exact Nat.le_refl _)
              (by rw [hstep]; exact ⟨monoI_congr rfl MG, ageI_congr (s := s) rfl MG (fun _ _ A => age_keep (s := s)
                    (by show max (cu + k) s.mem.keepMax ≤ max a s.mem.keepMax; omega) rfl (Nat.le_refl _) A) AG⟩)
        · exact unchanged (by simp only [step, hjob, hk, if_false])
    | finish =>
      cases hjob : s.job with
      | idle => exact unchanged (by simp only [step, hjob])
      | run st en cu fi =>
        cases fi with
        | true => exact unchanged (by simp only [step, hjob, if_true])
        | false =>
          have hj := IA.jobWf
          unfold jobOk at hj
          rw [hjob] at hj
          obtain ⟨j1, j2, j3, _, j5⟩ := hj
          have hcu : cu < 2 ^ 64 := by have := IA.keepLe; have := IA.hlt; omega
          -- the new sample `max(sampled, cur)`: every block below `cur ≤ keepMax` is old
          have hsamp : ∀ (s' : St) (a' : Nat), s'.mem.sampled = umax s.mem.sampled (UInt64.ofNat cu) →
              s'.mem.keepMax = s.mem.keepMax → s'.cutoff = s.cutoff → s'.tsAt c = s.tsAt c → a' ≤ max a s.mem.keepMax →
              AgeA c s a → AgeA c s' a' := by
            intro s' a' e1 e2 e3 e5 e4 A
            refine ⟨fun n hn => ?_, fun hc i hi => ?_⟩
            · rw [e3, e5]; rw [e2] at hn; exact A.1 n (by omega)
            · rw [e3, e5]; rw [e1, umax_toNat, ofNat_toNat_of_lt cu hcu] at hi
              by_cases h1 : i < s.mem.sampled.toNat
              · exact A.2 hc i h1
              · exact A.1 i (by omega)
          cases hfix : c.fixed with
          | true =>
            exact keepH ⟨s.db, { s.mem with sampled := umax s.mem.sampled (UInt64.ofNat cu) }, .idle, s.cutoff, s.chain⟩
              (by simp only [step, hjob, Bool.false_eq_true, if_false, hfix, if_true]) hh
              ((inv_leave s.mem IA hjob (Or.inl hfix) (Nat.le_refl _) IA.m1 IA.m2 IA.m3).congr rfl rfl rfl rfl)
              (by show s.mem.keepMax ≤ _; omega) (fun _ => Nat.le_refl _)
              (fun _ _ A => hsamp _ a rfl rfl rfl rfl (by omega) A) rfl
          | false =>
            simp only [hfix] at j5
            have j5 : a = st := by simpa using j5
            let m' : Mem := { s.mem with sampled := umax s.mem.sampled (UInt64.ofNat cu) }
            have hstep : (step c s .finish).1 = (⟨(s.db.del (rangeDel cu)).pruneAgg cu, m', .idle, s.cutoff, s.chain⟩ : St) := by
              simp only [step, hjob, Bool.false_eq_true, if_false, hfix]; rfl
            have hI := inv_finish_orig m' IA hjob hfix rfl rfl
            exact facts_some hh IA (by rw [hstep]; exact hh) (by rw [hstep]; exact hI.congr rfl rfl rfl rfl) (by omega) (by omega)
              (by rw [hstep]; show s.mem.keepMax ≤ _; omega) (fun _ => by rw [hstep]; exact Nat.le_refl _)
              (by rw [hstep]; exact ⟨monoI_congr rfl MG, ageI_congr (s := s) rfl MG (fun _ _ A =>
                    hsamp ⟨(s.db.del (rangeDel cu)).pruneAgg cu, m', .idle, s.cutoff, s.chain⟩ cu rfl rfl rfl rfl (by omega) A) AG⟩)
    | fail =>
      cases hjob : s.job with
      | idle => exact unchanged (by simp only [step, hjob])
      | run st en cu fi =>
        have hI : interruptible c s.job := L
        rw [hjob] at hI
        exact keepH ⟨s.db, s.mem, .idle, s.cutoff, s.chain⟩ (by simp only [step, hjob]) hh
          ((inv_leave s.mem IA hjob hI (Nat.le_refl _) IA.m1 IA.m2 IA.m3).congr rfl rfl rfl rfl) (by show s.mem.keepMax ≤ _; omega)
          (fun _ => Nat.le_refl _) (fun _ _ A => age_keep (Nat.le_refl _) rfl (Nat.le_refl _) A) rfl
    | crash seed =>
      exact restarted seed rfl L (fun hne => hne.1 seed rfl)
    | migrate u =>
      obtain ⟨hjob, hu, hL⟩ := L
      have hInt : interruptible c s.job := by rw [hjob]; trivial
      have restartOnly : (step c s (.migrate u)).1 = ⟨s.db, restartMem c (s.tsAt c) s.db s.cutoff true, .idle, s.cutoff, s.chain⟩ →
          StepFacts c s (.migrate u) := fun e =>
        restarted true e hInt (fun hne => hne.2 u rfl)
      cases hl1 : s.db.l1 with
      | none => exact unchanged (by simp only [step, hjob, hh, hl1])
      | some l1 =>
        cases hk : migKeep c h l1 (migMinAgeFloor (s.tsAt c) h l1 s.cutoff) with
        | none => exact restartOnly (by simp only [step, hjob, hh, hl1, hk])
        | some keep =>
          obtain ⟨hpos, hfl⟩ := hL h l1 keep hh hl1 hk
          have hb := migKeep_bound c h IA.hlt l1 _ keep hk
          rw [lo_of_inv hh IA] at hfl
          by_cases hz : keep = 0
          · have hz' : keep.toNat = 0 := by rw [hz]; rfl
            have hzn : c.migZeroNoop = true := by
              rcases hpos with hp | hp
              · omega
              · exact hp
            exact restartOnly (by simp only [step, hjob, hh, hl1, hk, hz, if_true, hzn])
          · have hkpos : 0 < keep.toNat := by
              have := (u64_ne_zero_iff keep).mp hz; omega
            have hu' : (u && !c.migSkipsMissing) = false := by
              cases u with
              | false => rfl
              | true => simp [hu rfl]
            have hr := migrate_reads_ok IA hjob keep.toNat hkpos (by omega) (by omega)
            have hstep : (step c s (.migrate u)).1 =
                ⟨migrateDb s.db keep.toNat h, restartMem c (s.tsAt c) (migrateDb s.db keep.toNat h) s.cutoff true, .idle, s.cutoff, s.chain⟩ := by
              simp only [step, hjob, hh, hl1, hk, hz, if_false, hu', Bool.false_eq_true, hr, if_true]
            have I1 := inv_migrate IA hjob keep.toNat hkpos (by omega) (by omega)
            have hh1 : (⟨migrateDb s.db keep.toNat h, ({} : Mem), Job.idle, 0, {}⟩ : St).db.height = some h := hh
            have hrm : (restartMem c (s.tsAt c) (migrateDb s.db keep.toNat h) s.cutoff true).keepMax = 0 ∧
                ((restartMem c (s.tsAt c) (migrateDb s.db keep.toNat h) s.cutoff true).floorState ≠ 0 →
                  keep.toNat ≤ (restartMem c (s.tsAt c) (migrateDb s.db keep.toNat h) s.cutoff true).floorState.toNat) ∧
                (restartMem c (s.tsAt c) (migrateDb s.db keep.toNat h) s.cutoff true).floorState.toNat ≤ max keep.toNat 1 :=
              restartMem_ok hh1 I1 (s.tsAt c) s.cutoff true
            obtain ⟨r1, r2, r3⟩ := hrm
            have hk0 : (({} : Mem)).keepMax = 0 := rfl
            have I2 := inv_leave_idle (restartMem c (s.tsAt c) (migrateDb s.db keep.toNat h) s.cutoff true) I1 rfl (by omega)
              (fun hne => ⟨r2 hne, by omega⟩) (by omega) (by omega)
            have I2' : InvA c ⟨migrateDb s.db keep.toNat h, restartMem c (s.tsAt c) (migrateDb s.db keep.toNat h) s.cutoff true, .idle, s.cutoff, s.chain⟩ h keep.toNat :=
              I2.congr rfl rfl rfl rfl
            refine facts_some hh IA (by rw [hstep]; exact hh) (by rw [hstep]; exact I2') (by omega)
              (by simp only [allowed, hh, hl1]; omega)
              (by rw [hstep]; show (restartMem c _ _ _ true).keepMax ≤ _; omega)
              (fun hne => absurd rfl (hne.2 u)) ?_
            rw [hstep]
            refine ⟨monoI_congr rfl MG, fun h1 h2 h3 hma _ => ?_⟩
            have hm : Mono (s.tsAt c) := MG h1 h2 h3
            have hold := migKeep_age hm hma h IA.hlt l1 keep s.cutoff hk
            refine ⟨fun n hn => hold n ?_, fun _ => ?_⟩
            · have : (restartMem c (s.tsAt c) (migrateDb s.db keep.toNat h) s.cutoff true).keepMax = 0 := r1
              simp only [this] at hn; omega
            · exact seedSample_age (s := ⟨migrateDb s.db keep.toNat h, ({} : Mem), Job.idle, 0, {}⟩) hm hh1 I1 s.cutoff hold

theorem inv_step {c : Cfg} {s : St} (op : Op) (I : Inv c s) (L : Legal c s op) :
    Inv c (step c s op).1 := (step_facts op I L).inv

theorem inv_init (c : Cfg) : Inv c St.init := by
  unfold Inv St.init Db.empty
  refine ⟨⟨fun _ _ => rfl, fun _ => rfl⟩, rfl, rfl, by decide, rfl, ?_⟩
  intro h1 _ _
  exact h1

theorem inv_reach {c : Cfg} {s : St} (R : Reach c s) : Inv c s := by
  induction R with
  | init => exact inv_init c
  | step op _ L ih => exact inv_step op ih L

end Juno.C16
