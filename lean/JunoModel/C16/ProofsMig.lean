import JunoModel.C16.ModelMig
/-! C16 — helper lemmas for the key-level model of the history-pruner migration. -/
namespace Juno.C16.Mig

theorem tag_injective (a b : HKind) (h : a.tag = b.tag) : a = b := by
  cases a <;> cases b <;> first | rfl | (exact absurd h (by decide))

theorem body_injective (k1 k2 : HKey) (w1 : k1.wf) (w2 : k2.wf) (hk : k1.kind = k2.kind)
    (h : k1.addr ++ (k1.slot ++ k1.block) = k2.addr ++ (k2.slot ++ k2.block)) : k1 = k2 := by
  obtain ⟨a1, b1, s1⟩ := w1
  obtain ⟨a2, b2, s2⟩ := w2
  have ha := List.append_inj h (by rw [a1, a2])
  have hsl : k1.slot.length = k2.slot.length := by
    rw [hk] at s1
    split at s1
    · rename_i hs; simp only [hs, if_true] at s2; rw [s1, s2]
    · rename_i hs; simp only [hs, if_false] at s2; rw [s1, s2]
  have hs := List.append_inj ha.2 hsl
  cases k1; cases k2
  simp only at hk ha hs
  simp [hk, ha.1, hs.1, hs.2]

theorem historyKey_inj (k1 k2 : HKey) (w1 : k1.wf) (w2 : k2.wf) (h : historyKey k1 = historyKey k2) : k1 = k2 := by
  unfold historyKey at h
  have h1 := List.cons.inj h
  exact body_injective k1 k2 w1 w2 (tag_injective _ _ h1.1) h1.2

theorem scratchKey_inj (k1 k2 : HKey) (w1 : k1.wf) (w2 : k2.wf) (h : scratchKey k1 = scratchKey k2) : k1 = k2 := by
  unfold scratchKey at h
  have h1 := List.cons.inj (List.cons.inj h).2
  exact body_injective k1 k2 w1 w2 (tag_injective _ _ h1.1) h1.2

theorem put_same (s : Store) (k v) : (s.put k v) k = some v := by simp [Store.put]
theorem put_other (s : Store) (k k' v) (h : k' ≠ k) : (s.put k v) k' = s k' := by simp [Store.put, h]

/-- After staging, the scratch entry of every listed key that has a history entry carries that entry. -/
theorem stage_spec (history : Store) : ∀ (keys : List HKey) (scratch : Store), (∀ k ∈ keys, k.wf) →
    ∀ k ∈ keys, ∀ v, history (historyKey k) = some v → (stage history keys scratch) (scratchKey k) = some v := by
  intro keys
  induction keys with
  | nil => intro _ _ k hk; cases hk
  | cons k0 ks ih =>
    intro scratch hwf k hk v hv
    have hwf' : ∀ k ∈ ks, k.wf := fun k hk => hwf k (List.mem_cons_of_mem _ hk)
    -- staging the tail never overwrites an entry with a DIFFERENT value: keys are injective
    have keep : ∀ (ks : List HKey) (sc : Store), (∀ k ∈ ks, k.wf) → sc (scratchKey k) = some v →
        (stage history ks sc) (scratchKey k) = some v := by
      intro ks
      induction ks with
      | nil => intro sc _ h; exact h
      | cons k1 ks ih2 =>
        intro sc hw h
        simp only [stage]
        have hw' : ∀ k ∈ ks, k.wf := fun k hk => hw k (List.mem_cons_of_mem _ hk)
        cases h1 : history (historyKey k1) with
        | none => exact ih2 sc hw' h
        | some v1 =>
          apply ih2 _ hw'
          by_cases he : scratchKey k = scratchKey k1
          · have := scratchKey_inj k k1 (hwf k hk) (hw k1 (List.mem_cons_self ..)) he
            subst this
            rw [hv] at h1; cases h1
            rw [he]; exact put_same _ _ _
          · rw [put_other _ _ _ _ he]; exact h
    simp only [stage]
    rcases List.mem_cons.mp hk with rfl | hk'
    · rw [hv]
      exact keep ks _ hwf' (put_same _ _ _)
    · cases h0 : history (historyKey k0) with
      | none => exact ih scratch hwf' k hk' v hv
      | some v0 => exact ih _ hwf' k hk' v hv

theorem restore_spec (scratch : Store) : ∀ (keys : List HKey) (history : Store), (∀ k ∈ keys, k.wf) →
    ∀ k ∈ keys, ∀ v, scratch (scratchKey k) = some v → (restore scratch keys history) (historyKey k) = some v := by
  intro keys
  induction keys with
  | nil => intro _ _ k hk; cases hk
  | cons k0 ks ih =>
    intro history hwf k hk v hv
    have hwf' : ∀ k ∈ ks, k.wf := fun k hk => hwf k (List.mem_cons_of_mem _ hk)
    have keep : ∀ (ks : List HKey) (hs : Store), (∀ k ∈ ks, k.wf) → hs (historyKey k) = some v →
        (restore scratch ks hs) (historyKey k) = some v := by
      intro ks
      induction ks with
      | nil => intro hs _ h; exact h
      | cons k1 ks ih2 =>
        intro hs hw h
        simp only [restore]
        have hw' : ∀ k ∈ ks, k.wf := fun k hk => hw k (List.mem_cons_of_mem _ hk)
        cases h1 : scratch (scratchKey k1) with
        | none => exact ih2 hs hw' h
        | some v1 =>
          apply ih2 _ hw'
          by_cases he : historyKey k = historyKey k1
          · have := historyKey_inj k k1 (hwf k hk) (hw k1 (List.mem_cons_self ..)) he
            subst this
            rw [hv] at h1; cases h1
            rw [he]; exact put_same _ _ _
          · rw [put_other _ _ _ _ he]; exact h
    simp only [restore]
    rcases List.mem_cons.mp hk with rfl | hk'
    · rw [hv]
      exact keep ks _ hwf' (put_same _ _ _)
    · cases h0 : scratch (scratchKey k0) with
      | none => exact ih history hwf' k hk' v hv
      | some v0 => exact ih _ hwf' k hk' v hv

/-- Nothing but the listed keys' entries comes back. -/
theorem restore_only (scratch : Store) : ∀ (keys : List HKey) (history : Store) (b : Bytes),
    (∀ k ∈ keys, historyKey k ≠ b) → (restore scratch keys history) b = history b := by
  intro keys
  induction keys with
  | nil => intro _ _ _; rfl
  | cons k0 ks ih =>
    intro history b hne
    simp only [restore]
    have hne' : ∀ k ∈ ks, historyKey k ≠ b := fun k hk => hne k (List.mem_cons_of_mem _ hk)
    cases h0 : scratch (scratchKey k0) with
    | none => exact ih history b hne'
    | some v0 =>
      show restore scratch ks (history.put (historyKey k0) v0) b = history b
      rw [ih _ b hne']
      exact put_other _ _ _ _ (fun e => hne k0 (List.mem_cons_self ..) e.symm)

end Juno.C16.Mig
