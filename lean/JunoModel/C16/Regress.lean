import JunoModel.C16.ProofsObs
import JunoModel.C16.ProofsMig
/-!
C16 — REGRESSION WITNESSES of defects that were found by this check and are repaired in /repo.
None of these is an obligation of the property (they are not in `props_modules` / `required_theorems`): they
describe code variants that /repo no longer contains (`Cfg.fixed = false`: the prune procedure before
55da2ac; `migZeroNoop = false`: the migration before 322dd0d; `migSkipsMissing = false`: before 3c301f0; `l2Clamps = false`: `onNewBlock` before 868e51a).
They are kept — and built — so that the model variants the harness probes (`probeVariant`,
`probeMigration`: which variant does the code in /repo follow?) stay meaningful: each is the history the
harness replays on the real code, and would become a finding again if the repair were reverted.
-/
namespace Juno.C16.Regress
open Juno.C16

/-- Legacy backend, retained 0, 6 blocks, L1 head 4: the prune of `[0,4)` is killed after its second
batch write and the node restarts (re-seeded floor). -/
def origCfg : Cfg := { retained := 0, l2PerPrune := 1, minAge := false, legacy := true, fixed := false }
def repairedCfg : Cfg := { origCfg with fixed := true }
def interrupted : List Op :=
  [.crash true, .store, .store, .store, .store, .store, .store, .writeL1 4, .evL1 4, .flush 1, .flush 1, .crash true]

/-- Before 55da2ac `Reach` had to exclude a crash / write error between two batch writes of one prune
(`interruptible`); everything up to the kill is a legal history, the kill itself is the excluded step. -/
theorem interrupted_prefix_reachable_before_55da2ac :
    Reach origCfg (run origCfg St.init interrupted.dropLast) :=
  reach_run Reach.init _ (by decide)

/-- After the restart the durable floor is still 0, the shared floor lets block 0 through, and the
historical read at block 0 is served with the state of block 1 — a wrong value instead of "pruned". -/
theorem interrupted_prune_serves_wrong_state_before_55da2ac :
    lo (run origCfg St.init interrupted).db = 0 ∧
    answer origCfg (run origCfg St.init interrupted) .stateAtNumber 0 = .stale 1 := by decide

/-- In the same state the retention probe reports blocks 0 and 1 as retained while their hash lookups are
gone (block by hash, transaction by hash). -/
theorem interrupted_prune_partial_blocks_before_55da2ac :
    answer origCfg (run origCfg St.init interrupted) .requireRetained 1 = .ok ∧
    answer origCfg (run origCfg St.init interrupted) .blockByNumber 1 = .ok ∧
    answer origCfg (run origCfg St.init interrupted) .blockByHash 1 = .notfound ∧
    answer origCfg (run origCfg St.init interrupted) .txByHash 1 = .notfound := by decide

/-- The same history on the code in /repo is legal to its end and harmless. -/
theorem interrupted_prune_consistent_since_55da2ac :
    Reach repairedCfg (run repairedCfg St.init interrupted) ∧
    lo (run repairedCfg St.init interrupted).db = 2 ∧
    answer repairedCfg (run repairedCfg St.init interrupted) .requireRetained 1 = .pruned ∧
    answer repairedCfg (run repairedCfg St.init interrupted) .blockByHash 2 = .ok ∧
    answer repairedCfg (run repairedCfg St.init interrupted) .stateAtNumber 1 = .ok ∧
    answer repairedCfg (run repairedCfg St.init interrupted) .stateAtHash 1 = .ok ∧
    answer repairedCfg (run repairedCfg St.init interrupted) .stateAtNumber 0 = .notfound :=
  ⟨reach_run Reach.init _ (by decide), by decide⟩

/-- A cancelled prune (context cancelled after the first block of `[0,4)`; orderly restart). -/
def cancelled : List Op :=
  [.crash true, .store, .store, .store, .store, .store, .store, .writeL1 4, .evL1 4, .flush 1, .flush 0, .finish, .crash true]

/-- Before 55da2ac: a LEGAL history — a prune cancelled by shutdown — after which state by block HASH one
block below the floor is not found, although state by number at the same block answers. -/
theorem cancelled_prune_loses_hash_carve_out_before_55da2ac :
    Reach origCfg (run origCfg St.init cancelled) ∧
    lo (run origCfg St.init cancelled).db = 1 ∧
    answer origCfg (run origCfg St.init cancelled) .stateAtNumber 0 = .ok ∧
    answer origCfg (run origCfg St.init cancelled) .stateAtHash 0 = .notfound :=
  ⟨reach_run Reach.init _ (by decide), by decide⟩

theorem cancelled_prune_keeps_hash_carve_out_since_55da2ac :
    lo (run repairedCfg St.init cancelled).db = 1 ∧
    answer repairedCfg (run repairedCfg St.init cancelled) .stateAtHash 0 = .ok := by decide

/-- Migration before 322dd0d, retained = pivot (or a min-age floor of 0): cut-off 0. -/
def zeroCutoff : List Op :=
  [.crash true, .store, .store, .store, .store, .store, .store, .writeL1 3, .migrate false]

/-- With `retained = 3 = min(L1, head)` the cut-off is block 0 — nothing may be pruned — yet the migration
failed (`GetBlockHeaderByNumber(0-1)`) after having wiped the lookup buckets. -/
theorem migration_cutoff_zero_fails_before_322dd0d :
    let c : Cfg := { origCfg with retained := 3 }
    Reach c (run c St.init zeroCutoff.dropLast) ∧
    (step c (run c St.init zeroCutoff.dropLast) (.migrate false)).2 = .err ∧
    effFloor (run c St.init zeroCutoff) = 0 ∧
    answer c (run c St.init zeroCutoff) .blockByNumber 4 = .ok ∧
    answer c (run c St.init zeroCutoff) .blockByHash 4 = .notfound ∧
    answer c (run c St.init zeroCutoff) .txByHash 0 = .notfound :=
  ⟨reach_run Reach.init _ (by decide), by decide⟩

/-- Migration before 3c301f0: one retained block whose state diff writes zero to an empty storage slot (no
history entry) made the stager fail — after the lookup buckets were wiped and the blocks below the cut-off
deleted. -/
theorem migration_unchanged_slot_fails_before_3c301f0 :
    let c : Cfg := { origCfg with retained := 1 }
    let ops : List Op := [.crash true, .store, .store, .store, .store, .store, .store, .writeL1 3]
    (step c (run c St.init ops) (.migrate true)).2 = .err ∧
    answer c (step c (run c St.init ops) (.migrate true)).1 .blockByNumber 4 = .ok ∧
    answer c (step c (run c St.init ops) (.migrate true)).1 .blockByHash 4 = .notfound := by decide

/-! ### stale new-head event, before 868e51a -/

/-- Before 868e51a (`onNewBlock` trusted `block.Number`) the bound by the current head needed a hypothesis: no step raises the floor above
`current head - retained`, PROVIDED every new-head event names a block that is on the chain when it is
handled (`Legal (.evL2 n)` for `l2Clamps = false`). What was missing: the two witnesses below. -/
theorem floor_bound_head_partial_before_868e51a (c : Cfg) (hc : c.l2Clamps = false) (s : St) (op : Op) (R : Reach c s)
    (L : Legal c s op) : effFloor (step c s op).1 ≤ max (effFloor s) (headBound c s) := by
  have hb := (step_facts op (inv_reach R) L).floorLe
  have key : allowed c s op ≤ headBound c s := by
    cases op with
    | evL2 n =>
      obtain ⟨_, hl | ⟨h, hh, hn⟩⟩ := L
      · rw [hc] at hl; cases hl
      · simp only [allowed, headBound, hh]; cases s.db.l1 <;> simp only <;> omega
    | evL1 n => simp only [allowed, headBound]; cases s.db.height <;> simp only <;> omega
    | migrate u => simp only [allowed, headBound]; cases s.db.height <;> cases s.db.l1 <;> simp only <;> omega
    | _ => simp only [allowed]; omega
  omega

/-- 8 blocks, L1 head 9 (ahead of the local head), the head is reverted 7 → 3 while the new-head event of
block 6 still sits in the pruner's 1-slot feed buffer; retained = 1; `onNewBlock` without the clamp. -/
def staleCfg : Cfg := { repairedCfg with retained := 1, migSkipsMissing := true, migZeroNoop := true, l2Clamps := false }
def staleEvent : List Op :=
  [.crash true, .store, .store, .store, .store, .store, .store, .store, .store, .writeL1 9,
   .revert, .revert, .revert, .revert, .evL2 6]

/-- Before 868e51a (sig `head-block-pruned-after-stale-event`, now in `fixed`):
everything before the event is a legal history; the event is handled as if block 6 existed: `pruneUpto(5)`.
With batch threshold 1 the batches `[0,4)` are written — the HEAD BLOCK 3 is pruned (`Head()` fails, no
oldest retained block), the floor is above the head — and the next batch fails on the missing block 4. -/
theorem stale_new_head_event_prunes_head_block_before_868e51a :
    Reach staleCfg (run staleCfg St.init staleEvent.dropLast) ∧
    (run staleCfg St.init staleEvent).db.height = some 3 ∧
    effFloor (run staleCfg St.init staleEvent) = 5 ∧
    (let s := run staleCfg St.init (staleEvent ++ [.flush 4])
     answer staleCfg s .blockByNumber 3 = .notfound ∧ oldest s.db = none ∧ (step staleCfg s (.flush 1)).2 = .err) :=
  ⟨reach_run Reach.init _ (by decide), by decide⟩

/-- Before 868e51a, default batch threshold (sig `shared-floor-above-head-after-stale-event`, now in `fixed`): the one
batch fails before anything is written, but the shared `RetentionFloor` was already raised to 5: historical
state at the head (block 3) and one below is refused until the process restarts. -/
theorem stale_new_head_event_raises_shared_floor_above_head_before_868e51a :
    (step staleCfg (run staleCfg St.init staleEvent) (.flush 5)).2 = .err ∧
    (let s := (step staleCfg (run staleCfg St.init staleEvent) (.flush 5)).1
     lo s.db = 0 ∧ answer staleCfg s .stateAtNumber 3 = .notfound ∧ answer staleCfg s .stateAtNumber 2 = .notfound ∧
     answer staleCfg s .blockByNumber 3 = .ok) := by decide


end Juno.C16.Regress
