import JunoModel.C19.ProofsPad
import JunoModel.C19.ProofsMerkle
import JunoModel.C19.ProofsUnits
import JunoModel.C19.ProofsValidator
import JunoModel.C19.ProofsSched
import JunoModel.C19.ProofsProc
/-!
C19 — property theorems (statements only; the proofs are one-line calls into `Proofs*.lean`).

"A message split into data and parity shards is reconstructed bit-for-bit from any subset of valid
shards of at least the reconstruction threshold, whichever shards are missing, and every shard's
Merkle proof verifies against the signed message root. A unit whose shard data, proof, index,
signature, committee or sender does not match is rejected and cannot cause a different message to
be delivered or the receiver to fail."

Model: `Model.lean` (padding over `UInt64`, Merkle tree, protobuf leaf), `ModelUnits.lean` (shards,
units, scheduler, validator, routing of units to validators) and `ModelProc.lean` (wire form of a
unit, subprocessor state machine, processor with its finalized cache). Parameters with explicit
laws: the hash (`Ideal`), the Reed-Solomon codec (`RSLaws`, checked on the real library by the
harness on every run), the signature scheme (only `verify` is used; unforgeability is what turns
"the signature verifies" into "the publisher signed this payload").

Variants. `cfg : Cfg` = which of the four repairs of the padding/sharding layer the code has; all
four are in /repo (a2bceaf, 32710c6, 8f80b72, d76716c), i.e. the tree is `Cfg.current`; section 0
restates the headline theorems for `Cfg.current` without any flag hypothesis. The theorems named
`*_before_fix_*` are regression statements: what the code did before the repair (true theorems
about the flag value `false`; the harness would drive the model with that value again if a repair
were lost). `pc : PCfg` = which of the three repairs of the wire/processor layer the code has; NONE
of them is in /repo yet (`PCfg.current = PCfg.pinned`): there the full-strength statements carry
the repair flag as hypothesis, the `_partial` theorems say what the current code satisfies, and
each defect is a proved theorem next to it.
-/
namespace Juno.C19.Props
open Juno.C19
variable {H : Type}

/-! ## 1. Padding: `unpad_pad`, length divisibility, `unpad_total` -/

/-- Go's `binary.Uvarint` reads back what `binary.PutUvarint` wrote, for every `uint64` and
whatever follows it, consuming exactly the bytes written (at most `MaxVarintLen64 = 10`). -/
theorem uvarint_roundtrip (x : UInt64) (rest : Bytes) :
    uvarint (putUvarint x ++ rest) = (x, ((putUvarint x).length : Int)) ∧
      0 < (putUvarint x).length ∧ (putUvarint x).length ≤ 10 :=
  ⟨uvarint_putUvarint x rest, putUvarint_length_pos x, putUvarint_length_le_ten x⟩

/-- `unpad_pad`: for every message and every `numDataShards = k > 0` (sizes a Go slice/int can
have: `PadInput`), with or without the repair of UnpadMessage:
`UnpadMessage(PadMessage(msg, k)) = (msg, nil)`. -/
theorem unpad_pad (guard : Bool) (msg : Bytes) (k : Nat) (h : PadInput msg k) :
    unpad guard (pad msg k) = .ok msg :=
  Juno.C19.unpad_pad guard msg k h

/-- The padded length is a multiple of `2*numDataShards`; the layout is
`[varint(len msg)] [msg] [fewer than 2k zero bytes]`. -/
theorem pad_length_divisible (msg : Bytes) (k : Nat) (h : PadInput msg k) :
    2 * k ∣ (pad msg k).length ∧
    ∃ z, pad msg k = putUvarint (UInt64.ofNat msg.length) ++ (msg ++ List.replicate z 0) ∧ z < 2 * k :=
  ⟨pad_length_dvd msg k h, by
    obtain ⟨z, h1, _, h3⟩ := pad_facts msg k h
    exact ⟨z, h1, h3⟩⟩

/-- What ConstructMessageFromUnits relies on: the parity shards copied behind the padded message
do not disturb unpadding. -/
theorem unpad_ignores_trailing_bytes (guard : Bool) (msg : Bytes) (k : Nat) (h : PadInput msg k)
    (extra : Bytes) (hx : (pad msg k ++ extra).length < 2 ^ 64) :
    unpad guard (pad msg k ++ extra) = .ok msg :=
  unpad_pad_append guard msg k h extra hx

/-- `unpad_total` (UnpadMessage since 32710c6, `guard = true`): for EVERY byte string the result
is a value or an error, never a panic, and a value is exactly the in-range slice
`padded[n : n+msgLen]` with `n + msgLen ≤ len(padded)` (decided over `UInt64`). -/
theorem unpad_total (p : Bytes) :
    unpad true p ≠ .panic ∧
    ∀ m, unpad true p = .ok m →
      0 < (uvarint p).2 ∧ ((uvarint p).2).toNat + (uvarint p).1.toNat ≤ p.length ∧
      m = (p.drop ((uvarint p).2).toNat).take (uvarint p).1.toNat ∧
      m.length = (uvarint p).1.toNat :=
  unpad_guard_total p

/-- Regression statement (UnpadMessage before 32710c6, `guard = false`): it panicked exactly when
`varintLen + msgLen` wraps around `uint64` and the wrapped sum does not exceed the buffer length;
on every other input it agreed with the repaired function. -/
theorem unpad_before_fix_32710c6 (p : Bytes) (hlen : p.length < 2 ^ 64) :
    (unpad false p = .panic ↔
      (0 < (uvarint p).2 ∧ 2 ^ 64 ≤ ((uvarint p).2).toNat + (uvarint p).1.toNat ∧
       ((uvarint p).2).toNat + (uvarint p).1.toNat - 2 ^ 64 ≤ p.length)) ∧
    (unpad false p ≠ .panic → unpad false p = unpad true p) :=
  ⟨unpad_pinned_panic_iff p hlen, unpad_variants_agree p hlen⟩

/-- The replayed input of the fixed finding `unpad-panics-on-length-overflow`, `ff×9 01 00 00`:
a panic before the repair (Go: `slice bounds out of range [10:9]`), a length error since. -/
theorem unpad_overflow_witness :
    unpad false [0xff, 0xff, 0xff, 0xff, 0xff, 0xff, 0xff, 0xff, 0xff, 0x01, 0, 0] = .panic ∧
    unpad true [0xff, 0xff, 0xff, 0xff, 0xff, 0xff, 0xff, 0xff, 0xff, 0x01, 0, 0] = .err .length := by
  decide

/-! ## 2. Merkle tree: `merkle_complete`, `merkle_sound` -/

/-- `merkle_complete`: for every non-empty leaf list and every index, the proof `merkle.New`
returns for that index verifies the leaf against the root `merkle.New` returns. No assumption on
the hash. -/
theorem merkle_complete [DecidableEq H] (f : HashFns H) (leaves : List Bytes) (i : Nat)
    (hi : i < leaves.length) :
    verify f ((merkleNew f leaves).2.getD i []) (merkleNew f leaves).1 (leaves.getD i []) i = true :=
  merkleNew_complete f leaves i hi

/-- `merkle_sound` (ideal hash): if ANY proof verifies ANY leaf bytes for index `idx` against the
root of `merkle.New(leaves)`, then the leaf is the one committed at position
`idx mod nextPowerOfTwo(n)` (the empty string at padding positions), the proof is the tree's own
sibling path of that position, and its length is the tree depth. `Verify` reads only the low
`depth` bits of the index: range checking the index is the caller's job (the scheduler does it). -/
theorem merkle_sound [DecidableEq H] (f : HashFns H) (hI : Ideal f) (leaves : List Bytes)
    (hne : leaves ≠ []) (proof : List H) (leaf : Bytes) (idx : Nat)
    (hv : verify f proof (merkleNew f leaves).1 leaf idx = true) :
    leaf = paddedLeaf leaves (idx % nextPow2 leaves.length) ∧
    proof = proofLoop f (bottomLayer f leaves) (idx % nextPow2 leaves.length) ∧
    2 ^ proof.length = nextPow2 leaves.length :=
  merkleNew_sound f hI leaves hne proof leaf idx hv

/-- The root binds the whole list of leaves (of a known length). -/
theorem merkle_root_binds_leaves [DecidableEq H] (f : HashFns H) (hI : Ideal f) (l1 l2 : List Bytes)
    (hlen : l1.length = l2.length) (hne : l1 ≠ [])
    (h : (merkleNew f l1).1 = (merkleNew f l2).1) : l1 = l2 :=
  merkleNew_root_inj f hI l1 l2 hlen hne h

/-! ## 3. Reconstruction: `reconstruct_any_subset` -/

/-- What CreatePropellerUnits returns: `k+p` units, unit `i` carrying shard `i`, its proof, the
common root and the signature over (root, committee, nonce). -/
theorem create_units_spec (cfg : Cfg) (f : HashFns H) (rs : RS) (sg : SigScheme H)
    (C P : Bytes) (nonce : Nat) (msg : Bytes) (k p : Nat) (hl : RSLaws rs k p) (hin : PadInput msg k)
    (hok : rsNewOk k p = true) :
    ∃ units, createUnits cfg f rs sg C P nonce msg k p = .ok units ∧ units.length = k + p ∧
      ∀ i, i < k + p → units[i]? = some (honestUnit cfg f rs sg C P nonce msg k p i) :=
  createUnits_spec cfg f rs sg C P nonce msg k p hl hin hok

/-- "every shard's Merkle proof verifies against the signed message root": for every unit made by
CreatePropellerUnits, with the leaf encoding sharding.go commits to. -/
theorem created_unit_proof_verifies [DecidableEq H] (cfg : Cfg) (f : HashFns H) (rs : RS)
    (sg : SigScheme H) (C P : Bytes) (nonce : Nat) (msg : Bytes) (k p i : Nat) (hl : RSLaws rs k p)
    (hin : PadInput msg k) (hi : i < k + p) :
    let u := honestUnit cfg f rs sg C P nonce msg k p i
    verify f u.proof u.root (leafOf cfg.shardingLeafProto ((encOf rs msg k p).getD i [])) u.index = true := by
  obtain ⟨_, _, hlen, _⟩ := encOf_spec rs msg k p hl hin
  have := merkleNew_complete f ((encOf rs msg k p).map (leafOf cfg.shardingLeafProto)) i
    (by simpa [hlen] using hi)
  simpa [honestUnit, treeOf, List.getD_eq_getElem?_getD, hlen, hi] using this

/-- `reconstruct_any_subset` (ConstructMessageFromUnits taking the root from a present unit, as it
does since a2bceaf): for every message, every `(k, p)` the codec accepts, EVERY selection `S` of at least
`k` of the `k+p` units made by CreatePropellerUnits — whichever are missing, shard 0 included — and
every local shard index: ConstructMessageFromUnits returns exactly the message, the local shard
and its proof. (Codec laws `RSLaws`; no assumption on the hash.) -/
theorem reconstruct_any_subset [DecidableEq H] (cfg : Cfg) (hfix : cfg.rootFromPresent = true)
    (f : HashFns H) (rs : RS) (sg : SigScheme H) (C P : Bytes) (nonce : Nat) (msg : Bytes) (k p : Nat)
    (hl : RSLaws rs k p) (hin : PadInput msg k) (hok : rsNewOk k p = true) (hsz : GoSized rs msg k p)
    (units : List (PUnit H)) (hc : createUnits cfg f rs sg C P nonce msg k p = .ok units)
    (S : List Bool) (hS : S.length = k + p) (hcount : k ≤ S.count true)
    (localIdx : Nat) (hloc : localIdx < k + p) :
    construct cfg f rs (maskUnits S units) localIdx k p =
      .ok (msg, (encOf rs msg k p).getD localIdx [], (treeOf cfg f rs msg k p).2.getD localIdx []) := by
  rw [createUnits_eq cfg f rs sg C P nonce msg k p hin.1 hok] at hc
  injection hc with hc
  subst hc
  exact construct_created cfg f rs C P _ _ msg k p hl hin hok hsz S hS hcount (Or.inl hfix) localIdx hloc

/-- Regression statement (any `cfg`, in particular the code before a2bceaf): the same, for the
selections that contain unit 0. -/
theorem reconstruct_any_subset_before_fix_a2bceaf [DecidableEq H] (cfg : Cfg)
    (f : HashFns H) (rs : RS) (sg : SigScheme H) (C P : Bytes) (nonce : Nat) (msg : Bytes) (k p : Nat)
    (hl : RSLaws rs k p) (hin : PadInput msg k) (hok : rsNewOk k p = true) (hsz : GoSized rs msg k p)
    (units : List (PUnit H)) (hc : createUnits cfg f rs sg C P nonce msg k p = .ok units)
    (S : List Bool) (hS : S.length = k + p) (hcount : k ≤ S.count true) (h0 : S.head? = some true)
    (localIdx : Nat) (hloc : localIdx < k + p) :
    construct cfg f rs (maskUnits S units) localIdx k p =
      .ok (msg, (encOf rs msg k p).getD localIdx [], (treeOf cfg f rs msg k p).2.getD localIdx []) := by
  rw [createUnits_eq cfg f rs sg C P nonce msg k p hin.1 hok] at hc
  injection hc with hc
  subst hc
  exact construct_created cfg f rs C P _ _ msg k p hl hin hok hsz S hS hcount (Or.inr h0) localIdx hloc

/-- Regression statement (code before a2bceaf), for ALL messages and configurations: whenever shard
0 is missing, however many other shards are present, ConstructMessageFromUnits panicked (nil
dereference of `units[0]`). -/
theorem reconstruct_panicked_without_shard0_before_fix_a2bceaf [DecidableEq H] (cfg : Cfg)
    (hpinned : cfg.rootFromPresent = false)
    (f : HashFns H) (rs : RS) (sg : SigScheme H) (C P : Bytes) (nonce : Nat) (msg : Bytes) (k p : Nat)
    (hl : RSLaws rs k p) (hin : PadInput msg k) (hok : rsNewOk k p = true) (hsz : GoSized rs msg k p)
    (units : List (PUnit H)) (hc : createUnits cfg f rs sg C P nonce msg k p = .ok units)
    (S : List Bool) (hS : S.length = k + p) (hcount : k ≤ S.count true) (h0 : S.head? = some false)
    (localIdx : Nat) (hloc : localIdx < k + p) :
    construct cfg f rs (maskUnits S units) localIdx k p = .panic := by
  rw [createUnits_eq cfg f rs sg C P nonce msg k p hin.1 hok] at hc
  injection hc with hc
  subst hc
  exact construct_created_panics_pinned cfg f rs C P _ _ msg k p hl hin hok hsz S hS hcount hpinned h0
    localIdx hloc

/-- The concrete replay of the fixed finding `construct-panics-when-shard0-missing`, on the model:
`(k, p) = (1, 1)` (three peers), message "hi", only unit 1 present. Before a2bceaf: panic. Now:
the message. -/
theorem reconstruct_without_shard0_witness (sg : SigScheme HTerm) (C P : Bytes) (nonce : Nat) :
    (∃ units, createUnits Cfg.pinned termFns repCode11 sg C P nonce [104, 105] 1 1 = .ok units ∧
      construct Cfg.pinned termFns repCode11 (maskUnits [false, true] units) 1 1 1 = .panic) ∧
    (∃ units sh pr, createUnits Cfg.repaired termFns repCode11 sg C P nonce [104, 105] 1 1 = .ok units ∧
      construct Cfg.repaired termFns repCode11 (maskUnits [false, true] units) 1 1 1 =
        .ok ([104, 105], sh, pr)) := by
  have hin : PadInput [104, 105] 1 := by unfold PadInput; decide
  have hok : rsNewOk 1 1 = true := by decide
  have hsz := goSized_of_small repCode11 [104, 105] 1 1 repCode11_laws hin hok (by decide)
  refine ⟨⟨_, createUnits_eq Cfg.pinned termFns repCode11 sg C P nonce _ 1 1 hin.1 hok, ?_⟩,
    ⟨_, (encOf repCode11 [104, 105] 1 1).getD 1 [],
      (treeOf Cfg.repaired termFns repCode11 [104, 105] 1 1).2.getD 1 [],
      createUnits_eq Cfg.repaired termFns repCode11 sg C P nonce _ 1 1 hin.1 hok, ?_⟩⟩
  · exact construct_created_panics_pinned Cfg.pinned termFns repCode11 C P _ _ _ 1 1 repCode11_laws hin hok
      hsz [false, true] rfl (by decide) rfl rfl 1 (by decide)
  · exact construct_created Cfg.repaired termFns repCode11 C P _ _ _ 1 1 repCode11_laws hin hok hsz
      [false, true] rfl (by decide) (Or.inl rfl) 1 (by decide)

/-- The size side condition `GoSized` of the theorems above holds for every message shorter than
2^50 bytes in every configuration the GF(2^8) codec accepts. -/
theorem go_sized_of_small (rs : RS) (msg : Bytes) (k p : Nat) (hl : RSLaws rs k p) (hin : PadInput msg k)
    (hok : rsNewOk k p = true) (hsmall : msg.length < 2 ^ 50) : GoSized rs msg k p :=
  goSized_of_small rs msg k p hl hin hok hsmall

/-! ## 4. Nothing else can be delivered; the receiver does not fail -/

/-- `construct_sound` — "cannot cause a different message to be delivered": for ARBITRARY units
(any shards, any fields, any number), if ConstructMessageFromUnits succeeds and the unit whose root
it compares carries the publisher's root for `msg`, then what it returns is `msg`, the publisher's
shard and the publisher's proof. (Ideal hash; of the codec only the number of shards it returns is used.) -/
theorem construct_sound [DecidableEq H] (cfg : Cfg) (f : HashFns H) (hI : Ideal f) (rs : RS)
    (msg : Bytes) (k p : Nat) (hl : RSLaws rs k p) (hin : PadInput msg k) (hsz : GoSized rs msg k p)
    (U : List (Option (PUnit H))) (localIdx : Nat) (m sh : Bytes) (pr : List H)
    (hc : construct cfg f rs U localIdx k p = .ok (m, sh, pr))
    (hroot : ∀ u0, rootUnit cfg U = some u0 → u0.root = (treeOf cfg f rs msg k p).1) :
    m = msg ∧ sh = (encOf rs msg k p).getD localIdx [] ∧
      pr = (treeOf cfg f rs msg k p).2.getD localIdx [] :=
  Juno.C19.construct_sound cfg f hI rs msg k p hl hin hsz U localIdx m sh pr hc hroot

/-- `construct_total` — "… or the receiver to fail" (a2bceaf and 32710c6 in place): on ANY units that carry at
least one shard each (the validator enforces exactly one) ConstructMessageFromUnits returns a
value or an error, never panics. -/
theorem construct_total [DecidableEq H] (cfg : Cfg) (f : HashFns H) (rs : RS)
    (k p : Nat) (hl : RSLaws rs k p) (hk : 0 < k) (h1 : cfg.rootFromPresent = true)
    (h2 : cfg.unpadGuard = true)
    (U : List (Option (PUnit H))) (hU : ∀ u, some u ∈ U → u.shards ≠ []) (localIdx : Nat)
    (hloc : localIdx < k + p) :
    construct cfg f rs U localIdx k p ≠ .panic :=
  Juno.C19.construct_total cfg f rs k p hl hk h1 h2 U hU localIdx hloc

/-- Regression statement (any `cfg`): a panic of ConstructMessageFromUnits has one of the two causes
repaired by a2bceaf and 32710c6 — `units[0]` missing, or the `uint64` overflow in UnpadMessage. -/
theorem construct_panic_causes [DecidableEq H] (cfg : Cfg) (f : HashFns H) (rs : RS)
    (k p : Nat) (hl : RSLaws rs k p) (hk : 0 < k)
    (U : List (Option (PUnit H))) (hU : ∀ u, some u ∈ U → u.shards ≠ []) (localIdx : Nat)
    (hloc : localIdx < k + p)
    (h : construct cfg f rs U localIdx k p = .panic) :
    (cfg.rootFromPresent = false ∧ U.headD none = none) ∨
    (cfg.unpadGuard = false ∧ ∃ full, unpad false full = .panic) :=
  construct_panic_only_if cfg f rs k p hl hk U hU localIdx hloc h

/-! ## 5. The validator: `bad_unit_rejected`, per corrupted field -/

/-- `bad_unit_rejected` (shard data / proof / index / sender / duplicate), stated as what an
ACCEPTED unit must look like: a unit that `UnitValidator.Validate` accepts and that carries the
publisher's root is, field by field, the publisher's unit for its index — shard `enc[index]`, the
tree's proof for `index`, `index < k+p` — was not accepted before, and was sent by the designated
broadcaster of that index (or by the publisher when the local peer is that broadcaster).
Any state of the validator, any sender, any unit. (Ideal hash.) -/
theorem accepted_unit_is_publishers [DecidableEq H] (cfg : Cfg) (f : HashFns H) (hI : Ideal f)
    (sg : SigScheme H) (s : Sched) (publisher : Bytes) (st st' : VState) (u : PUnit H) (sender : Bytes)
    (enc : List Bytes) (hne : enc ≠ []) (htotal : s.total = enc.length)
    (hroot : u.root = (merkleNew f (enc.map (leafOf cfg.validatorLeafProto))).1)
    (h : validate cfg f sg s publisher st u sender = .ok st') :
    u.index < enc.length ∧ u.shards = [enc.getD u.index []] ∧
    u.proof = (merkleNew f (enc.map (leafOf cfg.validatorLeafProto))).2.getD u.index [] ∧
    u.index ∉ st.received ∧
    ∃ expected, s.peerForShard u.publisher u.index = .ok expected ∧
      ((expected = s.localId ∧ sender = u.publisher) ∨ expected = sender) :=
  validate_sound cfg f hI sg s publisher st st' u sender enc hne htotal hroot h

/-- Corrupted shard data is rejected. -/
theorem bad_shard_rejected [DecidableEq H] (cfg : Cfg) (f : HashFns H) (hI : Ideal f)
    (sg : SigScheme H) (s : Sched) (publisher : Bytes) (st : VState) (u : PUnit H) (sender : Bytes)
    (enc : List Bytes) (hne : enc ≠ []) (htotal : s.total = enc.length)
    (hroot : u.root = (merkleNew f (enc.map (leafOf cfg.validatorLeafProto))).1)
    (hbad : u.shards ≠ [enc.getD u.index []]) :
    ∃ e, validate cfg f sg s publisher st u sender = .error e := by
  cases h : validate cfg f sg s publisher st u sender with
  | error e => exact ⟨e, rfl⟩
  | ok st' => exact absurd (validate_sound cfg f hI sg s publisher st st' u sender enc hne htotal hroot h).2.1 hbad

/-- A corrupted Merkle proof is rejected. -/
theorem bad_proof_rejected [DecidableEq H] (cfg : Cfg) (f : HashFns H) (hI : Ideal f)
    (sg : SigScheme H) (s : Sched) (publisher : Bytes) (st : VState) (u : PUnit H) (sender : Bytes)
    (enc : List Bytes) (hne : enc ≠ []) (htotal : s.total = enc.length)
    (hroot : u.root = (merkleNew f (enc.map (leafOf cfg.validatorLeafProto))).1)
    (hbad : u.proof ≠ (merkleNew f (enc.map (leafOf cfg.validatorLeafProto))).2.getD u.index []) :
    ∃ e, validate cfg f sg s publisher st u sender = .error e := by
  cases h : validate cfg f sg s publisher st u sender with
  | error e => exact ⟨e, rfl⟩
  | ok st' => exact absurd (validate_sound cfg f hI sg s publisher st st' u sender enc hne htotal hroot h).2.2.1 hbad

/-- An index outside `[0, k+p)` is rejected — including `index + treeSize`, which passes the
Merkle check (`merkle_sound`) — and so is an index accepted before. -/
theorem bad_index_rejected [DecidableEq H] (cfg : Cfg) (f : HashFns H) (sg : SigScheme H) (s : Sched)
    (publisher : Bytes) (st : VState) (u : PUnit H) (sender : Bytes)
    (hbad : s.total ≤ u.index ∨ u.index ∈ st.received) :
    ∃ e, validate cfg f sg s publisher st u sender = .error e := by
  cases h : validate cfg f sg s publisher st u sender with
  | error e => exact ⟨e, rfl⟩
  | ok st' =>
    obtain ⟨hdup, horig, _⟩ := validate_ok_inv cfg f sg s publisher st st' u sender h
    obtain ⟨_, _, hidx, _⟩ := origin_ok_inv s sender u.publisher u.index horig
    cases hbad with
    | inl hb => omega
    | inr hb => simp [hb] at hdup

/-- A unit from any sender other than the designated broadcaster of its index (or the publisher,
when the local peer is the designated broadcaster) is rejected. -/
theorem bad_sender_rejected [DecidableEq H] (cfg : Cfg) (f : HashFns H) (sg : SigScheme H) (s : Sched)
    (publisher : Bytes) (st : VState) (u : PUnit H) (sender expected : Bytes)
    (hp : s.peerForShard u.publisher u.index = .ok expected)
    (h1 : ¬ (expected = s.localId ∧ sender = u.publisher)) (h2 : expected ≠ sender) :
    ∃ e, validate cfg f sg s publisher st u sender = .error e := by
  cases h : validate cfg f sg s publisher st u sender with
  | error e => exact ⟨e, rfl⟩
  | ok st' =>
    obtain ⟨_, horig, _⟩ := validate_ok_inv cfg f sg s publisher st st' u sender h
    obtain ⟨e, he⟩ := origin_rejects_other_sender s sender u.publisher u.index expected hp h1 h2
    rw [he] at horig; cases horig

/-- Who the designated broadcasters are: for a publisher in a duplicate-free committee of
`k+p+1` peers every shard index `< k+p` has exactly one designated broadcaster, a member other than
the publisher, and no peer is designated for two indices — so `bad_sender_rejected` leaves a
Byzantine peer at most its own index. (The harness checks on the real `NewScheduler` that its peer
list is duplicate-free and that `ShardIndexForPublisher` is the inverse map.) -/
theorem designated_broadcaster_unique (s : Sched) (hnd : s.peers.Nodup)
    (hlen : s.peers.length = s.total + 1) (pub : Bytes) (hp : pub ∈ s.peers) :
    (∀ i, i < s.total → ∃ q, s.peerForShard pub i = .ok q ∧ q ∈ s.peers ∧ q ≠ pub) ∧
    (∀ i j q, s.peerForShard pub i = .ok q → s.peerForShard pub j = .ok q → i = j) :=
  peerForShard_spec s hnd hlen pub hp

/-- `bad_unit_rejected` (signature / committee / nonce / root / publisher), over ANY sequence of
deliveries through the processor's routing (one validator per message key, signature cached after
the first verification), starting with no validators: every accepted unit carries a signature that
verifies under ITS publisher's key over ITS OWN (root, committee, nonce), and passed the origin and
Merkle checks. With an unforgeable signature scheme a unit whose signature, committee, nonce, root
or publisher was altered therefore is rejected unless the publisher signed exactly the altered
payload. -/
theorem accepted_units_are_signed [DecidableEq H] (cfg : Cfg) (f : HashFns H) (sg : SigScheme H)
    (s : Sched) (ops : List (PUnit H × Bytes)) (i : Nat) (u : PUnit H) (sender : Bytes)
    (hop : ops[i]? = some (u, sender))
    (hacc : (deliverAll cfg f sg s [] ops)[i]? = some (.ok ())) :
    sg.verify u.publisher ⟨u.root, u.committee, u.nonce⟩ u.sig = true ∧
    s.validateOrigin sender u.publisher u.index = .ok () ∧
    verifyDataShards cfg f u = .ok () :=
  deliverAll_accepted cfg f sg s ops [] (routesOk_nil sg) i u sender hop hacc

/-- One delivery in any reachable state: a unit whose signature does not verify over its own
fields is rejected (also when a signature is already cached for its message key), the invariant
is kept, and no index is accepted twice for one message key. -/
theorem bad_signature_rejected [DecidableEq H] (cfg : Cfg) (f : HashFns H) (sg : SigScheme H)
    (s : Sched) (r : Routes H) (hr : RoutesOk sg r) (u : PUnit H) (sender : Bytes)
    (hbad : sg.verify u.publisher ⟨u.root, u.committee, u.nonce⟩ u.sig = false) :
    (deliver cfg f sg s r u sender).2 ≠ .ok () ∧ RoutesOk sg (deliver cfg f sg s r u sender).1 := by
  refine ⟨fun h => ?_, (deliver_step cfg f sg s r u sender hr).1⟩
  have := ((deliver_step cfg f sg s r u sender hr).2 h).1
  rw [hbad] at this; cases this

theorem no_index_accepted_twice [DecidableEq H] (cfg : Cfg) (f : HashFns H) (sg : SigScheme H)
    (s : Sched) (r : Routes H) (hr : RoutesOk sg r) (u : PUnit H) (sender : Bytes)
    (hacc : (deliver cfg f sg s r u sender).2 = .ok ()) :
    (∀ st, r.find (keyOf u) = some st → u.index ∉ st.received) ∧
    ∃ st', (deliver cfg f sg s r u sender).1.find (keyOf u) = some st' ∧ u.index ∈ st'.received ∧
      st'.received.Nodup := by
  obtain ⟨_, _, _, h4, st', h5, h6⟩ := (deliver_step cfg f sg s r u sender hr).2 hacc
  exact ⟨h4, st', h5, h6, ((deliver_step cfg f sg s r u sender hr).1 _ _ h5).1⟩

/-! ## 6. Completeness of the validator (honest units are accepted) -/

/-- `honest_unit_accepted`: when sharding.go and unit_validator.go use the same leaf encoding and the
signature verifies over the unit's own fields, unit `i` of CreatePropellerUnits is accepted from a
sender that passes the origin check, by a fresh validator or one that cached the same signature,
unless index `i` was accepted before. -/
theorem honest_unit_accepted [DecidableEq H] (cfg : Cfg) (f : HashFns H) (rs : RS) (sg : SigScheme H)
    (s : Sched) (C P : Bytes) (nonce : Nat) (msg : Bytes) (k p i : Nat)
    (hcfg : cfg.shardingLeafProto = cfg.validatorLeafProto)
    (hl : RSLaws rs k p) (hin : PadInput msg k) (hi : i < k + p)
    (st : VState) (hnew : i ∉ st.received) (sender : Bytes)
    (horig : s.validateOrigin sender P i = .ok ())
    (hsig : st.verifiedSig = some (sg.sign ⟨(treeOf cfg f rs msg k p).1, C, nonce⟩) ∨
      (st.verifiedSig = none ∧ sg.sign ⟨(treeOf cfg f rs msg k p).1, C, nonce⟩ ≠ [] ∧
       sg.verify P ⟨(treeOf cfg f rs msg k p).1, C, if cfg.nonceSet then nonce else 0⟩
         (sg.sign ⟨(treeOf cfg f rs msg k p).1, C, nonce⟩) = true)) :
    validate cfg f sg s P st (honestUnit cfg f rs sg C P nonce msg k p i) sender =
      .ok { received := i :: st.received,
            verifiedSig := some (sg.sign ⟨(treeOf cfg f rs msg k p).1, C, nonce⟩) } :=
  validate_accepts_honest cfg f rs sg s C P nonce msg k p i hcfg hl hin hi st hnew sender horig hsig

/-- Regression statement (leaf encodings before 8f80b72), for ALL messages, configurations and
indices: every unit of CreatePropellerUnits failed `verifyDataShards`. -/
theorem honest_unit_rejected_before_fix_8f80b72 [DecidableEq H] (cfg : Cfg) (f : HashFns H)
    (hI : Ideal f) (rs : RS) (sg : SigScheme H) (C P : Bytes) (nonce : Nat) (msg : Bytes) (k p i : Nat)
    (h1 : cfg.shardingLeafProto = false) (h2 : cfg.validatorLeafProto = true)
    (hl : RSLaws rs k p) (hin : PadInput msg k) (hi : i < k + p) :
    verifyDataShards cfg f (honestUnit cfg f rs sg C P nonce msg k p i) = .error .merkle :=
  created_unit_rejected_when_leaf_encodings_differ cfg f hI rs sg C P nonce msg k p i h1 h2 hl hin hi

/-- The unit's own (root, committee, nonce) is the payload the publisher signed iff
CreatePropellerUnits stores the nonce (since d76716c) or the nonce is 0: before, with any other
nonce, an unforgeable scheme rejected the signature of every honest unit. -/
theorem created_unit_signed_payload (cfg : Cfg) (f : HashFns H) (rs : RS) (sg : SigScheme H) (C P : Bytes)
    (nonce : Nat) (msg : Bytes) (k p i : Nat) :
    let u := honestUnit cfg f rs sg C P nonce msg k p i
    ((⟨u.root, u.committee, u.nonce⟩ : Payload H) = ⟨(treeOf cfg f rs msg k p).1, C, nonce⟩) ↔
      (cfg.nonceSet = true ∨ nonce = 0) :=
  created_unit_payload cfg f rs sg C P nonce msg k p i

/-! ## 7. The scheduler `NewScheduler` builds -/

/-- Reachability: every scheduler `NewScheduler` returns has a strictly sorted, duplicate-free peer
list with exactly the given peers, `k = max(1, (N-1)/3)` data shards, `k + c = N - 1` shards in
total, and the local peer at `localIdx` — everything the other theorems assume of a `Sched`. -/
theorem scheduler_wellformed (id : Bytes) (nodes : List Bytes) (s : Sched)
    (h : newScheduler id nodes = .ok s) :
    s.peers = sortIds nodes ∧ SortedLt s.peers ∧ s.peers.Nodup ∧
    s.peers.length = nodes.length ∧ 2 ≤ nodes.length ∧
    s.peers.length = s.total + 1 ∧ 1 ≤ s.k ∧ s.k = max 1 ((nodes.length - 1) / 3) ∧
    s.localId = id ∧ s.peers.idxOf? id = some s.localIdx ∧
    (∀ q, q ∈ s.peers ↔ q ∈ nodes) :=
  newScheduler_spec id nodes s h

/-- For a scheduler made by `NewScheduler` and any publisher in the committee: every shard index
has exactly one designated broadcaster, a member other than the publisher; no peer has two. -/
theorem scheduler_assignment_bijective (id : Bytes) (nodes : List Bytes) (s : Sched)
    (h : newScheduler id nodes = .ok s) (pub : Bytes) (hp : pub ∈ nodes) :
    (∀ i, i < s.total → ∃ q, s.peerForShard pub i = .ok q ∧ q ∈ s.peers ∧ q ≠ pub) ∧
    (∀ i j q, s.peerForShard pub i = .ok q → s.peerForShard pub j = .ok q → i = j) := by
  obtain ⟨_, _, hnd, _, _, hlen, _, _, _, _, hmem⟩ := newScheduler_spec id nodes s h
  exact peerForShard_spec s hnd hlen pub ((hmem pub).mpr hp)

/-- `ShardIndexForPublisher` inverts `PeerForShardIndex`: the shard index the local peer computes
for itself is in range and is the one whose designated broadcaster is the local peer. -/
theorem scheduler_local_index_inverse (id : Bytes) (nodes : List Bytes) (s : Sched)
    (h : newScheduler id nodes = .ok s) (pub : Bytes) (hp : pub ∈ nodes) (hne : pub ≠ id) :
    ∃ i, s.shardIndexFor pub = .ok i ∧ i < s.total ∧ s.peerForShard pub i = .ok s.localId := by
  obtain ⟨_, _, _, _, _, hlen, _, _, hid, hloc, hmem⟩ := newScheduler_spec id nodes s h
  exact shardIndexFor_inverse s hlen (by rw [hid]; exact hloc) pub ((hmem pub).mpr hp) (by rw [hid]; exact hne)

/-- Completeness of the origin check: the designated sender (the broadcaster of the index, or the
publisher when that is the local peer) passes it. -/
theorem origin_accepts_designated_sender (s : Sched) (pub : Bytes) (i : Nat) (sender : Bytes)
    (hne : pub ≠ s.localId) (h : s.legitSender pub i = some sender) :
    s.validateOrigin sender pub i = .ok () :=
  origin_accepts_legit s pub i sender hne h

/-! ## 8. The wire form of a unit (UnitFromProto / ToProto) -/

/-- Round trip: `UnitFromProto(unit.ToProto()) = unit` for every well-formed unit (`WireOk`: at
least one shard, equal shard lengths, 32-byte hashes and committee id, 32-bit index, 64-bit nonce),
with or without the guard. -/
theorem unit_proto_roundtrip (guard : Bool) (u : PUnit Bytes) (h : WireOk u) :
    unitFromProto guard (unitToProto u) = .ok u :=
  unitFromProto_toProto guard u h

/-- Whatever UnitFromProto lets through has at least one shard, a 32-byte root, 32-byte siblings
and committee id and a 32-bit index. -/
theorem unit_from_proto_shape (guard : Bool) (pu : ProtoUnit) (u : PUnit Bytes)
    (h : unitFromProto guard pu = .ok u) : u.shards ≠ [] ∧ u.root.length = 32 ∧
      (∀ s ∈ u.proof, s.length = 32) ∧ u.committee.length = 32 ∧ u.index < 2 ^ 32 :=
  unitFromProto_ok_shape guard pu u h

/-- `unit_from_proto_total` (with proposed-fixes/C19-unit-from-proto-malformed-unit.diff,
`wireGuard = true`): no protobuf unit whatsoever makes UnitFromProto panic. -/
theorem unit_from_proto_total (pu : ProtoUnit) : unitFromProto true pu ≠ .panic :=
  unitFromProto_total pu

/- Full-strength statement for the code in /repo (`wireGuard = false`) — FALSE (known findings
   `unit-from-proto-panics-on-unit-without-shards`, `unit-from-proto-panics-on-short-merkle-root`):
     theorem unit_from_proto_total_current (pu) : unitFromProto false pu ≠ .panic
   What holds instead: -/

/-- `unit_from_proto_total_partial` (current code): it panics exactly on a unit without shards, or
on one that passes the shard-length loop and has a Merkle root shorter than 32 bytes. Missing for
full strength: those two inputs, both reachable from the network (`receiveUnits`). -/
theorem unit_from_proto_total_partial (pu : ProtoUnit) :
    unitFromProto false pu = .panic ↔
      (pu.shards = [] ∨
       ((pu.shards.take (pu.shards.length - 1)).any (fun s => s.length != (pu.shards.headD []).length) = false ∧
        pu.merkleRoot.length < 32)) :=
  unitFromProto_pinned_panic_iff pu

/-- Negation witnesses: the empty unit, and a unit with one shard and no Merkle root. -/
theorem unit_from_proto_panics_current :
    unitFromProto false ⟨[], 0, [], [], [], [], [], 0⟩ = .panic ∧
    unitFromProto false ⟨[[1, 2]], 0, [], [], [], [], [], 0⟩ = .panic ∧
    unitFromProto true ⟨[], 0, [], [], [], [], [], 0⟩ = .err .noShards ∧
    unitFromProto true ⟨[[1, 2]], 0, [], [], [], [], [], 0⟩ = .err .rootLen := by
  decide

/-! ## 9. The processor: units in any order, duplicates, forged units interleaved -/

/-- Reachability: the invariant the processor theorems need (`ProcInv`: every stored subprocessor
holds only units of its own message key, each with a shard, one slot per shard index, and has
accepted at least one unit) holds initially and is kept by every step — hence in every state
reachable by any sequence of units. -/
theorem processor_invariant [DecidableEq H] (cfg : Cfg) (pc : PCfg) (f : HashFns H) (rs : RS)
    (sg : SigScheme H) (s : Sched) :
    ProcInv s (Proc.empty : Proc H) ∧
    ∀ (p : Proc H) (u : PUnit H) (sender : Bytes), ProcInv s p →
      ProcInv s (procStep cfg pc f rs sg s p u sender).1 :=
  ⟨procInv_empty s, fun p u sender hp => procStep_inv cfg pc f rs sg s p u sender hp⟩

/-- `processor_builds_exact_message` — over ANY sequence of `(unit, sender)` pairs handed to a
fresh processor (any order, duplicates, forged units of this or other messages interleaved): if a
step builds a message for a unit that carries the publisher's root of `msg`, the message built is
`msg`. (Ideal hash; codec laws for the scheduler's `(k, c)`.) -/
theorem processor_builds_exact_message [DecidableEq H] (cfg : Cfg) (pc : PCfg) (f : HashFns H)
    (hI : Ideal f) (rs : RS) (sg : SigScheme H) (s : Sched) (msg : Bytes) (hl : RSLaws rs s.k s.c)
    (hin : PadInput msg s.k) (hsz : GoSized rs msg s.k s.c)
    (ops : List (PUnit H × Bytes)) (i : Nat) (u : PUnit H) (sender : Bytes) (bc : List (PUnit H))
    (m : Bytes) (e : Option Bool) (hop : ops[i]? = some (u, sender))
    (hroot : u.root = (treeOf cfg f rs msg s.k s.c).1)
    (hb : (procRun cfg pc f rs sg s Proc.empty ops)[i]? = some (.handled bc (some m) e)) : m = msg :=
  procRun_built_sound cfg pc f hI rs sg s msg hl hin hsz ops Proc.empty (procInv_empty s) i u sender bc m e
    hop hroot hb

/-- One step in any reachable state: besides the message, every unit handed to `broadcastUnit` is
the accepted unit itself or the local unit carrying the publisher's shard and proof for the local
shard index under the same message key. -/
theorem processor_broadcasts_publishers_unit [DecidableEq H] (cfg : Cfg) (pc : PCfg) (f : HashFns H)
    (hI : Ideal f) (rs : RS) (sg : SigScheme H) (s : Sched) (p : Proc H) (hp : ProcInv s p) (u : PUnit H)
    (sender : Bytes) (msg : Bytes) (hl : RSLaws rs s.k s.c) (hin : PadInput msg s.k)
    (hsz : GoSized rs msg s.k s.c) (hroot : u.root = (treeOf cfg f rs msg s.k s.c).1)
    (bc : List (PUnit H)) (m : Bytes) (e : Option Bool)
    (h : (procStep cfg pc f rs sg s p u sender).2 = .handled bc (some m) e) :
    m = msg ∧ ∃ li, s.shardIndexFor u.publisher = .ok li ∧
      ∀ lu ∈ bc, lu = u ∨ (lu.shards = [(encOf rs msg s.k s.c).getD li []] ∧
        lu.proof = (treeOf cfg f rs msg s.k s.c).2.getD li [] ∧ lu.index = li ∧ keyOf lu = keyOf u) :=
  procStep_built_sound cfg pc f hI rs sg s p hp u sender msg hl hin hsz hroot bc m e h

/-- `processor_builds_once` — "threshold reached → reconstruct exactly once": over any sequence
of units from any state, two different steps never both build the message of one key. -/
theorem processor_builds_once [DecidableEq H] (cfg : Cfg) (pc : PCfg) (f : HashFns H) (rs : RS)
    (sg : SigScheme H) (s : Sched) (ops : List (PUnit H × Bytes)) (p : Proc H) (i j : Nat) (hij : i < j)
    (ui uj : PUnit H) (si sj : Bytes) (bi bj : List (PUnit H)) (mi mj : Bytes) (ei ej : Option Bool)
    (hi : ops[i]? = some (ui, si)) (hj : ops[j]? = some (uj, sj)) (hk : keyOf ui = keyOf uj)
    (hbi : (procRun cfg pc f rs sg s p ops)[i]? = some (.handled bi (some mi) ei)) :
    (procRun cfg pc f rs sg s p ops)[j]? ≠ some (.handled bj (some mj) ej) :=
  procRun_builds_at_most_once cfg pc f rs sg s ops p i j hij ui uj si sj bi bj mi mj ei ej hi hj hk hbi

/-- `rejected_unit_is_noop` (with proposed-fixes/C19-processor-first-invalid-unit-no-poison.diff,
`noPoison = true`) — "a unit … that does not match is rejected and cannot cause … the receiver to
fail": in any reachable state a unit rejected by the validator of its message key triggers no
broadcast and no build, does not panic, and leaves every later outcome of every later unit — of
any message — exactly what it would have been without it. -/
theorem rejected_unit_is_noop [DecidableEq H] (cfg : Cfg) (pc : PCfg) (hfix : pc.noPoison = true)
    (f : HashFns H) (rs : RS) (sg : SigScheme H) (s : Sched) (p : Proc H) (hp : ProcInv s p)
    (u : PUnit H) (sender : Bytes) (e : VErr)
    (hrej : validate cfg f sg s (keyOf u).publisher
      ((p.findSub (keyOf u)).getD (SubState.fresh s.total)).v u sender = .error e) :
    (∀ bc b en, (procStep cfg pc f rs sg s p u sender).2 = .handled bc b en → bc = [] ∧ b = none) ∧
    (procStep cfg pc f rs sg s p u sender).2 ≠ .panic ∧
    ∀ ops, procRun cfg pc f rs sg s (procStep cfg pc f rs sg s p u sender).1 ops =
      procRun cfg pc f rs sg s p ops :=
  Juno.C19.rejected_unit_is_noop cfg pc hfix f rs sg s p hp u sender e hrej

/- Full-strength statement for the code in /repo (drop `hfix`) — FALSE (known finding
   `processor-drops-message-after-invalid-first-unit`). What the current code does instead: -/

/-- `rejected_unit_is_noop_partial` (current code, `noPoison = false`) — the negation, for ALL
messages: when the FIRST unit of a message key is rejected the key enters the finalized cache, and
from then on every unit of that message, the honest ones included, is ignored. (A rejected unit that
is not the first of its key is harmless in the current code too: `rejected_unit_is_noop` needs the
flag only for that case.) -/
theorem rejected_first_unit_suppresses_message_current [DecidableEq H] (cfg : Cfg) (pc : PCfg)
    (hpin : pc.noPoison = false) (f : HashFns H) (rs : RS) (sg : SigScheme H) (s : Sched) (p : Proc H)
    (u : PUnit H) (sender : Bytes) (e : VErr) (li : Nat) (hnew : p.findSub (keyOf u) = none)
    (hnf : p.finalized.contains (keyOf u) = false)
    (hsi : s.shardIndexFor (keyOf u).publisher = .ok li)
    (hrej : validate cfg f sg s (keyOf u).publisher VState.fresh u sender = .error e)
    (ops : List (PUnit H × Bytes)) (i : Nat) (u' : PUnit H) (sender' : Bytes)
    (hop : ops[i]? = some (u', sender')) (hk : keyOf u' = keyOf u) :
    (procRun cfg pc f rs sg s (procStep cfg pc f rs sg s p u sender).1 ops)[i]? = some .ignored :=
  finalized_key_ignores_units cfg pc f rs sg s (keyOf u) ops _
    (first_invalid_unit_poisons_key cfg pc hpin f rs sg s p u sender e li hnew hnf hsi hrej) i u' sender' hop hk

/-- `subprocessor_total` (a2bceaf, 32710c6 and
proposed-fixes/C19-processor-local-unit-from-present.diff in place): no unit, honest or forged, makes
a subprocessor panic. -/
theorem subprocessor_total [DecidableEq H] (cfg : Cfg) (pc : PCfg) (f : HashFns H) (rs : RS)
    (sg : SigScheme H) (s : Sched) (key : MsgKey H) (li : Nat) (st : SubState H) (u : PUnit H)
    (sender : Bytes) (h1 : cfg.rootFromPresent = true) (h2 : cfg.unpadGuard = true)
    (h3 : pc.localFromPresent = true) (hl : RSLaws rs s.k s.c) (hk : 0 < s.k) (hli : li < s.total)
    (hU : UnitsInv s key st) (hu : keyOf u = key) :
    subStep cfg pc f rs sg s key.publisher li st u sender ≠ .panic :=
  subStep_total cfg pc f rs sg s key li st u sender h1 h2 h3 hl hk hli hU hu

/- Full-strength statement for the code in /repo (drop `h3`) — FALSE (known finding
   `processor-panics-filling-local-unit-when-shard0-not-received`): -/

/-- `subprocessor_total_partial` (current code, `localFromPresent = false`) — the negation, for ALL
messages: when the unit that completes the build threshold is accepted, the build succeeds, the
local shard has not been forwarded and slot 0 is empty, the subprocessor panics (nil dereference of
`unitsReceived[0]`) — in a goroutine of its own, which takes the node down. -/
theorem subprocessor_panics_without_shard0_current [DecidableEq H] (cfg : Cfg) (pc : PCfg)
    (hpin : pc.localFromPresent = false) (f : HashFns H) (rs : RS) (sg : SigScheme H) (s : Sched)
    (publisher : Bytes) (li : Nat) (st : SubState H) (u : PUnit H) (sender : Bytes) (v' : VState)
    (r : Bytes × Bytes × List H)
    (hstage : st.built = none) (hv : validate cfg f sg s publisher st.v u sender = .ok v')
    (hk : st.count + 1 = s.k)
    (hc : construct cfg f rs (st.units.set u.index (some u)) li s.k s.c = .ok r)
    (hnot : st.localSent = false) (hli : li ≠ u.index)
    (h0 : (st.units.set u.index (some u)).headD none = none) :
    subStep cfg pc f rs sg s publisher li st u sender = .panic :=
  subStep_panics_filling_local_unit_pinned cfg pc hpin f rs sg s publisher li st u sender v' r hstage hv hk hc
    hnot hli h0

/-! ## 0. The code as it is now (`Cfg.current`): the headline theorems without flag hypotheses -/

theorem current_unpad_total (p : Bytes) : unpad Cfg.current.unpadGuard p ≠ .panic :=
  (unpad_guard_total p).1

theorem current_reconstruct_any_subset [DecidableEq H]
    (f : HashFns H) (rs : RS) (sg : SigScheme H) (C P : Bytes) (nonce : Nat) (msg : Bytes) (k p : Nat)
    (hl : RSLaws rs k p) (hin : PadInput msg k) (hok : rsNewOk k p = true) (hsmall : msg.length < 2 ^ 50)
    (units : List (PUnit H)) (hc : createUnits Cfg.current f rs sg C P nonce msg k p = .ok units)
    (S : List Bool) (hS : S.length = k + p) (hcount : k ≤ S.count true)
    (localIdx : Nat) (hloc : localIdx < k + p) :
    construct Cfg.current f rs (maskUnits S units) localIdx k p =
      .ok (msg, (encOf rs msg k p).getD localIdx [], (treeOf Cfg.current f rs msg k p).2.getD localIdx []) :=
  reconstruct_any_subset Cfg.current rfl f rs sg C P nonce msg k p hl hin hok
    (goSized_of_small rs msg k p hl hin hok hsmall) units hc S hS hcount localIdx hloc

theorem current_construct_total [DecidableEq H] (f : HashFns H) (rs : RS)
    (k p : Nat) (hl : RSLaws rs k p) (hk : 0 < k)
    (U : List (Option (PUnit H))) (hU : ∀ u, some u ∈ U → u.shards ≠ []) (localIdx : Nat)
    (hloc : localIdx < k + p) :
    construct Cfg.current f rs U localIdx k p ≠ .panic :=
  Juno.C19.construct_total Cfg.current f rs k p hl hk rfl rfl U hU localIdx hloc

/-- End to end on the current code: unit `i` of CreatePropellerUnits, sent by its designated sender,
is accepted by a fresh validator of a receiver whose scheduler was made by `NewScheduler` — given
only that signing then verifying succeeds and signatures are not empty. -/
theorem current_honest_unit_accepted [DecidableEq H] (f : HashFns H) (rs : RS) (sg : SigScheme H)
    (id : Bytes) (nodes : List Bytes) (s : Sched) (hs : newScheduler id nodes = .ok s)
    (C P : Bytes) (hP : P ≠ id) (nonce : Nat) (msg : Bytes) (i : Nat) (sender : Bytes)
    (hl : RSLaws rs s.k s.c) (hin : PadInput msg s.k) (hi : i < s.k + s.c)
    (hsender : s.legitSender P i = some sender)
    (hne : sg.sign ⟨(treeOf Cfg.current f rs msg s.k s.c).1, C, nonce⟩ ≠ [])
    (hsv : sg.verify P ⟨(treeOf Cfg.current f rs msg s.k s.c).1, C, nonce⟩
      (sg.sign ⟨(treeOf Cfg.current f rs msg s.k s.c).1, C, nonce⟩) = true) :
    validate Cfg.current f sg s P VState.fresh (honestUnit Cfg.current f rs sg C P nonce msg s.k s.c i) sender =
      .ok { received := [i], verifiedSig := some (sg.sign ⟨(treeOf Cfg.current f rs msg s.k s.c).1, C, nonce⟩) } := by
  obtain ⟨_, _, _, _, _, _, _, _, hid, _, _⟩ := newScheduler_spec id nodes s hs
  exact validate_accepts_honest Cfg.current f rs sg s C P nonce msg s.k s.c i rfl hl hin hi VState.fresh
    (by simp [VState.fresh]) sender (origin_accepts_legit s P i sender (by rw [hid]; exact hP) hsender)
    (Or.inr ⟨rfl, hne, hsv⟩)

/-! ## Non-vacuity: the hypotheses are satisfiable -/

example : Ideal termFns := ideal_termFns
example : RSLaws trivialCode 1 0 := trivialCode_laws
example : RSLaws repCode11 1 1 := repCode11_laws
example : PadInput [1, 2, 3] 3 := by unfold PadInput; decide
example : rsNewOk 3 6 = true := by decide
example : RoutesOk (⟨fun _ => [1], fun _ _ _ => true⟩ : SigScheme HTerm) [] := routesOk_nil _
example : Cfg.current = Cfg.repaired ∧ PCfg.current = PCfg.pinned := ⟨rfl, rfl⟩
example : ProcInv (⟨[], 0, [], 1, 0⟩ : Sched) (Proc.empty : Proc HTerm) := procInv_empty _
example : WireOk (⟨List.replicate 32 0, [1], List.replicate 32 7, [List.replicate 32 9], [5], 3, [[1, 2]], 8⟩ : PUnit Bytes) :=
  ⟨by simp, by simp, by simp, by simp, by simp, by decide, by decide⟩
example : Cfg.repaired.rootFromPresent = true ∧ Cfg.repaired.unpadGuard = true ∧
    Cfg.repaired.shardingLeafProto = Cfg.repaired.validatorLeafProto ∧ Cfg.repaired.nonceSet = true := by decide
example : Cfg.pinned.rootFromPresent = false ∧ Cfg.pinned.shardingLeafProto = false ∧
    Cfg.pinned.validatorLeafProto = true ∧ Cfg.pinned.nonceSet = false := by decide
-- a value on which unpad succeeds, one on which it errs
example : unpad false [3, 1, 2, 3, 0, 0] = .ok [1, 2, 3] ∧ unpad true [9, 1] = .err .length ∧
    unpad true [0x80] = .err .varint := by decide

end Juno.C19.Props
