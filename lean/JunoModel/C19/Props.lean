import JunoModel.C19.ProofsPad
import JunoModel.C19.ProofsMerkle
import JunoModel.C19.ProofsUnits
import JunoModel.C19.ProofsValidator
/-!
C19 — property theorems (statements only; the proofs are one-line calls into `Proofs*.lean`).

"A message split into data and parity shards is reconstructed bit-for-bit from any subset of valid
shards of at least the reconstruction threshold, whichever shards are missing, and every shard's
Merkle proof verifies against the signed message root. A unit whose shard data, proof, index,
signature, committee or sender does not match is rejected and cannot cause a different message to
be delivered or the receiver to fail."

Model: `Model.lean` (padding over `UInt64`, Merkle tree, protobuf leaf) and `ModelUnits.lean`
(shards, units, scheduler origin check, validator, processor routing). Parameters with explicit
laws: the hash (`Ideal`: injective tagged hashes with disjoint ranges), the Reed-Solomon codec
(`RSLaws`: MDS + result shape + threshold, checked on the real library by the harness on every run),
the signature scheme (only `verify` is used; unforgeability is what turns "the signature verifies"
into "the publisher signed this payload").

`cfg : Cfg` says which of the four repairs (proposed-fixes/C19-*.diff) the code carries. Theorems
that hold for the code as pinned are stated for all `cfg`; where the pinned code falls short the
full-strength statement carries the repair flag as hypothesis, the `_partial` theorem says what the
pinned code satisfies, and the defect is a proved theorem next to it (`*_pinned`).
-/
namespace Juno.C19.Props
open Juno.C19
variable {H : Type}

/-! ## 1. Padding: `unpad_pad`, length divisibility, `unpad_total` -/

/-- Go's `binary.Uvarint` reads back what `binary.PutUvarint` wrote, for every `uint64` and
whatever follows it, consuming exactly the bytes written (at most `MaxVarintLen64 = 10`). -/
theorem uvarint_roundtrip (x : UInt64) (rest : Bytes) :
    uvarint (putUvarint x ++ rest) = (x, ((putUvarint x).length : Int)) ∧
      0 < (putUvarint x).length ∧ (putUvarint x).length ≤ 10 :=
  ⟨uvarint_putUvarint x rest, putUvarint_length_pos x, putUvarint_length_le_ten x⟩

/-- `unpad_pad`: for every message and every `numDataShards = k > 0` (sizes a Go slice/int can
have: `PadInput`), with or without the repair of UnpadMessage:
`UnpadMessage(PadMessage(msg, k)) = (msg, nil)`. -/
theorem unpad_pad (guard : Bool) (msg : Bytes) (k : Nat) (h : PadInput msg k) :
    unpad guard (pad msg k) = .ok msg :=
  Juno.C19.unpad_pad guard msg k h

/-- The padded length is a multiple of `2*numDataShards`; the layout is
`[varint(len msg)] [msg] [fewer than 2k zero bytes]`. -/
theorem pad_length_divisible (msg : Bytes) (k : Nat) (h : PadInput msg k) :
    2 * k ∣ (pad msg k).length ∧
    ∃ z, pad msg k = putUvarint (UInt64.ofNat msg.length) ++ (msg ++ List.replicate z 0) ∧ z < 2 * k :=
  ⟨pad_length_dvd msg k h, by
    obtain ⟨z, h1, _, h3⟩ := pad_facts msg k h
    exact ⟨z, h1, h3⟩⟩

/-- What ConstructMessageFromUnits relies on: the parity shards copied behind the padded message
do not disturb unpadding. -/
theorem unpad_ignores_trailing_bytes (guard : Bool) (msg : Bytes) (k : Nat) (h : PadInput msg k)
    (extra : Bytes) (hx : (pad msg k ++ extra).length < 2 ^ 64) :
    unpad guard (pad msg k ++ extra) = .ok msg :=
  unpad_pad_append guard msg k h extra hx

/-- `unpad_total` (repaired UnpadMessage, `guard = true`): for EVERY byte string the result is a
value or an error, never a panic, and a value is exactly the in-range slice
`padded[n : n+msgLen]` with `n + msgLen ≤ len(padded)` (decided over `UInt64`). -/
theorem unpad_total (p : Bytes) :
    unpad true p ≠ .panic ∧
    ∀ m, unpad true p = .ok m →
      0 < (uvarint p).2 ∧ ((uvarint p).2).toNat + (uvarint p).1.toNat ≤ p.length ∧
      m = (p.drop ((uvarint p).2).toNat).take (uvarint p).1.toNat ∧
      m.length = (uvarint p).1.toNat :=
  unpad_guard_total p

/- Full-strength statement for the pinned UnpadMessage — FALSE (lead L6c, known finding
`unpad-panics-on-length-overflow`):
     theorem unpad_total_pinned (p : Bytes) : unpad false p ≠ .panic
   What holds instead: -/

/-- `unpad_total_partial` (pinned UnpadMessage): it panics exactly when `varintLen + msgLen`
wraps around `uint64` and the wrapped sum does not exceed the buffer length; on every other input
it agrees with the repaired function. Missing for full strength: the overflow case. -/
theorem unpad_total_partial (p : Bytes) (hlen : p.length < 2 ^ 64) :
    (unpad false p = .panic ↔
      (0 < (uvarint p).2 ∧ 2 ^ 64 ≤ ((uvarint p).2).toNat + (uvarint p).1.toNat ∧
       ((uvarint p).2).toNat + (uvarint p).1.toNat - 2 ^ 64 ≤ p.length)) ∧
    (unpad false p ≠ .panic → unpad false p = unpad true p) :=
  ⟨unpad_pinned_panic_iff p hlen, unpad_variants_agree p hlen⟩

/-- Negation witness of `unpad_total_pinned`: the replayed input `ff×9 01 00 00`
(Go: `slice bounds out of range [10:9]`). With the repair the same input is a length error. -/
theorem unpad_panics_pinned :
    unpad false [0xff, 0xff, 0xff, 0xff, 0xff, 0xff, 0xff, 0xff, 0xff, 0x01, 0, 0] = .panic ∧
    unpad true [0xff, 0xff, 0xff, 0xff, 0xff, 0xff, 0xff, 0xff, 0xff, 0x01, 0, 0] = .err .length := by
  decide

/-! ## 2. Merkle tree: `merkle_complete`, `merkle_sound` -/

/-- `merkle_complete`: for every non-empty leaf list and every index, the proof `merkle.New`
returns for that index verifies the leaf against the root `merkle.New` returns. No assumption on
the hash. -/
theorem merkle_complete [DecidableEq H] (f : HashFns H) (leaves : List Bytes) (i : Nat)
    (hi : i < leaves.length) :
    verify f ((merkleNew f leaves).2.getD i []) (merkleNew f leaves).1 (leaves.getD i []) i = true :=
  merkleNew_complete f leaves i hi

/-- `merkle_sound` (ideal hash): if ANY proof verifies ANY leaf bytes for index `idx` against the
root of `merkle.New(leaves)`, then the leaf is the one committed at position
`idx mod nextPowerOfTwo(n)` (the empty string at padding positions), the proof is the tree's own
sibling path of that position, and its length is the tree depth. `Verify` reads only the low
`depth` bits of the index: range checking the index is the caller's job (the scheduler does it). -/
theorem merkle_sound [DecidableEq H] (f : HashFns H) (hI : Ideal f) (leaves : List Bytes)
    (hne : leaves ≠ []) (proof : List H) (leaf : Bytes) (idx : Nat)
    (hv : verify f proof (merkleNew f leaves).1 leaf idx = true) :
    leaf = paddedLeaf leaves (idx % nextPow2 leaves.length) ∧
    proof = proofLoop f (bottomLayer f leaves) (idx % nextPow2 leaves.length) ∧
    2 ^ proof.length = nextPow2 leaves.length :=
  merkleNew_sound f hI leaves hne proof leaf idx hv

/-- The root binds the whole list of leaves (of a known length). -/
theorem merkle_root_binds_leaves [DecidableEq H] (f : HashFns H) (hI : Ideal f) (l1 l2 : List Bytes)
    (hlen : l1.length = l2.length) (hne : l1 ≠ [])
    (h : (merkleNew f l1).1 = (merkleNew f l2).1) : l1 = l2 :=
  merkleNew_root_inj f hI l1 l2 hlen hne h

/-! ## 3. Reconstruction: `reconstruct_any_subset` -/

/-- What CreatePropellerUnits returns: `k+p` units, unit `i` carrying shard `i`, its proof, the
common root and the signature over (root, committee, nonce). -/
theorem create_units_spec (cfg : Cfg) (f : HashFns H) (rs : RS) (sg : SigScheme H)
    (C P : Bytes) (nonce : Nat) (msg : Bytes) (k p : Nat) (hl : RSLaws rs k p) (hin : PadInput msg k)
    (hok : rsNewOk k p = true) :
    ∃ units, createUnits cfg f rs sg C P nonce msg k p = .ok units ∧ units.length = k + p ∧
      ∀ i, i < k + p → units[i]? = some (honestUnit cfg f rs sg C P nonce msg k p i) :=
  createUnits_spec cfg f rs sg C P nonce msg k p hl hin hok

/-- "every shard's Merkle proof verifies against the signed message root": for every unit made by
CreatePropellerUnits, with the leaf encoding sharding.go commits to. -/
theorem created_unit_proof_verifies [DecidableEq H] (cfg : Cfg) (f : HashFns H) (rs : RS)
    (sg : SigScheme H) (C P : Bytes) (nonce : Nat) (msg : Bytes) (k p i : Nat) (hl : RSLaws rs k p)
    (hin : PadInput msg k) (hi : i < k + p) :
    let u := honestUnit cfg f rs sg C P nonce msg k p i
    verify f u.proof u.root (leafOf cfg.shardingLeafProto ((encOf rs msg k p).getD i [])) u.index = true := by
  obtain ⟨_, _, hlen, _⟩ := encOf_spec rs msg k p hl hin
  have := merkleNew_complete f ((encOf rs msg k p).map (leafOf cfg.shardingLeafProto)) i
    (by simpa [hlen] using hi)
  simpa [honestUnit, treeOf, List.getD_eq_getElem?_getD, hlen, hi] using this

/-- `reconstruct_any_subset` (ConstructMessageFromUnits taking the root from a present unit —
proposed fix): for every message, every `(k, p)` the codec accepts, EVERY selection `S` of at least
`k` of the `k+p` units made by CreatePropellerUnits — whichever are missing, shard 0 included — and
every local shard index: ConstructMessageFromUnits returns exactly the message, the local shard
and its proof. (Codec laws `RSLaws`; no assumption on the hash.) -/
theorem reconstruct_any_subset [DecidableEq H] (cfg : Cfg) (hfix : cfg.rootFromPresent = true)
    (f : HashFns H) (rs : RS) (sg : SigScheme H) (C P : Bytes) (nonce : Nat) (msg : Bytes) (k p : Nat)
    (hl : RSLaws rs k p) (hin : PadInput msg k) (hok : rsNewOk k p = true) (hsz : GoSized rs msg k p)
    (units : List (PUnit H)) (hc : createUnits cfg f rs sg C P nonce msg k p = .ok units)
    (S : List Bool) (hS : S.length = k + p) (hcount : k ≤ S.count true)
    (localIdx : Nat) (hloc : localIdx < k + p) :
    construct cfg f rs (maskUnits S units) localIdx k p =
      .ok (msg, (encOf rs msg k p).getD localIdx [], (treeOf cfg f rs msg k p).2.getD localIdx []) := by
  rw [createUnits_eq cfg f rs sg C P nonce msg k p hin.1 hok] at hc
  injection hc with hc
  subst hc
  exact construct_created cfg f rs C P _ _ msg k p hl hin hok hsz S hS hcount (Or.inl hfix) localIdx hloc

/- Full-strength statement for the pinned ConstructMessageFromUnits (drop `hfix` above) — FALSE
   (lead L6a, known finding `construct-panics-when-shard0-missing`). What holds instead: -/

/-- `reconstruct_any_subset_partial` (any `cfg`, in particular the pinned code): the same, for the
selections that contain unit 0. Missing for full strength: selections without shard 0. -/
theorem reconstruct_any_subset_partial [DecidableEq H] (cfg : Cfg)
    (f : HashFns H) (rs : RS) (sg : SigScheme H) (C P : Bytes) (nonce : Nat) (msg : Bytes) (k p : Nat)
    (hl : RSLaws rs k p) (hin : PadInput msg k) (hok : rsNewOk k p = true) (hsz : GoSized rs msg k p)
    (units : List (PUnit H)) (hc : createUnits cfg f rs sg C P nonce msg k p = .ok units)
    (S : List Bool) (hS : S.length = k + p) (hcount : k ≤ S.count true) (h0 : S.head? = some true)
    (localIdx : Nat) (hloc : localIdx < k + p) :
    construct cfg f rs (maskUnits S units) localIdx k p =
      .ok (msg, (encOf rs msg k p).getD localIdx [], (treeOf cfg f rs msg k p).2.getD localIdx []) := by
  rw [createUnits_eq cfg f rs sg C P nonce msg k p hin.1 hok] at hc
  injection hc with hc
  subst hc
  exact construct_created cfg f rs C P _ _ msg k p hl hin hok hsz S hS hcount (Or.inr h0) localIdx hloc

/-- Negation of the full-strength statement for the pinned code, for ALL messages and
configurations: whenever shard 0 is missing, however many other shards are present,
ConstructMessageFromUnits panics (nil dereference of `units[0]`). The concrete replay
(k=1, p=1, only unit 1 present) is an instance. -/
theorem reconstruct_panics_without_shard0_pinned [DecidableEq H] (cfg : Cfg)
    (hpinned : cfg.rootFromPresent = false)
    (f : HashFns H) (rs : RS) (sg : SigScheme H) (C P : Bytes) (nonce : Nat) (msg : Bytes) (k p : Nat)
    (hl : RSLaws rs k p) (hin : PadInput msg k) (hok : rsNewOk k p = true) (hsz : GoSized rs msg k p)
    (units : List (PUnit H)) (hc : createUnits cfg f rs sg C P nonce msg k p = .ok units)
    (S : List Bool) (hS : S.length = k + p) (hcount : k ≤ S.count true) (h0 : S.head? = some false)
    (localIdx : Nat) (hloc : localIdx < k + p) :
    construct cfg f rs (maskUnits S units) localIdx k p = .panic := by
  rw [createUnits_eq cfg f rs sg C P nonce msg k p hin.1 hok] at hc
  injection hc with hc
  subst hc
  exact construct_created_panics_pinned cfg f rs C P _ _ msg k p hl hin hok hsz S hS hcount hpinned h0
    localIdx hloc

/-- The concrete replay of the known finding, on the model: `(k, p) = (1, 1)` (three peers), message
"hi", only unit 1 present. Pinned code: panic. Repaired code: the message. -/
theorem reconstruct_without_shard0_witness (sg : SigScheme HTerm) (C P : Bytes) (nonce : Nat) :
    (∃ units, createUnits Cfg.pinned termFns repCode11 sg C P nonce [104, 105] 1 1 = .ok units ∧
      construct Cfg.pinned termFns repCode11 (maskUnits [false, true] units) 1 1 1 = .panic) ∧
    (∃ units sh pr, createUnits Cfg.repaired termFns repCode11 sg C P nonce [104, 105] 1 1 = .ok units ∧
      construct Cfg.repaired termFns repCode11 (maskUnits [false, true] units) 1 1 1 =
        .ok ([104, 105], sh, pr)) := by
  have hin : PadInput [104, 105] 1 := by unfold PadInput; decide
  have hok : rsNewOk 1 1 = true := by decide
  have hsz := goSized_of_small repCode11 [104, 105] 1 1 repCode11_laws hin hok (by decide)
  refine ⟨⟨_, createUnits_eq Cfg.pinned termFns repCode11 sg C P nonce _ 1 1 hin.1 hok, ?_⟩,
    ⟨_, (encOf repCode11 [104, 105] 1 1).getD 1 [],
      (treeOf Cfg.repaired termFns repCode11 [104, 105] 1 1).2.getD 1 [],
      createUnits_eq Cfg.repaired termFns repCode11 sg C P nonce _ 1 1 hin.1 hok, ?_⟩⟩
  · exact construct_created_panics_pinned Cfg.pinned termFns repCode11 C P _ _ _ 1 1 repCode11_laws hin hok
      hsz [false, true] rfl (by decide) rfl rfl 1 (by decide)
  · exact construct_created Cfg.repaired termFns repCode11 C P _ _ _ 1 1 repCode11_laws hin hok hsz
      [false, true] rfl (by decide) (Or.inl rfl) 1 (by decide)

/-- The size side condition `GoSized` of the theorems above holds for every message shorter than
2^50 bytes in every configuration the GF(2^8) codec accepts. -/
theorem go_sized_of_small (rs : RS) (msg : Bytes) (k p : Nat) (hl : RSLaws rs k p) (hin : PadInput msg k)
    (hok : rsNewOk k p = true) (hsmall : msg.length < 2 ^ 50) : GoSized rs msg k p :=
  goSized_of_small rs msg k p hl hin hok hsmall

/-! ## 4. Nothing else can be delivered; the receiver does not fail -/

/-- `construct_sound` — "cannot cause a different message to be delivered": for ARBITRARY units
(any shards, any fields, any number), if ConstructMessageFromUnits succeeds and the unit whose root
it compares carries the publisher's root for `msg`, then what it returns is `msg`, the publisher's
shard and the publisher's proof. (Ideal hash; of the codec only the number of shards it returns is used.) -/
theorem construct_sound [DecidableEq H] (cfg : Cfg) (f : HashFns H) (hI : Ideal f) (rs : RS)
    (msg : Bytes) (k p : Nat) (hl : RSLaws rs k p) (hin : PadInput msg k) (hsz : GoSized rs msg k p)
    (U : List (Option (PUnit H))) (localIdx : Nat) (m sh : Bytes) (pr : List H)
    (hc : construct cfg f rs U localIdx k p = .ok (m, sh, pr))
    (hroot : ∀ u0, rootUnit cfg U = some u0 → u0.root = (treeOf cfg f rs msg k p).1) :
    m = msg ∧ sh = (encOf rs msg k p).getD localIdx [] ∧
      pr = (treeOf cfg f rs msg k p).2.getD localIdx [] :=
  Juno.C19.construct_sound cfg f hI rs msg k p hl hin hsz U localIdx m sh pr hc hroot

/-- `construct_total` — "… or the receiver to fail" (both repairs): on ANY units that carry at
least one shard each (the validator enforces exactly one) ConstructMessageFromUnits returns a
value or an error, never panics. -/
theorem construct_total [DecidableEq H] (cfg : Cfg) (f : HashFns H) (rs : RS)
    (k p : Nat) (hl : RSLaws rs k p) (hk : 0 < k) (h1 : cfg.rootFromPresent = true)
    (h2 : cfg.unpadGuard = true)
    (U : List (Option (PUnit H))) (hU : ∀ u, some u ∈ U → u.shards ≠ []) (localIdx : Nat)
    (hloc : localIdx < k + p) :
    construct cfg f rs U localIdx k p ≠ .panic :=
  Juno.C19.construct_total cfg f rs k p hl hk h1 h2 U hU localIdx hloc

/-- `construct_total_partial` (any `cfg`, in particular the pinned code): a panic has one of the two
known causes — `units[0]` missing, or the `uint64` overflow in UnpadMessage. Missing for full
strength: those two cases (see `reconstruct_panics_without_shard0_pinned`, `unpad_panics_pinned`). -/
theorem construct_total_partial [DecidableEq H] (cfg : Cfg) (f : HashFns H) (rs : RS)
    (k p : Nat) (hl : RSLaws rs k p) (hk : 0 < k)
    (U : List (Option (PUnit H))) (hU : ∀ u, some u ∈ U → u.shards ≠ []) (localIdx : Nat)
    (hloc : localIdx < k + p)
    (h : construct cfg f rs U localIdx k p = .panic) :
    (cfg.rootFromPresent = false ∧ U.headD none = none) ∨
    (cfg.unpadGuard = false ∧ ∃ full, unpad false full = .panic) :=
  construct_panic_only_if cfg f rs k p hl hk U hU localIdx hloc h

/-! ## 5. The validator: `bad_unit_rejected`, per corrupted field -/

/-- `bad_unit_rejected` (shard data / proof / index / sender / duplicate), stated as what an
ACCEPTED unit must look like: a unit that `UnitValidator.Validate` accepts and that carries the
publisher's root is, field by field, the publisher's unit for its index — shard `enc[index]`, the
tree's proof for `index`, `index < k+p` — was not accepted before, and was sent by the designated
broadcaster of that index (or by the publisher when the local peer is that broadcaster).
Any state of the validator, any sender, any unit. (Ideal hash.) -/
theorem accepted_unit_is_publishers [DecidableEq H] (cfg : Cfg) (f : HashFns H) (hI : Ideal f)
    (sg : SigScheme H) (s : Sched) (publisher : Bytes) (st st' : VState) (u : PUnit H) (sender : Bytes)
    (enc : List Bytes) (hne : enc ≠ []) (htotal : s.total = enc.length)
    (hroot : u.root = (merkleNew f (enc.map (leafOf cfg.validatorLeafProto))).1)
    (h : validate cfg f sg s publisher st u sender = .ok st') :
    u.index < enc.length ∧ u.shards = [enc.getD u.index []] ∧
    u.proof = (merkleNew f (enc.map (leafOf cfg.validatorLeafProto))).2.getD u.index [] ∧
    u.index ∉ st.received ∧
    ∃ expected, s.peerForShard u.publisher u.index = .ok expected ∧
      ((expected = s.localId ∧ sender = u.publisher) ∨ expected = sender) :=
  validate_sound cfg f hI sg s publisher st st' u sender enc hne htotal hroot h

/-- Corrupted shard data is rejected. -/
theorem bad_shard_rejected [DecidableEq H] (cfg : Cfg) (f : HashFns H) (hI : Ideal f)
    (sg : SigScheme H) (s : Sched) (publisher : Bytes) (st : VState) (u : PUnit H) (sender : Bytes)
    (enc : List Bytes) (hne : enc ≠ []) (htotal : s.total = enc.length)
    (hroot : u.root = (merkleNew f (enc.map (leafOf cfg.validatorLeafProto))).1)
    (hbad : u.shards ≠ [enc.getD u.index []]) :
    ∃ e, validate cfg f sg s publisher st u sender = .error e := by
  cases h : validate cfg f sg s publisher st u sender with
  | error e => exact ⟨e, rfl⟩
  | ok st' => exact absurd (validate_sound cfg f hI sg s publisher st st' u sender enc hne htotal hroot h).2.1 hbad

/-- A corrupted Merkle proof is rejected. -/
theorem bad_proof_rejected [DecidableEq H] (cfg : Cfg) (f : HashFns H) (hI : Ideal f)
    (sg : SigScheme H) (s : Sched) (publisher : Bytes) (st : VState) (u : PUnit H) (sender : Bytes)
    (enc : List Bytes) (hne : enc ≠ []) (htotal : s.total = enc.length)
    (hroot : u.root = (merkleNew f (enc.map (leafOf cfg.validatorLeafProto))).1)
    (hbad : u.proof ≠ (merkleNew f (enc.map (leafOf cfg.validatorLeafProto))).2.getD u.index []) :
    ∃ e, validate cfg f sg s publisher st u sender = .error e := by
  cases h : validate cfg f sg s publisher st u sender with
  | error e => exact ⟨e, rfl⟩
  | ok st' => exact absurd (validate_sound cfg f hI sg s publisher st st' u sender enc hne htotal hroot h).2.2.1 hbad

/-- An index outside `[0, k+p)` is rejected — including `index + treeSize`, which passes the
Merkle check (`merkle_sound`) — and so is an index accepted before. -/
theorem bad_index_rejected [DecidableEq H] (cfg : Cfg) (f : HashFns H) (sg : SigScheme H) (s : Sched)
    (publisher : Bytes) (st : VState) (u : PUnit H) (sender : Bytes)
    (hbad : s.total ≤ u.index ∨ u.index ∈ st.received) :
    ∃ e, validate cfg f sg s publisher st u sender = .error e := by
  cases h : validate cfg f sg s publisher st u sender with
  | error e => exact ⟨e, rfl⟩
  | ok st' =>
    obtain ⟨hdup, horig, _⟩ := validate_ok_inv cfg f sg s publisher st st' u sender h
    obtain ⟨_, _, hidx, _⟩ := origin_ok_inv s sender u.publisher u.index horig
    cases hbad with
    | inl hb => omega
    | inr hb => simp [hb] at hdup

/-- A unit from any sender other than the designated broadcaster of its index (or the publisher,
when the local peer is the designated broadcaster) is rejected. -/
theorem bad_sender_rejected [DecidableEq H] (cfg : Cfg) (f : HashFns H) (sg : SigScheme H) (s : Sched)
    (publisher : Bytes) (st : VState) (u : PUnit H) (sender expected : Bytes)
    (hp : s.peerForShard u.publisher u.index = .ok expected)
    (h1 : ¬ (expected = s.localId ∧ sender = u.publisher)) (h2 : expected ≠ sender) :
    ∃ e, validate cfg f sg s publisher st u sender = .error e := by
  cases h : validate cfg f sg s publisher st u sender with
  | error e => exact ⟨e, rfl⟩
  | ok st' =>
    obtain ⟨_, horig, _⟩ := validate_ok_inv cfg f sg s publisher st st' u sender h
    obtain ⟨e, he⟩ := origin_rejects_other_sender s sender u.publisher u.index expected hp h1 h2
    rw [he] at horig; cases horig

/-- Who the designated broadcasters are: for a publisher in a duplicate-free committee of
`k+p+1` peers every shard index `< k+p` has exactly one designated broadcaster, a member other than
the publisher, and no peer is designated for two indices — so `bad_sender_rejected` leaves a
Byzantine peer at most its own index. (The harness checks on the real `NewScheduler` that its peer
list is duplicate-free and that `ShardIndexForPublisher` is the inverse map.) -/
theorem designated_broadcaster_unique (s : Sched) (hnd : s.peers.Nodup)
    (hlen : s.peers.length = s.total + 1) (pub : Bytes) (hp : pub ∈ s.peers) :
    (∀ i, i < s.total → ∃ q, s.peerForShard pub i = .ok q ∧ q ∈ s.peers ∧ q ≠ pub) ∧
    (∀ i j q, s.peerForShard pub i = .ok q → s.peerForShard pub j = .ok q → i = j) :=
  peerForShard_spec s hnd hlen pub hp

/-- `bad_unit_rejected` (signature / committee / nonce / root / publisher), over ANY sequence of
deliveries through the processor's routing (one validator per message key, signature cached after
the first verification), starting with no validators: every accepted unit carries a signature that
verifies under ITS publisher's key over ITS OWN (root, committee, nonce), and passed the origin and
Merkle checks. With an unforgeable signature scheme a unit whose signature, committee, nonce, root
or publisher was altered therefore is rejected unless the publisher signed exactly the altered
payload. -/
theorem accepted_units_are_signed [DecidableEq H] (cfg : Cfg) (f : HashFns H) (sg : SigScheme H)
    (s : Sched) (ops : List (PUnit H × Bytes)) (i : Nat) (u : PUnit H) (sender : Bytes)
    (hop : ops[i]? = some (u, sender))
    (hacc : (deliverAll cfg f sg s [] ops)[i]? = some (.ok ())) :
    sg.verify u.publisher ⟨u.root, u.committee, u.nonce⟩ u.sig = true ∧
    s.validateOrigin sender u.publisher u.index = .ok () ∧
    verifyDataShards cfg f u = .ok () :=
  deliverAll_accepted cfg f sg s ops [] (routesOk_nil sg) i u sender hop hacc

/-- One delivery in any reachable state: a unit whose signature does not verify over its own
fields is rejected (also when a signature is already cached for its message key), the invariant
is kept, and no index is accepted twice for one message key. -/
theorem bad_signature_rejected [DecidableEq H] (cfg : Cfg) (f : HashFns H) (sg : SigScheme H)
    (s : Sched) (r : Routes H) (hr : RoutesOk sg r) (u : PUnit H) (sender : Bytes)
    (hbad : sg.verify u.publisher ⟨u.root, u.committee, u.nonce⟩ u.sig = false) :
    (deliver cfg f sg s r u sender).2 ≠ .ok () ∧ RoutesOk sg (deliver cfg f sg s r u sender).1 := by
  refine ⟨fun h => ?_, (deliver_step cfg f sg s r u sender hr).1⟩
  have := ((deliver_step cfg f sg s r u sender hr).2 h).1
  rw [hbad] at this; cases this

theorem no_index_accepted_twice [DecidableEq H] (cfg : Cfg) (f : HashFns H) (sg : SigScheme H)
    (s : Sched) (r : Routes H) (hr : RoutesOk sg r) (u : PUnit H) (sender : Bytes)
    (hacc : (deliver cfg f sg s r u sender).2 = .ok ()) :
    (∀ st, r.find (keyOf u) = some st → u.index ∉ st.received) ∧
    ∃ st', (deliver cfg f sg s r u sender).1.find (keyOf u) = some st' ∧ u.index ∈ st'.received ∧
      st'.received.Nodup := by
  obtain ⟨_, _, _, h4, st', h5, h6⟩ := (deliver_step cfg f sg s r u sender hr).2 hacc
  exact ⟨h4, st', h5, h6, ((deliver_step cfg f sg s r u sender hr).1 _ _ h5).1⟩

/-! ## 6. Completeness of the validator (honest units are accepted) -/

/-- `honest_unit_accepted`: when sharding.go and unit_validator.go use the same leaf encoding and the
signature verifies over the unit's own fields, unit `i` of CreatePropellerUnits is accepted from a
sender that passes the origin check, by a fresh validator or one that cached the same signature,
unless index `i` was accepted before. -/
theorem honest_unit_accepted [DecidableEq H] (cfg : Cfg) (f : HashFns H) (rs : RS) (sg : SigScheme H)
    (s : Sched) (C P : Bytes) (nonce : Nat) (msg : Bytes) (k p i : Nat)
    (hcfg : cfg.shardingLeafProto = cfg.validatorLeafProto)
    (hl : RSLaws rs k p) (hin : PadInput msg k) (hi : i < k + p)
    (st : VState) (hnew : i ∉ st.received) (sender : Bytes)
    (horig : s.validateOrigin sender P i = .ok ())
    (hsig : st.verifiedSig = some (sg.sign ⟨(treeOf cfg f rs msg k p).1, C, nonce⟩) ∨
      (st.verifiedSig = none ∧ sg.sign ⟨(treeOf cfg f rs msg k p).1, C, nonce⟩ ≠ [] ∧
       sg.verify P ⟨(treeOf cfg f rs msg k p).1, C, if cfg.nonceSet then nonce else 0⟩
         (sg.sign ⟨(treeOf cfg f rs msg k p).1, C, nonce⟩) = true)) :
    validate cfg f sg s P st (honestUnit cfg f rs sg C P nonce msg k p i) sender =
      .ok { received := i :: st.received,
            verifiedSig := some (sg.sign ⟨(treeOf cfg f rs msg k p).1, C, nonce⟩) } :=
  validate_accepts_honest cfg f rs sg s C P nonce msg k p i hcfg hl hin hi st hnew sender horig hsig

/- Full-strength statement for the pinned code (drop `hcfg`, and `hsig` reduced to "sign/verify is
   correct") — FALSE twice over (lead L6b, known findings
   `validator-rejects-honest-created-unit-merkle`,
   `created-unit-nonce-field-not-set-signature-unverifiable`): -/

/-- Negation for the pinned leaf encodings, for ALL messages, configurations and indices: every
unit of CreatePropellerUnits fails `verifyDataShards` ("data shards verification failed"). -/
theorem honest_unit_rejected_pinned [DecidableEq H] (cfg : Cfg) (f : HashFns H)
    (hI : Ideal f) (rs : RS) (sg : SigScheme H) (C P : Bytes) (nonce : Nat) (msg : Bytes) (k p i : Nat)
    (h1 : cfg.shardingLeafProto = false) (h2 : cfg.validatorLeafProto = true)
    (hl : RSLaws rs k p) (hin : PadInput msg k) (hi : i < k + p) :
    verifyDataShards cfg f (honestUnit cfg f rs sg C P nonce msg k p i) = .error .merkle :=
  created_unit_rejected_when_leaf_encodings_differ cfg f hI rs sg C P nonce msg k p i h1 h2 hl hin hi

/-- The unit's own (root, committee, nonce) is the payload the publisher signed iff
CreatePropellerUnits stores the nonce (proposed fix) or the nonce is 0: with the pinned code and
any other nonce an unforgeable scheme rejects the signature of every honest unit. -/
theorem created_unit_signed_payload (cfg : Cfg) (f : HashFns H) (rs : RS) (sg : SigScheme H) (C P : Bytes)
    (nonce : Nat) (msg : Bytes) (k p i : Nat) :
    let u := honestUnit cfg f rs sg C P nonce msg k p i
    ((⟨u.root, u.committee, u.nonce⟩ : Payload H) = ⟨(treeOf cfg f rs msg k p).1, C, nonce⟩) ↔
      (cfg.nonceSet = true ∨ nonce = 0) :=
  created_unit_payload cfg f rs sg C P nonce msg k p i

/-! ## Non-vacuity: the hypotheses are satisfiable -/

example : Ideal termFns := ideal_termFns
example : RSLaws trivialCode 1 0 := trivialCode_laws
example : RSLaws repCode11 1 1 := repCode11_laws
example : PadInput [1, 2, 3] 3 := by unfold PadInput; decide
example : rsNewOk 3 6 = true := by decide
example : RoutesOk (⟨fun _ => [1], fun _ _ _ => true⟩ : SigScheme HTerm) [] := routesOk_nil _
example : Cfg.repaired.rootFromPresent = true ∧ Cfg.repaired.unpadGuard = true ∧
    Cfg.repaired.shardingLeafProto = Cfg.repaired.validatorLeafProto ∧ Cfg.repaired.nonceSet = true := by decide
example : Cfg.pinned.rootFromPresent = false ∧ Cfg.pinned.shardingLeafProto = false ∧
    Cfg.pinned.validatorLeafProto = true ∧ Cfg.pinned.nonceSet = false := by decide
-- a value on which unpad succeeds, one on which it errs
example : unpad false [3, 1, 2, 3, 0, 0] = .ok [1, 2, 3] ∧ unpad true [9, 1] = .err .length ∧
    unpad true [0x80] = .err .varint := by decide

end Juno.C19.Props
