import JunoModel.C19.ProofsPad
import JunoModel.C19.ProofsMerkle
import JunoModel.C19.ProofsUnits
import JunoModel.C19.ProofsValidator
import JunoModel.C19.ProofsSched
import JunoModel.C19.ProofsProc
import JunoModel.C19.ProofsLive
import JunoModel.C19.ProofsTasks
import JunoModel.C19.ProofsHash
import JunoModel.C19.ProofsCache
import JunoModel.C19.ProofsR5
import JunoModel.C19.ProofsR6
/-!
C19 — property theorems (statements only; the proofs are one-line calls into `Proofs*.lean`).

"A message split into data and parity shards is reconstructed bit-for-bit from any subset of valid
shards of at least the reconstruction threshold, whichever shards are missing, and every shard's
Merkle proof verifies against the signed message root. A unit whose shard data, proof, index,
signature, committee or sender does not match is rejected and cannot cause a different message to
be delivered or the receiver to fail."

Model: `Model.lean` (padding over `UInt64`, Merkle tree, protobuf leaf), `ModelUnits.lean` (shards,
units, scheduler, validator, routing of units to validators) and `ModelProc.lean` (wire form of a
unit, subprocessor state machine, processor with its finalized cache). Parameters with explicit
laws: the hash (`Ideal`), the Reed-Solomon codec (`RSLaws`, checked on the real library by the
harness on every run), the signature scheme (only `verify` is used; unforgeability is what turns
"the signature verifies" into "the publisher signed this payload").

Variants. `cfg : Cfg` = which of the four repairs of the padding/sharding layer the code has; all
four are in /repo (a2bceaf, 32710c6, 8f80b72, d76716c): the tree is `Cfg.current`. `pc : PCfg` = the
four repairs of the wire/processor layer, all in /repo as well (a0ebef4 UnitFromProto guard, 5ab3121
no poisoning by an invalid first unit, d8826cb local unit from a present unit, 76dcbab publisher key
check; c052836 wired the logger and the events channel, which has no model flag: the model always
was the wired processor): `PCfg.current = PCfg.repaired`.

Reading guide. §1–§9 are about the code as it is in /repo (`Cfg.current`, `PCfg.current`, or every
flag value). §10 holds regression witnesses of repaired defects, named `*_before_fix_<commit>`: true
statements about the flag value the code no longer has — the former `_current` negations of the
processor section among them. The harness probes the flags on every run and a lost repair is a
VIOLATION with a failing input (and drives the model with the old value again).
-/
namespace Juno.C19.Props
open Juno.C19
variable {H : Type}

/-! ## 1. Padding: `unpad_pad`, length divisibility, `unpad_total` -/

/-- Go's `binary.Uvarint` reads back what `binary.PutUvarint` wrote, for every `uint64` and
whatever follows it, consuming exactly the bytes written (at most `MaxVarintLen64 = 10`). -/
theorem uvarint_roundtrip (x : UInt64) (rest : Bytes) :
    uvarint (putUvarint x ++ rest) = (x, ((putUvarint x).length : Int)) ∧
      0 < (putUvarint x).length ∧ (putUvarint x).length ≤ 10 :=
  ⟨uvarint_putUvarint x rest, putUvarint_length_pos x, putUvarint_length_le_ten x⟩

/-- `unpad_pad`: for every message and every `numDataShards = k > 0` (sizes a Go slice/int can
have: `PadInput`), with or without the repair of UnpadMessage:
`UnpadMessage(PadMessage(msg, k)) = (msg, nil)`. -/
theorem unpad_pad (guard : Bool) (msg : Bytes) (k : Nat) (h : PadInput msg k) :
    unpad guard (pad msg k) = .ok msg :=
  Juno.C19.unpad_pad guard msg k h

/-- The padded length is a multiple of `2*numDataShards`; the layout is
`[varint(len msg)] [msg] [fewer than 2k zero bytes]`. -/
theorem pad_length_divisible (msg : Bytes) (k : Nat) (h : PadInput msg k) :
    2 * k ∣ (pad msg k).length ∧
    ∃ z, pad msg k = putUvarint (UInt64.ofNat msg.length) ++ (msg ++ List.replicate z 0) ∧ z < 2 * k :=
  ⟨pad_length_dvd msg k h, by
    obtain ⟨z, h1, _, h3⟩ := pad_facts msg k h
    exact ⟨z, h1, h3⟩⟩

/-- What ConstructMessageFromUnits relies on: the parity shards copied behind the padded message
do not disturb unpadding. -/
theorem unpad_ignores_trailing_bytes (guard : Bool) (msg : Bytes) (k : Nat) (h : PadInput msg k)
    (extra : Bytes) (hx : (pad msg k ++ extra).length < 2 ^ 64) :
    unpad guard (pad msg k ++ extra) = .ok msg :=
  unpad_pad_append guard msg k h extra hx

/-- `unpad_total` (UnpadMessage since 32710c6, `guard = true`): for EVERY byte string the result
is a value or an error, never a panic, and a value is exactly the in-range slice
`padded[n : n+msgLen]` with `n + msgLen ≤ len(padded)` (decided over `UInt64`). -/
theorem unpad_total (p : Bytes) :
    unpad true p ≠ .panic ∧
    ∀ m, unpad true p = .ok m →
      0 < (uvarint p).2 ∧ ((uvarint p).2).toNat + (uvarint p).1.toNat ≤ p.length ∧
      m = (p.drop ((uvarint p).2).toNat).take (uvarint p).1.toNat ∧
      m.length = (uvarint p).1.toNat :=
  unpad_guard_total p

/-! ## 2. Merkle tree: `merkle_complete`, `merkle_sound` -/

/-- `merkle_complete`: for every non-empty leaf list and every index, the proof `merkle.New`
returns for that index verifies the leaf against the root `merkle.New` returns. No assumption on
the hash. -/
theorem merkle_complete [DecidableEq H] (f : HashFns H) (leaves : List Bytes) (i : Nat)
    (hi : i < leaves.length) :
    verify f ((merkleNew f leaves).2.getD i []) (merkleNew f leaves).1 (leaves.getD i []) i = true :=
  merkleNew_complete f leaves i hi

/-- `merkle_sound` (ideal hash): if ANY proof verifies ANY leaf bytes for index `idx` against the
root of `merkle.New(leaves)`, then the leaf is the one committed at position
`idx mod nextPowerOfTwo(n)` (the empty string at padding positions), the proof is the tree's own
sibling path of that position, and its length is the tree depth. `Verify` reads only the low
`depth` bits of the index: range checking the index is the caller's job (the scheduler does it). -/
theorem merkle_sound [DecidableEq H] (f : HashFns H) (hI : Ideal f) (leaves : List Bytes)
    (hne : leaves ≠ []) (proof : List H) (leaf : Bytes) (idx : Nat)
    (hv : verify f proof (merkleNew f leaves).1 leaf idx = true) :
    leaf = paddedLeaf leaves (idx % nextPow2 leaves.length) ∧
    proof = proofLoop f (bottomLayer f leaves) (idx % nextPow2 leaves.length) ∧
    2 ^ proof.length = nextPow2 leaves.length :=
  merkleNew_sound f hI leaves hne proof leaf idx hv

/-- The root binds the whole list of leaves (of a known length). -/
theorem merkle_root_binds_leaves [DecidableEq H] (f : HashFns H) (hI : Ideal f) (l1 l2 : List Bytes)
    (hlen : l1.length = l2.length) (hne : l1 ≠ [])
    (h : (merkleNew f l1).1 = (merkleNew f l2).1) : l1 = l2 :=
  merkleNew_root_inj f hI l1 l2 hlen hne h

/-! ## 2b. What is hashed and what is signed (`merkleLeafHash`, `merkleNodeHash`, `buildSignPayload`) -/

/-- `leaf_hash_preimage` — `merkleLeafHash(data)` hashes exactly `"<leaf>" ‖ data ‖ "</leaf>"`, for
EVERY length of `data`: the buffer it allocates has room for each of its three `copy` calls (Go's
`copy` truncates silently otherwise — a buffer too short for some lengths would drop the tail of the
leaf from the hash). Likewise `merkleNodeHash` hashes the 105 bytes
`"<node><left>" ‖ left ‖ "</left><right>" ‖ right ‖ "</right></node>"`. -/
theorem leaf_hash_preimage (data l r : Bytes) (hl : l.length = 32) (hr : r.length = 32) :
    leafPreimageGo data = leafOpen ++ data ++ leafClose ∧
    (leafPreimageGo data).length = data.length + 13 ∧
    nodePreimageGo l r = nodeOpen ++ l ++ nodeMid ++ r ++ nodeClose :=
  ⟨leafPreimageGo_eq data, leafPreimageGo_length data, nodePreimageGo_eq l r hl hr⟩

/-- `merkle_ideal_or_sha256_collision` — the idealisation `Ideal` every soundness theorem assumes of
the two tagged hashes is, for the hashes the code computes over ANY function `sha` on byte strings,
implied by collision-freeness of `sha` alone: the byte layouts are injective and a leaf preimage is
never a node preimage. Stated without an unsatisfiable hypothesis: either `Ideal` holds or there is
an explicit collision of `sha`. -/
theorem merkle_ideal_or_sha256_collision (sha : Bytes → Digest) :
    Ideal (taggedFns sha) ∨ ∃ x y, x ≠ y ∧ sha x = sha y :=
  tagged_ideal_or_collision sha

/-- `merkle_sound` for the hashes of merkle.go over `sha`: a proof that verifies pins down leaf, path
and depth — or exhibits a collision of `sha`. -/
theorem merkle_sound_or_sha256_collision (sha : Bytes → Digest) (leaves : List Bytes)
    (hne : leaves ≠ []) (proof : List Digest) (leaf : Bytes) (idx : Nat)
    (hv : verify (taggedFns sha) proof (merkleNew (taggedFns sha) leaves).1 leaf idx = true) :
    (leaf = paddedLeaf leaves (idx % nextPow2 leaves.length) ∧
     proof = proofLoop (taggedFns sha) (bottomLayer (taggedFns sha) leaves) (idx % nextPow2 leaves.length) ∧
     2 ^ proof.length = nextPow2 leaves.length) ∨ ∃ x y, x ≠ y ∧ sha x = sha y := by
  cases tagged_ideal_or_collision sha with
  | inl hI => exact Or.inl (merkleNew_sound (taggedFns sha) hI leaves hne proof leaf idx hv)
  | inr hc => exact Or.inr hc

/-- `signed_payload_binds_fields` — "a unit whose signature, committee … does not match is rejected"
at the byte level: `buildSignPayload` fills its 95-byte array exactly
(`"<propeller>" ‖ root ‖ committee ‖ nonce (8 bytes, big endian) ‖ "<propeller/>"`), and two payloads
are equal only if root, committee id and nonce are: a signature over the bytes is a signature over
the triple `Payload` the validator theorems speak about. -/
theorem signed_payload_binds_fields (r1 c1 r2 c2 : Bytes) (n1 n2 : Nat)
    (hr1 : r1.length = 32) (hc1 : c1.length = 32) (hr2 : r2.length = 32) (hc2 : c2.length = 32)
    (hn1 : n1 < 2 ^ 64) (hn2 : n2 < 2 ^ 64) :
    signPayloadGo r1 c1 n1 = sigPrefix ++ r1 ++ c1 ++ be64 n1 ++ sigSuffix ∧
    (signPayloadGo r1 c1 n1).length = 95 ∧
    (signPayloadGo r1 c1 n1 = signPayloadGo r2 c2 n2 → r1 = r2 ∧ c1 = c2 ∧ n1 = n2) :=
  ⟨signPayloadGo_eq r1 c1 n1 hr1 hc1, signPayloadGo_length r1 c1 n1 hr1 hc1,
   signPayloadGo_inj r1 c1 r2 c2 n1 n2 hr1 hc1 hr2 hc2 hn1 hn2⟩

/-! ## 3. Reconstruction: `reconstruct_any_subset` -/

/-- What CreatePropellerUnits returns: `k+p` units, unit `i` carrying shard `i`, its proof, the
common root and the signature over (root, committee, nonce). -/
theorem create_units_spec (cfg : Cfg) (f : HashFns H) (rs : RS) (sg : SigScheme H)
    (C P : Bytes) (nonce : Nat) (msg : Bytes) (k p : Nat) (hl : RSLaws rs k p) (hin : PadInput msg k)
    (hok : rsNewOk k p = true) :
    ∃ units, createUnits cfg f rs sg C P nonce msg k p = .ok units ∧ units.length = k + p ∧
      ∀ i, i < k + p → units[i]? = some (honestUnit cfg f rs sg C P nonce msg k p i) :=
  createUnits_spec cfg f rs sg C P nonce msg k p hl hin hok

/-- "every shard's Merkle proof verifies against the signed message root": for every unit made by
CreatePropellerUnits, with the leaf encoding sharding.go commits to. -/
theorem created_unit_proof_verifies [DecidableEq H] (cfg : Cfg) (f : HashFns H) (rs : RS)
    (sg : SigScheme H) (C P : Bytes) (nonce : Nat) (msg : Bytes) (k p i : Nat) (hl : RSLaws rs k p)
    (hin : PadInput msg k) (hi : i < k + p) :
    let u := honestUnit cfg f rs sg C P nonce msg k p i
    verify f u.proof u.root (leafOf cfg.shardingLeafProto ((encOf rs msg k p).getD i [])) u.index = true := by
  obtain ⟨_, _, hlen, _⟩ := encOf_spec rs msg k p hl hin
  have := merkleNew_complete f ((encOf rs msg k p).map (leafOf cfg.shardingLeafProto)) i
    (by simpa [hlen] using hi)
  simpa [honestUnit, treeOf, List.getD_eq_getElem?_getD, hlen, hi] using this

/-- `reconstruct_any_subset` (the code in /repo, `Cfg.current`): for every message shorter than
2^40 bytes, every `(k, p)` the codec accepts (up to 65536 shards), EVERY selection `S` of at least
`k` of the `k+p` units made by CreatePropellerUnits — whichever are missing, shard 0 included — and
every local shard index: ConstructMessageFromUnits returns exactly the message, the local shard
and its proof. (Codec laws `RSLaws`; no assumption on the hash.) -/
theorem reconstruct_any_subset [DecidableEq H]
    (f : HashFns H) (rs : RS) (sg : SigScheme H) (C P : Bytes) (nonce : Nat) (msg : Bytes) (k p : Nat)
    (hl : RSLaws rs k p) (hin : PadInput msg k) (hok : rsNewOk k p = true) (hsmall : msg.length < 2 ^ 40)
    (units : List (PUnit H)) (hc : createUnits Cfg.current f rs sg C P nonce msg k p = .ok units)
    (S : List Bool) (hS : S.length = k + p) (hcount : k ≤ S.count true)
    (localIdx : Nat) (hloc : localIdx < k + p) :
    construct Cfg.current f rs (maskUnits S units) localIdx k p =
      .ok (msg, (encOf rs msg k p).getD localIdx [], (treeOf Cfg.current f rs msg k p).2.getD localIdx []) := by
  rw [createUnits_eq Cfg.current f rs sg C P nonce msg k p hin.1 hok] at hc
  injection hc with hc
  subst hc
  exact construct_created Cfg.current f rs C P _ _ msg k p hl hin hok
    (goSized_of_small rs msg k p hl hin hok hsmall) S hS hcount (Or.inl rfl) localIdx hloc

/-! ## 4. Nothing else can be delivered; the receiver does not fail -/

/-- `construct_sound` — "cannot cause a different message to be delivered": for ARBITRARY units
(any shards, any fields, any number), if ConstructMessageFromUnits succeeds and the unit whose root
it compares carries the publisher's root for `msg`, then what it returns is `msg`, the publisher's
shard and the publisher's proof. (Ideal hash; of the codec only the number of shards it returns is used.) -/
theorem construct_sound [DecidableEq H] (cfg : Cfg) (f : HashFns H) (hI : Ideal f) (rs : RS)
    (msg : Bytes) (k p : Nat) (hl : RSLaws rs k p) (hin : PadInput msg k) (hsz : GoSized rs msg k p)
    (U : List (Option (PUnit H))) (localIdx : Nat) (m sh : Bytes) (pr : List H)
    (hc : construct cfg f rs U localIdx k p = .ok (m, sh, pr))
    (hroot : ∀ u0, rootUnit cfg U = some u0 → u0.root = (treeOf cfg f rs msg k p).1) :
    m = msg ∧ sh = (encOf rs msg k p).getD localIdx [] ∧
      pr = (treeOf cfg f rs msg k p).2.getD localIdx [] :=
  Juno.C19.construct_sound cfg f hI rs msg k p hl hin hsz U localIdx m sh pr hc hroot

/-- `construct_total` — "… or the receiver to fail" (the code in /repo): on ANY units that carry at
least one shard each (the validator enforces exactly one; UnitFromProto at least one) and for a
local index below `k+p`, ConstructMessageFromUnits returns a value or an error, never panics.
(`local ≥ k+p` is a caller error: Go panics with index out of range, so does the model.) -/
theorem construct_total [DecidableEq H] (f : HashFns H) (rs : RS)
    (k p : Nat) (hl : RSLaws rs k p) (hk : 0 < k)
    (U : List (Option (PUnit H))) (hU : ∀ u, some u ∈ U → u.shards ≠ []) (localIdx : Nat)
    (hloc : localIdx < k + p) :
    construct Cfg.current f rs U localIdx k p ≠ .panic :=
  Juno.C19.construct_total Cfg.current f rs k p hl hk rfl rfl U hU localIdx hloc

/-! ## 5. The validator: `bad_unit_rejected`, per corrupted field -/

/-- `bad_unit_rejected` (shard data / proof / index / sender / duplicate), stated as what an
ACCEPTED unit must look like: a unit that `UnitValidator.Validate` accepts and that carries the
publisher's root is, field by field, the publisher's unit for its index — shard `enc[index]`, the
tree's proof for `index`, `index < k+p` — was not accepted before, and was sent by the designated
broadcaster of that index (or by the publisher when the local peer is that broadcaster).
Any state of the validator, any sender, any unit. (Ideal hash.) -/
theorem accepted_unit_is_publishers [DecidableEq H] (cfg : Cfg) (f : HashFns H) (hI : Ideal f)
    (sg : SigScheme H) (s : Sched) (publisher : Bytes) (st st' : VState) (u : PUnit H) (sender : Bytes)
    (enc : List Bytes) (hne : enc ≠ []) (htotal : s.total = enc.length)
    (hroot : u.root = (merkleNew f (enc.map (leafOf cfg.validatorLeafProto))).1)
    (h : validate cfg f sg s publisher st u sender = .ok st') :
    u.index < enc.length ∧ u.shards = [enc.getD u.index []] ∧
    u.proof = (merkleNew f (enc.map (leafOf cfg.validatorLeafProto))).2.getD u.index [] ∧
    u.index ∉ st.received ∧
    ∃ expected, s.peerForShard u.publisher u.index = .ok expected ∧
      ((expected = s.localId ∧ sender = u.publisher) ∨ expected = sender) :=
  validate_sound cfg f hI sg s publisher st st' u sender enc hne htotal hroot h

/-- Corrupted shard data is rejected. -/
theorem bad_shard_rejected [DecidableEq H] (cfg : Cfg) (f : HashFns H) (hI : Ideal f)
    (sg : SigScheme H) (s : Sched) (publisher : Bytes) (st : VState) (u : PUnit H) (sender : Bytes)
    (enc : List Bytes) (hne : enc ≠ []) (htotal : s.total = enc.length)
    (hroot : u.root = (merkleNew f (enc.map (leafOf cfg.validatorLeafProto))).1)
    (hbad : u.shards ≠ [enc.getD u.index []]) :
    ∃ e, validate cfg f sg s publisher st u sender = .error e := by
  cases h : validate cfg f sg s publisher st u sender with
  | error e => exact ⟨e, rfl⟩
  | ok st' => exact absurd (validate_sound cfg f hI sg s publisher st st' u sender enc hne htotal hroot h).2.1 hbad

/-- A corrupted Merkle proof is rejected. -/
theorem bad_proof_rejected [DecidableEq H] (cfg : Cfg) (f : HashFns H) (hI : Ideal f)
    (sg : SigScheme H) (s : Sched) (publisher : Bytes) (st : VState) (u : PUnit H) (sender : Bytes)
    (enc : List Bytes) (hne : enc ≠ []) (htotal : s.total = enc.length)
    (hroot : u.root = (merkleNew f (enc.map (leafOf cfg.validatorLeafProto))).1)
    (hbad : u.proof ≠ (merkleNew f (enc.map (leafOf cfg.validatorLeafProto))).2.getD u.index []) :
    ∃ e, validate cfg f sg s publisher st u sender = .error e := by
  cases h : validate cfg f sg s publisher st u sender with
  | error e => exact ⟨e, rfl⟩
  | ok st' => exact absurd (validate_sound cfg f hI sg s publisher st st' u sender enc hne htotal hroot h).2.2.1 hbad

/-- An index outside `[0, k+p)` is rejected — including `index + treeSize`, which passes the
Merkle check (`merkle_sound`) — and so is an index accepted before. -/
theorem bad_index_rejected [DecidableEq H] (cfg : Cfg) (f : HashFns H) (sg : SigScheme H) (s : Sched)
    (publisher : Bytes) (st : VState) (u : PUnit H) (sender : Bytes)
    (hbad : s.total ≤ u.index ∨ u.index ∈ st.received) :
    ∃ e, validate cfg f sg s publisher st u sender = .error e := by
  cases h : validate cfg f sg s publisher st u sender with
  | error e => exact ⟨e, rfl⟩
  | ok st' =>
    obtain ⟨hdup, horig, _⟩ := validate_ok_inv cfg f sg s publisher st st' u sender h
    obtain ⟨_, _, hidx, _⟩ := origin_ok_inv s sender u.publisher u.index horig
    cases hbad with
    | inl hb => omega
    | inr hb => simp [hb] at hdup

/-- A unit from any sender other than the designated broadcaster of its index (or the publisher,
when the local peer is the designated broadcaster) is rejected. -/
theorem bad_sender_rejected [DecidableEq H] (cfg : Cfg) (f : HashFns H) (sg : SigScheme H) (s : Sched)
    (publisher : Bytes) (st : VState) (u : PUnit H) (sender expected : Bytes)
    (hp : s.peerForShard u.publisher u.index = .ok expected)
    (h1 : ¬ (expected = s.localId ∧ sender = u.publisher)) (h2 : expected ≠ sender) :
    ∃ e, validate cfg f sg s publisher st u sender = .error e := by
  cases h : validate cfg f sg s publisher st u sender with
  | error e => exact ⟨e, rfl⟩
  | ok st' =>
    obtain ⟨_, horig, _⟩ := validate_ok_inv cfg f sg s publisher st st' u sender h
    obtain ⟨e, he⟩ := origin_rejects_other_sender s sender u.publisher u.index expected hp h1 h2
    rw [he] at horig; cases horig

/-- `bad_unit_rejected` (signature / committee / nonce / root / publisher), over ANY sequence of
deliveries through the processor's routing (one validator per message key, signature cached after
the first verification), starting with no validators: every accepted unit carries a signature that
verifies under ITS publisher's key over ITS OWN (root, committee, nonce), and passed the origin and
Merkle checks. With an unforgeable signature scheme a unit whose signature, committee, nonce, root
or publisher was altered therefore is rejected unless the publisher signed exactly the altered
payload. -/
theorem accepted_units_are_signed [DecidableEq H] (cfg : Cfg) (f : HashFns H) (sg : SigScheme H)
    (s : Sched) (ops : List (PUnit H × Bytes)) (i : Nat) (u : PUnit H) (sender : Bytes)
    (hop : ops[i]? = some (u, sender))
    (hacc : (deliverAll cfg f sg s [] ops)[i]? = some (.ok ())) :
    sg.verify u.publisher ⟨u.root, u.committee, u.nonce⟩ u.sig = true ∧
    s.validateOrigin sender u.publisher u.index = .ok () ∧
    verifyDataShards cfg f u = .ok () :=
  deliverAll_accepted cfg f sg s ops [] (routesOk_nil sg) i u sender hop hacc

/-- One delivery in any reachable state: a unit whose signature does not verify over its own
fields is rejected (also when a signature is already cached for its message key), the invariant
is kept, and no index is accepted twice for one message key. -/
theorem bad_signature_rejected [DecidableEq H] (cfg : Cfg) (f : HashFns H) (sg : SigScheme H)
    (s : Sched) (r : Routes H) (hr : RoutesOk sg r) (u : PUnit H) (sender : Bytes)
    (hbad : sg.verify u.publisher ⟨u.root, u.committee, u.nonce⟩ u.sig = false) :
    (deliver cfg f sg s r u sender).2 ≠ .ok () ∧ RoutesOk sg (deliver cfg f sg s r u sender).1 := by
  refine ⟨fun h => ?_, (deliver_step cfg f sg s r u sender hr).1⟩
  have := ((deliver_step cfg f sg s r u sender hr).2 h).1
  rw [hbad] at this; cases this

theorem no_index_accepted_twice [DecidableEq H] (cfg : Cfg) (f : HashFns H) (sg : SigScheme H)
    (s : Sched) (r : Routes H) (hr : RoutesOk sg r) (u : PUnit H) (sender : Bytes)
    (hacc : (deliver cfg f sg s r u sender).2 = .ok ()) :
    (∀ st, r.find (keyOf u) = some st → u.index ∉ st.received) ∧
    ∃ st', (deliver cfg f sg s r u sender).1.find (keyOf u) = some st' ∧ u.index ∈ st'.received ∧
      st'.received.Nodup := by
  obtain ⟨_, _, _, h4, st', h5, h6⟩ := (deliver_step cfg f sg s r u sender hr).2 hacc
  exact ⟨h4, st', h5, h6, ((deliver_step cfg f sg s r u sender hr).1 _ _ h5).1⟩

/-! ## 6. Completeness of the validator (honest units are accepted) -/

/-- `honest_unit_accepted` (the code in /repo, end to end): unit `i` of CreatePropellerUnits, sent by
its designated sender, is accepted by a fresh validator of a receiver whose scheduler was made by
`NewScheduler` — given only that signing then verifying succeeds and signatures are not empty. -/
theorem honest_unit_accepted [DecidableEq H] (f : HashFns H) (rs : RS) (sg : SigScheme H)
    (id : Bytes) (nodes : List Bytes) (s : Sched) (hs : newScheduler id nodes = .ok s)
    (C P : Bytes) (hP : P ≠ id) (nonce : Nat) (msg : Bytes) (i : Nat) (sender : Bytes)
    (hl : RSLaws rs s.k s.c) (hin : PadInput msg s.k) (hi : i < s.k + s.c)
    (hsender : s.legitSender P i = some sender)
    (hne : sg.sign ⟨(treeOf Cfg.current f rs msg s.k s.c).1, C, nonce⟩ ≠ [])
    (hsv : sg.verify P ⟨(treeOf Cfg.current f rs msg s.k s.c).1, C, nonce⟩
      (sg.sign ⟨(treeOf Cfg.current f rs msg s.k s.c).1, C, nonce⟩) = true) :
    validate Cfg.current f sg s P VState.fresh (honestUnit Cfg.current f rs sg C P nonce msg s.k s.c i) sender =
      .ok { received := [i], verifiedSig := some (sg.sign ⟨(treeOf Cfg.current f rs msg s.k s.c).1, C, nonce⟩) } := by
  obtain ⟨_, _, _, _, _, _, _, _, hid, _, _⟩ := newScheduler_spec id nodes s hs
  exact validate_accepts_honest Cfg.current f rs sg s C P nonce msg s.k s.c i rfl hl hin hi VState.fresh
    (by simp [VState.fresh]) sender (origin_accepts_legit s P i sender (by rw [hid]; exact hP) hsender)
    (Or.inr ⟨rfl, hne, hsv⟩)

/-! ## 7. The scheduler `NewScheduler` builds -/

/-- Reachability: every scheduler `NewScheduler` returns has a strictly sorted, duplicate-free peer
list with exactly the given peers, `k = max(1, (N-1)/3)` data shards, `k + c = N - 1` shards in
total, and the local peer at `localIdx` — everything the other theorems assume of a `Sched`. -/
theorem scheduler_wellformed (id : Bytes) (nodes : List Bytes) (s : Sched)
    (h : newScheduler id nodes = .ok s) :
    s.peers = sortIds nodes ∧ SortedLt s.peers ∧ s.peers.Nodup ∧
    s.peers.length = nodes.length ∧ 2 ≤ nodes.length ∧
    s.peers.length = s.total + 1 ∧ 1 ≤ s.k ∧ s.k = max 1 ((nodes.length - 1) / 3) ∧
    s.localId = id ∧ s.peers.idxOf? id = some s.localIdx ∧
    (∀ q, q ∈ s.peers ↔ q ∈ nodes) :=
  newScheduler_spec id nodes s h

/-- For a scheduler made by `NewScheduler` and any publisher in the committee: every shard index
has exactly one designated broadcaster, a member other than the publisher; no peer has two. -/
theorem scheduler_assignment_bijective (id : Bytes) (nodes : List Bytes) (s : Sched)
    (h : newScheduler id nodes = .ok s) (pub : Bytes) (hp : pub ∈ nodes) :
    (∀ i, i < s.total → ∃ q, s.peerForShard pub i = .ok q ∧ q ∈ s.peers ∧ q ≠ pub) ∧
    (∀ i j q, s.peerForShard pub i = .ok q → s.peerForShard pub j = .ok q → i = j) := by
  obtain ⟨_, _, hnd, _, _, hlen, _, _, _, _, hmem⟩ := newScheduler_spec id nodes s h
  exact peerForShard_spec s hnd hlen pub ((hmem pub).mpr hp)

/-- `ShardIndexForPublisher` inverts `PeerForShardIndex`: the shard index the local peer computes
for itself is in range and is the one whose designated broadcaster is the local peer. -/
theorem scheduler_local_index_inverse (id : Bytes) (nodes : List Bytes) (s : Sched)
    (h : newScheduler id nodes = .ok s) (pub : Bytes) (hp : pub ∈ nodes) (hne : pub ≠ id) :
    ∃ i, s.shardIndexFor pub = .ok i ∧ i < s.total ∧ s.peerForShard pub i = .ok s.localId := by
  obtain ⟨_, _, _, _, _, hlen, _, _, hid, hloc, hmem⟩ := newScheduler_spec id nodes s h
  exact shardIndexFor_inverse s hlen (by rw [hid]; exact hloc) pub ((hmem pub).mpr hp) (by rw [hid]; exact hne)

/-- Completeness of the origin check: the designated sender (the broadcaster of the index, or the
publisher when that is the local peer) passes it. -/
theorem origin_accepts_designated_sender (s : Sched) (pub : Bytes) (i : Nat) (sender : Bytes)
    (hne : pub ≠ s.localId) (h : s.legitSender pub i = some sender) :
    s.validateOrigin sender pub i = .ok () :=
  origin_accepts_legit s pub i sender hne h

/-- `broadcast_targets_are_designated` — the publisher side of the assignment: `BroadcastTargets()`
has one entry per shard and entry `i` is `PeerForShardIndex(self, i)`, the peer every receiver accepts
shard `i` of this publisher from. -/
theorem broadcast_targets_are_designated (id : Bytes) (nodes : List Bytes) (s : Sched)
    (hs : newScheduler id nodes = .ok s) :
    (broadcastTargetsGo s.peers s.localIdx).length = s.total ∧
    ∀ i, i < s.total → ∃ q, (broadcastTargetsGo s.peers s.localIdx)[i]? = some q ∧
      s.peerForShard s.localId i = .ok q :=
  broadcastTargetsGo_spec id nodes s hs

/-- `broadcast_peers_exact` — `broadcastUnit` (processor.go) allocates `N-2` slots and fills one per
member that is neither the publisher nor the local peer: for every scheduler `NewScheduler` makes and
every publisher a subprocessor can exist for, that is exactly `N-2` members — the slice is never
overrun (the index-out-of-range the code's `todo` worries about cannot happen), no slot stays empty,
nobody is listed twice, neither the publisher nor the local peer is listed. -/
theorem broadcast_peers_exact (id : Bytes) (nodes : List Bytes) (s : Sched)
    (hs : newScheduler id nodes = .ok s) (pub : Bytes) (li : Nat) (h : s.shardIndexFor pub = .ok li) :
    ∃ l, broadcastPeersGo s.peers s.localId pub = some l ∧ l.length = s.peers.length - 2 ∧ l.Nodup ∧
      ∀ q, q ∈ l ↔ (q ∈ s.peers ∧ q ≠ pub ∧ q ≠ s.localId) :=
  broadcastPeersGo_spec id nodes s hs pub li h

/-! ## 8. The wire form of a unit (UnitFromProto / ToProto) -/

/-- Round trip: `UnitFromProto(unit.ToProto()) = unit` for every well-formed unit (`WireOk`: at
least one shard, equal shard lengths, 32-byte hashes and committee id, 32-bit index, 64-bit nonce),
with or without the guard. -/
theorem unit_proto_roundtrip (guard : Bool) (u : PUnit Bytes) (h : WireOk u) :
    unitFromProto guard (unitToProto u) = .ok u :=
  unitFromProto_toProto guard u h

/-- Whatever UnitFromProto lets through has at least one shard, a 32-byte root, 32-byte siblings
and committee id and a 32-bit index. -/
theorem unit_from_proto_shape (guard : Bool) (pu : ProtoUnit) (u : PUnit Bytes)
    (h : unitFromProto guard pu = .ok u) : u.shards ≠ [] ∧ u.root.length = 32 ∧
      (∀ s ∈ u.proof, s.length = 32) ∧ u.committee.length = 32 ∧ u.index < 2 ^ 32 :=
  unitFromProto_ok_shape guard pu u h

/-- `unit_from_proto_total` (the code in /repo since a0ebef4, `wireGuard = true`): no protobuf unit
whatsoever makes UnitFromProto panic. -/
theorem unit_from_proto_total (pu : ProtoUnit) : unitFromProto PCfg.current.wireGuard pu ≠ .panic :=
  unitFromProto_total pu

/-- The rejections, in the order the code checks: a unit without shards is `no shards` whatever
else is wrong with it; otherwise a Merkle root that is not 32 bytes is reported before the shard
lengths are looked at. -/
theorem unit_from_proto_error_order (pu : ProtoUnit) :
    (pu.shards = [] → unitFromProto PCfg.current.wireGuard pu = .err .noShards) ∧
    (pu.shards ≠ [] → pu.merkleRoot.length ≠ 32 →
      unitFromProto PCfg.current.wireGuard pu = .err .rootLen) :=
  unitFromProto_guard_errors pu

/-! ## 9. The processor: units in any order, duplicates, forged units interleaved -/

/-- Reachability: the invariant the processor theorems need (`ProcInv`: every stored subprocessor
holds only units of its own message key, each with a shard, one slot per shard index, and has
accepted at least one unit) holds initially and is kept by every step — hence in every state
reachable by any sequence of units. -/
theorem processor_invariant [DecidableEq H] (cfg : Cfg) (pc : PCfg) (f : HashFns H) (rs : RS)
    (sg : SigScheme H) (s : Sched) :
    ProcInv s (Proc.empty : Proc H) ∧
    ∀ (p : Proc H) (u : PUnit H) (sender : Bytes), ProcInv s p →
      ProcInv s (procStep cfg pc f rs sg s p u sender).1 :=
  ⟨procInv_empty s, fun p u sender hp => procStep_inv cfg pc f rs sg s p u sender hp⟩

/-- `processor_builds_exact_message` — over ANY sequence of `(unit, sender)` pairs handed to a
fresh processor (any order, duplicates, forged units of this or other messages interleaved): if a
step builds a message for a unit that carries the publisher's root of `msg`, the message built is
`msg`. (Ideal hash; codec laws for the scheduler's `(k, c)`.) -/
theorem processor_builds_exact_message [DecidableEq H] (cfg : Cfg) (pc : PCfg) (f : HashFns H)
    (hI : Ideal f) (rs : RS) (sg : SigScheme H) (s : Sched) (msg : Bytes) (hl : RSLaws rs s.k s.c)
    (hin : PadInput msg s.k) (hsz : GoSized rs msg s.k s.c)
    (ops : List (PUnit H × Bytes)) (i : Nat) (u : PUnit H) (sender : Bytes) (bc : List (PUnit H))
    (m : Bytes) (e : Option Bool) (hop : ops[i]? = some (u, sender))
    (hroot : u.root = (treeOf cfg f rs msg s.k s.c).1)
    (hb : (procRun cfg pc f rs sg s Proc.empty ops)[i]? = some (.handled bc (some m) e)) : m = msg :=
  procRun_built_sound cfg pc f hI rs sg s msg hl hin hsz ops Proc.empty (procInv_empty s) i u sender bc m e
    hop hroot hb

/-- One step in any reachable state: besides the message, every unit handed to `broadcastUnit` is
the accepted unit itself or the local unit carrying the publisher's shard and proof for the local
shard index under the same message key. -/
theorem processor_broadcasts_publishers_unit [DecidableEq H] (cfg : Cfg) (pc : PCfg) (f : HashFns H)
    (hI : Ideal f) (rs : RS) (sg : SigScheme H) (s : Sched) (p : Proc H) (hp : ProcInv s p) (u : PUnit H)
    (sender : Bytes) (msg : Bytes) (hl : RSLaws rs s.k s.c) (hin : PadInput msg s.k)
    (hsz : GoSized rs msg s.k s.c) (hroot : u.root = (treeOf cfg f rs msg s.k s.c).1)
    (bc : List (PUnit H)) (m : Bytes) (e : Option Bool)
    (h : (procStep cfg pc f rs sg s p u sender).2 = .handled bc (some m) e) :
    m = msg ∧ ∃ li, s.shardIndexFor u.publisher = .ok li ∧
      ∀ lu ∈ bc, lu = u ∨ (lu.shards = [(encOf rs msg s.k s.c).getD li []] ∧
        lu.proof = (treeOf cfg f rs msg s.k s.c).2.getD li [] ∧ lu.index = li ∧ keyOf lu = keyOf u) :=
  procStep_built_sound cfg pc f hI rs sg s p hp u sender msg hl hin hsz hroot bc m e h

/-- `processor_builds_once` — "threshold reached → reconstruct exactly once": over any sequence
of units from any state, two different steps never both build the message of one key. -/
theorem processor_builds_once [DecidableEq H] (cfg : Cfg) (pc : PCfg) (f : HashFns H) (rs : RS)
    (sg : SigScheme H) (s : Sched) (ops : List (PUnit H × Bytes)) (p : Proc H) (i j : Nat) (hij : i < j)
    (ui uj : PUnit H) (si sj : Bytes) (bi bj : List (PUnit H)) (mi mj : Bytes) (ei ej : Option Bool)
    (hi : ops[i]? = some (ui, si)) (hj : ops[j]? = some (uj, sj)) (hk : keyOf ui = keyOf uj)
    (hbi : (procRun cfg pc f rs sg s p ops)[i]? = some (.handled bi (some mi) ei)) :
    (procRun cfg pc f rs sg s p ops)[j]? ≠ some (.handled bj (some mj) ej) :=
  procRun_builds_at_most_once cfg pc f rs sg s ops p i j hij ui uj si sj bi bj mi mj ei ej hi hj hk hbi

/-- What is handed to `broadcastUnit`, in ANY step (building or not), in any state: at most one
unit; it carries the local shard index of the receiver for this publisher; it is the unit just
accepted, or — only in the step that builds — the filled local unit (whose content
`processor_broadcasts_publishers_unit` pins down). -/
theorem processor_broadcasts_only_local_index [DecidableEq H] (cfg : Cfg) (pc : PCfg) (f : HashFns H)
    (rs : RS) (sg : SigScheme H) (s : Sched) (p : Proc H) (u : PUnit H) (sender : Bytes)
    (bc : List (PUnit H)) (b : Option Bytes) (e : Option Bool)
    (h : (procStep cfg pc f rs sg s p u sender).2 = .handled bc b e) :
    bc.length ≤ 1 ∧
    ∃ li, s.shardIndexFor u.publisher = .ok li ∧ ∀ lu ∈ bc, lu.index = li ∧ (lu = u ∨ b ≠ none) :=
  ⟨(procStep_bcast_marks_sent cfg pc f rs sg s p u sender bc b e h).1,
   (procStep_bcast_marks_sent cfg pc f rs sg s p u sender bc b e h).2.2⟩

/-- `processor_broadcasts_once`: over any sequence of units from the empty processor, the local unit
of a message key is handed to `broadcastUnit` at most once. -/
theorem processor_broadcasts_once [DecidableEq H] (cfg : Cfg) (pc : PCfg) (f : HashFns H) (rs : RS)
    (sg : SigScheme H) (s : Sched) (ops : List (PUnit H × Bytes)) (i j : Nat) (hij : i < j)
    (ui uj : PUnit H) (si sj : Bytes) (bi bj : List (PUnit H)) (mi mj : Option Bytes) (ei ej : Option Bool)
    (hi : ops[i]? = some (ui, si)) (hj : ops[j]? = some (uj, sj)) (hk : keyOf ui = keyOf uj)
    (hbi : (procRun cfg pc f rs sg s Proc.empty ops)[i]? = some (.handled bi mi ei)) (hne : bi ≠ [])
    (hbj : (procRun cfg pc f rs sg s Proc.empty ops)[j]? = some (.handled bj mj ej)) : bj = [] :=
  procRun_broadcasts_at_most_once cfg pc f rs sg s ops Proc.empty (procInv_empty s) i j hij ui uj si sj
    bi bj mi mj ei ej hi hj hk hbi hne hbj

/-- `rejected_unit_is_noop` (the code in /repo, since 5ab3121) — "a unit … that does not match is
rejected and cannot cause … the receiver to fail": in any reachable state a unit rejected by the
validator of its message key triggers no broadcast and no build, does not panic, and leaves every
later outcome of every later unit — of any message — exactly what it would have been without it. -/
theorem rejected_unit_is_noop [DecidableEq H] (cfg : Cfg)
    (f : HashFns H) (rs : RS) (sg : SigScheme H) (s : Sched) (p : Proc H) (hp : ProcInv s p)
    (u : PUnit H) (sender : Bytes) (e : VErr)
    (hrej : validate cfg f sg s (keyOf u).publisher
      ((p.findSub (keyOf u)).getD (SubState.fresh s.total)).v u sender = .error e) :
    (∀ bc b en, (procStep cfg PCfg.current f rs sg s p u sender).2 = .handled bc b en → bc = [] ∧ b = none) ∧
    (procStep cfg PCfg.current f rs sg s p u sender).2 ≠ .panic ∧
    ∀ ops, procRun cfg PCfg.current f rs sg s (procStep cfg PCfg.current f rs sg s p u sender).1 ops =
      procRun cfg PCfg.current f rs sg s p ops :=
  Juno.C19.rejected_unit_is_noop cfg PCfg.current rfl f rs sg s p hp u sender e (Or.inl rfl) hrej

/-- LIVENESS — the processor-level form of "the original message can be rebuilt bit-for-bit from
any subset of shards meeting the threshold, whichever shards are missing" (the code in /repo, since
d8826cb): for a receiver whose scheduler
`NewScheduler` made, a publisher with a usable key, a processor that has not seen the message, and
ANY `k` distinct shard indices in ANY order — the honest units with these indices, each from its
designated sender (`Sched.sender`), make the processor
* store the first `k-1` (`handled _ none none`: no build, no end),
* build EXACTLY `msg` at the `k`-th,
* and hand to `broadcastUnit`, over the whole run, exactly one unit: the publisher's unit for the
  local shard index — whether or not that unit was among the `k` received.
Signing is only assumed to round-trip (`SigOk`); the codec satisfies `RSLaws`. -/
theorem processor_builds_from_k_honest_units [DecidableEq H] (f : HashFns H) (rs : RS) (sg : SigScheme H)
    (id : Bytes) (nodes : List Bytes) (s : Sched) (hs : newScheduler id nodes = .ok s)
    (C P : Bytes) (hPm : P ∈ nodes) (hP : P ≠ id) (hkey : sg.hasKey P = true)
    (nonce : Nat) (msg : Bytes) (hl : RSLaws rs s.k s.c) (hin : PadInput msg s.k)
    (hok : rsNewOk s.k s.c = true) (hsmall : msg.length < 2 ^ 40)
    (hsig : SigOk f rs sg s C P nonce msg) (p : Proc H)
    (hfin : p.finalized.contains (hKey f rs s C P nonce msg) = false)
    (hnone : p.findSub (hKey f rs s C P nonce msg) = none)
    (idxs : List Nat) (hnd : idxs.Nodup) (hlt : ∀ i ∈ idxs, i < s.total) (hlen : idxs.length = s.k) :
    ∃ li, s.shardIndexFor P = .ok li ∧ li < s.total ∧ ∃ pre bc e,
      procRun Cfg.current PCfg.current f rs sg s p
          (idxs.map (fun i => (honestUnit Cfg.current f rs sg C P nonce msg s.k s.c i, s.sender P i))) =
        pre ++ [.handled bc (some msg) e] ∧
      (∀ o ∈ pre, ∃ b, o = .handled b none none) ∧
      (pre ++ [.handled bc (some msg) e]).flatMap ProcOut.bcast =
        [honestUnit Cfg.current f rs sg C P nonce msg s.k s.c li] :=
  procRun_builds_from_honest_units f rs sg s C P nonce msg PCfg.current rfl id nodes hs hPm hP hkey hl hin hok
    hsmall hsig p hfin hnone idxs hnd hlt hlen

/-- `processor_total` (the code in /repo: a2bceaf, 32710c6, d8826cb, 76dcbab): for a receiver whose
scheduler `NewScheduler` made, in any reachable state, NO unit — honest or forged, whatever publisher
it names, with or without a usable key — makes the processor panic. -/
theorem processor_total [DecidableEq H] (f : HashFns H) (rs : RS)
    (sg : SigScheme H) (id : Bytes) (nodes : List Bytes) (s : Sched) (hs : newScheduler id nodes = .ok s)
    (p : Proc H) (hp : ProcInv s p) (u : PUnit H) (sender : Bytes) (hl : RSLaws rs s.k s.c) :
    (procStep Cfg.current PCfg.current f rs sg s p u sender).2 ≠ .panic :=
  procStep_total Cfg.current PCfg.current f rs sg id nodes s hs p hp u sender rfl rfl rfl rfl hl

/-! ## 9b. Task accounting of the processor (`increaseTasks` / `decreaseTask`) -/

/-- `processor_task_counters` — in EVERY reachable state of the processor (initially, after every
unit — accepted, rejected, refused, of any message key — and after every time-out of a
subprocessor) the counter `tasks` is the number of live subprocessors and `publisherTasks[P]` the
number of live subprocessors whose message names publisher `P`; no two live subprocessors share a
message key. Hence every path that ends a subprocessor (`finalize` after the receive threshold, an
error or the time-out; `discard` after an invalid first unit) releases exactly what
`createSubprocessor` took. -/
theorem processor_task_counters [DecidableEq H] (b : Bounds) (cfg : Cfg) (pc : PCfg) (f : HashFns H)
    (rs : RS) (sg : SigScheme H) (s : Sched) :
    TInv (TProc.empty : TProc H) ∧
    (∀ (tp : TProc H) (u : PUnit H) (sender : Bytes), TInv tp →
      TInv (tprocStep b cfg pc f rs sg s tp u sender).1) ∧
    (∀ (tp : TProc H) (key : MsgKey H), TInv tp → TInv (tprocExpire tp key)) ∧
    (∀ (tp : TProc H), TInv tp → tp.tasks = tp.core.subs.length ∧
      ∀ P, tp.ptasks P = (tp.core.subs.filter (fun e => decide (e.1.publisher = P))).length) :=
  ⟨tinv_empty, fun tp u sender h => tprocStep_inv b cfg pc f rs sg s tp u sender h,
   fun tp key h => tprocExpire_inv tp key h, fun tp h => tinv_counts tp h⟩

/-- `rejected_units_release_their_slots` — "a unit … that does not match is rejected and cannot
cause … the receiver to fail", for the resource the rejected path holds: in any reachable state, ANY
sequence of units each of which is rejected by the validator of its message key — however long, of
however many distinct message keys, whatever publishers they name — leaves `tasks` and every
`publisherTasks[P]` exactly where they were. (So no number of garbage first units naming `P` can make
the processor refuse `P`'s honest units with "tasks per publisher exceeded".) -/
theorem rejected_units_release_their_slots [DecidableEq H] (b : Bounds) (cfg : Cfg)
    (f : HashFns H) (rs : RS) (sg : SigScheme H) (s : Sched)
    (ops : List (PUnit H × Bytes)) (tp : TProc H) (hp : ProcInv s tp.core)
    (hrej : AllRejected b cfg PCfg.current f rs sg s tp ops) :
    (tprocRunState b cfg PCfg.current f rs sg s tp ops).tasks = tp.tasks ∧
    (tprocRunState b cfg PCfg.current f rs sg s tp ops).ptasks = tp.ptasks :=
  rejected_units_keep_counters b cfg PCfg.current f rs sg s ops tp hp hrej

/-- `task_accounting_is_transparent` — whenever no subprocessor has to be created, or a slot is free
(the publisher's count and the total are not AT their bounds), the accounting changes nothing: the
outcome and the processor state are those of `procStep`, about which §9 speaks (in particular
`processor_builds_from_k_honest_units`). -/
theorem task_accounting_is_transparent [DecidableEq H] (b : Bounds) (cfg : Cfg) (pc : PCfg)
    (f : HashFns H) (rs : RS) (sg : SigScheme H) (s : Sched) (tp : TProc H) (u : PUnit H) (sender : Bytes)
    (hfree : wouldCreate pc sg s tp.core u = true →
      tp.ptasks (keyOf u).publisher ≠ b.maxPerPublisher ∧ tp.tasks ≠ b.maxWorkers) :
    (tprocStep b cfg pc f rs sg s tp u sender).2 = (procStep cfg pc f rs sg s tp.core u sender).2 ∧
    (tprocStep b cfg pc f rs sg s tp u sender).1.core = (procStep cfg pc f rs sg s tp.core u sender).1 :=
  tprocStep_eq_procStep b cfg pc f rs sg s tp u sender hfree

/-! ## 9c. The finalized cache (`timecache.TimeCache`) -/

/-- `finalized_cache_is_ttl_set` — `Processor.finalized`, which the rest of the model treats as a set,
IS one as long as nothing expires, and forgets exactly what has expired: a `TimeCache` made by
`New(size, ttl)` (any initial size ≥ 1) answers every `Get` of every run — any number of `Add`s and
`Get`s, a clock that does not go backwards, a key added only when it is not live (the processor adds a
key when the subprocessor it created after a negative `Get` ends) — with "some `Add` of this key has
not expired yet". The ring buffer's wrap-around, `removeExpired` and both branches of `regrowth`
(contiguous and wrapped, doubling and +20 %) never lose, duplicate or resurrect an entry. -/
theorem finalized_cache_is_ttl_set {K : Type} [DecidableEq K] (size ttl : Nat) (hsize : 1 ≤ size)
    (httl : 0 < ttl) (ops : List (TOp K)) (hw : WellFormed ttl 0 [] ops) :
    ((TCache.new size ttl : TCache K).run ops).2 = specRun ttl [] ops :=
  cache_run_spec size ttl hsize httl ops hw

/-- `finalized_cache_is_a_set_before_expiry` — the link to the processor model, whose `finalized` is a
plain set: in every well-formed run whose operations all happen before the first possible expiry
(`time < ttl`), `Get` answers exactly "the key was added". -/
theorem finalized_cache_is_a_set_before_expiry {K : Type} [DecidableEq K] (size ttl : Nat) (hsize : 1 ≤ size)
    (ops : List (TOp K)) (hw : WellFormed ttl 0 [] ops) (hearly : ∀ op ∈ ops, op.time < ttl) :
    ((TCache.new size ttl : TCache K).run ops).2 = setRun [] ops := by
  cases ops with
  | nil => rfl
  | cons op rest =>
    have httl : 0 < ttl := Nat.lt_of_le_of_lt (Nat.zero_le _) (hearly op (List.mem_cons_self ..))
    rw [cache_run_spec size ttl hsize httl _ hw]
    exact specRun_eq_setRun ttl _ [] (by intro p hp; cases hp) hearly

/-- One operation in any represented state (the invariant `Repr tc q`: map, ring, `start`, `end`,
`size` represent the queue `q` of (key, expiry) in insertion order): `removeExpired` drops the
expired prefix, `regrowth` keeps the queue and makes room, `Add` appends, `Get` looks up. -/
theorem finalized_cache_operations {K : Type} [DecidableEq K] (tc : TCache K) (q : List (K × Nat))
    (h : Repr tc q) (now : Nat) (k : K) :
    Repr (tc.removeExpired now) (q.dropWhile (fun p => decide (p.2 ≤ now))) ∧
    (tc.almostFull = true → Repr tc.regrow q ∧ tc.regrow.almostFull = false) ∧
    ((∀ e, (k, e) ∈ q → e ≤ now) → (∀ p ∈ q, p.2 ≤ now + tc.ttl) →
      Repr (tc.add now k) (q.filter (fun p => decide (now < p.2)) ++ [(k, now + tc.ttl)])) ∧
    ((tc.get now k).2 = true ↔ ∃ e, (k, e) ∈ q ∧ now < e) :=
  ⟨repr_removeExpired tc q now h, fun hf => ⟨(repr_regrow tc q h hf).1, (repr_regrow tc q h hf).2.1⟩,
   fun h1 h2 => (repr_add tc q now k h h1 h2).1, (repr_get tc q now k h).1⟩

/-! ## 10. Regression witnesses of repaired defects (`*_before_fix_<commit>`)

True statements about flag values the code in /repo no longer has; kept so that the defect stays
documented on the model and, should a repair be lost, the harness (which probes the flags) drives
the model with the old value again. Not part of the property's coverage. -/

/-- Regression statement (UnpadMessage before 32710c6, `guard = false`): it panicked exactly when
`varintLen + msgLen` wraps around `uint64` and the wrapped sum does not exceed the buffer length;
on every other input it agreed with the repaired function. -/
theorem unpad_before_fix_32710c6 (p : Bytes) (hlen : p.length < 2 ^ 64) :
    (unpad false p = .panic ↔
      (0 < (uvarint p).2 ∧ 2 ^ 64 ≤ ((uvarint p).2).toNat + (uvarint p).1.toNat ∧
       ((uvarint p).2).toNat + (uvarint p).1.toNat - 2 ^ 64 ≤ p.length)) ∧
    (unpad false p ≠ .panic → unpad false p = unpad true p) :=
  ⟨unpad_pinned_panic_iff p hlen, unpad_variants_agree p hlen⟩

/-- The replayed input of the fixed finding `unpad-panics-on-length-overflow`, `ff×9 01 00 00`:
a panic before the repair (Go: `slice bounds out of range [10:9]`), a length error since. -/
theorem unpad_overflow_before_fix_32710c6 :
    unpad false [0xff, 0xff, 0xff, 0xff, 0xff, 0xff, 0xff, 0xff, 0xff, 0x01, 0, 0] = .panic ∧
    unpad true [0xff, 0xff, 0xff, 0xff, 0xff, 0xff, 0xff, 0xff, 0xff, 0x01, 0, 0] = .err .length := by
  decide

/-- Regression statement (code before a2bceaf), for ALL messages and configurations: whenever shard
0 is missing, however many other shards are present, ConstructMessageFromUnits panicked (nil
dereference of `units[0]`). -/
theorem reconstruct_panicked_without_shard0_before_fix_a2bceaf [DecidableEq H] (cfg : Cfg)
    (hpinned : cfg.rootFromPresent = false)
    (f : HashFns H) (rs : RS) (sg : SigScheme H) (C P : Bytes) (nonce : Nat) (msg : Bytes) (k p : Nat)
    (hl : RSLaws rs k p) (hin : PadInput msg k) (hok : rsNewOk k p = true) (hsz : GoSized rs msg k p)
    (units : List (PUnit H)) (hc : createUnits cfg f rs sg C P nonce msg k p = .ok units)
    (S : List Bool) (hS : S.length = k + p) (hcount : k ≤ S.count true) (h0 : S.head? = some false)
    (localIdx : Nat) (hloc : localIdx < k + p) :
    construct cfg f rs (maskUnits S units) localIdx k p = .panic := by
  rw [createUnits_eq cfg f rs sg C P nonce msg k p hin.1 hok] at hc
  injection hc with hc
  subst hc
  exact construct_created_panics_pinned cfg f rs C P _ _ msg k p hl hin hok hsz S hS hcount hpinned h0
    localIdx hloc

/-- The concrete replay of the fixed finding `construct-panics-when-shard0-missing`, on the model:
`(k, p) = (1, 1)` (three peers), message "hi", only unit 1 present. Before a2bceaf: panic. Now:
the message. -/
theorem reconstruct_without_shard0_before_fix_a2bceaf (sg : SigScheme HTerm) (C P : Bytes) (nonce : Nat) :
    (∃ units, createUnits Cfg.pinned termFns repCode11 sg C P nonce [104, 105] 1 1 = .ok units ∧
      construct Cfg.pinned termFns repCode11 (maskUnits [false, true] units) 1 1 1 = .panic) ∧
    (∃ units sh pr, createUnits Cfg.repaired termFns repCode11 sg C P nonce [104, 105] 1 1 = .ok units ∧
      construct Cfg.repaired termFns repCode11 (maskUnits [false, true] units) 1 1 1 =
        .ok ([104, 105], sh, pr)) := by
  have hin : PadInput [104, 105] 1 := by unfold PadInput; decide
  have hok : rsNewOk 1 1 = true := by decide
  have hsz := goSized_of_small repCode11 [104, 105] 1 1 repCode11_laws hin hok (by decide)
  refine ⟨⟨_, createUnits_eq Cfg.pinned termFns repCode11 sg C P nonce _ 1 1 hin.1 hok, ?_⟩,
    ⟨_, (encOf repCode11 [104, 105] 1 1).getD 1 [],
      (treeOf Cfg.repaired termFns repCode11 [104, 105] 1 1).2.getD 1 [],
      createUnits_eq Cfg.repaired termFns repCode11 sg C P nonce _ 1 1 hin.1 hok, ?_⟩⟩
  · exact construct_created_panics_pinned Cfg.pinned termFns repCode11 C P _ _ _ 1 1 repCode11_laws hin hok
      hsz [false, true] rfl (by decide) rfl rfl 1 (by decide)
  · exact construct_created Cfg.repaired termFns repCode11 C P _ _ _ 1 1 repCode11_laws hin hok hsz
      [false, true] rfl (by decide) (Or.inl rfl) 1 (by decide)

/-- Regression statement (leaf encodings before 8f80b72), for ALL messages, configurations and
indices: every unit of CreatePropellerUnits failed `verifyDataShards`. -/
theorem honest_unit_rejected_before_fix_8f80b72 [DecidableEq H] (cfg : Cfg) (f : HashFns H)
    (hI : Ideal f) (rs : RS) (sg : SigScheme H) (C P : Bytes) (nonce : Nat) (msg : Bytes) (k p i : Nat)
    (h1 : cfg.shardingLeafProto = false) (h2 : cfg.validatorLeafProto = true)
    (hl : RSLaws rs k p) (hin : PadInput msg k) (hi : i < k + p) :
    verifyDataShards cfg f (honestUnit cfg f rs sg C P nonce msg k p i) = .error .merkle :=
  created_unit_rejected_when_leaf_encodings_differ cfg f hI rs sg C P nonce msg k p i h1 h2 hl hin hi

/-- The unit's own (root, committee, nonce) is the payload the publisher signed iff
CreatePropellerUnits stores the nonce (since d76716c) or the nonce is 0: before, with any other
nonce, an unforgeable scheme rejected the signature of every honest unit. -/
theorem created_unit_nonce_before_fix_d76716c (cfg : Cfg) (f : HashFns H) (rs : RS) (sg : SigScheme H) (C P : Bytes)
    (nonce : Nat) (msg : Bytes) (k p i : Nat) :
    let u := honestUnit cfg f rs sg C P nonce msg k p i
    ((⟨u.root, u.committee, u.nonce⟩ : Payload H) = ⟨(treeOf cfg f rs msg k p).1, C, nonce⟩) ↔
      (cfg.nonceSet = true ∨ nonce = 0) :=
  created_unit_payload cfg f rs sg C P nonce msg k p i

/-- UnitFromProto before a0ebef4 (`wireGuard = false`) panicked exactly on a unit without shards, or
on one that passes the shard-length loop and has a Merkle root shorter than 32 bytes — both
reachable from the network (`receiveUnits`). -/
theorem unit_from_proto_before_fix_a0ebef4 (pu : ProtoUnit) :
    unitFromProto false pu = .panic ↔
      (pu.shards = [] ∨
       ((pu.shards.take (pu.shards.length - 1)).any (fun s => s.length != (pu.shards.headD []).length) = false ∧
        pu.merkleRoot.length < 32)) :=
  unitFromProto_pinned_panic_iff pu


/-- Regression statement (processor.go before 5ab3121, `noPoison = false`), for ALL messages: when
the FIRST unit of a message key was rejected the key entered the finalized cache, and from then on
every unit of that message, the honest ones included, was ignored (fixed finding
`processor-drops-message-after-invalid-first-unit`). -/
theorem rejected_first_unit_suppressed_message_before_fix_5ab3121 [DecidableEq H] (cfg : Cfg)
    (pc : PCfg) (hpin : pc.noPoison = false)
    (f : HashFns H) (rs : RS) (sg : SigScheme H) (s : Sched) (p : Proc H)
    (u : PUnit H) (sender : Bytes) (e : VErr) (li : Nat) (hnew : p.findSub (keyOf u) = none)
    (hnf : p.finalized.contains (keyOf u) = false)
    (hsi : s.shardIndexFor (keyOf u).publisher = .ok li)
    (hkey : sg.hasKey (keyOf u).publisher = true)
    (hrej : validate cfg f sg s (keyOf u).publisher VState.fresh u sender = .error e)
    (ops : List (PUnit H × Bytes)) (i : Nat) (u' : PUnit H) (sender' : Bytes)
    (hop : ops[i]? = some (u', sender')) (hk : keyOf u' = keyOf u) :
    (procRun cfg pc f rs sg s (procStep cfg pc f rs sg s p u sender).1 ops)[i]? =
      some .ignored :=
  finalized_key_ignores_units cfg pc f rs sg s (keyOf u) ops _
    (first_invalid_unit_poisons_key cfg pc hpin f rs sg s p u sender e li hnew hnf hsi hkey hrej)
    i u' sender' hop hk

/-- Regression statement (processor.go before d8826cb, `localFromPresent = false`), for ALL messages
and every committee: `k` distinct honest units of one message, each from its designated sender, in
any order, handed to a processor that had not seen the message — when neither shard 0 nor the local
shard was among them, the first `k-1` were stored and the `k`-th PANICKED the processor (nil
dereference of `unitsReceived[0]` in the subprocessor's goroutine: the node died). Honest traffic
alone did it (fixed finding `processor-panics-filling-local-unit-when-shard0-not-received`;
instance below: a committee of 4). -/
theorem processor_panicked_without_shard0_before_fix_d8826cb [DecidableEq H]
    (pc : PCfg) (hpin : pc.localFromPresent = false)
    (f : HashFns H) (rs : RS) (sg : SigScheme H)
    (id : Bytes) (nodes : List Bytes) (s : Sched) (hs : newScheduler id nodes = .ok s)
    (C P : Bytes) (hPm : P ∈ nodes) (hP : P ≠ id) (hkey : sg.hasKey P = true)
    (nonce : Nat) (msg : Bytes) (hl : RSLaws rs s.k s.c) (hin : PadInput msg s.k)
    (hok : rsNewOk s.k s.c = true) (hsmall : msg.length < 2 ^ 40)
    (hsig : SigOk f rs sg s C P nonce msg) (p : Proc H)
    (hfin : p.finalized.contains (hKey f rs s C P nonce msg) = false)
    (hnone : p.findSub (hKey f rs s C P nonce msg) = none)
    (idxs : List Nat) (hnd : idxs.Nodup) (hlt : ∀ i ∈ idxs, i < s.total) (hlen : idxs.length = s.k)
    (li : Nat) (hshard : s.shardIndexFor P = .ok li) (h0 : 0 ∉ idxs) (hloc : li ∉ idxs) :
    ∃ pre,
      procRun Cfg.current pc f rs sg s p
          (idxs.map (fun i => (honestUnit Cfg.current f rs sg C P nonce msg s.k s.c i, s.sender P i))) =
        pre ++ [.panic] ∧
      (∀ o ∈ pre, o = .handled [] none none) :=
  procRun_panics_on_honest_units f rs sg s C P nonce msg pc hpin id nodes hs hPm hP hkey hl hin
    hok hsmall hsig p hfin hnone idxs hnd hlt hlen li hshard h0 hloc

/-- Regression statement (processor.go before 76dcbab, `keyGuard = false`): ANY unit that named as
publisher a committee member whose peer id does not embed a public key (RSA, ECDSA), for a message
key the node had not seen, panicked the processor (`NewValidator` → `panic(err)` in the goroutine
of the new subprocessor); nothing else about the unit was looked at (fixed finding
`receiver-panics-on-publisher-without-embedded-key`). -/
theorem processor_panicked_on_keyless_publisher_before_fix_76dcbab [DecidableEq H] (cfg : Cfg)
    (pc : PCfg) (hpin : pc.keyGuard = false)
    (f : HashFns H) (rs : RS) (sg : SigScheme H) (s : Sched) (p : Proc H)
    (u : PUnit H) (sender : Bytes) (li : Nat)
    (hnf : p.finalized.contains (keyOf u) = false) (hnew : p.findSub (keyOf u) = none)
    (hsi : s.shardIndexFor (keyOf u).publisher = .ok li)
    (hkey : sg.hasKey (keyOf u).publisher = false) :
    (procStep cfg pc f rs sg s p u sender).2 = .panic :=
  procStep_panics_on_keyless_publisher cfg pc hpin f rs sg s p u sender li hnf hnew hsi hkey


/-! ## 11. Round 5: look-ups as the code performs them, proof lengths, whole runs, refusals -/

/-- `publisher_lookup_is_binary_search` — `Scheduler.publisherIndex` is `slices.BinarySearchFunc` over the
sorted peers; the theorems of §5–§7 speak of `List.idxOf?`. For every scheduler `NewScheduler` makes they
are the same function: a committee member is found, at the position that holds it; a peer OUTSIDE the
committee is refused whatever insertion position the search computed (first, middle, one past the end);
and `PeerForShardIndex` / `ShardIndexForPublisher` written with the search are the functions of §7.
(The look-up is a pure function of the peer list: asking twice gives the same answer.) -/
theorem publisher_lookup_is_binary_search (id : Bytes) (nodes : List Bytes) (s : Sched)
    (hs : newScheduler id nodes = .ok s) (pub : Bytes) :
    (pub ∈ nodes → ∃ i, publisherIndexGo s.peers pub = .ok i ∧ s.peers[i]? = some pub) ∧
    (pub ∉ nodes → publisherIndexGo s.peers pub = .error .publisherUnknown) ∧
    (∀ idx, s.peerForShardGo pub idx = s.peerForShard pub idx) ∧
    s.shardIndexForGo pub = s.shardIndexFor pub := by
  obtain ⟨_, hlt, _, _, _, _, _, _, _, _, hmem⟩ := newScheduler_spec id nodes s hs
  have hle := sortedLe_of_sortedLt s.peers hlt
  refine ⟨fun hp => ?_, fun hp => ?_, fun idx => peerForShardGo_eq s hle pub idx, shardIndexForGo_eq s hle pub⟩
  · rw [publisherIndexGo_eq s.peers pub hle]
    cases hi : s.peers.idxOf? pub with
    | none => exact absurd ((hmem pub).mpr hp) (List.idxOf?_eq_none_iff.mp hi)
    | some i =>
      obtain ⟨hl, hg, _⟩ := List.idxOf?_eq_some_iff.mp hi
      exact ⟨i, rfl, by rw [List.getElem?_eq_getElem hl, hg]⟩
  · rw [publisherIndexGo_eq s.peers pub hle, List.idxOf?_eq_none_iff.mpr (fun h => hp ((hmem pub).mp h))]

/-- `binary_search_spec` — `slices.BinarySearchFunc(x, t, cmp.Compare)` on ANY sorted list (duplicates
allowed: `NewScheduler` searches for the local id before it checks for duplicates): the returned
position splits the list into the elements `< t` and the elements `≥ t`, `found` is exactly `t ∈ x`. -/
theorem binary_search_spec (x : List Bytes) (t : Bytes) (hs : SortedLe x) :
    (binSearch x t).1 ≤ x.length ∧
    (∀ a, a < (binSearch x t).1 → lexLt (x.getD a []) t = true) ∧
    (∀ b, (binSearch x t).1 ≤ b → b < x.length → lexLt (x.getD b []) t = false) ∧
    ((binSearch x t).2 = true ↔ t ∈ x) :=
  ⟨(binSearch_spec x t hs).1, (binSearch_spec x t hs).2.1, (binSearch_spec x t hs).2.2.1, (binSearch_spec x t hs).2.2.2.1⟩

/-- `outsider_publisher_is_refused` — "a unit whose … committee or sender does not match is rejected":
in every state in which stored subprocessors belong to routable publishers (every reachable state:
`processor_safe_over_all_runs`), a unit naming a publisher OUTSIDE the committee — for a key that is not
finalized — is refused by `ProcessMessage` (`noRoute`), and nothing at all changes: no subprocessor, no
task slot, no cache entry; the same unit again is refused again. The origin check refuses such a
publisher for every index and sender as well. -/
theorem outsider_publisher_is_refused [DecidableEq H] (b : Bounds) (cfg : Cfg) (f : HashFns H) (rs : RS)
    (sg : SigScheme H) (id : Bytes) (nodes : List Bytes) (s : Sched) (hs : newScheduler id nodes = .ok s)
    (tp : TProc H) (hr : SubsRoutable s tp.core) (u : PUnit H) (sender : Bytes)
    (hout : u.publisher ∉ nodes) (hnf : tp.core.finalized.contains (keyOf u) = false) :
    tprocStep b cfg PCfg.current f rs sg s tp u sender = (tp, .noRoute) ∧
    refusalOf b PCfg.current sg s tp u = some .publisherUnknown ∧
    ∀ idx snd, ∃ e, s.validateOrigin snd u.publisher idx = .error e := by
  obtain ⟨_, _, _, _, _, _, _, _, hid, hloc, hmem⟩ := newScheduler_spec id nodes s hs
  have hnm : ¬ u.publisher ∈ s.peers := fun h => hout ((hmem _).mp h)
  have hidx : s.peers.idxOf? u.publisher = none := List.idxOf?_eq_none_iff.mpr hnm
  have hlocal : s.localId ≠ u.publisher := by
    intro e
    apply hnm
    rw [← e, hid]
    obtain ⟨hl, hg, _⟩ := List.idxOf?_eq_some_iff.mp hloc
    rw [← hg]; exact List.getElem_mem hl
  have hsi : s.shardIndexFor (keyOf u).publisher = .error .publisherUnknown := by
    show s.shardIndexFor u.publisher = _
    unfold Sched.shardIndexFor
    rw [if_neg hlocal, hidx]
  have hfs : tp.core.findSub (keyOf u) = none := by
    cases h : tp.core.findSub (keyOf u) with
    | none => rfl
    | some st =>
      obtain ⟨li, hli⟩ := hr (keyOf u) st h
      rw [hsi] at hli; cases hli
  have href : refusalOf b PCfg.current sg s tp u = some .publisherUnknown := by
    unfold refusalOf
    rw [hnf, hfs, hsi]
    rfl
  refine ⟨refusal_some_is_noroute b cfg PCfg.current rfl f rs sg s tp u sender _ href, href, ?_⟩
  intro idx snd
  unfold Sched.validateOrigin
  by_cases h1 : snd = s.localId
  · exact ⟨_, by rw [if_pos h1]⟩
  · rw [if_neg h1]
    by_cases h2 : u.publisher = s.localId
    · exact ⟨_, by rw [if_pos h2]⟩
    · rw [if_neg h2]
      unfold Sched.peerForShard
      by_cases h3 : idx ≥ s.total
      · exact ⟨_, by rw [if_pos h3]⟩
      · exact ⟨_, by rw [if_neg h3, hidx]⟩

/-- `merkle_proof_length` — proof-length arithmetic, for EVERY number of leaves: `nextPowerOfTwo` as the
code computes it (`1 << bits.Len(n-1)`, 2 for n ≤ 2) is the padded tree size of the model; every proof
`merkle.New` returns has exactly one sibling per level, `bits.Len(size - 1)` of them, at least one — a
tree of a SINGLE leaf (a committee of two peers) is padded to two leaves and its proof is the one
empty-leaf sibling, not the empty proof. -/
theorem merkle_proof_length (f : HashFns H) (leaves : List Bytes) (i : Nat) (hi : i < leaves.length) :
    nextPow2Go leaves.length = nextPow2 leaves.length ∧
    2 ^ ((merkleNew f leaves).2.getD i []).length = nextPow2Go leaves.length ∧
    ((merkleNew f leaves).2.getD i []).length = proofDepthGo leaves.length ∧
    1 ≤ ((merkleNew f leaves).2.getD i []).length :=
  ⟨nextPow2Go_eq _, (merkleNew_proof_length f leaves i hi).1, (merkleNew_proof_length f leaves i hi).2.1,
   (merkleNew_proof_length f leaves i hi).2.2⟩

/-- `proof_length_for_every_committee` — for every committee `NewScheduler` accepts (N ≥ 2 peers, N − 1
shards): every unit of CreatePropellerUnits carries a proof of `proofDepthGo (N-1)` siblings with
`2 ^ len = nextPowerOfTwo(N-1)`; for N = 2 (one data shard, no parity, ONE leaf) that is 1, for N = 3
it is 1, for N = 4 and 5 it is 2. -/
theorem proof_length_for_every_committee (f : HashFns H) (rs : RS) (sg : SigScheme H)
    (id : Bytes) (nodes : List Bytes) (s : Sched) (hs : newScheduler id nodes = .ok s)
    (C P : Bytes) (nonce : Nat) (msg : Bytes) (hl : RSLaws rs s.k s.c) (hin : PadInput msg s.k)
    (i : Nat) (hi : i < s.k + s.c) :
    (honestUnit Cfg.current f rs sg C P nonce msg s.k s.c i).proof.length = proofDepthGo (nodes.length - 1) ∧
    2 ^ (honestUnit Cfg.current f rs sg C P nonce msg s.k s.c i).proof.length = nextPow2Go (nodes.length - 1) ∧
    1 ≤ (honestUnit Cfg.current f rs sg C P nonce msg s.k s.c i).proof.length ∧
    proofDepthGo 1 = 1 ∧ proofDepthGo 2 = 1 ∧ proofDepthGo 3 = 2 ∧ proofDepthGo 4 = 2 ∧ proofDepthGo 5 = 3 := by
  obtain ⟨_, _, _, hpl, _, htot, _, _, _, _, _⟩ := newScheduler_spec id nodes s hs
  obtain ⟨_, _, hlen, _⟩ := encOf_spec rs msg s.k s.c hl hin
  have hn : nodes.length - 1 = ((encOf rs msg s.k s.c).map (leafOf Cfg.current.shardingLeafProto)).length := by
    rw [List.length_map, hlen]; unfold Sched.total at htot; omega
  have h := merkleNew_proof_length f ((encOf rs msg s.k s.c).map (leafOf Cfg.current.shardingLeafProto)) i
    (by rw [List.length_map, hlen]; exact hi)
  rw [← hn] at h
  have hp : (honestUnit Cfg.current f rs sg C P nonce msg s.k s.c i).proof =
      (merkleNew f ((encOf rs msg s.k s.c).map (leafOf Cfg.current.shardingLeafProto))).2.getD i [] := by
    simp [honestUnit, treeOf]
  rw [hp]
  refine ⟨h.2.1, h.1, h.2.2, ?_, ?_, ?_, ?_, ?_⟩ <;> decide

/-- … and on the receiving side (ideal hash): a unit the validator ACCEPTS carries a proof of exactly
that length — a sender cannot choose the length. -/
theorem accepted_proof_has_tree_depth [DecidableEq H] (cfg : Cfg) (f : HashFns H) (hI : Ideal f)
    (sg : SigScheme H) (s : Sched) (publisher : Bytes) (st st' : VState) (u : PUnit H) (sender : Bytes)
    (enc : List Bytes) (hne : enc ≠ []) (htotal : s.total = enc.length)
    (hroot : u.root = (merkleNew f (enc.map (leafOf cfg.validatorLeafProto))).1)
    (h : validate cfg f sg s publisher st u sender = .ok st') :
    u.proof.length = proofDepthGo enc.length := by
  obtain ⟨hidx, _, hproof, _⟩ := validate_sound cfg f hI sg s publisher st st' u sender enc hne htotal hroot h
  have := (merkleNew_proof_length f (enc.map (leafOf cfg.validatorLeafProto)) u.index
    (by rw [List.length_map]; exact hidx)).2.1
  rw [List.length_map] at this
  rw [hproof]; exact this

/-- `processor_safe_over_all_runs` — `processor_total`, `processor_task_counters` and `processor_invariant`
lifted from one step to EVERY run of the code in /repo: from the empty processor, over any list of events
— units of any kind from anybody, naming any publisher, time-outs of any message key and expiries of any
entry of the finalized cache, in any order, with any task bounds — no unit's outcome is a panic, and at the end the counters count the live
subprocessors (`TInv`), every stored subprocessor is well-formed (`ProcInv`) and belongs to a publisher
the scheduler routes (`SubsRoutable`). -/
theorem processor_safe_over_all_runs [DecidableEq H] (b : Bounds) (f : HashFns H) (rs : RS) (sg : SigScheme H)
    (id : Bytes) (nodes : List Bytes) (s : Sched) (hs : newScheduler id nodes = .ok s)
    (hl : RSLaws rs s.k s.c) (evs : List (PEvent H)) :
    (∀ o ∈ (tprocRunEv b Cfg.current PCfg.current f rs sg s TProc.empty evs).2, o ≠ .panic) ∧
    TInv (tprocRunEv b Cfg.current PCfg.current f rs sg s TProc.empty evs).1 ∧
    ProcInv s (tprocRunEv b Cfg.current PCfg.current f rs sg s TProc.empty evs).1.core ∧
    SubsRoutable s (tprocRunEv b Cfg.current PCfg.current f rs sg s TProc.empty evs).1.core := by
  obtain ⟨h1, h2, h3⟩ := tprocRunEv_safe b f rs sg id nodes s hs hl evs TProc.empty tinv_empty (procInv_empty s)
  exact ⟨h3, h1, h2, tprocRunEv_routable b Cfg.current PCfg.current f rs sg s evs TProc.empty (subsRoutable_empty s)⟩

/-- `processor_builds_after_rejected_units` — LIVENESS with the task accounting, after ANY number of
rejected units (the code in /repo): in any state in which the honest message is new and a task slot is
free for its publisher, first any sequence of units each REJECTED by the validator of its message key
(however long; corrupted copies of this message's units or units of any other key, naming any
publisher), then `k` distinct honest units in any order, each from its designated sender: the first
`k-1` are stored, the `k`-th builds EXACTLY `msg`, and over the honest run exactly one unit is handed to
`broadcastUnit`: the publisher's unit for the local index. The rejected units cost the honest message
nothing — no slot, no poisoned key, no changed outcome. -/
theorem processor_builds_after_rejected_units [DecidableEq H] (b : Bounds) (f : HashFns H) (rs : RS)
    (sg : SigScheme H) (id : Bytes) (nodes : List Bytes) (s : Sched) (hs : newScheduler id nodes = .ok s)
    (C P : Bytes) (hPm : P ∈ nodes) (hP : P ≠ id) (hkey : sg.hasKey P = true)
    (nonce : Nat) (msg : Bytes) (hl : RSLaws rs s.k s.c) (hin : PadInput msg s.k)
    (hok : rsNewOk s.k s.c = true) (hsmall : msg.length < 2 ^ 40)
    (hsig : SigOk f rs sg s C P nonce msg) (tp : TProc H) (hp : ProcInv s tp.core)
    (hfin : tp.core.finalized.contains (hKey f rs s C P nonce msg) = false)
    (hnone : tp.core.findSub (hKey f rs s C P nonce msg) = none)
    (hslot : tp.ptasks P ≠ b.maxPerPublisher ∧ tp.tasks ≠ b.maxWorkers)
    (garbage : List (PUnit H × Bytes))
    (hrej : AllRejected b Cfg.current PCfg.current f rs sg s tp garbage)
    (idxs : List Nat) (hnd : idxs.Nodup) (hlt : ∀ i ∈ idxs, i < s.total) (hlen : idxs.length = s.k) :
    ∃ li, s.shardIndexFor P = .ok li ∧ li < s.total ∧ ∃ pre bc e,
      tprocRun b Cfg.current PCfg.current f rs sg s
          (tprocRunState b Cfg.current PCfg.current f rs sg s tp garbage)
          (idxs.map (fun i => (honestUnit Cfg.current f rs sg C P nonce msg s.k s.c i, s.sender P i))) =
        pre ++ [.handled bc (some msg) e] ∧
      (∀ o ∈ pre, ∃ bb, o = .handled bb none none) ∧
      (pre ++ [.handled bc (some msg) e]).flatMap ProcOut.bcast =
        [honestUnit Cfg.current f rs sg C P nonce msg s.k s.c li] :=
  builds_after_rejected_units b f rs sg id nodes s hs C P hPm hP hkey nonce msg hl hin hok hsmall hsig tp hp
    hfin hnone hslot garbage hrej idxs hnd hlt hlen

/-- `refusal_classes` — WHY `ProcessMessage` refuses a unit (`createSubprocessor`, the code in /repo):
exactly five reasons, in the code's order — the publisher is the local peer; the publisher is not in the
committee; its peer id embeds no public key; the publisher's task bound is reached; the global task bound
is reached. A refusal changes NOTHING (no subprocessor, no slot, no cache entry), and in every state in
which stored subprocessors are routable (every reachable one) nothing else is ever refused. -/
theorem refusal_classes [DecidableEq H] (b : Bounds) (cfg : Cfg) (f : HashFns H) (rs : RS)
    (sg : SigScheme H) (s : Sched) (tp : TProc H) (u : PUnit H) (sender : Bytes)
    (hsub : SubsRoutable s tp.core) :
    (∀ r, refusalOf b PCfg.current sg s tp u = some r →
      tprocStep b cfg PCfg.current f rs sg s tp u sender = (tp, .noRoute)) ∧
    (refusalOf b PCfg.current sg s tp u = none →
      (tprocStep b cfg PCfg.current f rs sg s tp u sender).2 ≠ .noRoute) :=
  ⟨fun r h => refusal_some_is_noroute b cfg PCfg.current rfl f rs sg s tp u sender r h,
   fun h => refusal_none_not_noroute b cfg PCfg.current f rs sg s tp u sender (fun st hst => hsub _ st hst) h⟩


/-! ## 12. Round 6: the hand-over of a unit to its subprocessor (`ModelR6`)

Until round 5 the step of the processor model was "the unit was handed over and processed to completion";
`ProcessMessage`'s send into the subprocessor's channel — where the defect repaired by 5e563fa lived — was
outside the model. `HProc` carries the channels' contents; `offer` is `ProcessMessage`, `consume` the
subprocessor receiving and dealing with the next unit of its channel. `HCfg.current` is /repo (5e563fa:
a channel with room for `NumTotalShards` units), `HCfg.before5e563fa` the unbuffered channel. -/

/-- `handover_first_unit_is_never_dropped` — whatever the channel (33cd01b: blocking send): a unit whose key
is neither finalized nor being processed and that `createSubprocessor` does not refuse is TAKEN; the
subprocessor is registered (task slot, map entry) at that moment, and the unit waits in its channel. -/
theorem handover_first_unit_is_never_dropped [DecidableEq H] (hc : HCfg) (b : Bounds) (pc : PCfg)
    (sg : SigScheme H) (s : Sched) (hp : HProc H) (u : PUnit H) (sender : Bytes)
    (hfin : hp.tp.core.finalized.contains (keyOf u) = false) (hnone : hp.tp.core.findSub (keyOf u) = none)
    (href : refusalOf b pc sg s hp.tp u = none) (hkey : sg.hasKey (keyOf u).publisher = true) :
    offer hc b pc sg s hp u sender =
      (HProc.setQueue ⟨register hp.tp s (keyOf u), hp.queues⟩ (keyOf u) [(u, sender)], .taken) :=
  offer_new_key hc b pc sg s hp u sender hfin hnone href hkey

/-- `handover_later_unit_taken_iff_room` — a unit of a key that has a subprocessor is answered nil exactly
when the NON-blocking send finds room in the channel, "channel full" otherwise; a dropped unit leaves no
trace. The ONLY way `ProcessMessage` loses a unit with an error. -/
theorem handover_later_unit_taken_iff_room [DecidableEq H] (hc : HCfg) (b : Bounds) (pc : PCfg)
    (sg : SigScheme H) (s : Sched) (hp : HProc H) (u : PUnit H) (sender : Bytes)
    (hfin : hp.tp.core.finalized.contains (keyOf u) = false)
    (hsome : (hp.tp.core.findSub (keyOf u)).isSome = true) :
    offer hc b pc sg s hp u sender =
      if hasRoom (chanCap hc s) (hp.queueOf (keyOf u)) then
        (hp.setQueue (keyOf u) (hp.queueOf (keyOf u) ++ [(u, sender)]), .taken)
      else (hp, .full) :=
  offer_existing hc b pc sg s hp u sender hfin hsome

/-- `handover_creation_then_first_unit_is_the_sequential_step` — THE BRIDGE to §9–§11: creating the
subprocessor at the hand-over and letting it deal with its first unit later gives the outcome AND the
processor (subprocessors, finalized keys, both counters) that the sequential model's single step gives
(a panic aside, after which there is no processor; §9 excludes it for the current code). -/
theorem handover_creation_then_first_unit_is_the_sequential_step [DecidableEq H] (b : Bounds) (cfg : Cfg)
    (pc : PCfg) (f : HashFns H) (rs : RS) (sg : SigScheme H) (s : Sched) (tp : TProc H) (u : PUnit H)
    (sender : Bytes)
    (hfin : tp.core.finalized.contains (keyOf u) = false) (hnone : tp.core.findSub (keyOf u) = none)
    (href : refusalOf b pc sg s tp u = none) (hkey : sg.hasKey (keyOf u).publisher = true) :
    (tprocStep b cfg pc f rs sg s (register tp s (keyOf u)) u sender).2 =
      (tprocStep b cfg pc f rs sg s tp u sender).2 ∧
    ((tprocStep b cfg pc f rs sg s tp u sender).2 ≠ .panic →
      tprocStep b cfg pc f rs sg s (register tp s (keyOf u)) u sender =
        tprocStep b cfg pc f rs sg s tp u sender) := by
  obtain ⟨h1, h2⟩ := tprocStep_register b cfg pc f rs sg s tp u sender hfin hnone href hkey
  refine ⟨h1, fun hnp => ?_⟩
  obtain ⟨c1, c2, c3⟩ := h2 hnp
  exact Prod.ext (tproc_ext _ _ c1 c2 c3) h1

/-- `handover_burst_all_taken` (5e563fa) — units of a key that has a subprocessor, handed over back to
back while the subprocessor is busy: as long as no more than `NumTotalShards` wait in the channel, EVERY
one is answered nil and waits in arrival order; nothing else of the processor changes. -/
theorem handover_burst_all_taken [DecidableEq H] (b : Bounds) (pc : PCfg) (sg : SigScheme H) (s : Sched)
    (key : MsgKey H) (rest : List (PUnit H × Bytes)) (hp : HProc H)
    (hfin : hp.tp.core.finalized.contains key = false) (hsome : (hp.tp.core.findSub key).isSome = true)
    (hkeys : ∀ x ∈ rest, keyOf x.1 = key) (hlen : (hp.queueOf key).length + rest.length ≤ s.total) :
    (offerAll HCfg.current b pc sg s hp rest).2 = List.replicate rest.length .taken ∧
    (offerAll HCfg.current b pc sg s hp rest).1.tp = hp.tp ∧
    (offerAll HCfg.current b pc sg s hp rest).1.queueOf key = hp.queueOf key ++ rest :=
  offerAll_existing b pc sg s key rest hp hfin hsome hkeys hlen

/-- `handover_subprocessor_follows_sequential_model` — a subprocessor that works through its channel does
with the waiting units, in order, exactly what the sequential model (`tprocRun`, §9–§11) does with them,
as long as it goes on after each; whatever waits behind them does not matter. -/
theorem handover_subprocessor_follows_sequential_model [DecidableEq H] (b : Bounds) (cfg : Cfg) (pc : PCfg)
    (f : HashFns H) (rs : RS) (sg : SigScheme H) (s : Sched) (key : MsgKey H)
    (q extra : List (PUnit H × Bytes)) (hp : HProc H) (pre : List (ProcOut H)) (last : ProcOut H)
    (hq : hp.queueOf key = q ++ extra) (hkeys : ∀ x ∈ q, keyOf x.1 = key)
    (hrun : tprocRun b cfg pc f rs sg s hp.tp q = pre ++ [last])
    (hpre : ∀ o ∈ pre, ∃ bb, o = .handled bb none none) :
    (consumeN b cfg pc f rs sg s key q.length hp).2 = pre ++ [last] :=
  consumeN_eq_tprocRun b cfg pc f rs sg s key extra q hp pre last hq hkeys hrun hpre

/-- `handover_burst_builds_exact_message` — LIVENESS THROUGH THE HAND-OVER, the code in /repo: the clause
"reconstructed from any subset of at least the threshold" for units that arrive TOGETHER. A message the
processor has not seen, a free slot for its publisher; `k` distinct honest units in any order and then any
further units of the same message key (honest, duplicates, forged), at most `NumTotalShards` in all, are
handed over back to back before the subprocessor has dealt with a single one: every `ProcessMessage`
answers nil; the subprocessor stores the first `k-1`, the `k`-th builds EXACTLY `msg`, and exactly one
unit is broadcast — the publisher's unit for the local index. -/
theorem handover_burst_builds_exact_message [DecidableEq H] (b : Bounds) (f : HashFns H) (rs : RS)
    (sg : SigScheme H) (id : Bytes) (nodes : List Bytes) (s : Sched) (hs : newScheduler id nodes = .ok s)
    (C P : Bytes) (hPm : P ∈ nodes) (hP : P ≠ id) (hkey : sg.hasKey P = true)
    (nonce : Nat) (msg : Bytes) (hl : RSLaws rs s.k s.c) (hin : PadInput msg s.k)
    (hok : rsNewOk s.k s.c = true) (hsmall : msg.length < 2 ^ 40)
    (hsig : SigOk f rs sg s C P nonce msg) (hp : HProc H) (hinv : ProcInv s hp.tp.core)
    (hfin : hp.tp.core.finalized.contains (hKey f rs s C P nonce msg) = false)
    (hnone : hp.tp.core.findSub (hKey f rs s C P nonce msg) = none)
    (hslot : hp.tp.ptasks P ≠ b.maxPerPublisher ∧ hp.tp.tasks ≠ b.maxWorkers)
    (idxs : List Nat) (hnd : idxs.Nodup) (hlt : ∀ i ∈ idxs, i < s.total) (hlen : idxs.length = s.k)
    (extra : List (PUnit H × Bytes)) (hextra : ∀ x ∈ extra, keyOf x.1 = hKey f rs s C P nonce msg)
    (hroom : s.k + extra.length ≤ s.total) :
    (offerAll HCfg.current b PCfg.current sg s hp
        (idxs.map (fun i => (honestUnit Cfg.current f rs sg C P nonce msg s.k s.c i, s.sender P i)) ++ extra)).2 =
      List.replicate (s.k + extra.length) .taken ∧
    ∃ li, s.shardIndexFor P = .ok li ∧ li < s.total ∧ ∃ pre bc e,
      (consumeN b Cfg.current PCfg.current f rs sg s (hKey f rs s C P nonce msg) s.k
        (offerAll HCfg.current b PCfg.current sg s hp
          (idxs.map (fun i => (honestUnit Cfg.current f rs sg C P nonce msg s.k s.c i, s.sender P i)) ++ extra)).1).2 =
        pre ++ [.handled bc (some msg) e] ∧
      (∀ o ∈ pre, ∃ bb, o = .handled bb none none) ∧
      (pre ++ [.handled bc (some msg) e]).flatMap ProcOut.bcast =
        [honestUnit Cfg.current f rs sg C P nonce msg s.k s.c li] :=
  burst_builds b f rs sg id nodes s hs C P hPm hP hkey nonce msg hl hin hok hsmall hsig hp hinv hfin hnone hslot
    idxs hnd hlt hlen extra hextra hroom

/-- `handover_one_at_a_time_is_the_sequential_model` — the model of §9–§11 is the special case of the
hand-over model in which every hand-over is followed at once by the subprocessor dealing with the unit:
when nothing waits for the unit's key, `ProcessMessage` answers `ignored` exactly when the sequential
step says ignored, a refusal exactly when it says `noRoute` (nothing changes), never "channel full"
(either channel variant) and never panics; and the `consume` of a taken unit has the sequential step's
outcome and leaves the sequential step's processor. So every theorem of §9–§11 (safety over all runs,
task counters, liveness after rejected units) is a theorem about those runs of the code's two-phase
hand-over. The code in /repo (`PCfg.current`). -/
theorem handover_one_at_a_time_is_the_sequential_model [DecidableEq H] (hc : HCfg) (b : Bounds) (cfg : Cfg)
    (f : HashFns H) (rs : RS) (sg : SigScheme H) (s : Sched) (hp : HProc H) (u : PUnit H) (sender : Bytes)
    (hq : hp.queueOf (keyOf u) = []) (htotal : 0 < s.total) :
    ((offer hc b PCfg.current sg s hp u sender).2 = .ignored →
      tprocStep b cfg PCfg.current f rs sg s hp.tp u sender = (hp.tp, .ignored)) ∧
    (∀ x, (offer hc b PCfg.current sg s hp u sender).2 = .refused x →
      tprocStep b cfg PCfg.current f rs sg s hp.tp u sender = (hp.tp, .noRoute)) ∧
    (offer hc b PCfg.current sg s hp u sender).2 ≠ .full ∧
    (offer hc b PCfg.current sg s hp u sender).2 ≠ .panic ∧
    ((offer hc b PCfg.current sg s hp u sender).2 = .taken →
      (consume b cfg PCfg.current f rs sg s (offer hc b PCfg.current sg s hp u sender).1 (keyOf u)).2 =
        some (tprocStep b cfg PCfg.current f rs sg s hp.tp u sender).2 ∧
      ((tprocStep b cfg PCfg.current f rs sg s hp.tp u sender).2 ≠ .panic →
        (consume b cfg PCfg.current f rs sg s (offer hc b PCfg.current sg s hp u sender).1 (keyOf u)).1.tp =
          (tprocStep b cfg PCfg.current f rs sg s hp.tp u sender).1)) :=
  offer_then_consume hc b cfg f rs sg s hp u sender hq htotal

/-- `units_behind_an_ended_subprocessor_are_lost` — what the code does, stated so that it is not mistaken
for something else: when the unit a subprocessor deals with ENDS it (its first unit is invalid; the
receive threshold is reached; the build fails), `Run` forgets the subprocessor with its channel:
whatever had been handed over and still waited there is gone although `ProcessMessage` answered nil to
each. After a completed message that is harmless (the key is finalized); after an invalid FIRST unit the
key is not finalized (5ab3121), so the lost units may have been honest ones — they are lost only if
they were handed over in the window between the forged unit's hand-over and `Run`'s clean-up
(notes, R6.5: observation, with the harness' measurement). -/
theorem units_behind_an_ended_subprocessor_are_lost [DecidableEq H] (b : Bounds) (cfg : Cfg) (pc : PCfg)
    (f : HashFns H) (rs : RS) (sg : SigScheme H) (s : Sched) (hp : HProc H) (u : PUnit H) (sender : Bytes)
    (rest : List (PUnit H × Bytes)) (hq : hp.queueOf (keyOf u) = (u, sender) :: rest)
    (bc : List (PUnit H)) (bu : Option Bytes) (e : Bool)
    (hout : (tprocStep b cfg pc f rs sg s hp.tp u sender).2 = .handled bc bu (some e)) :
    (consume b cfg pc f rs sg s hp (keyOf u)).2 = some (.handled bc bu (some e)) ∧
    (consume b cfg pc f rs sg s hp (keyOf u)).1.queueOf (keyOf u) = [] ∧
    (consume b cfg pc f rs sg s hp (keyOf u)).1.tp.core.findSub (keyOf u) = none :=
  consume_ended_drops_queue b cfg pc f rs sg s hp u sender rest hq bc bu e hout

/-- Regression witness for 5e563fa (unbuffered channel, non-blocking send): the unit that follows the first
unit of a new message before the subprocessor has dealt with it was DROPPED, whichever unit it was (an
honest one included), and the processor was as if it had never been offered: of `k ≥ 2` honest units
handed over back to back one arrived, the message was not built. -/
theorem second_unit_dropped_before_fix_5e563fa [DecidableEq H] (b : Bounds) (pc : PCfg) (sg : SigScheme H)
    (s : Sched) (hp : HProc H) (u : PUnit H) (sender : Bytes)
    (hfin : hp.tp.core.finalized.contains (keyOf u) = false) (hnone : hp.tp.core.findSub (keyOf u) = none)
    (href : refusalOf b pc sg s hp.tp u = none) (hkey : sg.hasKey (keyOf u).publisher = true)
    (u2 : PUnit H) (sender2 : Bytes) (hk2 : keyOf u2 = keyOf u) :
    offer HCfg.before5e563fa b pc sg s (offer HCfg.before5e563fa b pc sg s hp u sender).1 u2 sender2 =
      ((offer HCfg.before5e563fa b pc sg s hp u sender).1, .full) :=
  second_offer_full_unbuffered b pc sg s hp u sender hfin hnone href hkey u2 sender2 hk2

/-! ## Non-vacuity: the hypotheses are satisfiable -/

example : Ideal termFns := ideal_termFns
example : RSLaws trivialCode 1 0 := trivialCode_laws
example : RSLaws repCode11 1 1 := repCode11_laws
-- a codec with two data shards (XOR parity): the hypotheses are satisfiable beyond k = 1
example : RSLaws xorCode21 2 1 := xorCode21_laws
example : RSLaws repCode12 1 2 := repCode12_laws
example : PadInput [1, 2, 3] 3 := by unfold PadInput; decide
example : rsNewOk 3 6 = true := by decide
example : RoutesOk (⟨fun _ => [1], fun _ _ _ => true, fun _ => true⟩ : SigScheme HTerm) [] := routesOk_nil _
example : Cfg.current = Cfg.repaired ∧ PCfg.current = PCfg.repaired := ⟨rfl, rfl⟩
example : unitFromProto true ⟨[], 0, [], [], [], [], [], 0⟩ = .err .noShards ∧
    unitFromProto true ⟨[[1, 2]], 0, [], [], [], [], [], 0⟩ = .err .rootLen ∧
    unitFromProto true ⟨[[1, 2], [3], [4, 5]], 0, [0, 1], [], [], [], [], 0⟩ = .err .rootLen ∧
    unitFromProto false ⟨[], 0, [], [], [], [], [], 0⟩ = .panic := by decide
example : ProcInv (⟨[], 0, [], 1, 0⟩ : Sched) (Proc.empty : Proc HTerm) := procInv_empty _
example : TInv (TProc.empty : TProc HTerm) := tinv_empty
example : WireOk (⟨List.replicate 32 0, [1], List.replicate 32 7, [List.replicate 32 9], [5], 3, [[1, 2]], 8⟩ : PUnit Bytes) :=
  ⟨by simp, by simp, by simp, by simp, by simp, by decide, by decide⟩
example : Cfg.repaired.rootFromPresent = true ∧ Cfg.repaired.unpadGuard = true ∧
    Cfg.repaired.shardingLeafProto = Cfg.repaired.validatorLeafProto ∧ Cfg.repaired.nonceSet = true := by decide
example : Cfg.pinned.rootFromPresent = false ∧ Cfg.pinned.shardingLeafProto = false ∧
    Cfg.pinned.validatorLeafProto = true ∧ Cfg.pinned.nonceSet = false := by decide
-- a value on which unpad succeeds, one on which it errs
example : unpad false [3, 1, 2, 3, 0, 0] = .ok [1, 2, 3] ∧ unpad true [9, 1] = .err .length ∧
    unpad true [0x80] = .err .varint := by decide

-- the bytes hashed for a two-byte leaf; the 105 bytes of a node; the 95 signed bytes
example : leafPreimageGo [1, 2] = [60, 108, 101, 97, 102, 62, 1, 2, 60, 47, 108, 101, 97, 102, 62] := by decide
example : (nodePreimageGo (List.replicate 32 7) (List.replicate 32 9)).length = 105 := by
  rw [nodePreimageGo_eq _ _ (by simp) (by simp)]; simp [nodeOpen, nodeMid, nodeClose]
example : be64 258 = [0, 0, 0, 0, 0, 0, 1, 2] ∧ be64 (2 ^ 64 - 1) = List.replicate 8 255 := by decide
example : (signPayloadGo (List.replicate 32 1) (List.replicate 32 2) 258).length = 95 :=
  signPayloadGo_length _ _ _ (by simp) (by simp)
-- a `sha` with a collision (the right disjunct of `merkle_ideal_or_sha256_collision` is inhabited)
example : ∃ x y : Bytes, x ≠ y ∧ (fun _ => (⟨List.replicate 32 0, by simp⟩ : Digest)) x =
    (fun _ => (⟨List.replicate 32 0, by simp⟩ : Digest)) y := ⟨[], [0], by decide, rfl⟩
-- committee of 4, receiver [1], publisher [2]: the local unit goes to [3] and [4]
example : broadcastPeersGo [[1], [2], [3], [4]] [1] [2] = some [[3], [4]] ∧
    broadcastTargetsGo [[1], [2], [3], [4]] 0 = [[2], [3], [4]] := by decide

-- the finalized cache: a cache of ONE usable slot (size 2) that must grow, wrap and expire: keys 7 and
-- 8 added at time 0 and 1 (ttl 5), 7 expired at time 5, 8 not; 7 added again at 6
example : ((TCache.new 1 5 : TCache Nat).run
      [.add 0 7, .add 1 8, .get 4 7, .get 5 7, .get 5 8, .add 6 7, .get 7 7, .get 7 8, .get 7 9]).2 =
      [true, false, true, true, false, false] := by
  rw [finalized_cache_is_ttl_set 1 5 (by decide) (by decide) _ (by simp [WellFormed])]
  decide
example : Repr (TCache.new 1 5 : TCache Nat) [] := repr_new 1 5 (by decide)

/-! ### Non-vacuity of the processor theorems: a run that builds, a run that panics -/

/-- A signature scheme for the examples: every signature is `[1]` and verifies. -/
def toySig : SigScheme HTerm := ⟨fun _ => [1], fun _ _ _ => true, fun _ => true⟩
/-- The receiver `[1]` in the committee `{[1],[2],[3]}` (k = 1, one coding shard). -/
def sched3 : Sched := ⟨[1], 0, [[1], [2], [3]], 1, 1⟩
/-- The receiver `[1]` in the committee `{[1],[2],[3],[4]}` (k = 1, two coding shards). -/
def sched4 : Sched := ⟨[1], 0, [[1], [2], [3], [4]], 1, 2⟩

/-- A run that builds: committee of 3, publisher `[2]`, the receiver's local shard index is 0, it
receives only unit 1 (from `[3]`): the message `hi` is built and unit 0 is broadcast. -/
example : ∃ li pre bc e, sched3.shardIndexFor [2] = .ok li ∧
    procRun Cfg.current PCfg.current termFns repCode11 toySig sched3 Proc.empty
      [(honestUnit Cfg.current termFns repCode11 toySig [7] [2] 5 [104, 105] 1 1 1, sched3.sender [2] 1)] =
      pre ++ [.handled bc (some [104, 105]) e] ∧
    (pre ++ [.handled bc (some [104, 105]) e]).flatMap ProcOut.bcast =
      [honestUnit Cfg.current termFns repCode11 toySig [7] [2] 5 [104, 105] 1 1 li] := by
  obtain ⟨li, h1, _, pre, bc, e, h2, _, h3⟩ :=
    processor_builds_from_k_honest_units termFns repCode11 toySig [1] [[3], [1], [2]]
      sched3 rfl [7] [2] (by decide) (by decide) rfl 5 [104, 105] repCode11_laws
      (by unfold PadInput; decide) (by decide) (by decide) ⟨by decide, rfl⟩ Proc.empty rfl rfl
      [1] (by decide) (by decide) rfl
  exact ⟨li, pre, bc, e, h1, h2, h3⟩

/-- The code before d8826cb with a committee of 4: the receiver's local index is 0, the only unit it
receives is unit 2 — `k = 1` honest unit from its designated sender — and the processor panicked. -/
example : procRun Cfg.current ⟨true, true, false, true⟩ termFns repCode12 toySig sched4 Proc.empty
      [(honestUnit Cfg.current termFns repCode12 toySig [7] [2] 5 [104, 105] 1 2 2, sched4.sender [2] 2)] =
      [.panic] := by
  obtain ⟨pre, h, _⟩ :=
    processor_panicked_without_shard0_before_fix_d8826cb ⟨true, true, false, true⟩ rfl termFns repCode12 toySig [1] [[3], [1], [2], [4]]
      sched4 rfl [7] [2] (by decide) (by decide) rfl 5 [104, 105] repCode12_laws
      (by unfold PadInput; decide) (by decide) (by decide) ⟨by decide, rfl⟩ Proc.empty rfl rfl
      [2] (by decide) (by decide) rfl 0 rfl (by decide) (by decide)
  cases pre with
  | nil => exact h
  | cons a t =>
    have := congrArg List.length h
    simp [procRun] at this


/-! ### Non-vacuity of the round-5 theorems -/

-- the binary search on a committee of 4: a member is found at its index; a non-member is refused at an
-- insertion position in the middle, before the first and past the last element
example : binSearch [[1], [3], [5], [7]] [5] = (2, true) ∧ binSearch [[1], [3], [5], [7]] [4] = (2, false) ∧
    binSearch [[1], [3], [5], [7]] [0] = (0, false) ∧ binSearch [[1], [3], [5], [7]] [9] = (4, false) ∧
    binSearch [[1], [3], [3], [7]] [3] = (1, true) := by decide
example : SortedLe [[1], [3], [5], [7]] := by unfold SortedLe; decide
example : publisherIndexGo [[1], [2], [3]] [2] = .ok 1 ∧ publisherIndexGo [[1], [3]] [2] = .error .publisherUnknown :=
  ⟨rfl, rfl⟩
example : sched3.peerForShardGo [2] 1 = .ok [3] ∧ sched3.shardIndexForGo [2] = .ok 0 ∧
    sched3.shardIndexForGo [9] = .error .publisherUnknown ∧ sched3.shardIndexForGo [1] = .error .selfPublished :=
  ⟨rfl, rfl, rfl, rfl⟩
-- bits.Len and nextPowerOfTwo at the boundaries
example : bitsLen 0 = 0 ∧ bitsLen 1 = 1 ∧ bitsLen 2 = 2 ∧ bitsLen 3 = 2 ∧ bitsLen 4 = 3 ∧ bitsLen 255 = 8 ∧ bitsLen 256 = 9 := by decide
example : nextPow2Go 0 = 2 ∧ nextPow2Go 1 = 2 ∧ nextPow2Go 2 = 2 ∧ nextPow2Go 3 = 4 ∧ nextPow2Go 4 = 4 ∧ nextPow2Go 5 = 8 ∧
    nextPow2Go 256 = 256 ∧ nextPow2Go 257 = 512 := by decide
-- the proof of the only leaf of a one-leaf tree is the empty-leaf sibling
example : 2 ^ ((merkleNew termFns [[7]]).2.getD 0 []).length = 2 ∧ 1 ≤ ((merkleNew termFns [[7]]).2.getD 0 []).length :=
  ⟨(merkle_proof_length termFns [[7]] 0 (by decide)).2.1, (merkle_proof_length termFns [[7]] 0 (by decide)).2.2.2⟩
-- the five refusals (committee {[1],[2],[3]}, receiver [1], bounds 2 / 1)
example : refusalOf ⟨2, 1⟩ PCfg.current toySig sched3 (TProc.empty : TProc HTerm) ⟨[7], [1], .raw [], [], [1], 0, [[1]], 5⟩ = some .selfPublished ∧
    refusalOf ⟨2, 1⟩ PCfg.current toySig sched3 (TProc.empty : TProc HTerm) ⟨[7], [9], .raw [], [], [1], 0, [[1]], 5⟩ = some .publisherUnknown ∧
    refusalOf ⟨2, 1⟩ PCfg.current (⟨fun _ => [1], fun _ _ _ => true, fun _ => false⟩ : SigScheme HTerm) sched3 (TProc.empty : TProc HTerm)
      ⟨[7], [2], .raw [], [], [1], 0, [[1]], 5⟩ = some .noKey ∧
    refusalOf ⟨2, 1⟩ PCfg.current toySig sched3 (⟨Proc.empty, 1, fun _ => 1⟩ : TProc HTerm) ⟨[7], [2], .raw [], [], [1], 0, [[1]], 5⟩ = some .publisherTasks ∧
    refusalOf ⟨2, 1⟩ PCfg.current toySig sched3 (⟨Proc.empty, 2, fun _ => 0⟩ : TProc HTerm) ⟨[7], [2], .raw [], [], [1], 0, [[1]], 5⟩ = some .maxTasks ∧
    refusalOf ⟨2, 1⟩ PCfg.current toySig sched3 (TProc.empty : TProc HTerm) ⟨[7], [2], .raw [], [], [1], 0, [[1]], 5⟩ = none := by
  refine ⟨?_, ?_, ?_, ?_, ?_, ?_⟩ <;> rfl
example : SubsRoutable sched3 (Proc.empty : Proc HTerm) := subsRoutable_empty _

/-- An instantiated run of `processor_builds_after_rejected_units`: committee of 3, bounds 1 / 1; first a
unit of the honest message sent by the local peer itself (rejected: self-send; it is the FIRST unit of the
key, so a subprocessor is created and discarded), then the honest unit 1 from its designated sender: `hi`
is built and unit 0 is broadcast. -/
example : ∃ li pre bc e, sched3.shardIndexFor [2] = .ok li ∧
    tprocRun ⟨1, 1⟩ Cfg.current PCfg.current termFns repCode11 toySig sched3
      (tprocRunState ⟨1, 1⟩ Cfg.current PCfg.current termFns repCode11 toySig sched3 TProc.empty
        [(honestUnit Cfg.current termFns repCode11 toySig [7] [2] 5 [104, 105] 1 1 0, [1])])
      [(honestUnit Cfg.current termFns repCode11 toySig [7] [2] 5 [104, 105] 1 1 1, sched3.sender [2] 1)] =
      pre ++ [.handled bc (some [104, 105]) e] ∧
    (pre ++ [.handled bc (some [104, 105]) e]).flatMap ProcOut.bcast =
      [honestUnit Cfg.current termFns repCode11 toySig [7] [2] 5 [104, 105] 1 1 li] := by
  obtain ⟨li, h1, _, pre, bc, e, h2, _, h3⟩ :=
    processor_builds_after_rejected_units ⟨1, 1⟩ termFns repCode11 toySig [1] [[3], [1], [2]]
      sched3 rfl [7] [2] (by decide) (by decide) rfl 5 [104, 105] repCode11_laws
      (by unfold PadInput; decide) (by decide) (by decide) ⟨by decide, rfl⟩ TProc.empty (procInv_empty _) rfl rfl
      ⟨by decide, by decide⟩
      [(honestUnit Cfg.current termFns repCode11 toySig [7] [2] 5 [104, 105] 1 1 0, [1])]
      ⟨⟨.selfSend, rfl⟩, trivial⟩
      [1] (by decide) (by decide) rfl
  exact ⟨li, pre, bc, e, h1, h2, h3⟩

/-- A run over events (a unit, the time-out of its key, the expiry of the cache entry, the unit again): no
panic, counters consistent. -/
example : (∀ o ∈ (tprocRunEv Bounds.real Cfg.current PCfg.current termFns repCode12 toySig sched4 TProc.empty
      [.unit (honestUnit Cfg.current termFns repCode12 toySig [7] [2] 5 [104, 105] 1 2 2) (sched4.sender [2] 2),
       .expire ⟨[7], [2], (treeOf Cfg.current termFns repCode12 [104, 105] 1 2).1, 5⟩,
       .forget ⟨[7], [2], (treeOf Cfg.current termFns repCode12 [104, 105] 1 2).1, 5⟩,
       .unit (honestUnit Cfg.current termFns repCode12 toySig [7] [2] 5 [104, 105] 1 2 2) (sched4.sender [2] 2)]).2,
      o ≠ .panic) :=
  (processor_safe_over_all_runs Bounds.real termFns repCode12 toySig [1] [[3], [1], [2], [4]] sched4 rfl
    repCode12_laws _).1

/-! ### Non-vacuity of the round-6 theorems (the hand-over) -/

example : chanCap HCfg.current sched4 = 3 ∧ chanCap HCfg.before5e563fa sched4 = 0 ∧
    hasRoom 3 [1, 2] = true ∧ hasRoom 3 [1, 2, 3] = false ∧ hasRoom 0 ([] : List Nat) = true ∧
    hasRoom 0 [1] = false := by decide

/-- An instantiated burst through `handover_burst_builds_exact_message`: committee of 4 (k = 1, 3 shards),
unit 2, then unit 1 and unit 2 AGAIN, handed over back to back to the empty processor: three times nil;
the subprocessor builds `hi` from the first and broadcasts unit 0. -/
example : (offerAll HCfg.current Bounds.real PCfg.current toySig sched4 HProc.empty
      ([2].map (fun i => (honestUnit Cfg.current termFns repCode12 toySig [7] [2] 5 [104, 105] 1 2 i, sched4.sender [2] i)) ++
        [(honestUnit Cfg.current termFns repCode12 toySig [7] [2] 5 [104, 105] 1 2 1, sched4.sender [2] 1),
         (honestUnit Cfg.current termFns repCode12 toySig [7] [2] 5 [104, 105] 1 2 2, sched4.sender [2] 2)])).2 =
    [.taken, .taken, .taken] :=
  (handover_burst_builds_exact_message Bounds.real termFns repCode12 toySig [1] [[3], [1], [2], [4]]
    sched4 rfl [7] [2] (by decide) (by decide) rfl 5 [104, 105] repCode12_laws
    (by unfold PadInput; decide) (by decide) (by decide) ⟨by decide, rfl⟩ HProc.empty (procInv_empty _) rfl rfl
    ⟨by decide, by decide⟩ [2] (by decide) (by decide) rfl
    [(honestUnit Cfg.current termFns repCode12 toySig [7] [2] 5 [104, 105] 1 2 1, sched4.sender [2] 1),
     (honestUnit Cfg.current termFns repCode12 toySig [7] [2] 5 [104, 105] 1 2 2, sched4.sender [2] 2)]
    (by intro x hx; simp only [List.mem_cons, List.not_mem_nil, or_false] at hx; rcases hx with hx | hx <;> (rw [hx]; rfl))
    (by decide)).1

/-- Before 5e563fa: the same first two units, the second is dropped. -/
example : (offer HCfg.before5e563fa Bounds.real PCfg.current toySig sched4
      (offer HCfg.before5e563fa Bounds.real PCfg.current toySig sched4 HProc.empty
        (honestUnit Cfg.current termFns repCode12 toySig [7] [2] 5 [104, 105] 1 2 2) (sched4.sender [2] 2)).1
      (honestUnit Cfg.current termFns repCode12 toySig [7] [2] 5 [104, 105] 1 2 1) (sched4.sender [2] 1)).2 = .full :=
  congrArg Prod.snd (second_unit_dropped_before_fix_5e563fa Bounds.real PCfg.current toySig sched4 HProc.empty
    (honestUnit Cfg.current termFns repCode12 toySig [7] [2] 5 [104, 105] 1 2 2) (sched4.sender [2] 2) rfl rfl rfl rfl
    (honestUnit Cfg.current termFns repCode12 toySig [7] [2] 5 [104, 105] 1 2 1) (sched4.sender [2] 1) rfl)


/-- `handover_one_at_a_time_is_the_sequential_model` instantiated: committee of 4, empty processor, unit 2
handed over and dealt with at once = the sequential step (which builds `hi`). -/
example : (consume Bounds.real Cfg.current PCfg.current termFns repCode12 toySig sched4
      (offer HCfg.current Bounds.real PCfg.current toySig sched4 HProc.empty
        (honestUnit Cfg.current termFns repCode12 toySig [7] [2] 5 [104, 105] 1 2 2) (sched4.sender [2] 2)).1
      (keyOf (honestUnit Cfg.current termFns repCode12 toySig [7] [2] 5 [104, 105] 1 2 2))).2 =
    some (tprocStep Bounds.real Cfg.current PCfg.current termFns repCode12 toySig sched4 TProc.empty
      (honestUnit Cfg.current termFns repCode12 toySig [7] [2] 5 [104, 105] 1 2 2) (sched4.sender [2] 2)).2 :=
  ((handover_one_at_a_time_is_the_sequential_model HCfg.current Bounds.real Cfg.current termFns repCode12 toySig
    sched4 HProc.empty (honestUnit Cfg.current termFns repCode12 toySig [7] [2] 5 [104, 105] 1 2 2)
    (sched4.sender [2] 2) rfl (by decide)).2.2.2.2 rfl).1

end Juno.C19.Props
