import JunoModel.C19.Model
/-
C19 — model, part 2:
  consensus/propeller/reedsolomon/reedsolomon.go (EncodeData / RecoverData around klauspost)
  consensus/propeller/sharding.go   (CreatePropellerUnits / ConstructMessageFromUnits)
  consensus/propeller/signing.go    (what is signed)
  consensus/propeller/scheduler.go  (NewScheduler, PeerForShardIndex, ShardIndexForPublisher,
                                     ValidateShardOrigin)
  consensus/propeller/unit_validator.go (UnitValidator.Validate)
  consensus/propeller/processor.go  (routing of units to one validator per message key)
Core Lean only.

The Reed-Solomon codec (klauspost/reedsolomon), the signature scheme (libp2p Ed25519) and the hash
are parameters; the laws the theorems need from them are stated in Proofs/Props.
-/
namespace Juno.C19

/-! ## Reed-Solomon as a parameter -/

/-- What the model needs from klauspost/reedsolomon for `(k, p)` data/parity shards:
* `parity k p data`: the `p` parity shards `Encode` computes for `k` equal-length data shards;
* `recover k p shards`: `Reconstruct` followed by `Verify` on a slice of `k+p` optional shards
  (`none`/empty = missing): the completed shard list, or `none` for any error. -/
structure RS where
  parity : Nat → Nat → List Bytes → List Bytes
  recover : Nat → Nat → List (Option Bytes) → Option (List Bytes)

/-- `reedsolomon.New(k, p)` succeeds: up to 256 shards the GF(2^8) codec (parity may be 0); above,
klauspost switches to the Leopard GF(2^16) codec, which needs at least one parity shard and at most
65536 shards. -/
def rsNewOk (k p : Nat) : Bool :=
  decide (0 < k) && (decide (k + p ≤ 256) || (decide (0 < p) && decide (k + p ≤ 65536)))

/-- `n` consecutive pieces of `size` bytes. -/
def chunk (size : Nat) : Nat → Bytes → List Bytes
  | 0, _ => []
  | n + 1, d => d.take size :: chunk size n (d.drop size)

/-- Bytes per shard in klauspost `Split`: `ceil(len/k)`, rounded up to a multiple of 64 by the
Leopard codec (more than 256 shards). -/
def perShard (len k p : Nat) : Nat :=
  let per := (len + k - 1) / k
  if k + p > 256 then ((per + 63) / 64) * 64 else per

/-- klauspost `Split`: the data zero-padded to `k * perShard` and cut into `k` shards (with a
single shard in total the data is returned as it is). -/
def splitData (data : Bytes) (k p : Nat) : List Bytes :=
  if k + p = 1 then [data]
  else chunk (perShard data.length k p) k
    (data ++ List.replicate (k * perShard data.length k p - data.length) 0)

/-- `reedsolomon.EncodeData(data, k, p)`. -/
def encodeData (rs : RS) (data : Bytes) (k p : Nat) : Out (List Bytes) :=
  if data.isEmpty then .err .emptyData
  else if !rsNewOk k p then .err .rsNew
  else
    let ds := splitData data k p
    .ok (ds ++ rs.parity k p ds)

/-- `reedsolomon.RecoverData(shards, k, p)` (`shards` non-empty at the only call site). -/
def recoverData (rs : RS) (shards : List (Option Bytes)) (k p : Nat) : Out (List Bytes) :=
  if shards.isEmpty then .err .recover
  else if !rsNewOk k p then .err .rsNew
  else match rs.recover k p shards with
    | some c => .ok c
    | none => .err .recover

/-! ## Units -/

/-- What `buildSignPayload` binds: `"<propeller>" ‖ root(32) ‖ committee(32) ‖ nonce(8, BE) ‖
"<propeller/>"`. All three fields have fixed width, so the byte string determines the triple. -/
structure Payload (H : Type) where
  root : H
  committee : Bytes
  nonce : Nat
  deriving DecidableEq, Repr

/-- Signature scheme parameter: `sign` with the publisher's private key; `verify publisher …` with
the public key extracted from the publisher's peer id (when `hasKey`). -/
structure SigScheme (H : Type) where
  sign : Payload H → Bytes
  verify : Bytes → Payload H → Bytes → Bool
  /-- `peer.ID.ExtractPublicKey` succeeds: the peer id embeds its public key (Ed25519, secp256k1);
  ids of RSA / ECDSA keys are hashes and do not. -/
  hasKey : Bytes → Bool

/-- `propeller.Unit`. -/
structure PUnit (H : Type) where
  committee : Bytes
  publisher : Bytes
  root : H
  proof : List H
  sig : Bytes
  index : Nat
  shards : List Bytes
  nonce : Nat
  deriving DecidableEq, Repr

/-- The Merkle leaf bytes for one shard: raw shard or `ShardData{shard}.MarshalProto()`. -/
def leafOf (proto : Bool) (shard : Bytes) : Bytes :=
  if proto then marshalShards [shard] else shard

/-- Index-stamped units of `CreatePropellerUnits`' final loop. -/
def mkUnits {H : Type} (committee publisher : Bytes) (root : H) (tree : List (List H)) (sig : Bytes)
    (nonce : Nat) : Nat → List Bytes → List (PUnit H)
  | _, [] => []
  | i, shard :: rest =>
    { committee := committee, publisher := publisher, root := root, proof := tree.getD i [],
      sig := sig, index := i, shards := [shard], nonce := nonce }
      :: mkUnits committee publisher root tree sig nonce (i + 1) rest

/-- `CreatePropellerUnits(privKey, committeeID, nonce, message, k, p)`. `publisher` is the peer id
of `privKey`. Before d76716c the `Nonce` field of the units was left zero (`cfg.nonceSet = false`). -/
def createUnits {H : Type} (cfg : Cfg) (f : HashFns H) (rs : RS) (sg : SigScheme H)
    (committee publisher : Bytes) (nonce : Nat) (msg : Bytes) (k p : Nat) : Out (List (PUnit H)) :=
  match padGo msg k with
  | .panic => .panic
  | .err e => .err e
  | .ok padded =>
    match encodeData rs padded k p with
    | .panic => .panic
    | .err e => .err e
    | .ok enc =>
      let (root, tree) := merkleNew f (enc.map (leafOf cfg.shardingLeafProto))
      let sig := sg.sign ⟨root, committee, nonce⟩
      .ok (mkUnits committee publisher root tree sig (if cfg.nonceSet then nonce else 0) 0 enc)

/-- `shards[i] = units[i].ShardData[0]` for the present units; `none` when a present unit has no
shard (Go: index out of range panic). -/
def unitShards {H : Type} : List (Option (PUnit H)) → Option (List (Option Bytes))
  | [] => some []
  | none :: rest => (unitShards rest).map (none :: ·)
  | some u :: rest =>
    match u.shards with
    | [] => none
    | s :: _ => (unitShards rest).map (some s :: ·)

/-- The unit whose `MessageRoot` is compared: the first present unit (since a2bceaf); before,
`units[0]` (nil ⇒ panic). -/
def rootUnit {H : Type} (cfg : Cfg) (units : List (Option (PUnit H))) : Option (PUnit H) :=
  if cfg.rootFromPresent then (units.filterMap id).head? else units.headD none

/-- `ConstructMessageFromUnits(units, localShardIndex, k, p)`: message, local shard, local proof. -/
def construct {H : Type} [DecidableEq H] (cfg : Cfg) (f : HashFns H) (rs : RS)
    (units : List (Option (PUnit H))) (localIdx k p : Nat) : Out (Bytes × Bytes × List H) :=
  if units.isEmpty then .err .noUnits
  else match unitShards units with
  | none => .panic
  | some shards =>
    match recoverData rs shards k p with
    | .panic => .panic
    | .err e => .err e
    | .ok full =>
      let shardSize := (full.headD []).length
      if (full.take k).any (fun s => s.length != shardSize) then .err .shardSize
      else
        let (root, tree) := merkleNew f (full.map (leafOf cfg.shardingLeafProto))
        match rootUnit cfg units with
        | none =>
          -- before a2bceaf: units[0] == nil, nil pointer dereference; since: no present unit leaves
          -- the zero root, which is compared with the computed one ("wrong message root hash")
          if cfg.rootFromPresent then .err .root else .panic
        | some u0 =>
          if u0.root ≠ root then .err .root
          else
            -- copy(paddedMessage[i*shardSize:], shards[i]) for ALL shards (data and parity)
            match unpad cfg.unpadGuard full.flatten with
            | .panic => .panic
            | .err e => .err e
            | .ok msg =>
              if localIdx < full.length then
                .ok (msg, full.getD localIdx [], tree.getD localIdx [])
              else .panic      -- shards[localShardIndex]: index out of range

/-! ## scheduler.go -/

/-- Go string comparison `a < b` on peer ids (bytewise lexicographic). -/
def lexLt : Bytes → Bytes → Bool
  | [], [] => false
  | [], _ :: _ => true
  | _ :: _, [] => false
  | a :: as, b :: bs => if a < b then true else if b < a then false else lexLt as bs

def insertSorted (x : Bytes) : List Bytes → List Bytes
  | [] => [x]
  | y :: ys => if lexLt y x then y :: insertSorted x ys else x :: y :: ys

/-- `slices.SortFunc(nodes, cmp.Compare)` on the ids (stakes play no role in C19). -/
def sortIds (l : List Bytes) : List Bytes := l.foldr insertSorted []

def hasAdjacentDup : List Bytes → Bool
  | a :: b :: rest => a == b || hasAdjacentDup (b :: rest)
  | _ => false

inductive SchedErr where
  | tooFew | localMissing | duplicate
  deriving DecidableEq, Repr

structure Sched where
  localId : Bytes
  localIdx : Nat
  peers : List Bytes
  k : Nat       -- numDataShards
  c : Nat       -- numCodingShards
  deriving DecidableEq, Repr

/-- `NewScheduler(id, nodes)`. -/
def newScheduler (id : Bytes) (nodes : List Bytes) : Except SchedErr Sched :=
  if nodes.length < 2 then .error .tooFew
  else
    let sorted := sortIds nodes
    match sorted.idxOf? id with
    | none => .error .localMissing
    | some idx =>
      if hasAdjacentDup sorted then .error .duplicate
      else
        let total := sorted.length
        let k := max 1 ((total - 1) / 3)
        .ok { localId := id, localIdx := idx, peers := sorted, k := k, c := total - 1 - k }

def Sched.total (s : Sched) : Nat := s.k + s.c

/-- Validation error classes of `ValidateShardOrigin` + `UnitValidator.Validate`. -/
inductive VErr where
  | duplicate          -- "duplicated shard %d received"
  | selfSend           -- "self sending message"
  | selfPublished      -- "self published shard was sent back"
  | indexRange         -- "shard index %d out of range"
  | publisherUnknown   -- "publisher … not found in the peer list"
  | unexpectedSender   -- "received shard index %d from unexpected sender"
  | shardCount         -- "unexpected amount of shards"
  | merkle             -- "data shards verification failed"
  | sigMismatch        -- "signature missmatch" (differs from the cached verified one)
  | sigEmpty           -- "empty signature"
  | sigInvalid         -- "signature is invalid" / "failed pub key verification"
  | route              -- Processor: no subprocessor can be created for this message key
  deriving DecidableEq, Repr

def VErr.name : VErr → String
  | .duplicate => "duplicate" | .selfSend => "self-send" | .selfPublished => "self-published"
  | .indexRange => "index-range" | .publisherUnknown => "publisher-unknown"
  | .unexpectedSender => "unexpected-sender" | .shardCount => "shard-count" | .merkle => "merkle"
  | .sigMismatch => "sig-mismatch" | .sigEmpty => "sig-empty" | .sigInvalid => "sig-invalid"
  | .route => "route"

/-- `PeerForShardIndex(publisher, shardIndex)`: the publisher's slot is skipped. -/
def Sched.peerForShard (s : Sched) (publisher : Bytes) (idx : Nat) : Except VErr Bytes :=
  if idx ≥ s.total then .error .indexRange
  else match s.peers.idxOf? publisher with
    | none => .error .publisherUnknown
    | some pubIdx =>
      let peerIdx := if idx ≥ pubIdx then idx + 1 else idx
      -- `s.peers[peerIdx]`: in range for every scheduler NewScheduler builds (k + c = N - 1); Go
      -- would panic otherwise, the model refuses the index
      match s.peers[peerIdx]? with
      | some q => .ok q
      | none => .error .indexRange

/-- `ShardIndexForPublisher(publisher)`: the local peer's shard index. -/
def Sched.shardIndexFor (s : Sched) (publisher : Bytes) : Except VErr Nat :=
  if s.localId = publisher then .error .selfPublished
  else match s.peers.idxOf? publisher with
    | none => .error .publisherUnknown
    | some pubIdx => .ok (if s.localIdx ≥ pubIdx then s.localIdx - 1 else s.localIdx)

/-- `ValidateShardOrigin(sender, publisher, shardIndex)`. -/
def Sched.validateOrigin (s : Sched) (sender publisher : Bytes) (idx : Nat) : Except VErr Unit :=
  if sender = s.localId then .error .selfSend
  else if publisher = s.localId then .error .selfPublished
  else match s.peerForShard publisher idx with
    | .error e => .error e
    | .ok expected =>
      if expected = s.localId ∧ sender = publisher then .ok ()
      else if expected = sender then .ok ()
      else .error .unexpectedSender

/-! ## unit_validator.go -/

/-- `UnitValidator` state: indices received so far, the signature verified first. -/
structure VState where
  received : List Nat
  verifiedSig : Option Bytes
  deriving DecidableEq, Repr

def VState.fresh : VState := ⟨[], none⟩

/-- `verifyDataShards`. -/
def verifyDataShards {H : Type} [DecidableEq H] (cfg : Cfg) (f : HashFns H) (u : PUnit H) :
    Except VErr Unit :=
  match u.shards with
  | [s] =>
    let leaf := if cfg.validatorLeafProto then marshalShards [s] else s
    if verify f u.proof u.root leaf u.index then .ok () else .error .merkle
  | _ => .error .shardCount

/-- `verifySignature` (the validator's publisher is fixed at construction). -/
def verifySignature {H : Type} (sg : SigScheme H) (publisher : Bytes) (st : VState) (u : PUnit H) :
    Except VErr VState :=
  match st.verifiedSig with
  | some v => if v = u.sig then .ok st else .error .sigMismatch
  | none =>
    if u.sig.isEmpty then .error .sigEmpty
    else if sg.verify publisher ⟨u.root, u.committee, u.nonce⟩ u.sig then
      .ok { st with verifiedSig := some u.sig }
    else .error .sigInvalid

/-- `UnitValidator.Validate(unit, sender)` for a validator built with `NewValidator(publisher,
scheduler)`. -/
def validate {H : Type} [DecidableEq H] (cfg : Cfg) (f : HashFns H) (sg : SigScheme H) (s : Sched)
    (publisher : Bytes) (st : VState) (u : PUnit H) (sender : Bytes) : Except VErr VState :=
  if st.received.contains u.index then .error .duplicate
  else match s.validateOrigin sender u.publisher u.index with
    | .error e => .error e
    | .ok () =>
      match verifyDataShards cfg f u with
      | .error e => .error e
      | .ok () =>
        match verifySignature sg publisher st u with
        | .error e => .error e
        | .ok st' => .ok { st' with received := u.index :: st'.received }

/-! ## processor.go: one validator per message key -/

/-- `messageKey` = `extractKey(unit)`. -/
structure MsgKey (H : Type) where
  committee : Bytes
  publisher : Bytes
  root : H
  nonce : Nat
  deriving DecidableEq, Repr

def keyOf {H : Type} (u : PUnit H) : MsgKey H := ⟨u.committee, u.publisher, u.root, u.nonce⟩

/-- The validators of the running subprocessors, by message key. -/
abbrev Routes (H : Type) := List (MsgKey H × VState)

def Routes.find {H : Type} [DecidableEq H] (r : Routes H) (key : MsgKey H) : Option VState :=
  (r.find? (fun e => e.1 = key)).map (·.2)

def Routes.set {H : Type} [DecidableEq H] (r : Routes H) (key : MsgKey H) (st : VState) : Routes H :=
  (key, st) :: r.filter (fun e => e.1 ≠ key)

/-- The validator a unit with message key `key` is handed to: the running subprocessor's, or a
fresh one (`createSubprocessor`: needs `ShardIndexForPublisher(key.Publisher)` to succeed). -/
def routeState {H : Type} [DecidableEq H] (s : Sched) (r : Routes H) (key : MsgKey H) :
    Except VErr VState :=
  match r.find key with
  | some st => .ok st
  | none => match s.shardIndexFor key.publisher with
    | .error _ => .error .route
    | .ok _ => .ok VState.fresh

/-- `Processor.ProcessMessage` → subprocessor → `validator.Validate`: the unit goes to the
validator of its message key; a new key gets a fresh validator for `key.Publisher`. Returns the
new routes and the verdict. -/
def deliver {H : Type} [DecidableEq H] (cfg : Cfg) (f : HashFns H) (sg : SigScheme H) (s : Sched)
    (r : Routes H) (u : PUnit H) (sender : Bytes) : Routes H × Except VErr Unit :=
  match routeState s r (keyOf u) with
  | .error e => (r, .error e)
  | .ok st =>
    match validate cfg f sg s (keyOf u).publisher st u sender with
    | .error e => (r.set (keyOf u) st, .error e)
    | .ok st' => (r.set (keyOf u) st', .ok ())

end Juno.C19
