import JunoModel.C19.ModelProc
/-
C19 — model, part 6 (round 5): code that the earlier parts replaced by a mathematical shortcut,
transcribed as Go executes it.

  scheduler.go   publisherIndex = slices.BinarySearchFunc(peers, publisher, cmp.Compare) — the model
                 used `List.idxOf?`; here the binary search loop itself, and PeerForShardIndex /
                 ShardIndexForPublisher on top of it (`ProofsR5`: equal to the `idxOf?` versions on
                 every scheduler NewScheduler makes; a non-member is refused whatever insertion
                 position the search returns)
  merkle.go      nextPowerOfTwo = 1 << bits.Len(uint(n-1)) — the model used `Nat.log2`; here bits.Len
                 as the shift loop it is
  processor.go   WHY ProcessMessage refuses a unit (`createSubprocessor`'s checks in the code's order:
                 ShardIndexForPublisher, ExtractPublicKey, increaseTasks: per-publisher bound BEFORE the
                 global bound) — the model answered `noRoute` for all of them
  processor.go   a run of the processor as a list of EVENTS: a unit handed over, or the time-out of a
                 subprocessor
Core Lean only.
-/
namespace Juno.C19

/-! ## slices.BinarySearchFunc with cmp.Compare on peer ids -/

/-- `cmp.Compare(a, b)` on Go strings: -1, 0, +1. -/
def cmpBytes (a b : Bytes) : Int := if lexLt a b then -1 else if lexLt b a then 1 else 0

/-- The loop of `slices.BinarySearchFunc`:
`i, j := 0, n; for i < j { h := int(uint(i+j) >> 1); if cmp(x[h], target) < 0 { i = h + 1 } else { j = h } }`.
`fuel` bounds the number of iterations (`j - i` shrinks every time; `n` is enough). -/
def binSearchLoop (x : List Bytes) (t : Bytes) : Nat → Nat → Nat → Nat
  | 0, i, _ => i
  | fuel + 1, i, j =>
    if i < j then
      let h := (i + j) / 2
      if cmpBytes (x.getD h []) t < 0 then binSearchLoop x t fuel (h + 1) j
      else binSearchLoop x t fuel i h
    else i

/-- `slices.BinarySearchFunc(x, target, cmp)`: the position where `target` is or would be inserted,
and whether it is there: `return i, i < n && cmp(x[i], target) == 0`. -/
def binSearch (x : List Bytes) (t : Bytes) : Nat × Bool :=
  let i := binSearchLoop x t x.length 0 x.length
  (i, decide (i < x.length) && (cmpBytes (x.getD i []) t == 0))

/-- `(*Scheduler).publisherIndex`: `-1, error` unless found. -/
def publisherIndexGo (peers : List Bytes) (publisher : Bytes) : Except VErr Nat :=
  let (i, found) := binSearch peers publisher
  if found then .ok i else .error .publisherUnknown

/-- `PeerForShardIndex` as written: range check, `publisherIndex`, skip the publisher's slot, index. -/
def Sched.peerForShardGo (s : Sched) (publisher : Bytes) (idx : Nat) : Except VErr Bytes :=
  if idx ≥ s.total then .error .indexRange
  else match publisherIndexGo s.peers publisher with
    | .error e => .error e
    | .ok pubIdx =>
      let peerIdx := if idx ≥ pubIdx then idx + 1 else idx
      match s.peers[peerIdx]? with
      | some q => .ok q
      | none => .error .indexRange

/-- `ShardIndexForPublisher` as written. -/
def Sched.shardIndexForGo (s : Sched) (publisher : Bytes) : Except VErr Nat :=
  if s.localId = publisher then .error .selfPublished
  else match publisherIndexGo s.peers publisher with
    | .error e => .error e
    | .ok pubIdx => .ok (if s.localIdx ≥ pubIdx then s.localIdx - 1 else s.localIdx)

/-! ## math/bits.Len and merkle.nextPowerOfTwo -/

/-- `bits.Len(x)`: the number of bits needed to represent `x` (0 for 0): `for x != 0 { n++; x >>= 1 }`. -/
def bitsLenLoop : Nat → Nat → Nat
  | 0, _ => 0
  | fuel + 1, x => if x = 0 then 0 else bitsLenLoop fuel (x / 2) + 1

/-- (`x` iterations are more than enough: `x < 2^x`.) -/
def bitsLen (x : Nat) : Nat := bitsLenLoop x x

/-- `nextPowerOfTwo(n)`: `if n <= 2 { return 2 }; return 1 << bits.Len(uint(n-1))`. -/
def nextPow2Go (n : Nat) : Nat := if n ≤ 2 then 2 else 1 <<< bitsLen (n - 1)

/-- Length of every proof `merkle.New` returns for `n ≥ 1` leaves: one sibling per level of the tree
padded to `nextPowerOfTwo(n)` leaves — `bits.Len(nextPowerOfTwo(n) - 1)`. -/
def proofDepthGo (n : Nat) : Nat := bitsLen (nextPow2Go n - 1)

/-! ## Why `ProcessMessage` refuses a unit -/

inductive Refusal where
  | selfPublished     -- ShardIndexForPublisher: "scheduler peer is the same as the publisher"
  | publisherUnknown  -- ShardIndexForPublisher → publisherIndex: "not found in the peer list"
  | noKey             -- "publisher … has no usable public key" (since 76dcbab)
  | publisherTasks    -- increaseTasks: "tasks per publisher exceeded"
  | maxTasks          -- increaseTasks: "max tasks that the processor can handle has been reached"
  deriving DecidableEq, Repr

def Refusal.name : Refusal → String
  | .selfPublished => "self-published" | .publisherUnknown => "publisher-unknown" | .noKey => "no-key"
  | .publisherTasks => "publisher-tasks" | .maxTasks => "max-tasks"

/-- `ProcessMessage` → `subprocessorChannel` → `createSubprocessor`, in the code's order: a finalized
key is ignored (nil); an existing subprocessor gets the unit; otherwise `ShardIndexForPublisher`, the
public-key check, `increaseTasks` (the publisher's bound, then the global one). -/
def refusalOf {H : Type} [DecidableEq H] (b : Bounds) (pc : PCfg) (sg : SigScheme H) (s : Sched)
    (tp : TProc H) (u : PUnit H) : Option Refusal :=
  if tp.core.finalized.contains (keyOf u) then none
  else if (tp.core.findSub (keyOf u)).isSome then none
  else match s.shardIndexFor (keyOf u).publisher with
    | .error .selfPublished => some .selfPublished
    | .error _ => some .publisherUnknown
    | .ok _ =>
      if pc.keyGuard && !sg.hasKey (keyOf u).publisher then some .noKey
      else if tp.ptasks (keyOf u).publisher = b.maxPerPublisher then some .publisherTasks
      else if tp.tasks = b.maxWorkers then some .maxTasks
      else none

/-! ## Runs of the processor over events -/

/-- What happens to a processor: a unit is handed over by a sender, the subprocessor of a message key
reaches its time-out, or an entry of the finalized cache expires. -/
inductive PEvent (H : Type) where
  | unit (u : PUnit H) (sender : Bytes)
  | expire (key : MsgKey H)
  /-- the entry of `key` in the finalized cache expires (`StaleMessageTimeout` after it was added) -/
  | forget (key : MsgKey H)

/-- The finalized cache drops `key` (its entry expired). -/
def tprocForget {H : Type} [DecidableEq H] (tp : TProc H) (key : MsgKey H) : TProc H :=
  { tp with core := ⟨tp.core.finalized.filter (fun k => k ≠ key), tp.core.subs⟩ }

/-- The processor (with task accounting) over a list of events: final state and the outcome of every
`unit` event, in order. -/
def tprocRunEv {H : Type} [DecidableEq H] (b : Bounds) (cfg : Cfg) (pc : PCfg) (f : HashFns H) (rs : RS)
    (sg : SigScheme H) (s : Sched) : TProc H → List (PEvent H) → TProc H × List (ProcOut H)
  | tp, [] => (tp, [])
  | tp, .unit u sender :: rest =>
    let r := tprocStep b cfg pc f rs sg s tp u sender
    let r' := tprocRunEv b cfg pc f rs sg s r.1 rest
    (r'.1, r.2 :: r'.2)
  | tp, .expire key :: rest => tprocRunEv b cfg pc f rs sg s (tprocExpire tp key) rest
  | tp, .forget key :: rest => tprocRunEv b cfg pc f rs sg s (tprocForget tp key) rest

/-- The outcomes of a sequence of units (no time-outs) with task accounting. -/
def tprocRun {H : Type} [DecidableEq H] (b : Bounds) (cfg : Cfg) (pc : PCfg) (f : HashFns H) (rs : RS)
    (sg : SigScheme H) (s : Sched) : TProc H → List (PUnit H × Bytes) → List (ProcOut H)
  | _, [] => []
  | tp, (u, sender) :: rest =>
    (tprocStep b cfg pc f rs sg s tp u sender).2 ::
      tprocRun b cfg pc f rs sg s (tprocStep b cfg pc f rs sg s tp u sender).1 rest

end Juno.C19
