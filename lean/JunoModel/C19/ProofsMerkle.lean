import JunoModel.C19.Model
/-!
C19 — helper lemmas, part 2: the Merkle tree (`merkle.New`, `Proof.Verify`).
Completeness needs nothing of the hash; soundness needs the idealisation `Ideal` (injective leaf
and node hashes with disjoint ranges), stated as an explicit hypothesis.
-/
namespace Juno.C19
variable {H : Type}

/-- The cryptographic idealisation of the two tagged hash functions. -/
structure Ideal (f : HashFns H) : Prop where
  leaf_inj : ∀ a b, f.leaf a = f.leaf b → a = b
  node_inj : ∀ a b c d, f.node a b = f.node c d → a = c ∧ b = d
  leaf_ne_node : ∀ a b c, f.leaf a ≠ f.node b c

theorem ideal_termFns : Ideal termFns :=
  ⟨fun _ _ h => by injection h, fun _ _ _ _ h => by injection h with h1 h2; exact ⟨h1, h2⟩,
   fun _ _ _ h => by cases h⟩

theorem xor_one (a : Nat) : a ^^^ 1 = if a % 2 = 0 then a + 1 else a - 1 := by
  have h1 : (a ^^^ 1) / 2 = a / 2 := by rw [Nat.xor_div_two]; simp
  have h2 := @Nat.xor_mod_two_eq_one a 1
  have h3 := Nat.mod_two_eq_zero_or_one (a ^^^ 1)
  split <;> omega

theorem pairUp_getD (f : HashFns H) (z : H) : ∀ (L : List H) (j : Nat), 2 * j + 1 < L.length →
    (pairUp f L).getD j z = f.node (L.getD (2 * j) z) (L.getD (2 * j + 1) z)
  | [], j, h => by simp at h
  | [_], j, h => by simp at h
  | a :: b :: rest, 0, _ => by simp [pairUp]
  | a :: b :: rest, j + 1, h => by
    have := pairUp_getD f z rest j (by simp at h; omega)
    simp only [pairUp, List.getD_cons_succ, this, show 2 * (j + 1) = 2 * j + 1 + 1 by omega]

theorem rootLoop_single (f : HashFns H) (x : H) : rootLoop f [x] = x := by
  rw [rootLoop]; simp

theorem rootLoop_step (f : HashFns H) (L : List H) (h : L.length > 1) :
    rootLoop f L = rootLoop f (pairUp f L) := by
  rw [rootLoop]; simp [h]

theorem proofLoop_step (f : HashFns H) (L : List H) (a : Nat) (h : L.length > 1) :
    proofLoop f L a = L.getD (a ^^^ 1) f.zero :: proofLoop f (pairUp f L) (a / 2) := by
  rw [proofLoop]; simp [h]

theorem proofLoop_single (f : HashFns H) (L : List H) (a : Nat) (h : ¬ L.length > 1) :
    proofLoop f L a = [] := by
  rw [proofLoop]; simp [h]

/-- Completeness on a power-of-two layer: the sibling path of position `a` folds to the root. -/
theorem verify_proofLoop (f : HashFns H) : ∀ (d : Nat) (L : List H) (a : Nat), L.length = 2 ^ d → a < L.length →
    verifyLoop f (proofLoop f L a) (L.getD a f.zero) a = rootLoop f L := by
  intro d
  induction d with
  | zero =>
    intro L a hL ha
    match L, hL with
    | [x], _ =>
      have : a = 0 := by simp at ha; omega
      subst this
      rw [proofLoop_single f [x] 0 (by simp), rootLoop_single]; simp [verifyLoop]
  | succ d ih =>
    intro L a hL ha
    have hgt : L.length > 1 := by
      rw [hL]; have : 0 < 2 ^ d := Nat.pow_pos (by decide); rw [Nat.pow_succ]; omega
    have hpl : (pairUp f L).length = 2 ^ d := by rw [pairUp_length, hL, Nat.pow_succ]; omega
    have hlen2 : L.length = 2 * 2 ^ d := by rw [hL, Nat.pow_succ]; omega
    rw [proofLoop_step f L a hgt, rootLoop_step f L hgt, verifyLoop]
    have hj : 2 * (a / 2) + 1 < L.length := by omega
    have hp := pairUp_getD f f.zero L (a / 2) hj
    have := ih (pairUp f L) (a / 2) hpl (by rw [hpl]; omega)
    rw [← this, hp, xor_one]
    by_cases hpar : a % 2 = 0
    · simp only [hpar, if_true]
      rw [show 2 * (a / 2) = a by omega]
    · simp only [hpar, if_false]
      rw [show 2 * (a / 2) + 1 = a by omega, show 2 * (a / 2) = a - 1 by omega]


/-! ### soundness -/

/-- `x` is the hash of a complete tree of height `r` over leaf hashes. -/
def Full (f : HashFns H) : Nat → H → Prop
  | 0, x => ∃ d, x = f.leaf d
  | r + 1, x => ∃ a b, x = f.node a b ∧ Full f r a ∧ Full f r b

/-- `x` is a node hash with a leaf hash at depth exactly `r` somewhere below it. -/
def Spine (f : HashFns H) : Nat → H → Prop
  | 0, x => ∃ d, x = f.leaf d
  | r + 1, x => ∃ a b, x = f.node a b ∧ (Spine f r a ∨ Spine f r b)

theorem full_spine_level (f : HashFns H) (hI : Ideal f) : ∀ (r r' : Nat) (x : H),
    Full f r x → Spine f r' x → r = r' := by
  intro r
  induction r with
  | zero =>
    intro r' x ⟨d, hd⟩ hs
    cases r' with
    | zero => rfl
    | succ r' =>
      obtain ⟨a, b, hx, _⟩ := hs
      exact absurd (hd.symm.trans hx) (hI.leaf_ne_node _ _ _)
  | succ r ih =>
    intro r' x ⟨a, b, hx, ha, hb⟩ hs
    cases r' with
    | zero =>
      obtain ⟨d, hd⟩ := hs
      exact absurd (hd.symm.trans hx) (hI.leaf_ne_node _ _ _)
    | succ r' =>
      obtain ⟨a', b', hx', hs'⟩ := hs
      obtain ⟨e1, e2⟩ := hI.node_inj _ _ _ _ (hx.symm.trans hx')
      cases hs' with
      | inl h => rw [ih r' a ha (e1 ▸ h)]
      | inr h => rw [ih r' b hb (e2 ▸ h)]

theorem spine_verifyLoop (f : HashFns H) : ∀ (proof : List H) (r : Nat) (cur : H) (idx : Nat),
    Spine f r cur → Spine f (r + proof.length) (verifyLoop f proof cur idx)
  | [], r, cur, idx, h => by simpa [verifyLoop] using h
  | s :: rest, r, cur, idx, h => by
    have hs : Spine f (r + 1) (if idx % 2 = 0 then f.node cur s else f.node s cur) := by
      split
      · exact ⟨cur, s, rfl, Or.inl h⟩
      · exact ⟨s, cur, rfl, Or.inr h⟩
    have := spine_verifyLoop f rest (r + 1) _ (idx / 2) hs
    simp only [verifyLoop, List.length_cons]
    rw [show r + (rest.length + 1) = r + 1 + rest.length by omega]
    exact this

/-- Every element of `L` is `Full r`. -/
def AllFull (f : HashFns H) (r : Nat) (L : List H) : Prop := ∀ x ∈ L, Full f r x

theorem allFull_pairUp (f : HashFns H) (r : Nat) : ∀ (L : List H), AllFull f r L →
    AllFull f (r + 1) (pairUp f L)
  | [], _ => by intro x hx; simp [pairUp] at hx
  | [_], _ => by intro x hx; simp [pairUp] at hx
  | a :: b :: rest, h => by
    intro x hx
    simp only [pairUp, List.mem_cons] at hx
    cases hx with
    | inl e => exact ⟨a, b, e, h a (by simp), h b (by simp)⟩
    | inr e => exact allFull_pairUp f r rest (fun y hy => h y (by simp [hy])) x e

theorem full_rootLoop (f : HashFns H) : ∀ (d r : Nat) (L : List H), L.length = 2 ^ d → AllFull f r L →
    Full f (r + d) (rootLoop f L) := by
  intro d
  induction d with
  | zero =>
    intro r L hL h
    match L, hL with
    | [x], _ => rw [rootLoop_single]; exact h x (by simp)
  | succ d ih =>
    intro r L hL h
    have hgt : L.length > 1 := by
      rw [hL]; have : 0 < 2 ^ d := Nat.pow_pos (by decide); rw [Nat.pow_succ]; omega
    have hpl : (pairUp f L).length = 2 ^ d := by rw [pairUp_length, hL, Nat.pow_succ]; omega
    rw [rootLoop_step f L hgt, show r + (d + 1) = r + 1 + d by omega]
    exact ih (r + 1) _ hpl (allFull_pairUp f r L h)

/-- Soundness on a power-of-two layer of complete subtrees of equal height: whatever folds to
the root is the element at the position given by the low bits of the index, with exactly the
sibling path of that position. -/
theorem verifyLoop_sound (f : HashFns H) (hI : Ideal f) : ∀ (d r : Nat) (L : List H) (cur : H)
    (proof : List H) (idx : Nat), L.length = 2 ^ d → AllFull f r L → Spine f r cur →
    verifyLoop f proof cur idx = rootLoop f L →
    proof.length = d ∧ L.getD (idx % 2 ^ d) f.zero = cur ∧ proof = proofLoop f L (idx % 2 ^ d) := by
  intro d
  induction d with
  | zero =>
    intro r L cur proof idx hL hF hS hv
    match L, hL with
    | [x], _ =>
      rw [rootLoop_single] at hv
      have hsp := spine_verifyLoop f proof r cur idx hS
      rw [hv] at hsp
      have := full_spine_level f hI r _ x (hF x (by simp)) hsp
      have hp : proof = [] := List.eq_nil_of_length_eq_zero (by omega)
      subst hp
      simp only [verifyLoop] at hv
      refine ⟨rfl, ?_, ?_⟩
      · simp [Nat.mod_one, hv]
      · rw [proofLoop_single f [x] _ (by simp)]
  | succ d ih =>
    intro r L cur proof idx hL hF hS hv
    have hpos : 0 < 2 ^ d := Nat.pow_pos (by decide)
    have hgt : L.length > 1 := by rw [hL, Nat.pow_succ]; omega
    have hpl : (pairUp f L).length = 2 ^ d := by rw [pairUp_length, hL, Nat.pow_succ]; omega
    have hlen2 : L.length = 2 * 2 ^ d := by rw [hL, Nat.pow_succ]; omega
    cases proof with
    | nil =>
      simp only [verifyLoop] at hv
      have hfull := full_rootLoop f (d + 1) r L hL hF
      rw [← hv] at hfull
      have := full_spine_level f hI _ _ cur hfull hS
      omega
    | cons s rest =>
      simp only [verifyLoop] at hv
      rw [rootLoop_step f L hgt] at hv
      have hs : Spine f (r + 1) (if idx % 2 = 0 then f.node cur s else f.node s cur) := by
        split
        · exact ⟨cur, s, rfl, Or.inl hS⟩
        · exact ⟨s, cur, rfl, Or.inr hS⟩
      obtain ⟨h1, h2, h3⟩ := ih (r + 1) (pairUp f L) _ rest (idx / 2) hpl (allFull_pairUp f r L hF) hs hv
      have hjlt : idx / 2 % 2 ^ d < 2 ^ d := Nat.mod_lt _ hpos
      have hp := pairUp_getD f f.zero L (idx / 2 % 2 ^ d) (by omega)
      rw [hp] at h2
      have hmod : idx % 2 ^ (d + 1) = 2 * (idx / 2 % 2 ^ d) + idx % 2 := by
        rw [Nat.pow_succ, Nat.mul_comm (2 ^ d) 2, Nat.mod_mul]; omega
      refine ⟨by simp [h1], ?_, ?_⟩
      · rw [hmod]
        by_cases hpar : idx % 2 = 0
        · simp only [hpar, if_true] at h2
          rw [hpar, Nat.add_zero]; exact (hI.node_inj _ _ _ _ h2).1
        · simp only [hpar, if_false] at h2
          rw [show idx % 2 = 1 by omega]; exact (hI.node_inj _ _ _ _ h2).2
      · rw [proofLoop_step f L _ hgt, xor_one, hmod]
        have hdiv : (2 * (idx / 2 % 2 ^ d) + idx % 2) / 2 = idx / 2 % 2 ^ d := by omega
        rw [hdiv, ← h3]
        congr 1
        by_cases hpar : idx % 2 = 0
        · simp only [hpar, if_true] at h2
          have : (2 * (idx / 2 % 2 ^ d) + 0) % 2 = 0 := by omega
          simp only [hpar, this, if_true]
          exact ((hI.node_inj _ _ _ _ h2).2).symm
        · simp only [hpar, if_false] at h2
          have h1' : idx % 2 = 1 := by omega
          have : ¬ ((2 * (idx / 2 % 2 ^ d) + 1) % 2 = 0) := by omega
          simp only [h1', this, if_false]
          rw [show 2 * (idx / 2 % 2 ^ d) + 1 - 1 = 2 * (idx / 2 % 2 ^ d) by omega]
          exact ((hI.node_inj _ _ _ _ h2).1).symm


/-! ### merkle.New -/

theorem nextPow2_spec (n : Nat) : ∃ d, 1 ≤ d ∧ nextPow2 n = 2 ^ d ∧ n ≤ 2 ^ d := by
  unfold nextPow2
  by_cases h : n ≤ 2
  · exact ⟨1, by omega, by simp [h], by simpa using h⟩
  · refine ⟨Nat.log2 (n - 1) + 1, by omega, by simp [h, Nat.shiftLeft_eq], ?_⟩
    have := @Nat.lt_log2_self (n - 1)
    omega

theorem bottomLayer_length (f : HashFns H) (leaves : List Bytes) :
    (bottomLayer f leaves).length = nextPow2 leaves.length := by
  obtain ⟨d, _, h2, h3⟩ := nextPow2_spec leaves.length
  simp [bottomLayer]; omega

theorem bottomLayer_allFull (f : HashFns H) (leaves : List Bytes) : AllFull f 0 (bottomLayer f leaves) := by
  intro x hx
  simp only [bottomLayer, List.mem_append, List.mem_map, List.mem_replicate] at hx
  rcases hx with ⟨a, _, rfl⟩ | ⟨_, rfl⟩
  · exact ⟨a, rfl⟩
  · exact ⟨[], rfl⟩

/-- The padded leaf list: position `i` holds `leaves[i]`, positions beyond hold the empty string. -/
def paddedLeaf (leaves : List Bytes) (i : Nat) : Bytes := leaves.getD i []

theorem bottomLayer_getD (f : HashFns H) (leaves : List Bytes) (i : Nat) (hi : i < nextPow2 leaves.length) :
    (bottomLayer f leaves).getD i f.zero = f.leaf (paddedLeaf leaves i) := by
  unfold bottomLayer paddedLeaf
  by_cases h : i < leaves.length
  · rw [List.getD_eq_getElem?_getD, List.getElem?_append_left (by simpa using h)]
    simp [List.getD_eq_getElem?_getD, h]
  · rw [List.getD_eq_getElem?_getD, List.getElem?_append_right (by simpa using h)]
    have : i - (List.map f.leaf leaves).length < nextPow2 leaves.length - leaves.length := by
      simp; omega
    have h2 : leaves[i]? = none := by simp; omega
    have h3 : i - leaves.length < nextPow2 leaves.length - leaves.length := by simpa using this
    simp [List.getD_eq_getElem?_getD, List.getElem?_replicate, h2, h3]

/-- `merkle_complete`: every proof `New` hands out verifies against the root `New` returns. -/
theorem merkleNew_complete [DecidableEq H] (f : HashFns H) (leaves : List Bytes) (i : Nat)
    (hi : i < leaves.length) :
    verify f ((merkleNew f leaves).2.getD i []) (merkleNew f leaves).1 (leaves.getD i []) i = true := by
  have hne : leaves.isEmpty = false := by
    cases leaves with
    | nil => simp at hi
    | cons _ _ => rfl
  obtain ⟨d, _, h2, h3⟩ := nextPow2_spec leaves.length
  have hlen : (bottomLayer f leaves).length = 2 ^ d := by rw [bottomLayer_length, h2]
  have hi2 : i < (bottomLayer f leaves).length := by omega
  have hc := verify_proofLoop f d (bottomLayer f leaves) i hlen hi2
  rw [bottomLayer_getD f leaves i (by omega)] at hc
  unfold verify merkleNew
  simp only [hne, Bool.false_eq_true, if_false]
  have hget : ((List.range leaves.length).map (proofLoop f (bottomLayer f leaves))).getD i [] =
      proofLoop f (bottomLayer f leaves) i := by
    simp [List.getD_eq_getElem?_getD, hi]
  rw [hget]
  simp only [paddedLeaf] at hc
  rw [hc]; simp

/-- `merkle_sound`: under the ideal-hash assumption, anything that verifies against the root of
`New(leaves)` is the padded leaf at position `index mod size`, with the tree's own sibling path
(only the low `log2 size` bits of the index are looked at by `Verify`). -/
theorem merkleNew_sound [DecidableEq H] (f : HashFns H) (hI : Ideal f) (leaves : List Bytes)
    (hne : leaves ≠ []) (proof : List H) (leaf : Bytes) (idx : Nat)
    (hv : verify f proof (merkleNew f leaves).1 leaf idx = true) :
    let pos := idx % nextPow2 leaves.length
    leaf = paddedLeaf leaves pos ∧
    proof = proofLoop f (bottomLayer f leaves) pos ∧
    2 ^ proof.length = nextPow2 leaves.length := by
  intro pos
  have hne' : leaves.isEmpty = false := by
    cases leaves with
    | nil => exact absurd rfl hne
    | cons _ _ => rfl
  obtain ⟨d, _, h2, h3⟩ := nextPow2_spec leaves.length
  have hlen : (bottomLayer f leaves).length = 2 ^ d := by rw [bottomLayer_length, h2]
  unfold verify merkleNew at hv
  simp only [hne', Bool.false_eq_true, if_false, beq_iff_eq] at hv
  obtain ⟨s1, s2, s3⟩ := verifyLoop_sound f hI d 0 (bottomLayer f leaves) (f.leaf leaf) proof idx hlen
    (bottomLayer_allFull f leaves) ⟨leaf, rfl⟩ hv
  have hpos : pos = idx % 2 ^ d := by simp only [pos, h2]
  have hposlt : pos < nextPow2 leaves.length := by
    rw [hpos, h2]; exact Nat.mod_lt _ (Nat.pow_pos (by decide))
  rw [← hpos] at s2 s3
  rw [bottomLayer_getD f leaves pos hposlt] at s2
  exact ⟨(hI.leaf_inj _ _ s2).symm, s3, by rw [s1, h2]⟩

/-- The proofs `New` returns are the sibling paths of positions `0 … n-1`. -/
theorem merkleNew_proof_getD (f : HashFns H) (leaves : List Bytes) (i : Nat) (hi : i < leaves.length) :
    (merkleNew f leaves).2.getD i [] = proofLoop f (bottomLayer f leaves) i := by
  have hne : leaves.isEmpty = false := by
    cases leaves with
    | nil => simp at hi
    | cons _ _ => rfl
  unfold merkleNew
  simp [hne, List.getD_eq_getElem?_getD, hi]

end Juno.C19
