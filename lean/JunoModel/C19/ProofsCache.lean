import JunoModel.C19.ModelCache
/-!
C19 — helper lemmas, part 9: the finalized cache (`ModelCache.lean`, timecache.go) is a set with a
time to live.

`Repr tc q`: the cache `tc` — map, ring buffer, `start`, `end`, `size` — represents the queue `q` of
(key, expiry) pairs in insertion order. Every operation is shown to act on `q` as the obvious
operation on a list: `removeExpired` drops the expired prefix, `regrowth` changes nothing, `Add`
appends, `Get` looks the key up. The ring's index arithmetic (wrap-around, both branches of
`regrowth`) is where the work is.
-/
namespace Juno.C19
variable {K : Type}

theorem mod_wrap (a n : Nat) (h1 : n ≤ a) (h2 : a < 2 * n) : a % n = a - n := by
  rw [Nat.mod_eq_sub_mod h1, Nat.mod_eq_of_lt (by omega)]

def TCache.idx (tc : TCache K) (i : Nat) : Nat := (tc.start + i) % tc.size
def TCache.cnt (tc : TCache K) : Nat := (tc.stop + tc.size - tc.start) % tc.size

theorem idx_cases (s i n : Nat) (hs : s < n) (hi : i < n) :
    (s + i < n ∧ (s + i) % n = s + i) ∨ (n ≤ s + i ∧ (s + i) % n = s + i - n) := by
  by_cases h : s + i < n
  · exact Or.inl ⟨h, Nat.mod_eq_of_lt h⟩
  · exact Or.inr ⟨by omega, mod_wrap _ _ (by omega) (by omega)⟩

theorem idx_inj (s i j n : Nat) (hs : s < n) (hi : i < n) (hj : j < n)
    (h : (s + i) % n = (s + j) % n) : i = j := by
  rcases idx_cases s i n hs hi with ⟨_, e1⟩ | ⟨_, e1⟩ <;>
  rcases idx_cases s j n hs hj with ⟨_, e2⟩ | ⟨_, e2⟩ <;> omega

theorem cnt_cases (s e n : Nat) (hs : s < n) (he : e < n) :
    (s ≤ e ∧ (e + n - s) % n = e - s) ∨ (e < s ∧ (e + n - s) % n = e + n - s) := by
  by_cases h : s ≤ e
  · exact Or.inl ⟨h, by rw [mod_wrap _ _ (by omega) (by omega)]; omega⟩
  · exact Or.inr ⟨by omega, Nat.mod_eq_of_lt (by omega)⟩

theorem inc_cases (s n : Nat) (hs : s < n) : (s + 1 < n ∧ (s + 1) % n = s + 1) ∨ (s + 1 = n ∧ (s + 1) % n = 0) := by
  by_cases h : s + 1 < n
  · exact Or.inl ⟨h, Nat.mod_eq_of_lt h⟩
  · have : s + 1 = n := by omega
    exact Or.inr ⟨this, by rw [this]; exact Nat.mod_self n⟩

theorem cnt_succ_start (s e n : Nat) (hs : s < n) (he : e < n) (hne : s ≠ e) :
    (e + n - (s + 1) % n) % n + 1 = (e + n - s) % n := by
  have hlt : (s + 1) % n < n := Nat.mod_lt _ (by omega)
  rcases inc_cases s n hs with ⟨h1, e1⟩ | ⟨h1, e1⟩ <;>
  rcases cnt_cases s e n hs he with ⟨h2, e2⟩ | ⟨h2, e2⟩ <;>
  rcases cnt_cases ((s + 1) % n) e n hlt he with ⟨h3, e3⟩ | ⟨h3, e3⟩ <;> omega

theorem cnt_succ_stop (s e n : Nat) (hs : s < n) (he : e < n) (hnf : (e + 1) % n ≠ s) :
    ((e + 1) % n + n - s) % n = (e + n - s) % n + 1 := by
  have hlt : (e + 1) % n < n := Nat.mod_lt _ (by omega)
  rcases inc_cases e n he with ⟨h1, e1⟩ | ⟨h1, e1⟩ <;>
  rcases cnt_cases s e n hs he with ⟨h2, e2⟩ | ⟨h2, e2⟩ <;>
  rcases cnt_cases s ((e + 1) % n) n hs hlt with ⟨h3, e3⟩ | ⟨h3, e3⟩ <;> omega

section maps
variable [DecidableEq K]

theorem mapGet?_erase_self (m : List (K × Nat)) (k : K) : mapGet? (mapErase m k) k = none := by
  unfold mapErase mapGet?
  rw [List.find?_filter]
  have : (fun a : K × Nat => decide ((decide ¬a.fst = k) = true ∧ decide (a.fst = k) = true)) = fun _ => false := by
    funext a; by_cases h : a.1 = k <;> simp [h]
  rw [this]
  simp

theorem mapGet?_erase_ne (m : List (K × Nat)) (k k' : K) (hne : k' ≠ k) :
    mapGet? (mapErase m k) k' = mapGet? m k' := by
  unfold mapErase mapGet?
  rw [List.find?_filter]
  have : (fun a : K × Nat => decide ((decide ¬a.fst = k) = true ∧ decide (a.fst = k') = true)) =
      fun a => decide (a.1 = k') := by
    funext a
    by_cases h : a.1 = k'
    · simp [h, hne]
    · simp [h]
  rw [this]

theorem mapGet?_cons (m : List (K × Nat)) (a : K × Nat) (k : K) :
    mapGet? (a :: m) k = if a.1 = k then some a.2 else mapGet? m k := by
  unfold mapGet?
  by_cases h : a.1 = k <;> simp [h]
end maps

theorem cnt_lt (tc : TCache K) (hs : tc.start < tc.size) (he : tc.stop < tc.size) : tc.cnt < tc.size := by
  unfold TCache.cnt
  rcases cnt_cases tc.start tc.stop tc.size hs he with ⟨_, e⟩ | ⟨_, e⟩ <;> omega

theorem idx_cnt (tc : TCache K) (hs : tc.start < tc.size) (he : tc.stop < tc.size) :
    tc.idx tc.cnt = tc.stop := by
  unfold TCache.idx TCache.cnt
  rcases cnt_cases tc.start tc.stop tc.size hs he with ⟨h, e⟩ | ⟨h, e⟩
  · rw [e]; rw [Nat.mod_eq_of_lt (by omega)]; omega
  · rw [e]; rw [mod_wrap _ _ (by omega) (by omega)]; omega

/-! ## The representation invariant -/

/-- The cache represents the queue `q` (oldest first). -/
structure Repr [DecidableEq K] (tc : TCache K) (q : List (K × Nat)) : Prop where
  size2 : 2 ≤ tc.size
  start_lt : tc.start < tc.size
  stop_lt : tc.stop < tc.size
  len : q.length = tc.cnt
  slots : ∀ i p, q[i]? = some p → tc.ring (tc.idx i) = some p
  vals : ∀ k e, mapGet? tc.values k = some e ↔ (k, e) ∈ q
  keys : (q.map (·.1)).Nodup
  sorted : q.Pairwise (fun a b => a.2 ≤ b.2)

section
variable [DecidableEq K]

theorem repr_new (n ttl : Nat) (hn : 1 ≤ n) : Repr (TCache.new n ttl : TCache K) [] := by
  refine ⟨by simp [TCache.new]; omega, by simp [TCache.new], by simp [TCache.new], ?_, ?_, ?_, by simp, by simp⟩
  · simp [TCache.new, TCache.cnt]
  · intro i p h; simp at h
  · intro k e; simp [TCache.new, mapGet?]

theorem cnt_zero_of_eq (tc : TCache K) (h : tc.start = tc.stop) (hs : tc.start < tc.size) : tc.cnt = 0 := by
  unfold TCache.cnt
  rw [h]
  have : tc.stop + tc.size - tc.stop = tc.size := by omega
  rw [this, Nat.mod_self]

theorem cnt_pos_of_ne (tc : TCache K) (h : tc.start ≠ tc.stop) (hs : tc.start < tc.size)
    (he : tc.stop < tc.size) : 0 < tc.cnt := by
  unfold TCache.cnt
  rcases cnt_cases tc.start tc.stop tc.size hs he with ⟨h1, e⟩ | ⟨h1, e⟩ <;> omega

theorem idx_zero (tc : TCache K) (hs : tc.start < tc.size) : tc.idx 0 = tc.start := by
  unfold TCache.idx; rw [Nat.add_zero, Nat.mod_eq_of_lt hs]

/-- One iteration of `removeExpired` that removes the head. -/
theorem repr_pop (tc : TCache K) (p : K × Nat) (q : List (K × Nat)) (h : Repr tc (p :: q)) :
    Repr { tc with values := mapErase tc.values p.1, start := tc.inc tc.start } q := by
  obtain ⟨h2, hs, he, hl, hsl, hv, hk, hso⟩ := h
  have hne : tc.start ≠ tc.stop := by
    intro e
    have := cnt_zero_of_eq tc e hs
    rw [this] at hl; simp at hl
  have hinc : tc.inc tc.start < tc.size := Nat.mod_lt _ (by omega)
  refine ⟨h2, hinc, he, ?_, ?_, ?_, ?_, ?_⟩
  · have := cnt_succ_start tc.start tc.stop tc.size hs he hne
    simp only [TCache.cnt, TCache.inc] at *
    simp only [List.length_cons] at hl
    omega
  · intro i p' hi
    have := hsl (i + 1) p' (by simpa using hi)
    simp only [TCache.idx, TCache.inc] at *
    rw [Nat.mod_add_mod]
    rw [← this]; congr 2; omega
  · intro k e
    simp only [List.map_cons, List.nodup_cons] at hk
    by_cases hkk : k = p.1
    · subst hkk
      rw [mapGet?_erase_self]
      constructor
      · intro h; cases h
      · intro hm
        exact absurd (List.mem_map_of_mem (f := (·.1)) hm) hk.1
    · rw [mapGet?_erase_ne _ _ _ hkk, hv]
      constructor
      · intro hm
        cases hm with
        | head => exact absurd rfl hkk
        | tail _ h => exact h
      · intro hm; exact List.mem_cons_of_mem _ hm
  · simp only [List.map_cons, List.nodup_cons] at hk; exact hk.2
  · exact (List.pairwise_cons.mp hso).2

/-- `removeExpired(now)` drops exactly the expired prefix of the queue. -/
theorem repr_removeExpiredLoop (now : Nat) : ∀ (fuel : Nat) (tc : TCache K) (q : List (K × Nat)),
    Repr tc q → q.length ≤ fuel →
    Repr (TCache.removeExpiredLoop fuel now tc) (q.dropWhile (fun p => decide (p.2 ≤ now)))
  | 0, tc, q, h, hl => by
    have : q = [] := List.eq_nil_of_length_eq_zero (by omega)
    subst this
    simpa [TCache.removeExpiredLoop] using h
  | fuel + 1, tc, q, h, hl => by
    unfold TCache.removeExpiredLoop
    by_cases hse : tc.start = tc.stop
    · simp only [hse, if_true]
      have hc := cnt_zero_of_eq tc hse h.start_lt
      have : q = [] := List.eq_nil_of_length_eq_zero (by rw [h.len, hc])
      subst this
      simpa using h
    · simp only [hse, if_false]
      have hpos := cnt_pos_of_ne tc hse h.start_lt h.stop_lt
      match q, h, hl with
      | [], h, _ => have := h.len; simp at this; omega
      | p :: q', h, hl =>
        have hslot := h.slots 0 p (by simp)
        rw [idx_zero tc h.start_lt] at hslot
        rw [hslot]
        obtain ⟨k, e⟩ := p
        by_cases hlt : now < e
        · simp only [hlt, if_true]
          have : ¬ e ≤ now := by omega
          simpa [List.dropWhile, this] using h
        · simp only [hlt, if_false]
          have hle : e ≤ now := by omega
          have := repr_removeExpiredLoop now fuel _ q' (repr_pop tc (k, e) q' h) (by simpa using hl)
          simpa [List.dropWhile, hle] using this

theorem repr_removeExpired (tc : TCache K) (q : List (K × Nat)) (now : Nat) (h : Repr tc q) :
    Repr (tc.removeExpired now) (q.dropWhile (fun p => decide (p.2 ≤ now))) := by
  unfold TCache.removeExpired
  apply repr_removeExpiredLoop now tc.size tc q h
  rw [h.len]
  exact Nat.le_of_lt (cnt_lt tc h.start_lt h.stop_lt)

theorem nextSize_gt (n : Nat) (h : 2 ≤ n) : n < (if n > 1024 then n * 12 / 10 else n * 2) := by
  split <;> omega

theorem getElem?_lt {α : Type} (l : List α) (i : Nat) (p : α) (h : l[i]? = some p) : i < l.length := by
  rcases Nat.lt_or_ge i l.length with h' | h'
  · exact h'
  · rw [List.getElem?_eq_none h'] at h; cases h

/-- `regrowth` (called when the next insertion would fill the ring) keeps the queue, in both of its
branches, and makes room. -/
theorem repr_regrow (tc : TCache K) (q : List (K × Nat)) (h : Repr tc q) (hf : tc.almostFull = true) :
    Repr tc.regrow q ∧ tc.regrow.almostFull = false ∧ tc.regrow.ttl = tc.ttl := by
  obtain ⟨values, ring, start, stop, size, ttl⟩ := tc
  obtain ⟨h2, hs, he, hl, hsl, hv, hk, hso⟩ := h
  simp only [TCache.cnt, TCache.idx] at hl hsl h2 hs he hv
  have hfull : (stop + 1) % size = start := by
    simpa [TCache.almostFull, TCache.inc] using hf
  have hns := nextSize_gt size h2
  by_cases hlt : start < stop
  · -- contiguous: start = 0, stop = size - 1
    have hst : stop + 1 = size ∧ start = 0 := by
      rcases inc_cases stop size he with ⟨a, b⟩ | ⟨a, b⟩ <;> omega
    obtain ⟨hstop, hstart⟩ := hst
    subst hstart
    have hcnt : (stop + size - 0) % size = stop := by
      rw [Nat.sub_zero, Nat.add_mod_right, Nat.mod_eq_of_lt he]
    simp only [TCache.regrow, hlt, if_true]
    refine ⟨⟨?_, ?_, ?_, ?_, ?_, hv, hk, hso⟩, ?_, trivial⟩
    · show 2 ≤ (if size > 1024 then size * 12 / 10 else size * 2); omega
    · show 0 < (if size > 1024 then size * 12 / 10 else size * 2); omega
    · show stop < (if size > 1024 then size * 12 / 10 else size * 2); omega
    · show q.length = (stop + (if size > 1024 then size * 12 / 10 else size * 2) - 0) %
        (if size > 1024 then size * 12 / 10 else size * 2)
      rw [hl, hcnt, Nat.sub_zero, Nat.add_mod_right, Nat.mod_eq_of_lt (by omega)]
    · intro i p hi
      have hil := getElem?_lt q i p hi
      have := hsl i p hi
      rw [Nat.zero_add, Nat.mod_eq_of_lt (by omega)] at this
      show (if (0 + i) % (if size > 1024 then size * 12 / 10 else size * 2) < size then
        ring ((0 + i) % (if size > 1024 then size * 12 / 10 else size * 2)) else none) = some p
      rw [Nat.zero_add, Nat.mod_eq_of_lt (by omega)]
      have hi2 : i < size := by omega
      rw [if_pos hi2]; exact this
    · show ((stop + 1) % (if size > 1024 then size * 12 / 10 else size * 2) == 0) = false
      rw [hstop, Nat.mod_eq_of_lt hns]
      simp; omega
  · -- wrapped: start = stop + 1
    have hst : start = stop + 1 := by
      rcases inc_cases stop size he with ⟨a, b⟩ | ⟨a, b⟩ <;> omega
    have hcnt : (stop + size - start) % size = size - 1 := by
      rcases cnt_cases start stop size hs he with ⟨_, e⟩ | ⟨_, e⟩ <;> omega
    simp only [TCache.regrow, hlt, if_false]
    refine ⟨⟨?_, ?_, ?_, ?_, ?_, hv, hk, hso⟩, ?_, trivial⟩
    · show 2 ≤ (if size > 1024 then size * 12 / 10 else size * 2); omega
    · show 0 < (if size > 1024 then size * 12 / 10 else size * 2); omega
    · show size - start + stop < (if size > 1024 then size * 12 / 10 else size * 2); omega
    · show q.length = (size - start + stop + (if size > 1024 then size * 12 / 10 else size * 2) - 0) %
        (if size > 1024 then size * 12 / 10 else size * 2)
      rw [hl, hcnt, Nat.sub_zero, Nat.add_mod_right, Nat.mod_eq_of_lt (by omega)]
      omega
    · intro i p hi
      have hil := getElem?_lt q i p hi
      have := hsl i p hi
      show (if (0 + i) % (if size > 1024 then size * 12 / 10 else size * 2) < size - start then
          ring (start + (0 + i) % (if size > 1024 then size * 12 / 10 else size * 2))
        else if (0 + i) % (if size > 1024 then size * 12 / 10 else size * 2) < size - start + stop then
          ring ((0 + i) % (if size > 1024 then size * 12 / 10 else size * 2) - (size - start))
        else none) = some p
      rw [Nat.zero_add, Nat.mod_eq_of_lt (by omega)]
      rcases idx_cases start i size hs (by omega) with ⟨a, b⟩ | ⟨a, b⟩
      · rw [b] at this
        have h1 : i < size - start := by omega
        rw [if_pos h1]; exact this
      · rw [b] at this
        have h1 : ¬ i < size - start := by omega
        have h3 : i < size - start + stop := by omega
        have h4 : i - (size - start) = start + i - size := by omega
        rw [if_neg h1, if_pos h3, h4]; exact this
    · show ((size - start + stop + 1) % (if size > 1024 then size * 12 / 10 else size * 2) == 0) = false
      have : size - start + stop + 1 = size := by omega
      rw [this, Nat.mod_eq_of_lt hns]
      simp; omega

/-- The last step of `Add`: write the slot at `end`, advance `end`, set the map entry. -/
theorem repr_push (tc : TCache K) (q : List (K × Nat)) (h : Repr tc q) (hroom : tc.almostFull = false)
    (k : K) (e : Nat) (hfresh : k ∉ q.map (·.1)) (hmax : ∀ p ∈ q, p.2 ≤ e) :
    Repr { tc with values := mapSet tc.values k e,
                   ring := fun j => if j = tc.stop then some (k, e) else tc.ring j,
                   stop := tc.inc tc.stop } (q ++ [(k, e)]) := by
  have hidxc := idx_cnt tc h.start_lt h.stop_lt
  have hcl := cnt_lt tc h.start_lt h.stop_lt
  obtain ⟨values, ring, start, stop, size, ttl⟩ := tc
  obtain ⟨h2, hs, he, hl, hsl, hv, hk, hso⟩ := h
  simp only [TCache.cnt, TCache.idx] at hl hsl h2 hs he hv hidxc hcl
  have hnf : (stop + 1) % size ≠ start := by
    intro e; simp [TCache.almostFull, TCache.inc, e] at hroom
  refine ⟨h2, hs, ?_, ?_, ?_, ?_, ?_, ?_⟩
  · show (stop + 1) % size < size
    exact Nat.mod_lt _ (by omega)
  · show (q ++ [(k, e)]).length = ((stop + 1) % size + size - start) % size
    rw [cnt_succ_stop start stop size hs he hnf, List.length_append, hl]; rfl
  · intro i p hi
    show (if (start + i) % size = stop then some (k, e) else ring ((start + i) % size)) = some p
    rcases Nat.lt_or_ge i q.length with hlt | hge
    · rw [List.getElem?_append_left hlt] at hi
      have hne : (start + i) % size ≠ stop := by
        intro heq
        rw [← hidxc] at heq
        have := idx_inj start i _ size hs (by omega) hcl heq
        omega
      rw [if_neg hne]; exact hsl i p hi
    · have hil := getElem?_lt _ i p hi
      simp only [List.length_append, List.length_cons, List.length_nil] at hil
      have hie : i = q.length := by omega
      subst hie
      rw [List.getElem?_append_right (Nat.le_refl _)] at hi
      simp at hi
      rw [hl, hidxc, if_pos rfl, hi]
  · intro k' e'
    show mapGet? (mapSet values k e) k' = some e' ↔ (k', e') ∈ q ++ [(k, e)]
    unfold mapSet
    rw [mapGet?_cons]
    by_cases hkk : k = k'
    · subst hkk
      simp only [if_true, Option.some.injEq, List.mem_append, List.mem_singleton, Prod.mk.injEq, true_and]
      constructor
      · intro h; exact Or.inr h.symm
      · intro h
        cases h with
        | inl h => exact absurd (List.mem_map_of_mem (f := (·.1)) h) hfresh
        | inr h => exact h.symm
    · have hkk' : k' ≠ k := fun e => hkk e.symm
      simp only [hkk, if_false]
      rw [mapGet?_erase_ne _ _ _ hkk', hv]
      simp [hkk']
  · rw [List.map_append, List.nodup_append]
    refine ⟨hk, by simp, ?_⟩
    intro a ha b hb
    simp at hb
    subst hb
    intro hab
    subst hab
    exact hfresh ha
  · rw [List.pairwise_append]
    refine ⟨hso, by simp, ?_⟩
    intro a ha b hb
    simp at hb
    subst hb
    exact hmax a ha

theorem removeExpiredLoop_ttl (now : Nat) : ∀ (fuel : Nat) (tc : TCache K),
    (TCache.removeExpiredLoop fuel now tc).ttl = tc.ttl
  | 0, tc => rfl
  | fuel + 1, tc => by
    unfold TCache.removeExpiredLoop
    split
    · rfl
    · split
      · split
        · rfl
        · rw [removeExpiredLoop_ttl now fuel]
      · rw [removeExpiredLoop_ttl now fuel]

theorem dropWhile_sorted (now : Nat) : ∀ (q : List (K × Nat)), q.Pairwise (fun a b => a.2 ≤ b.2) →
    q.dropWhile (fun p => decide (p.2 ≤ now)) = q.filter (fun p => decide (now < p.2))
  | [], _ => rfl
  | a :: t, hs => by
    have hs' := List.pairwise_cons.mp hs
    by_cases h : a.2 ≤ now
    · have hn : ¬ now < a.2 := by omega
      simp only [List.dropWhile, h, decide_true, List.filter_cons, hn, decide_false]
      exact dropWhile_sorted now t hs'.2
    · have hn : now < a.2 := by omega
      simp only [List.dropWhile, h, decide_false, List.filter_cons, hn, decide_true, if_true]
      congr 1
      symm
      apply List.filter_eq_self.mpr
      intro b hb
      have := hs'.1 b hb
      simp; omega

/-- `Add(k)` at time `now`, for a key that is not live (the processor adds a key only when `Get`
has just answered false) and a clock that did not go backwards: the expired prefix is dropped and
`(k, now + ttl)` is appended — whether or not the ring had to grow. -/
theorem repr_add (tc : TCache K) (q : List (K × Nat)) (now : Nat) (k : K) (h : Repr tc q)
    (hfresh : ∀ e, (k, e) ∈ q → e ≤ now) (hbound : ∀ p ∈ q, p.2 ≤ now + tc.ttl) :
    Repr (tc.add now k) (q.filter (fun p => decide (now < p.2)) ++ [(k, now + tc.ttl)]) ∧
    (tc.add now k).ttl = tc.ttl := by
  have h1 := repr_removeExpired tc q now h
  rw [dropWhile_sorted now q h.sorted] at h1
  have httl1 : (tc.removeExpired now).ttl = tc.ttl := removeExpiredLoop_ttl now _ tc
  have hmem : ∀ p, p ∈ q.filter (fun p => decide (now < p.2)) → p ∈ q ∧ now < p.2 := by
    intro p hp; simpa using List.mem_filter.mp hp
  have hk : k ∉ (q.filter (fun p => decide (now < p.2))).map (·.1) := by
    intro hm
    obtain ⟨p, hp, hpk⟩ := List.mem_map.mp hm
    obtain ⟨hpq, hlt⟩ := hmem p hp
    have : (k, p.2) ∈ q := by rw [← hpk]; exact hpq
    have := hfresh _ this
    omega
  unfold TCache.add
  by_cases hf : (tc.removeExpired now).almostFull = true
  · obtain ⟨h2, hroom, httl2⟩ := repr_regrow _ _ h1 hf
    have key := repr_push _ _ h2 hroom k (now + (tc.removeExpired now).regrow.ttl) hk
      (fun p hp => by rw [httl2, httl1]; exact hbound p (hmem p hp).1)
    simp only [hf, if_true]
    rw [httl2, httl1] at key
    refine ⟨?_, by show (tc.removeExpired now).regrow.ttl = tc.ttl; rw [httl2, httl1]⟩
    rw [httl2, httl1]
    exact key
  · have hroom : (tc.removeExpired now).almostFull = false := by simpa using hf
    have key := repr_push _ _ h1 hroom k (now + (tc.removeExpired now).ttl) hk
      (fun p hp => by rw [httl1]; exact hbound p (hmem p hp).1)
    simp only [hroom, Bool.false_eq_true, if_false]
    rw [httl1] at key
    refine ⟨?_, by show (tc.removeExpired now).ttl = tc.ttl; exact httl1⟩
    rw [httl1]
    exact key

/-- `Get(k)` at time `now` answers whether the queue holds `k` with an expiry after `now`; the cache
afterwards represents the queue, with or without its expired prefix. -/
theorem repr_get (tc : TCache K) (q : List (K × Nat)) (now : Nat) (k : K) (h : Repr tc q) :
    ((tc.get now k).2 = true ↔ ∃ e, (k, e) ∈ q ∧ now < e) ∧
    (Repr (tc.get now k).1 q ∨ Repr (tc.get now k).1 (q.filter (fun p => decide (now < p.2)))) ∧
    (tc.get now k).1.ttl = tc.ttl := by
  unfold TCache.get
  cases hg : mapGet? tc.values k with
  | none =>
    refine ⟨⟨fun hh => (by cases hh), ?_⟩, Or.inl h, rfl⟩
    intro hex
    obtain ⟨e, he, _⟩ := hex
    have := (h.vals k e).mpr he
    rw [hg] at this; cases this
  | some e =>
    have hin := (h.vals k e).mp hg
    by_cases hlt : now < e
    · simp only [hlt, if_true]
      exact ⟨⟨fun _ => ⟨e, hin, hlt⟩, fun _ => trivial⟩, Or.inl h, trivial⟩
    · simp only [hlt, if_false]
      refine ⟨⟨fun hh => (by cases hh), ?_⟩, Or.inr ?_, removeExpiredLoop_ttl now _ tc⟩
      · intro hex
        obtain ⟨e', he', hlt'⟩ := hex
        have := (h.vals k e').mpr he'
        rw [hg] at this
        injection this with this
        omega
      · have := repr_removeExpired tc q now h
        rwa [dropWhile_sorted now q h.sorted] at this

/-! ## Whole runs: the cache is a set with a time to live -/

/-- What a `Get` must answer given the `Add`s so far (`hist`: key and expiry `t + ttl` of every
`Add`, in order): is there an `Add` of this key that has not expired? -/
def specRun (ttl : Nat) : List (K × Nat) → List (TOp K) → List Bool
  | _, [] => []
  | hist, .add t k :: rest => specRun ttl (hist ++ [(k, t + ttl)]) rest
  | hist, .get t k :: rest => hist.any (fun p => decide (p.1 = k) && decide (t < p.2)) :: specRun ttl hist rest

/-- The runs the processor produces: the clock does not go backwards, and a key is added only when
it is not live (every earlier `Add` of it has expired) — `ProcessMessage` creates a subprocessor,
whose end adds the key, only after `Get` answered false. -/
def WellFormed (ttl : Nat) : Nat → List (K × Nat) → List (TOp K) → Prop
  | _, _, [] => True
  | last, hist, .add t k :: rest =>
    last ≤ t ∧ (∀ e, (k, e) ∈ hist → e ≤ t) ∧ WellFormed ttl t (hist ++ [(k, t + ttl)]) rest
  | last, hist, .get t _ :: rest => last ≤ t ∧ WellFormed ttl t hist rest

theorem filter_filter_lt (hist : List (K × Nat)) (r t : Nat) (h : r ≤ t) :
    (hist.filter (fun p => decide (r < p.2))).filter (fun p => decide (t < p.2)) =
      hist.filter (fun p => decide (t < p.2)) := by
  rw [List.filter_filter]
  congr 1
  funext p
  by_cases h1 : t < p.2
  · have : r < p.2 := by omega
    simp [h1, this]
  · simp [h1]

theorem run_spec (ttl : Nat) (httl : 0 < ttl) : ∀ (ops : List (TOp K)) (tc : TCache K) (hist : List (K × Nat))
    (last r : Nat), Repr tc (hist.filter (fun p => decide (r < p.2))) → r ≤ last → tc.ttl = ttl →
    (∀ p ∈ hist, p.2 ≤ last + ttl) → WellFormed ttl last hist ops →
    (tc.run ops).2 = specRun ttl hist ops
  | [], _, _, _, _, _, _, _, _, _ => rfl
  | .add t k :: rest, tc, hist, last, r, hR, hr, ht, hb, hw => by
    obtain ⟨hlt, hfresh, hw'⟩ := hw
    have hmemf : ∀ p, p ∈ hist.filter (fun p => decide (r < p.2)) → p ∈ hist := fun p hp => (List.mem_filter.mp hp).1
    obtain ⟨hA, hAt⟩ := repr_add tc _ t k hR (fun e he => hfresh e (hmemf _ he))
      (fun p hp => by rw [ht]; have := hb p (hmemf p hp); omega)
    rw [filter_filter_lt hist r t (by omega), ht] at hA
    have hnew : (hist ++ [(k, t + ttl)]).filter (fun p => decide (t < p.2)) =
        hist.filter (fun p => decide (t < p.2)) ++ [(k, t + ttl)] := by
      rw [List.filter_append]
      congr 1
      have : t < t + ttl := by omega
      simp [this]
    rw [← hnew] at hA
    show ((tc.add t k).run rest).2 = specRun ttl (hist ++ [(k, t + ttl)]) rest
    exact run_spec ttl httl rest _ _ t t hA (Nat.le_refl _) (by rw [hAt, ht])
      (fun p hp => by
        rcases List.mem_append.mp hp with h | h
        · have := hb p h; omega
        · simp at h; subst h; simp) hw'
  | .get t k :: rest, tc, hist, last, r, hR, hr, ht, hb, hw => by
    obtain ⟨hlt, hw'⟩ := hw
    obtain ⟨hans, hst, hgt⟩ := repr_get tc _ t k hR
    have hb' : ∀ p ∈ hist, p.2 ≤ t + ttl := fun p hp => by have := hb p hp; omega
    have hrest : ((tc.get t k).1.run rest).2 = specRun ttl hist rest := by
      rcases hst with h1 | h1
      · exact run_spec ttl httl rest _ hist t r h1 (by omega) (by rw [hgt, ht]) hb' hw'
      · rw [filter_filter_lt hist r t (by omega)] at h1
        exact run_spec ttl httl rest _ hist t t h1 (Nat.le_refl _) (by rw [hgt, ht]) hb' hw'
    show (tc.get t k).2 :: ((tc.get t k).1.run rest).2 = _
    rw [hrest]
    show _ = hist.any (fun p => decide (p.1 = k) && decide (t < p.2)) :: specRun ttl hist rest
    congr 1
    rw [Bool.eq_iff_iff, hans, List.any_eq_true]
    constructor
    · intro hex
      obtain ⟨e, he, hlt'⟩ := hex
      exact ⟨(k, e), hmemOf he, by simp [hlt']⟩
    · intro hex
      obtain ⟨p, hp, hpp⟩ := hex
      simp only [Bool.and_eq_true, decide_eq_true_eq] at hpp
      refine ⟨p.2, ?_, hpp.2⟩
      have : r < p.2 := by omega
      rw [← hpp.1]
      exact List.mem_filter.mpr ⟨hp, by simp [this]⟩
where
  hmemOf {hist : List (K × Nat)} {r : Nat} {k : K} {e : Nat}
      (h : (k, e) ∈ hist.filter (fun p => decide (r < p.2))) : (k, e) ∈ hist := (List.mem_filter.mp h).1

/-- `timecache_is_ttl_set`: a cache made by `New(size, ttl)` (`size ≥ 1`, `ttl > 0`) answers every
`Get` of every well-formed run exactly as the specification — the key was added and that `Add` has
not expired — whatever the initial size, however often the ring wrapped around or grew. -/
theorem cache_run_spec (size ttl : Nat) (hsize : 1 ≤ size) (httl : 0 < ttl) (ops : List (TOp K))
    (hw : WellFormed ttl 0 [] ops) :
    ((TCache.new size ttl : TCache K).run ops).2 = specRun ttl [] ops :=
  run_spec ttl httl ops _ [] 0 0 (by simpa using repr_new size ttl hsize) (Nat.le_refl _) rfl
    (by intro p hp; cases hp) hw

/-- What a set answers: was the key added? -/
def setRun : List K → List (TOp K) → List Bool
  | _, [] => []
  | keys, .add _ k :: rest => setRun (keys ++ [k]) rest
  | keys, .get _ k :: rest => keys.contains k :: setRun keys rest

/-- While nothing can have expired (every operation happens before `ttl`, the earliest possible expiry)
the specification is plain set membership. -/
theorem specRun_eq_setRun (ttl : Nat) : ∀ (ops : List (TOp K)) (hist : List (K × Nat)),
    (∀ p ∈ hist, ttl ≤ p.2) → (∀ op ∈ ops, op.time < ttl) →
    specRun ttl hist ops = setRun (hist.map (·.1)) ops
  | [], _, _, _ => rfl
  | .add t k :: rest, hist, hh, ho => by
    have := specRun_eq_setRun ttl rest (hist ++ [(k, t + ttl)])
      (fun p hp => by
        rcases List.mem_append.mp hp with h | h
        · exact hh p h
        · simp at h; subst h; simp)
      (fun op hop => ho op (List.mem_cons_of_mem _ hop))
    simpa [specRun, setRun] using this
  | .get t k :: rest, hist, hh, ho => by
    have ht : t < ttl := ho (.get t k) (List.mem_cons_self ..)
    have := specRun_eq_setRun ttl rest hist hh (fun op hop => ho op (List.mem_cons_of_mem _ hop))
    simp only [specRun, setRun, this]
    congr 1
    rw [Bool.eq_iff_iff, List.any_eq_true, List.contains_iff_mem, List.mem_map]
    constructor
    · intro hex
      obtain ⟨p, hp, hpp⟩ := hex
      simp only [Bool.and_eq_true, decide_eq_true_eq] at hpp
      exact ⟨p, hp, hpp.1⟩
    · intro hex
      obtain ⟨p, hp, hpk⟩ := hex
      have := hh p hp
      exact ⟨p, hp, by simp [hpk]; omega⟩

end
end Juno.C19
