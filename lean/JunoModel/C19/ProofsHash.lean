import JunoModel.C19.ModelHash
import JunoModel.C19.ProofsMerkle
import JunoModel.C19.ProofsSched
/-!
C19 — helper lemmas, part 8: the byte strings that are hashed and signed (`ModelHash.lean`).

* every buffer `merkleLeafHash`, `merkleNodeHash` and `buildSignPayload` allocate is exactly as long
  as what is copied into it — no `copy` truncates, for every input length;
* the three preimage layouts are injective and the leaf / node layouts can never coincide, so a
  failure of the idealisation `Ideal` of the tagged hashes IS a SHA-256 collision;
* the signed payload determines (root, committee, nonce);
* `broadcastUnit`'s peer list has exactly `N-2` entries (its `make` is never overrun) and
  `BroadcastTargets()[i]` is the designated broadcaster of shard `i` of the local peer's messages.
-/
namespace Juno.C19

/-! ## `copy` into a buffer that has room -/

theorem copyAt_zeros (pre src : Bytes) (n m : Nat) (hn : pre.length = n) (hm : src.length ≤ m) :
    copyAt (pre ++ List.replicate m 0) n src = (pre ++ src ++ List.replicate (m - src.length) 0, src.length) := by
  subst hn
  unfold copyAt
  have h1 : (pre ++ List.replicate m (0 : UInt8)).length - pre.length = m := by simp
  have h2 : min m src.length = src.length := Nat.min_eq_right hm
  simp only [h1, h2, List.take_length]
  have h3 : (pre ++ List.replicate m (0 : UInt8)).take pre.length = pre := by simp
  have h4 : (pre ++ List.replicate m (0 : UInt8)).drop (pre.length + src.length) =
      List.replicate (m - src.length) 0 := by
    rw [List.drop_append]
    simp
  rw [h3, h4]

theorem copyRange_zeros (pre src : Bytes) (lo hi m : Nat) (hn : pre.length = lo) (hh : hi = lo + src.length)
    (hm : src.length ≤ m) :
    copyRange (pre ++ List.replicate m 0) lo hi src = pre ++ src ++ List.replicate (m - src.length) 0 := by
  subst hn
  subst hh
  unfold copyRange
  have h2 : min (min (pre.length + src.length) (pre ++ List.replicate m (0 : UInt8)).length - pre.length)
      src.length = src.length := by
    simp only [List.length_append, List.length_replicate]
    omega
  simp only [h2, List.take_length]
  have h3 : (pre ++ List.replicate m (0 : UInt8)).take pre.length = pre := by simp
  have h4 : (pre ++ List.replicate m (0 : UInt8)).drop (pre.length + src.length) =
      List.replicate (m - src.length) 0 := by
    rw [List.drop_append]
    simp
  rw [h3, h4]

/-! ## merkle.go: what is hashed -/

/-- `merkleLeafHash` hashes exactly `"<leaf>" ‖ data ‖ "</leaf>"`, for every length of `data`: the
buffer has room for every `copy`. -/
theorem leafPreimageGo_eq (data : Bytes) : leafPreimageGo data = leafOpen ++ data ++ leafClose := by
  simp only [leafPreimageGo]
  rw [show (List.replicate (leafOpen.length + data.length + leafClose.length) (0 : UInt8)) =
      ([] : Bytes) ++ List.replicate (leafOpen.length + data.length + leafClose.length) 0 from rfl]
  rw [copyAt_zeros [] leafOpen 0 _ rfl (by omega)]
  dsimp only
  rw [copyAt_zeros ([] ++ leafOpen) data leafOpen.length _ (by simp) (by omega)]
  dsimp only
  rw [copyAt_zeros ([] ++ leafOpen ++ data) leafClose (leafOpen.length + data.length) _ (by simp) (by omega)]
  dsimp only
  have : leafOpen.length + data.length + leafClose.length - leafOpen.length - data.length - leafClose.length = 0 := by
    omega
  rw [this]
  simp

theorem leafPreimageGo_length (data : Bytes) : (leafPreimageGo data).length = data.length + 13 := by
  rw [leafPreimageGo_eq]; simp [leafOpen, leafClose]

/-- `merkleNodeHash` hashes exactly
`"<node><left>" ‖ left ‖ "</left><right>" ‖ right ‖ "</right></node>"` (105 bytes). -/
theorem nodePreimageGo_eq (l r : Bytes) (hl : l.length = 32) (hr : r.length = 32) :
    nodePreimageGo l r = nodeOpen ++ l ++ nodeMid ++ r ++ nodeClose := by
  simp only [nodePreimageGo]
  rw [show (List.replicate (nodeOpen.length + 32 + nodeMid.length + 32 + nodeClose.length) (0 : UInt8)) =
      ([] : Bytes) ++ List.replicate (nodeOpen.length + 32 + nodeMid.length + 32 + nodeClose.length) 0 from rfl]
  rw [copyAt_zeros [] nodeOpen 0 _ rfl (by omega)]
  dsimp only
  rw [copyAt_zeros ([] ++ nodeOpen) l nodeOpen.length _ (by simp) (by omega)]
  dsimp only
  rw [copyAt_zeros ([] ++ nodeOpen ++ l) nodeMid (nodeOpen.length + l.length) _ (by simp) (by omega)]
  dsimp only
  rw [copyAt_zeros ([] ++ nodeOpen ++ l ++ nodeMid) r (nodeOpen.length + l.length + nodeMid.length) _
    (by simp [Nat.add_assoc]) (by omega)]
  dsimp only
  rw [copyAt_zeros ([] ++ nodeOpen ++ l ++ nodeMid ++ r) nodeClose
    (nodeOpen.length + l.length + nodeMid.length + r.length) _ (by simp [Nat.add_assoc]) (by omega)]
  dsimp only
  have : nodeOpen.length + 32 + nodeMid.length + 32 + nodeClose.length - nodeOpen.length - l.length -
      nodeMid.length - r.length - nodeClose.length = 0 := by omega
  rw [this]
  simp

theorem leafPreimageGo_inj (a b : Bytes) (h : leafPreimageGo a = leafPreimageGo b) : a = b := by
  rw [leafPreimageGo_eq, leafPreimageGo_eq, List.append_assoc, List.append_assoc] at h
  exact List.append_cancel_right (List.append_cancel_left h)

theorem nodePreimageGo_inj (a b c d : Bytes) (ha : a.length = 32) (hb : b.length = 32)
    (hc : c.length = 32) (hd : d.length = 32) (h : nodePreimageGo a b = nodePreimageGo c d) :
    a = c ∧ b = d := by
  rw [nodePreimageGo_eq a b ha hb, nodePreimageGo_eq c d hc hd] at h
  simp only [List.append_assoc] at h
  have h1 := List.append_cancel_left h
  have h2 := List.append_inj h1 (by rw [ha, hc])
  have h3 := List.append_cancel_left h2.2
  have h4 := List.append_inj h3 (by rw [hb, hd])
  exact ⟨h2.1, h4.1⟩

/-- Domain separation: no leaf preimage is a node preimage (they differ in their second byte). -/
theorem leafPreimageGo_ne_node (d l r : Bytes) (hl : l.length = 32) (hr : r.length = 32) :
    leafPreimageGo d ≠ nodePreimageGo l r := by
  rw [leafPreimageGo_eq, nodePreimageGo_eq l r hl hr]
  intro h
  simp [leafOpen, nodeOpen] at h

/-! ## The tagged hashes over ONE hash function -/

/-- A SHA-256 digest. -/
abbrev Digest := { b : Bytes // b.length = 32 }

/-- `merkleLeafHash` / `merkleNodeHash` / `Hash{}` over a hash function `sha` on byte strings. -/
def taggedFns (sha : Bytes → Digest) : HashFns Digest :=
  ⟨fun d => sha (leafPreimageGo d), fun l r => sha (nodePreimageGo l.1 r.1), ⟨List.replicate 32 0, by simp⟩⟩

/-- The idealisation `Ideal` of the two tagged hashes can only fail through a collision of `sha`
itself: the byte layouts add no way of colliding. -/
theorem tagged_ideal_or_collision (sha : Bytes → Digest) :
    Ideal (taggedFns sha) ∨ ∃ x y, x ≠ y ∧ sha x = sha y := by
  by_cases hc : ∃ x y, x ≠ y ∧ sha x = sha y
  · exact Or.inr hc
  · left
    have inj : ∀ x y, sha x = sha y → x = y := by
      intro x y h
      by_cases hxy : x = y
      · exact hxy
      · exact absurd ⟨x, y, hxy, h⟩ hc
    refine ⟨fun a b h => leafPreimageGo_inj a b (inj _ _ h), fun a b c d h => ?_, fun a b c h => ?_⟩
    · obtain ⟨h1, h2⟩ := nodePreimageGo_inj a.1 b.1 c.1 d.1 a.2 b.2 c.2 d.2 (inj _ _ h)
      exact ⟨Subtype.ext h1, Subtype.ext h2⟩
    · exact leafPreimageGo_ne_node a b.1 c.1 b.2 c.2 (inj _ _ h)

/-! ## signing.go: what is signed -/

theorem be64_length (x : Nat) : (be64 x).length = 8 := by simp [be64]

theorem signPayloadGo_eq (root committee : Bytes) (nonce : Nat) (hr : root.length = 32)
    (hc : committee.length = 32) :
    signPayloadGo root committee nonce = sigPrefix ++ root ++ committee ++ be64 nonce ++ sigSuffix := by
  have hb := be64_length nonce
  have hp : sigPrefix.length = 11 := rfl
  have hs : sigSuffix.length = 12 := rfl
  simp only [signPayloadGo]
  rw [show (List.replicate payloadLen (0 : UInt8)) = ([] : Bytes) ++ List.replicate 95 0 from rfl]
  rw [copyRange_zeros [] sigPrefix 0 _ _ rfl (by omega) (by omega)]
  rw [copyRange_zeros ([] ++ sigPrefix) root sigPrefix.length _ _ (by simp) (by omega) (by omega)]
  rw [copyRange_zeros ([] ++ sigPrefix ++ root) committee (sigPrefix.length + 32) _ _ (by simp [hr]) (by omega)
    (by omega)]
  rw [copyRange_zeros ([] ++ sigPrefix ++ root ++ committee) (be64 nonce) (sigPrefix.length + 32 + 32) _ _
    (by simp [hr, hc]) (by omega) (by omega)]
  rw [copyRange_zeros ([] ++ sigPrefix ++ root ++ committee ++ be64 nonce) sigSuffix
    (sigPrefix.length + 32 + 32 + 8) _ _ (by simp [hr, hc, hb]) (by omega) (by omega)]
  have : 95 - sigPrefix.length - root.length - committee.length - (be64 nonce).length - sigSuffix.length = 0 := by
    omega
  rw [this]
  simp

theorem signPayloadGo_length (root committee : Bytes) (nonce : Nat) (hr : root.length = 32)
    (hc : committee.length = 32) : (signPayloadGo root committee nonce).length = 95 := by
  rw [signPayloadGo_eq root committee nonce hr hc]
  simp [hr, hc, be64_length, sigPrefix, sigSuffix]

theorem u8_ofNat_inj (a b : Nat) (ha : a < 256) (hb : b < 256) (h : UInt8.ofNat a = UInt8.ofNat b) : a = b := by
  have := congrArg UInt8.toNat h
  simp [UInt8.toNat_ofNat'] at this
  omega

theorem be64_inj (x y : Nat) (hx : x < 2 ^ 64) (hy : y < 2 ^ 64) (h : be64 x = be64 y) : x = y := by
  simp only [be64, List.cons.injEq, and_true] at h
  obtain ⟨h0, h1, h2, h3, h4, h5, h6, h7⟩ := h
  have e0 := u8_ofNat_inj _ _ (Nat.mod_lt _ (by decide)) (Nat.mod_lt _ (by decide)) h0
  have e1 := u8_ofNat_inj _ _ (Nat.mod_lt _ (by decide)) (Nat.mod_lt _ (by decide)) h1
  have e2 := u8_ofNat_inj _ _ (Nat.mod_lt _ (by decide)) (Nat.mod_lt _ (by decide)) h2
  have e3 := u8_ofNat_inj _ _ (Nat.mod_lt _ (by decide)) (Nat.mod_lt _ (by decide)) h3
  have e4 := u8_ofNat_inj _ _ (Nat.mod_lt _ (by decide)) (Nat.mod_lt _ (by decide)) h4
  have e5 := u8_ofNat_inj _ _ (Nat.mod_lt _ (by decide)) (Nat.mod_lt _ (by decide)) h5
  have e6 := u8_ofNat_inj _ _ (Nat.mod_lt _ (by decide)) (Nat.mod_lt _ (by decide)) h6
  have e7 := u8_ofNat_inj _ _ (Nat.mod_lt _ (by decide)) (Nat.mod_lt _ (by decide)) h7
  omega

/-- The signed bytes determine what was signed. -/
theorem signPayloadGo_inj (r1 c1 r2 c2 : Bytes) (n1 n2 : Nat)
    (hr1 : r1.length = 32) (hc1 : c1.length = 32) (hr2 : r2.length = 32) (hc2 : c2.length = 32)
    (hn1 : n1 < 2 ^ 64) (hn2 : n2 < 2 ^ 64)
    (h : signPayloadGo r1 c1 n1 = signPayloadGo r2 c2 n2) : r1 = r2 ∧ c1 = c2 ∧ n1 = n2 := by
  rw [signPayloadGo_eq r1 c1 n1 hr1 hc1, signPayloadGo_eq r2 c2 n2 hr2 hc2] at h
  simp only [List.append_assoc] at h
  have h1 := List.append_cancel_left h
  have h2 := List.append_inj h1 (by rw [hr1, hr2])
  have h3 := List.append_inj h2.2 (by rw [hc1, hc2])
  have h4 := List.append_inj h3.2 (by rw [be64_length, be64_length])
  exact ⟨h2.1, h3.1, be64_inj n1 n2 hn1 hn2 h4.1⟩

/-! ## processor.go broadcastUnit / scheduler.go BroadcastTargets -/

theorem filter_ne_length (a : Bytes) : ∀ (l : List Bytes), l.Nodup → a ∈ l →
    (l.filter (fun q => !(q == a))).length + 1 = l.length
  | [], _, h => by simp at h
  | x :: t, hnd, hm => by
    have hnd' := (List.nodup_cons.mp hnd)
    by_cases hx : x = a
    · subst hx
      have : t.filter (fun q => !(q == x)) = t := by
        apply List.filter_eq_self.mpr
        intro q hq
        have : q ≠ x := fun e => hnd'.1 (e ▸ hq)
        simp [this]
      simp [this]
    · have hm' : a ∈ t := by
        cases hm with
        | head => exact absurd rfl hx
        | tail _ h => exact h
      have ih := filter_ne_length a t hnd'.2 hm'
      simp [hx, ih]

/-- `broadcastUnit` never overruns its `make([]peer.ID, N-2)`: for a scheduler made by `NewScheduler`
and a publisher for which a subprocessor exists (`ShardIndexForPublisher` succeeded), exactly `N-2`
members are neither the publisher nor the local peer; the list is these members, each once. -/
theorem broadcastPeersGo_spec (id : Bytes) (nodes : List Bytes) (s : Sched)
    (hs : newScheduler id nodes = .ok s) (pub : Bytes) (li : Nat) (h : s.shardIndexFor pub = .ok li) :
    ∃ l, broadcastPeersGo s.peers s.localId pub = some l ∧ l.length = s.peers.length - 2 ∧ l.Nodup ∧
      ∀ q, q ∈ l ↔ (q ∈ s.peers ∧ q ≠ pub ∧ q ≠ s.localId) := by
  obtain ⟨_, _, hnd, hlen, h2, _, _, _, hid, hloc, _⟩ := newScheduler_spec id nodes s hs
  have hne : s.localId ≠ pub := by
    intro e; unfold Sched.shardIndexFor at h; simp [e] at h
  have hpm : pub ∈ s.peers := by
    unfold Sched.shardIndexFor at h
    simp only [hne, if_false] at h
    cases hp : s.peers.idxOf? pub with
    | none => simp [hp] at h
    | some pi => exact (List.idxOf?_eq_some_iff.mp hp).2.1 ▸ List.getElem_mem _
  have hlm : s.localId ∈ s.peers := by
    rw [← hid] at hloc
    exact (List.idxOf?_eq_some_iff.mp hloc).2.1 ▸ List.getElem_mem _
  have hsplit : s.peers.filter (fun q => !(q == pub || q == s.localId)) =
      (s.peers.filter (fun q => !(q == pub))).filter (fun q => !(q == s.localId)) := by
    rw [List.filter_filter]
    congr 1
    funext q
    simp [Bool.not_or, Bool.and_comm]
  have h1 := filter_ne_length pub s.peers hnd hpm
  have hlm' : s.localId ∈ s.peers.filter (fun q => !(q == pub)) := by
    simp [hlm, hne]
  have h3 := filter_ne_length s.localId _ (hnd.filter _) hlm'
  have hcount : (s.peers.filter (fun q => !(q == pub || q == s.localId))).length = s.peers.length - 2 := by
    rw [hsplit]; omega
  refine ⟨s.peers.filter (fun q => !(q == pub || q == s.localId)), ?_, hcount, hnd.filter _, ?_⟩
  · unfold broadcastPeersGo
    have : ¬ s.peers.length < 2 := by omega
    simp only [this, if_false, hcount]
    simp
  · intro q
    simp [List.mem_filter]

/-- `BroadcastTargets()[i]` is `PeerForShardIndex(self, i)`: the publisher's list of targets is, index
by index, the designated broadcaster every receiver checks the origin against. -/
theorem broadcastTargetsGo_spec (id : Bytes) (nodes : List Bytes) (s : Sched)
    (hs : newScheduler id nodes = .ok s) :
    (broadcastTargetsGo s.peers s.localIdx).length = s.total ∧
    ∀ i, i < s.total → ∃ q, (broadcastTargetsGo s.peers s.localIdx)[i]? = some q ∧
      s.peerForShard s.localId i = .ok q := by
  obtain ⟨_, _, hnd, hlen, h2, htot, _, _, hid, hloc, _⟩ := newScheduler_spec id nodes s hs
  rw [← hid] at hloc
  obtain ⟨hll, hlget, _⟩ := List.idxOf?_eq_some_iff.mp hloc
  unfold broadcastTargetsGo
  refine ⟨by rw [List.length_eraseIdx_of_lt hll]; omega, fun i hi => ?_⟩
  unfold Sched.peerForShard
  have : ¬ i ≥ s.total := by omega
  simp only [this, if_false, hloc]
  rw [List.getElem?_eraseIdx]
  by_cases hge : i ≥ s.localIdx
  · have hlt : ¬ i < s.localIdx := by omega
    simp only [hge, hlt, if_true, if_false]
    have : i + 1 < s.peers.length := by omega
    exact ⟨s.peers[i + 1], by rw [List.getElem?_eq_getElem this], by rw [List.getElem?_eq_getElem this]⟩
  · have hlt : i < s.localIdx := by omega
    simp only [hge, hlt, if_true, if_false]
    have : i < s.peers.length := by omega
    exact ⟨s.peers[i], by rw [List.getElem?_eq_getElem this], by rw [List.getElem?_eq_getElem this]⟩
end Juno.C19
