/-
C19 — model, part 5: the processor's finalized cache.

  consensus/propeller/timecache/timecache.go   TimeCache: New, Add, Get, removeExpired, almostFull,
                                               regrowth, increaseIndex

`Processor.finalized` is a `TimeCache[messageKey]`: a map from key to expiry time plus a ring buffer
of (key, expiry) in insertion order, `start` … `end` (exclusive, modulo `size`), which doubles (grows
by 20 % above 1024 slots) when the next insertion would fill it. The rest of the model treats it as
a set (`Proc.finalized`); here the code is transcribed — index arithmetic, the wrap-around, both
branches of `regrowth` — and `ProofsCache.lean` proves that it IS a set with a time to live.

The clock is a parameter: every operation takes the value `time.Now()` returned (a `Nat`); the
theorems assume it does not go backwards (Go's monotonic clock reading). Core Lean only.
-/
namespace Juno.C19

/-- `TimeCache[K]`. `values` is the Go map (an association list with distinct keys), `ring i` is
`timestamps[i]` (`none` = the zero value of a slot never written), `stop` is the field `end`. -/
structure TCache (K : Type) where
  values : List (K × Nat)
  ring : Nat → Option (K × Nat)
  start : Nat
  stop : Nat
  size : Nat
  ttl : Nat

variable {K : Type}

/-- `New(size, expiry)`: `size + 1` slots ("we always leave the last position empty"). -/
def TCache.new (size ttl : Nat) : TCache K := ⟨[], fun _ => none, 0, 0, size + 1, ttl⟩

def mapGet? [DecidableEq K] (m : List (K × Nat)) (k : K) : Option Nat :=
  (m.find? (fun e => e.1 = k)).map (·.2)

/-- `delete(m, k)`. -/
def mapErase [DecidableEq K] (m : List (K × Nat)) (k : K) : List (K × Nat) :=
  m.filter (fun e => ¬ e.1 = k)

/-- `m[k] = v`. -/
def mapSet [DecidableEq K] (m : List (K × Nat)) (k : K) (v : Nat) : List (K × Nat) :=
  (k, v) :: mapErase m k

/-- `increaseIndex`: `(i + 1) % size`. -/
def TCache.inc (tc : TCache K) (i : Nat) : Nat := (i + 1) % tc.size

/-- `removeExpired(now)`: `for start != end { tv := timestamps[start]; if now.Before(tv.expiry) { break };
delete(values, tv.value); increaseIndex(&start) }`. The loop advances `start` towards `end`, so it
runs at most `size` times: `fuel`. A slot that was never written holds the zero time, which no
`now` is before. -/
def TCache.removeExpiredLoop [DecidableEq K] : Nat → Nat → TCache K → TCache K
  | 0, _, tc => tc
  | fuel + 1, now, tc =>
    if tc.start = tc.stop then tc
    else
      match tc.ring tc.start with
      | some (k, e) =>
        if now < e then tc
        else removeExpiredLoop fuel now { tc with values := mapErase tc.values k, start := tc.inc tc.start }
      | none => removeExpiredLoop fuel now { tc with start := tc.inc tc.start }

def TCache.removeExpired [DecidableEq K] (tc : TCache K) (now : Nat) : TCache K :=
  TCache.removeExpiredLoop tc.size now tc

/-- `almostFull`: `(end+1) % size == start`. -/
def TCache.almostFull (tc : TCache K) : Bool := tc.inc tc.stop == tc.start

/-- `regrowth`: twice the size (plus 20 % above 1024 slots); when the live range is contiguous
(`start < end`, which at this point means `start = 0`, `end = size-1`) the slots keep their
indices, otherwise the two pieces `[start, size)` and `[0, end)` are copied to the front. -/
def TCache.regrow (tc : TCache K) : TCache K :=
  let nextSize := if tc.size > 1024 then tc.size * 12 / 10 else tc.size * 2
  if tc.start < tc.stop then
    { tc with ring := fun j => if j < tc.size then tc.ring j else none, size := nextSize }
  else
    let count := tc.size - tc.start
    let nextEnd := count + tc.stop
    { tc with
      ring := fun j => if j < count then tc.ring (tc.start + j)
                       else if j < nextEnd then tc.ring (j - count) else none,
      start := 0, stop := nextEnd, size := nextSize }

/-- `Add(value)` at time `now`. -/
def TCache.add [DecidableEq K] (tc : TCache K) (now : Nat) (k : K) : TCache K :=
  let tc1 := tc.removeExpired now
  let tc2 := if tc1.almostFull then tc1.regrow else tc1
  let e := now + tc2.ttl
  { tc2 with values := mapSet tc2.values k e,
             ring := fun j => if j = tc2.stop then some (k, e) else tc2.ring j,
             stop := tc2.inc tc2.stop }

/-- `Get(value)` at time `now`: present and `expiry.After(now)`; an expired hit triggers
`removeExpired`. -/
def TCache.get [DecidableEq K] (tc : TCache K) (now : Nat) (k : K) : TCache K × Bool :=
  match mapGet? tc.values k with
  | none => (tc, false)
  | some e => if now < e then (tc, true) else (tc.removeExpired now, false)

/-- Operations of a run, each with the clock value it reads. -/
inductive TOp (K : Type) where
  | add (now : Nat) (k : K)
  | get (now : Nat) (k : K)

def TOp.time : TOp K → Nat
  | .add t _ => t
  | .get t _ => t

/-- A run: the final cache and the answers of the `Get`s, in order. -/
def TCache.run [DecidableEq K] : TCache K → List (TOp K) → TCache K × List Bool
  | tc, [] => (tc, [])
  | tc, .add t k :: rest => TCache.run (tc.add t k) rest
  | tc, .get t k :: rest =>
    let r := tc.get t k
    let rr := TCache.run r.1 rest
    (rr.1, r.2 :: rr.2)

end Juno.C19
