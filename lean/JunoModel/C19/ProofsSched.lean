import JunoModel.C19.ProofsValidator
/-!
C19 — helper lemmas, part 5: the scheduler `NewScheduler` builds (sorted, duplicate-free peer
list; shard ↔ peer assignment and its inverse; completeness of the origin check).
-/
namespace Juno.C19

/-! ### `lexLt` is a strict total order on byte strings -/

theorem lexLt_irrefl : ∀ a : Bytes, lexLt a a = false
  | [] => rfl
  | x :: xs => by simp [lexLt, lexLt_irrefl xs]

theorem lexLt_trichotomy : ∀ a b : Bytes, lexLt a b = true ∨ a = b ∨ lexLt b a = true
  | [], [] => Or.inr (Or.inl rfl)
  | [], _ :: _ => Or.inl rfl
  | _ :: _, [] => Or.inr (Or.inr rfl)
  | x :: xs, y :: ys => by
    simp only [lexLt]
    by_cases h1 : x < y
    · simp [h1]
    · by_cases h2 : y < x
      · simp [h1, h2]
      · have hxy : x = y := by
          apply UInt8.toNat_inj.mp
          rw [UInt8.lt_iff_toNat_lt] at h1 h2
          omega
        subst hxy
        simp only [h1, if_false]
        rcases lexLt_trichotomy xs ys with h | h | h
        · exact Or.inl h
        · exact Or.inr (Or.inl (by rw [h]))
        · exact Or.inr (Or.inr h)

theorem lexLt_trans : ∀ a b c : Bytes, lexLt a b = true → lexLt b c = true → lexLt a c = true
  | [], [], _, h, _ => by simp [lexLt] at h
  | [], _ :: _, [], _, h => by simp [lexLt] at h
  | [], _ :: _, _ :: _, _, _ => rfl
  | _ :: _, [], _, h, _ => by simp [lexLt] at h
  | _ :: _, _ :: _, [], _, h => by simp [lexLt] at h
  | x :: xs, y :: ys, z :: zs, h1, h2 => by
    simp only [lexLt, UInt8.lt_iff_toNat_lt] at h1 h2 ⊢
    by_cases a1 : x.toNat < y.toNat
    · by_cases a2 : y.toNat < z.toNat
      · have : x.toNat < z.toNat := by omega
        simp [this]
      · by_cases a3 : z.toNat < y.toNat
        · simp [a2, a3] at h2
        · have : y = z := UInt8.toNat_inj.mp (by omega)
          subst this; simp [a1]
    · by_cases b1 : y.toNat < x.toNat
      · simp [a1, b1] at h1
      · have hxy : x = y := UInt8.toNat_inj.mp (by omega)
        subst hxy
        simp only [a1, if_false] at h1
        by_cases a2 : x.toNat < z.toNat
        · simp [a2]
        · by_cases a3 : z.toNat < x.toNat
          · simp [a2, a3] at h2
          · simp only [a2, a3, if_false] at h2 ⊢
            exact lexLt_trans xs ys zs h1 h2

theorem lexLt_asymm (a b : Bytes) (h : lexLt a b = true) : lexLt b a = false := by
  cases hba : lexLt b a with
  | false => rfl
  | true => have := lexLt_trans a b a h hba; rw [lexLt_irrefl] at this; cases this

/-! ### insertion sort -/

/-- Non-decreasing. -/
def SortedLe (l : List Bytes) : Prop := l.Pairwise (fun a b => lexLt b a = false)
/-- Strictly increasing. -/
def SortedLt (l : List Bytes) : Prop := l.Pairwise (fun a b => lexLt a b = true)

theorem mem_insertSorted (x : Bytes) : ∀ (l : List Bytes) (y : Bytes), y ∈ insertSorted x l ↔ y = x ∨ y ∈ l
  | [], y => by simp [insertSorted]
  | z :: zs, y => by
    simp only [insertSorted]
    split
    · simp only [List.mem_cons, mem_insertSorted x zs y]
      constructor
      · rintro (h | h | h)
        · exact Or.inr (Or.inl h)
        · exact Or.inl h
        · exact Or.inr (Or.inr h)
      · rintro (h | h | h)
        · exact Or.inr (Or.inl h)
        · exact Or.inl h
        · exact Or.inr (Or.inr h)
    · simp

theorem insertSorted_length (x : Bytes) : ∀ l : List Bytes, (insertSorted x l).length = l.length + 1
  | [] => rfl
  | z :: zs => by simp only [insertSorted]; split <;> simp [insertSorted_length x zs]

theorem sortedLe_insert (x : Bytes) : ∀ l : List Bytes, SortedLe l → SortedLe (insertSorted x l)
  | [], _ => by simp [insertSorted, SortedLe]
  | y :: ys, h => by
    simp only [SortedLe, List.pairwise_cons] at h
    simp only [insertSorted]
    by_cases hyx : lexLt y x = true
    · simp only [hyx, if_true, SortedLe, List.pairwise_cons]
      refine ⟨?_, sortedLe_insert x ys h.2⟩
      intro z hz
      rcases (mem_insertSorted x ys z).mp hz with e | e
      · rw [e]; exact lexLt_asymm y x hyx
      · exact h.1 z e
    · have hyx' : lexLt y x = false := by simpa using hyx
      rw [if_neg hyx]
      simp only [SortedLe, List.pairwise_cons]
      refine ⟨?_, h⟩
      intro z hz
      rcases List.mem_cons.mp hz with e | e
      · rw [e]; exact hyx'
      · -- y ≤ z and not (y < x): z < x would give y < x
        cases hzx : lexLt z x with
        | false => rfl
        | true =>
          exfalso
          have hzy := h.1 z e
          rcases lexLt_trichotomy y z with t | t | t
          · rw [lexLt_trans y z x t hzx] at hyx'; cases hyx'
          · rw [t, hzx] at hyx'; cases hyx'
          · rw [t] at hzy; cases hzy

theorem sortIds_sorted : ∀ l : List Bytes, SortedLe (sortIds l)
  | [] => by simp [sortIds, SortedLe]
  | x :: xs => by
    have := sortIds_sorted xs
    simp only [sortIds, List.foldr_cons] at this ⊢
    exact sortedLe_insert x _ this

theorem sortIds_length : ∀ l : List Bytes, (sortIds l).length = l.length
  | [] => rfl
  | x :: xs => by
    have := sortIds_length xs
    simp only [sortIds, List.foldr_cons] at this ⊢
    rw [insertSorted_length, this]; rfl

theorem mem_sortIds : ∀ (l : List Bytes) (y : Bytes), y ∈ sortIds l ↔ y ∈ l
  | [], y => by simp [sortIds]
  | x :: xs, y => by
    have := mem_sortIds xs y
    simp only [sortIds, List.foldr_cons] at this ⊢
    rw [mem_insertSorted, this]; simp

/-- Sorted and without equal neighbours ⇒ strictly increasing. -/
theorem sortedLt_of_noAdjacentDup : ∀ l : List Bytes, SortedLe l → hasAdjacentDup l = false → SortedLt l
  | [], _, _ => by simp [SortedLt]
  | [_], _, _ => by simp [SortedLt]
  | a :: b :: rest, hs, hd => by
    simp only [hasAdjacentDup, Bool.or_eq_false_iff, beq_eq_false_iff_ne] at hd
    simp only [SortedLe, List.pairwise_cons] at hs
    have ih := sortedLt_of_noAdjacentDup (b :: rest) (by simpa [SortedLe] using hs.2) hd.2
    have hab : lexLt a b = true := by
      rcases lexLt_trichotomy a b with t | t | t
      · exact t
      · exact absurd t hd.1
      · rw [hs.1 b (by simp)] at t; cases t
    simp only [SortedLt, List.pairwise_cons] at ih ⊢
    refine ⟨?_, ih⟩
    intro c hc
    rcases List.mem_cons.mp hc with e | e
    · rw [e]; exact hab
    · exact lexLt_trans a b c hab (ih.1 c e)

theorem nodup_of_sortedLt (l : List Bytes) (h : SortedLt l) : l.Nodup := by
  rw [List.nodup_iff_pairwise_ne]
  exact h.imp (fun {a b} hab e => by rw [e, lexLt_irrefl] at hab; cases hab)

/-- Everything the other theorems assume of a scheduler holds for every scheduler `NewScheduler`
returns. -/
theorem newScheduler_spec (id : Bytes) (nodes : List Bytes) (s : Sched)
    (h : newScheduler id nodes = .ok s) :
    s.peers = sortIds nodes ∧ SortedLt s.peers ∧ s.peers.Nodup ∧
    s.peers.length = nodes.length ∧ 2 ≤ nodes.length ∧
    s.peers.length = s.total + 1 ∧ 1 ≤ s.k ∧ s.k = max 1 ((nodes.length - 1) / 3) ∧
    s.localId = id ∧ s.peers.idxOf? id = some s.localIdx ∧
    (∀ q, q ∈ s.peers ↔ q ∈ nodes) := by
  unfold newScheduler at h
  by_cases h2 : nodes.length < 2
  · simp [h2] at h
  · simp only [h2, if_false] at h
    cases hi : (sortIds nodes).idxOf? id with
    | none => simp [hi] at h
    | some idx =>
      simp only [hi] at h
      by_cases hd : hasAdjacentDup (sortIds nodes) = true
      · simp [hd] at h
      · simp only [hd, Bool.false_eq_true, if_false] at h
        injection h with h
        subst h
        have hlt := sortedLt_of_noAdjacentDup _ (sortIds_sorted nodes) (by simpa using hd)
        have hlen := sortIds_length nodes
        simp only [Sched.total]
        refine ⟨trivial, hlt, nodup_of_sortedLt _ hlt, hlen, by omega, ?_, by omega, by rw [hlen], trivial, hi,
          fun q => mem_sortIds nodes q⟩
        rw [hlen]
        have : max 1 ((nodes.length - 1) / 3) ≤ nodes.length - 1 := by omega
        omega


/-! ### shard ↔ peer assignment of a scheduler made by `NewScheduler` -/

/-- `ShardIndexForPublisher` is the inverse of `PeerForShardIndex`: the index it returns for the
local peer is in range and its designated broadcaster is the local peer. -/
theorem shardIndexFor_inverse (s : Sched) (hlen : s.peers.length = s.total + 1)
    (hloc : s.peers.idxOf? s.localId = some s.localIdx) (pub : Bytes) (hp : pub ∈ s.peers)
    (hne : pub ≠ s.localId) :
    ∃ i, s.shardIndexFor pub = .ok i ∧ i < s.total ∧ s.peerForShard pub i = .ok s.localId := by
  obtain ⟨hll, hlget, _⟩ := List.idxOf?_eq_some_iff.mp hloc
  have hsome : ∃ pi, s.peers.idxOf? pub = some pi := by
    cases h : s.peers.idxOf? pub with
    | none => rw [List.idxOf?_eq_none_iff] at h; exact absurd hp h
    | some pi => exact ⟨pi, rfl⟩
  obtain ⟨pi, hpi⟩ := hsome
  obtain ⟨hpilt, hpiget, _⟩ := List.idxOf?_eq_some_iff.mp hpi
  have hdiff : s.localIdx ≠ pi := by
    intro e; subst e; rw [hlget] at hpiget; exact hne hpiget.symm
  refine ⟨if s.localIdx ≥ pi then s.localIdx - 1 else s.localIdx, ?_, ?_, ?_⟩
  · unfold Sched.shardIndexFor
    have : ¬ s.localId = pub := fun e => hne e.symm
    simp [this, hpi]
  · split <;> omega
  · unfold Sched.peerForShard
    have hr : ¬ ((if s.localIdx ≥ pi then s.localIdx - 1 else s.localIdx) ≥ s.total) := by
      split <;> omega
    simp only [hr, if_false, hpi]
    have hidx : (if (if s.localIdx ≥ pi then s.localIdx - 1 else s.localIdx) ≥ pi then
        (if s.localIdx ≥ pi then s.localIdx - 1 else s.localIdx) + 1
        else (if s.localIdx ≥ pi then s.localIdx - 1 else s.localIdx)) = s.localIdx := by
      by_cases h : s.localIdx ≥ pi
      · simp only [h, if_true]
        have : s.localIdx - 1 ≥ pi := by omega
        simp only [this, if_true]; omega
      · simp only [h, if_false]
    rw [hidx, List.getElem?_eq_getElem hll, hlget]

/-- The sender the protocol designates for shard `i` of `pub`, as seen by the local peer: the
designated broadcaster, or the publisher itself when the local peer is the designated one. -/
def Sched.legitSender (s : Sched) (pub : Bytes) (i : Nat) : Option Bytes :=
  match s.peerForShard pub i with
  | .ok q => some (if q = s.localId then pub else q)
  | .error _ => none

/-- Completeness of the origin check. -/
theorem origin_accepts_legit (s : Sched) (pub : Bytes) (i : Nat) (sender : Bytes)
    (hne : pub ≠ s.localId) (h : s.legitSender pub i = some sender) :
    s.validateOrigin sender pub i = .ok () := by
  unfold Sched.legitSender at h
  cases hp : s.peerForShard pub i with
  | error e => simp [hp] at h
  | ok q =>
    simp only [hp, Option.some.injEq] at h
    unfold Sched.validateOrigin
    by_cases hq : q = s.localId
    · simp only [hq, if_true] at h
      subst h
      simp [hne, hp, hq]
    · simp only [hq, if_false] at h
      subst h
      simp [hq, hne, hp]

end Juno.C19
