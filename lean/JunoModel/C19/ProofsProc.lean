import JunoModel.C19.ModelProc
import JunoModel.C19.ProofsSched
/-!
C19 — helper lemmas, part 6: the wire form of a unit (UnitFromProto / ToProto) and the processor
(subprocessor state machine, routing by message key, finalized cache): invariants over any sequence
of units, safety of the build, build-at-most-once, a rejected unit is a no-op, totality.
-/
namespace Juno.C19

/-! ### unit.go: UnitFromProto / ToProto -/

theorem fix32_of_length (b : Bytes) (h : b.length = 32) : fix32 b = b := by
  unfold fix32
  rw [List.take_append_of_le_length (by omega), List.take_of_length_le (by omega)]

/-- With the guard (a0ebef4) UnitFromProto never panics. -/
theorem unitFromProto_total (pu : ProtoUnit) : unitFromProto true pu ≠ .panic := by
  unfold unitFromProto
  cases hs : pu.shards with
  | nil => simp
  | cons s0 rest =>
    simp only [if_true]
    split
    · simp
    · split <;> simp

/-- UnitFromProto before a0ebef4 panicked exactly on a unit without shards, or on one that passes
the shard-length loop and has a Merkle root shorter than 32 bytes. -/
theorem unitFromProto_pinned_panic_iff (pu : ProtoUnit) :
    unitFromProto false pu = .panic ↔
      (pu.shards = [] ∨
       ((pu.shards.take (pu.shards.length - 1)).any (fun s => s.length != (pu.shards.headD []).length) = false ∧
        pu.merkleRoot.length < 32)) := by
  unfold unitFromProto
  cases hs : pu.shards with
  | nil => simp
  | cons s0 rest =>
    simp only [List.headD_cons, Bool.false_eq_true, if_false]
    by_cases h1 : ((s0 :: rest).take ((s0 :: rest).length - 1)).any (fun s => s.length != s0.length) = true
    · rw [if_pos h1]
      constructor
      · intro h; cases h
      · rintro (h | ⟨h, _⟩)
        · cases h
        · rw [h1] at h; cases h
    · have h1' : ((s0 :: rest).take ((s0 :: rest).length - 1)).any (fun s => s.length != s0.length) = false := by
        simpa using h1
      rw [if_neg h1]
      by_cases h2 : pu.merkleRoot.length < 32
      · rw [if_pos h2]
        exact ⟨fun _ => Or.inr ⟨h1', h2⟩, fun _ => rfl⟩
      · rw [if_neg h2]
        constructor
        · intro h; cases h
        · rintro (h | ⟨_, h⟩)
          · cases h
          · exact absurd h h2

/-- The error UnitFromProto (since a0ebef4) returns, in the order the code checks: no shards, then
the root length, then the shard lengths. -/
theorem unitFromProto_guard_errors (pu : ProtoUnit) :
    (pu.shards = [] → unitFromProto true pu = .err .noShards) ∧
    (pu.shards ≠ [] → pu.merkleRoot.length ≠ 32 → unitFromProto true pu = .err .rootLen) := by
  unfold unitFromProto
  constructor
  · intro h; simp [h]
  · intro h1 h2
    cases hs : pu.shards with
    | nil => exact absurd hs h1
    | cons s0 rest => simp [h2]

/-- A unit as the protocol makes them: at least one shard, all of one length, 32-byte hashes and
committee id, index and nonce in their integer ranges. -/
structure WireOk (u : PUnit Bytes) : Prop where
  shards_ne : u.shards ≠ []
  shards_len : ∀ s ∈ u.shards, s.length = (u.shards.headD []).length
  root_len : u.root.length = 32
  proof_len : ∀ s ∈ u.proof, s.length = 32
  committee_len : u.committee.length = 32
  index_lt : u.index < 2 ^ 32
  nonce_lt : u.nonce < 2 ^ 64

theorem map_fix32_id : ∀ l : List Bytes, (∀ s ∈ l, s.length = 32) → l.map fix32 = l
  | [], _ => rfl
  | a :: l, h => by
    simp only [List.map_cons]
    rw [fix32_of_length a (h a (by simp)), map_fix32_id l (fun s hs => h s (by simp [hs]))]

/-- Round trip: `UnitFromProto(unit.ToProto()) = unit` for every well-formed unit, with or
without the guard. -/
theorem unitFromProto_toProto (guard : Bool) (u : PUnit Bytes) (h : WireOk u) :
    unitFromProto guard (unitToProto u) = .ok u := by
  obtain ⟨h1, h2, h3, h4, h5, h6, h7⟩ := h
  unfold unitFromProto unitToProto
  cases hs : u.shards with
  | nil => exact absurd hs h1
  | cons s0 rest =>
    simp only
    have hany : ((s0 :: rest).take ((s0 :: rest).length - 1)).any (fun s => s.length != s0.length) = false := by
      rw [List.any_eq_false]
      intro x hx
      have := h2 x (by rw [hs]; exact List.mem_of_mem_take hx)
      rw [hs] at this
      simp at this ⊢; exact this
    have hroot : (u.root.length != 32) = false := by simp [h3]
    have hfinal : (⟨fix32 u.committee, u.publisher, u.root.take 32, u.proof.map fix32, u.sig,
        u.index % 2 ^ 32, s0 :: rest, u.nonce % 2 ^ 64⟩ : PUnit Bytes) = u := by
      cases u with
      | mk committee publisher root proof sig index shards nonce =>
        simp only at hs h3 h4 h5 h6 h7 ⊢
        subst hs
        rw [fix32_of_length committee h5, List.take_of_length_le (by omega), map_fix32_id proof h4,
          Nat.mod_eq_of_lt h6, Nat.mod_eq_of_lt h7]
    cases guard
    · simp only [Bool.false_eq_true, if_false]
      rw [if_neg (by rw [hany]; simp), if_neg (by omega), hfinal]
    · simp only [if_true]
      rw [if_neg (by rw [hroot]; simp), if_neg (by rw [hany]; simp), hfinal]

/-- What UnitFromProto lets through always carries at least one shard and a 32-byte root (so
`units[i].ShardData[0]` in ConstructMessageFromUnits cannot fail on a parsed unit). -/
theorem unitFromProto_ok_shape (guard : Bool) (pu : ProtoUnit) (u : PUnit Bytes)
    (h : unitFromProto guard pu = .ok u) : u.shards ≠ [] ∧ u.root.length = 32 ∧
      (∀ s ∈ u.proof, s.length = 32) ∧ u.committee.length = 32 ∧ u.index < 2 ^ 32 := by
  have hfix : ∀ b : Bytes, (fix32 b).length = 32 := by
    intro b; unfold fix32; simp [List.length_take]
  have hshape : ∀ s0 rest, pu.shards = s0 :: rest → 32 ≤ pu.merkleRoot.length →
      u = ⟨fix32 pu.committeeId, pu.publisher, pu.merkleRoot.take 32, pu.siblings.map fix32, pu.signature,
        pu.index % 2 ^ 32, pu.shards, pu.nonce % 2 ^ 64⟩ →
      u.shards ≠ [] ∧ u.root.length = 32 ∧ (∀ s ∈ u.proof, s.length = 32) ∧ u.committee.length = 32 ∧
        u.index < 2 ^ 32 := by
    intro s0 rest hs hlen hu
    subst hu
    refine ⟨by simp [hs], by simp [List.length_take]; omega, ?_, hfix _, Nat.mod_lt _ (by decide)⟩
    intro s hs'
    simp only [List.mem_map] at hs'
    obtain ⟨b, _, rfl⟩ := hs'
    exact hfix b
  unfold unitFromProto at h
  cases hs : pu.shards with
  | nil => simp only [hs] at h; split at h <;> cases h
  | cons s0 rest =>
    simp only [hs] at h
    cases guard
    · simp only [Bool.false_eq_true, if_false] at h
      split at h
      · cases h
      · split at h
        · cases h
        · rename_i hlt
          injection h with h
          exact hshape s0 rest hs (by omega) (by rw [← h, hs])
    · simp only [if_true] at h
      split at h
      · cases h
      · rename_i hr
        split at h
        · cases h
        · injection h with h
          have : pu.merkleRoot.length = 32 := by simpa using hr
          exact hshape s0 rest hs (by omega) (by rw [← h, hs])


/-! ### processor.go: subprocessor and routing -/

variable {H : Type}

theorem find_filter_ne_gen {α : Type} [DecidableEq H] (key key' : MsgKey H) (h : key' ≠ key) :
    ∀ r : List (MsgKey H × α), (r.filter (fun e => e.1 ≠ key)).find? (fun e => e.1 = key') =
      r.find? (fun e => e.1 = key')
  | [] => rfl
  | e :: r => by
    have ih := find_filter_ne_gen key key' h r
    by_cases he : e.1 = key
    · have hne : ¬ e.1 = key' := by rw [he]; exact fun x => h x.symm
      rw [List.filter_cons_of_neg (by simp [he]), List.find?_cons_of_neg (by simp [hne]), ih]
    · rw [List.filter_cons_of_pos (by simp [he])]
      by_cases he' : e.1 = key'
      · rw [List.find?_cons_of_pos (by simp [he']), List.find?_cons_of_pos (by simp [he'])]
      · rw [List.find?_cons_of_neg (by simp [he']), List.find?_cons_of_neg (by simp [he']), ih]

theorem find_filter_self {α : Type} [DecidableEq H] (key : MsgKey H) :
    ∀ r : List (MsgKey H × α), (r.filter (fun e => e.1 ≠ key)).find? (fun e => e.1 = key) = none
  | [] => rfl
  | e :: r => by
    by_cases he : e.1 = key
    · rw [List.filter_cons_of_neg (by simp [he])]; exact find_filter_self key r
    · rw [List.filter_cons_of_pos (by simp [he]), List.find?_cons_of_neg (by simp [he])]
      exact find_filter_self key r

theorem findSub_setSub [DecidableEq H] (p : Proc H) (key key' : MsgKey H) (st : SubState H) :
    (p.setSub key st).findSub key' = if key' = key then some st else p.findSub key' := by
  unfold Proc.setSub Proc.findSub
  by_cases h : key' = key
  · subst h; simp
  · have h' : ¬ key = key' := fun e => h e.symm
    simp only [h, if_false]
    rw [List.find?_cons_of_neg (by simp [h']), find_filter_ne_gen key key' h]

theorem findSub_dropSub [DecidableEq H] (p : Proc H) (key key' : MsgKey H) :
    (p.dropSub key).findSub key' = if key' = key then none else p.findSub key' := by
  unfold Proc.dropSub Proc.findSub
  by_cases h : key' = key
  · subst h; simp [find_filter_self]
  · simp only [h, if_false]; rw [find_filter_ne_gen key key' h]

/-- Invariant of a stored subprocessor of message key `key`: every unit it holds belongs to that
message and carries a shard; it has one slot per shard index; it has accepted at least one unit. -/
def SubInv (s : Sched) (key : MsgKey H) (st : SubState H) : Prop :=
  (∀ u, some u ∈ st.units → keyOf u = key ∧ u.shards ≠ []) ∧ st.units.length = s.total ∧ 1 ≤ st.count

def ProcInv [DecidableEq H] (s : Sched) (p : Proc H) : Prop :=
  ∀ key st, p.findSub key = some st → SubInv s key st

theorem procInv_empty [DecidableEq H] (s : Sched) : ProcInv s (Proc.empty : Proc H) := by
  intro key st h; simp [Proc.empty, Proc.findSub] at h

theorem rootUnit_mem (cfg : Cfg) : ∀ (U : List (Option (PUnit H))) (u0 : PUnit H),
    rootUnit cfg U = some u0 → some u0 ∈ U := by
  intro U u0 h
  unfold rootUnit at h
  split at h
  · have : u0 ∈ U.filterMap id := List.mem_of_mem_head? (by rw [h]; rfl)
    simpa using this
  · cases U with
    | nil => simp at h
    | cons a rest => simp only [List.headD_cons] at h; rw [h]; simp

theorem validate_shards_ne [DecidableEq H] (cfg : Cfg) (f : HashFns H) (sg : SigScheme H) (s : Sched)
    (publisher : Bytes) (st st' : VState) (u : PUnit H) (sender : Bytes)
    (h : validate cfg f sg s publisher st u sender = .ok st') : u.shards ≠ [] := by
  obtain ⟨_, _, hd, _⟩ := validate_ok_inv cfg f sg s publisher st st' u sender h
  unfold verifyDataShards at hd
  intro h0
  rw [h0] at hd
  simp at hd

/-- The units a subprocessor holds after accepting `u`. -/
theorem units_set_inv (key : MsgKey H) (units : List (Option (PUnit H))) (u : PUnit H)
    (hk : keyOf u = key) (hs : u.shards ≠ [])
    (h : ∀ w, some w ∈ units → keyOf w = key ∧ w.shards ≠ []) :
    ∀ w, some w ∈ units.set u.index (some u) → keyOf w = key ∧ w.shards ≠ [] := by
  intro w hw
  rcases List.mem_or_eq_of_mem_set hw with h1 | h1
  · exact h w h1
  · injection h1 with h1; subst h1; exact ⟨hk, hs⟩


/-- The units part of `SubInv` (also true of a fresh subprocessor). -/
def UnitsInv (s : Sched) (key : MsgKey H) (st : SubState H) : Prop :=
  (∀ u, some u ∈ st.units → keyOf u = key ∧ u.shards ≠ []) ∧ st.units.length = s.total

theorem unitsInv_fresh (s : Sched) (key : MsgKey H) : UnitsInv s key (SubState.fresh s.total : SubState H) := by
  refine ⟨?_, by simp [SubState.fresh]⟩
  intro u hu
  simp [SubState.fresh, List.mem_replicate] at hu

/-- Inversion of `subStep` when the message is built in this step: it was the first stage, the unit
was accepted, and the message / local shard / local proof are what ConstructMessageFromUnits
returned for the units held plus this one; the local unit, if it is broadcast now, carries them. -/
theorem subStep_built_inv [DecidableEq H] (cfg : Cfg) (pc : PCfg) (f : HashFns H) (rs : RS)
    (sg : SigScheme H) (s : Sched) (publisher : Bytes) (li : Nat) (st : SubState H) (u : PUnit H)
    (sender : Bytes) (bc : List (PUnit H)) (m : Bytes)
    (h : (∃ st', subStep cfg pc f rs sg s publisher li st u sender = .running st' bc (some m)) ∨
         (∃ e, subStep cfg pc f rs sg s publisher li st u sender = .finished e bc (some m))) :
    st.built = none ∧ (∃ v', validate cfg f sg s publisher st.v u sender = .ok v') ∧
    ∃ shard proof, construct cfg f rs (st.units.set u.index (some u)) li s.k s.c = .ok (m, shard, proof) ∧
      ∀ lu ∈ bc, lu = u ∨ (lu.shards = [shard] ∧ lu.proof = proof ∧ lu.index = li ∧
        ∃ u0, some u0 ∈ st.units.set u.index (some u) ∧ keyOf lu = keyOf u0 ∧ lu.sig = u0.sig) := by
  unfold subStep at h
  cases hb : st.built with
  | some x =>
    simp only [hb] at h
    cases hv : validate cfg f sg s publisher st.v u sender with
    | error e => simp [hv] at h
    | ok v' =>
      simp only [hv] at h
      by_cases c1 : u.index = li
      · simp [c1] at h
      · by_cases c2 : st.count + 1 = s.receiveThreshold
        · simp [c1, c2] at h
        · simp [c1, c2] at h
  | none =>
    simp only [hb] at h
    cases hv : validate cfg f sg s publisher st.v u sender with
    | error e =>
      simp only [hv] at h
      by_cases c0 : st.count = 0
      · simp [c0] at h
      · simp [c0] at h
    | ok v' =>
      simp only [hv] at h
      refine ⟨rfl, ⟨v', rfl⟩, ?_⟩
      by_cases ck : st.count + 1 ≠ s.k
      · simp [ck] at h
      · simp only [ck, if_false] at h
        cases hc : construct cfg f rs (st.units.set u.index (some u)) li s.k s.c with
        | panic => simp [hc] at h
        | err e => simp [hc] at h
        | ok r =>
          obtain ⟨msg, shard, proof⟩ := r
          simp only [hc] at h
          by_cases hsent : (st.localSent || (!st.localSent && li == u.index)) = true
          · simp only [hsent, if_true] at h
            have hbc : ∀ lu ∈ (if (!st.localSent && li == u.index) = true then [u] else []), lu = u := by
              intro lu hlu; split at hlu <;> simp at hlu; exact hlu
            by_cases ct : st.count + 1 = s.receiveThreshold
            · simp only [ct, if_true] at h
              rcases h with ⟨st', h⟩ | ⟨e, h⟩
              · cases h
              · injection h with _ h2 h3
                injection h3 with h3
                subst h3; subst h2
                exact ⟨shard, proof, rfl, fun lu hlu => Or.inl (hbc lu hlu)⟩
            · simp only [ct, if_false] at h
              rcases h with ⟨st', h⟩ | ⟨e, h⟩
              · injection h with _ h2 h3
                injection h3 with h3
                subst h3; subst h2
                exact ⟨shard, proof, rfl, fun lu hlu => Or.inl (hbc lu hlu)⟩
              · cases h
          · simp only [hsent, Bool.false_eq_true, if_false] at h
            have hnot : (!st.localSent && li == u.index) = false := by
              cases hx : (!st.localSent && li == u.index) with
              | false => rfl
              | true => rw [hx] at hsent; simp at hsent
            cases hfu : fillUnit pc (st.units.set u.index (some u)) with
            | none => simp [hfu] at h
            | some u0 =>
              have hu0mem : some u0 ∈ st.units.set u.index (some u) := by
                unfold fillUnit at hfu
                split at hfu
                · have : u0 ∈ (st.units.set u.index (some u)).filterMap id :=
                    List.mem_of_mem_head? (by rw [hfu]; rfl)
                  simpa using this
                · cases hl : st.units.set u.index (some u) with
                  | nil => rw [hl] at hfu; simp at hfu
                  | cons a rest => rw [hl] at hfu; simp only [List.headD_cons] at hfu; rw [hfu]; simp
              simp only [hfu, hnot, Bool.false_eq_true, if_false, List.nil_append] at h
              have hlu : ∀ lu ∈ [(⟨u0.committee, u0.publisher, u0.root, proof, u0.sig, li, [shard], u0.nonce⟩ : PUnit H)],
                  lu = u ∨ (lu.shards = [shard] ∧ lu.proof = proof ∧ lu.index = li ∧
                    ∃ w, some w ∈ st.units.set u.index (some u) ∧ keyOf lu = keyOf w ∧ lu.sig = w.sig) := by
                intro lu hlu
                simp only [List.mem_singleton] at hlu
                subst hlu
                exact Or.inr ⟨rfl, rfl, rfl, u0, hu0mem, rfl, rfl⟩
              by_cases ct : st.count + 1 + 1 = s.receiveThreshold
              · simp only [ct, if_true] at h
                rcases h with ⟨st', h⟩ | ⟨e, h⟩
                · cases h
                · injection h with _ h2 h3
                  injection h3 with h3
                  subst h3; subst h2
                  exact ⟨shard, proof, rfl, hlu⟩
              · simp only [ct, if_false] at h
                rcases h with ⟨st', h⟩ | ⟨e, h⟩
                · injection h with _ h2 h3
                  injection h3 with h3
                  subst h3; subst h2
                  exact ⟨shard, proof, rfl, hlu⟩
                · cases h


theorem subStep_running_inv [DecidableEq H] (cfg : Cfg) (pc : PCfg) (f : HashFns H) (rs : RS)
    (sg : SigScheme H) (s : Sched) (key : MsgKey H) (li : Nat) (st st' : SubState H) (u : PUnit H)
    (sender : Bytes) (bc : List (PUnit H)) (b : Option Bytes)
    (hU : UnitsInv s key st) (hk : keyOf u = key) (hc : st.built ≠ none → 1 ≤ st.count)
    (h : subStep cfg pc f rs sg s key.publisher li st u sender = .running st' bc b) :
    UnitsInv s key st' ∧ 1 ≤ st'.count := by
  have hset : UnitsInv s key { st with units := st.units.set u.index (some u) } →
      True := fun _ => trivial
  unfold subStep at h
  cases hb : st.built with
  | some x =>
    have hc1 := hc (by rw [hb]; simp)
    simp only [hb] at h
    cases hv : validate cfg f sg s key.publisher st.v u sender with
    | error e =>
      simp only [hv] at h
      injection h with h1; subst h1; exact ⟨hU, hc1⟩
    | ok v' =>
      simp only [hv] at h
      by_cases c1 : u.index = li
      · simp only [c1, if_true] at h
        injection h with h1; subst h1; exact ⟨hU, hc1⟩
      · simp only [c1, if_false] at h
        by_cases c2 : st.count + 1 = s.receiveThreshold
        · simp [c2] at h
        · simp only [c2, if_false] at h
          injection h with h1; subst h1
          exact ⟨hU, by simp⟩
  | none =>
    simp only [hb] at h
    cases hv : validate cfg f sg s key.publisher st.v u sender with
    | error e =>
      simp only [hv] at h
      by_cases c0 : st.count = 0
      · simp [c0] at h
      · simp only [c0, if_false] at h
        injection h with h1; subst h1; exact ⟨hU, by omega⟩
    | ok v' =>
      simp only [hv] at h
      have hne := validate_shards_ne cfg f sg s key.publisher st.v v' u sender hv
      have hunits : ∀ w, some w ∈ st.units.set u.index (some u) → keyOf w = key ∧ w.shards ≠ [] :=
        units_set_inv key st.units u hk hne hU.1
      have hlen : (st.units.set u.index (some u)).length = s.total := by simp [hU.2]
      by_cases ck : st.count + 1 ≠ s.k
      · rw [if_pos ck] at h
        injection h with h1; subst h1
        exact ⟨⟨hunits, hlen⟩, by simp⟩
      · rw [if_neg ck] at h
        cases hcn : construct cfg f rs (st.units.set u.index (some u)) li s.k s.c with
        | panic => simp [hcn] at h
        | err e => simp [hcn] at h
        | ok r =>
          obtain ⟨msg, shard, proof⟩ := r
          simp only [hcn] at h
          by_cases hsent : (st.localSent || (!st.localSent && li == u.index)) = true
          · simp only [hsent, if_true] at h
            by_cases ct : st.count + 1 = s.receiveThreshold
            · simp [ct] at h
            · simp only [ct, if_false] at h
              injection h with h1; subst h1
              exact ⟨⟨hunits, hlen⟩, by simp⟩
          · simp only [hsent, Bool.false_eq_true, if_false] at h
            cases hfu : fillUnit pc (st.units.set u.index (some u)) with
            | none => simp [hfu] at h
            | some u0 =>
              simp only [hfu] at h
              by_cases ct : st.count + 1 + 1 = s.receiveThreshold
              · simp [ct] at h
              · simp only [ct, if_false] at h
                injection h with h1; subst h1
                exact ⟨⟨hunits, hlen⟩, by simp⟩

/-! ### Processor: invariants over any sequence of units -/

theorem procStepCore_inv [DecidableEq H] (cfg : Cfg) (pc : PCfg) (f : HashFns H) (rs : RS)
    (sg : SigScheme H) (s : Sched) (p : Proc H) (u : PUnit H) (sender : Bytes)
    (hp : ProcInv s p) : ProcInv s (procStepCore cfg pc f rs sg s p u sender).1 := by
  unfold procStepCore
  by_cases hf : p.finalized.contains (keyOf u) = true
  · simp only [hf, if_true]; exact hp
  · simp only [hf, Bool.false_eq_true, if_false]
    cases hsi : s.shardIndexFor (keyOf u).publisher with
    | error e => exact hp
    | ok li =>
      simp only
      have hst : UnitsInv s (keyOf u) ((p.findSub (keyOf u)).getD (SubState.fresh s.total)) ∧
          (((p.findSub (keyOf u)).getD (SubState.fresh s.total)).built ≠ none →
            1 ≤ ((p.findSub (keyOf u)).getD (SubState.fresh s.total)).count) := by
        cases hfs : p.findSub (keyOf u) with
        | none => exact ⟨unitsInv_fresh s _, by simp [SubState.fresh]⟩
        | some st0 =>
          obtain ⟨a, b, c⟩ := hp _ _ hfs
          exact ⟨⟨a, b⟩, fun _ => c⟩
      cases hss : subStep cfg pc f rs sg s (keyOf u).publisher li
          ((p.findSub (keyOf u)).getD (SubState.fresh s.total)) u sender with
      | running st' bc b =>
        simp only
        obtain ⟨h1, h2⟩ := subStep_running_inv cfg pc f rs sg s (keyOf u) li _ st' u sender bc b
          hst.1 rfl hst.2 hss
        intro key' st2 hfind
        rw [findSub_setSub] at hfind
        by_cases hk : key' = keyOf u
        · simp only [hk, if_true] at hfind
          injection hfind with hfind
          subst hfind; subst hk
          exact ⟨h1.1, h1.2, h2⟩
        · simp only [hk, if_false] at hfind
          exact hp _ _ hfind
      | finished e bc b =>
        simp only
        intro key' st2 hfind
        have : (p.dropSub (keyOf u)).findSub key' = some st2 := hfind
        rw [findSub_dropSub] at this
        by_cases hk : key' = keyOf u
        · simp [hk] at this
        · simp only [hk, if_false] at this; exact hp _ _ this
      | firstInvalid =>
        simp only
        split
        · intro key' st2 hfind
          rw [findSub_dropSub] at hfind
          by_cases hk : key' = keyOf u
          · simp [hk] at hfind
          · simp only [hk, if_false] at hfind; exact hp _ _ hfind
        · intro key' st2 hfind
          have : (p.dropSub (keyOf u)).findSub key' = some st2 := hfind
          rw [findSub_dropSub] at this
          by_cases hk : key' = keyOf u
          · simp [hk] at this
          · simp only [hk, if_false] at this; exact hp _ _ this
      | panic => exact hp


/-- Safety of the processor, one step: whatever the state (reachable: `ProcInv`), whatever the
unit and sender — if this step builds a message for a key carrying the publisher's root of `msg`,
the message built is `msg`, and every unit handed to `broadcastUnit` in this step is either the
accepted unit itself or the local unit with the publisher's shard and proof for the local index,
under the same message key. (Ideal hash; codec laws for the scheduler's `(k, c)`.) -/
theorem procStepCore_built_sound [DecidableEq H] (cfg : Cfg) (pc : PCfg) (f : HashFns H) (hI : Ideal f)
    (rs : RS) (sg : SigScheme H) (s : Sched) (p : Proc H) (hp : ProcInv s p) (u : PUnit H)
    (sender : Bytes) (msg : Bytes) (hl : RSLaws rs s.k s.c) (hin : PadInput msg s.k)
    (hsz : GoSized rs msg s.k s.c) (hroot : u.root = (treeOf cfg f rs msg s.k s.c).1)
    (bc : List (PUnit H)) (m : Bytes) (e : Option Bool)
    (h : (procStepCore cfg pc f rs sg s p u sender).2 = .handled bc (some m) e) :
    m = msg ∧ ∃ li, s.shardIndexFor u.publisher = .ok li ∧
      ∀ lu ∈ bc, lu = u ∨ (lu.shards = [(encOf rs msg s.k s.c).getD li []] ∧
        lu.proof = (treeOf cfg f rs msg s.k s.c).2.getD li [] ∧ lu.index = li ∧ keyOf lu = keyOf u) := by
  unfold procStepCore at h
  by_cases hf : p.finalized.contains (keyOf u) = true
  · rw [if_pos hf] at h; cases h
  · rw [if_neg hf] at h
    cases hsi : s.shardIndexFor (keyOf u).publisher with
    | error e => simp [hsi] at h
    | ok li =>
      simp only [hsi] at h
      have hst : UnitsInv s (keyOf u) ((p.findSub (keyOf u)).getD (SubState.fresh s.total)) := by
        cases hfs : p.findSub (keyOf u) with
        | none => exact unitsInv_fresh s _
        | some st0 => obtain ⟨a, b, _⟩ := hp _ _ hfs; exact ⟨a, b⟩
      generalize hst0 : (p.findSub (keyOf u)).getD (SubState.fresh s.total) = st at h hst
      have hsub : (∃ st', subStep cfg pc f rs sg s (keyOf u).publisher li st u sender = .running st' bc (some m)) ∨
          (∃ e, subStep cfg pc f rs sg s (keyOf u).publisher li st u sender = .finished e bc (some m)) := by
        cases hss : subStep cfg pc f rs sg s (keyOf u).publisher li st u sender with
        | running st' bc' b' =>
          simp only [hss] at h
          injection h with h1 h2 _
          subst h1; subst h2
          exact Or.inl ⟨st', rfl⟩
        | finished e' bc' b' =>
          simp only [hss] at h
          injection h with h1 h2 _
          subst h1; subst h2
          exact Or.inr ⟨e', rfl⟩
        | firstInvalid =>
          simp only [hss] at h
          split at h <;> simp at h
        | panic => simp [hss] at h
      obtain ⟨_, ⟨v', hv⟩, shard, proof, hcons, hbc⟩ :=
        subStep_built_inv cfg pc f rs sg s _ li st u sender bc m hsub
      have hne := validate_shards_ne cfg f sg s _ st.v v' u sender hv
      have hunits := units_set_inv (keyOf u) st.units u rfl hne hst.1
      have hsound := construct_sound cfg f hI rs msg s.k s.c hl hin hsz _ li m shard proof hcons
        (by
          intro u0 hu0
          have := (hunits u0 (rootUnit_mem cfg _ u0 hu0)).1
          have e1 : u0.root = u.root := by
            have := congrArg MsgKey.root this; simpa [keyOf] using this
          rw [e1, hroot])
      refine ⟨hsound.1, li, by simpa [keyOf] using hsi, ?_⟩
      intro lu hlu
      rcases hbc lu hlu with h1 | ⟨h1, h2, h3, u0, hu0, hk0, _⟩
      · exact Or.inl h1
      · refine Or.inr ⟨by rw [h1, hsound.2.1], by rw [h2, hsound.2.2], h3, ?_⟩
        rw [hk0]; exact (hunits u0 hu0).1

/-- Outcomes of a sequence of `(unit, sender)` pairs handed to the processor. -/
def procRunCore [DecidableEq H] (cfg : Cfg) (pc : PCfg) (f : HashFns H) (rs : RS) (sg : SigScheme H)
    (s : Sched) : Proc H → List (PUnit H × Bytes) → List (ProcOut H)
  | _, [] => []
  | p, (u, sender) :: rest =>
    (procStepCore cfg pc f rs sg s p u sender).2 ::
      procRunCore cfg pc f rs sg s (procStepCore cfg pc f rs sg s p u sender).1 rest

/-- Safety of the processor over ANY sequence of units (any order, duplicates, forged units
interleaved, any senders) starting from the empty processor: a message built for a key that carries
the publisher's root of `msg` is `msg`. -/
theorem procRunCore_built_sound [DecidableEq H] (cfg : Cfg) (pc : PCfg) (f : HashFns H) (hI : Ideal f)
    (rs : RS) (sg : SigScheme H) (s : Sched) (msg : Bytes) (hl : RSLaws rs s.k s.c)
    (hin : PadInput msg s.k) (hsz : GoSized rs msg s.k s.c) :
    ∀ (ops : List (PUnit H × Bytes)) (p : Proc H), ProcInv s p →
    ∀ (i : Nat) (u : PUnit H) (sender : Bytes) (bc : List (PUnit H)) (m : Bytes) (e : Option Bool),
      ops[i]? = some (u, sender) → u.root = (treeOf cfg f rs msg s.k s.c).1 →
      (procRunCore cfg pc f rs sg s p ops)[i]? = some (.handled bc (some m) e) → m = msg
  | [], _, _, i, _, _, _, _, _, h, _, _ => by simp at h
  | (u0, s0) :: rest, p, hp, 0, u, sender, bc, m, e, h, hr, hv => by
    simp only [List.getElem?_cons_zero, Option.some.injEq, Prod.mk.injEq] at h
    obtain ⟨rfl, rfl⟩ := h
    simp only [procRunCore, List.getElem?_cons_zero, Option.some.injEq] at hv
    exact (procStepCore_built_sound cfg pc f hI rs sg s p hp u0 s0 msg hl hin hsz hr bc m e hv).1
  | (u0, s0) :: rest, p, hp, i + 1, u, sender, bc, m, e, h, hr, hv => by
    simp only [List.getElem?_cons_succ] at h
    simp only [procRunCore, List.getElem?_cons_succ] at hv
    exact procRunCore_built_sound cfg pc f hI rs sg s msg hl hin hsz rest _
      (procStepCore_inv cfg pc f rs sg s p u0 s0 hp) i u sender bc m e h hr hv


/-! ### a rejected unit leaves no trace (with the fix); the poisoned key (without it) -/

/-- Two processor states no later step can tell apart. -/
def ProcEq [DecidableEq H] (s : Sched) (p p' : Proc H) : Prop :=
  (∀ key, p.finalized.contains key = p'.finalized.contains key) ∧
  ∀ key, p.findSub key = p'.findSub key

theorem procEq_refl [DecidableEq H] (s : Sched) (p : Proc H) : ProcEq s p p := ⟨fun _ => rfl, fun _ => rfl⟩

theorem procStepCore_congr [DecidableEq H] (cfg : Cfg) (pc : PCfg) (f : HashFns H) (rs : RS)
    (sg : SigScheme H) (s : Sched) (p p' : Proc H) (u : PUnit H) (sender : Bytes)
    (h : ProcEq s p p') :
    (procStepCore cfg pc f rs sg s p u sender).2 = (procStepCore cfg pc f rs sg s p' u sender).2 ∧
    ProcEq s (procStepCore cfg pc f rs sg s p u sender).1 (procStepCore cfg pc f rs sg s p' u sender).1 := by
  obtain ⟨hf, hs⟩ := h
  unfold procStepCore
  rw [hf (keyOf u), hs (keyOf u)]
  by_cases hc : p'.finalized.contains (keyOf u) = true
  · simp only [hc, if_true]; exact ⟨trivial, hf, hs⟩
  · simp only [hc, Bool.false_eq_true, if_false]
    cases hsi : s.shardIndexFor (keyOf u).publisher with
    | error e => exact ⟨rfl, hf, hs⟩
    | ok li =>
      simp only
      have hset : ∀ st', ProcEq s (p.setSub (keyOf u) st') (p'.setSub (keyOf u) st') := by
        intro st'
        refine ⟨hf, fun key => ?_⟩
        rw [findSub_setSub, findSub_setSub]
        by_cases hk : key = keyOf u
        · simp [hk]
        · simp only [hk, if_false]; exact hs key
      have hdrop : ∀ key, (p.dropSub (keyOf u)).findSub key = (p'.dropSub (keyOf u)).findSub key := by
        intro key
        rw [findSub_dropSub, findSub_dropSub]
        by_cases hk : key = keyOf u
        · simp [hk]
        · simp only [hk, if_false]; exact hs key
      have hfin : ∀ key, (keyOf u :: p.finalized).contains key = (keyOf u :: p'.finalized).contains key := by
        intro key
        have := hf key
        simp only [List.contains_cons] at this ⊢
        rw [this]
      cases subStep cfg pc f rs sg s (keyOf u).publisher li
          ((p'.findSub (keyOf u)).getD (SubState.fresh s.total)) u sender with
      | running st' bc b => exact ⟨rfl, hset st'⟩
      | finished e bc b => exact ⟨rfl, hfin, hdrop⟩
      | firstInvalid =>
        simp only
        split
        · exact ⟨rfl, hf, hdrop⟩
        · exact ⟨rfl, hfin, hdrop⟩
      | panic => exact ⟨rfl, hf, hs⟩

theorem procRunCore_congr [DecidableEq H] (cfg : Cfg) (pc : PCfg) (f : HashFns H) (rs : RS)
    (sg : SigScheme H) (s : Sched) : ∀ (ops : List (PUnit H × Bytes)) (p p' : Proc H), ProcEq s p p' →
    procRunCore cfg pc f rs sg s p ops = procRunCore cfg pc f rs sg s p' ops
  | [], _, _, _ => rfl
  | (u, sender) :: rest, p, p', h => by
    obtain ⟨h1, h2⟩ := procStepCore_congr cfg pc f rs sg s p p' u sender h
    simp only [procRunCore, h1, procRunCore_congr cfg pc f rs sg s rest _ _ h2]

/-- With the repair (`noPoison`): a unit that the validator of its message key rejects changes
nothing that any later step can observe — no broadcast, no build, and every later outcome is what
it would have been without the unit. ("… is rejected and cannot cause … the receiver to fail.") -/
theorem rejected_step_core [DecidableEq H] (cfg : Cfg) (pc : PCfg) (hfix : pc.noPoison = true)
    (f : HashFns H) (rs : RS) (sg : SigScheme H) (s : Sched) (p : Proc H) (hp : ProcInv s p)
    (u : PUnit H) (sender : Bytes) (e : VErr)
    (hrej : validate cfg f sg s (keyOf u).publisher
      ((p.findSub (keyOf u)).getD (SubState.fresh s.total)).v u sender = .error e) :
    ((procStepCore cfg pc f rs sg s p u sender).2 = .ignored ∨
      (procStepCore cfg pc f rs sg s p u sender).2 = .noRoute ∨
      ∃ en, (procStepCore cfg pc f rs sg s p u sender).2 = .handled [] none en) ∧
      ProcEq s (procStepCore cfg pc f rs sg s p u sender).1 p := by
  unfold procStepCore
  by_cases hc : p.finalized.contains (keyOf u) = true
  · simp only [hc, if_true]; exact ⟨Or.inl trivial, procEq_refl s p⟩
  · simp only [hc, Bool.false_eq_true, if_false]
    cases hsi : s.shardIndexFor (keyOf u).publisher with
    | error e => exact ⟨Or.inr (Or.inl rfl), procEq_refl s p⟩
    | ok li =>
      simp only
      cases hfs : p.findSub (keyOf u) with
      | none =>
        rw [hfs] at hrej
        simp only [Option.getD_none] at hrej ⊢
        have hss : subStep cfg pc f rs sg s (keyOf u).publisher li (SubState.fresh s.total) u sender =
            .firstInvalid := by
          unfold subStep
          simp only [SubState.fresh] at hrej ⊢
          simp [hrej]
        rw [hss]
        simp only [hfix, if_true]
        refine ⟨Or.inr (Or.inr ⟨_, rfl⟩), fun _ => rfl, fun key' => ?_⟩
        rw [findSub_dropSub]
        by_cases hk : key' = keyOf u
        · simp [hk, hfs]
        · simp [hk]
      | some st =>
        rw [hfs] at hrej
        simp only [Option.getD_some] at hrej ⊢
        obtain ⟨_, _, hcnt⟩ := hp _ _ hfs
        have hss : subStep cfg pc f rs sg s (keyOf u).publisher li st u sender = .running st [] none := by
          unfold subStep
          cases hb : st.built with
          | none =>
            simp only [hrej]
            have : ¬ st.count = 0 := by omega
            simp [this]
          | some x => simp only [hrej]
        rw [hss]
        refine ⟨Or.inr (Or.inr ⟨_, rfl⟩), fun _ => rfl, fun key' => ?_⟩
        rw [findSub_setSub]
        by_cases hk : key' = keyOf u
        · simp [hk, hfs]
        · simp [hk]

theorem rejected_unit_is_noop_core [DecidableEq H] (cfg : Cfg) (pc : PCfg) (hfix : pc.noPoison = true)
    (f : HashFns H) (rs : RS) (sg : SigScheme H) (s : Sched) (p : Proc H) (hp : ProcInv s p)
    (u : PUnit H) (sender : Bytes) (e : VErr)
    (hrej : validate cfg f sg s (keyOf u).publisher
      ((p.findSub (keyOf u)).getD (SubState.fresh s.total)).v u sender = .error e) :
    (∀ bc b en, (procStepCore cfg pc f rs sg s p u sender).2 = .handled bc b en → bc = [] ∧ b = none) ∧
    (procStepCore cfg pc f rs sg s p u sender).2 ≠ .panic ∧
    ∀ ops, procRunCore cfg pc f rs sg s (procStepCore cfg pc f rs sg s p u sender).1 ops =
      procRunCore cfg pc f rs sg s p ops := by
  have key := rejected_step_core cfg pc hfix f rs sg s p hp u sender e hrej
  refine ⟨?_, ?_, fun ops => procRunCore_congr cfg pc f rs sg s ops _ _ key.2⟩
  · intro bc b en h
    rcases key.1 with h1 | h1 | ⟨en', h1⟩
    · rw [h1] at h; cases h
    · rw [h1] at h; cases h
    · rw [h1] at h; injection h with a b' _; exact ⟨a.symm, b'.symm⟩
  · intro h
    rcases key.1 with h1 | h1 | ⟨en', h1⟩ <;> rw [h1] at h <;> cases h

/-- Without the repair (the pinned processor): a message key whose FIRST unit is rejected is put
into the finalized cache … -/
theorem first_invalid_unit_poisons_key_core [DecidableEq H] (cfg : Cfg) (pc : PCfg) (hpin : pc.noPoison = false)
    (f : HashFns H) (rs : RS) (sg : SigScheme H) (s : Sched) (p : Proc H) (u : PUnit H) (sender : Bytes)
    (e : VErr) (li : Nat) (hnew : p.findSub (keyOf u) = none)
    (hnf : p.finalized.contains (keyOf u) = false)
    (hsi : s.shardIndexFor (keyOf u).publisher = .ok li)
    (hrej : validate cfg f sg s (keyOf u).publisher VState.fresh u sender = .error e) :
    (procStepCore cfg pc f rs sg s p u sender).1.finalized.contains (keyOf u) = true := by
  unfold procStepCore
  simp only [hnf, Bool.false_eq_true, if_false, hsi, hnew, Option.getD_none]
  have hss : subStep cfg pc f rs sg s (keyOf u).publisher li (SubState.fresh s.total) u sender =
      .firstInvalid := by
    unfold subStep
    simp only [SubState.fresh]
    simp [hrej]
  rw [hss]
  simp [hpin]

/-- … and from then on every unit of that message — the honest ones included — is ignored, for
the rest of the run (the finalized cache only grows within its time-to-live). -/
theorem finalized_key_ignores_units_core [DecidableEq H] (cfg : Cfg) (pc : PCfg) (f : HashFns H) (rs : RS)
    (sg : SigScheme H) (s : Sched) (key : MsgKey H) :
    ∀ (ops : List (PUnit H × Bytes)) (p : Proc H), p.finalized.contains key = true →
    ∀ (i : Nat) (u : PUnit H) (sender : Bytes), ops[i]? = some (u, sender) → keyOf u = key →
      (procRunCore cfg pc f rs sg s p ops)[i]? = some .ignored
  | [], _, _, i, _, _, h, _ => by simp at h
  | (u0, s0) :: rest, p, hp, i, u, sender, h, hk => by
    have hmono : (procStepCore cfg pc f rs sg s p u0 s0).1.finalized.contains key = true := by
      unfold procStepCore
      by_cases hc : p.finalized.contains (keyOf u0) = true
      · simp only [hc, if_true]; exact hp
      · simp only [hc, Bool.false_eq_true, if_false]
        cases s.shardIndexFor (keyOf u0).publisher with
        | error e => exact hp
        | ok li =>
          simp only
          have hcons : (keyOf u0 :: p.finalized).contains key = true := by
            simp only [List.contains_cons, hp, Bool.or_true]
          cases subStep cfg pc f rs sg s (keyOf u0).publisher li
              ((p.findSub (keyOf u0)).getD (SubState.fresh s.total)) u0 s0 with
          | running st' bc b => exact hp
          | finished e bc b => exact hcons
          | firstInvalid =>
            simp only
            split
            · exact hp
            · exact hcons
          | panic => exact hp
    cases i with
    | zero =>
      simp only [List.getElem?_cons_zero, Option.some.injEq, Prod.mk.injEq] at h
      obtain ⟨rfl, rfl⟩ := h
      simp only [procRunCore, List.getElem?_cons_zero, Option.some.injEq]
      unfold procStepCore
      rw [hk, if_pos hp]
    | succ i =>
      simp only [List.getElem?_cons_succ] at h
      simp only [procRunCore, List.getElem?_cons_succ]
      exact finalized_key_ignores_units_core cfg pc f rs sg s key rest _ hmono i u sender h hk


/-! ### the subprocessor does not panic (with the repairs); the nil dereference (without) -/

theorem validate_index_lt [DecidableEq H] (cfg : Cfg) (f : HashFns H) (sg : SigScheme H) (s : Sched)
    (publisher : Bytes) (st st' : VState) (u : PUnit H) (sender : Bytes)
    (h : validate cfg f sg s publisher st u sender = .ok st') : u.index < s.total := by
  obtain ⟨_, ho, _, _⟩ := validate_ok_inv cfg f sg s publisher st st' u sender h
  exact (origin_ok_inv s sender u.publisher u.index ho).2.2.1

/-- With all repairs no unit — honest or forged — can make a subprocessor panic. -/
theorem subStep_total [DecidableEq H] (cfg : Cfg) (pc : PCfg) (f : HashFns H) (rs : RS)
    (sg : SigScheme H) (s : Sched) (key : MsgKey H) (li : Nat) (st : SubState H) (u : PUnit H)
    (sender : Bytes) (h1 : cfg.rootFromPresent = true) (h2 : cfg.unpadGuard = true)
    (h3 : pc.localFromPresent = true) (hl : RSLaws rs s.k s.c) (hk : 0 < s.k) (hli : li < s.total)
    (hU : UnitsInv s key st) (hu : keyOf u = key) :
    subStep cfg pc f rs sg s key.publisher li st u sender ≠ .panic := by
  intro h
  unfold subStep at h
  cases hb : st.built with
  | some x =>
    simp only [hb] at h
    cases hv : validate cfg f sg s key.publisher st.v u sender with
    | error e => simp [hv] at h
    | ok v' =>
      simp only [hv] at h
      by_cases c1 : u.index = li
      · simp [c1] at h
      · by_cases c2 : st.count + 1 = s.receiveThreshold <;> simp [c1, c2] at h
  | none =>
    simp only [hb] at h
    cases hv : validate cfg f sg s key.publisher st.v u sender with
    | error e =>
      simp only [hv] at h
      by_cases c0 : st.count = 0 <;> simp [c0] at h
    | ok v' =>
      simp only [hv] at h
      have hne := validate_shards_ne cfg f sg s key.publisher st.v v' u sender hv
      have hidx := validate_index_lt cfg f sg s key.publisher st.v v' u sender hv
      have hunits := units_set_inv key st.units u hu hne hU.1
      by_cases ck : st.count + 1 ≠ s.k
      · rw [if_pos ck] at h; cases h
      · rw [if_neg ck] at h
        cases hcn : construct cfg f rs (st.units.set u.index (some u)) li s.k s.c with
        | panic =>
          exact construct_total cfg f rs s.k s.c hl hk h1 h2 _ (fun w hw => (hunits w hw).2) li
            (by simpa [Sched.total] using hli) hcn
        | err e => simp [hcn] at h
        | ok r =>
          obtain ⟨msg, shard, proof⟩ := r
          simp only [hcn] at h
          by_cases hsent : (st.localSent || (!st.localSent && li == u.index)) = true
          · simp only [hsent, if_true] at h
            by_cases ct : st.count + 1 = s.receiveThreshold <;> simp [ct] at h
          · simp only [hsent, Bool.false_eq_true, if_false] at h
            have hmem : some u ∈ st.units.set u.index (some u) :=
              List.mem_set (by rw [hU.2]; exact hidx) _
            cases hfu : fillUnit pc (st.units.set u.index (some u)) with
            | none =>
              unfold fillUnit at hfu
              simp only [h3, if_true] at hfu
              have : u ∈ (st.units.set u.index (some u)).filterMap id := by simpa using hmem
              cases hl' : (st.units.set u.index (some u)).filterMap id with
              | nil => rw [hl'] at this; simp at this
              | cons a b => rw [hl'] at hfu; simp at hfu
            | some u0 =>
              simp only [hfu] at h
              by_cases ct : st.count + 1 + 1 = s.receiveThreshold <;> simp [ct] at h

/-- The pinned subprocessor: when the message is built before the local shard arrived and slot 0
is empty, filling the local unit dereferences nil — a panic in the subprocessor's goroutine. -/
theorem subStep_panics_filling_local_unit_pinned [DecidableEq H] (cfg : Cfg) (pc : PCfg)
    (hpin : pc.localFromPresent = false) (f : HashFns H) (rs : RS) (sg : SigScheme H) (s : Sched)
    (publisher : Bytes) (li : Nat) (st : SubState H) (u : PUnit H) (sender : Bytes) (v' : VState)
    (r : Bytes × Bytes × List H)
    (hstage : st.built = none) (hv : validate cfg f sg s publisher st.v u sender = .ok v')
    (hk : st.count + 1 = s.k)
    (hc : construct cfg f rs (st.units.set u.index (some u)) li s.k s.c = .ok r)
    (hnot : st.localSent = false) (hli : li ≠ u.index)
    (h0 : (st.units.set u.index (some u)).headD none = none) :
    subStep cfg pc f rs sg s publisher li st u sender = .panic := by
  unfold subStep
  obtain ⟨msg, shard, proof⟩ := r
  have hbeq : (li == u.index) = false := by simpa using hli
  simp only [hstage, hv, hk, ne_eq, not_true_eq_false, if_false, hc, hnot, hbeq, Bool.not_false,
    Bool.and_false, Bool.or_false, Bool.false_eq_true]
  unfold fillUnit
  simp only [hpin, Bool.false_eq_true, if_false]
  rw [h0]


/-! ### a message is built at most once -/

theorem subStep_running_built [DecidableEq H] (cfg : Cfg) (pc : PCfg) (f : HashFns H) (rs : RS)
    (sg : SigScheme H) (s : Sched) (publisher : Bytes) (li : Nat) (st st' : SubState H) (u : PUnit H)
    (sender : Bytes) (bc : List (PUnit H)) (m : Bytes)
    (h : subStep cfg pc f rs sg s publisher li st u sender = .running st' bc (some m)) :
    st'.built = some m := by
  unfold subStep at h
  cases hb : st.built with
  | some x =>
    simp only [hb] at h
    cases hv : validate cfg f sg s publisher st.v u sender with
    | error e => simp [hv] at h
    | ok v' =>
      simp only [hv] at h
      by_cases c1 : u.index = li
      · simp [c1] at h
      · by_cases c2 : st.count + 1 = s.receiveThreshold <;> simp [c1, c2] at h
  | none =>
    simp only [hb] at h
    cases hv : validate cfg f sg s publisher st.v u sender with
    | error e =>
      simp only [hv] at h
      by_cases c0 : st.count = 0 <;> simp [c0] at h
    | ok v' =>
      simp only [hv] at h
      by_cases ck : st.count + 1 ≠ s.k
      · rw [if_pos ck] at h; injection h with _ _ h3; cases h3
      · rw [if_neg ck] at h
        cases hcn : construct cfg f rs (st.units.set u.index (some u)) li s.k s.c with
        | panic => simp [hcn] at h
        | err e => simp [hcn] at h
        | ok r =>
          obtain ⟨msg, shard, proof⟩ := r
          simp only [hcn] at h
          by_cases hsent : (st.localSent || (!st.localSent && li == u.index)) = true
          · simp only [hsent, if_true] at h
            by_cases ct : st.count + 1 = s.receiveThreshold
            · simp [ct] at h
            · simp only [ct, if_false] at h
              injection h with h1 _ h3
              injection h3 with h3
              subst h1; subst h3; rfl
          · simp only [hsent, Bool.false_eq_true, if_false] at h
            cases hfu : fillUnit pc (st.units.set u.index (some u)) with
            | none => simp [hfu] at h
            | some u0 =>
              simp only [hfu] at h
              by_cases ct : st.count + 1 + 1 = s.receiveThreshold
              · simp [ct] at h
              · simp only [ct, if_false] at h
                injection h with h1 _ h3
                injection h3 with h3
                subst h1; subst h3; rfl

/-- In the second stage nothing is built. -/
theorem subStep_stage2_no_build [DecidableEq H] (cfg : Cfg) (pc : PCfg) (f : HashFns H) (rs : RS)
    (sg : SigScheme H) (s : Sched) (publisher : Bytes) (li : Nat) (st : SubState H) (u : PUnit H)
    (sender : Bytes) (hb : st.built ≠ none) :
    (∀ st' bc b, subStep cfg pc f rs sg s publisher li st u sender = .running st' bc b →
      b = none ∧ st'.built ≠ none) ∧
    (∀ e bc b, subStep cfg pc f rs sg s publisher li st u sender = .finished e bc b → b = none) ∧
    subStep cfg pc f rs sg s publisher li st u sender ≠ .firstInvalid := by
  unfold subStep
  cases hbb : st.built with
  | none => exact absurd hbb hb
  | some x =>
    simp only
    cases hv : validate cfg f sg s publisher st.v u sender with
    | error e =>
      simp only
      refine ⟨?_, (by intro e bc b h; cases h), (by intro h; cases h)⟩
      intro st' bc b h
      injection h with h1 _ h3
      subst h1
      exact ⟨h3.symm, hb⟩
    | ok v' =>
      simp only
      by_cases c1 : u.index = li
      · simp only [c1, if_true]
        refine ⟨?_, (by intro e bc b h; cases h), (by intro h; cases h)⟩
        intro st' bc b h
        injection h with h1 _ h3
        subst h1
        exact ⟨h3.symm, by simpa using hb⟩
      · simp only [c1, if_false]
        by_cases c2 : st.count + 1 = s.receiveThreshold
        · simp only [c2, if_true]
          refine ⟨(by intro st' bc b h; cases h), ?_, (by intro h; cases h)⟩
          intro e bc b h
          injection h with _ _ h3
          exact h3.symm
        · simp only [c2, if_false]
          refine ⟨?_, (by intro e bc b h; cases h), (by intro h; cases h)⟩
          intro st' bc b h
          injection h with h1 _ h3
          subst h1
          exact ⟨h3.symm, by simpa using hb⟩

/-- The message of key `K` has been built (its subprocessor is past the build, or finished). -/
def Done [DecidableEq H] (p : Proc H) (K : MsgKey H) : Prop :=
  p.finalized.contains K = true ∨ ∃ st, p.findSub K = some st ∧ st.built ≠ none

theorem procStepCore_build_marks_done [DecidableEq H] (cfg : Cfg) (pc : PCfg) (f : HashFns H) (rs : RS)
    (sg : SigScheme H) (s : Sched) (p : Proc H) (u : PUnit H) (sender : Bytes)
    (bc : List (PUnit H)) (m : Bytes) (e : Option Bool)
    (h : (procStepCore cfg pc f rs sg s p u sender).2 = .handled bc (some m) e) :
    Done (procStepCore cfg pc f rs sg s p u sender).1 (keyOf u) := by
  unfold procStepCore at h ⊢
  by_cases hf : p.finalized.contains (keyOf u) = true
  · rw [if_pos hf] at h; cases h
  · rw [if_neg hf] at h ⊢
    cases hsi : s.shardIndexFor (keyOf u).publisher with
    | error e => simp [hsi] at h
    | ok li =>
      simp only [hsi] at h ⊢
      cases hss : subStep cfg pc f rs sg s (keyOf u).publisher li
          ((p.findSub (keyOf u)).getD (SubState.fresh s.total)) u sender with
      | running st' bc' b' =>
        simp only [hss] at h ⊢
        injection h with h1 h2 _
        subst h1; subst h2
        refine Or.inr ⟨st', by rw [findSub_setSub]; simp, ?_⟩
        rw [subStep_running_built cfg pc f rs sg s _ li _ st' u sender _ m hss]; simp
      | finished e' bc' b' =>
        simp only
        exact Or.inl (by simp)
      | firstInvalid =>
        simp only [hss] at h
        split at h <;> simp at h
      | panic => simp [hss] at h

theorem procStepCore_done_stable [DecidableEq H] (cfg : Cfg) (pc : PCfg) (f : HashFns H) (rs : RS)
    (sg : SigScheme H) (s : Sched) (p : Proc H) (K : MsgKey H) (hd : Done p K) (u : PUnit H)
    (sender : Bytes) :
    Done (procStepCore cfg pc f rs sg s p u sender).1 K ∧
    (keyOf u = K → ∀ bc m e, (procStepCore cfg pc f rs sg s p u sender).2 ≠ .handled bc (some m) e) := by
  unfold procStepCore
  by_cases hf : p.finalized.contains (keyOf u) = true
  · rw [if_pos hf]
    exact ⟨hd, fun _ bc m e h => by cases h⟩
  · rw [if_neg hf]
    cases hsi : s.shardIndexFor (keyOf u).publisher with
    | error e => exact ⟨hd, fun _ bc m e h => by cases h⟩
    | ok li =>
      simp only
      by_cases hk : keyOf u = K
      · -- the unit belongs to the built message: its subprocessor is in the second stage
        subst hk
        rcases hd with hd | ⟨st, hfs, hb⟩
        · exact absurd hd hf
        · rw [hfs]
          simp only [Option.getD_some]
          obtain ⟨a, b, c⟩ := subStep_stage2_no_build cfg pc f rs sg s (keyOf u).publisher li st u sender hb
          cases hss : subStep cfg pc f rs sg s (keyOf u).publisher li st u sender with
          | running st' bc' b' =>
            obtain ⟨h1, h2⟩ := a st' bc' b' hss
            simp only
            refine ⟨Or.inr ⟨st', by rw [findSub_setSub]; simp, h2⟩, fun _ bc m e h => ?_⟩
            injection h with _ h3 _
            rw [h1] at h3; cases h3
          | finished e' bc' b' =>
            have h1 := b e' bc' b' hss
            simp only
            refine ⟨Or.inl (by simp), fun _ bc m e h => ?_⟩
            injection h with _ h3 _
            rw [h1] at h3; cases h3
          | firstInvalid => exact absurd hss c
          | panic => exact ⟨Or.inr ⟨st, hfs, hb⟩, fun _ bc m e h => by cases h⟩
      · -- a unit of another message does not touch this key's state, and the cache only grows
        have hfind_set : ∀ st', (p.setSub (keyOf u) st').findSub K = p.findSub K := by
          intro st'; rw [findSub_setSub, if_neg (fun e : K = keyOf u => hk e.symm)]
        have hfind_drop : (p.dropSub (keyOf u)).findSub K = p.findSub K := by
          rw [findSub_dropSub, if_neg (fun e : K = keyOf u => hk e.symm)]
        have hcons : p.finalized.contains K = true → (keyOf u :: p.finalized).contains K = true := by
          intro h; simp only [List.contains_cons, h, Bool.or_true]
        have hdone_set : ∀ st', Done (p.setSub (keyOf u) st') K := by
          intro st'
          rcases hd with hd | ⟨st, hfs, hb⟩
          · exact Or.inl hd
          · exact Or.inr ⟨st, by rw [hfind_set]; exact hfs, hb⟩
        have hdone_drop : Done (p.dropSub (keyOf u)) K := by
          rcases hd with hd | ⟨st, hfs, hb⟩
          · exact Or.inl hd
          · exact Or.inr ⟨st, by rw [hfind_drop]; exact hfs, hb⟩
        have hdone_fin : Done (⟨keyOf u :: p.finalized, (p.dropSub (keyOf u)).subs⟩ : Proc H) K := by
          rcases hd with hd | ⟨st, hfs, hb⟩
          · exact Or.inl (hcons hd)
          · exact Or.inr ⟨st, by
              have : (⟨keyOf u :: p.finalized, (p.dropSub (keyOf u)).subs⟩ : Proc H).findSub K =
                  (p.dropSub (keyOf u)).findSub K := rfl
              rw [this, hfind_drop]; exact hfs, hb⟩
        cases subStep cfg pc f rs sg s (keyOf u).publisher li
            ((p.findSub (keyOf u)).getD (SubState.fresh s.total)) u sender with
        | running st' bc' b' => exact ⟨hdone_set st', fun e => absurd e hk⟩
        | finished e' bc' b' => exact ⟨hdone_fin, fun e => absurd e hk⟩
        | firstInvalid =>
          simp only
          split
          · exact ⟨hdone_drop, fun e => absurd e hk⟩
          · exact ⟨hdone_fin, fun e => absurd e hk⟩
        | panic => exact ⟨hd, fun e => absurd e hk⟩

/-- Over any sequence of units: once a message key is done, no later unit of that key builds. -/
theorem procRunCore_no_build_after_done [DecidableEq H] (cfg : Cfg) (pc : PCfg) (f : HashFns H) (rs : RS)
    (sg : SigScheme H) (s : Sched) (K : MsgKey H) :
    ∀ (ops : List (PUnit H × Bytes)) (p : Proc H), Done p K →
    ∀ (j : Nat) (u : PUnit H) (sender : Bytes) (bc : List (PUnit H)) (m : Bytes) (e : Option Bool),
      ops[j]? = some (u, sender) → keyOf u = K →
      (procRunCore cfg pc f rs sg s p ops)[j]? ≠ some (.handled bc (some m) e)
  | [], _, _, j, _, _, _, _, _, h, _ => by simp at h
  | (u0, s0) :: rest, p, hd, 0, u, sender, bc, m, e, h, hk => by
    simp only [List.getElem?_cons_zero, Option.some.injEq, Prod.mk.injEq] at h
    obtain ⟨rfl, rfl⟩ := h
    simp only [procRunCore, List.getElem?_cons_zero, ne_eq, Option.some.injEq]
    exact (procStepCore_done_stable cfg pc f rs sg s p K hd u0 s0).2 hk bc m e
  | (u0, s0) :: rest, p, hd, j + 1, u, sender, bc, m, e, h, hk => by
    simp only [List.getElem?_cons_succ] at h
    simp only [procRunCore, List.getElem?_cons_succ]
    exact procRunCore_no_build_after_done cfg pc f rs sg s K rest _
      (procStepCore_done_stable cfg pc f rs sg s p K hd u0 s0).1 j u sender bc m e h hk

/-- "Reconstruct exactly once": over ANY sequence of units from ANY state, two different steps
never both build the message of the same key. -/
theorem procRunCore_builds_at_most_once [DecidableEq H] (cfg : Cfg) (pc : PCfg) (f : HashFns H) (rs : RS)
    (sg : SigScheme H) (s : Sched) :
    ∀ (ops : List (PUnit H × Bytes)) (p : Proc H) (i j : Nat), i < j →
    ∀ (ui uj : PUnit H) (si sj : Bytes) (bi bj : List (PUnit H)) (mi mj : Bytes) (ei ej : Option Bool),
      ops[i]? = some (ui, si) → ops[j]? = some (uj, sj) → keyOf ui = keyOf uj →
      (procRunCore cfg pc f rs sg s p ops)[i]? = some (.handled bi (some mi) ei) →
      (procRunCore cfg pc f rs sg s p ops)[j]? ≠ some (.handled bj (some mj) ej)
  | [], _, i, j, _, _, _, _, _, _, _, _, _, _, _, h, _, _, _ => by simp at h
  | (u0, s0) :: rest, p, 0, j + 1, _, ui, uj, si, sj, bi, bj, mi, mj, ei, ej, hi, hj, hk, hbi => by
    simp only [List.getElem?_cons_zero, Option.some.injEq, Prod.mk.injEq] at hi
    obtain ⟨rfl, rfl⟩ := hi
    simp only [List.getElem?_cons_succ] at hj
    simp only [procRunCore, List.getElem?_cons_zero, Option.some.injEq] at hbi
    simp only [procRunCore, List.getElem?_cons_succ]
    exact procRunCore_no_build_after_done cfg pc f rs sg s (keyOf u0) rest _
      (procStepCore_build_marks_done cfg pc f rs sg s p u0 s0 bi mi ei hbi) j uj sj bj mj ej hj hk.symm
  | (u0, s0) :: rest, p, i + 1, j + 1, hij, ui, uj, si, sj, bi, bj, mi, mj, ei, ej, hi, hj, hk, hbi => by
    simp only [List.getElem?_cons_succ] at hi hj
    simp only [procRunCore, List.getElem?_cons_succ] at hbi ⊢
    exact procRunCore_builds_at_most_once cfg pc f rs sg s rest _ i j (by omega) ui uj si sj bi bj mi mj ei ej
      hi hj hk hbi


/-! ### `procStep` = `procStepCore` + the public-key check of `NewValidator` -/

theorem procStep_keyless [DecidableEq H] (cfg : Cfg) (pc : PCfg) (f : HashFns H) (rs : RS)
    (sg : SigScheme H) (s : Sched) (p : Proc H) (u : PUnit H) (sender : Bytes)
    (h : keylessNew sg s p u = true) :
    procStep cfg pc f rs sg s p u sender = (p, if pc.keyGuard then .noRoute else .panic) := by
  unfold procStep; rw [if_pos h]

theorem procStep_keyed [DecidableEq H] (cfg : Cfg) (pc : PCfg) (f : HashFns H) (rs : RS)
    (sg : SigScheme H) (s : Sched) (p : Proc H) (u : PUnit H) (sender : Bytes)
    (h : keylessNew sg s p u = false) :
    procStep cfg pc f rs sg s p u sender = procStepCore cfg pc f rs sg s p u sender := by
  unfold procStep; rw [if_neg (by rw [h]; simp)]

theorem keylessNew_congr [DecidableEq H] (sg : SigScheme H) (s : Sched) (p p' : Proc H) (u : PUnit H)
    (h : ProcEq s p p') : keylessNew sg s p u = keylessNew sg s p' u := by
  unfold keylessNew; rw [h.1 (keyOf u), h.2 (keyOf u)]

theorem procStep_inv [DecidableEq H] (cfg : Cfg) (pc : PCfg) (f : HashFns H) (rs : RS)
    (sg : SigScheme H) (s : Sched) (p : Proc H) (u : PUnit H) (sender : Bytes)
    (hp : ProcInv s p) : ProcInv s (procStep cfg pc f rs sg s p u sender).1 := by
  cases hk : keylessNew sg s p u with
  | true => rw [procStep_keyless cfg pc f rs sg s p u sender hk]; exact hp
  | false => rw [procStep_keyed cfg pc f rs sg s p u sender hk]; exact procStepCore_inv cfg pc f rs sg s p u sender hp

theorem procStep_not_handled_of_keyless [DecidableEq H] (cfg : Cfg) (pc : PCfg) (f : HashFns H) (rs : RS)
    (sg : SigScheme H) (s : Sched) (p : Proc H) (u : PUnit H) (sender : Bytes)
    (hk : keylessNew sg s p u = true) (bc : List (PUnit H)) (b : Option Bytes) (e : Option Bool) :
    (procStep cfg pc f rs sg s p u sender).2 ≠ .handled bc b e := by
  rw [procStep_keyless cfg pc f rs sg s p u sender hk]
  simp only
  split <;> intro h <;> cases h

theorem procStep_built_sound [DecidableEq H] (cfg : Cfg) (pc : PCfg) (f : HashFns H) (hI : Ideal f)
    (rs : RS) (sg : SigScheme H) (s : Sched) (p : Proc H) (hp : ProcInv s p) (u : PUnit H)
    (sender : Bytes) (msg : Bytes) (hl : RSLaws rs s.k s.c) (hin : PadInput msg s.k)
    (hsz : GoSized rs msg s.k s.c) (hroot : u.root = (treeOf cfg f rs msg s.k s.c).1)
    (bc : List (PUnit H)) (m : Bytes) (e : Option Bool)
    (h : (procStep cfg pc f rs sg s p u sender).2 = .handled bc (some m) e) :
    m = msg ∧ ∃ li, s.shardIndexFor u.publisher = .ok li ∧
      ∀ lu ∈ bc, lu = u ∨ (lu.shards = [(encOf rs msg s.k s.c).getD li []] ∧
        lu.proof = (treeOf cfg f rs msg s.k s.c).2.getD li [] ∧ lu.index = li ∧ keyOf lu = keyOf u) := by
  cases hk : keylessNew sg s p u with
  | true => exact absurd h (procStep_not_handled_of_keyless cfg pc f rs sg s p u sender hk _ _ _)
  | false =>
    rw [procStep_keyed cfg pc f rs sg s p u sender hk] at h
    exact procStepCore_built_sound cfg pc f hI rs sg s p hp u sender msg hl hin hsz hroot bc m e h

theorem procStep_congr [DecidableEq H] (cfg : Cfg) (pc : PCfg) (f : HashFns H) (rs : RS)
    (sg : SigScheme H) (s : Sched) (p p' : Proc H) (u : PUnit H) (sender : Bytes)
    (h : ProcEq s p p') :
    (procStep cfg pc f rs sg s p u sender).2 = (procStep cfg pc f rs sg s p' u sender).2 ∧
    ProcEq s (procStep cfg pc f rs sg s p u sender).1 (procStep cfg pc f rs sg s p' u sender).1 := by
  have hkc := keylessNew_congr sg s p p' u h
  cases hk : keylessNew sg s p u with
  | true =>
    rw [procStep_keyless cfg pc f rs sg s p u sender hk,
      procStep_keyless cfg pc f rs sg s p' u sender (by rw [← hkc]; exact hk)]
    exact ⟨rfl, h⟩
  | false =>
    rw [procStep_keyed cfg pc f rs sg s p u sender hk,
      procStep_keyed cfg pc f rs sg s p' u sender (by rw [← hkc]; exact hk)]
    exact procStepCore_congr cfg pc f rs sg s p p' u sender h

/-- Outcomes of a sequence of `(unit, sender)` pairs handed to the processor. -/
def procRun [DecidableEq H] (cfg : Cfg) (pc : PCfg) (f : HashFns H) (rs : RS) (sg : SigScheme H)
    (s : Sched) : Proc H → List (PUnit H × Bytes) → List (ProcOut H)
  | _, [] => []
  | p, (u, sender) :: rest =>
    (procStep cfg pc f rs sg s p u sender).2 ::
      procRun cfg pc f rs sg s (procStep cfg pc f rs sg s p u sender).1 rest

theorem procRun_congr [DecidableEq H] (cfg : Cfg) (pc : PCfg) (f : HashFns H) (rs : RS)
    (sg : SigScheme H) (s : Sched) : ∀ (ops : List (PUnit H × Bytes)) (p p' : Proc H), ProcEq s p p' →
    procRun cfg pc f rs sg s p ops = procRun cfg pc f rs sg s p' ops
  | [], _, _, _ => rfl
  | (u, sender) :: rest, p, p', h => by
    obtain ⟨h1, h2⟩ := procStep_congr cfg pc f rs sg s p p' u sender h
    simp only [procRun, h1, procRun_congr cfg pc f rs sg s rest _ _ h2]

theorem procRun_built_sound [DecidableEq H] (cfg : Cfg) (pc : PCfg) (f : HashFns H) (hI : Ideal f)
    (rs : RS) (sg : SigScheme H) (s : Sched) (msg : Bytes) (hl : RSLaws rs s.k s.c)
    (hin : PadInput msg s.k) (hsz : GoSized rs msg s.k s.c) :
    ∀ (ops : List (PUnit H × Bytes)) (p : Proc H), ProcInv s p →
    ∀ (i : Nat) (u : PUnit H) (sender : Bytes) (bc : List (PUnit H)) (m : Bytes) (e : Option Bool),
      ops[i]? = some (u, sender) → u.root = (treeOf cfg f rs msg s.k s.c).1 →
      (procRun cfg pc f rs sg s p ops)[i]? = some (.handled bc (some m) e) → m = msg
  | [], _, _, i, _, _, _, _, _, h, _, _ => by simp at h
  | (u0, s0) :: rest, p, hp, 0, u, sender, bc, m, e, h, hr, hv => by
    simp only [List.getElem?_cons_zero, Option.some.injEq, Prod.mk.injEq] at h
    obtain ⟨rfl, rfl⟩ := h
    simp only [procRun, List.getElem?_cons_zero, Option.some.injEq] at hv
    exact (procStep_built_sound cfg pc f hI rs sg s p hp u0 s0 msg hl hin hsz hr bc m e hv).1
  | (u0, s0) :: rest, p, hp, i + 1, u, sender, bc, m, e, h, hr, hv => by
    simp only [List.getElem?_cons_succ] at h
    simp only [procRun, List.getElem?_cons_succ] at hv
    exact procRun_built_sound cfg pc f hI rs sg s msg hl hin hsz rest _
      (procStep_inv cfg pc f rs sg s p u0 s0 hp) i u sender bc m e h hr hv

/-- With the repair (`noPoison`): a unit that the validator of its message key rejects changes
nothing that any later step can observe. (If the unit would start a subprocessor for a publisher
without embedded key, `keyGuard` is needed for it not to panic.) -/
theorem rejected_unit_is_noop [DecidableEq H] (cfg : Cfg) (pc : PCfg) (hfix : pc.noPoison = true)
    (f : HashFns H) (rs : RS) (sg : SigScheme H) (s : Sched) (p : Proc H) (hp : ProcInv s p)
    (u : PUnit H) (sender : Bytes) (e : VErr)
    (hkey : pc.keyGuard = true ∨ sg.hasKey (keyOf u).publisher = true)
    (hrej : validate cfg f sg s (keyOf u).publisher
      ((p.findSub (keyOf u)).getD (SubState.fresh s.total)).v u sender = .error e) :
    (∀ bc b en, (procStep cfg pc f rs sg s p u sender).2 = .handled bc b en → bc = [] ∧ b = none) ∧
    (procStep cfg pc f rs sg s p u sender).2 ≠ .panic ∧
    ∀ ops, procRun cfg pc f rs sg s (procStep cfg pc f rs sg s p u sender).1 ops =
      procRun cfg pc f rs sg s p ops := by
  cases hk : keylessNew sg s p u with
  | true =>
    have hg : pc.keyGuard = true := by
      cases hkey with
      | inl h => exact h
      | inr h => unfold keylessNew at hk; simp [h] at hk
    rw [procStep_keyless cfg pc f rs sg s p u sender hk]
    simp only [hg, if_true]
    exact ⟨(fun bc b en h => by cases h), (fun h => by cases h), (fun _ => trivial)⟩
  | false =>
    rw [procStep_keyed cfg pc f rs sg s p u sender hk]
    obtain ⟨hout, heq⟩ := rejected_step_core cfg pc hfix f rs sg s p hp u sender e hrej
    refine ⟨?_, ?_, fun ops => procRun_congr cfg pc f rs sg s ops _ _ heq⟩
    · intro bc b en h
      rcases hout with h1 | h1 | ⟨en', h1⟩
      · rw [h1] at h; cases h
      · rw [h1] at h; cases h
      · rw [h1] at h; injection h with a b' _; exact ⟨a.symm, b'.symm⟩
    · intro h
      rcases hout with h1 | h1 | ⟨en', h1⟩ <;> rw [h1] at h <;> cases h

theorem procStep_finalized_mono [DecidableEq H] (cfg : Cfg) (pc : PCfg) (f : HashFns H) (rs : RS)
    (sg : SigScheme H) (s : Sched) (key : MsgKey H) (p : Proc H) (u : PUnit H) (sender : Bytes)
    (hp : p.finalized.contains key = true) :
    (procStep cfg pc f rs sg s p u sender).1.finalized.contains key = true := by
  cases hk : keylessNew sg s p u with
  | true => rw [procStep_keyless cfg pc f rs sg s p u sender hk]; exact hp
  | false =>
    rw [procStep_keyed cfg pc f rs sg s p u sender hk]
    unfold procStepCore
    by_cases hc : p.finalized.contains (keyOf u) = true
    · simp only [hc, if_true]; exact hp
    · simp only [hc, Bool.false_eq_true, if_false]
      cases s.shardIndexFor (keyOf u).publisher with
      | error e => exact hp
      | ok li =>
        simp only
        have hcons : (keyOf u :: p.finalized).contains key = true := by
          simp only [List.contains_cons, hp, Bool.or_true]
        cases subStep cfg pc f rs sg s (keyOf u).publisher li
            ((p.findSub (keyOf u)).getD (SubState.fresh s.total)) u sender with
        | running st' bc b => exact hp
        | finished e bc b => exact hcons
        | firstInvalid =>
          simp only
          split
          · exact hp
          · exact hcons
        | panic => exact hp

theorem finalized_key_ignores_units [DecidableEq H] (cfg : Cfg) (pc : PCfg) (f : HashFns H) (rs : RS)
    (sg : SigScheme H) (s : Sched) (key : MsgKey H) :
    ∀ (ops : List (PUnit H × Bytes)) (p : Proc H), p.finalized.contains key = true →
    ∀ (i : Nat) (u : PUnit H) (sender : Bytes), ops[i]? = some (u, sender) → keyOf u = key →
      (procRun cfg pc f rs sg s p ops)[i]? = some .ignored
  | [], _, _, i, _, _, h, _ => by simp at h
  | (u0, s0) :: rest, p, hp, i, u, sender, h, hk => by
    cases i with
    | zero =>
      simp only [List.getElem?_cons_zero, Option.some.injEq, Prod.mk.injEq] at h
      obtain ⟨rfl, rfl⟩ := h
      simp only [procRun, List.getElem?_cons_zero, Option.some.injEq]
      have hkl : keylessNew sg s p u0 = false := by
        unfold keylessNew; rw [hk, hp]; simp
      rw [procStep_keyed cfg pc f rs sg s p u0 s0 hkl]
      unfold procStepCore
      rw [hk, if_pos hp]
    | succ i =>
      simp only [List.getElem?_cons_succ] at h
      simp only [procRun, List.getElem?_cons_succ]
      exact finalized_key_ignores_units cfg pc f rs sg s key rest _
        (procStep_finalized_mono cfg pc f rs sg s key p u0 s0 hp) i u sender h hk

theorem first_invalid_unit_poisons_key [DecidableEq H] (cfg : Cfg) (pc : PCfg) (hpin : pc.noPoison = false)
    (f : HashFns H) (rs : RS) (sg : SigScheme H) (s : Sched) (p : Proc H) (u : PUnit H) (sender : Bytes)
    (e : VErr) (li : Nat) (hnew : p.findSub (keyOf u) = none)
    (hnf : p.finalized.contains (keyOf u) = false)
    (hsi : s.shardIndexFor (keyOf u).publisher = .ok li)
    (hkey : sg.hasKey (keyOf u).publisher = true)
    (hrej : validate cfg f sg s (keyOf u).publisher VState.fresh u sender = .error e) :
    (procStep cfg pc f rs sg s p u sender).1.finalized.contains (keyOf u) = true := by
  have hkl : keylessNew sg s p u = false := by unfold keylessNew; simp [hkey]
  rw [procStep_keyed cfg pc f rs sg s p u sender hkl]
  exact first_invalid_unit_poisons_key_core cfg pc hpin f rs sg s p u sender e li hnew hnf hsi hrej

theorem procStep_build_marks_done [DecidableEq H] (cfg : Cfg) (pc : PCfg) (f : HashFns H) (rs : RS)
    (sg : SigScheme H) (s : Sched) (p : Proc H) (u : PUnit H) (sender : Bytes)
    (bc : List (PUnit H)) (m : Bytes) (e : Option Bool)
    (h : (procStep cfg pc f rs sg s p u sender).2 = .handled bc (some m) e) :
    Done (procStep cfg pc f rs sg s p u sender).1 (keyOf u) := by
  cases hk : keylessNew sg s p u with
  | true => exact absurd h (procStep_not_handled_of_keyless cfg pc f rs sg s p u sender hk _ _ _)
  | false =>
    rw [procStep_keyed cfg pc f rs sg s p u sender hk] at h ⊢
    exact procStepCore_build_marks_done cfg pc f rs sg s p u sender bc m e h

theorem procStep_done_stable [DecidableEq H] (cfg : Cfg) (pc : PCfg) (f : HashFns H) (rs : RS)
    (sg : SigScheme H) (s : Sched) (p : Proc H) (K : MsgKey H) (hd : Done p K) (u : PUnit H)
    (sender : Bytes) :
    Done (procStep cfg pc f rs sg s p u sender).1 K ∧
    (keyOf u = K → ∀ bc m e, (procStep cfg pc f rs sg s p u sender).2 ≠ .handled bc (some m) e) := by
  cases hk : keylessNew sg s p u with
  | true =>
    refine ⟨by rw [procStep_keyless cfg pc f rs sg s p u sender hk]; exact hd, fun _ bc m e => ?_⟩
    exact procStep_not_handled_of_keyless cfg pc f rs sg s p u sender hk _ _ _
  | false =>
    rw [procStep_keyed cfg pc f rs sg s p u sender hk]
    exact procStepCore_done_stable cfg pc f rs sg s p K hd u sender

theorem procRun_no_build_after_done [DecidableEq H] (cfg : Cfg) (pc : PCfg) (f : HashFns H) (rs : RS)
    (sg : SigScheme H) (s : Sched) (K : MsgKey H) :
    ∀ (ops : List (PUnit H × Bytes)) (p : Proc H), Done p K →
    ∀ (j : Nat) (u : PUnit H) (sender : Bytes) (bc : List (PUnit H)) (m : Bytes) (e : Option Bool),
      ops[j]? = some (u, sender) → keyOf u = K →
      (procRun cfg pc f rs sg s p ops)[j]? ≠ some (.handled bc (some m) e)
  | [], _, _, j, _, _, _, _, _, h, _ => by simp at h
  | (u0, s0) :: rest, p, hd, 0, u, sender, bc, m, e, h, hk => by
    simp only [List.getElem?_cons_zero, Option.some.injEq, Prod.mk.injEq] at h
    obtain ⟨rfl, rfl⟩ := h
    simp only [procRun, List.getElem?_cons_zero, ne_eq, Option.some.injEq]
    exact (procStep_done_stable cfg pc f rs sg s p K hd u0 s0).2 hk bc m e
  | (u0, s0) :: rest, p, hd, j + 1, u, sender, bc, m, e, h, hk => by
    simp only [List.getElem?_cons_succ] at h
    simp only [procRun, List.getElem?_cons_succ]
    exact procRun_no_build_after_done cfg pc f rs sg s K rest _
      (procStep_done_stable cfg pc f rs sg s p K hd u0 s0).1 j u sender bc m e h hk

theorem procRun_builds_at_most_once [DecidableEq H] (cfg : Cfg) (pc : PCfg) (f : HashFns H) (rs : RS)
    (sg : SigScheme H) (s : Sched) :
    ∀ (ops : List (PUnit H × Bytes)) (p : Proc H) (i j : Nat), i < j →
    ∀ (ui uj : PUnit H) (si sj : Bytes) (bi bj : List (PUnit H)) (mi mj : Bytes) (ei ej : Option Bool),
      ops[i]? = some (ui, si) → ops[j]? = some (uj, sj) → keyOf ui = keyOf uj →
      (procRun cfg pc f rs sg s p ops)[i]? = some (.handled bi (some mi) ei) →
      (procRun cfg pc f rs sg s p ops)[j]? ≠ some (.handled bj (some mj) ej)
  | [], _, i, j, _, _, _, _, _, _, _, _, _, _, _, h, _, _, _ => by simp at h
  | (u0, s0) :: rest, p, 0, j + 1, _, ui, uj, si, sj, bi, bj, mi, mj, ei, ej, hi, hj, hk, hbi => by
    simp only [List.getElem?_cons_zero, Option.some.injEq, Prod.mk.injEq] at hi
    obtain ⟨rfl, rfl⟩ := hi
    simp only [List.getElem?_cons_succ] at hj
    simp only [procRun, List.getElem?_cons_zero, Option.some.injEq] at hbi
    simp only [procRun, List.getElem?_cons_succ]
    exact procRun_no_build_after_done cfg pc f rs sg s (keyOf u0) rest _
      (procStep_build_marks_done cfg pc f rs sg s p u0 s0 bi mi ei hbi) j uj sj bj mj ej hj hk.symm
  | (u0, s0) :: rest, p, i + 1, j + 1, hij, ui, uj, si, sj, bi, bj, mi, mj, ei, ej, hi, hj, hk, hbi => by
    simp only [List.getElem?_cons_succ] at hi hj
    simp only [procRun, List.getElem?_cons_succ] at hbi ⊢
    exact procRun_builds_at_most_once cfg pc f rs sg s rest _ i j (by omega) ui uj si sj bi bj mi mj ei ej
      hi hj hk hbi

/-! ### no unit makes the processor panic (all guards); the keyless publisher (without) -/

/-- Every path of one processor step, with all repairs in place and a scheduler `NewScheduler`
made: no panic, whatever the unit, the sender and the (reachable) state. -/
theorem procStep_total [DecidableEq H] (cfg : Cfg) (pc : PCfg) (f : HashFns H) (rs : RS)
    (sg : SigScheme H) (id : Bytes) (nodes : List Bytes) (s : Sched) (hs : newScheduler id nodes = .ok s)
    (p : Proc H) (hp : ProcInv s p) (u : PUnit H) (sender : Bytes)
    (h1 : cfg.rootFromPresent = true) (h2 : cfg.unpadGuard = true) (h3 : pc.localFromPresent = true)
    (h4 : pc.keyGuard = true) (hl : RSLaws rs s.k s.c) :
    (procStep cfg pc f rs sg s p u sender).2 ≠ .panic := by
  obtain ⟨_, _, _, _, _, hlen, hk1, _, hid, hloc, hmem⟩ := newScheduler_spec id nodes s hs
  cases hk : keylessNew sg s p u with
  | true =>
    rw [procStep_keyless cfg pc f rs sg s p u sender hk]
    simp [h4]
  | false =>
    rw [procStep_keyed cfg pc f rs sg s p u sender hk]
    unfold procStepCore
    by_cases hc : p.finalized.contains (keyOf u) = true
    · rw [if_pos hc]; intro h; cases h
    · rw [if_neg hc]
      cases hsi : s.shardIndexFor (keyOf u).publisher with
      | error e => intro h; cases h
      | ok li =>
        simp only
        -- the local shard index is in range
        have hli : li < s.total := by
          unfold Sched.shardIndexFor at hsi
          by_cases he : s.localId = (keyOf u).publisher
          · simp [he] at hsi
          · simp only [he, if_false] at hsi
            cases hpi : s.peers.idxOf? (keyOf u).publisher with
            | none => simp [hpi] at hsi
            | some pi =>
              simp only [hpi] at hsi
              injection hsi with hsi
              obtain ⟨hpilt, hpiget, _⟩ := List.idxOf?_eq_some_iff.mp hpi
              have hloc' : s.peers.idxOf? s.localId = some s.localIdx := by rw [hid]; exact hloc
              obtain ⟨hll, hlget, _⟩ := List.idxOf?_eq_some_iff.mp hloc'
              have hne : s.localIdx ≠ pi := by
                intro e; subst e; rw [hlget] at hpiget; exact he hpiget
              rw [← hsi]; split <;> omega
        have hst : UnitsInv s (keyOf u) ((p.findSub (keyOf u)).getD (SubState.fresh s.total)) := by
          cases hfs : p.findSub (keyOf u) with
          | none => exact unitsInv_fresh s _
          | some st0 => obtain ⟨a, b, _⟩ := hp _ _ hfs; exact ⟨a, b⟩
        have := subStep_total cfg pc f rs sg s (keyOf u) li _ u sender h1 h2 h3 hl (by omega) hli hst rfl
        cases hss : subStep cfg pc f rs sg s (keyOf u).publisher li
            ((p.findSub (keyOf u)).getD (SubState.fresh s.total)) u sender with
        | running st' bc b => intro h; cases h
        | finished e bc b => intro h; cases h
        | firstInvalid => simp only; split <;> (intro h; cases h)
        | panic => exact absurd hss this

/-- Without `keyGuard` (the code in /repo): ANY unit that names as publisher a committee member
whose peer id does not embed a public key, for a message key the node has not seen, panics the
processor (in the goroutine of the new subprocessor: the node dies). Nothing else about the unit
matters — shards, proof, signature, sender are never looked at. -/
theorem procStep_panics_on_keyless_publisher [DecidableEq H] (cfg : Cfg) (pc : PCfg)
    (hpin : pc.keyGuard = false) (f : HashFns H) (rs : RS) (sg : SigScheme H) (s : Sched) (p : Proc H)
    (u : PUnit H) (sender : Bytes) (li : Nat)
    (hnf : p.finalized.contains (keyOf u) = false) (hnew : p.findSub (keyOf u) = none)
    (hsi : s.shardIndexFor (keyOf u).publisher = .ok li)
    (hkey : sg.hasKey (keyOf u).publisher = false) :
    (procStep cfg pc f rs sg s p u sender).2 = .panic := by
  have hk : keylessNew sg s p u = true := by
    unfold keylessNew; rw [hnf, hsi, hnew, hkey]; rfl
  rw [procStep_keyless cfg pc f rs sg s p u sender hk]
  simp only [hpin, Bool.false_eq_true, if_false]


/-! ### what is handed to `broadcastUnit`, in ANY step -/

/-- Every step of a subprocessor hands at most one unit to `broadcastUnit`; it carries the local
shard index; the local shard had not been forwarded before; and afterwards it counts as forwarded
(if the subprocessor keeps running). A subprocessor that has forwarded forwards nothing more. -/
theorem subStep_bcast_spec [DecidableEq H] (cfg : Cfg) (pc : PCfg) (f : HashFns H) (rs : RS)
    (sg : SigScheme H) (s : Sched) (publisher : Bytes) (li : Nat) (st : SubState H) (u : PUnit H)
    (sender : Bytes) :
    (∀ st' bc b, subStep cfg pc f rs sg s publisher li st u sender = .running st' bc b →
      bc.length ≤ 1 ∧ (∀ lu ∈ bc, lu.index = li ∧ st.localSent = false ∧ (lu = u ∨ b ≠ none)) ∧
      (st.localSent = true → st'.localSent = true) ∧ (bc ≠ [] → st'.localSent = true)) ∧
    (∀ e bc b, subStep cfg pc f rs sg s publisher li st u sender = .finished e bc b →
      bc.length ≤ 1 ∧ (∀ lu ∈ bc, lu.index = li ∧ st.localSent = false ∧ (lu = u ∨ b ≠ none))) := by
  unfold subStep
  cases hb : st.built with
  | some x =>
    simp only
    cases hv : validate cfg f sg s publisher st.v u sender with
    | error e =>
      simp only
      refine ⟨?_, (by intro e bc b h; cases h)⟩
      intro st' bc b h
      injection h with h1 h2 _
      subst h1; subst h2
      exact ⟨by simp, by simp, fun h => h, by simp⟩
    | ok v' =>
      simp only
      by_cases c1 : u.index = li
      · simp only [c1, if_true]
        refine ⟨?_, (by intro e bc b h; cases h)⟩
        intro st' bc b h
        injection h with h1 h2 _
        subst h1; subst h2
        exact ⟨by simp, by simp, fun h => h, by simp⟩
      · simp only [c1, if_false]
        by_cases c2 : st.count + 1 = s.receiveThreshold
        · simp only [c2, if_true]
          refine ⟨(by intro st' bc b h; cases h), ?_⟩
          intro e bc b h
          injection h with _ h2 _
          subst h2
          exact ⟨by simp, by simp⟩
        · simp only [c2, if_false]
          refine ⟨?_, (by intro e bc b h; cases h)⟩
          intro st' bc b h
          injection h with h1 h2 _
          subst h1; subst h2
          exact ⟨by simp, by simp, fun h => h, by simp⟩
  | none =>
    simp only
    cases hv : validate cfg f sg s publisher st.v u sender with
    | error e =>
      simp only
      by_cases c0 : st.count = 0
      · simp only [c0, if_true]
        exact ⟨(by intro st' bc b h; cases h), (by intro e bc b h; cases h)⟩
      · simp only [c0, if_false]
        refine ⟨?_, (by intro e bc b h; cases h)⟩
        intro st' bc b h
        injection h with h1 h2 _
        subst h1; subst h2
        exact ⟨by simp, by simp, fun h => h, by simp⟩
    | ok v' =>
      simp only
      -- the unit forwarded directly
      have hbc1 : ∀ lu ∈ (if (!st.localSent && li == u.index) = true then [u] else []),
          lu.index = li ∧ st.localSent = false ∧ lu = u := by
        intro lu hlu
        by_cases hc : (!st.localSent && li == u.index) = true
        · simp only [hc, if_true, List.mem_singleton] at hlu
          subst hlu
          simp only [Bool.and_eq_true, Bool.not_eq_true', beq_iff_eq] at hc
          exact ⟨hc.2.symm, hc.1, rfl⟩
        · simp [hc] at hlu
      have hlen1 : (if (!st.localSent && li == u.index) = true then [u] else []).length ≤ 1 := by
        split <;> simp
      have hsent1 : (if (!st.localSent && li == u.index) = true then [u] else []) ≠ [] →
          (st.localSent || (!st.localSent && li == u.index)) = true := by
        intro h
        by_cases hc : (!st.localSent && li == u.index) = true
        · simp [hc]
        · simp [hc] at h
      have hmono : st.localSent = true → (st.localSent || (!st.localSent && li == u.index)) = true := by
        intro h; simp [h]
      by_cases ck : st.count + 1 ≠ s.k
      · rw [if_pos ck]
        refine ⟨?_, (by intro e bc b h; cases h)⟩
        intro st' bc b h
        injection h with h1 h2 _
        subst h1; subst h2
        exact ⟨hlen1, fun lu hlu => by
          obtain ⟨a, b', c⟩ := hbc1 lu hlu; exact ⟨a, b', Or.inl c⟩, hmono, hsent1⟩
      · rw [if_neg ck]
        cases hcn : construct cfg f rs (st.units.set u.index (some u)) li s.k s.c with
        | panic => exact ⟨(by intro st' bc b h; cases h), (by intro e bc b h; cases h)⟩
        | err e =>
          simp only
          refine ⟨(by intro st' bc b h; cases h), ?_⟩
          intro e' bc b h
          injection h with _ h2 _
          subst h2
          exact ⟨hlen1, fun lu hlu => by
            obtain ⟨a, b', c⟩ := hbc1 lu hlu; exact ⟨a, b', Or.inl c⟩⟩
        | ok r =>
          obtain ⟨msg, shard, proof⟩ := r
          simp only
          by_cases hsent : (st.localSent || (!st.localSent && li == u.index)) = true
          · simp only [hsent, if_true]
            by_cases ct : st.count + 1 = s.receiveThreshold
            · simp only [ct, if_true]
              refine ⟨(by intro st' bc b h; cases h), ?_⟩
              intro e' bc b h
              injection h with _ h2 _
              subst h2
              exact ⟨hlen1, fun lu hlu => by
                obtain ⟨a, b', c⟩ := hbc1 lu hlu; exact ⟨a, b', Or.inl c⟩⟩
            · simp only [ct, if_false]
              refine ⟨?_, (by intro e bc b h; cases h)⟩
              intro st' bc b h
              injection h with h1 h2 _
              subst h1; subst h2
              exact ⟨hlen1, fun lu hlu => by
                obtain ⟨a, b', c⟩ := hbc1 lu hlu; exact ⟨a, b', Or.inl c⟩, fun _ => rfl, fun _ => rfl⟩
          · simp only [hsent, Bool.false_eq_true, if_false]
            have hnot : (!st.localSent && li == u.index) = false := by
              cases hx : (!st.localSent && li == u.index) with
              | false => rfl
              | true => rw [hx] at hsent; simp at hsent
            have hls : st.localSent = false := by
              cases hx : st.localSent with
              | false => rfl
              | true => rw [hx] at hsent; simp at hsent
            cases hfu : fillUnit pc (st.units.set u.index (some u)) with
            | none => exact ⟨(by intro st' bc b h; cases h), (by intro e bc b h; cases h)⟩
            | some u0 =>
              simp only [hnot, Bool.false_eq_true, if_false, List.nil_append]
              by_cases ct : st.count + 1 + 1 = s.receiveThreshold
              · simp only [ct, if_true]
                refine ⟨(by intro st' bc b h; cases h), ?_⟩
                intro e' bc b h
                injection h with _ h2 h3
                subst h2; subst h3
                refine ⟨by simp, ?_⟩
                intro lu hlu
                simp only [List.mem_singleton] at hlu
                subst hlu
                exact ⟨rfl, hls, Or.inr (by simp)⟩
              · simp only [ct, if_false]
                refine ⟨?_, (by intro e bc b h; cases h)⟩
                intro st' bc b h
                injection h with h1 h2 h3
                subst h1; subst h2; subst h3
                refine ⟨by simp, ?_, fun _ => rfl, fun _ => rfl⟩
                intro lu hlu
                simp only [List.mem_singleton] at hlu
                subst hlu
                exact ⟨rfl, hls, Or.inr (by simp)⟩


theorem subStep_firstInvalid_count [DecidableEq H] (cfg : Cfg) (pc : PCfg) (f : HashFns H) (rs : RS)
    (sg : SigScheme H) (s : Sched) (publisher : Bytes) (li : Nat) (st : SubState H) (u : PUnit H)
    (sender : Bytes) (h : subStep cfg pc f rs sg s publisher li st u sender = .firstInvalid) :
    st.count = 0 := by
  unfold subStep at h
  cases hb : st.built with
  | some x =>
    simp only [hb] at h
    cases hv : validate cfg f sg s publisher st.v u sender with
    | error e => simp [hv] at h
    | ok v' =>
      simp only [hv] at h
      by_cases c1 : u.index = li
      · simp [c1] at h
      · by_cases c2 : st.count + 1 = s.receiveThreshold <;> simp [c1, c2] at h
  | none =>
    simp only [hb] at h
    cases hv : validate cfg f sg s publisher st.v u sender with
    | error e =>
      simp only [hv] at h
      by_cases c0 : st.count = 0
      · exact c0
      · simp [c0] at h
    | ok v' =>
      simp only [hv] at h
      by_cases ck : st.count + 1 ≠ s.k
      · rw [if_pos ck] at h; cases h
      · rw [if_neg ck] at h
        cases hcn : construct cfg f rs (st.units.set u.index (some u)) li s.k s.c with
        | panic => simp [hcn] at h
        | err e => simp [hcn] at h
        | ok r =>
          obtain ⟨msg, shard, proof⟩ := r
          simp only [hcn] at h
          by_cases hsent : (st.localSent || (!st.localSent && li == u.index)) = true
          · simp only [hsent, if_true] at h
            by_cases ct : st.count + 1 = s.receiveThreshold <;> simp [ct] at h
          · simp only [hsent, Bool.false_eq_true, if_false] at h
            cases hfu : fillUnit pc (st.units.set u.index (some u)) with
            | none => simp [hfu] at h
            | some u0 =>
              simp only [hfu] at h
              by_cases ct : st.count + 1 + 1 = s.receiveThreshold <;> simp [ct] at h

/-- The local unit of message key `K` has been forwarded (or the message is finished). -/
def Sent [DecidableEq H] (p : Proc H) (K : MsgKey H) : Prop :=
  p.finalized.contains K = true ∨ ∃ st, p.findSub K = some st ∧ st.localSent = true

theorem procStep_bcast_marks_sent [DecidableEq H] (cfg : Cfg) (pc : PCfg) (f : HashFns H) (rs : RS)
    (sg : SigScheme H) (s : Sched) (p : Proc H) (u : PUnit H) (sender : Bytes)
    (bc : List (PUnit H)) (b : Option Bytes) (e : Option Bool)
    (h : (procStep cfg pc f rs sg s p u sender).2 = .handled bc b e) :
    bc.length ≤ 1 ∧ (bc ≠ [] → Sent (procStep cfg pc f rs sg s p u sender).1 (keyOf u)) ∧
    ∃ li, s.shardIndexFor u.publisher = .ok li ∧ ∀ lu ∈ bc, lu.index = li ∧ (lu = u ∨ b ≠ none) := by
  cases hk : keylessNew sg s p u with
  | true => exact absurd h (procStep_not_handled_of_keyless cfg pc f rs sg s p u sender hk _ _ _)
  | false =>
    rw [procStep_keyed cfg pc f rs sg s p u sender hk] at h ⊢
    unfold procStepCore at h ⊢
    by_cases hf : p.finalized.contains (keyOf u) = true
    · rw [if_pos hf] at h; cases h
    · rw [if_neg hf] at h ⊢
      cases hsi : s.shardIndexFor (keyOf u).publisher with
      | error e => simp [hsi] at h
      | ok li =>
        simp only [hsi] at h ⊢
        obtain ⟨hr, hfn⟩ := subStep_bcast_spec cfg pc f rs sg s (keyOf u).publisher li
          ((p.findSub (keyOf u)).getD (SubState.fresh s.total)) u sender
        cases hss : subStep cfg pc f rs sg s (keyOf u).publisher li
            ((p.findSub (keyOf u)).getD (SubState.fresh s.total)) u sender with
        | running st' bc' b' =>
          simp only [hss] at h ⊢
          injection h with h1 h2 _
          subst h1; subst h2
          obtain ⟨a1, a2, _, a4⟩ := hr st' bc' b' hss
          refine ⟨a1, fun hne => Or.inr ⟨st', by rw [findSub_setSub]; simp, a4 hne⟩, li, by simpa [keyOf] using hsi, ?_⟩
          intro lu hlu; exact ⟨(a2 lu hlu).1, (a2 lu hlu).2.2⟩
        | finished e' bc' b' =>
          simp only [hss] at h ⊢
          injection h with h1 h2 _
          subst h1; subst h2
          obtain ⟨a1, a2⟩ := hfn e' bc' b' hss
          refine ⟨a1, fun _ => Or.inl (by simp), li, by simpa [keyOf] using hsi, ?_⟩
          intro lu hlu; exact ⟨(a2 lu hlu).1, (a2 lu hlu).2.2⟩
        | firstInvalid =>
          simp only [hss] at h
          split at h
          · injection h with h1 _ _; subst h1
            exact ⟨by simp, fun hne => absurd rfl hne, li, by simpa [keyOf] using hsi, by simp⟩
          · injection h with h1 _ _; subst h1
            exact ⟨by simp, fun hne => absurd rfl hne, li, by simpa [keyOf] using hsi, by simp⟩
        | panic => simp [hss] at h

theorem procStep_sent_stable [DecidableEq H] (cfg : Cfg) (pc : PCfg) (f : HashFns H) (rs : RS)
    (sg : SigScheme H) (s : Sched) (p : Proc H) (hp : ProcInv s p) (K : MsgKey H) (hd : Sent p K)
    (u : PUnit H) (sender : Bytes) :
    Sent (procStep cfg pc f rs sg s p u sender).1 K ∧
    (keyOf u = K → ∀ bc b e, (procStep cfg pc f rs sg s p u sender).2 = .handled bc b e → bc = []) := by
  cases hk : keylessNew sg s p u with
  | true =>
    refine ⟨by rw [procStep_keyless cfg pc f rs sg s p u sender hk]; exact hd, fun _ bc b e h => ?_⟩
    exact absurd h (procStep_not_handled_of_keyless cfg pc f rs sg s p u sender hk _ _ _)
  | false =>
    rw [procStep_keyed cfg pc f rs sg s p u sender hk]
    unfold procStepCore
    by_cases hf : p.finalized.contains (keyOf u) = true
    · rw [if_pos hf]
      exact ⟨hd, fun _ bc b e h => by cases h⟩
    · rw [if_neg hf]
      cases hsi : s.shardIndexFor (keyOf u).publisher with
      | error e => exact ⟨hd, fun _ bc b e h => by cases h⟩
      | ok li =>
        simp only
        by_cases hkk : keyOf u = K
        · subst hkk
          rcases hd with hd | ⟨st, hfs, hls⟩
          · exact absurd hd hf
          · rw [hfs]
            simp only [Option.getD_some]
            obtain ⟨hr, hfn⟩ := subStep_bcast_spec cfg pc f rs sg s (keyOf u).publisher li st u sender
            have hcnt := (hp _ _ hfs).2.2
            cases hss : subStep cfg pc f rs sg s (keyOf u).publisher li st u sender with
            | running st' bc' b' =>
              obtain ⟨_, a2, a3, _⟩ := hr st' bc' b' hss
              simp only
              refine ⟨Or.inr ⟨st', by rw [findSub_setSub]; simp, a3 hls⟩, fun _ bc b e h => ?_⟩
              injection h with h1 _ _
              subst h1
              cases hbc : bc' with
              | nil => rfl
              | cons x xs =>
                have := (a2 x (by rw [hbc]; simp)).2.1
                rw [hls] at this; cases this
            | finished e' bc' b' =>
              obtain ⟨_, a2⟩ := hfn e' bc' b' hss
              simp only
              refine ⟨Or.inl (by simp), fun _ bc b e h => ?_⟩
              injection h with h1 _ _
              subst h1
              cases hbc : bc' with
              | nil => rfl
              | cons x xs =>
                have := (a2 x (by rw [hbc]; simp)).2.1
                rw [hls] at this; cases this
            | firstInvalid =>
              have := subStep_firstInvalid_count cfg pc f rs sg s _ li st u sender hss
              omega
            | panic => exact ⟨Or.inr ⟨st, hfs, hls⟩, fun _ bc b e h => by cases h⟩
        · have hne : ¬ K = keyOf u := fun e => hkk e.symm
          have hfind_set : ∀ st', (p.setSub (keyOf u) st').findSub K = p.findSub K := by
            intro st'; rw [findSub_setSub, if_neg hne]
          have hfind_drop : (p.dropSub (keyOf u)).findSub K = p.findSub K := by
            rw [findSub_dropSub, if_neg hne]
          have hcons : p.finalized.contains K = true → (keyOf u :: p.finalized).contains K = true := by
            intro h; simp only [List.contains_cons, h, Bool.or_true]
          have hs_set : ∀ st', Sent (p.setSub (keyOf u) st') K := by
            intro st'
            rcases hd with hd | ⟨st, hfs, hb⟩
            · exact Or.inl hd
            · exact Or.inr ⟨st, by rw [hfind_set]; exact hfs, hb⟩
          have hs_drop : Sent (p.dropSub (keyOf u)) K := by
            rcases hd with hd | ⟨st, hfs, hb⟩
            · exact Or.inl hd
            · exact Or.inr ⟨st, by rw [hfind_drop]; exact hfs, hb⟩
          have hs_fin : Sent (⟨keyOf u :: p.finalized, (p.dropSub (keyOf u)).subs⟩ : Proc H) K := by
            rcases hd with hd | ⟨st, hfs, hb⟩
            · exact Or.inl (hcons hd)
            · exact Or.inr ⟨st, by
                have : (⟨keyOf u :: p.finalized, (p.dropSub (keyOf u)).subs⟩ : Proc H).findSub K =
                    (p.dropSub (keyOf u)).findSub K := rfl
                rw [this, hfind_drop]; exact hfs, hb⟩
          cases subStep cfg pc f rs sg s (keyOf u).publisher li
              ((p.findSub (keyOf u)).getD (SubState.fresh s.total)) u sender with
          | running st' bc' b' => exact ⟨hs_set st', fun e => absurd e hkk⟩
          | finished e' bc' b' => exact ⟨hs_fin, fun e => absurd e hkk⟩
          | firstInvalid =>
            simp only
            split
            · exact ⟨hs_drop, fun e => absurd e hkk⟩
            · exact ⟨hs_fin, fun e => absurd e hkk⟩
          | panic => exact ⟨hd, fun e => absurd e hkk⟩

theorem procRun_no_bcast_after_sent [DecidableEq H] (cfg : Cfg) (pc : PCfg) (f : HashFns H) (rs : RS)
    (sg : SigScheme H) (s : Sched) (K : MsgKey H) :
    ∀ (ops : List (PUnit H × Bytes)) (p : Proc H), ProcInv s p → Sent p K →
    ∀ (j : Nat) (u : PUnit H) (sender : Bytes) (bc : List (PUnit H)) (b : Option Bytes) (e : Option Bool),
      ops[j]? = some (u, sender) → keyOf u = K →
      (procRun cfg pc f rs sg s p ops)[j]? = some (.handled bc b e) → bc = []
  | [], _, _, _, j, _, _, _, _, _, h, _, _ => by simp at h
  | (u0, s0) :: rest, p, hp, hd, 0, u, sender, bc, b, e, h, hk, hv => by
    simp only [List.getElem?_cons_zero, Option.some.injEq, Prod.mk.injEq] at h
    obtain ⟨rfl, rfl⟩ := h
    simp only [procRun, List.getElem?_cons_zero, Option.some.injEq] at hv
    exact (procStep_sent_stable cfg pc f rs sg s p hp K hd u0 s0).2 hk bc b e hv
  | (u0, s0) :: rest, p, hp, hd, j + 1, u, sender, bc, b, e, h, hk, hv => by
    simp only [List.getElem?_cons_succ] at h
    simp only [procRun, List.getElem?_cons_succ] at hv
    exact procRun_no_bcast_after_sent cfg pc f rs sg s K rest _
      (procStep_inv cfg pc f rs sg s p u0 s0 hp)
      (procStep_sent_stable cfg pc f rs sg s p hp K hd u0 s0).1 j u sender bc b e h hk hv

/-- Over any sequence of units from a reachable state: the local unit of a message key is handed to
`broadcastUnit` at most once. -/
theorem procRun_broadcasts_at_most_once [DecidableEq H] (cfg : Cfg) (pc : PCfg) (f : HashFns H) (rs : RS)
    (sg : SigScheme H) (s : Sched) :
    ∀ (ops : List (PUnit H × Bytes)) (p : Proc H), ProcInv s p → ∀ (i j : Nat), i < j →
    ∀ (ui uj : PUnit H) (si sj : Bytes) (bi bj : List (PUnit H)) (mi mj : Option Bytes) (ei ej : Option Bool),
      ops[i]? = some (ui, si) → ops[j]? = some (uj, sj) → keyOf ui = keyOf uj →
      (procRun cfg pc f rs sg s p ops)[i]? = some (.handled bi mi ei) → bi ≠ [] →
      (procRun cfg pc f rs sg s p ops)[j]? = some (.handled bj mj ej) → bj = []
  | [], _, _, i, j, _, _, _, _, _, _, _, _, _, _, _, h, _, _, _, _, _ => by simp at h
  | (u0, s0) :: rest, p, hp, 0, j + 1, _, ui, uj, si, sj, bi, bj, mi, mj, ei, ej, hi, hj, hk, hbi, hne, hbj => by
    simp only [List.getElem?_cons_zero, Option.some.injEq, Prod.mk.injEq] at hi
    obtain ⟨rfl, rfl⟩ := hi
    simp only [List.getElem?_cons_succ] at hj
    simp only [procRun, List.getElem?_cons_zero, Option.some.injEq] at hbi
    simp only [procRun, List.getElem?_cons_succ] at hbj
    exact procRun_no_bcast_after_sent cfg pc f rs sg s (keyOf u0) rest _
      (procStep_inv cfg pc f rs sg s p u0 s0 hp)
      ((procStep_bcast_marks_sent cfg pc f rs sg s p u0 s0 bi mi ei hbi).2.1 hne) j uj sj bj mj ej hj hk.symm hbj
  | (u0, s0) :: rest, p, hp, i + 1, j + 1, hij, ui, uj, si, sj, bi, bj, mi, mj, ei, ej, hi, hj, hk, hbi, hne, hbj => by
    simp only [List.getElem?_cons_succ] at hi hj
    simp only [procRun, List.getElem?_cons_succ] at hbi hbj
    exact procRun_broadcasts_at_most_once cfg pc f rs sg s rest _
      (procStep_inv cfg pc f rs sg s p u0 s0 hp) i j (by omega) ui uj si sj bi bj mi mj ei ej
      hi hj hk hbi hne hbj

end Juno.C19
