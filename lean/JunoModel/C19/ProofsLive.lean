import JunoModel.C19.ProofsProc
import JunoModel.C19.ProofsValidator
/-
C19 — liveness of the processor model: `k` distinct honest units of one message, each from its
designated sender, in ANY order, make the processor build exactly the message and broadcast the
publisher's local unit exactly once (with `localFromPresent`; the code in /repo panics instead
unless shard 0 or the local shard is among them — `processor_panics_without_shard0_current`).
Core Lean only.
-/
namespace Juno.C19

variable {H : Type}
set_option linter.unusedSectionVars false

/-! ### the slots of a subprocessor that has accepted the honest units with indices `acc` -/

/-- `unitsReceived` after the units `hu i` for `i` in `acc` (latest first) were stored. -/
def slotsOf (hu : Nat → PUnit H) (n : Nat) : List Nat → List (Option (PUnit H))
  | [] => List.replicate n none
  | i :: acc => (slotsOf hu n acc).set i (some (hu i))

theorem slotsOf_length (hu : Nat → PUnit H) (n : Nat) : ∀ acc, (slotsOf hu n acc).length = n
  | [] => by simp [slotsOf]
  | _ :: acc => by simp [slotsOf, slotsOf_length hu n acc]

theorem slotsOf_getElem? (hu : Nat → PUnit H) (n : Nat) : ∀ (acc : List Nat) (j : Nat),
    (slotsOf hu n acc)[j]? =
      if j < n then (if j ∈ acc then some (some (hu j)) else some none) else none
  | [], j => by
    simp only [slotsOf, List.getElem?_replicate, List.not_mem_nil, if_false]
  | i :: acc, j => by
    simp only [slotsOf, List.getElem?_set, slotsOf_length, slotsOf_getElem? hu n acc j, List.mem_cons]
    by_cases hij : i = j
    · subst hij; simp
    · have hji : ¬ j = i := fun e => hij e.symm
      simp [hij, hji]

/-- The mask "index is in `acc`". -/
def maskOfIdx (n : Nat) (acc : List Nat) : List Bool := (List.range n).map (fun j => decide (j ∈ acc))

theorem slotsOf_eq_mask (hu : Nat → PUnit H) (n : Nat) (units : List (PUnit H))
    (hlen : units.length = n) (hget : ∀ i, i < n → units[i]? = some (hu i)) (acc : List Nat) :
    slotsOf hu n acc = maskUnits (maskOfIdx n acc) units := by
  apply List.ext_getElem?
  intro j
  rw [slotsOf_getElem?]
  unfold maskUnits maskOfIdx
  rw [List.getElem?_zipWith]
  by_cases hj : j < n
  · rw [if_pos hj, hget j hj]
    simp only [List.getElem?_map, List.getElem?_range hj, Option.map_some]
    by_cases hm : j ∈ acc <;> simp [hm]
  · rw [if_neg hj]
    have : units[j]? = none := by rw [List.getElem?_eq_none_iff]; omega
    simp [this]

theorem count_range_mem : ∀ (n : Nat) (l : List Nat), l.Nodup → (∀ x ∈ l, x < n) →
    ((List.range n).map (fun j => decide (j ∈ l))).count true = l.length
  | 0, l, _, hlt => by
    cases l with
    | nil => simp
    | cons a _ => exact absurd (hlt a (by simp)) (by omega)
  | n + 1, l, hnd, hlt => by
    rw [List.range_succ, List.map_append, List.count_append]
    by_cases hn : n ∈ l
    · have hnd' : (l.erase n).Nodup := hnd.erase n
      have hlt' : ∀ x ∈ l.erase n, x < n := by
        intro x hx
        have hx' := (List.Nodup.mem_erase_iff hnd).mp hx
        have := hlt x hx'.2
        omega
      have ih := count_range_mem n (l.erase n) hnd' hlt'
      have hcongr : (List.range n).map (fun j => decide (j ∈ l)) =
          (List.range n).map (fun j => decide (j ∈ l.erase n)) := by
        apply List.map_congr_left
        intro j hj
        have hjn : j ≠ n := by have := List.mem_range.mp hj; omega
        simp [List.mem_erase_of_ne hjn]
      rw [hcongr, ih, List.length_erase_of_mem hn]
      have : 0 < l.length := List.length_pos_of_mem hn
      simp [hn]; omega
    · have hlt' : ∀ x ∈ l, x < n := by
        intro x hx
        have := hlt x hx
        have : x ≠ n := fun e => hn (e ▸ hx)
        omega
      rw [count_range_mem n l hnd hlt']
      simp [hn]

/-! ### honest units at a subprocessor -/

section Live
variable [DecidableEq H] (f : HashFns H) (rs : RS) (sg : SigScheme H) (s : Sched) (C P : Bytes)
  (nonce : Nat) (msg : Bytes)

/-- Unit `i` of the publisher (code in /repo). -/
abbrev hUnit (i : Nat) : PUnit H := honestUnit Cfg.current f rs sg C P nonce msg s.k s.c i

/-- The publisher's signature. -/
abbrev hSig : Bytes := sg.sign ⟨(treeOf Cfg.current f rs msg s.k s.c).1, C, nonce⟩

/-- The message key of the publisher's units. -/
abbrev hKey : MsgKey H := ⟨C, P, (treeOf Cfg.current f rs msg s.k s.c).1, nonce⟩

theorem keyOf_hUnit (i : Nat) : keyOf (hUnit f rs sg s C P nonce msg i) = hKey f rs s C P nonce msg := rfl

/-- The subprocessor's state after accepting the honest units with indices `acc` (latest first),
before the build. -/
def liveState (li : Nat) (acc : List Nat) : SubState H :=
  ⟨⟨acc, match acc with | [] => none | _ :: _ => some (hSig f rs sg s C nonce msg)⟩,
   slotsOf (hUnit f rs sg s C P nonce msg) s.total acc, acc.length, decide (li ∈ acc), none⟩

theorem liveState_nil (li : Nat) :
    liveState f rs sg s C P nonce msg li [] = SubState.fresh s.total := by
  simp [liveState, SubState.fresh, VState.fresh, slotsOf]

/-- The hypotheses on the signature scheme: signing then verifying succeeds, signatures are not
empty. -/
def SigOk : Prop :=
  hSig f rs sg s C nonce msg ≠ [] ∧
  sg.verify P ⟨(treeOf Cfg.current f rs msg s.k s.c).1, C, nonce⟩ (hSig f rs sg s C nonce msg) = true

theorem validate_live (hl : RSLaws rs s.k s.c) (hin : PadInput msg s.k)
    (hsig : SigOk f rs sg s C P nonce msg) (li : Nat) (acc : List Nat) (i : Nat) (snd : Bytes)
    (hi : i < s.k + s.c) (hnew : i ∉ acc) (horig : s.validateOrigin snd P i = .ok ()) :
    validate Cfg.current f sg s P (liveState f rs sg s C P nonce msg li acc).v
        (hUnit f rs sg s C P nonce msg i) snd =
      .ok ⟨i :: acc, some (hSig f rs sg s C nonce msg)⟩ := by
  have := validate_accepts_honest Cfg.current f rs sg s C P nonce msg s.k s.c i rfl hl hin hi
    (liveState f rs sg s C P nonce msg li acc).v (by simpa [liveState] using hnew) snd horig
    (by
      cases acc with
      | nil => exact Or.inr ⟨rfl, hsig.1, hsig.2⟩
      | cons a t => exact Or.inl rfl)
  simpa [liveState] using this

theorem slotsOf_cons (hu : Nat → PUnit H) (n i : Nat) (acc : List Nat) :
    (slotsOf hu n acc).set i (some (hu i)) = slotsOf hu n (i :: acc) := rfl

/-- An honest unit that does not complete the build threshold: stored, counted; broadcast iff it
is the local one. -/
theorem subStep_live_running (pc : PCfg) (hl : RSLaws rs s.k s.c) (hin : PadInput msg s.k)
    (hsig : SigOk f rs sg s C P nonce msg) (li : Nat) (acc : List Nat) (i : Nat) (snd : Bytes)
    (hi : i < s.k + s.c) (hnew : i ∉ acc) (horig : s.validateOrigin snd P i = .ok ())
    (hcnt : acc.length + 1 ≠ s.k) :
    subStep Cfg.current pc f rs sg s P li (liveState f rs sg s C P nonce msg li acc)
        (hUnit f rs sg s C P nonce msg i) snd =
      .running (liveState f rs sg s C P nonce msg li (i :: acc))
        (if li = i then [hUnit f rs sg s C P nonce msg i] else []) none := by
  have hv := validate_live f rs sg s C P nonce msg hl hin hsig li acc i snd hi hnew horig
  have hb : (liveState f rs sg s C P nonce msg li acc).built = none := rfl
  unfold subStep
  simp only [hb, hv]
  have hidx : (hUnit f rs sg s C P nonce msg i).index = i := rfl
  simp only [hidx]
  have hc : (liveState f rs sg s C P nonce msg li acc).count = acc.length := rfl
  simp only [hc]
  rw [if_pos hcnt]
  by_cases hli : li = i
  · subst hli
    simp [liveState, slotsOf_cons, hnew]
  · have : li ∉ acc ∨ li ∈ acc := (Classical.em _).symm
    simp [liveState, slotsOf_cons, hli]

/-- ConstructMessageFromUnits on the slots holding the honest units `acc` (at least `k` distinct
indices): the message, the local shard, its proof. -/
theorem construct_live (hl : RSLaws rs s.k s.c) (hin : PadInput msg s.k)
    (hok : rsNewOk s.k s.c = true) (hsmall : msg.length < 2 ^ 40)
    (acc : List Nat) (hnd : acc.Nodup) (hlt : ∀ x ∈ acc, x < s.k + s.c) (hk : s.k ≤ acc.length)
    (li : Nat) (hli : li < s.k + s.c) :
    construct Cfg.current f rs (slotsOf (hUnit f rs sg s C P nonce msg) s.total acc) li s.k s.c =
      .ok (msg, (encOf rs msg s.k s.c).getD li [], (treeOf Cfg.current f rs msg s.k s.c).2.getD li []) := by
  obtain ⟨units, hc, hlen, hget⟩ := createUnits_spec Cfg.current f rs sg C P nonce msg s.k s.c hl hin hok
  rw [slotsOf_eq_mask _ s.total units hlen hget acc]
  rw [createUnits_eq Cfg.current f rs sg C P nonce msg s.k s.c hin.1 hok] at hc
  injection hc with hc
  subst hc
  exact construct_created Cfg.current f rs C P _ _ msg s.k s.c hl hin hok
    (goSized_of_small rs msg s.k s.c hl hin hok hsmall) (maskOfIdx s.total acc)
    (by simp [maskOfIdx, Sched.total])
    (by unfold maskOfIdx Sched.total; rw [count_range_mem _ acc hnd hlt]; exact hk) (Or.inl rfl) li hli

/-- With `localFromPresent` the template of the local unit is one of the honest units. -/
theorem fillUnit_live (pc : PCfg) (hfix : pc.localFromPresent = true) (i : Nat) (acc : List Nat)
    (hi : i < s.total) :
    ∃ j, fillUnit pc (slotsOf (hUnit f rs sg s C P nonce msg) s.total (i :: acc)) =
      some (hUnit f rs sg s C P nonce msg j) := by
  unfold fillUnit
  rw [if_pos hfix]
  have hmem : hUnit f rs sg s C P nonce msg i ∈
      (slotsOf (hUnit f rs sg s C P nonce msg) s.total (i :: acc)).filterMap id := by
    rw [List.mem_filterMap]
    refine ⟨some (hUnit f rs sg s C P nonce msg i), ?_, rfl⟩
    rw [List.mem_iff_getElem?]
    exact ⟨i, by rw [slotsOf_getElem?]; simp [hi]⟩
  cases hh : ((slotsOf (hUnit f rs sg s C P nonce msg) s.total (i :: acc)).filterMap id) with
  | nil => rw [hh] at hmem; simp at hmem
  | cons u0 t =>
    have hu0 : u0 ∈ (slotsOf (hUnit f rs sg s C P nonce msg) s.total (i :: acc)).filterMap id := by
      rw [hh]; simp
    rw [List.mem_filterMap] at hu0
    obtain ⟨o, ho, hid⟩ := hu0
    simp only [id] at hid
    subst hid
    rw [List.mem_iff_getElem?] at ho
    obtain ⟨j, hj⟩ := ho
    rw [slotsOf_getElem?] at hj
    refine ⟨j, ?_⟩
    simp only [List.head?_cons]
    by_cases hjn : j < s.total
    · rw [if_pos hjn] at hj
      by_cases hjm : j ∈ i :: acc
      · rw [if_pos hjm] at hj
        injection hj with hj
        injection hj with hj
        rw [hj]
      · rw [if_neg hjm] at hj; injection hj with hj; cases hj
    · rw [if_neg hjn] at hj; cases hj

/-- The honest unit that completes the build threshold: the message is built — exactly `msg` —
and the publisher's local unit is broadcast unless it was before. -/
theorem subStep_live_build (pc : PCfg) (hfix : pc.localFromPresent = true)
    (hl : RSLaws rs s.k s.c) (hin : PadInput msg s.k) (hok : rsNewOk s.k s.c = true)
    (hsmall : msg.length < 2 ^ 40)
    (hsig : SigOk f rs sg s C P nonce msg) (li : Nat) (hli : li < s.k + s.c)
    (acc : List Nat) (i : Nat) (snd : Bytes)
    (hi : i < s.k + s.c) (hnew : i ∉ acc) (horig : s.validateOrigin snd P i = .ok ())
    (hnd : acc.Nodup) (hlt : ∀ x ∈ acc, x < s.k + s.c) (hcnt : acc.length + 1 = s.k) :
    ∃ bc, (subStep Cfg.current pc f rs sg s P li (liveState f rs sg s C P nonce msg li acc)
              (hUnit f rs sg s C P nonce msg i) snd = .finished false bc (some msg) ∨
           ∃ st, subStep Cfg.current pc f rs sg s P li (liveState f rs sg s C P nonce msg li acc)
              (hUnit f rs sg s C P nonce msg i) snd = .running st bc (some msg)) ∧
      bc = (if li = i then [hUnit f rs sg s C P nonce msg i] else []) ++
           (if li ∈ i :: acc then [] else [hUnit f rs sg s C P nonce msg li]) := by
  have hv := validate_live f rs sg s C P nonce msg hl hin hsig li acc i snd hi hnew horig
  have hcon := construct_live f rs sg s C P nonce msg hl hin hok hsmall (i :: acc)
    (List.nodup_cons.mpr ⟨hnew, hnd⟩)
    (by intro x hx; rcases List.mem_cons.mp hx with h | h; exact h ▸ hi; exact hlt x h)
    (by simp; omega) li hli
  obtain ⟨j, hfill⟩ := fillUnit_live f rs sg s C P nonce msg pc hfix i acc hi
  have hb : (liveState f rs sg s C P nonce msg li acc).built = none := rfl
  have hidx : (hUnit f rs sg s C P nonce msg i).index = i := rfl
  have hc : (liveState f rs sg s C P nonce msg li acc).count = acc.length := rfl
  have hu : (liveState f rs sg s C P nonce msg li acc).units =
      slotsOf (hUnit f rs sg s C P nonce msg) s.total acc := rfl
  have hs : (liveState f rs sg s C P nonce msg li acc).localSent = decide (li ∈ acc) := rfl
  unfold subStep
  simp only [hb, hv, hidx, hc, hu, hs, slotsOf_cons]
  rw [if_neg (by simpa using hcnt)]
  simp only [hcon]
  by_cases hli' : li = i
  · subst hli'
    have : (!decide (li ∈ acc) && li == li) = true := by simp [hnew]
    simp only [this, Bool.or_true, if_true]
    by_cases hr : acc.length + 1 = s.receiveThreshold
    · rw [if_pos hr]; exact ⟨_, Or.inl rfl, by simp⟩
    · rw [if_neg hr]; exact ⟨_, Or.inr ⟨_, rfl⟩, by simp⟩
  · have hbeq : (li == i) = false := by simpa using hli'
    simp only [hbeq, Bool.and_false, Bool.or_false, Bool.false_eq_true, if_false]
    by_cases hm : li ∈ acc
    · simp only [hm, decide_true, if_true]
      by_cases hr : acc.length + 1 = s.receiveThreshold
      · rw [if_pos hr]; exact ⟨_, Or.inl rfl, by simp [hli', hm]⟩
      · rw [if_neg hr]; exact ⟨_, Or.inr ⟨_, rfl⟩, by simp [hli', hm]⟩
    · simp only [hm, decide_false, Bool.false_eq_true, if_false, hfill]
      have hlu : (⟨(hUnit f rs sg s C P nonce msg j).committee, (hUnit f rs sg s C P nonce msg j).publisher,
          (hUnit f rs sg s C P nonce msg j).root, (treeOf Cfg.current f rs msg s.k s.c).2.getD li [],
          (hUnit f rs sg s C P nonce msg j).sig, li, [(encOf rs msg s.k s.c).getD li []],
          (hUnit f rs sg s C P nonce msg j).nonce⟩ : PUnit H) = hUnit f rs sg s C P nonce msg li := rfl
      simp only [hlu]
      by_cases hr : acc.length + 1 + 1 = s.receiveThreshold
      · rw [if_pos hr]; exact ⟨_, Or.inl rfl, by simp [hli', hm]⟩
      · rw [if_neg hr]; exact ⟨_, Or.inr ⟨_, rfl⟩, by simp [hli', hm]⟩

/-! ### honest units at the processor -/

/-- The units one step hands to `broadcastUnit`. -/
def ProcOut.bcast : ProcOut H → List (PUnit H)
  | .handled bc _ _ => bc
  | _ => []

/-- The processor has not finished the message and holds exactly the honest units `acc` of it. -/
def LiveAt (p : Proc H) (li : Nat) (acc : List Nat) : Prop :=
  p.finalized.contains (hKey f rs s C P nonce msg) = false ∧
  (p.findSub (hKey f rs s C P nonce msg)).getD (SubState.fresh s.total) =
    liveState f rs sg s C P nonce msg li acc

theorem keylessNew_live (hkey : sg.hasKey P = true) (p : Proc H) (i : Nat) :
    keylessNew sg s p (hUnit f rs sg s C P nonce msg i) = false := by
  unfold keylessNew
  have : (keyOf (hUnit f rs sg s C P nonce msg i)).publisher = P := rfl
  rw [this, hkey]; simp

theorem procStep_live_running (pc : PCfg) (hkey : sg.hasKey P = true) (hl : RSLaws rs s.k s.c)
    (hin : PadInput msg s.k) (hsig : SigOk f rs sg s C P nonce msg) (li : Nat)
    (hshard : s.shardIndexFor P = .ok li) (p : Proc H) (acc : List Nat)
    (hp : LiveAt f rs sg s C P nonce msg p li acc) (i : Nat) (snd : Bytes)
    (hi : i < s.k + s.c) (hnew : i ∉ acc) (horig : s.validateOrigin snd P i = .ok ())
    (hcnt : acc.length + 1 ≠ s.k) :
    (procStep Cfg.current pc f rs sg s p (hUnit f rs sg s C P nonce msg i) snd).2 =
        .handled (if li = i then [hUnit f rs sg s C P nonce msg i] else []) none none ∧
    LiveAt f rs sg s C P nonce msg
      (procStep Cfg.current pc f rs sg s p (hUnit f rs sg s C P nonce msg i) snd).1 li (i :: acc) := by
  rw [procStep_keyed _ _ _ _ _ _ _ _ _ (keylessNew_live f rs sg s C P nonce msg hkey p i)]
  unfold procStepCore
  rw [keyOf_hUnit, if_neg (by rw [hp.1]; simp)]
  have hpub : (hKey f rs s C P nonce msg).publisher = P := rfl
  simp only [hshard, hp.2,
    subStep_live_running f rs sg s C P nonce msg pc hl hin hsig li acc i snd hi hnew horig hcnt]
  refine ⟨trivial, ?_, ?_⟩
  · exact hp.1
  · rw [findSub_setSub]; simp

theorem procStep_live_build (pc : PCfg) (hfix : pc.localFromPresent = true)
    (hkey : sg.hasKey P = true) (hl : RSLaws rs s.k s.c)
    (hin : PadInput msg s.k) (hok : rsNewOk s.k s.c = true) (hsmall : msg.length < 2 ^ 40)
    (hsig : SigOk f rs sg s C P nonce msg) (li : Nat) (hli : li < s.k + s.c)
    (hshard : s.shardIndexFor P = .ok li) (p : Proc H) (acc : List Nat)
    (hp : LiveAt f rs sg s C P nonce msg p li acc) (i : Nat) (snd : Bytes)
    (hi : i < s.k + s.c) (hnew : i ∉ acc) (horig : s.validateOrigin snd P i = .ok ())
    (hnd : acc.Nodup) (hlt : ∀ x ∈ acc, x < s.k + s.c) (hcnt : acc.length + 1 = s.k) :
    ∃ e, (procStep Cfg.current pc f rs sg s p (hUnit f rs sg s C P nonce msg i) snd).2 =
      .handled ((if li = i then [hUnit f rs sg s C P nonce msg i] else []) ++
           (if li ∈ i :: acc then [] else [hUnit f rs sg s C P nonce msg li])) (some msg) e := by
  rw [procStep_keyed _ _ _ _ _ _ _ _ _ (keylessNew_live f rs sg s C P nonce msg hkey p i)]
  unfold procStepCore
  rw [keyOf_hUnit, if_neg (by rw [hp.1]; simp)]
  have hpub : (hKey f rs s C P nonce msg).publisher = P := rfl
  obtain ⟨bc, hsub, hbc⟩ := subStep_live_build f rs sg s C P nonce msg pc hfix hl hin hok hsmall hsig
    li hli acc i snd hi hnew horig hnd hlt hcnt
  simp only [hshard, hp.2]
  rcases hsub with h | ⟨st, h⟩
  · rw [h]; exact ⟨some false, by rw [hbc]⟩
  · rw [h]; exact ⟨none, by rw [hbc]⟩

/-- The honest run. `rest` are the indices still to come, `acc` those already accepted. -/
theorem procRun_live (pc : PCfg) (hfix : pc.localFromPresent = true)
    (hkey : sg.hasKey P = true) (hl : RSLaws rs s.k s.c)
    (hin : PadInput msg s.k) (hok : rsNewOk s.k s.c = true) (hsmall : msg.length < 2 ^ 40)
    (hsig : SigOk f rs sg s C P nonce msg) (li : Nat) (hli : li < s.k + s.c)
    (hshard : s.shardIndexFor P = .ok li) (snd : Nat → Bytes)
    (hsend : ∀ i, i < s.k + s.c → s.validateOrigin (snd i) P i = .ok ()) :
    ∀ (rest acc : List Nat) (p : Proc H), LiveAt f rs sg s C P nonce msg p li acc →
      rest ≠ [] → rest.Nodup → acc.Nodup → (∀ x ∈ rest, x ∉ acc) →
      (∀ x ∈ rest, x < s.k + s.c) → (∀ x ∈ acc, x < s.k + s.c) → rest.length + acc.length = s.k →
      ∃ pre bc e,
        procRun Cfg.current pc f rs sg s p
            (rest.map (fun i => (hUnit f rs sg s C P nonce msg i, snd i))) =
          pre ++ [.handled bc (some msg) e] ∧
        (∀ o ∈ pre, ∃ b, o = .handled b none none) ∧
        (pre ++ [.handled bc (some msg) e]).flatMap ProcOut.bcast =
          (if li ∈ acc then [] else [hUnit f rs sg s C P nonce msg li])
  | [], _, _, _, hne, _, _, _, _, _, _ => absurd rfl hne
  | [i], acc, p, hp, _, _, hnda, hdis, hltr, hlta, hlen => by
    have hi := hltr i (by simp)
    have hnew := hdis i (by simp)
    obtain ⟨e, h⟩ := procStep_live_build f rs sg s C P nonce msg pc hfix hkey hl hin hok hsmall hsig
      li hli hshard p acc hp i (snd i) hi hnew (hsend i hi) hnda hlta (by simp at hlen; omega)
    refine ⟨[], (if li = i then [hUnit f rs sg s C P nonce msg i] else []) ++
           (if li ∈ i :: acc then [] else [hUnit f rs sg s C P nonce msg li]), e, ?_, by simp, ?_⟩
    · simp only [List.map_cons, List.map_nil, procRun, List.nil_append]; rw [h]
    simp only [List.nil_append, List.flatMap_cons, List.flatMap_nil, ProcOut.bcast, List.append_nil]
    by_cases h1 : li = i
    · subst h1; simp [hnew]
    · by_cases h2 : li ∈ acc <;> simp [h1, h2]
  | i :: j :: rest, acc, p, hp, _, hndr, hnda, hdis, hltr, hlta, hlen => by
    have hi := hltr i (by simp)
    have hnew := hdis i (by simp)
    have hcnt : acc.length + 1 ≠ s.k := by simp at hlen; omega
    obtain ⟨hout, hp'⟩ := procStep_live_running f rs sg s C P nonce msg pc hkey hl hin hsig li hshard
      p acc hp i (snd i) hi hnew (hsend i hi) hcnt
    have hndr' := (List.nodup_cons.mp hndr)
    obtain ⟨pre, bc, e, hrun, hpre, hb⟩ := procRun_live pc hfix hkey hl hin hok hsmall hsig li hli hshard
      snd hsend (j :: rest) (i :: acc) _ hp' (by simp) hndr'.2
      (List.nodup_cons.mpr ⟨hnew, hnda⟩)
      (by
        intro x hx hxa
        rcases List.mem_cons.mp hxa with h | h
        · subst h; exact hndr'.1 hx
        · exact hdis x (List.mem_cons_of_mem _ hx) h)
      (fun x hx => hltr x (List.mem_cons_of_mem _ hx))
      (by intro x hx; rcases List.mem_cons.mp hx with h | h; exact h ▸ hi; exact hlta x h)
      (by simp at hlen ⊢; omega)
    refine ⟨(procStep Cfg.current pc f rs sg s p (hUnit f rs sg s C P nonce msg i) (snd i)).2 :: pre, bc, e, ?_, ?_, ?_⟩
    · rw [List.map_cons]
      show _ :: procRun Cfg.current pc f rs sg s _ _ = _
      rw [hrun]; rfl
    · intro o ho
      rcases List.mem_cons.mp ho with h | h
      · exact ⟨_, h.trans hout⟩
      · exact hpre o h
    · simp only [List.cons_append, List.flatMap_cons, hb, hout, ProcOut.bcast]
      by_cases h1 : li = i
      · subst h1; simp [hnew]
      · by_cases h2 : li ∈ acc <;> simp [h1, h2]

/-! ### the code in /repo (`localFromPresent = false`): the same run panics unless shard 0 or the
local shard is among the units -/

theorem subStep_live_build_panics (pc : PCfg) (hpin : pc.localFromPresent = false)
    (hl : RSLaws rs s.k s.c) (hin : PadInput msg s.k) (hok : rsNewOk s.k s.c = true)
    (hsmall : msg.length < 2 ^ 40)
    (hsig : SigOk f rs sg s C P nonce msg) (li : Nat) (hli : li < s.k + s.c)
    (acc : List Nat) (i : Nat) (snd : Bytes)
    (hi : i < s.k + s.c) (hnew : i ∉ acc) (horig : s.validateOrigin snd P i = .ok ())
    (hnd : acc.Nodup) (hlt : ∀ x ∈ acc, x < s.k + s.c) (hcnt : acc.length + 1 = s.k)
    (h0 : 0 ∉ i :: acc) (hloc : li ∉ i :: acc) :
    subStep Cfg.current pc f rs sg s P li (liveState f rs sg s C P nonce msg li acc)
      (hUnit f rs sg s C P nonce msg i) snd = .panic := by
  have hv := validate_live f rs sg s C P nonce msg hl hin hsig li acc i snd hi hnew horig
  have hcon := construct_live f rs sg s C P nonce msg hl hin hok hsmall (i :: acc)
    (List.nodup_cons.mpr ⟨hnew, hnd⟩)
    (by intro x hx; rcases List.mem_cons.mp hx with h | h; exact h ▸ hi; exact hlt x h)
    (by simp; omega) li hli
  have hfill : fillUnit pc (slotsOf (hUnit f rs sg s C P nonce msg) s.total (i :: acc)) = none := by
    unfold fillUnit
    rw [if_neg (by rw [hpin]; simp)]
    have h := slotsOf_getElem? (hUnit f rs sg s C P nonce msg) s.total (i :: acc) 0
    rw [if_pos (by unfold Sched.total; omega), if_neg h0] at h
    cases hs : slotsOf (hUnit f rs sg s C P nonce msg) s.total (i :: acc) with
    | nil => rfl
    | cons a t => rw [hs] at h; simp at h; simp [h]
  have hb : (liveState f rs sg s C P nonce msg li acc).built = none := rfl
  have hidx : (hUnit f rs sg s C P nonce msg i).index = i := rfl
  have hc : (liveState f rs sg s C P nonce msg li acc).count = acc.length := rfl
  have hu : (liveState f rs sg s C P nonce msg li acc).units =
      slotsOf (hUnit f rs sg s C P nonce msg) s.total acc := rfl
  have hs : (liveState f rs sg s C P nonce msg li acc).localSent = decide (li ∈ acc) := rfl
  have hli' : li ≠ i := fun e => hloc (by simp [e])
  have hm : li ∉ acc := fun e => hloc (by simp [e])
  have hbeq : (li == i) = false := by simpa using hli'
  unfold subStep
  simp only [hb, hv, hidx, hc, hu, hs, slotsOf_cons]
  rw [if_neg (by simpa using hcnt)]
  simp only [hcon, hbeq, hm, decide_false, Bool.and_false, Bool.or_false, Bool.false_eq_true, if_false,
    hfill]

theorem procStep_live_build_panics (pc : PCfg) (hpin : pc.localFromPresent = false)
    (hkey : sg.hasKey P = true) (hl : RSLaws rs s.k s.c)
    (hin : PadInput msg s.k) (hok : rsNewOk s.k s.c = true) (hsmall : msg.length < 2 ^ 40)
    (hsig : SigOk f rs sg s C P nonce msg) (li : Nat) (hli : li < s.k + s.c)
    (hshard : s.shardIndexFor P = .ok li) (p : Proc H) (acc : List Nat)
    (hp : LiveAt f rs sg s C P nonce msg p li acc) (i : Nat) (snd : Bytes)
    (hi : i < s.k + s.c) (hnew : i ∉ acc) (horig : s.validateOrigin snd P i = .ok ())
    (hnd : acc.Nodup) (hlt : ∀ x ∈ acc, x < s.k + s.c) (hcnt : acc.length + 1 = s.k)
    (h0 : 0 ∉ i :: acc) (hloc : li ∉ i :: acc) :
    (procStep Cfg.current pc f rs sg s p (hUnit f rs sg s C P nonce msg i) snd).2 = .panic := by
  rw [procStep_keyed _ _ _ _ _ _ _ _ _ (keylessNew_live f rs sg s C P nonce msg hkey p i)]
  unfold procStepCore
  rw [keyOf_hUnit, if_neg (by rw [hp.1]; simp)]
  have hpub : (hKey f rs s C P nonce msg).publisher = P := rfl
  simp only [hshard, hp.2, subStep_live_build_panics f rs sg s C P nonce msg pc hpin hl hin hok hsmall
    hsig li hli acc i snd hi hnew horig hnd hlt hcnt h0 hloc]

theorem procRun_live_panics (pc : PCfg) (hpin : pc.localFromPresent = false)
    (hkey : sg.hasKey P = true) (hl : RSLaws rs s.k s.c)
    (hin : PadInput msg s.k) (hok : rsNewOk s.k s.c = true) (hsmall : msg.length < 2 ^ 40)
    (hsig : SigOk f rs sg s C P nonce msg) (li : Nat) (hli : li < s.k + s.c)
    (hshard : s.shardIndexFor P = .ok li) (snd : Nat → Bytes)
    (hsend : ∀ i, i < s.k + s.c → s.validateOrigin (snd i) P i = .ok ()) :
    ∀ (rest acc : List Nat) (p : Proc H), LiveAt f rs sg s C P nonce msg p li acc →
      rest ≠ [] → rest.Nodup → acc.Nodup → (∀ x ∈ rest, x ∉ acc) →
      (∀ x ∈ rest, x < s.k + s.c) → (∀ x ∈ acc, x < s.k + s.c) → rest.length + acc.length = s.k →
      0 ∉ rest ++ acc → li ∉ rest ++ acc →
      ∃ pre,
        procRun Cfg.current pc f rs sg s p
            (rest.map (fun i => (hUnit f rs sg s C P nonce msg i, snd i))) = pre ++ [.panic] ∧
        (∀ o ∈ pre, o = .handled [] none none)
  | [], _, _, _, hne, _, _, _, _, _, _, _, _ => absurd rfl hne
  | [i], acc, p, hp, _, _, hnda, hdis, hltr, hlta, hlen, h0, hloc => by
    have hi := hltr i (by simp)
    have hnew := hdis i (by simp)
    have h := procStep_live_build_panics f rs sg s C P nonce msg pc hpin hkey hl hin hok hsmall hsig
      li hli hshard p acc hp i (snd i) hi hnew (hsend i hi) hnda hlta (by simp at hlen; omega)
      (by simpa using h0) (by simpa using hloc)
    refine ⟨[], ?_, by simp⟩
    simp only [List.map_cons, List.map_nil, procRun, List.nil_append]; rw [h]
  | i :: j :: rest, acc, p, hp, _, hndr, hnda, hdis, hltr, hlta, hlen, h0, hloc => by
    have hi := hltr i (by simp)
    have hnew := hdis i (by simp)
    have hcnt : acc.length + 1 ≠ s.k := by simp at hlen; omega
    obtain ⟨hout, hp'⟩ := procStep_live_running f rs sg s C P nonce msg pc hkey hl hin hsig li hshard
      p acc hp i (snd i) hi hnew (hsend i hi) hcnt
    have hndr' := (List.nodup_cons.mp hndr)
    have hlii : li ≠ i := fun e => hloc (by simp [e])
    obtain ⟨pre, hrun, hpre⟩ := procRun_live_panics pc hpin hkey hl hin hok hsmall hsig li hli hshard
      snd hsend (j :: rest) (i :: acc) _ hp' (by simp) hndr'.2
      (List.nodup_cons.mpr ⟨hnew, hnda⟩)
      (by
        intro x hx hxa
        rcases List.mem_cons.mp hxa with h | h
        · subst h; exact hndr'.1 hx
        · exact hdis x (List.mem_cons_of_mem _ hx) h)
      (fun x hx => hltr x (List.mem_cons_of_mem _ hx))
      (by intro x hx; rcases List.mem_cons.mp hx with h | h; exact h ▸ hi; exact hlta x h)
      (by simp at hlen ⊢; omega)
      (by
        intro h; apply h0; simp only [List.mem_append, List.mem_cons] at h ⊢
        rcases h with (h | h) | h | h
        · exact Or.inl (Or.inr (Or.inl h))
        · exact Or.inl (Or.inr (Or.inr h))
        · exact Or.inl (Or.inl h)
        · exact Or.inr h)
      (by
        intro h; apply hloc; simp only [List.mem_append, List.mem_cons] at h ⊢
        rcases h with (h | h) | h | h
        · exact Or.inl (Or.inr (Or.inl h))
        · exact Or.inl (Or.inr (Or.inr h))
        · exact Or.inl (Or.inl h)
        · exact Or.inr h)
    refine ⟨(procStep Cfg.current pc f rs sg s p (hUnit f rs sg s C P nonce msg i) (snd i)).2 :: pre, ?_, ?_⟩
    · rw [List.map_cons]
      show _ :: procRun Cfg.current pc f rs sg s _ _ = _
      rw [hrun]; rfl
    · intro o ho
      rcases List.mem_cons.mp ho with h | h
      · rw [h, hout, if_neg hlii]
      · exact hpre o h

/-! ### for a scheduler made by `NewScheduler` -/

/-- The designated sender of shard `i` of `P` (`[]` if there is none: not for `i < total`). -/
def Sched.sender (s : Sched) (P : Bytes) (i : Nat) : Bytes := (s.legitSender P i).getD []

theorem sender_accepted (id : Bytes) (nodes : List Bytes) (hs : newScheduler id nodes = .ok s)
    (hPm : P ∈ nodes) (hP : P ≠ id) (i : Nat) (hi : i < s.k + s.c) :
    s.validateOrigin (s.sender P i) P i = .ok () := by
  obtain ⟨_, _, hnd, _, _, hlen, _, _, hid, _, hmem⟩ := newScheduler_spec id nodes s hs
  obtain ⟨q, hq, _, _⟩ := (peerForShard_spec s hnd hlen P ((hmem P).mpr hPm)).1 i hi
  apply origin_accepts_legit s P i _ (by rw [hid]; exact hP)
  unfold Sched.sender Sched.legitSender
  rw [hq]; rfl

/-- LIVENESS. -/
theorem procRun_builds_from_honest_units (pc : PCfg) (hfix : pc.localFromPresent = true)
    (id : Bytes) (nodes : List Bytes) (hs : newScheduler id nodes = .ok s)
    (hPm : P ∈ nodes) (hP : P ≠ id) (hkey : sg.hasKey P = true) (hl : RSLaws rs s.k s.c)
    (hin : PadInput msg s.k) (hok : rsNewOk s.k s.c = true) (hsmall : msg.length < 2 ^ 40)
    (hsig : SigOk f rs sg s C P nonce msg) (p : Proc H)
    (hfin : p.finalized.contains (hKey f rs s C P nonce msg) = false)
    (hnone : p.findSub (hKey f rs s C P nonce msg) = none)
    (idxs : List Nat) (hnd : idxs.Nodup) (hlt : ∀ i ∈ idxs, i < s.total) (hlen : idxs.length = s.k) :
    ∃ li, s.shardIndexFor P = .ok li ∧ li < s.total ∧ ∃ pre bc e,
      procRun Cfg.current pc f rs sg s p
          (idxs.map (fun i => (hUnit f rs sg s C P nonce msg i, s.sender P i))) =
        pre ++ [.handled bc (some msg) e] ∧
      (∀ o ∈ pre, ∃ b, o = .handled b none none) ∧
      (pre ++ [.handled bc (some msg) e]).flatMap ProcOut.bcast = [hUnit f rs sg s C P nonce msg li] := by
  obtain ⟨_, _, _, _, _, hlen', hk1, _, hid, hloc, hmem⟩ := newScheduler_spec id nodes s hs
  obtain ⟨li, hshard, hli, _⟩ := shardIndexFor_inverse s hlen' (by rw [hid]; exact hloc) P
    ((hmem P).mpr hPm) (by rw [hid]; exact hP)
  refine ⟨li, hshard, hli, ?_⟩
  have hne : idxs ≠ [] := by intro e; rw [e] at hlen; simp at hlen; omega
  obtain ⟨pre, bc, e, h1, h2, h3⟩ := procRun_live f rs sg s C P nonce msg pc hfix hkey hl hin hok hsmall
    hsig li hli hshard (s.sender P)
    (fun i hi => sender_accepted s P id nodes hs hPm hP i hi) idxs [] p
    ⟨hfin, by rw [hnone, liveState_nil]; rfl⟩ hne hnd List.nodup_nil (by simp) hlt (by simp)
    (by simpa using hlen)
  exact ⟨pre, bc, e, h1, h2, by simpa using h3⟩

/-- The code in /repo: the same run ends in a panic when neither shard 0 nor the local shard is
among the `k` units. -/
theorem procRun_panics_on_honest_units (pc : PCfg) (hpin : pc.localFromPresent = false)
    (id : Bytes) (nodes : List Bytes) (hs : newScheduler id nodes = .ok s)
    (hPm : P ∈ nodes) (hP : P ≠ id) (hkey : sg.hasKey P = true) (hl : RSLaws rs s.k s.c)
    (hin : PadInput msg s.k) (hok : rsNewOk s.k s.c = true) (hsmall : msg.length < 2 ^ 40)
    (hsig : SigOk f rs sg s C P nonce msg) (p : Proc H)
    (hfin : p.finalized.contains (hKey f rs s C P nonce msg) = false)
    (hnone : p.findSub (hKey f rs s C P nonce msg) = none)
    (idxs : List Nat) (hnd : idxs.Nodup) (hlt : ∀ i ∈ idxs, i < s.total) (hlen : idxs.length = s.k)
    (li : Nat) (hshard : s.shardIndexFor P = .ok li) (h0 : 0 ∉ idxs) (hloc : li ∉ idxs) :
    ∃ pre,
      procRun Cfg.current pc f rs sg s p
          (idxs.map (fun i => (hUnit f rs sg s C P nonce msg i, s.sender P i))) = pre ++ [.panic] ∧
      (∀ o ∈ pre, o = .handled [] none none) := by
  obtain ⟨_, _, _, _, _, hlen', hk1, _, hid, hloc', hmem⟩ := newScheduler_spec id nodes s hs
  obtain ⟨li', hshard', hli, _⟩ := shardIndexFor_inverse s hlen' (by rw [hid]; exact hloc') P
    ((hmem P).mpr hPm) (by rw [hid]; exact hP)
  rw [hshard] at hshard'
  injection hshard' with e
  subst e
  have hne : idxs ≠ [] := by intro e; rw [e] at hlen; simp at hlen; omega
  exact procRun_live_panics f rs sg s C P nonce msg pc hpin hkey hl hin hok hsmall
    hsig li hli hshard (s.sender P)
    (fun i hi => sender_accepted s P id nodes hs hPm hP i hi) idxs [] p
    ⟨hfin, by rw [hnone, liveState_nil]; rfl⟩ hne hnd List.nodup_nil (by simp) hlt (by simp)
    (by simpa using hlen) (by simpa using h0) (by simpa using hloc)

end Live

/-! ### a code for `(k, p) = (1, 2)` (a committee of four peers) -/

def repCode12 : RS :=
  { parity := fun _ _ d => [d.headD [], d.headD []],
    recover := fun _ _ S => match S with
      | [some x, _, _] => some [x, x, x]
      | [none, some y, _] => some [y, y, y]
      | [none, none, some z] => some [z, z, z]
      | _ => none }

theorem repCode12_laws : RSLaws repCode12 1 2 where
  parity_length := by intro d _; rfl
  parity_size := by
    intro d s hd hs x hx
    match d, hd with
    | [a], _ =>
      simp only [repCode12, List.headD_cons, List.mem_cons, List.not_mem_nil, or_false, or_self] at hx
      rw [hx]; exact hs a (by simp)
  recover_complete := by
    intro d S s hd _ _ hsub hpres
    match d, hd with
    | [x], _ =>
      simp only [repCode12, List.headD_cons, List.singleton_append] at hsub ⊢
      match S, hsub with
      | [a, b, c], h =>
        simp only [SubOf] at h
        obtain ⟨ha, hb, hc, _⟩ := h
        rcases ha with rfl | rfl
        · rcases hb with rfl | rfl
          · rcases hc with rfl | rfl
            · simp [present] at hpres
            · rfl
          · rfl
        · rfl
  recover_length := by
    intro S c h
    simp only [repCode12] at h
    split at h
    · injection h with h; subst h; rfl
    · injection h with h; subst h; rfl
    · injection h with h; subst h; rfl
    · cases h
  recover_threshold := by
    intro S c h
    simp only [repCode12] at h
    split at h
    · simp [present, List.countP_cons]
    · simp [present, List.countP_cons]
    · simp [present]
    · cases h

end Juno.C19
