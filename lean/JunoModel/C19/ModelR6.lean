import JunoModel.C19.ModelR5
/-
C19 — model, part 7 (round 6): the HAND-OVER of a unit to the subprocessor of its message key.

  processor.go   ProcessMessage / subprocessorChannel / createSubprocessor: the unit channel of a
                 subprocessor (`make(chan unitWithSender, scheduler.NumTotalShards())` since 5e563fa,
                 unbuffered before), the blocking send of the FIRST unit of a new key (33cd01b), the
                 NON-blocking send of every later one ("dropping shard, processor channel full"), the
                 task slot and the map entry taken when the subprocessor is CREATED (not when its first
                 unit is processed), and what happens to units that wait in the channel of a
                 subprocessor that ends (`Run` forgets the subprocessor and its channel: they are gone).

Until round 5 the step of the model was "the unit was handed over and processed to completion"
(`tprocStep`); the hand-over itself was outside the model and the defect repaired by 5e563fa lived there.
Here the two halves are separate events:

  offer   = ProcessMessage(unit, sender): finalized cache, look-up / creation of the subprocessor, send;
  consume = the subprocessor of a key receives the next unit of its channel and deals with it, and
            `Processor.Run` handles its termination if it ends (`tprocStep` on a processor in which the
            subprocessor exists).

Nothing `ProcessMessage` looks at (finalized cache, subprocessor map, channel occupancy, task counters)
changes between "received" and "dealt with" except the channel's occupancy, which drops when the unit is
received: `consume` is that moment. Core Lean only.
-/
namespace Juno.C19

/-- Which unit channel the code under test makes (probed by the harness from `cap(chan)`). -/
structure HCfg where
  /-- 5e563fa: `make(chan unitWithSender, scheduler.NumTotalShards())`; before: `make(chan unitWithSender)`. -/
  buffered : Bool
  deriving DecidableEq, Repr

/-- /repo (5e563fa is in). -/
def HCfg.current : HCfg := ⟨true⟩
def HCfg.before5e563fa : HCfg := ⟨false⟩

/-- `cap(unitChan)`. -/
def chanCap (hc : HCfg) (s : Sched) : Nat := if hc.buffered then s.total else 0

/-- The processor with the contents of the subprocessors' channels: for every live subprocessor the
units handed over and not yet dealt with, oldest first. (For an unbuffered channel: the one unit the
subprocessor holds while it works on it.) -/
structure HProc (H : Type) where
  tp : TProc H
  queues : List (MsgKey H × List (PUnit H × Bytes))

def HProc.empty {H : Type} : HProc H := ⟨TProc.empty, []⟩

def HProc.queueOf {H : Type} [DecidableEq H] (hp : HProc H) (key : MsgKey H) : List (PUnit H × Bytes) :=
  ((hp.queues.find? (fun e => e.1 = key)).map (·.2)).getD []

def HProc.setQueue {H : Type} [DecidableEq H] (hp : HProc H) (key : MsgKey H) (q : List (PUnit H × Bytes)) :
    HProc H :=
  { hp with queues := (key, q) :: hp.queues.filter (fun e => e.1 ≠ key) }

def HProc.dropQueue {H : Type} [DecidableEq H] (hp : HProc H) (key : MsgKey H) : HProc H :=
  { hp with queues := hp.queues.filter (fun e => e.1 ≠ key) }

/-- What `ProcessMessage` answers. -/
inductive OfferRes where
  /-- nil: the unit is in the subprocessor's channel -/
  | taken
  /-- "dropping shard, processor channel full": the unit is gone -/
  | full
  /-- nil: the key is in the finalized cache -/
  | ignored
  /-- "couldn't get processor channel for key: …" -/
  | refused (r : Refusal)
  /-- (only without 76dcbab) the new goroutine panics in `NewValidator` -/
  | panic
  deriving DecidableEq, Repr

/-- `select { case unitChan <- x: … default: }` finds room: a buffered channel that is not full; an
unbuffered one only while its subprocessor waits in `select` (holds no unit). -/
def hasRoom {α : Type} (cap : Nat) (q : List α) : Bool :=
  if cap = 0 then q.isEmpty else decide (q.length < cap)

/-- `createSubprocessor` after its checks: `increaseTasks`, the map entry, the goroutine (which has
seen no unit yet). -/
def register {H : Type} [DecidableEq H] (tp : TProc H) (s : Sched) (key : MsgKey H) : TProc H :=
  ⟨tp.core.setSub key (SubState.fresh s.total), tp.tasks + 1, bump tp.ptasks key.publisher⟩

/-- `Processor.ProcessMessage(ctx, unit, sender, scheduler)`:
* key in the finalized cache: nil;
* a subprocessor exists: non-blocking send — into the channel, or "channel full";
* otherwise `createSubprocessor` (its refusals: `refusalOf`), then the BLOCKING send of the first unit
  (33cd01b): it is never dropped, whatever the channel's capacity. -/
def offer {H : Type} [DecidableEq H] (hc : HCfg) (b : Bounds) (pc : PCfg) (sg : SigScheme H) (s : Sched)
    (hp : HProc H) (u : PUnit H) (sender : Bytes) : HProc H × OfferRes :=
  if hp.tp.core.finalized.contains (keyOf u) then (hp, .ignored)
  else if (hp.tp.core.findSub (keyOf u)).isSome then
    if hasRoom (chanCap hc s) (hp.queueOf (keyOf u)) then
      (hp.setQueue (keyOf u) (hp.queueOf (keyOf u) ++ [(u, sender)]), .taken)
    else (hp, .full)
  else
    match refusalOf b pc sg s hp.tp u with
    | some r => (hp, .refused r)
    | none =>
      if !sg.hasKey (keyOf u).publisher then (hp, .panic)
      else (HProc.setQueue ⟨register hp.tp s (keyOf u), hp.queues⟩ (keyOf u) [(u, sender)], .taken)

/-- The subprocessor of `key` receives the next unit of its channel and deals with it (`tprocStep` on a
processor that has the subprocessor: validation, storing, building, broadcasting, and — if it ends —
`Run`'s finalize / discard). When it ends its channel goes with it: whatever still waited there is
lost, silently. `none`: nothing waits for `key`. -/
def consume {H : Type} [DecidableEq H] (b : Bounds) (cfg : Cfg) (pc : PCfg) (f : HashFns H) (rs : RS)
    (sg : SigScheme H) (s : Sched) (hp : HProc H) (key : MsgKey H) : HProc H × Option (ProcOut H) :=
  match hp.queueOf key with
  | [] => (hp, none)
  | (u, sender) :: rest =>
    let r := tprocStep b cfg pc f rs sg s hp.tp u sender
    if (r.1.core.findSub key).isSome then (HProc.setQueue ⟨r.1, hp.queues⟩ key rest, some r.2)
    else (HProc.dropQueue ⟨r.1, hp.queues⟩ key, some r.2)

/-- The subprocessor of `key` times out; the finalized cache forgets `key`: as `tprocExpire` /
`tprocForget`; a subprocessor that times out takes its channel with it. -/
def hexpire {H : Type} [DecidableEq H] (hp : HProc H) (key : MsgKey H) : HProc H :=
  HProc.dropQueue ⟨tprocExpire hp.tp key, hp.queues⟩ key

/-- Events of a run with the hand-over made explicit. -/
inductive HEvent (H : Type) where
  | offer (u : PUnit H) (sender : Bytes)
  | consume (key : MsgKey H)
  | expire (key : MsgKey H)
  | forget (key : MsgKey H)

/-- What an event showed: the answer of `ProcessMessage`, or what the subprocessor did. -/
inductive HObs (H : Type) where
  | offered (r : OfferRes)
  | consumed (o : Option (ProcOut H))

def hstep {H : Type} [DecidableEq H] (hc : HCfg) (b : Bounds) (cfg : Cfg) (pc : PCfg) (f : HashFns H)
    (rs : RS) (sg : SigScheme H) (s : Sched) (hp : HProc H) : HEvent H → HProc H × List (HObs H)
  | .offer u sender => let r := offer hc b pc sg s hp u sender; (r.1, [.offered r.2])
  | .consume key => let r := consume b cfg pc f rs sg s hp key; (r.1, [.consumed r.2])
  | .expire key => (hexpire hp key, [])
  | .forget key => (⟨tprocForget hp.tp key, hp.queues⟩, [])

/-- A run: final state and everything observed, in order. -/
def hrun {H : Type} [DecidableEq H] (hc : HCfg) (b : Bounds) (cfg : Cfg) (pc : PCfg) (f : HashFns H)
    (rs : RS) (sg : SigScheme H) (s : Sched) : HProc H → List (HEvent H) → HProc H × List (HObs H)
  | hp, [] => (hp, [])
  | hp, e :: rest =>
    let r := hstep hc b cfg pc f rs sg s hp e
    let r' := hrun hc b cfg pc f rs sg s r.1 rest
    (r'.1, r.2 ++ r'.2)

/-- The units of a list offered back to back (no subprocessor gets to run in between): the answers. -/
def offerAll {H : Type} [DecidableEq H] (hc : HCfg) (b : Bounds) (pc : PCfg) (sg : SigScheme H) (s : Sched) :
    HProc H → List (PUnit H × Bytes) → HProc H × List OfferRes
  | hp, [] => (hp, [])
  | hp, (u, sender) :: rest =>
    let r := offer hc b pc sg s hp u sender
    let r' := offerAll hc b pc sg s r.1 rest
    (r'.1, r.2 :: r'.2)

/-- The subprocessor of `key` works through its channel (`n` units at most): what it did with each. -/
def consumeN {H : Type} [DecidableEq H] (b : Bounds) (cfg : Cfg) (pc : PCfg) (f : HashFns H) (rs : RS)
    (sg : SigScheme H) (s : Sched) (key : MsgKey H) : Nat → HProc H → HProc H × List (ProcOut H)
  | 0, hp => (hp, [])
  | n + 1, hp =>
    match consume b cfg pc f rs sg s hp key with
    | (hp', none) => (hp', [])
    | (hp', some o) =>
      let r := consumeN b cfg pc f rs sg s key n hp'
      (r.1, o :: r.2)

end Juno.C19
