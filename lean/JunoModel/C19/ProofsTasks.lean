import JunoModel.C19.ProofsProc
/-
C19 — task accounting of the processor (`increaseTasks` / `decreaseTask`): in every reachable state
the counters equal the number of live subprocessors, per publisher and in total; hence a rejected
unit leaves them unchanged and no sequence of rejected units can exhaust the slots.
Core Lean only.
-/
namespace Juno.C19

variable {H : Type}
set_option linter.unusedSectionVars false

/-! ### counting stored subprocessors -/

/-- Stored subprocessors whose key satisfies `g`. -/
def cntG (g : MsgKey H → Bool) (l : List (MsgKey H × SubState H)) : Nat := l.countP (fun e => g e.1)

/-- Stored subprocessors with key `key`. -/
def cntK [DecidableEq H] (key : MsgKey H) (l : List (MsgKey H × SubState H)) : Nat :=
  l.countP (fun e => decide (e.1 = key))

theorem cntG_filter_ne [DecidableEq H] (g : MsgKey H → Bool) (key : MsgKey H) :
    ∀ l : List (MsgKey H × SubState H),
    cntG g (l.filter (fun e => e.1 ≠ key)) + (if g key then cntK key l else 0) = cntG g l
  | [] => by simp [cntG, cntK]
  | e :: l => by
    have ih := cntG_filter_ne g key l
    by_cases he : e.1 = key
    · have hf : (e :: l).filter (fun e => e.1 ≠ key) = l.filter (fun e => e.1 ≠ key) := by
        rw [List.filter_cons_of_neg (by simp [he])]
      rw [hf]
      have hk : cntK key (e :: l) = cntK key l + 1 := by simp [cntK, he]
      have hg : cntG g (e :: l) = cntG g l + (if g key then 1 else 0) := by
        simp [cntG, List.countP_cons, he]
      rw [hk, hg, ← ih]
      cases g key <;> simp <;> omega
    · have hf : (e :: l).filter (fun e => e.1 ≠ key) = e :: l.filter (fun e => e.1 ≠ key) := by
        rw [List.filter_cons_of_pos (by simp [he])]
      rw [hf]
      have hk : cntK key (e :: l) = cntK key l := by simp [cntK, he]
      have hg : ∀ l', cntG g (e :: l') = cntG g l' + (if g e.1 then 1 else 0) := by
        intro l'; simp [cntG, List.countP_cons]
      rw [hk, hg, hg, ← ih]
      omega

theorem cntK_eq_zero_of_findSub_none [DecidableEq H] (p : Proc H) (key : MsgKey H)
    (h : p.findSub key = none) : cntK key p.subs = 0 := by
  unfold Proc.findSub at h
  simp only [Option.map_eq_none_iff, List.find?_eq_none] at h
  unfold cntK
  rw [List.countP_eq_zero]
  intro e he
  simpa using h e he

theorem cntK_pos_of_findSub_some [DecidableEq H] (p : Proc H) (key : MsgKey H) (st : SubState H)
    (h : p.findSub key = some st) : 1 ≤ cntK key p.subs := by
  unfold Proc.findSub at h
  cases hf : p.subs.find? (fun e => e.1 = key) with
  | none => rw [hf] at h; simp at h
  | some e =>
    have hm := List.mem_of_find?_eq_some hf
    have hp := List.find?_some hf
    unfold cntK
    exact List.countP_pos_iff.mpr ⟨e, hm, by simpa using hp⟩

/-- No two stored subprocessors share a message key. -/
def KeysOk [DecidableEq H] (p : Proc H) : Prop := ∀ key, cntK key p.subs ≤ 1

theorem cntK_eq_cntG [DecidableEq H] (key : MsgKey H) (l : List (MsgKey H × SubState H)) :
    cntK key l = cntG (fun k => decide (k = key)) l := rfl

theorem cntG_setSub [DecidableEq H] (g : MsgKey H → Bool) (p : Proc H) (key : MsgKey H) (st : SubState H) :
    cntG g (p.setSub key st).subs + (if g key then cntK key p.subs else 0) =
      cntG g p.subs + (if g key then 1 else 0) := by
  have h := cntG_filter_ne g key p.subs
  have hc : cntG g (p.setSub key st).subs =
      cntG g (p.subs.filter (fun e => e.1 ≠ key)) + (if g key then 1 else 0) := by
    simp [Proc.setSub, cntG, List.countP_cons]
  rw [hc, ← h]; omega

theorem cntG_dropSub [DecidableEq H] (g : MsgKey H → Bool) (p : Proc H) (key : MsgKey H) :
    cntG g (p.dropSub key).subs + (if g key then cntK key p.subs else 0) = cntG g p.subs := by
  simpa [Proc.dropSub] using cntG_filter_ne g key p.subs

theorem keysOk_setSub [DecidableEq H] (p : Proc H) (hp : KeysOk p) (key : MsgKey H) (st : SubState H) :
    KeysOk (p.setSub key st) := by
  intro key'
  have h := cntG_setSub (fun k => decide (k = key')) p key st
  simp only [← cntK_eq_cntG] at h
  have h1 := hp key'
  by_cases hk : key = key'
  · subst hk; simp at h; omega
  · simp [hk] at h; omega

theorem keysOk_of_subs_dropSub [DecidableEq H] (p p' : Proc H) (hp : KeysOk p) (key : MsgKey H)
    (h : p'.subs = (p.dropSub key).subs) : KeysOk p' := by
  intro key'
  have h0 := cntG_dropSub (fun k => decide (k = key')) p key
  simp only [← cntK_eq_cntG] at h0
  rw [h]
  have h1 := hp key'
  omega

/-! ### what one step does to the stored subprocessors -/

/-- The three shapes of a step: nothing stored changes; the subprocessor of the unit's key is
(re)stored and keeps running; the subprocessor of the unit's key is gone and the step reports its
end. A `handled` outcome implies the key was not finalized, routable, and not refused for its key. -/
theorem procStep_shape [DecidableEq H] (cfg : Cfg) (pc : PCfg) (f : HashFns H) (rs : RS)
    (sg : SigScheme H) (s : Sched) (p : Proc H) (u : PUnit H) (sender : Bytes) :
    ((procStep cfg pc f rs sg s p u sender).1 = p ∧
      ∀ bc b e, (procStep cfg pc f rs sg s p u sender).2 ≠ .handled bc b e) ∨
    ((∃ st bc b, (procStep cfg pc f rs sg s p u sender).1 = p.setSub (keyOf u) st ∧
        (procStep cfg pc f rs sg s p u sender).2 = .handled bc b none) ∧
      keylessNew sg s p u = false ∧ p.finalized.contains (keyOf u) = false ∧
      ∃ li, s.shardIndexFor (keyOf u).publisher = .ok li) ∨
    ((∃ bc b e, (procStep cfg pc f rs sg s p u sender).1.subs = (p.dropSub (keyOf u)).subs ∧
        (procStep cfg pc f rs sg s p u sender).2 = .handled bc b (some e)) ∧
      keylessNew sg s p u = false ∧ p.finalized.contains (keyOf u) = false ∧
      ∃ li, s.shardIndexFor (keyOf u).publisher = .ok li) := by
  cases hk : keylessNew sg s p u with
  | true =>
    rw [procStep_keyless cfg pc f rs sg s p u sender hk]
    refine Or.inl ⟨(by first | rfl | trivial), ?_⟩
    intro bc b e; cases pc.keyGuard <;> simp
  | false =>
    rw [procStep_keyed cfg pc f rs sg s p u sender hk]
    unfold procStepCore
    by_cases hc : p.finalized.contains (keyOf u) = true
    · simp only [hc, if_true]
      exact Or.inl ⟨(by first | rfl | trivial), by intro bc b e; simp⟩
    · have hc' : p.finalized.contains (keyOf u) = false := by simpa using hc
      simp only [hc, Bool.false_eq_true, if_false]
      cases hsi : s.shardIndexFor (keyOf u).publisher with
      | error e => exact Or.inl ⟨(by first | rfl | trivial), by intro bc b e; simp⟩
      | ok li =>
        simp only
        cases hss : subStep cfg pc f rs sg s (keyOf u).publisher li
            ((p.findSub (keyOf u)).getD (SubState.fresh s.total)) u sender with
        | running st' bc b =>
          exact Or.inr (Or.inl ⟨⟨st', bc, b, rfl, rfl⟩, (by first | rfl | trivial), (by first | exact hc' | trivial), li, (by first | rfl | trivial)⟩)
        | finished err bc b =>
          exact Or.inr (Or.inr ⟨⟨bc, b, err, rfl, rfl⟩, (by first | rfl | trivial), (by first | exact hc' | trivial), li, (by first | rfl | trivial)⟩)
        | firstInvalid =>
          simp only
          cases pc.noPoison
          · exact Or.inr (Or.inr ⟨⟨[], none, true, rfl, rfl⟩, (by first | rfl | trivial), (by first | exact hc' | trivial), li, (by first | rfl | trivial)⟩)
          · exact Or.inr (Or.inr ⟨⟨[], none, true, rfl, rfl⟩, (by first | rfl | trivial), (by first | exact hc' | trivial), li, (by first | rfl | trivial)⟩)
        | panic => exact Or.inl ⟨(by first | rfl | trivial), by intro bc b e; simp⟩

/-! ### the counters count the live subprocessors -/

/-- `tasks` is the number of stored subprocessors, `publisherTasks[P]` the number of those whose
message key names publisher `P`; no two share a key. -/
def TInv [DecidableEq H] (tp : TProc H) : Prop :=
  KeysOk tp.core ∧ tp.tasks = cntG (fun _ => true) tp.core.subs ∧
  ∀ P, tp.ptasks P = cntG (fun k => decide (k.publisher = P)) tp.core.subs

theorem cntG_true (l : List (MsgKey H × SubState H)) : cntG (fun _ => true) l = l.length := by
  simp [cntG]

theorem tinv_empty [DecidableEq H] : TInv (TProc.empty : TProc H) := by
  refine ⟨?_, ?_, ?_⟩
  · intro key; simp [TProc.empty, Proc.empty, cntK]
  · simp [TProc.empty, Proc.empty, cntG]
  · intro P; simp [TProc.empty, Proc.empty, cntG]

theorem findSub_none_of_wouldCreate [DecidableEq H] (pc : PCfg) (sg : SigScheme H) (s : Sched)
    (p : Proc H) (u : PUnit H) (h : wouldCreate pc sg s p u = true) : p.findSub (keyOf u) = none := by
  unfold wouldCreate at h
  simp only [Bool.and_eq_true] at h
  simpa using h.1.2

theorem findSub_some_of_not_wouldCreate [DecidableEq H] (pc : PCfg) (sg : SigScheme H) (s : Sched)
    (p : Proc H) (u : PUnit H) (h : ¬ wouldCreate pc sg s p u = true)
    (hk : keylessNew sg s p u = false) (hnf : p.finalized.contains (keyOf u) = false)
    (li : Nat) (hsi : s.shardIndexFor (keyOf u).publisher = .ok li) :
    ∃ st, p.findSub (keyOf u) = some st := by
  cases hf : p.findSub (keyOf u) with
  | some st => exact ⟨st, rfl⟩
  | none =>
    exfalso
    unfold keylessNew at hk
    unfold wouldCreate at h
    rw [hnf, hsi, hf] at hk h
    simp at hk h
    rw [hk] at h
    simp at h

/-- Counters after a new subprocessor was stored. -/
theorem tinv_set_new [DecidableEq H] (tp : TProc H) (h : TInv tp) (key : MsgKey H) (st : SubState H)
    (hnone : tp.core.findSub key = none) :
    TInv ⟨tp.core.setSub key st, tp.tasks + 1, bump tp.ptasks key.publisher⟩ := by
  obtain ⟨hk, ht, hp⟩ := h
  have h0 := cntK_eq_zero_of_findSub_none tp.core key hnone
  refine ⟨keysOk_setSub tp.core hk key st, ?_, ?_⟩
  · have := cntG_setSub (fun _ => true) tp.core key st
    simp only [h0, if_true] at this
    show tp.tasks + 1 = cntG (fun _ => true) (tp.core.setSub key st).subs
    rw [ht]; omega
  · intro P
    have := cntG_setSub (fun k => decide (k.publisher = P)) tp.core key st
    simp only [h0] at this
    show bump tp.ptasks key.publisher P = cntG (fun k => decide (k.publisher = P)) (tp.core.setSub key st).subs
    unfold bump
    by_cases hP : P = key.publisher
    · subst hP; simp at this ⊢; rw [hp]; omega
    · have hP' : ¬ key.publisher = P := fun e => hP e.symm
      simp [hP, hP'] at this ⊢; rw [hp]; omega

/-- Counters after an existing subprocessor was stored again. -/
theorem tinv_set_old [DecidableEq H] (tp : TProc H) (h : TInv tp) (key : MsgKey H) (st st0 : SubState H)
    (hsome : tp.core.findSub key = some st0) :
    TInv ⟨tp.core.setSub key st, tp.tasks, tp.ptasks⟩ := by
  obtain ⟨hk, ht, hp⟩ := h
  have h1 : cntK key tp.core.subs = 1 := by
    have := cntK_pos_of_findSub_some tp.core key st0 hsome
    have := hk key
    omega
  refine ⟨keysOk_setSub tp.core hk key st, ?_, ?_⟩
  · have := cntG_setSub (fun _ => true) tp.core key st
    simp only [h1, if_true] at this
    show tp.tasks = cntG (fun _ => true) (tp.core.setSub key st).subs
    rw [ht]; omega
  · intro P
    have := cntG_setSub (fun k => decide (k.publisher = P)) tp.core key st
    simp only [h1] at this
    show tp.ptasks P = cntG (fun k => decide (k.publisher = P)) (tp.core.setSub key st).subs
    rw [hp]
    by_cases hP : key.publisher = P <;> simp [hP] at this <;> omega

/-- Counters after a subprocessor that was never stored ended (created and ended in one step). -/
theorem tinv_drop_new [DecidableEq H] (tp : TProc H) (h : TInv tp) (key : MsgKey H) (p' : Proc H)
    (hs : p'.subs = (tp.core.dropSub key).subs) (hnone : tp.core.findSub key = none) :
    TInv ⟨p', tp.tasks, tp.ptasks⟩ := by
  obtain ⟨hk, ht, hp⟩ := h
  have h0 := cntK_eq_zero_of_findSub_none tp.core key hnone
  refine ⟨keysOk_of_subs_dropSub tp.core p' hk key hs, ?_, ?_⟩
  · have := cntG_dropSub (fun _ => true) tp.core key
    simp only [h0, if_true] at this
    show tp.tasks = cntG _ p'.subs
    rw [hs, ht]; omega
  · intro P
    have := cntG_dropSub (fun k => decide (k.publisher = P)) tp.core key
    simp only [h0] at this
    show tp.ptasks P = cntG _ p'.subs
    rw [hs, hp]
    by_cases hP : key.publisher = P <;> simp [hP] at this <;> omega

/-- Counters after a stored subprocessor ended. -/
theorem tinv_drop_old [DecidableEq H] (tp : TProc H) (h : TInv tp) (key : MsgKey H) (p' : Proc H)
    (hs : p'.subs = (tp.core.dropSub key).subs) (st0 : SubState H)
    (hsome : tp.core.findSub key = some st0) :
    TInv ⟨p', tp.tasks - 1, drop1 tp.ptasks key.publisher⟩ := by
  obtain ⟨hk, ht, hp⟩ := h
  have h1 : cntK key tp.core.subs = 1 := by
    have := cntK_pos_of_findSub_some tp.core key st0 hsome
    have := hk key
    omega
  refine ⟨keysOk_of_subs_dropSub tp.core p' hk key hs, ?_, ?_⟩
  · have := cntG_dropSub (fun _ => true) tp.core key
    simp only [h1, if_true] at this
    show tp.tasks - 1 = cntG _ p'.subs
    rw [hs, ht]; omega
  · intro P
    have := cntG_dropSub (fun k => decide (k.publisher = P)) tp.core key
    simp only [h1] at this
    show drop1 tp.ptasks key.publisher P = cntG _ p'.subs
    rw [hs]
    unfold drop1
    by_cases hP : P = key.publisher
    · subst hP; simp at this ⊢; rw [hp]; omega
    · have hP' : ¬ key.publisher = P := fun e => hP e.symm
      simp [hP, hP'] at this ⊢; rw [hp]; omega

/-- REACHABILITY: the invariant is kept by every step. -/
theorem tprocStep_inv [DecidableEq H] (b : Bounds) (cfg : Cfg) (pc : PCfg) (f : HashFns H) (rs : RS)
    (sg : SigScheme H) (s : Sched) (tp : TProc H) (u : PUnit H) (sender : Bytes) (h : TInv tp) :
    TInv (tprocStep b cfg pc f rs sg s tp u sender).1 := by
  have shape := procStep_shape cfg pc f rs sg s tp.core u sender
  unfold tprocStep
  by_cases hw : wouldCreate pc sg s tp.core u = true
  · rw [if_pos hw]
    have hnone := findSub_none_of_wouldCreate pc sg s tp.core u hw
    by_cases hb : tp.ptasks (keyOf u).publisher = b.maxPerPublisher ∨ tp.tasks = b.maxWorkers
    · rw [if_pos hb]; exact h
    · rw [if_neg hb]
      rcases hr : procStep cfg pc f rs sg s tp.core u sender with ⟨p', out⟩
      rw [hr] at shape
      rcases shape with ⟨h1, h2⟩ | ⟨⟨st, bc, bu, h1, h2⟩, _⟩ | ⟨⟨bc, bu, e, h1, h2⟩, _⟩
      · simp only at h1 h2
        subst h1
        cases out with
        | handled bc bu e => exact absurd rfl (h2 bc bu e)
        | ignored => exact h
        | noRoute => exact h
        | panic => exact h
      · simp only at h1 h2
        subst h1 h2
        exact tinv_set_new tp h (keyOf u) st hnone
      · simp only at h1 h2
        subst h2
        exact tinv_drop_new tp h (keyOf u) p' h1 hnone
  · rw [if_neg hw]
    rcases hr : procStep cfg pc f rs sg s tp.core u sender with ⟨p', out⟩
    rw [hr] at shape
    rcases shape with ⟨h1, h2⟩ | ⟨⟨st, bc, bu, h1, h2⟩, hk, hnf, li, hsi⟩ | ⟨⟨bc, bu, e, h1, h2⟩, hk, hnf, li, hsi⟩
    · simp only at h1 h2
      subst h1
      cases out with
      | handled bc bu e => exact absurd rfl (h2 bc bu e)
      | ignored => exact h
      | noRoute => exact h
      | panic => exact h
    · simp only at h1 h2
      subst h1 h2
      obtain ⟨st0, hs0⟩ := findSub_some_of_not_wouldCreate pc sg s tp.core u hw hk hnf li hsi
      exact tinv_set_old tp h (keyOf u) st st0 hs0
    · simp only at h1 h2
      subst h2
      obtain ⟨st0, hs0⟩ := findSub_some_of_not_wouldCreate pc sg s tp.core u hw hk hnf li hsi
      exact tinv_drop_old tp h (keyOf u) p' h1 st0 hs0

theorem tprocExpire_inv [DecidableEq H] (tp : TProc H) (key : MsgKey H) (h : TInv tp) :
    TInv (tprocExpire tp key) := by
  unfold tprocExpire
  cases hf : tp.core.findSub key with
  | none => exact h
  | some st0 => exact tinv_drop_old tp h key _ rfl st0 hf

/-! ### consequences -/

/-- With a free slot (or no subprocessor to create) the accounting changes nothing about what the
processor does: outcome and processor state are `procStep`'s. -/
theorem tprocStep_eq_procStep [DecidableEq H] (b : Bounds) (cfg : Cfg) (pc : PCfg) (f : HashFns H)
    (rs : RS) (sg : SigScheme H) (s : Sched) (tp : TProc H) (u : PUnit H) (sender : Bytes)
    (hfree : wouldCreate pc sg s tp.core u = true →
      tp.ptasks (keyOf u).publisher ≠ b.maxPerPublisher ∧ tp.tasks ≠ b.maxWorkers) :
    (tprocStep b cfg pc f rs sg s tp u sender).2 = (procStep cfg pc f rs sg s tp.core u sender).2 ∧
    (tprocStep b cfg pc f rs sg s tp u sender).1.core = (procStep cfg pc f rs sg s tp.core u sender).1 := by
  unfold tprocStep
  by_cases hw : wouldCreate pc sg s tp.core u = true
  · rw [if_pos hw, if_neg (by have := hfree hw; intro h; rcases h with h | h; exact this.1 h; exact this.2 h)]
    rcases procStep cfg pc f rs sg s tp.core u sender with ⟨p', out⟩
    cases out with
    | handled bc bu e => cases e <;> exact ⟨rfl, rfl⟩
    | ignored => exact ⟨rfl, rfl⟩
    | noRoute => exact ⟨rfl, rfl⟩
    | panic => exact ⟨rfl, rfl⟩
  · rw [if_neg hw]
    rcases procStep cfg pc f rs sg s tp.core u sender with ⟨p', out⟩
    cases out with
    | handled bc bu e => cases e <;> exact ⟨rfl, rfl⟩
    | ignored => exact ⟨rfl, rfl⟩
    | noRoute => exact ⟨rfl, rfl⟩
    | panic => exact ⟨rfl, rfl⟩

theorem subStep_rejected [DecidableEq H] (cfg : Cfg) (pc : PCfg) (f : HashFns H) (rs : RS)
    (sg : SigScheme H) (s : Sched) (publisher : Bytes) (li : Nat) (st : SubState H) (u : PUnit H)
    (sender : Bytes) (e : VErr) (hrej : validate cfg f sg s publisher st.v u sender = .error e) :
    subStep cfg pc f rs sg s publisher li st u sender =
      if st.built = none ∧ st.count = 0 then .firstInvalid else .running st [] none := by
  unfold subStep
  cases hb : st.built with
  | none => simp only [hrej]; by_cases hc : st.count = 0 <;> simp [hc]
  | some m => simp only [hrej]; simp

/-- A unit rejected by the validator of its message key leaves both counters exactly as they were:
a subprocessor created for it is discarded and its slot released; an existing subprocessor keeps
its slot. -/
theorem rejected_unit_keeps_counters [DecidableEq H] (b : Bounds) (cfg : Cfg) (pc : PCfg) (f : HashFns H)
    (rs : RS) (sg : SigScheme H) (s : Sched) (tp : TProc H) (hp : ProcInv s tp.core)
    (u : PUnit H) (sender : Bytes) (e : VErr)
    (hrej : validate cfg f sg s (keyOf u).publisher
      ((tp.core.findSub (keyOf u)).getD (SubState.fresh s.total)).v u sender = .error e) :
    (tprocStep b cfg pc f rs sg s tp u sender).1.tasks = tp.tasks ∧
    (tprocStep b cfg pc f rs sg s tp u sender).1.ptasks = tp.ptasks := by
  -- the outcome of the underlying step
  have hout : (wouldCreate pc sg s tp.core u = true →
        ∀ bc bu, (procStep cfg pc f rs sg s tp.core u sender).2 ≠ .handled bc bu none) ∧
      (¬ wouldCreate pc sg s tp.core u = true →
        ∀ bc bu en, (procStep cfg pc f rs sg s tp.core u sender).2 ≠ .handled bc bu (some en)) := by
    cases hk : keylessNew sg s tp.core u with
    | true =>
      rw [procStep_keyless cfg pc f rs sg s tp.core u sender hk]
      constructor <;> intro _ <;> intros <;> cases pc.keyGuard <;> simp
    | false =>
      rw [procStep_keyed cfg pc f rs sg s tp.core u sender hk]
      unfold procStepCore
      by_cases hc : tp.core.finalized.contains (keyOf u) = true
      · simp only [hc, if_true]; constructor <;> intro _ <;> intros <;> simp
      · have hc' : tp.core.finalized.contains (keyOf u) = false := by simpa using hc
        simp only [hc, Bool.false_eq_true, if_false]
        cases hsi : s.shardIndexFor (keyOf u).publisher with
        | error e => constructor <;> intro _ <;> intros <;> simp
        | ok li =>
          simp only
          rw [subStep_rejected cfg pc f rs sg s _ li _ u sender e hrej]
          constructor
          · intro hw
            have hnone := findSub_none_of_wouldCreate pc sg s tp.core u hw
            rw [hnone]
            simp only [Option.getD_none, SubState.fresh, and_self, if_true]
            intro bc bu
            cases pc.noPoison <;> simp
          · intro hw
            obtain ⟨st0, hs0⟩ := findSub_some_of_not_wouldCreate pc sg s tp.core u hw hk hc' li hsi
            have hcount := (hp (keyOf u) st0 hs0).2.2
            rw [hs0]
            simp only [Option.getD_some]
            rw [if_neg (by intro h; omega)]
            intro bc bu en; simp
  unfold tprocStep
  by_cases hw : wouldCreate pc sg s tp.core u = true
  · rw [if_pos hw]
    by_cases hb : tp.ptasks (keyOf u).publisher = b.maxPerPublisher ∨ tp.tasks = b.maxWorkers
    · rw [if_pos hb]; exact ⟨rfl, rfl⟩
    · rw [if_neg hb]
      have h1 := hout.1 hw
      rcases hr : procStep cfg pc f rs sg s tp.core u sender with ⟨p', out⟩
      rw [hr] at h1
      cases out with
      | handled bc bu en =>
        cases en with
        | none => exact absurd rfl (h1 bc bu)
        | some x => exact ⟨rfl, rfl⟩
      | ignored => exact ⟨rfl, rfl⟩
      | noRoute => exact ⟨rfl, rfl⟩
      | panic => exact ⟨rfl, rfl⟩
  · rw [if_neg hw]
    have h1 := hout.2 hw
    rcases hr : procStep cfg pc f rs sg s tp.core u sender with ⟨p', out⟩
    rw [hr] at h1
    cases out with
    | handled bc bu en =>
      cases en with
      | none => exact ⟨rfl, rfl⟩
      | some x => exact absurd rfl (h1 bc bu x)
    | ignored => exact ⟨rfl, rfl⟩
    | noRoute => exact ⟨rfl, rfl⟩
    | panic => exact ⟨rfl, rfl⟩

theorem tprocStep_core [DecidableEq H] (b : Bounds) (cfg : Cfg) (pc : PCfg) (f : HashFns H)
    (rs : RS) (sg : SigScheme H) (s : Sched) (tp : TProc H) (u : PUnit H) (sender : Bytes) :
    (tprocStep b cfg pc f rs sg s tp u sender).1.core = tp.core ∨
    (tprocStep b cfg pc f rs sg s tp u sender).1.core = (procStep cfg pc f rs sg s tp.core u sender).1 := by
  unfold tprocStep
  by_cases hw : wouldCreate pc sg s tp.core u = true
  · rw [if_pos hw]
    by_cases hb : tp.ptasks (keyOf u).publisher = b.maxPerPublisher ∨ tp.tasks = b.maxWorkers
    · rw [if_pos hb]; exact Or.inl rfl
    · rw [if_neg hb]
      rcases procStep cfg pc f rs sg s tp.core u sender with ⟨p', out⟩
      cases out with
      | handled bc bu e => cases e <;> exact Or.inr rfl
      | ignored => exact Or.inr rfl
      | noRoute => exact Or.inr rfl
      | panic => exact Or.inr rfl
  · rw [if_neg hw]
    rcases procStep cfg pc f rs sg s tp.core u sender with ⟨p', out⟩
    cases out with
    | handled bc bu e => cases e <;> exact Or.inr rfl
    | ignored => exact Or.inr rfl
    | noRoute => exact Or.inr rfl
    | panic => exact Or.inr rfl

theorem tprocStep_procInv [DecidableEq H] (b : Bounds) (cfg : Cfg) (pc : PCfg) (f : HashFns H)
    (rs : RS) (sg : SigScheme H) (s : Sched) (tp : TProc H) (u : PUnit H) (sender : Bytes)
    (hp : ProcInv s tp.core) : ProcInv s (tprocStep b cfg pc f rs sg s tp u sender).1.core := by
  rcases tprocStep_core b cfg pc f rs sg s tp u sender with h | h
  · rw [h]; exact hp
  · rw [h]; exact procStep_inv cfg pc f rs sg s tp.core u sender hp

/-- The processor state after a sequence of `(unit, sender)` pairs. -/
def tprocRunState [DecidableEq H] (b : Bounds) (cfg : Cfg) (pc : PCfg) (f : HashFns H) (rs : RS)
    (sg : SigScheme H) (s : Sched) : TProc H → List (PUnit H × Bytes) → TProc H
  | tp, [] => tp
  | tp, (u, sender) :: rest =>
    tprocRunState b cfg pc f rs sg s (tprocStep b cfg pc f rs sg s tp u sender).1 rest

/-- Every unit of the sequence is rejected by the validator of its message key in the state it meets. -/
def AllRejected [DecidableEq H] (b : Bounds) (cfg : Cfg) (pc : PCfg) (f : HashFns H) (rs : RS)
    (sg : SigScheme H) (s : Sched) : TProc H → List (PUnit H × Bytes) → Prop
  | _, [] => True
  | tp, (u, sender) :: rest =>
    (∃ e, validate cfg f sg s (keyOf u).publisher
      ((tp.core.findSub (keyOf u)).getD (SubState.fresh s.total)).v u sender = .error e) ∧
    AllRejected b cfg pc f rs sg s (tprocStep b cfg pc f rs sg s tp u sender).1 rest

/-- However many rejected units arrive, of however many message keys: the counters end where they
started. -/
theorem rejected_units_keep_counters [DecidableEq H] (b : Bounds) (cfg : Cfg) (pc : PCfg) (f : HashFns H)
    (rs : RS) (sg : SigScheme H) (s : Sched) :
    ∀ (ops : List (PUnit H × Bytes)) (tp : TProc H), ProcInv s tp.core →
      AllRejected b cfg pc f rs sg s tp ops →
      (tprocRunState b cfg pc f rs sg s tp ops).tasks = tp.tasks ∧
      (tprocRunState b cfg pc f rs sg s tp ops).ptasks = tp.ptasks
  | [], _, _, _ => ⟨rfl, rfl⟩
  | (u, sender) :: rest, tp, hp, hr => by
    obtain ⟨⟨e, he⟩, hrest⟩ := hr
    obtain ⟨h1, h2⟩ := rejected_unit_keeps_counters b cfg pc f rs sg s tp hp u sender e he
    obtain ⟨h3, h4⟩ := rejected_units_keep_counters b cfg pc f rs sg s rest _
      (tprocStep_procInv b cfg pc f rs sg s tp u sender hp) hrest
    exact ⟨by simp only [tprocRunState]; rw [h3, h1], by simp only [tprocRunState]; rw [h4, h2]⟩

theorem tinv_counts [DecidableEq H] (tp : TProc H) (h : TInv tp) :
    tp.tasks = tp.core.subs.length ∧
    ∀ P, tp.ptasks P = (tp.core.subs.filter (fun e => decide (e.1.publisher = P))).length := by
  refine ⟨by rw [h.2.1, cntG_true], ?_⟩
  intro P
  rw [h.2.2 P]
  unfold cntG
  rw [List.countP_eq_length_filter]

end Juno.C19
