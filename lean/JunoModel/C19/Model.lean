/-
C19 — model of juno's erasure-coded broadcast plumbing, part 1:
  consensus/propeller/padding.go   (PadMessage / UnpadMessage, Go's encoding/binary Uvarint)
  consensus/propeller/merkle/merkle.go (New / Proof.Verify / nextPowerOfTwo)
  consensus/propeller/unit.go      (ShardData.MarshalProto — the protobuf bytes of ShardsOfPeer)
Core Lean only: this file is linked into the driver executable `c19drv`.

Arithmetic that Go does in `uint64` is done in `UInt64` here (wrap-around included): the overflow
of `uint64(varintLen) + msgLen` in UnpadMessage is part of the modelled behaviour.
-/
namespace Juno.C19

abbrev Bytes := List UInt8

/-- Error classes (what the Go functions return as `error`). -/
inductive Err where
  | varint        -- UnpadMessage: "invalid varint prefix in padded message"
  | length        -- UnpadMessage: "varint length … exceeds available data"
  | emptyData     -- reedsolomon.EncodeData: "received empty data"
  | rsNew         -- reedsolomon.New rejected (dataShards ≤ 0, too many shards)
  | noUnits       -- ConstructMessageFromUnits: "no propeller units to decode"
  | recover       -- reedsolomon.RecoverData failed (too few shards, sizes, verification)
  | shardSize     -- "missmatch on shard size"
  | root          -- "wrong message root hash"
  deriving DecidableEq, Repr

def Err.name : Err → String
  | .varint => "varint" | .length => "length" | .emptyData => "empty-data" | .rsNew => "rs-new"
  | .noUnits => "no-units" | .recover => "recover" | .shardSize => "shard-size" | .root => "root"

/-- Outcome of a Go call: a value, a returned error, or a run-time panic (which the property
forbids: "… cannot cause the receiver to fail"). -/
inductive Out (α : Type) where
  | ok (a : α)
  | err (e : Err)
  | panic
  deriving DecidableEq, Repr

/-- Which of the four repairs of the padding/sharding layer the code under test carries. All four
are in /repo since the commits a2bceaf (rootFromPresent), 32710c6 (unpadGuard), 8f80b72
(shardingLeafProto) and d76716c (nonceSet): the tree is `Cfg.current`. The flags stay because the
harness probes the real code for each of them and drives the model with the value it finds — if
one of the repairs is ever lost the model follows, the correspondence stays clean and the
property oracle reports the violation; the theorems say what holds for either value. -/
structure Cfg where
  /-- UnpadMessage compares `msgLen` with `len(padded) - varintLen` (no `uint64` overflow). -/
  unpadGuard : Bool
  /-- ConstructMessageFromUnits takes the signed root from the first *present* unit. -/
  rootFromPresent : Bool
  /-- sharding.go commits to `ShardData{shard}.MarshalProto()` (what UnitValidator verifies against)
  instead of the raw shard bytes. -/
  shardingLeafProto : Bool
  /-- UnitValidator.verifyDataShards uses `unit.ShardData.MarshalProto()` as leaf (always true
  so far). -/
  validatorLeafProto : Bool
  /-- CreatePropellerUnits stores the nonce it signed in `Unit.Nonce`. -/
  nonceSet : Bool
  deriving DecidableEq, Repr

/-- The snapshot 0308209, before the four repairs (kept for the regression theorems). -/
def Cfg.pinned : Cfg := ⟨false, false, false, true, false⟩
/-- All four repairs. -/
def Cfg.repaired : Cfg := ⟨true, true, true, true, true⟩
/-- /repo as of 8f80b72. -/
def Cfg.current : Cfg := Cfg.repaired

/-! ## encoding/binary: PutUvarint / Uvarint -/

/-- `binary.PutUvarint(buf, x)`: the bytes written (`buf[:n]`). -/
def putUvarint (x : UInt64) : Bytes :=
  if h : x ≥ 0x80 then (x.toUInt8 ||| 0x80) :: putUvarint (x >>> 7) else [x.toUInt8]
termination_by x.toNat
decreasing_by
  have h1 : (128 : Nat) ≤ x.toNat := by simpa [UInt64.le_iff_toNat_le] using h
  have : (x >>> 7).toNat = x.toNat / 128 := by
    simp [UInt64.toNat_shiftRight, Nat.shiftRight_eq_div_pow]
  omega

/-- Loop of `binary.Uvarint`: `i` bytes consumed so far, accumulator `x`, shift `s`. The result is
Go's `(value, n)`: `n > 0` bytes read, `n = 0` buffer too small, `n < 0` overflow (−n bytes read).
`MaxVarintLen64 = 10`. `s ≤ 63` whenever a shift is executed, so `<<<` agrees with Go's shift. -/
def uvarintLoop : Bytes → Nat → UInt64 → UInt64 → UInt64 × Int
  | [], _, _, _ => (0, 0)
  | b :: rest, i, x, s =>
    if i = 10 then (0, -((i : Int) + 1))
    else if b < 0x80 then
      if i = 9 ∧ b > 1 then (0, -((i : Int) + 1))
      else (x ||| (b.toUInt64 <<< s), (i : Int) + 1)
    else uvarintLoop rest (i + 1) (x ||| ((b &&& 0x7f).toUInt64 <<< s)) (s + 7)

/-- `binary.Uvarint(buf)`. -/
def uvarint (buf : Bytes) : UInt64 × Int := uvarintLoop buf 0 0 0

/-! ## padding.go -/

/-- Rounding in PadMessage: `if r := n % d; r != 0 { n += d - r }` over `uint64`. -/
def roundUp (n d : UInt64) : UInt64 :=
  let r := n % d
  if r != 0 then n + (d - r) else n

/-- `PadMessage(msg, numDataShards)` for `numDataShards > 0` (for 0 Go panics with an integer
division by zero: see `padGo`). Layout `[varint(len msg)] [msg] [zero padding]`. -/
def pad (msg : Bytes) (k : Nat) : Bytes :=
  let v := putUvarint (UInt64.ofNat msg.length)
  let unpadded : UInt64 := UInt64.ofNat (v.length + msg.length)
  let divisor : UInt64 := UInt64.ofNat (2 * k)
  let padded := roundUp unpadded divisor
  let body := v ++ msg
  -- make([]byte, paddedMsgLen); copy(result, varint); copy(result[varintLen:], msg)
  body ++ List.replicate (padded.toNat - body.length) 0

/-- PadMessage including the panic for a zero divisor. -/
def padGo (msg : Bytes) (k : Nat) : Out Bytes :=
  if k = 0 then .panic else .ok (pad msg k)

/-- `UnpadMessage(padded)`. `guard = true` is the code since 32710c6: the length is compared without
an addition. `guard = false` is the code before: `end := uint64(varintLen) + msgLen` may wrap
around; then `end ≤ len(padded)` passes and the slice expression `padded[varintLen:end]` panics
("slice bounds out of range") because `end < varintLen`. -/
def unpad (guard : Bool) (padded : Bytes) : Out Bytes :=
  let (msgLen, n) := uvarint padded
  if n ≤ 0 then .err .varint
  else
    let vl : UInt64 := UInt64.ofNat n.toNat
    if guard then
      if msgLen > UInt64.ofNat (padded.length - n.toNat) then .err .length
      else .ok ((padded.drop n.toNat).take msgLen.toNat)
    else
      let end_ := vl + msgLen
      if end_ > UInt64.ofNat padded.length then .err .length
      else if end_ < vl then .panic
      else .ok ((padded.drop n.toNat).take (end_ - vl).toNat)

/-! ## merkle/merkle.go

Hashes are not computed: the model is generic in the hash type `H` and the two tagged hash
functions (`merkleLeafHash`, `merkleNodeHash`). The driver instantiates `H` with the free term
algebra `HTerm`; the Go side evaluates the terms with SHA-256 and the tags. -/

structure HashFns (H : Type) where
  /-- `merkleLeafHash(data) = SHA256("<leaf>" ‖ data ‖ "</leaf>")` -/
  leaf : Bytes → H
  /-- `merkleNodeHash(l, r) = SHA256("<node><left>" ‖ l ‖ "</left><right>" ‖ r ‖ "</right></node>")` -/
  node : H → H → H
  /-- `Hash{}` (32 zero bytes), the root `New` returns for no leaves -/
  zero : H

/-- Free term algebra of Merkle hashes; `raw` is a 32-byte value received from the wire that is
not (known to be) the hash of anything. -/
inductive HTerm where
  | leaf (d : Bytes)
  | node (l r : HTerm)
  | raw (b : Bytes)
  deriving DecidableEq, Repr

def termFns : HashFns HTerm := ⟨.leaf, .node, .raw (List.replicate 32 0)⟩

/-- `nextPowerOfTwo(n)`: smallest power of two ≥ n, at least 2. `bits.Len(uint(n-1))` is
`Nat.log2 (n-1) + 1` for `n-1 > 0`. -/
def nextPow2 (n : Nat) : Nat :=
  if n ≤ 2 then 2 else 1 <<< (Nat.log2 (n - 1) + 1)

/-- One level of the bottom-up build: `nextLayer[i/2] = merkleNodeHash(&layer[i], &layer[i+1])`. -/
def pairUp {H : Type} (f : HashFns H) : List H → List H
  | a :: b :: rest => f.node a b :: pairUp f rest
  | _ => []

theorem pairUp_length {H : Type} (f : HashFns H) : ∀ l : List H, (pairUp f l).length = l.length / 2
  | [] => by simp [pairUp]
  | [_] => by simp [pairUp]
  | a :: b :: rest => by
    simp only [pairUp, List.length_cons, pairUp_length f rest]; omega

/-- `for len(layer) > 1 { layer = nextLayer }; root = layer[0]`. -/
def rootLoop {H : Type} (f : HashFns H) (layer : List H) : H :=
  if _h : layer.length > 1 then rootLoop f (pairUp f layer) else layer.headD f.zero
termination_by layer.length
decreasing_by rw [pairUp_length]; omega

/-- The sibling list accumulated for one original leaf: in every round
`proofSiblings[i] = append(proofSiblings[i], layer[ancestors[i]^1]); ancestors[i] /= 2`.
(The Go loop does this for all leaves at once; the model follows one leaf at a time.) -/
def proofLoop {H : Type} (f : HashFns H) (layer : List H) (anc : Nat) : List H :=
  if _h : layer.length > 1 then
    layer.getD (anc ^^^ 1) f.zero :: proofLoop f (pairUp f layer) (anc / 2)
  else []
termination_by layer.length
decreasing_by rw [pairUp_length]; omega

/-- Bottom layer of `New`: the leaf hashes padded with `emptyLeafHash` to `nextPowerOfTwo(n)`. -/
def bottomLayer {H : Type} (f : HashFns H) (leaves : List Bytes) : List H :=
  leaves.map f.leaf ++ List.replicate (nextPow2 leaves.length - leaves.length) (f.leaf [])

/-- `merkle.New(leaves)`: root and one proof per original leaf (zero root, no tree for no leaves). -/
def merkleNew {H : Type} (f : HashFns H) (leaves : List Bytes) : H × List (List H) :=
  if leaves.isEmpty then (f.zero, [])
  else
    let layer := bottomLayer f leaves
    (rootLoop f layer, (List.range leaves.length).map (proofLoop f layer))

/-- Loop of `Proof.Verify`: fold the siblings, the index bit choosing the side. `index` is a
`uint32` in Go; `% 2` and `/ 2` are the same on `Nat`. -/
def verifyLoop {H : Type} (f : HashFns H) : List H → H → Nat → H
  | [], cur, _ => cur
  | s :: rest, cur, idx =>
    verifyLoop f rest (if idx % 2 = 0 then f.node cur s else f.node s cur) (idx / 2)

/-- `(*Proof).Verify(root, leaf, index)`. -/
def verify {H : Type} [DecidableEq H] (f : HashFns H) (proof : List H) (root : H) (leaf : Bytes)
    (index : Nat) : Bool :=
  verifyLoop f proof (f.leaf leaf) index == root

/-! ## unit.go: ShardData.MarshalProto

`proto.Marshal(&pb.ShardsOfPeer{Shards: [&pb.Shard{Data: s} …]})`: every shard is field 1
(length-delimited) of ShardsOfPeer, its body is field 1 (bytes) of Shard, omitted when empty
(proto3 default). Lengths are protobuf varints = Go's Uvarint encoding. -/

def pbBytesField (body : Bytes) : Bytes :=
  0x0a :: (putUvarint (UInt64.ofNat body.length) ++ body)

def marshalShard (s : Bytes) : Bytes := if s.isEmpty then [] else pbBytesField s

def marshalShards (sd : List Bytes) : Bytes :=
  (sd.map (fun s => pbBytesField (marshalShard s))).flatten

end Juno.C19
