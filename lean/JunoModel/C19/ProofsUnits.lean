import JunoModel.C19.ModelUnits
import JunoModel.C19.ProofsPad
import JunoModel.C19.ProofsMerkle
/-!
C19 — helper lemmas, part 3: shards, units, CreatePropellerUnits / ConstructMessageFromUnits.
-/
namespace Juno.C19
variable {H : Type}

/-! ### laws assumed of the Reed-Solomon codec -/

/-- The shards offered to the decoder are a selection of the shards of `c` (missing = `none`). -/
def SubOf : List (Option Bytes) → List Bytes → Prop
  | [], [] => True
  | o :: S, x :: c => (o = none ∨ o = some x) ∧ SubOf S c
  | _, _ => False

/-- Number of shards present. -/
def present (S : List (Option Bytes)) : Nat := S.countP Option.isSome

/-- What the theorems assume of klauspost/reedsolomon for `(k, p)`:
* the parity shards are `p` shards of the data shards' size;
* MDS (`recover_complete`): from any selection of at least `k` shards of a codeword (data ‖ parity,
  all of one non-zero size) `Reconstruct`+`Verify` returns exactly that codeword;
* shape (`recover_length`): whatever `Reconstruct`+`Verify` returns has `k+p` shards (that it is a
  codeword is NOT assumed: the Merkle root comparison is what pins the shards down);
* threshold (`recover_threshold`): it never succeeds on fewer than `k` shards.
The harness checks all of them on the real library for every subset of small `(k, p)`. -/
structure RSLaws (rs : RS) (k p : Nat) : Prop where
  parity_length : ∀ d, d.length = k → (rs.parity k p d).length = p
  parity_size : ∀ d s, d.length = k → (∀ x ∈ d, x.length = s) → ∀ x ∈ rs.parity k p d, x.length = s
  recover_complete : ∀ d S s, d.length = k → 0 < s → (∀ x ∈ d, x.length = s) →
    SubOf S (d ++ rs.parity k p d) → k ≤ present S →
    rs.recover k p S = some (d ++ rs.parity k p d)
  recover_length : ∀ S c, rs.recover k p S = some c → c.length = k + p
  recover_threshold : ∀ S c, rs.recover k p S = some c → k ≤ present S

/-! ### Split -/

theorem chunk_spec (q : Nat) : ∀ (n : Nat) (data : Bytes), data.length = n * q →
    (chunk q n data).length = n ∧ (∀ x ∈ chunk q n data, x.length = q) ∧ (chunk q n data).flatten = data
  | 0, data, h => by
    have : data = [] := List.eq_nil_of_length_eq_zero (by simpa using h)
    simp [chunk, this]
  | n + 1, data, h => by
    have hlen : (data.drop q).length = n * q := by
      rw [List.length_drop, h, Nat.add_mul]; omega
    obtain ⟨h1, h2, h3⟩ := chunk_spec q n (data.drop q) hlen
    refine ⟨by simp [chunk, h1], ?_, ?_⟩
    · intro x hx
      simp only [chunk, List.mem_cons] at hx
      cases hx with
      | inl e => rw [e, List.length_take, h, Nat.add_mul]; omega
      | inr e => exact h2 x e
    · simp [chunk, h3]

theorem ceil_mul_ge (len k : Nat) (hk : 0 < k) : len ≤ k * ((len + k - 1) / k) := by
  have h := Nat.div_add_mod (len + k - 1) k
  have hr := Nat.mod_lt (len + k - 1) hk
  generalize k * ((len + k - 1) / k) = m at h ⊢
  omega

theorem ceil_le (len k : Nat) (hk : 0 < k) (hlen : 0 < len) : (len + k - 1) / k ≤ len := by
  apply Nat.div_le_of_le_mul
  cases k with
  | zero => omega
  | succ k' =>
    rw [Nat.succ_mul]
    have : k' ≤ k' * len := Nat.le_mul_of_pos_right k' hlen
    omega

theorem perShard_spec (len k p : Nat) (hk : 0 < k) (hlen : 0 < len) :
    len ≤ k * perShard len k p ∧ 0 < perShard len k p ∧ perShard len k p ≤ len + 63 := by
  have hcl := ceil_le len k hk hlen
  have hc := ceil_mul_ge len k hk
  have hcpos : 0 < (len + k - 1) / k := by
    cases hq : (len + k - 1) / k with
    | zero => rw [hq, Nat.mul_zero] at hc; omega
    | succ _ => omega
  unfold perShard
  simp only
  split
  · have h64 : (len + k - 1) / k ≤ ((len + k - 1) / k + 63) / 64 * 64 := by
      have h := Nat.div_add_mod ((len + k - 1) / k + 63) 64
      have hr := Nat.mod_lt ((len + k - 1) / k + 63) (by decide : 0 < 64)
      omega
    have h64' : ((len + k - 1) / k + 63) / 64 * 64 ≤ (len + k - 1) / k + 63 := Nat.div_mul_le_self _ _
    exact ⟨Nat.le_trans hc (Nat.mul_le_mul_left k h64), by omega, by omega⟩
  · exact ⟨hc, hcpos, by omega⟩

/-- The data shards klauspost `Split` makes of non-empty data: `k` shards of one non-zero size whose
concatenation is the data followed by zeros (no zeros for a padded message and at most 256
shards; the Leopard codec rounds the shard size up to a multiple of 64). -/
theorem splitData_spec (data : Bytes) (k p : Nat) (hk : 0 < k) (hne : data ≠ []) :
    ∃ s z, 0 < s ∧ s ≤ data.length + 63 ∧ (splitData data k p).length = k ∧
      (∀ x ∈ splitData data k p, x.length = s) ∧
      (splitData data k p).flatten = data ++ List.replicate z 0 := by
  have hlenpos : 0 < data.length := by
    cases data with
    | nil => exact absurd rfl hne
    | cons _ _ => simp
  unfold splitData
  by_cases h1 : k + p = 1
  · have hk1 : k = 1 := by omega
    subst hk1
    simp only [h1, if_true]
    refine ⟨data.length, 0, hlenpos, by omega, rfl, ?_, by simp⟩
    intro x hx; simp at hx; subst hx; rfl
  · simp only [h1, if_false]
    obtain ⟨hge, hpos, hle⟩ := perShard_spec data.length k p hk hlenpos
    obtain ⟨a, b, c⟩ := chunk_spec (perShard data.length k p) k
      (data ++ List.replicate (k * perShard data.length k p - data.length) 0)
      (by simp only [List.length_append, List.length_replicate]; omega)
    exact ⟨_, _, hpos, hle, a, b, c⟩

/-! ### CreatePropellerUnits -/

/-- The `k+p` shards CreatePropellerUnits produces for a message. -/
def encOf (rs : RS) (msg : Bytes) (k p : Nat) : List Bytes :=
  splitData (pad msg k) k p ++ rs.parity k p (splitData (pad msg k) k p)

/-- Root and proofs CreatePropellerUnits commits to. -/
def treeOf (cfg : Cfg) (f : HashFns H) (rs : RS) (msg : Bytes) (k p : Nat) : H × List (List H) :=
  merkleNew f ((encOf rs msg k p).map (leafOf cfg.shardingLeafProto))

theorem pad_ne_nil (msg : Bytes) (k : Nat) : (pad msg k).isEmpty = false := by
  have := putUvarint_length_pos (UInt64.ofNat msg.length)
  unfold pad
  cases hv : putUvarint (UInt64.ofNat msg.length) with
  | nil => rw [hv] at this; simp at this
  | cons a b => simp

theorem createUnits_eq (cfg : Cfg) (f : HashFns H) (rs : RS) (sg : SigScheme H)
    (committee publisher : Bytes) (nonce : Nat) (msg : Bytes) (k p : Nat) (hk : 0 < k)
    (hok : rsNewOk k p = true) :
    createUnits cfg f rs sg committee publisher nonce msg k p =
      .ok (mkUnits committee publisher (treeOf cfg f rs msg k p).1 (treeOf cfg f rs msg k p).2
        (sg.sign ⟨(treeOf cfg f rs msg k p).1, committee, nonce⟩)
        (if cfg.nonceSet then nonce else 0) 0 (encOf rs msg k p)) := by
  have hk0 : k ≠ 0 := by omega
  simp only [createUnits, padGo, hk0, if_false, encodeData, pad_ne_nil, Bool.false_eq_true, hok,
    Bool.not_true, treeOf, encOf]

theorem encOf_spec (rs : RS) (msg : Bytes) (k p : Nat) (hl : RSLaws rs k p) (hin : PadInput msg k) :
    ∃ s, 0 < s ∧ (encOf rs msg k p).length = k + p ∧ (∀ x ∈ encOf rs msg k p, x.length = s) ∧
      (splitData (pad msg k) k p).length = k ∧
      (∀ x ∈ splitData (pad msg k) k p, x.length = s) ∧
      (∃ extra, (encOf rs msg k p).flatten = pad msg k ++ extra) ∧ s ≤ (pad msg k).length + 63 := by
  have hne : pad msg k ≠ [] := by
    intro h; have := pad_ne_nil msg k; rw [h] at this; simp at this
  obtain ⟨s, z, hs, hsle, h1, h2, h3⟩ := splitData_spec (pad msg k) k p hin.1 hne
  refine ⟨s, hs, ?_, ?_, h1, h2, ⟨List.replicate z 0 ++ (rs.parity k p (splitData (pad msg k) k p)).flatten, ?_⟩, hsle⟩
  · simp [encOf, h1, hl.parity_length _ h1]
  · intro x hx
    simp only [encOf, List.mem_append] at hx
    cases hx with
    | inl e => exact h2 x e
    | inr e => exact hl.parity_size _ _ h1 h2 x e
  · simp [encOf, h3]

/-! ### selecting units -/

/-- The units a receiver holds: unit `i` is present iff `S[i]`. -/
def maskUnits (S : List Bool) (units : List (PUnit H)) : List (Option (PUnit H)) :=
  List.zipWith (fun b u => if b then some u else none) S units

def maskShards (S : List Bool) (enc : List Bytes) : List (Option Bytes) :=
  List.zipWith (fun b s => if b then some s else none) S enc

theorem unitShards_mask (C P : Bytes) (r : H) (t : List (List H)) (sg : Bytes) (n : Nat) :
    ∀ (enc : List Bytes) (S : List Bool) (i : Nat),
    unitShards (maskUnits S (mkUnits C P r t sg n i enc)) = some (maskShards S enc)
  | [], S, i => by cases S <;> simp [maskUnits, maskShards, mkUnits, unitShards]
  | e :: enc, [], i => by simp [maskUnits, maskShards, unitShards]
  | e :: enc, b :: S, i => by
    have ih := unitShards_mask C P r t sg n enc S (i + 1)
    simp only [maskUnits] at ih
    cases b <;> simp [maskUnits, maskShards, mkUnits, unitShards, ih]

theorem subOf_mask : ∀ (enc : List Bytes) (S : List Bool), S.length = enc.length →
    SubOf (maskShards S enc) enc
  | [], [], _ => by simp [maskShards, SubOf]
  | [], _ :: _, h => by simp at h
  | _ :: _, [], h => by simp at h
  | e :: enc, b :: S, h => by
    have ih := subOf_mask enc S (by simpa using h)
    simp only [maskShards] at ih
    cases b <;> simp [maskShards, SubOf, ih]

theorem present_mask : ∀ (enc : List Bytes) (S : List Bool), S.length = enc.length →
    present (maskShards S enc) = S.count true
  | [], [], _ => by simp [maskShards, present]
  | [], _ :: _, h => by simp at h
  | _ :: _, [], h => by simp at h
  | e :: enc, b :: S, h => by
    have ih := present_mask enc S (by simpa using h)
    simp only [maskShards, present] at ih
    cases b <;> simp [maskShards, present, List.countP_cons, List.count_cons, ih]

theorem mkUnits_root (C P : Bytes) (r : H) (t : List (List H)) (sg : Bytes) (n : Nat) :
    ∀ (enc : List Bytes) (i : Nat), ∀ u ∈ mkUnits C P r t sg n i enc, u.root = r
  | [], _, u, h => by simp [mkUnits] at h
  | e :: enc, i, u, h => by
    simp only [mkUnits, List.mem_cons] at h
    cases h with
    | inl e => rw [e]
    | inr e => exact mkUnits_root C P r t sg n enc (i + 1) u e

theorem mkUnits_length (C P : Bytes) (r : H) (t : List (List H)) (sg : Bytes) (n : Nat) :
    ∀ (enc : List Bytes) (i : Nat), (mkUnits C P r t sg n i enc).length = enc.length
  | [], _ => rfl
  | e :: enc, i => by simp [mkUnits, mkUnits_length C P r t sg n enc (i + 1)]

/-- Which unit's root is compared: some present unit when there is one (fixed code), `units[0]`
when shard 0 is present (code before a2bceaf). -/
theorem rootUnit_mask (cfg : Cfg) : ∀ (units : List (PUnit H)) (S : List Bool), S.length = units.length →
    ((cfg.rootFromPresent = true ∧ 0 < S.count true) ∨ S.head? = some true) →
    ∃ u, rootUnit cfg (maskUnits S units) = some u ∧ u ∈ units := by
  intro units S hlen h
  by_cases hS0 : S.head? = some true
  · match S, units, hlen, hS0 with
    | true :: S', u :: us, _, _ =>
      refine ⟨u, ?_, by simp⟩
      unfold rootUnit; split <;> simp [maskUnits]
  · have hc : cfg.rootFromPresent = true ∧ 0 < S.count true := by
      cases h with
      | inl h => exact h
      | inr h => exact absurd h hS0
    unfold rootUnit
    simp only [hc.1, if_true]
    clear h hS0
    have hcnt := hc.2
    clear hc
    induction S generalizing units with
    | nil => simp at hcnt
    | cons b S ih =>
      match units, hlen with
      | u :: us, hlen =>
        cases b with
        | true => exact ⟨u, by simp [maskUnits], by simp⟩
        | false =>
          have hcnt' : 0 < S.count true := by simpa [List.count_cons] using hcnt
          obtain ⟨w, hw1, hw2⟩ := ih us (by simpa using hlen) hcnt'
          refine ⟨w, ?_, by simp [hw2]⟩
          simpa [maskUnits] using hw1


/-! ### ConstructMessageFromUnits on units of CreatePropellerUnits -/

/-- Sizes a Go process can hold: the concatenation of all shards is a Go slice. -/
def GoSized (rs : RS) (msg : Bytes) (k p : Nat) : Prop := (encOf rs msg k p).flatten.length < 2 ^ 63

/-- ConstructMessageFromUnits on any selection of at least `k` of the publisher's units, up to the
choice of the unit whose root is compared. -/
theorem construct_created_aux [DecidableEq H] (cfg : Cfg) (f : HashFns H) (rs : RS)
    (C P : Bytes) (sig : Bytes) (n : Nat) (msg : Bytes) (k p : Nat)
    (hl : RSLaws rs k p) (hin : PadInput msg k) (hok : rsNewOk k p = true) (hsz : GoSized rs msg k p)
    (S : List Bool) (hS : S.length = k + p) (hcount : k ≤ S.count true)
    (localIdx : Nat) (hloc : localIdx < k + p) :
    construct cfg f rs
      (maskUnits S (mkUnits C P (treeOf cfg f rs msg k p).1 (treeOf cfg f rs msg k p).2 sig n 0
        (encOf rs msg k p))) localIdx k p =
      match rootUnit cfg (maskUnits S (mkUnits C P (treeOf cfg f rs msg k p).1
          (treeOf cfg f rs msg k p).2 sig n 0 (encOf rs msg k p))) with
      | none => if cfg.rootFromPresent then .err .root else .panic
      | some u0 =>
        if u0.root ≠ (treeOf cfg f rs msg k p).1 then .err .root
        else .ok (msg, (encOf rs msg k p).getD localIdx [], (treeOf cfg f rs msg k p).2.getD localIdx []) := by
  obtain ⟨s, hs, hlen, hsize, hdlen, hdsize, ⟨extra, hflat⟩, _⟩ := encOf_spec rs msg k p hl hin
  have hk := hin.1
  generalize hunits : mkUnits C P (treeOf cfg f rs msg k p).1 (treeOf cfg f rs msg k p).2 sig n 0
    (encOf rs msg k p) = units
  have hulen : units.length = k + p := by rw [← hunits, mkUnits_length, hlen]
  have hmne : (maskUnits S units).isEmpty = false := by
    cases S with
    | nil => simp at hS; omega
    | cons b S' =>
      cases units with
      | nil => simp at hulen; omega
      | cons u us => simp [maskUnits]
  have hsh : unitShards (maskUnits S units) = some (maskShards S (encOf rs msg k p)) := by
    rw [← hunits]; exact unitShards_mask _ _ _ _ _ _ _ _ _
  have hmsne : (maskShards S (encOf rs msg k p)).isEmpty = false := by
    cases S with
    | nil => simp at hS; omega
    | cons b S' =>
      cases henc : encOf rs msg k p with
      | nil => rw [henc] at hlen; simp at hlen; omega
      | cons u us => simp [maskShards]
  have hrec : rs.recover k p (maskShards S (encOf rs msg k p)) = some (encOf rs msg k p) := by
    have := hl.recover_complete (splitData (pad msg k) k p) (maskShards S (encOf rs msg k p)) s hdlen hs hdsize
      (subOf_mask _ _ (by rw [hS, hlen])) (by rw [present_mask _ _ (by rw [hS, hlen])]; exact hcount)
    exact this
  have hheadsz : ((encOf rs msg k p).headD []).length = s := by
    cases henc : encOf rs msg k p with
    | nil => rw [henc] at hlen; simp at hlen; omega
    | cons u us => simp; exact hsize u (by rw [henc]; simp)
  have hany : ((encOf rs msg k p).take k).any (fun x => x.length != s) = false := by
    rw [List.any_eq_false]
    intro x hx
    have := hsize x (List.mem_of_mem_take hx)
    simp [this]
  have hunpad : unpad cfg.unpadGuard (encOf rs msg k p).flatten = .ok msg := by
    rw [hflat]
    apply unpad_pad_append _ msg k hin
    rw [← hflat]; unfold GoSized at hsz; omega
  have hlocal : localIdx < (encOf rs msg k p).length := by rw [hlen]; exact hloc
  simp only [construct, hmne, Bool.false_eq_true, if_false, hsh, recoverData, hmsne, hok, Bool.not_true,
    hrec, hheadsz, hany]
  cases hru : rootUnit cfg (maskUnits S units) with
  | none => rfl
  | some u0 =>
    simp only [treeOf]
    by_cases hr : u0.root = (merkleNew f ((encOf rs msg k p).map (leafOf cfg.shardingLeafProto))).1
    · simp [hr, hunpad, hlocal]
    · simp [hr]

/-- `reconstruct_any_subset` on the model: any selection of at least `k` units gives back the
message, the local shard and its proof — provided the unit whose root is compared is present
(always, since a2bceaf; only when shard 0 is present, before). -/
theorem construct_created [DecidableEq H] (cfg : Cfg) (f : HashFns H) (rs : RS)
    (C P : Bytes) (sig : Bytes) (n : Nat) (msg : Bytes) (k p : Nat)
    (hl : RSLaws rs k p) (hin : PadInput msg k) (hok : rsNewOk k p = true) (hsz : GoSized rs msg k p)
    (S : List Bool) (hS : S.length = k + p) (hcount : k ≤ S.count true)
    (hroot : cfg.rootFromPresent = true ∨ S.head? = some true)
    (localIdx : Nat) (hloc : localIdx < k + p) :
    construct cfg f rs
      (maskUnits S (mkUnits C P (treeOf cfg f rs msg k p).1 (treeOf cfg f rs msg k p).2 sig n 0
        (encOf rs msg k p))) localIdx k p =
      .ok (msg, (encOf rs msg k p).getD localIdx [], (treeOf cfg f rs msg k p).2.getD localIdx []) := by
  rw [construct_created_aux cfg f rs C P sig n msg k p hl hin hok hsz S hS hcount localIdx hloc]
  obtain ⟨s, hs, hlen, _⟩ := encOf_spec rs msg k p hl hin
  have hk := hin.1
  obtain ⟨u0, hu0, hu0mem⟩ := rootUnit_mask cfg (mkUnits C P (treeOf cfg f rs msg k p).1
      (treeOf cfg f rs msg k p).2 sig n 0 (encOf rs msg k p)) S (by rw [hS, mkUnits_length, hlen]) (by
    cases hroot with
    | inl h => exact Or.inl ⟨h, by omega⟩
    | inr h => exact Or.inr h)
  have hu0root : u0.root = (treeOf cfg f rs msg k p).1 := mkUnits_root _ _ _ _ _ _ _ _ u0 hu0mem
  simp [hu0, hu0root]

/-- The defect repaired by a2bceaf (`rootFromPresent = false`): whenever shard 0 is missing, ConstructMessageFromUnits panics
(nil pointer dereference of `units[0]`), however many other shards are present. -/
theorem construct_created_panics_pinned [DecidableEq H] (cfg : Cfg) (f : HashFns H) (rs : RS)
    (C P : Bytes) (sig : Bytes) (n : Nat) (msg : Bytes) (k p : Nat)
    (hl : RSLaws rs k p) (hin : PadInput msg k) (hok : rsNewOk k p = true) (hsz : GoSized rs msg k p)
    (S : List Bool) (hS : S.length = k + p) (hcount : k ≤ S.count true)
    (hcfg : cfg.rootFromPresent = false) (h0 : S.head? = some false)
    (localIdx : Nat) (hloc : localIdx < k + p) :
    construct cfg f rs
      (maskUnits S (mkUnits C P (treeOf cfg f rs msg k p).1 (treeOf cfg f rs msg k p).2 sig n 0
        (encOf rs msg k p))) localIdx k p = .panic := by
  rw [construct_created_aux cfg f rs C P sig n msg k p hl hin hok hsz S hS hcount localIdx hloc]
  have : rootUnit cfg (maskUnits S (mkUnits C P (treeOf cfg f rs msg k p).1
      (treeOf cfg f rs msg k p).2 sig n 0 (encOf rs msg k p))) = none := by
    unfold rootUnit
    simp only [hcfg, Bool.false_eq_true, if_false]
    match S, h0 with
    | false :: S', _ =>
      cases hm : mkUnits C P (treeOf cfg f rs msg k p).1 (treeOf cfg f rs msg k p).2 sig n 0
        (encOf rs msg k p) with
      | nil => simp [maskUnits]
      | cons u us => simp [maskUnits]
  rw [this]
  simp [hcfg]

/-- The Merkle root binds the whole leaf list (of a known length) under the ideal hash. -/
theorem merkleNew_root_inj [DecidableEq H] (f : HashFns H) (hI : Ideal f) (l1 l2 : List Bytes)
    (hlen : l1.length = l2.length) (hne : l1 ≠ [])
    (h : (merkleNew f l1).1 = (merkleNew f l2).1) : l1 = l2 := by
  have hne2 : l2 ≠ [] := by
    intro h2; rw [h2] at hlen; exact hne (List.eq_nil_of_length_eq_zero hlen)
  apply List.ext_getElem hlen
  intro i h1 h2
  have hc := merkleNew_complete f l1 i h1
  rw [h] at hc
  obtain ⟨s1, _, _⟩ := merkleNew_sound f hI l2 hne2 _ _ _ hc
  obtain ⟨d, _, hd2, hd3⟩ := nextPow2_spec l2.length
  have : i % nextPow2 l2.length = i := Nat.mod_eq_of_lt (by omega)
  rw [this] at s1
  simp only [paddedLeaf] at s1
  simpa [List.getD_eq_getElem?_getD, h1, h2] using s1

theorem pbBytesField_inj (a b : Bytes) (h : pbBytesField a = pbBytesField b) : a = b := by
  unfold pbBytesField at h
  injection h with _ h
  have ua := uvarint_putUvarint (UInt64.ofNat a.length) a
  have ub := uvarint_putUvarint (UInt64.ofNat b.length) b
  rw [h, ub] at ua
  have hl : (putUvarint (UInt64.ofNat b.length)).length = (putUvarint (UInt64.ofNat a.length)).length := by
    have := congrArg Prod.snd ua; simp only [Int.natCast_inj] at this; exact this
  exact (List.append_inj h hl.symm).2

theorem leafOf_inj (proto : Bool) (a b : Bytes) (h : leafOf proto a = leafOf proto b) : a = b := by
  cases proto
  · simpa [leafOf] using h
  · simp only [leafOf, marshalShards, if_true, List.map_cons, List.map_nil, List.flatten_cons,
      List.flatten_nil, List.append_nil] at h
    have h2 := pbBytesField_inj _ _ h
    unfold marshalShard at h2
    by_cases ha : a.isEmpty <;> by_cases hb : b.isEmpty
    · rw [List.isEmpty_iff.mp ha, List.isEmpty_iff.mp hb]
    · simp [ha, hb, pbBytesField] at h2
    · simp [ha, hb, pbBytesField] at h2
    · simp only [ha, hb, Bool.false_eq_true, if_false] at h2
      exact pbBytesField_inj _ _ h2

theorem map_leafOf_inj (proto : Bool) : ∀ (l1 l2 : List Bytes),
    l1.map (leafOf proto) = l2.map (leafOf proto) → l1 = l2
  | [], [], _ => rfl
  | [], _ :: _, h => by simp at h
  | _ :: _, [], h => by simp at h
  | a :: l1, b :: l2, h => by
    simp only [List.map_cons, List.cons.injEq] at h
    rw [leafOf_inj proto a b h.1, map_leafOf_inj proto l1 l2 h.2]

/-- What a successful ConstructMessageFromUnits went through. -/
theorem construct_ok_inv [DecidableEq H] (cfg : Cfg) (f : HashFns H) (rs : RS)
    (U : List (Option (PUnit H))) (localIdx k p : Nat) (m sh : Bytes) (pr : List H)
    (hc : construct cfg f rs U localIdx k p = .ok (m, sh, pr)) :
    ∃ shards full u0, unitShards U = some shards ∧ rs.recover k p shards = some full ∧
      rootUnit cfg U = some u0 ∧
      u0.root = (merkleNew f (full.map (leafOf cfg.shardingLeafProto))).1 ∧
      unpad cfg.unpadGuard full.flatten = .ok m ∧ localIdx < full.length ∧
      sh = full.getD localIdx [] ∧
      pr = (merkleNew f (full.map (leafOf cfg.shardingLeafProto))).2.getD localIdx [] := by
  unfold construct at hc
  by_cases he : U.isEmpty = true
  · simp [he] at hc
  · simp only [he, if_false] at hc
    cases hus : unitShards U with
    | none => simp [hus] at hc
    | some shards =>
      simp only [hus] at hc
      cases hrd : recoverData rs shards k p with
      | panic => simp [hrd] at hc
      | err e => simp [hrd] at hc
      | ok full =>
        simp only [hrd] at hc
        have hrec : rs.recover k p shards = some full := by
          unfold recoverData at hrd
          by_cases h1 : shards.isEmpty = true
          · simp [h1] at hrd
          · by_cases h2 : (!rsNewOk k p) = true
            · simp [h1, h2] at hrd
            · simp only [h1, h2, if_false] at hrd
              cases hr : rs.recover k p shards with
              | none => simp [hr] at hrd
              | some c => simp [hr] at hrd; rw [hrd]
        by_cases hany : (full.take k).any (fun s => s.length != (full.headD []).length) = true
        · rw [if_pos hany] at hc; cases hc
        · rw [if_neg hany] at hc
          cases hru : rootUnit cfg U with
          | none =>
            simp only [hru] at hc
            by_cases hrp : cfg.rootFromPresent = true
            · simp [hrp] at hc
            · simp [hrp] at hc
          | some u0 =>
            simp only [hru] at hc
            by_cases hne : u0.root ≠ (merkleNew f (full.map (leafOf cfg.shardingLeafProto))).1
            · simp [hne] at hc
            · simp only [hne, if_false] at hc
              cases hup : unpad cfg.unpadGuard full.flatten with
              | panic => simp [hup] at hc
              | err e => simp [hup] at hc
              | ok msg' =>
                simp only [hup] at hc
                by_cases hloc : localIdx < full.length
                · simp only [hloc, if_true] at hc
                  injection hc with hc
                  simp only [Prod.mk.injEq] at hc
                  exact ⟨shards, full, u0, rfl, hrec, rfl, Classical.not_not.mp hne, by rw [hup, hc.1],
                    hloc, hc.2.1.symm, hc.2.2.symm⟩
                · simp [hloc] at hc

/-- Whatever units reach ConstructMessageFromUnits: if it succeeds and the unit whose root it
compares carries the publisher's root for `msg`, the result is `msg` with the publisher's shard and
proof for the local index. (Ideal hash; of the codec only the number of shards it returns is used.) -/
theorem construct_sound [DecidableEq H] (cfg : Cfg) (f : HashFns H) (hI : Ideal f) (rs : RS)
    (msg : Bytes) (k p : Nat) (hl : RSLaws rs k p) (hin : PadInput msg k) (hsz : GoSized rs msg k p)
    (U : List (Option (PUnit H))) (localIdx : Nat) (m sh : Bytes) (pr : List H)
    (hc : construct cfg f rs U localIdx k p = .ok (m, sh, pr))
    (hroot : ∀ u0, rootUnit cfg U = some u0 → u0.root = (treeOf cfg f rs msg k p).1) :
    m = msg ∧ sh = (encOf rs msg k p).getD localIdx [] ∧
      pr = (treeOf cfg f rs msg k p).2.getD localIdx [] := by
  obtain ⟨s, hs, hlen, hsize, hdlen, hdsize, ⟨extra, hflat⟩, _⟩ := encOf_spec rs msg k p hl hin
  obtain ⟨shards, full, u0, _, hrec, hu0, hr0, hup, hloc, hsh, hpr⟩ :=
    construct_ok_inv cfg f rs U localIdx k p m sh pr hc
  have hr := hroot u0 hu0
  have hrs := hl.recover_length _ _ hrec
  have hfl : (full.map (leafOf cfg.shardingLeafProto)).length =
      ((encOf rs msg k p).map (leafOf cfg.shardingLeafProto)).length := by
    simp [hrs, hlen]
  have hfne : full.map (leafOf cfg.shardingLeafProto) ≠ [] := by
    intro h0
    have : (full.map (leafOf cfg.shardingLeafProto)).length = 0 := by rw [h0]; rfl
    rw [List.length_map, hrs] at this
    have := hin.1; omega
  have heq : (merkleNew f (full.map (leafOf cfg.shardingLeafProto))).1 =
      (merkleNew f ((encOf rs msg k p).map (leafOf cfg.shardingLeafProto))).1 := by
    rw [← hr0, hr]; rfl
  have hfull : full = encOf rs msg k p :=
    map_leafOf_inj _ _ _ (merkleNew_root_inj f hI _ _ hfl hfne heq)
  subst hfull
  have hunpad : unpad cfg.unpadGuard (encOf rs msg k p).flatten = .ok msg := by
    rw [hflat]
    apply unpad_pad_append _ msg k hin
    rw [← hflat]; unfold GoSized at hsz; omega
  rw [hunpad] at hup
  injection hup with hup
  exact ⟨hup.symm, hsh, hpr⟩


theorem unitShards_some : ∀ (U : List (Option (PUnit H))), (∀ u, some u ∈ U → u.shards ≠ []) →
    ∃ sh, unitShards U = some sh ∧ present sh = (U.filterMap id).length
  | [], _ => ⟨[], rfl, rfl⟩
  | none :: rest, h => by
    obtain ⟨sh, h1, h2⟩ := unitShards_some rest (fun u hu => h u (by simp [hu]))
    exact ⟨none :: sh, by simp [unitShards, h1], by simp [present, List.countP_cons] at h2 ⊢; exact h2⟩
  | some u :: rest, h => by
    obtain ⟨sh, h1, h2⟩ := unitShards_some rest (fun u hu => h u (by simp [hu]))
    have hu := h u (by simp)
    cases hs : u.shards with
    | nil => exact absurd hs hu
    | cons x xs =>
      refine ⟨some x :: sh, by simp [unitShards, hs, h1], ?_⟩
      simp [present, List.countP_cons] at h2 ⊢; exact h2

/-- When can ConstructMessageFromUnits panic? Only through one of the two defects repaired by a2bceaf and
32710c6 (`units[0]` missing; `uint64` overflow in UnpadMessage) — provided every present unit carries
at least one shard (the validator enforces exactly one) and the local index is a shard index. -/
theorem construct_panic_only_if [DecidableEq H] (cfg : Cfg) (f : HashFns H) (rs : RS)
    (k p : Nat) (hl : RSLaws rs k p) (hk : 0 < k)
    (U : List (Option (PUnit H))) (hU : ∀ u, some u ∈ U → u.shards ≠ []) (localIdx : Nat)
    (hloc : localIdx < k + p)
    (h : construct cfg f rs U localIdx k p = .panic) :
    (cfg.rootFromPresent = false ∧ U.headD none = none) ∨
    (cfg.unpadGuard = false ∧ ∃ full, unpad false full = .panic) := by
  obtain ⟨sh, hsh, hpres⟩ := unitShards_some U hU
  unfold construct at h
  by_cases he : U.isEmpty = true
  · simp [he] at h
  · simp only [he, if_false, hsh] at h
    cases hrd : recoverData rs sh k p with
    | panic =>
      exfalso
      unfold recoverData at hrd
      split at hrd
      · cases hrd
      · split at hrd
        · cases hrd
        · split at hrd <;> cases hrd
    | err e => simp [hrd] at h
    | ok full =>
      simp only [hrd] at h
      have hrec : rs.recover k p sh = some full := by
        unfold recoverData at hrd
        by_cases h1 : sh.isEmpty = true
        · simp [h1] at hrd
        · by_cases h2 : (!rsNewOk k p) = true
          · simp [h1, h2] at hrd
          · simp only [h1, h2] at hrd
            cases hr : rs.recover k p sh with
            | none => simp [hr] at hrd
            | some c => simp [hr] at hrd; rw [hrd]
      have hlen := hl.recover_length _ _ hrec
      have hthr := hl.recover_threshold _ _ hrec
      by_cases hany : (full.take k).any (fun s => s.length != (full.headD []).length) = true
      · rw [if_pos hany] at h; cases h
      · rw [if_neg hany] at h
        cases hru : rootUnit cfg U with
        | none =>
          left
          simp only [hru] at h
          by_cases hc : cfg.rootFromPresent = true
          · simp [hc] at h
          · unfold rootUnit at hru
            simp only [hc, Bool.false_eq_true, if_false] at hru
            exact ⟨by simpa using hc, hru⟩
        | some u0 =>
          simp only [hru] at h
          by_cases hne : u0.root ≠ (merkleNew f (full.map (leafOf cfg.shardingLeafProto))).1
          · simp [hne] at h
          · simp only [hne, if_false] at h
            cases hup : unpad cfg.unpadGuard full.flatten with
            | panic =>
              right
              cases hg : cfg.unpadGuard with
              | true => rw [hg] at hup; exact absurd hup (unpad_guard_total _).1
              | false => rw [hg] at hup; exact ⟨rfl, _, hup⟩
            | err e => simp [hup] at h
            | ok m =>
              simp only [hup] at h
              have : localIdx < full.length := by omega
              simp [this] at h

/-- With both repairs ConstructMessageFromUnits cannot panic on validated units. -/
theorem construct_total [DecidableEq H] (cfg : Cfg) (f : HashFns H) (rs : RS)
    (k p : Nat) (hl : RSLaws rs k p) (hk : 0 < k) (h1 : cfg.rootFromPresent = true)
    (h2 : cfg.unpadGuard = true)
    (U : List (Option (PUnit H))) (hU : ∀ u, some u ∈ U → u.shards ≠ []) (localIdx : Nat)
    (hloc : localIdx < k + p) :
    construct cfg f rs U localIdx k p ≠ .panic := by
  intro h
  rcases construct_panic_only_if cfg f rs k p hl hk U hU localIdx hloc h with ⟨a, _⟩ | ⟨a, _⟩
  · rw [h1] at a; cases a
  · rw [h2] at a; cases a

end Juno.C19
