import JunoModel.C19.ModelR5
import JunoModel.C19.ProofsSched
import JunoModel.C19.ProofsMerkle
import JunoModel.C19.ProofsTasks
import JunoModel.C19.ProofsLive
/-
C19 — proofs of round 5 (core Lean only):
  * `slices.BinarySearchFunc` on a sorted peer list finds exactly the members, at their index; the
    scheduler's look-ups written with it are the `idxOf?` versions of ModelUnits;
  * `bits.Len` / `nextPowerOfTwo` as the code computes them; the length of every Merkle proof;
  * the refusal classes of `ProcessMessage`;
  * runs over events (units and time-outs): invariants, no panic;
  * rejected units of any number, then `k` honest units: the message is built (with task accounting).
-/
namespace Juno.C19

variable {H : Type}

/-! ### cmp.Compare on byte strings -/

theorem cmpBytes_neg (a b : Bytes) : cmpBytes a b < 0 ↔ lexLt a b = true := by
  unfold cmpBytes
  by_cases h1 : lexLt a b = true
  · simp [h1]
  · by_cases h2 : lexLt b a = true
    · simp [h1, h2]
    · simp [h1, h2]

theorem cmpBytes_zero (a b : Bytes) : cmpBytes a b = 0 ↔ a = b := by
  unfold cmpBytes
  constructor
  · intro h
    by_cases h1 : lexLt a b = true
    · simp [h1] at h
    · by_cases h2 : lexLt b a = true
      · simp [h1, h2] at h
      · rcases lexLt_trichotomy a b with h3 | h3 | h3
        · exact absurd h3 h1
        · exact h3
        · exact absurd h3 h2
  · intro h
    subst h
    simp [lexLt_irrefl]

/-- `a ≤ b < t → a < t`. -/
theorem lexLe_lt_trans (a b t : Bytes) (h1 : lexLt b a = false) (h2 : lexLt b t = true) :
    lexLt a t = true := by
  rcases lexLt_trichotomy a b with h | h | h
  · exact lexLt_trans a b t h h2
  · subst h; exact h2
  · rw [h1] at h; cases h

theorem sortedLe_getD (x : List Bytes) (hs : SortedLe x) (a b : Nat) (hab : a < b) (hb : b < x.length) :
    lexLt (x.getD b []) (x.getD a []) = false := by
  have ha : a < x.length := by omega
  have := (List.pairwise_iff_getElem.mp hs) a b ha hb hab
  simpa [List.getD_eq_getElem?_getD, List.getElem?_eq_getElem ha, List.getElem?_eq_getElem hb] using this

theorem sortedLe_of_sortedLt (x : List Bytes) (h : SortedLt x) : SortedLe x :=
  List.Pairwise.imp (fun {a b} hab => lexLt_asymm a b hab) h

/-! ### slices.BinarySearchFunc -/

/-- The loop's invariant, to its end: everything before the returned position is `< t`, everything
from it on is `≥ t`. -/
theorem binSearchLoop_spec (x : List Bytes) (t : Bytes) (hs : SortedLe x) :
    ∀ (fuel i j : Nat), i ≤ j → j ≤ x.length → j - i ≤ fuel →
      (∀ a, a < i → lexLt (x.getD a []) t = true) →
      (∀ b, j ≤ b → b < x.length → lexLt (x.getD b []) t = false) →
      binSearchLoop x t fuel i j ≤ x.length ∧
      (∀ a, a < binSearchLoop x t fuel i j → lexLt (x.getD a []) t = true) ∧
      (∀ b, binSearchLoop x t fuel i j ≤ b → b < x.length → lexLt (x.getD b []) t = false)
  | 0, i, j, hij, hj, hf, h1, h2 => by
    have : i = j := by omega
    subst this
    exact ⟨hj, h1, h2⟩
  | fuel + 1, i, j, hij, hj, hf, h1, h2 => by
    unfold binSearchLoop
    by_cases hlt : i < j
    · rw [if_pos hlt]
      have hh1 : i ≤ (i + j) / 2 := by omega
      have hh2 : (i + j) / 2 < j := by omega
      simp only
      by_cases hc : cmpBytes (x.getD ((i + j) / 2) []) t < 0
      · rw [if_pos hc]
        have hc' := (cmpBytes_neg _ _).mp hc
        apply binSearchLoop_spec x t hs fuel ((i + j) / 2 + 1) j (by omega) hj (by omega) _ h2
        intro a ha
        by_cases hah : a = (i + j) / 2
        · subst hah; exact hc'
        · exact lexLe_lt_trans _ _ _ (sortedLe_getD x hs a ((i + j) / 2) (by omega) (by omega)) hc'
      · rw [if_neg hc]
        have hc' : lexLt (x.getD ((i + j) / 2) []) t = false := by
          cases h : lexLt (x.getD ((i + j) / 2) []) t with
          | false => rfl
          | true => exact absurd ((cmpBytes_neg _ _).mpr h) hc
        apply binSearchLoop_spec x t hs fuel i ((i + j) / 2) hh1 (by omega) (by omega) h1
        intro b hb hbl
        by_cases hbh : b = (i + j) / 2
        · subst hbh; exact hc'
        · cases hbt : lexLt (x.getD b []) t with
          | false => rfl
          | true =>
            have := lexLe_lt_trans _ _ _ (sortedLe_getD x hs ((i + j) / 2) b (by omega) hbl) hbt
            rw [hc'] at this; cases this
    · rw [if_neg hlt]
      have : i = j := by omega
      subst this
      exact ⟨hj, h1, h2⟩

/-- `slices.BinarySearchFunc` on a sorted list: the position splits the list into `< t` and `≥ t`;
`found` says exactly whether `t` is an element; when found, the position holds `t` and nothing before
it does. -/
theorem binSearch_spec (x : List Bytes) (t : Bytes) (hs : SortedLe x) :
    (binSearch x t).1 ≤ x.length ∧
    (∀ a, a < (binSearch x t).1 → lexLt (x.getD a []) t = true) ∧
    (∀ b, (binSearch x t).1 ≤ b → b < x.length → lexLt (x.getD b []) t = false) ∧
    ((binSearch x t).2 = true ↔ t ∈ x) ∧
    ((binSearch x t).2 = true → (binSearch x t).1 < x.length ∧ x.getD (binSearch x t).1 [] = t) := by
  obtain ⟨h0, h1, h2⟩ := binSearchLoop_spec x t hs x.length 0 x.length (Nat.zero_le _) (Nat.le_refl _)
    (by omega) (by intro a ha; omega) (by intro b hb hbl; omega)
  have hfound : (binSearch x t).2 = true →
      (binSearch x t).1 < x.length ∧ x.getD (binSearch x t).1 [] = t := by
    intro hf
    simp only [binSearch, Bool.and_eq_true, decide_eq_true_eq, beq_iff_eq] at hf ⊢
    exact ⟨hf.1, (cmpBytes_zero _ _).mp hf.2⟩
  refine ⟨h0, h1, h2, ⟨fun hf => ?_, fun hm => ?_⟩, hfound⟩
  · obtain ⟨hl, hg⟩ := hfound hf
    rw [← hg, List.getD_eq_getElem?_getD, List.getElem?_eq_getElem hl]
    exact List.getElem_mem hl
  · obtain ⟨b, hb, hbt⟩ := List.getElem_of_mem hm
    have hbd : x.getD b [] = t := by
      rw [List.getD_eq_getElem?_getD, List.getElem?_eq_getElem hb]; exact hbt
    have hge : (binSearch x t).1 ≤ b := by
      apply Nat.le_of_not_lt
      intro hlt
      have := h1 b hlt
      rw [hbd, lexLt_irrefl] at this; cases this
    have hil : (binSearch x t).1 < x.length := Nat.lt_of_le_of_lt hge hb
    have hit : x.getD (binSearch x t).1 [] = t := by
      by_cases hib : (binSearch x t).1 = b
      · rw [hib]; exact hbd
      · have h3 := sortedLe_getD x hs (binSearch x t).1 b (by omega) hb
        rw [hbd] at h3
        have h4 := h2 (binSearch x t).1 (Nat.le_refl _) hil
        rcases lexLt_trichotomy (x.getD (binSearch x t).1 []) t with h | h | h
        · rw [h4] at h; cases h
        · exact h
        · rw [h3] at h; cases h
    simp only [binSearch, Bool.and_eq_true, decide_eq_true_eq, beq_iff_eq]
    exact ⟨hil, (cmpBytes_zero _ _).mpr hit⟩

/-- `publisherIndex` on a sorted peer list is the `idxOf?` look-up of ModelUnits: a member is found
at its index; a NON-member is refused, whatever insertion position the search computed. -/
theorem publisherIndexGo_eq (x : List Bytes) (t : Bytes) (hs : SortedLe x) :
    publisherIndexGo x t =
      match x.idxOf? t with
      | some i => .ok i
      | none => .error .publisherUnknown := by
  obtain ⟨_, h1, _, hmem, hfound⟩ := binSearch_spec x t hs
  unfold publisherIndexGo
  cases hf : (binSearch x t).2 with
  | true =>
    obtain ⟨hl, hg⟩ := hfound hf
    have hidx : x.idxOf? t = some (binSearch x t).1 := by
      rw [List.idxOf?_eq_some_iff]
      refine ⟨hl, ?_, ?_⟩
      · have hg' := hg
        rw [List.getD_eq_getElem?_getD, List.getElem?_eq_getElem hl] at hg'
        exact hg'
      · intro j hj he
        have := h1 j hj
        rw [List.getD_eq_getElem?_getD, List.getElem?_eq_getElem (by omega)] at this
        simp only [Option.getD_some] at this
        rw [he, lexLt_irrefl] at this; cases this
    rw [hidx]
    rcases hb : binSearch x t with ⟨i, found⟩
    rw [hb] at hf
    simp only at hf
    subst hf
    rfl
  | false =>
    have hnm : ¬ t ∈ x := by
      intro hm
      have := hmem.mpr hm
      rw [hf] at this; cases this
    rw [List.idxOf?_eq_none_iff.mpr hnm]
    rcases hb : binSearch x t with ⟨i, found⟩
    rw [hb] at hf
    simp only at hf
    subst hf
    rfl

theorem peerForShardGo_eq (s : Sched) (hs : SortedLe s.peers) (pub : Bytes) (idx : Nat) :
    s.peerForShardGo pub idx = s.peerForShard pub idx := by
  unfold Sched.peerForShardGo Sched.peerForShard
  rw [publisherIndexGo_eq s.peers pub hs]
  cases s.peers.idxOf? pub <;> rfl

theorem shardIndexForGo_eq (s : Sched) (hs : SortedLe s.peers) (pub : Bytes) :
    s.shardIndexForGo pub = s.shardIndexFor pub := by
  unfold Sched.shardIndexForGo Sched.shardIndexFor
  rw [publisherIndexGo_eq s.peers pub hs]
  cases s.peers.idxOf? pub <;> rfl

/-! ### bits.Len, nextPowerOfTwo -/

theorem bitsLenLoop_eq : ∀ (fuel x : Nat), x < 2 ^ fuel →
    bitsLenLoop fuel x = if x = 0 then 0 else Nat.log2 x + 1
  | 0, x, h => by
    have : x = 0 := by simpa using h
    subst this; rfl
  | fuel + 1, x, h => by
    unfold bitsLenLoop
    by_cases hx : x = 0
    · simp [hx]
    · rw [if_neg hx, if_neg hx, bitsLenLoop_eq fuel (x / 2) (by rw [Nat.pow_succ] at h; omega), Nat.log2_def x]
      by_cases h2 : 2 ≤ x
      · rw [if_pos h2, if_neg (by omega)]
      · have : x = 1 := by omega
        subst this
        simp

theorem bitsLen_zero : bitsLen 0 = 0 := rfl

/-- `bits.Len(x) = floor(log2 x) + 1` for `x > 0`. -/
theorem bitsLen_eq_log2 (x : Nat) (hx : x ≠ 0) : bitsLen x = Nat.log2 x + 1 := by
  unfold bitsLen
  rw [bitsLenLoop_eq x x Nat.lt_two_pow_self, if_neg hx]

theorem bitsLen_pos (x : Nat) (h : x ≠ 0) : bitsLen x = bitsLen (x / 2) + 1 := by
  rw [bitsLen_eq_log2 x h, Nat.log2_def x]
  by_cases h2 : 2 ≤ x
  · rw [if_pos h2, bitsLen_eq_log2 (x / 2) (by omega)]
  · have : x = 1 := by omega
    subst this
    rfl

/-- `nextPowerOfTwo` as the code computes it is the `nextPow2` of Model.lean. -/
theorem nextPow2Go_eq (n : Nat) : nextPow2Go n = nextPow2 n := by
  unfold nextPow2Go nextPow2
  by_cases h : n ≤ 2
  · simp [h]
  · simp only [h, if_false]
    rw [bitsLen_eq_log2 (n - 1) (by omega)]

/-- `2^d - 1` has `d` bits. -/
theorem bitsLen_two_pow_sub_one : ∀ d : Nat, bitsLen (2 ^ d - 1) = d
  | 0 => by simp [bitsLen_zero]
  | d + 1 => by
    have hp : 0 < 2 ^ d := Nat.pow_pos (by decide)
    rw [bitsLen_pos _ (by rw [Nat.pow_succ]; omega)]
    have : (2 ^ (d + 1) - 1) / 2 = 2 ^ d - 1 := by rw [Nat.pow_succ]; omega
    rw [this, bitsLen_two_pow_sub_one d]

/-- The length of the sibling list `proofLoop` builds over a layer of `2^d` hashes is `d`. -/
theorem proofLoop_length (f : HashFns H) : ∀ (d : Nat) (L : List H) (a : Nat), L.length = 2 ^ d →
    (proofLoop f L a).length = d
  | 0, L, a, h => by
    rw [proofLoop_single f L a (by rw [h]; simp)]; rfl
  | d + 1, L, a, h => by
    have hp : 0 < 2 ^ d := Nat.pow_pos (by decide)
    have hgt : L.length > 1 := by rw [h, Nat.pow_succ]; omega
    rw [proofLoop_step f L a hgt]
    simp only [List.length_cons]
    rw [proofLoop_length f d (pairUp f L) (a / 2) (by rw [pairUp_length, h, Nat.pow_succ]; omega)]

/-- Every proof `merkle.New` returns has one sibling per level of the padded tree:
`2 ^ len = nextPowerOfTwo(n)`, `len = bits.Len(nextPowerOfTwo(n) - 1) ≥ 1` — for every number of
leaves, a single leaf included (its proof is the empty-leaf sibling). -/
theorem merkleNew_proof_length (f : HashFns H) (leaves : List Bytes) (i : Nat) (hi : i < leaves.length) :
    2 ^ ((merkleNew f leaves).2.getD i []).length = nextPow2Go leaves.length ∧
    ((merkleNew f leaves).2.getD i []).length = proofDepthGo leaves.length ∧
    1 ≤ ((merkleNew f leaves).2.getD i []).length := by
  obtain ⟨d, hd1, hd2, _⟩ := nextPow2_spec leaves.length
  have hne : leaves.isEmpty = false := by
    cases leaves with
    | nil => simp at hi
    | cons a t => rfl
  have hlen : ((merkleNew f leaves).2.getD i []).length = d := by
    unfold merkleNew
    simp only [hne, Bool.false_eq_true, if_false]
    rw [List.getD_eq_getElem?_getD, List.getElem?_map, List.getElem?_range hi]
    simp only [Option.map_some, Option.getD_some]
    exact proofLoop_length f d _ i (by rw [bottomLayer_length, hd2])
  refine ⟨by rw [hlen, nextPow2Go_eq, hd2], ?_, by omega⟩
  rw [hlen]
  unfold proofDepthGo
  rw [nextPow2Go_eq, hd2, bitsLen_two_pow_sub_one]

/-! ### runs over events: a unit handed over, or a subprocessor's time-out -/

/-- What `tprocStep` answers is `procStep`'s answer, or `noRoute` (a bound of `increaseTasks`). -/
theorem tprocStep_out [DecidableEq H] (b : Bounds) (cfg : Cfg) (pc : PCfg) (f : HashFns H)
    (rs : RS) (sg : SigScheme H) (s : Sched) (tp : TProc H) (u : PUnit H) (sender : Bytes) :
    (tprocStep b cfg pc f rs sg s tp u sender).2 = .noRoute ∨
    (tprocStep b cfg pc f rs sg s tp u sender).2 = (procStep cfg pc f rs sg s tp.core u sender).2 := by
  unfold tprocStep
  by_cases hw : wouldCreate pc sg s tp.core u = true
  · rw [if_pos hw]
    by_cases hb : tp.ptasks (keyOf u).publisher = b.maxPerPublisher ∨ tp.tasks = b.maxWorkers
    · rw [if_pos hb]; exact Or.inl rfl
    · rw [if_neg hb]
      rcases procStep cfg pc f rs sg s tp.core u sender with ⟨p', out⟩
      cases out with
      | handled bc bu e => cases e <;> exact Or.inr rfl
      | ignored => exact Or.inr rfl
      | noRoute => exact Or.inr rfl
      | panic => exact Or.inr rfl
  · rw [if_neg hw]
    rcases procStep cfg pc f rs sg s tp.core u sender with ⟨p', out⟩
    cases out with
    | handled bc bu e => cases e <;> exact Or.inr rfl
    | ignored => exact Or.inr rfl
    | noRoute => exact Or.inr rfl
    | panic => exact Or.inr rfl

theorem tprocExpire_procInv [DecidableEq H] (s : Sched) (tp : TProc H) (key : MsgKey H)
    (hp : ProcInv s tp.core) : ProcInv s (tprocExpire tp key).core := by
  unfold tprocExpire
  cases hf : tp.core.findSub key with
  | none => exact hp
  | some st0 =>
    intro key' st h
    have h' : (tp.core.dropSub key).findSub key' = some st := h
    rw [findSub_dropSub] at h'
    by_cases hk : key' = key
    · rw [if_pos hk] at h'; cases h'
    · rw [if_neg hk] at h'; exact hp key' st h'

/-- SAFETY OVER WHOLE RUNS. From any state that satisfies the invariants, over ANY list of events
(units of any kind from any sender, time-outs of any message key, in any order): the invariants hold
at the end and no unit's outcome is a panic. -/
theorem tprocRunEv_safe [DecidableEq H] (b : Bounds) (f : HashFns H) (rs : RS) (sg : SigScheme H)
    (id : Bytes) (nodes : List Bytes) (s : Sched) (hs : newScheduler id nodes = .ok s)
    (hl : RSLaws rs s.k s.c) :
    ∀ (evs : List (PEvent H)) (tp : TProc H), TInv tp → ProcInv s tp.core →
      TInv (tprocRunEv b Cfg.current PCfg.current f rs sg s tp evs).1 ∧
      ProcInv s (tprocRunEv b Cfg.current PCfg.current f rs sg s tp evs).1.core ∧
      ∀ o ∈ (tprocRunEv b Cfg.current PCfg.current f rs sg s tp evs).2, o ≠ .panic
  | [], tp, ht, hp => ⟨ht, hp, by intro o ho; simp [tprocRunEv] at ho⟩
  | .unit u sender :: rest, tp, ht, hp => by
    obtain ⟨h1, h2, h3⟩ := tprocRunEv_safe b f rs sg id nodes s hs hl rest
      (tprocStep b Cfg.current PCfg.current f rs sg s tp u sender).1
      (tprocStep_inv b Cfg.current PCfg.current f rs sg s tp u sender ht)
      (tprocStep_procInv b Cfg.current PCfg.current f rs sg s tp u sender hp)
    refine ⟨h1, h2, ?_⟩
    intro o ho
    simp only [tprocRunEv, List.mem_cons] at ho
    rcases ho with ho | ho
    · subst ho
      rcases tprocStep_out b Cfg.current PCfg.current f rs sg s tp u sender with h | h
      · rw [h]; intro hh; cases hh
      · rw [h]
        exact procStep_total Cfg.current PCfg.current f rs sg id nodes s hs tp.core hp u sender rfl rfl rfl rfl hl
    · exact h3 o ho
  | .expire key :: rest, tp, ht, hp => by
    simp only [tprocRunEv]
    exact tprocRunEv_safe b f rs sg id nodes s hs hl rest (tprocExpire tp key)
      (tprocExpire_inv tp key ht) (tprocExpire_procInv s tp key hp)
  | .forget key :: rest, tp, ht, hp => by
    simp only [tprocRunEv]
    exact tprocRunEv_safe b f rs sg id nodes s hs hl rest (tprocForget tp key) ht
      (fun key' st h => hp key' st h)

/-! ### rejected units, then the honest message -/

/-- Rejected units are invisible to every later unit: the processor state they leave answers every
sequence of units exactly as the state before them. -/
theorem rejected_units_are_noops [DecidableEq H] (b : Bounds) (cfg : Cfg) (f : HashFns H) (rs : RS)
    (sg : SigScheme H) (s : Sched) :
    ∀ (garbage : List (PUnit H × Bytes)) (tp : TProc H), ProcInv s tp.core →
      AllRejected b cfg PCfg.current f rs sg s tp garbage →
      ∀ ops, procRun cfg PCfg.current f rs sg s (tprocRunState b cfg PCfg.current f rs sg s tp garbage).core ops =
        procRun cfg PCfg.current f rs sg s tp.core ops
  | [], _, _, _ => fun _ => rfl
  | (u, sender) :: rest, tp, hp, hr => by
    intro ops
    obtain ⟨⟨e, he⟩, hrest⟩ := hr
    simp only [tprocRunState]
    rw [rejected_units_are_noops b cfg f rs sg s rest _
      (tprocStep_procInv b cfg PCfg.current f rs sg s tp u sender hp) hrest ops]
    rcases tprocStep_core b cfg PCfg.current f rs sg s tp u sender with h | h
    · rw [h]
    · rw [h]
      exact (rejected_unit_is_noop cfg PCfg.current rfl f rs sg s tp.core hp u sender e (Or.inl rfl) he).2.2 ops

/-- With task accounting, a sequence of units of ONE message key behaves as without it, provided the
key's subprocessor exists already or a slot is free for its publisher when the first unit arrives, and
no unit before the last one ends the subprocessor. -/
theorem tprocRun_single_key [DecidableEq H] (b : Bounds) (cfg : Cfg) (pc : PCfg) (f : HashFns H) (rs : RS)
    (sg : SigScheme H) (s : Sched) (K : MsgKey H) :
    ∀ (ops : List (PUnit H × Bytes)) (tp : TProc H), (∀ op ∈ ops, keyOf op.1 = K) →
      ((tp.core.findSub K).isSome = true ∨
        (tp.ptasks K.publisher ≠ b.maxPerPublisher ∧ tp.tasks ≠ b.maxWorkers)) →
      (∀ i, i + 1 < ops.length → ∃ bc bu, (procRun cfg pc f rs sg s tp.core ops)[i]? = some (.handled bc bu none)) →
      tprocRun b cfg pc f rs sg s tp ops = procRun cfg pc f rs sg s tp.core ops
  | [], _, _, _, _ => rfl
  | (u, sender) :: rest, tp, hk, hfree, hrun => by
    have hku : keyOf u = K := hk (u, sender) (List.mem_cons_self ..)
    have hf : wouldCreate pc sg s tp.core u = true →
        tp.ptasks (keyOf u).publisher ≠ b.maxPerPublisher ∧ tp.tasks ≠ b.maxWorkers := by
      intro hw
      have hn := findSub_none_of_wouldCreate pc sg s tp.core u hw
      rw [hku] at hn ⊢
      rcases hfree with h | h
      · rw [hn] at h; cases h
      · exact h
    obtain ⟨e1, e2⟩ := tprocStep_eq_procStep b cfg pc f rs sg s tp u sender hf
    simp only [tprocRun, procRun]
    rw [e1]
    congr 1
    cases hrest : rest with
    | nil => simp [tprocRun, procRun]
    | cons op rest' =>
      have h0 := hrun 0 (by rw [hrest]; simp)
      obtain ⟨bc, bu, h0⟩ := h0
      simp only [procRun, List.getElem?_cons_zero, Option.some.injEq] at h0
      -- the first step stored the subprocessor of K
      have hsome : ((procStep cfg pc f rs sg s tp.core u sender).1.findSub K).isSome = true := by
        rcases procStep_shape cfg pc f rs sg s tp.core u sender with h | h | h
        · exact absurd h0 (h.2 bc bu none)
        · obtain ⟨⟨st, _, _, hst, _⟩, _⟩ := h
          rw [hst, findSub_setSub, hku]; simp
        · obtain ⟨⟨bc', b', e', _, hout⟩, _⟩ := h
          rw [hout] at h0; cases h0
      have ih := tprocRun_single_key b cfg pc f rs sg s K (op :: rest')
        (tprocStep b cfg pc f rs sg s tp u sender).1
        (by intro o ho; exact hk o (by rw [hrest]; exact List.mem_cons_of_mem _ ho))
        (Or.inl (by rw [e2]; exact hsome))
        (by
          intro i hi
          have := hrun (i + 1) (by rw [hrest]; simp only [List.length_cons] at hi ⊢; omega)
          simp only [procRun, List.getElem?_cons_succ] at this
          rw [e2, ← hrest]
          exact this)
      rw [ih, e2]

theorem procRun_length [DecidableEq H] (cfg : Cfg) (pc : PCfg) (f : HashFns H) (rs : RS) (sg : SigScheme H)
    (s : Sched) : ∀ (ops : List (PUnit H × Bytes)) (p : Proc H), (procRun cfg pc f rs sg s p ops).length = ops.length
  | [], _ => rfl
  | (u, sender) :: rest, p => by
    simp only [procRun, List.length_cons, procRun_length cfg pc f rs sg s rest]

/-- LIVENESS WITH TASK ACCOUNTING, AFTER ANY NUMBER OF REJECTED UNITS. In any state of the processor in
which the honest message is new and a task slot is free for its publisher: first ANY sequence of units
each rejected by the validator of its message key (however long; of this message — a corrupted copy of
one of its units arriving first — or of any other key, naming any publisher), then `k` distinct honest
units of the message in any order, each from its designated sender: the rejected units cost nothing —
the first `k-1` honest units are stored, the `k`-th builds EXACTLY `msg`, and exactly one unit is
handed to `broadcastUnit`: the publisher's unit for the local index. -/
theorem builds_after_rejected_units [DecidableEq H] (b : Bounds) (f : HashFns H) (rs : RS) (sg : SigScheme H)
    (id : Bytes) (nodes : List Bytes) (s : Sched) (hs : newScheduler id nodes = .ok s)
    (C P : Bytes) (hPm : P ∈ nodes) (hP : P ≠ id) (hkey : sg.hasKey P = true)
    (nonce : Nat) (msg : Bytes) (hl : RSLaws rs s.k s.c) (hin : PadInput msg s.k)
    (hok : rsNewOk s.k s.c = true) (hsmall : msg.length < 2 ^ 40)
    (hsig : SigOk f rs sg s C P nonce msg) (tp : TProc H) (hp : ProcInv s tp.core)
    (hfin : tp.core.finalized.contains (hKey f rs s C P nonce msg) = false)
    (hnone : tp.core.findSub (hKey f rs s C P nonce msg) = none)
    (hslot : tp.ptasks P ≠ b.maxPerPublisher ∧ tp.tasks ≠ b.maxWorkers)
    (garbage : List (PUnit H × Bytes))
    (hrej : AllRejected b Cfg.current PCfg.current f rs sg s tp garbage)
    (idxs : List Nat) (hnd : idxs.Nodup) (hlt : ∀ i ∈ idxs, i < s.total) (hlen : idxs.length = s.k) :
    ∃ li, s.shardIndexFor P = .ok li ∧ li < s.total ∧ ∃ pre bc e,
      tprocRun b Cfg.current PCfg.current f rs sg s
          (tprocRunState b Cfg.current PCfg.current f rs sg s tp garbage)
          (idxs.map (fun i => (honestUnit Cfg.current f rs sg C P nonce msg s.k s.c i, s.sender P i))) =
        pre ++ [.handled bc (some msg) e] ∧
      (∀ o ∈ pre, ∃ bb, o = .handled bb none none) ∧
      (pre ++ [.handled bc (some msg) e]).flatMap ProcOut.bcast =
        [honestUnit Cfg.current f rs sg C P nonce msg s.k s.c li] := by
  obtain ⟨li, h1, h2, pre, bc, e, h3, h4, h5⟩ :=
    procRun_builds_from_honest_units f rs sg s C P nonce msg PCfg.current rfl id nodes hs hPm hP hkey hl hin hok
      hsmall hsig tp.core hfin hnone idxs hnd hlt hlen
  refine ⟨li, h1, h2, pre, bc, e, ?_, h4, h5⟩
  obtain ⟨hc1, hc2⟩ := rejected_units_keep_counters b Cfg.current PCfg.current f rs sg s garbage tp hp hrej
  have hno := rejected_units_are_noops b Cfg.current f rs sg s garbage tp hp hrej
  rw [tprocRun_single_key b Cfg.current PCfg.current f rs sg s (hKey f rs s C P nonce msg) _ _
    (by
      intro op hop
      simp only [List.mem_map] at hop
      obtain ⟨i, _, hi⟩ := hop
      rw [← hi]
      rfl)
    (Or.inr (by rw [hc1, hc2]; exact hslot))
    (by
      intro i hi
      rw [hno, h3]
      simp only [List.length_map] at hi
      have hlen' : (pre ++ [ProcOut.handled bc (some msg) e]).length = idxs.length := by
        have := congrArg List.length h3
        simp only [procRun_length, List.length_map] at this
        exact this.symm
      simp only [List.length_append, List.length_cons, List.length_nil] at hlen'
      have hip : i < pre.length := by omega
      rw [List.getElem?_append_left hip, List.getElem?_eq_getElem hip]
      obtain ⟨bb, hbb⟩ := h4 pre[i] (List.getElem_mem hip)
      exact ⟨bb, none, by rw [hbb]⟩)]
  rw [hno, h3]

/-! ### why `ProcessMessage` refuses a unit -/

/-- Every refusal `createSubprocessor` can answer with is a `noRoute` of the model that leaves the
processor — subprocessors, finalized keys, BOTH task counters — exactly as it was. -/
theorem refusal_some_is_noroute [DecidableEq H] (b : Bounds) (cfg : Cfg) (pc : PCfg) (hkg : pc.keyGuard = true)
    (f : HashFns H) (rs : RS) (sg : SigScheme H) (s : Sched) (tp : TProc H) (u : PUnit H) (sender : Bytes)
    (r : Refusal) (h : refusalOf b pc sg s tp u = some r) :
    tprocStep b cfg pc f rs sg s tp u sender = (tp, .noRoute) := by
  unfold refusalOf at h
  by_cases hc : tp.core.finalized.contains (keyOf u) = true
  · rw [if_pos hc] at h; cases h
  · have hc' : tp.core.finalized.contains (keyOf u) = false := by simpa using hc
    rw [if_neg hc] at h
    by_cases hsb : (tp.core.findSub (keyOf u)).isSome = true
    · rw [if_pos hsb] at h; cases h
    · rw [if_neg hsb] at h
      have hnone : tp.core.findSub (keyOf u) = none := by
        cases hh : tp.core.findSub (keyOf u) with
        | none => rfl
        | some st => rw [hh] at hsb; simp at hsb
      cases hsi : s.shardIndexFor (keyOf u).publisher with
      | error e =>
        have hw : wouldCreate pc sg s tp.core u = false := by
          unfold wouldCreate; rw [hsi]; simp
        have hk : keylessNew sg s tp.core u = false := by
          unfold keylessNew; rw [hsi]; simp
        unfold tprocStep
        rw [hw, procStep_keyed cfg pc f rs sg s tp.core u sender hk]
        unfold procStepCore
        simp only [hc', Bool.false_eq_true, if_false, hsi]
      | ok li =>
        rw [hsi] at h
        simp only at h
        by_cases hk : (pc.keyGuard && !sg.hasKey (keyOf u).publisher) = true
        · have hw : wouldCreate pc sg s tp.core u = false := by
            unfold wouldCreate; rw [hk]; simp
          have hkl : keylessNew sg s tp.core u = true := by
            unfold keylessNew
            rw [hc', hsi, hnone]
            rw [hkg] at hk
            simpa using hk
          unfold tprocStep
          rw [hw, procStep_keyless cfg pc f rs sg s tp.core u sender hkl, hkg]
          simp
        · rw [if_neg hk] at h
          have hw : wouldCreate pc sg s tp.core u = true := by
            unfold wouldCreate
            rw [hc', hsi, hnone]
            have : (pc.keyGuard && !sg.hasKey (keyOf u).publisher) = false := by simpa using hk
            rw [this]; rfl
          have hb : tp.ptasks (keyOf u).publisher = b.maxPerPublisher ∨ tp.tasks = b.maxWorkers := by
            by_cases h1 : tp.ptasks (keyOf u).publisher = b.maxPerPublisher
            · exact Or.inl h1
            · rw [if_neg h1] at h
              by_cases h2 : tp.tasks = b.maxWorkers
              · exact Or.inr h2
              · rw [if_neg h2] at h; cases h
          unfold tprocStep
          rw [if_pos hw, if_pos hb]

/-- … and these are all: when none of the five reasons applies (in a state where a stored subprocessor
has a routable publisher — every reachable state), the unit is not refused. -/
theorem refusal_none_not_noroute [DecidableEq H] (b : Bounds) (cfg : Cfg) (pc : PCfg)
    (f : HashFns H) (rs : RS) (sg : SigScheme H) (s : Sched) (tp : TProc H) (u : PUnit H) (sender : Bytes)
    (hsub : ∀ st, tp.core.findSub (keyOf u) = some st → ∃ li, s.shardIndexFor (keyOf u).publisher = .ok li)
    (h : refusalOf b pc sg s tp u = none) :
    (tprocStep b cfg pc f rs sg s tp u sender).2 ≠ .noRoute := by
  -- the outcome of procStepCore when the key is routable and not finalized
  have hcore : ∀ li, tp.core.finalized.contains (keyOf u) = false →
      s.shardIndexFor (keyOf u).publisher = .ok li →
      (procStepCore cfg pc f rs sg s tp.core u sender).2 ≠ .noRoute := by
    intro li hc hsi
    unfold procStepCore
    simp only [hc, Bool.false_eq_true, if_false, hsi]
    cases subStep cfg pc f rs sg s (keyOf u).publisher li
        ((tp.core.findSub (keyOf u)).getD (SubState.fresh s.total)) u sender with
    | running st' bc bb => simp
    | finished err bc bb => simp
    | firstInvalid => cases pc.noPoison <;> simp
    | panic => simp
  unfold refusalOf at h
  by_cases hc : tp.core.finalized.contains (keyOf u) = true
  · -- finalized: ignored
    have hw : wouldCreate pc sg s tp.core u = false := by unfold wouldCreate; rw [hc]; simp
    have hk : keylessNew sg s tp.core u = false := by unfold keylessNew; rw [hc]; simp
    unfold tprocStep
    rw [hw, procStep_keyed cfg pc f rs sg s tp.core u sender hk]
    unfold procStepCore
    rw [if_pos hc]
    simp
  · have hc' : tp.core.finalized.contains (keyOf u) = false := by simpa using hc
    rw [if_neg hc] at h
    cases hfs : tp.core.findSub (keyOf u) with
    | some st =>
      obtain ⟨li, hsi⟩ := hsub st hfs
      have hw : wouldCreate pc sg s tp.core u = false := by unfold wouldCreate; rw [hfs]; simp
      have hk : keylessNew sg s tp.core u = false := by unfold keylessNew; rw [hfs]; simp
      have := hcore li hc' hsi
      unfold tprocStep
      rw [hw, procStep_keyed cfg pc f rs sg s tp.core u sender hk]
      rcases hr : procStepCore cfg pc f rs sg s tp.core u sender with ⟨p', out⟩
      rw [hr] at this
      cases out with
      | handled bc bu e => cases e <;> simp
      | ignored => simp
      | noRoute => exact absurd rfl this
      | panic => simp
    | none =>
      rw [hfs] at h
      simp only [Option.isSome_none, Bool.false_eq_true, if_false] at h
      cases hsi : s.shardIndexFor (keyOf u).publisher with
      | error e =>
        rw [hsi] at h
        cases e <;> simp at h
      | ok li =>
        rw [hsi] at h
        simp only at h
        by_cases hkk : (pc.keyGuard && !sg.hasKey (keyOf u).publisher) = true
        · rw [if_pos hkk] at h; cases h
        · rw [if_neg hkk] at h
          by_cases h1 : tp.ptasks (keyOf u).publisher = b.maxPerPublisher
          · rw [if_pos h1] at h; cases h
          · rw [if_neg h1] at h
            by_cases h2 : tp.tasks = b.maxWorkers
            · rw [if_pos h2] at h; cases h
            · have hw : wouldCreate pc sg s tp.core u = true := by
                unfold wouldCreate
                rw [hc', hsi, hfs]
                have : (pc.keyGuard && !sg.hasKey (keyOf u).publisher) = false := by simpa using hkk
                rw [this]; rfl
              have hnb : ¬ (tp.ptasks (keyOf u).publisher = b.maxPerPublisher ∨ tp.tasks = b.maxWorkers) := by
                intro hh; rcases hh with hh | hh
                · exact h1 hh
                · exact h2 hh
              unfold tprocStep
              rw [if_pos hw, if_neg hnb]
              -- procStep: keyless (no guard) panics, otherwise procStepCore
              cases hk : keylessNew sg s tp.core u with
              | true =>
                rw [procStep_keyless cfg pc f rs sg s tp.core u sender hk]
                have hg : pc.keyGuard = false := by
                  unfold keylessNew at hk
                  rw [hc', hsi, hfs] at hk
                  have hk' : sg.hasKey (keyOf u).publisher = false := by simpa using hk
                  rw [hk'] at hkk
                  simpa using hkk
                rw [hg]; simp
              | false =>
                have := hcore li hc' hsi
                rw [procStep_keyed cfg pc f rs sg s tp.core u sender hk]
                rcases hr : procStepCore cfg pc f rs sg s tp.core u sender with ⟨p', out⟩
                rw [hr] at this
                cases out with
                | handled bc bu e => cases e <;> simp
                | ignored => simp
                | noRoute => exact absurd rfl this
                | panic => simp

/-- Every stored subprocessor belongs to a publisher `ShardIndexForPublisher` accepts (it was created
after that check). -/
def SubsRoutable [DecidableEq H] (s : Sched) (p : Proc H) : Prop :=
  ∀ key st, p.findSub key = some st → ∃ li, s.shardIndexFor key.publisher = .ok li

theorem subsRoutable_empty [DecidableEq H] (s : Sched) : SubsRoutable s (Proc.empty : Proc H) := by
  intro key st h; simp [Proc.empty, Proc.findSub] at h

theorem procStep_subsRoutable [DecidableEq H] (cfg : Cfg) (pc : PCfg) (f : HashFns H) (rs : RS)
    (sg : SigScheme H) (s : Sched) (p : Proc H) (u : PUnit H) (sender : Bytes)
    (hp : SubsRoutable s p) : SubsRoutable s (procStep cfg pc f rs sg s p u sender).1 := by
  rcases procStep_shape cfg pc f rs sg s p u sender with h | h | h
  · rw [h.1]; exact hp
  · obtain ⟨⟨st, _, _, hst, _⟩, _, _, li, hli⟩ := h
    rw [hst]
    intro key st' hf
    rw [findSub_setSub] at hf
    by_cases hk : key = keyOf u
    · subst hk; exact ⟨li, hli⟩
    · rw [if_neg hk] at hf; exact hp key st' hf
  · obtain ⟨⟨_, _, _, hsubs, _⟩, _⟩ := h
    intro key st' hf
    have hf' : (p.dropSub (keyOf u)).findSub key = some st' := by
      unfold Proc.findSub at hf ⊢
      rw [← hsubs]; exact hf
    rw [findSub_dropSub] at hf'
    by_cases hk : key = keyOf u
    · rw [if_pos hk] at hf'; cases hf'
    · rw [if_neg hk] at hf'; exact hp key st' hf'

theorem tprocRunEv_routable [DecidableEq H] (b : Bounds) (cfg : Cfg) (pc : PCfg) (f : HashFns H) (rs : RS)
    (sg : SigScheme H) (s : Sched) :
    ∀ (evs : List (PEvent H)) (tp : TProc H), SubsRoutable s tp.core →
      SubsRoutable s (tprocRunEv b cfg pc f rs sg s tp evs).1.core
  | [], _, h => h
  | .unit u sender :: rest, tp, h => by
    simp only [tprocRunEv]
    apply tprocRunEv_routable b cfg pc f rs sg s rest
    rcases tprocStep_core b cfg pc f rs sg s tp u sender with hc | hc
    · rw [hc]; exact h
    · rw [hc]; exact procStep_subsRoutable cfg pc f rs sg s tp.core u sender h
  | .expire key :: rest, tp, h => by
    simp only [tprocRunEv]
    apply tprocRunEv_routable b cfg pc f rs sg s rest
    unfold tprocExpire
    cases hf : tp.core.findSub key with
    | none => exact h
    | some st0 =>
      intro key' st hfs
      have h' : (tp.core.dropSub key).findSub key' = some st := hfs
      rw [findSub_dropSub] at h'
      by_cases hk : key' = key
      · rw [if_pos hk] at h'; cases h'
      · rw [if_neg hk] at h'; exact h key' st h'
  | .forget key :: rest, tp, h => by
    simp only [tprocRunEv]
    exact tprocRunEv_routable b cfg pc f rs sg s rest (tprocForget tp key) (fun key' st hf => h key' st hf)

end Juno.C19
