import JunoModel.C19.ProofsUnits
/-!
C19 — helper lemmas, part 4: scheduler origin check, UnitValidator, processor routing.
-/
namespace Juno.C19
variable {H : Type}

/-! ### ValidateShardOrigin -/

theorem origin_ok_inv (s : Sched) (sender pub : Bytes) (idx : Nat)
    (h : s.validateOrigin sender pub idx = .ok ()) :
    sender ≠ s.localId ∧ pub ≠ s.localId ∧ idx < s.total ∧
    ∃ expected, s.peerForShard pub idx = .ok expected ∧
      ((expected = s.localId ∧ sender = pub) ∨ expected = sender) := by
  unfold Sched.validateOrigin at h
  by_cases h1 : sender = s.localId
  · simp [h1] at h
  · by_cases h2 : pub = s.localId
    · simp [h1, h2] at h
    · simp only [h1, h2, if_false] at h
      cases hp : s.peerForShard pub idx with
      | error e => simp [hp] at h
      | ok expected =>
        simp only [hp] at h
        have hidx : idx < s.total := by
          unfold Sched.peerForShard at hp
          by_cases h3 : idx ≥ s.total
          · simp [h3] at hp
          · omega
        refine ⟨h1, h2, hidx, expected, rfl, ?_⟩
        by_cases h4 : expected = s.localId ∧ sender = pub
        · exact Or.inl h4
        · by_cases h5 : expected = sender
          · exact Or.inr h5
          · simp [h4, h5] at h

/-- Any other sender is rejected. -/
theorem origin_rejects_other_sender (s : Sched) (sender pub : Bytes) (idx : Nat) (expected : Bytes)
    (hp : s.peerForShard pub idx = .ok expected)
    (h1 : ¬ (expected = s.localId ∧ sender = pub)) (h2 : expected ≠ sender) :
    ∃ e, s.validateOrigin sender pub idx = .error e := by
  cases h : s.validateOrigin sender pub idx with
  | error e => exact ⟨e, rfl⟩
  | ok u =>
    obtain ⟨_, _, _, ex, hex, hor⟩ := origin_ok_inv s sender pub idx h
    rw [hp] at hex
    injection hex with hex
    subst hex
    cases hor with
    | inl h => exact absurd h h1
    | inr h => exact absurd h h2

/-! ### UnitValidator.Validate -/

theorem validate_ok_inv [DecidableEq H] (cfg : Cfg) (f : HashFns H) (sg : SigScheme H) (s : Sched)
    (publisher : Bytes) (st st' : VState) (u : PUnit H) (sender : Bytes)
    (h : validate cfg f sg s publisher st u sender = .ok st') :
    st.received.contains u.index = false ∧
    s.validateOrigin sender u.publisher u.index = .ok () ∧
    verifyDataShards cfg f u = .ok () ∧
    ∃ st1, verifySignature sg publisher st u = .ok st1 ∧
      st' = { st1 with received := u.index :: st1.received } := by
  unfold validate at h
  by_cases h1 : st.received.contains u.index = true
  · rw [if_pos h1] at h; cases h
  · rw [if_neg h1] at h
    cases ho : s.validateOrigin sender u.publisher u.index with
    | error e => simp [ho] at h
    | ok x =>
      simp only [ho] at h
      cases hd : verifyDataShards cfg f u with
      | error e => simp [hd] at h
      | ok y =>
        simp only [hd] at h
        cases hs : verifySignature sg publisher st u with
        | error e => simp [hs] at h
        | ok st1 =>
          simp only [hs] at h
          injection h with h
          exact ⟨by simpa using h1, rfl, rfl, st1, rfl, h.symm⟩

theorem verifySignature_ok_inv (sg : SigScheme H) (publisher : Bytes) (st st1 : VState) (u : PUnit H)
    (h : verifySignature sg publisher st u = .ok st1) :
    st1.received = st.received ∧ st1.verifiedSig = some u.sig ∧
    ((st.verifiedSig = some u.sig) ∨
     (st.verifiedSig = none ∧ u.sig ≠ [] ∧
      sg.verify publisher ⟨u.root, u.committee, u.nonce⟩ u.sig = true)) := by
  unfold verifySignature at h
  cases hv : st.verifiedSig with
  | some v =>
    simp only [hv] at h
    by_cases he : v = u.sig
    · simp only [he, if_true] at h
      injection h with h
      subst h
      exact ⟨rfl, by rw [hv, he], Or.inl (by rw [he])⟩
    · simp [he] at h
  | none =>
    simp only [hv] at h
    by_cases he : u.sig.isEmpty = true
    · simp [he] at h
    · simp only [he, if_false] at h
      by_cases hs : sg.verify publisher ⟨u.root, u.committee, u.nonce⟩ u.sig = true
      · simp only [hs, if_true] at h
        injection h with h
        subst h
        refine ⟨rfl, rfl, Or.inr ⟨rfl, ?_, hs⟩⟩
        intro h0; rw [h0] at he; simp at he
      · simp [hs] at h

/-- verifyDataShards under the ideal hash: exactly one shard, and it is the leaf committed at the
unit's index (mod the tree size) of any leaf list with this root, with the tree's own proof. -/
theorem verifyDataShards_sound [DecidableEq H] (cfg : Cfg) (f : HashFns H) (hI : Ideal f) (u : PUnit H)
    (leaves : List Bytes) (hne : leaves ≠ []) (hroot : u.root = (merkleNew f leaves).1)
    (h : verifyDataShards cfg f u = .ok ()) :
    ∃ x, u.shards = [x] ∧
      leafOf cfg.validatorLeafProto x = paddedLeaf leaves (u.index % nextPow2 leaves.length) ∧
      u.proof = proofLoop f (bottomLayer f leaves) (u.index % nextPow2 leaves.length) := by
  unfold verifyDataShards at h
  match hsd : u.shards with
  | [] => simp [hsd] at h
  | _ :: _ :: _ => simp [hsd] at h
  | [x] =>
    simp only [hsd] at h
    refine ⟨x, rfl, ?_⟩
    by_cases hv : verify f u.proof u.root (if cfg.validatorLeafProto = true then marshalShards [x] else x) u.index = true
    · rw [hroot] at hv
      obtain ⟨a, b, _⟩ := merkleNew_sound f hI leaves hne _ _ _ hv
      exact ⟨by simpa [leafOf] using a, b⟩
    · simp [hv] at h


/-- `validate_sound`: a unit that UnitValidator accepts, and that carries the root of the tree
over `enc` in the validator's leaf encoding (with as many shards as the scheduler has indices),
carries exactly shard `enc[index]`, the tree's proof for `index`, an index in range, and comes
from the designated broadcaster of that index (or from the publisher when that is the local
peer). Ideal hash. -/
theorem validate_sound [DecidableEq H] (cfg : Cfg) (f : HashFns H) (hI : Ideal f) (sg : SigScheme H)
    (s : Sched) (publisher : Bytes) (st st' : VState) (u : PUnit H) (sender : Bytes)
    (enc : List Bytes) (hne : enc ≠ []) (htotal : s.total = enc.length)
    (hroot : u.root = (merkleNew f (enc.map (leafOf cfg.validatorLeafProto))).1)
    (h : validate cfg f sg s publisher st u sender = .ok st') :
    u.index < enc.length ∧ u.shards = [enc.getD u.index []] ∧
    u.proof = (merkleNew f (enc.map (leafOf cfg.validatorLeafProto))).2.getD u.index [] ∧
    u.index ∉ st.received ∧
    ∃ expected, s.peerForShard u.publisher u.index = .ok expected ∧
      ((expected = s.localId ∧ sender = u.publisher) ∨ expected = sender) := by
  obtain ⟨hdup, horig, hdata, _⟩ := validate_ok_inv cfg f sg s publisher st st' u sender h
  obtain ⟨_, _, hidx, expected, hexp, hor⟩ := origin_ok_inv s sender u.publisher u.index horig
  have hne' : enc.map (leafOf cfg.validatorLeafProto) ≠ [] := by
    intro h0; apply hne; exact List.map_eq_nil_iff.mp h0
  obtain ⟨x, hx, hleaf, hproof⟩ := verifyDataShards_sound cfg f hI u _ hne' hroot hdata
  rw [htotal] at hidx
  obtain ⟨d, _, hd2, hd3⟩ := nextPow2_spec (enc.map (leafOf cfg.validatorLeafProto)).length
  have hmod : u.index % nextPow2 (enc.map (leafOf cfg.validatorLeafProto)).length = u.index := by
    apply Nat.mod_eq_of_lt; rw [hd2]; simp at hd3; omega
  rw [hmod] at hleaf hproof
  have hx2 : x = enc.getD u.index [] := by
    apply leafOf_inj cfg.validatorLeafProto
    rw [hleaf]; simp [paddedLeaf, List.getD_eq_getElem?_getD, hidx]
  refine ⟨hidx, by rw [hx, hx2], ?_, by simpa using hdup, expected, hexp, hor⟩
  rw [hproof, merkleNew_proof_getD f _ u.index (by simpa using hidx)]

/-! ### Processor routing: invariants over any sequence of deliveries -/

theorem find_filter_ne [DecidableEq H] (key key' : MsgKey H) (h : key' ≠ key) :
    ∀ r : Routes H, (r.filter (fun e => e.1 ≠ key)).find? (fun e => e.1 = key') =
      r.find? (fun e => e.1 = key')
  | [] => rfl
  | e :: r => by
    have ih := find_filter_ne key key' h r
    by_cases he : e.1 = key
    · have hne : ¬ e.1 = key' := by rw [he]; exact fun x => h x.symm
      rw [List.filter_cons_of_neg (by simp [he]), List.find?_cons_of_neg (by simp [hne]), ih]
    · rw [List.filter_cons_of_pos (by simp [he])]
      by_cases he' : e.1 = key'
      · rw [List.find?_cons_of_pos (by simp [he']), List.find?_cons_of_pos (by simp [he'])]
      · rw [List.find?_cons_of_neg (by simp [he']), List.find?_cons_of_neg (by simp [he']), ih]

theorem routes_find_set [DecidableEq H] (r : Routes H) (key key' : MsgKey H) (st : VState) :
    (r.set key st).find key' = if key' = key then some st else r.find key' := by
  unfold Routes.set Routes.find
  by_cases h : key' = key
  · subst h; simp
  · have h' : ¬ key = key' := fun e => h e.symm
    rw [List.find?_cons_of_neg (by simp [h']), find_filter_ne key key' h r]
    simp [h]

/-- Every validator that has cached a signature cached one that verifies, under its key's
publisher, over its key's (root, committee, nonce); and no validator holds an index twice. -/
def RoutesOk [DecidableEq H] (sg : SigScheme H) (r : Routes H) : Prop :=
  ∀ key st, r.find key = some st →
    st.received.Nodup ∧
    ∀ v, st.verifiedSig = some v → sg.verify key.publisher ⟨key.root, key.committee, key.nonce⟩ v = true

theorem routesOk_nil [DecidableEq H] (sg : SigScheme H) : RoutesOk sg ([] : Routes H) := by
  intro key st h; simp [Routes.find] at h

theorem freshOk (sg : SigScheme H) (key : MsgKey H) :
    VState.fresh.received.Nodup ∧
    ∀ v, VState.fresh.verifiedSig = some v → sg.verify key.publisher ⟨key.root, key.committee, key.nonce⟩ v = true := by
  simp [VState.fresh]

/-- One delivery: the invariant is kept, and an accepted unit carries a signature that verifies
under its publisher's key over its own (root, committee, nonce), passed the origin check and the
Merkle check, and its index was not accepted before for this message key. -/
theorem deliver_step [DecidableEq H] (cfg : Cfg) (f : HashFns H) (sg : SigScheme H) (s : Sched)
    (r : Routes H) (u : PUnit H) (sender : Bytes) (hr : RoutesOk sg r) :
    RoutesOk sg (deliver cfg f sg s r u sender).1 ∧
    ((deliver cfg f sg s r u sender).2 = .ok () →
      sg.verify u.publisher ⟨u.root, u.committee, u.nonce⟩ u.sig = true ∧
      s.validateOrigin sender u.publisher u.index = .ok () ∧
      verifyDataShards cfg f u = .ok () ∧
      (∀ st, r.find (keyOf u) = some st → u.index ∉ st.received) ∧
      ∃ st', (deliver cfg f sg s r u sender).1.find (keyOf u) = some st' ∧ u.index ∈ st'.received) := by
  unfold deliver
  cases hsel : routeState s r (keyOf u) with
  | error e => exact ⟨hr, fun h => by cases h⟩
  | ok st =>
    have hstate : (st.received.Nodup ∧ ∀ v, st.verifiedSig = some v →
        sg.verify (keyOf u).publisher ⟨(keyOf u).root, (keyOf u).committee, (keyOf u).nonce⟩ v = true) ∧
        (∀ st0, r.find (keyOf u) = some st0 → st0 = st) := by
      unfold routeState at hsel
      cases hf : r.find (keyOf u) with
      | some st0 =>
        simp only [hf] at hsel
        injection hsel with hsel
        subst hsel
        exact ⟨hr _ _ hf, fun st1 h1 => by injection h1 with h1; exact h1.symm⟩
      | none =>
        simp only [hf] at hsel
        cases hsi : s.shardIndexFor (keyOf u).publisher with
        | error e => simp [hsi] at hsel
        | ok i =>
          simp only [hsi] at hsel
          injection hsel with hsel
          subst hsel
          exact ⟨freshOk sg (keyOf u), fun st1 h1 => by cases h1⟩
    obtain ⟨⟨hnd, hsigok⟩, hsame⟩ := hstate
    simp only
    cases hv : validate cfg f sg s (keyOf u).publisher st u sender with
    | error e =>
      simp only
      refine ⟨?_, fun h => by cases h⟩
      intro key' st1 h1
      rw [routes_find_set] at h1
      by_cases hk : key' = keyOf u
      · simp only [hk, if_true] at h1
        injection h1 with h1
        subst h1; subst hk
        exact ⟨hnd, hsigok⟩
      · simp only [hk, if_false] at h1
        exact hr _ _ h1
    | ok st' =>
      simp only
      obtain ⟨hdup, horig, hdata, st1, hs1, hst'⟩ := validate_ok_inv cfg f sg s _ st st' u sender hv
      obtain ⟨hrec, hvs, hcase⟩ := verifySignature_ok_inv sg _ st st1 u hs1
      have hsigu : sg.verify u.publisher ⟨u.root, u.committee, u.nonce⟩ u.sig = true := by
        cases hcase with
        | inl hc => exact hsigok _ hc
        | inr hc => exact hc.2.2
      have hnotin : u.index ∉ st.received := by simpa using hdup
      refine ⟨?_, fun _ => ⟨hsigu, horig, hdata, ?_, st', ?_, ?_⟩⟩
      · intro key' st2 h2
        rw [routes_find_set] at h2
        by_cases hk : key' = keyOf u
        · simp only [hk, if_true] at h2
          injection h2 with h2
          subst h2; subst hk
          rw [hst']
          refine ⟨?_, ?_⟩
          · simp only [List.nodup_cons, hrec]; exact ⟨hnotin, hnd⟩
          · intro v hv'
            simp only [hvs] at hv'
            injection hv' with hv'
            subst hv'
            exact hsigu
        · simp only [hk, if_false] at h2
          exact hr _ _ h2
      · intro st0 h0
        rw [hsame st0 h0]; exact hnotin
      · rw [routes_find_set]; simp
      · rw [hst']; simp


/-! ### the publisher's units -/

/-- Unit `i` of `CreatePropellerUnits(…, nonce, msg, k, p)`. -/
def honestUnit (cfg : Cfg) (f : HashFns H) (rs : RS) (sg : SigScheme H) (C P : Bytes) (nonce : Nat)
    (msg : Bytes) (k p i : Nat) : PUnit H :=
  { committee := C, publisher := P, root := (treeOf cfg f rs msg k p).1,
    proof := (treeOf cfg f rs msg k p).2.getD i [],
    sig := sg.sign ⟨(treeOf cfg f rs msg k p).1, C, nonce⟩, index := i,
    shards := [(encOf rs msg k p).getD i []], nonce := if cfg.nonceSet then nonce else 0 }

theorem mkUnits_getElem? (C P : Bytes) (r : H) (t : List (List H)) (sg : Bytes) (n : Nat) :
    ∀ (enc : List Bytes) (i0 j : Nat), j < enc.length →
    (mkUnits C P r t sg n i0 enc)[j]? = some
      { committee := C, publisher := P, root := r, proof := t.getD (i0 + j) [], sig := sg,
        index := i0 + j, shards := [enc.getD j []], nonce := n }
  | [], _, _, h => by simp at h
  | e :: enc, i0, 0, _ => by simp [mkUnits]
  | e :: enc, i0, j + 1, h => by
    have := mkUnits_getElem? C P r t sg n enc (i0 + 1) j (by simpa using h)
    simp only [mkUnits, List.getElem?_cons_succ, this, List.getD_cons_succ]
    rw [show i0 + 1 + j = i0 + (j + 1) by omega]

/-- CreatePropellerUnits returns `k+p` units, the `i`-th being `honestUnit … i`. -/
theorem createUnits_spec (cfg : Cfg) (f : HashFns H) (rs : RS) (sg : SigScheme H)
    (C P : Bytes) (nonce : Nat) (msg : Bytes) (k p : Nat) (hl : RSLaws rs k p) (hin : PadInput msg k)
    (hok : rsNewOk k p = true) :
    ∃ units, createUnits cfg f rs sg C P nonce msg k p = .ok units ∧ units.length = k + p ∧
      ∀ i, i < k + p → units[i]? = some (honestUnit cfg f rs sg C P nonce msg k p i) := by
  obtain ⟨s, hs, hlen, _⟩ := encOf_spec rs msg k p hl hin
  refine ⟨_, createUnits_eq cfg f rs sg C P nonce msg k p hin.1 hok, by rw [mkUnits_length, hlen], ?_⟩
  intro i hi
  rw [mkUnits_getElem? _ _ _ _ _ _ _ 0 i (by rw [hlen]; exact hi)]
  simp [honestUnit]

/-- Completeness of the validator: when sharding.go and unit_validator.go agree on the leaf
encoding and the signature verifies over the unit's own fields, unit `i` of the publisher is
accepted from any sender that passes the origin check, unless index `i` was accepted before. -/
theorem validate_accepts_honest [DecidableEq H] (cfg : Cfg) (f : HashFns H) (rs : RS) (sg : SigScheme H)
    (s : Sched) (C P : Bytes) (nonce : Nat) (msg : Bytes) (k p i : Nat)
    (hcfg : cfg.shardingLeafProto = cfg.validatorLeafProto)
    (hl : RSLaws rs k p) (hin : PadInput msg k) (hi : i < k + p)
    (st : VState) (hnew : i ∉ st.received) (sender : Bytes)
    (horig : s.validateOrigin sender P i = .ok ())
    (hsig : st.verifiedSig = some (sg.sign ⟨(treeOf cfg f rs msg k p).1, C, nonce⟩) ∨
      (st.verifiedSig = none ∧ sg.sign ⟨(treeOf cfg f rs msg k p).1, C, nonce⟩ ≠ [] ∧
       sg.verify P ⟨(treeOf cfg f rs msg k p).1, C, if cfg.nonceSet then nonce else 0⟩
         (sg.sign ⟨(treeOf cfg f rs msg k p).1, C, nonce⟩) = true)) :
    validate cfg f sg s P st (honestUnit cfg f rs sg C P nonce msg k p i) sender =
      .ok { received := i :: st.received,
            verifiedSig := some (sg.sign ⟨(treeOf cfg f rs msg k p).1, C, nonce⟩) } := by
  obtain ⟨sz, hs, hlen, _⟩ := encOf_spec rs msg k p hl hin
  have hdup : st.received.contains i = false := by simpa using hnew
  have hdata : verifyDataShards cfg f (honestUnit cfg f rs sg C P nonce msg k p i) = .ok () := by
    have hc := merkleNew_complete f ((encOf rs msg k p).map (leafOf cfg.shardingLeafProto)) i
      (by simpa [hlen] using hi)
    have hleaf : ((encOf rs msg k p).map (leafOf cfg.shardingLeafProto)).getD i [] =
        leafOf cfg.shardingLeafProto ((encOf rs msg k p).getD i []) := by
      simp [List.getD_eq_getElem?_getD, hlen, hi]
    rw [hleaf] at hc
    simp only [verifyDataShards, honestUnit, treeOf]
    rw [← hcfg]
    simp only [leafOf] at hc
    simpa [List.getD_eq_getElem?_getD] using hc
  have hsigv : verifySignature sg P st (honestUnit cfg f rs sg C P nonce msg k p i) =
      .ok { st with verifiedSig := some (sg.sign ⟨(treeOf cfg f rs msg k p).1, C, nonce⟩) } := by
    unfold verifySignature
    cases hsig with
    | inl h =>
      simp only [h, honestUnit, if_true]
      cases st; simp_all
    | inr h =>
      have hne : (sg.sign ⟨(treeOf cfg f rs msg k p).1, C, nonce⟩).isEmpty = false := by
        cases hx : sg.sign ⟨(treeOf cfg f rs msg k p).1, C, nonce⟩ with
        | nil => exact absurd hx h.2.1
        | cons _ _ => rfl
      simp only [h.1, honestUnit, hne, Bool.false_eq_true, if_false, h.2.2, if_true]
  unfold validate
  simp only [honestUnit] at hdata hsigv ⊢
  simp only [hdup, Bool.false_eq_true, if_false, horig, hdata, hsigv]

/-! ### the defects repaired by 8f80b72 and d76716c, as theorems about the flags -/

theorem pbBytesField_length (b : Bytes) : b.length + 2 ≤ (pbBytesField b).length := by
  have := putUvarint_length_pos (UInt64.ofNat b.length)
  simp only [pbBytesField, List.length_cons, List.length_append]; omega

theorem marshalShards_single_ne (x : Bytes) : marshalShards [x] ≠ x := by
  intro h
  have hl : (marshalShards [x]).length = x.length := by rw [h]
  simp only [marshalShards, List.map_cons, List.map_nil, List.flatten_cons, List.flatten_nil,
    List.append_nil] at hl
  have h1 := pbBytesField_length (marshalShard x)
  unfold marshalShard at h1 hl
  by_cases hx : x.isEmpty = true
  · have hx' := List.isEmpty_iff.mp hx
    subst hx'
    simp [pbBytesField] at hl
  · simp only [hx, Bool.false_eq_true, if_false] at h1 hl
    have h2 := pbBytesField_length x
    omega

theorem verifyDataShards_single [DecidableEq H] (cfg : Cfg) (f : HashFns H) (u : PUnit H) (x : Bytes)
    (hsh : u.shards = [x]) :
    verifyDataShards cfg f u = .ok () ∨ verifyDataShards cfg f u = .error .merkle := by
  unfold verifyDataShards
  rw [hsh]
  simp only
  split <;> simp

/-- Lead L6b as a theorem: when sharding.go commits to raw shards and the validator verifies the
protobuf encoding (the tree before 8f80b72), EVERY unit of CreatePropellerUnits fails the validator's
Merkle check (ideal hash: no collision can rescue it). -/
theorem created_unit_rejected_when_leaf_encodings_differ [DecidableEq H] (cfg : Cfg) (f : HashFns H)
    (hI : Ideal f) (rs : RS) (sg : SigScheme H) (C P : Bytes) (nonce : Nat) (msg : Bytes) (k p i : Nat)
    (h1 : cfg.shardingLeafProto = false) (h2 : cfg.validatorLeafProto = true)
    (hl : RSLaws rs k p) (hin : PadInput msg k) (hi : i < k + p) :
    verifyDataShards cfg f (honestUnit cfg f rs sg C P nonce msg k p i) = .error .merkle := by
  obtain ⟨sz, hs, hlen, _⟩ := encOf_spec rs msg k p hl hin
  have key : verifyDataShards cfg f (honestUnit cfg f rs sg C P nonce msg k p i) ≠ .ok () := by
    intro hv
    have hne : (encOf rs msg k p).map (leafOf cfg.shardingLeafProto) ≠ [] := by
      intro h0
      have : ((encOf rs msg k p).map (leafOf cfg.shardingLeafProto)).length = 0 := by rw [h0]; rfl
      rw [List.length_map, hlen] at this; have := hin.1; omega
    obtain ⟨x, hx, hleaf, _⟩ := verifyDataShards_sound cfg f hI _ _ hne rfl hv
    simp only [honestUnit, List.cons.injEq, and_true] at hx
    obtain ⟨d, _, hd2, hd3⟩ := nextPow2_spec ((encOf rs msg k p).map (leafOf cfg.shardingLeafProto)).length
    have hmod : i % nextPow2 ((encOf rs msg k p).map (leafOf cfg.shardingLeafProto)).length = i := by
      apply Nat.mod_eq_of_lt; rw [hd2]; simp at hd3; omega
    simp only [honestUnit] at hleaf
    rw [hmod] at hleaf
    have hi' : i < (encOf rs msg k p).length := by rw [hlen]; exact hi
    simp only [paddedLeaf, h1, h2, leafOf, List.getD_eq_getElem?_getD, List.getElem?_map,
      List.getElem?_eq_getElem hi', Option.map_some, Option.getD_some, Bool.false_eq_true,
      if_false, if_true] at hleaf
    rw [← hx] at hleaf
    simp only [List.getD_eq_getElem?_getD, List.getElem?_eq_getElem hi', Option.getD_some] at hleaf
    exact marshalShards_single_ne _ hleaf
  rcases verifyDataShards_single cfg f (honestUnit cfg f rs sg C P nonce msg k p i) _ rfl with h | h
  · exact absurd h key
  · exact h

/-- The fourth defect: without the fix the unit's own (root, committee, nonce) is the signed
payload only for nonce 0. -/
theorem created_unit_payload (cfg : Cfg) (f : HashFns H) (rs : RS) (sg : SigScheme H) (C P : Bytes)
    (nonce : Nat) (msg : Bytes) (k p i : Nat) :
    let u := honestUnit cfg f rs sg C P nonce msg k p i
    ((⟨u.root, u.committee, u.nonce⟩ : Payload H) = ⟨(treeOf cfg f rs msg k p).1, C, nonce⟩) ↔
      (cfg.nonceSet = true ∨ nonce = 0) := by
  simp only [honestUnit]
  by_cases h : cfg.nonceSet = true
  · simp [h]
  · simp only [h, Bool.false_eq_true, if_false, false_or]
    constructor
    · intro e; injection e with _ _ e; exact e.symm
    · intro e; rw [e]

/-! ### any sequence of deliveries -/

/-- Verdicts of a sequence of `(unit, sender)` deliveries through the processor's routing. -/
def deliverAll [DecidableEq H] (cfg : Cfg) (f : HashFns H) (sg : SigScheme H) (s : Sched) :
    Routes H → List (PUnit H × Bytes) → List (Except VErr Unit)
  | _, [] => []
  | r, (u, sender) :: rest =>
    (deliver cfg f sg s r u sender).2 :: deliverAll cfg f sg s (deliver cfg f sg s r u sender).1 rest

theorem deliverAll_accepted [DecidableEq H] (cfg : Cfg) (f : HashFns H) (sg : SigScheme H) (s : Sched) :
    ∀ (ops : List (PUnit H × Bytes)) (r : Routes H), RoutesOk sg r →
    ∀ (i : Nat) (u : PUnit H) (sender : Bytes), ops[i]? = some (u, sender) →
    (deliverAll cfg f sg s r ops)[i]? = some (.ok ()) →
      sg.verify u.publisher ⟨u.root, u.committee, u.nonce⟩ u.sig = true ∧
      s.validateOrigin sender u.publisher u.index = .ok () ∧
      verifyDataShards cfg f u = .ok ()
  | [], _, _, i, _, _, h, _ => by simp at h
  | (u0, s0) :: rest, r, hr, 0, u, sender, h, hv => by
    simp only [List.getElem?_cons_zero, Option.some.injEq, Prod.mk.injEq] at h
    obtain ⟨rfl, rfl⟩ := h
    simp only [deliverAll, List.getElem?_cons_zero, Option.some.injEq] at hv
    obtain ⟨a, b, c, _⟩ := (deliver_step cfg f sg s r u0 s0 hr).2 hv
    exact ⟨a, b, c⟩
  | (u0, s0) :: rest, r, hr, i + 1, u, sender, h, hv => by
    simp only [List.getElem?_cons_succ] at h
    simp only [deliverAll, List.getElem?_cons_succ] at hv
    exact deliverAll_accepted cfg f sg s rest _ (deliver_step cfg f sg s r u0 s0 hr).1 i u sender h hv


/-- The codec for `(k, p) = (1, 0)` (a committee of two peers): the single shard is the data. Used
only to show that the hypotheses `RSLaws` are satisfiable. -/
def trivialCode : RS :=
  { parity := fun _ _ _ => [],
    recover := fun _ _ S => match S with
      | [some x] => some [x]
      | _ => none }

theorem trivialCode_laws : RSLaws trivialCode 1 0 where
  parity_length := by intro d _; rfl
  parity_size := by intro d s _ _ x hx; simp [trivialCode] at hx
  recover_complete := by
    intro d S s hd _ _ hsub hpres
    match d, hd with
    | [x], _ =>
      simp only [trivialCode, List.append_nil] at hsub ⊢
      match S, hsub with
      | [none], _ => simp [present] at hpres
      | [some y], h =>
        simp only [SubOf] at h
        cases h.1 with
        | inl e => cases e
        | inr e => injection e with e; subst e; rfl
  recover_length := by
    intro S c h
    simp only [trivialCode] at h
    split at h
    · injection h with h; subst h; rfl
    · cases h
  recover_threshold := by
    intro S c h
    simp only [trivialCode] at h
    split at h
    · simp [present]
    · cases h

theorem nodup_getElem_inj {l : List Bytes} (h : l.Nodup) (i j : Nat) (hi : i < l.length) (hj : j < l.length)
    (e : l[i] = l[j]) : i = j := by
  rw [List.nodup_iff_pairwise_ne, List.pairwise_iff_getElem] at h
  rcases Nat.lt_trichotomy i j with hlt | heq | hgt
  · exact absurd e (h i j hi hj hlt)
  · exact heq
  · exact absurd e.symm (h j i hj hi hgt)

/-- The shard ↔ peer assignment for a publisher in a duplicate-free committee of `total + 1`
peers: every shard index in range has a designated broadcaster, who is a committee member other
than the publisher, and different indices have different broadcasters (so a Byzantine peer can get
at most its own index past the origin check). -/
theorem peerForShard_spec (s : Sched) (hnd : s.peers.Nodup) (hlen : s.peers.length = s.total + 1)
    (pub : Bytes) (hp : pub ∈ s.peers) :
    (∀ i, i < s.total → ∃ q, s.peerForShard pub i = .ok q ∧ q ∈ s.peers ∧ q ≠ pub) ∧
    (∀ i j q, s.peerForShard pub i = .ok q → s.peerForShard pub j = .ok q → i = j) := by
  have hsome : ∃ pi, s.peers.idxOf? pub = some pi := by
    cases h : s.peers.idxOf? pub with
    | none => rw [List.idxOf?_eq_none_iff] at h; exact absurd hp h
    | some pi => exact ⟨pi, rfl⟩
  obtain ⟨pi, hpi⟩ := hsome
  obtain ⟨hpilt, hpiget, _⟩ := List.idxOf?_eq_some_iff.mp hpi
  have key : ∀ i (hi : i < s.total),
      s.peerForShard pub i = .ok (s.peers[if i ≥ pi then i + 1 else i]'(by split <;> omega)) := by
    intro i hi
    unfold Sched.peerForShard
    have : ¬ i ≥ s.total := by omega
    simp only [this, if_false, hpi]
    rw [List.getElem?_eq_getElem (by split <;> omega)]
  have range : ∀ i q, s.peerForShard pub i = .ok q → i < s.total := by
    intro i q h
    unfold Sched.peerForShard at h
    by_cases hge : i ≥ s.total
    · simp [hge] at h
    · omega
  refine ⟨?_, ?_⟩
  · intro i hi
    refine ⟨_, key i hi, List.getElem_mem _, ?_⟩
    intro e
    rw [← hpiget] at e
    have := nodup_getElem_inj hnd _ _ (by split <;> omega) hpilt e
    split at this <;> omega
  · intro i j q hi hj
    have hi' := range i q hi
    have hj' := range j q hj
    rw [key i hi'] at hi
    rw [key j hj'] at hj
    injection hi with hi
    injection hj with hj
    have := nodup_getElem_inj hnd _ _ (by split <;> omega) (by split <;> omega) (hi.trans hj.symm)
    split at this <;> split at this <;> omega

theorem flatten_length_const (s : Nat) : ∀ l : List Bytes, (∀ x ∈ l, x.length = s) →
    l.flatten.length = l.length * s
  | [], _ => by simp
  | a :: l, h => by
    have := flatten_length_const s l (fun x hx => h x (by simp [hx]))
    simp only [List.flatten_cons, List.length_append, this, h a (by simp), List.length_cons]
    rw [Nat.add_mul]; omega

/-- `GoSized` holds for every message below 2^40 bytes (a terabyte) in every configuration the
codec accepts (up to 65536 shards). -/
theorem goSized_of_small (rs : RS) (msg : Bytes) (k p : Nat) (hl : RSLaws rs k p) (hin : PadInput msg k)
    (hok : rsNewOk k p = true) (hsmall : msg.length < 2 ^ 40) : GoSized rs msg k p := by
  obtain ⟨s, hs, hlen, hsize, hdlen, hdsize, _, hsle⟩ := encOf_spec rs msg k p hl hin
  obtain ⟨z, hp, _, hz⟩ := pad_facts msg k hin
  have hv := putUvarint_length_le_ten (UInt64.ofNat msg.length)
  have hkp : k + p ≤ 65536 := by
    simp only [rsNewOk, Bool.and_eq_true, Bool.or_eq_true, decide_eq_true_eq] at hok
    rcases hok.2 with h | h <;> omega
  have hpadlen : (pad msg k).length ≤ msg.length + 10 + 2 * k := by
    rw [hp]; simp only [List.length_append, List.length_replicate]; omega
  have hall := flatten_length_const s _ hsize
  unfold GoSized
  rw [hall, hlen]
  have h1 : (k + p) * s ≤ 65536 * s := Nat.mul_le_mul_right s hkp
  have h2 : s ≤ 2 ^ 40 + 10 + 131072 + 63 := by omega
  have h3 : 65536 * s ≤ 65536 * (2 ^ 40 + 10 + 131072 + 63) := Nat.mul_le_mul_left 65536 h2
  omega

/-- The repetition code for `(k, p) = (1, 1)` (a committee of three peers: what klauspost computes
for one data shard). Used to instantiate the defect theorem with a selection that lacks shard 0. -/
def repCode11 : RS :=
  { parity := fun _ _ d => [d.headD []],
    recover := fun _ _ S => match S with
      | [some x, _] => some [x, x]
      | [none, some y] => some [y, y]
      | _ => none }

theorem repCode11_laws : RSLaws repCode11 1 1 where
  parity_length := by intro d _; rfl
  parity_size := by
    intro d s hd hs x hx
    match d, hd with
    | [a], _ =>
      simp only [repCode11, List.headD_cons, List.mem_singleton] at hx
      rw [hx]; exact hs a (by simp)
  recover_complete := by
    intro d S s hd _ _ hsub hpres
    match d, hd with
    | [x], _ =>
      simp only [repCode11, List.headD_cons, List.singleton_append] at hsub ⊢
      match S, hsub with
      | [a, b], h =>
        simp only [SubOf] at h
        obtain ⟨ha, hb, _⟩ := h
        rcases ha with rfl | rfl
        · rcases hb with rfl | rfl
          · simp [present] at hpres
          · rfl
        · rfl
  recover_length := by
    intro S c h
    simp only [repCode11] at h
    split at h
    · injection h with h; subst h; rfl
    · injection h with h; subst h; rfl
    · cases h
  recover_threshold := by
    intro S c h
    simp only [repCode11] at h
    split at h
    · simp [present, List.countP_cons]
    · simp [present, List.countP_cons]
    · cases h


/-- Bytewise XOR of two shards. -/
def bxor (a b : Bytes) : Bytes := List.zipWith (· ^^^ ·) a b

theorem u8_xor_cancel_left (a b : UInt8) : a ^^^ (a ^^^ b) = b := by
  rw [← UInt8.xor_assoc, UInt8.xor_self, UInt8.zero_xor]

theorem u8_xor_cancel_right (a b : UInt8) : (a ^^^ b) ^^^ b = a := by
  rw [UInt8.xor_assoc, UInt8.xor_self, UInt8.xor_zero]

theorem bxor_length (a b : Bytes) (h : a.length = b.length) : (bxor a b).length = a.length := by
  simp [bxor, h]

theorem bxor_cancel_left : ∀ (a b : Bytes), a.length = b.length → bxor a (bxor a b) = b
  | [], [], _ => rfl
  | [], _ :: _, h => by simp at h
  | _ :: _, [], h => by simp at h
  | x :: a, y :: b, h => by
    have := bxor_cancel_left a b (by simpa using h)
    simp only [bxor] at this ⊢
    simp [this, u8_xor_cancel_left]

theorem bxor_cancel_right : ∀ (a b : Bytes), a.length = b.length → bxor (bxor a b) b = a
  | [], [], _ => rfl
  | [], _ :: _, h => by simp at h
  | _ :: _, [], h => by simp at h
  | x :: a, y :: b, h => by
    have := bxor_cancel_right a b (by simpa using h)
    simp only [bxor] at this ⊢
    simp [this, u8_xor_cancel_right]

/-- A single-parity (XOR) code for two data shards: `(k, p) = (2, 1)`, the smallest codec with
`k ≥ 2`. It satisfies `RSLaws`: the hypothesis set of the reconstruction theorems is satisfiable
beyond one data shard. -/
def xorCode21 : RS :=
  { parity := fun _ _ d => match d with
      | [a, b] => [bxor a b]
      | _ => []
    recover := fun _ _ S => match S with
      | [some a, some b, _] => some [a, b, bxor a b]
      | [some a, none, some c] => some [a, bxor a c, c]
      | [none, some b, some c] => some [bxor c b, b, c]
      | _ => none }

theorem xorCode21_laws : RSLaws xorCode21 2 1 where
  parity_length := by
    intro d hd
    match d, hd with
    | [a, b], _ => rfl
  parity_size := by
    intro d s hd hs x hx
    match d, hd with
    | [a, b], _ =>
      simp only [xorCode21, List.mem_singleton] at hx
      rw [hx, bxor_length a b (by rw [hs a (by simp), hs b (by simp)])]
      exact hs a (by simp)
  recover_complete := by
    intro d S s hd _ hs hsub hpres
    match d, hd with
    | [a, b], _ =>
      have hab : a.length = b.length := by rw [hs a (by simp), hs b (by simp)]
      simp only [xorCode21, List.cons_append, List.nil_append] at hsub ⊢
      match S, hsub with
      | [x, y, z], h =>
        simp only [SubOf] at h
        obtain ⟨hx, hy, hz, _⟩ := h
        rcases hx with rfl | rfl <;> rcases hy with rfl | rfl <;> rcases hz with rfl | rfl
        · simp [present] at hpres
        · simp [present] at hpres
        · simp [present] at hpres
        · -- b and parity present
          simp only
          rw [show bxor (bxor a b) b = a from bxor_cancel_right a b hab]
        · simp [present] at hpres
        · -- a and parity present
          simp only
          rw [bxor_cancel_left a b hab]
        · rfl
        · rfl
  recover_length := by
    intro S c h
    simp only [xorCode21] at h
    split at h
    · injection h with h; subst h; rfl
    · injection h with h; subst h; rfl
    · injection h with h; subst h; rfl
    · cases h
  recover_threshold := by
    intro S c h
    simp only [xorCode21] at h
    split at h
    · simp [present, List.countP_cons]
    · simp [present, List.countP_cons]
    · simp [present, List.countP_cons]
    · cases h

end Juno.C19
