import JunoModel.C19.Model
/-!
C19 — helper lemmas, part 1: Uvarint / PadMessage / UnpadMessage.
-/
namespace Juno.C19
set_option maxRecDepth 100000 in
theorem bits128 : ∀ n, n < 256 → ((n ||| 128) &&& 127) = n % 128 := by decide
set_option maxRecDepth 100000 in
theorem bits128b : ∀ n, n < 256 → 128 ≤ (n ||| 128) ∧ (n ||| 128) < 256 := by decide

/-- `a ||| (c <<< s)` adds when `a` is below the shift. -/
theorem or_shl_toNat (a c s : UInt64) (t : Nat) (hs : s.toNat = t) (ht : t < 64)
    (ha : a.toNat < 2 ^ t) (hc : c.toNat * 2 ^ t < 2 ^ 64) :
    (a ||| (c <<< s)).toNat = a.toNat + c.toNat * 2 ^ t := by
  rw [UInt64.toNat_or, UInt64.toNat_shiftLeft, hs, Nat.mod_eq_of_lt ht, Nat.shiftLeft_eq,
    Nat.mod_eq_of_lt hc, Nat.or_comm, ← Nat.shiftLeft_eq, ← Nat.shiftLeft_add_eq_or_of_lt ha,
    Nat.add_comm]

theorem putUvarint_lt (x : UInt64) (h : ¬ x ≥ 0x80) : putUvarint x = [x.toUInt8] := by
  rw [putUvarint]; simp [h]
theorem putUvarint_ge (x : UInt64) (h : x ≥ 0x80) :
    putUvarint x = (x.toUInt8 ||| 0x80) :: putUvarint (x >>> 7) := by
  rw [putUvarint]; simp [h]

theorem shr7 (x : UInt64) : (x >>> 7).toNat = x.toNat / 128 := by
  simp [UInt64.toNat_shiftRight, Nat.shiftRight_eq_div_pow]

theorem uvarintLoop_put (rest : Bytes) : ∀ (n : Nat) (y : UInt64), y.toNat = n → ∀ (i : Nat) (acc s : UInt64),
    s.toNat = 7 * i → i ≤ 9 → acc.toNat < 2 ^ (7 * i) → y.toNat < 2 ^ (64 - 7 * i) →
    ((uvarintLoop (putUvarint y ++ rest) i acc s).1.toNat = acc.toNat + y.toNat * 2 ^ (7 * i) ∧
     (uvarintLoop (putUvarint y ++ rest) i acc s).2 = (i : Int) + (putUvarint y).length) := by
  intro n
  induction n using Nat.strongRecOn with
  | _ n ih =>
  intro y hy i acc s hs hi hacc hyb
  have ht : 7 * i < 64 := by omega
  have hmul : y.toNat * 2 ^ (7 * i) < 2 ^ 64 := by
    have : 2 ^ 64 = 2 ^ (64 - 7 * i) * 2 ^ (7 * i) := by rw [← Nat.pow_add]; congr 1; omega
    rw [this]; exact Nat.mul_lt_mul_of_pos_right hyb (Nat.pow_pos (by decide))
  by_cases hge : y ≥ 0x80
  · have hge' : 128 ≤ y.toNat := by simpa [UInt64.le_iff_toNat_le] using hge
    rw [putUvarint_ge y hge]
    have hb := bits128b (y.toNat % 256) (Nat.mod_lt _ (by decide))
    have hbnat : (y.toUInt8 ||| 0x80).toNat = (y.toNat % 256 ||| 128) := by
      simp [UInt8.toNat_or, UInt64.toNat_toUInt8]
    have hnotlt : ¬ (y.toUInt8 ||| 0x80) < 0x80 := by
      rw [UInt8.lt_iff_toNat_lt, hbnat]; simp; exact hb.1
    -- i ≤ 8
    have hi8 : i ≤ 8 := by
      by_cases h9 : i = 9
      · subst h9; simp at hyb; omega
      · omega
    have hi10 : i ≠ 10 := by omega
    simp only [List.cons_append, uvarintLoop, hi10, if_false, hnotlt]
    have hlow : ((y.toUInt8 ||| 0x80) &&& 0x7f).toUInt64.toNat = y.toNat % 128 := by
      rw [UInt8.toNat_toUInt64, UInt8.toNat_and, hbnat]
      have := bits128 (y.toNat % 256) (Nat.mod_lt _ (by decide))
      simp at this ⊢; omega
    have hlowmul : ((y.toUInt8 ||| 0x80) &&& 0x7f).toUInt64.toNat * 2 ^ (7 * i) < 2 ^ 64 := by
      rw [hlow]
      calc y.toNat % 128 * 2 ^ (7 * i) ≤ y.toNat * 2 ^ (7 * i) :=
            Nat.mul_le_mul_right _ (Nat.mod_le _ _)
        _ < 2 ^ 64 := hmul
    have hacc' := or_shl_toNat acc ((y.toUInt8 ||| 0x80) &&& 0x7f).toUInt64 s (7 * i) hs ht hacc hlowmul
    rw [hlow] at hacc'
    have hs' : (s + 7).toNat = 7 * (i + 1) := by
      rw [UInt64.toNat_add, hs]; simp; omega
    have hpow : 2 ^ (7 * (i + 1)) = 2 ^ (7 * i) * 128 := by
      rw [show 7 * (i + 1) = 7 * i + 7 by omega, Nat.pow_add]
    have hacclt : (acc ||| (((y.toUInt8 ||| 0x80) &&& 0x7f).toUInt64 <<< s)).toNat < 2 ^ (7 * (i + 1)) := by
      rw [hacc', hpow]
      have : y.toNat % 128 < 128 := Nat.mod_lt _ (by decide)
      calc acc.toNat + y.toNat % 128 * 2 ^ (7 * i) < 2 ^ (7 * i) + 127 * 2 ^ (7 * i) := by
            have : y.toNat % 128 * 2 ^ (7 * i) ≤ 127 * 2 ^ (7 * i) := Nat.mul_le_mul_right _ (by omega)
            omega
        _ = 2 ^ (7 * i) * 128 := by omega
    have hy'lt : (y >>> 7).toNat < 2 ^ (64 - 7 * (i + 1)) := by
      rw [shr7]
      have : 2 ^ (64 - 7 * i) = 2 ^ (64 - 7 * (i + 1)) * 128 := by
        rw [show 64 - 7 * i = (64 - 7 * (i + 1)) + 7 by omega, Nat.pow_add]
      rw [this] at hyb
      exact Nat.div_lt_of_lt_mul (by omega)
    have hdec : (y >>> 7).toNat < n := by rw [shr7]; omega
    have := ih (y >>> 7).toNat hdec (y >>> 7) rfl (i + 1) _ (s + 7) hs' (by omega) hacclt hy'lt
    obtain ⟨h1, h2⟩ := this
    refine ⟨?_, ?_⟩
    · rw [h1, hacc', shr7, hpow]
      have := Nat.div_add_mod y.toNat 128
      have e : y.toNat / 128 * (2 ^ (7 * i) * 128) = (128 * (y.toNat / 128)) * 2 ^ (7 * i) := by
        rw [Nat.mul_comm (2 ^ (7 * i)) 128, ← Nat.mul_assoc, Nat.mul_comm (y.toNat / 128) 128]
      rw [e, Nat.add_assoc, ← Nat.add_mul]; congr 2; omega
    · rw [h2]; simp [List.length_cons]; omega
  · have hlt' : y.toNat < 128 := by
      have : ¬ (128 ≤ y.toNat) := by simpa [UInt64.le_iff_toNat_le] using hge
      omega
    rw [putUvarint_lt y hge]
    have hbnat : y.toUInt8.toNat = y.toNat := by
      rw [UInt64.toNat_toUInt8]; omega
    have hblt : y.toUInt8 < 0x80 := by rw [UInt8.lt_iff_toNat_lt, hbnat]; simpa using hlt'
    have hi10 : i ≠ 10 := by omega
    have h9 : ¬ (i = 9 ∧ y.toUInt8 > 1) := by
      rintro ⟨h9, hgt⟩
      subst h9
      have : 1 < y.toUInt8.toNat := by simpa [UInt8.lt_iff_toNat_lt] using hgt
      simp at hyb; omega
    simp only [List.cons_append, List.nil_append, uvarintLoop, hi10, if_false, hblt, if_true, h9]
    have hcm : y.toUInt8.toUInt64.toNat * 2 ^ (7 * i) < 2 ^ 64 := by
      rw [UInt8.toNat_toUInt64, hbnat]; exact hmul
    have := or_shl_toNat acc y.toUInt8.toUInt64 s (7 * i) hs ht hacc hcm
    rw [UInt8.toNat_toUInt64, hbnat] at this
    exact ⟨this, by simp⟩

theorem uvarint_putUvarint (x : UInt64) (rest : Bytes) :
    uvarint (putUvarint x ++ rest) = (x, ((putUvarint x).length : Int)) := by
  have h := uvarintLoop_put rest x.toNat x rfl 0 0 0 (by simp) (by omega) (by simp)
    (by simpa using x.toNat_lt)
  unfold uvarint
  obtain ⟨h1, h2⟩ := h
  apply Prod.ext
  · apply UInt64.toNat_inj.mp; simpa using h1
  · simpa using h2

theorem putUvarint_length_pos (x : UInt64) : 0 < (putUvarint x).length := by
  rw [putUvarint]; split <;> simp

theorem putUvarint_length_le : ∀ (n : Nat) (x : UInt64), x.toNat = n → ∀ j, x.toNat < 2 ^ (7 * j) → 0 < j →
    (putUvarint x).length ≤ j := by
  intro n
  induction n using Nat.strongRecOn with
  | _ n ih =>
  intro x hx j hj hjpos
  by_cases hge : x ≥ 0x80
  · have hge' : 128 ≤ x.toNat := by simpa [UInt64.le_iff_toNat_le] using hge
    rw [putUvarint_ge x hge, List.length_cons]
    have hj2 : 2 ≤ j := by
      by_cases h1 : j = 1
      · subst h1; simp at hj; omega
      · omega
    have hlt : (x >>> 7).toNat < 2 ^ (7 * (j - 1)) := by
      rw [shr7]
      have : 2 ^ (7 * j) = 2 ^ (7 * (j - 1)) * 128 := by
        rw [show 7 * j = 7 * (j - 1) + 7 by omega, Nat.pow_add]
      rw [this] at hj
      exact Nat.div_lt_of_lt_mul (by omega)
    have := ih (x >>> 7).toNat (by rw [shr7]; omega) (x >>> 7) rfl (j - 1) hlt (by omega)
    omega
  · rw [putUvarint_lt x hge]; simp; omega

/-- `MaxVarintLen64`. -/
theorem putUvarint_length_le_ten (x : UInt64) : (putUvarint x).length ≤ 10 :=
  putUvarint_length_le x.toNat x rfl 10 (by have := x.toNat_lt; omega) (by omega)

/-! ### roundUp -/

theorem roundUp_spec (n d : UInt64) (hd : 0 < d.toNat) (hsum : n.toNat + d.toNat ≤ 2 ^ 64) :
    (roundUp n d).toNat % d.toNat = 0 ∧ n.toNat ≤ (roundUp n d).toNat ∧
    (roundUp n d).toNat < n.toNat + d.toNat := by
  unfold roundUp
  have hr : (n % d).toNat = n.toNat % d.toNat := UInt64.toNat_mod n d
  have hrlt : n.toNat % d.toNat < d.toNat := Nat.mod_lt _ hd
  by_cases h0 : (n % d) = 0
  · have : n.toNat % d.toNat = 0 := by rw [← hr, h0]; rfl
    simp [h0]; omega
  · have hne : n.toNat % d.toNat ≠ 0 := by
      intro h; apply h0; apply UInt64.toNat_inj.mp; rw [hr, h]; rfl
    have hsub : (d - n % d).toNat = d.toNat - n.toNat % d.toNat := by
      rw [UInt64.toNat_sub, hr]
      have := d.toNat_lt
      omega
    have hadd : (n + (d - n % d)).toNat = n.toNat + (d.toNat - n.toNat % d.toNat) := by
      rw [UInt64.toNat_add, hsub]; apply Nat.mod_eq_of_lt; omega
    have hbne : (n % d != 0) = true := by simp [h0]
    simp only [hbne, if_true, hadd]
    refine ⟨?_, by omega, by omega⟩
    have := Nat.div_add_mod n.toNat d.toNat
    have e : n.toNat + (d.toNat - n.toNat % d.toNat) = d.toNat * (n.toNat / d.toNat + 1) := by
      rw [Nat.mul_add]; omega
    rw [e]; exact Nat.mul_mod_right _ _


/-! ### pad / unpad -/

/-- Inputs Go can represent: a slice shorter than 2^63 − 10 and `2*numDataShards` not overflowing
`int`. -/
def PadInput (msg : Bytes) (k : Nat) : Prop := 0 < k ∧ k < 2 ^ 62 ∧ msg.length + 10 < 2 ^ 63

theorem ofNat_toNat_lt (n : Nat) (h : n < 2 ^ 64) : (UInt64.ofNat n).toNat = n := by
  simp [UInt64.toNat_ofNat', Nat.mod_eq_of_lt h]

/-- Length of the padded message in `Nat` terms. -/
theorem pad_facts (msg : Bytes) (k : Nat) (h : PadInput msg k) :
    let v := putUvarint (UInt64.ofNat msg.length)
    ∃ z : Nat, pad msg k = v ++ (msg ++ List.replicate z 0) ∧
      (v.length + msg.length + z) % (2 * k) = 0 ∧ z < 2 * k := by
  intro v
  obtain ⟨hk, hk2, hm⟩ := h
  have hv10 : v.length ≤ 10 := putUvarint_length_le_ten _
  have hu : (UInt64.ofNat (v.length + msg.length)).toNat = v.length + msg.length :=
    ofNat_toNat_lt _ (by omega)
  have hd : (UInt64.ofNat (2 * k)).toNat = 2 * k := ofNat_toNat_lt _ (by omega)
  have hs := roundUp_spec (UInt64.ofNat (v.length + msg.length)) (UInt64.ofNat (2 * k))
    (by rw [hd]; omega) (by rw [hu, hd]; omega)
  rw [hu, hd] at hs
  obtain ⟨h1, h2, h3⟩ := hs
  refine ⟨(roundUp (UInt64.ofNat (v.length + msg.length)) (UInt64.ofNat (2 * k))).toNat
      - (v ++ msg).length, ?_, ?_, ?_⟩
  · simp only [pad, List.append_assoc]; rfl
  · rw [List.length_append]
    rw [show v.length + msg.length + ((roundUp (UInt64.ofNat (v.length + msg.length)) (UInt64.ofNat (2 * k))).toNat - (v.length + msg.length)) = (roundUp (UInt64.ofNat (v.length + msg.length)) (UInt64.ofNat (2 * k))).toNat by omega]
    exact h1
  · rw [List.length_append]; omega

theorem pad_length_dvd (msg : Bytes) (k : Nat) (h : PadInput msg k) : 2 * k ∣ (pad msg k).length := by
  obtain ⟨z, hp, hmod, _⟩ := pad_facts msg k h
  rw [hp]; simp only [List.length_append, List.length_replicate]
  apply Nat.dvd_of_mod_eq_zero; rw [← hmod]; congr 1; omega

/-- UnpadMessage on `[varint(len msg)] [msg] [anything]`: the message, whatever follows it (zero
padding, parity shards). -/
theorem unpad_layout (guard : Bool) (msg t : Bytes) (hm : msg.length + 10 < 2 ^ 63)
    (ht : (putUvarint (UInt64.ofNat msg.length) ++ (msg ++ t)).length < 2 ^ 64) :
    unpad guard (putUvarint (UInt64.ofNat msg.length) ++ (msg ++ t)) = .ok msg := by
  have hvpos := putUvarint_length_pos (UInt64.ofNat msg.length)
  have hv10 := putUvarint_length_le_ten (UInt64.ofNat msg.length)
  generalize hv : putUvarint (UInt64.ofNat msg.length) = v at *
  have huv : uvarint (v ++ (msg ++ t)) = (UInt64.ofNat msg.length, (v.length : Int)) := by
    rw [← hv]; exact uvarint_putUvarint _ _
  have hml : (UInt64.ofNat msg.length).toNat = msg.length := ofNat_toNat_lt _ (by omega)
  have hdrop : List.drop v.length (v ++ (msg ++ t)) = msg ++ t := by simp
  have htake : List.take msg.length (msg ++ t) = msg := by simp
  have htl : (v ++ (msg ++ t)).length = v.length + msg.length + t.length := by simp; omega
  unfold unpad
  rw [huv]
  have hnpos : ¬ ((v.length : Int) ≤ 0) := by omega
  simp only [hnpos, if_false, Int.toNat_natCast]
  cases guard
  · -- code path before 32710c6 (guard = false)
    have hvl : (UInt64.ofNat v.length).toNat = v.length := ofNat_toNat_lt _ (by omega)
    have hend : (UInt64.ofNat v.length + UInt64.ofNat msg.length).toNat = v.length + msg.length := by
      rw [UInt64.toNat_add, hvl, hml]; apply Nat.mod_eq_of_lt; omega
    have hlen : (UInt64.ofNat (v ++ (msg ++ t)).length).toNat = v.length + msg.length + t.length := by
      rw [ofNat_toNat_lt _ ht, htl]
    have c1 : ¬ (UInt64.ofNat v.length + UInt64.ofNat msg.length > UInt64.ofNat (v ++ (msg ++ t)).length) := by
      rw [GT.gt, UInt64.lt_iff_toNat_lt, hlen, hend]; omega
    have c2 : ¬ (UInt64.ofNat v.length + UInt64.ofNat msg.length < UInt64.ofNat v.length) := by
      rw [UInt64.lt_iff_toNat_lt, hend, hvl]; omega
    have hsub : (UInt64.ofNat v.length + UInt64.ofNat msg.length - UInt64.ofNat v.length).toNat = msg.length := by
      rw [UInt64.toNat_sub, hend, hvl]
      have : 2 ^ 64 - v.length + (v.length + msg.length) = 2 ^ 64 + msg.length := by omega
      rw [this, Nat.add_mod_left]; apply Nat.mod_eq_of_lt; omega
    simp only [Bool.false_eq_true, if_false, c1, c2, hsub, hdrop, htake]
  · have c1 : ¬ (UInt64.ofNat msg.length > UInt64.ofNat ((v ++ (msg ++ t)).length - v.length)) := by
      rw [GT.gt, UInt64.lt_iff_toNat_lt, hml, ofNat_toNat_lt _ (by omega), htl]; omega
    simp only [if_true, c1, if_false, hml, hdrop, htake]

theorem unpad_pad (guard : Bool) (msg : Bytes) (k : Nat) (h : PadInput msg k) :
    unpad guard (pad msg k) = .ok msg := by
  obtain ⟨z, hp, _, hz⟩ := pad_facts msg k h
  obtain ⟨_, _, hm⟩ := h
  rw [hp]
  apply unpad_layout guard msg _ hm
  have hv10 := putUvarint_length_le_ten (UInt64.ofNat msg.length)
  simp only [List.length_append, List.length_replicate]; omega

/-- The padded message followed by any further bytes (the parity shards that
ConstructMessageFromUnits copies behind the data shards) still unpads to the message. -/
theorem unpad_pad_append (guard : Bool) (msg : Bytes) (k : Nat) (h : PadInput msg k) (extra : Bytes)
    (hx : (pad msg k ++ extra).length < 2 ^ 64) :
    unpad guard (pad msg k ++ extra) = .ok msg := by
  obtain ⟨z, hp, _, hz⟩ := pad_facts msg k h
  obtain ⟨_, _, hm⟩ := h
  rw [hp] at hx ⊢
  rw [List.append_assoc, List.append_assoc]
  apply unpad_layout guard msg _ hm
  simpa [List.append_assoc] using hx

/-! ### totality of unpad -/

theorem uvarintLoop_bound : ∀ (buf : Bytes) (i : Nat) (x s : UInt64),
    0 < (uvarintLoop buf i x s).2 →
    ((uvarintLoop buf i x s).2).toNat ≤ i + buf.length ∧ i < ((uvarintLoop buf i x s).2).toNat := by
  intro buf
  induction buf with
  | nil => intro i x s h; simp [uvarintLoop] at h
  | cons b rest ih =>
    intro i x s h
    unfold uvarintLoop at h ⊢
    by_cases h10 : i = 10
    · simp only [h10, if_true] at h; omega
    · simp only [h10, if_false] at h ⊢
      by_cases hb : b < 0x80
      · simp only [hb, if_true] at h ⊢
        by_cases h9 : i = 9 ∧ b > 1
        · simp only [h9, and_self, if_true] at h; omega
        · simp only [h9, if_false] at h ⊢
          simp only [List.length_cons]; omega
      · simp only [hb, if_false] at h ⊢
        have := ih (i + 1) _ _ h
        simp only [List.length_cons]; omega

theorem uvarint_bound (buf : Bytes) (h : 0 < (uvarint buf).2) :
    0 < ((uvarint buf).2).toNat ∧ ((uvarint buf).2).toNat ≤ buf.length := by
  have := uvarintLoop_bound buf 0 0 0 h
  unfold uvarint; omega

/-- With the guard (proposed fix) UnpadMessage never panics, and a successful result is exactly
the in-range slice `padded[n : n+msgLen]`. -/
theorem unpad_guard_total (p : Bytes) :
    unpad true p ≠ .panic ∧
    ∀ m, unpad true p = .ok m →
      0 < (uvarint p).2 ∧
      ((uvarint p).2).toNat + (uvarint p).1.toNat ≤ p.length ∧
      m = (p.drop ((uvarint p).2).toNat).take (uvarint p).1.toNat ∧
      m.length = (uvarint p).1.toNat := by
  unfold unpad
  generalize huv : uvarint p = r
  obtain ⟨msgLen, n⟩ := r
  by_cases hn : n ≤ 0
  · simp [hn]
  · have hpos : 0 < (uvarint p).2 := by rw [huv]; omega
    have hb := uvarint_bound p hpos
    rw [huv] at hb
    simp only [hn, if_false, if_true]
    have hlt : p.length - n.toNat < 2 ^ 64 ∨ 2 ^ 64 ≤ p.length - n.toNat := by omega
    by_cases hgt : msgLen > UInt64.ofNat (p.length - n.toNat)
    · simp [hgt]
    · simp only [hgt, if_false]
      refine ⟨by simp, ?_⟩
      intro m hm
      injection hm with hm
      have hle : msgLen.toNat ≤ (UInt64.ofNat (p.length - n.toNat)).toNat := by
        have := hgt; rw [GT.gt, UInt64.lt_iff_toNat_lt] at this; omega
      have hof : (UInt64.ofNat (p.length - n.toNat)).toNat ≤ p.length - n.toNat := by
        simp only [UInt64.toNat_ofNat']; exact Nat.mod_le _ _
      refine ⟨by omega, by omega, hm.symm, ?_⟩
      rw [← hm]; simp; omega

/-- UnpadMessage before 32710c6 (`guard = false`) panics exactly when `varintLen + msgLen` wraps around `uint64` and
the wrapped value does not exceed the buffer length. -/
theorem unpad_pinned_panic_iff (p : Bytes) (hlen : p.length < 2 ^ 64) :
    unpad false p = .panic ↔
      (0 < (uvarint p).2 ∧ 2 ^ 64 ≤ ((uvarint p).2).toNat + (uvarint p).1.toNat ∧
       ((uvarint p).2).toNat + (uvarint p).1.toNat - 2 ^ 64 ≤ p.length) := by
  unfold unpad
  generalize huv : uvarint p = r
  obtain ⟨msgLen, n⟩ := r
  by_cases hn : n ≤ 0
  · simp [hn]; omega
  · have hpos : 0 < (uvarint p).2 := by rw [huv]; omega
    have hb := uvarint_bound p hpos
    rw [huv] at hb
    simp only at hb
    have hvl : (UInt64.ofNat n.toNat).toNat = n.toNat := ofNat_toNat_lt _ (by omega)
    have hpl : (UInt64.ofNat p.length).toNat = p.length := ofNat_toNat_lt _ hlen
    have hend : (UInt64.ofNat n.toNat + msgLen).toNat = (n.toNat + msgLen.toNat) % 2 ^ 64 := by
      rw [UInt64.toNat_add, hvl]
    have hm := msgLen.toNat_lt
    simp only [hn, if_false, Bool.false_eq_true]
    by_cases hov : 2 ^ 64 ≤ n.toNat + msgLen.toNat
    · have hmod : (n.toNat + msgLen.toNat) % 2 ^ 64 = n.toNat + msgLen.toNat - 2 ^ 64 := by
        rw [Nat.mod_eq_sub_mod hov]; apply Nat.mod_eq_of_lt; omega
      by_cases hgt : UInt64.ofNat n.toNat + msgLen > UInt64.ofNat p.length
      · have : ¬ (n.toNat + msgLen.toNat - 2 ^ 64 ≤ p.length) := by
          rw [GT.gt, UInt64.lt_iff_toNat_lt, hend, hpl, hmod] at hgt; omega
        simp [hgt, this]
      · have h1 : n.toNat + msgLen.toNat - 2 ^ 64 ≤ p.length := by
          rw [GT.gt, UInt64.lt_iff_toNat_lt, hend, hpl, hmod] at hgt; omega
        have h2 : UInt64.ofNat n.toNat + msgLen < UInt64.ofNat n.toNat := by
          rw [UInt64.lt_iff_toNat_lt, hend, hvl, hmod]; omega
        simp only [hgt, if_false, h2, if_true, true_iff]
        exact ⟨by omega, hov, h1⟩
    · have hmod : (n.toNat + msgLen.toNat) % 2 ^ 64 = n.toNat + msgLen.toNat :=
        Nat.mod_eq_of_lt (by omega)
      have h2 : ¬ (UInt64.ofNat n.toNat + msgLen < UInt64.ofNat n.toNat) := by
        rw [UInt64.lt_iff_toNat_lt, hend, hvl, hmod]; omega
      by_cases hgt : UInt64.ofNat n.toNat + msgLen > UInt64.ofNat p.length
      · simp [hgt]; omega
      · simp [hgt, h2]; omega

/-- Where the unguarded code does not panic it computes what the guarded code computes. -/
theorem unpad_variants_agree (p : Bytes) (hlen : p.length < 2 ^ 64) (h : unpad false p ≠ .panic) :
    unpad false p = unpad true p := by
  have hiff := unpad_pinned_panic_iff p hlen
  revert h hiff
  unfold unpad
  generalize huv : uvarint p = r
  obtain ⟨msgLen, n⟩ := r
  intro h hiff
  by_cases hn : n ≤ 0
  · simp [hn]
  · have hpos : 0 < (uvarint p).2 := by rw [huv]; omega
    have hb := uvarint_bound p hpos
    rw [huv] at hb
    simp only at hb
    have hvl : (UInt64.ofNat n.toNat).toNat = n.toNat := ofNat_toNat_lt _ (by omega)
    have hpl : (UInt64.ofNat p.length).toNat = p.length := ofNat_toNat_lt _ hlen
    have hpl' : (UInt64.ofNat (p.length - n.toNat)).toNat = p.length - n.toNat :=
      ofNat_toNat_lt _ (by omega)
    have hend : (UInt64.ofNat n.toNat + msgLen).toNat = (n.toNat + msgLen.toNat) % 2 ^ 64 := by
      rw [UInt64.toNat_add, hvl]
    have hm := msgLen.toNat_lt
    simp only [hn, if_false, Bool.false_eq_true, if_true] at h hiff ⊢
    by_cases hov : 2 ^ 64 ≤ n.toNat + msgLen.toNat
    · have hmod : (n.toNat + msgLen.toNat) % 2 ^ 64 = n.toNat + msgLen.toNat - 2 ^ 64 := by
        rw [Nat.mod_eq_sub_mod hov]; apply Nat.mod_eq_of_lt; omega
      have hg : msgLen > UInt64.ofNat (p.length - n.toNat) := by
        rw [GT.gt, UInt64.lt_iff_toNat_lt, hpl']; omega
      by_cases hgt : UInt64.ofNat n.toNat + msgLen > UInt64.ofNat p.length
      · simp [hgt, hg]
      · exfalso; apply h
        have h2 : UInt64.ofNat n.toNat + msgLen < UInt64.ofNat n.toNat := by
          rw [UInt64.lt_iff_toNat_lt, hend, hvl, hmod]; omega
        simp [hgt, h2]
    · have hmod : (n.toNat + msgLen.toNat) % 2 ^ 64 = n.toNat + msgLen.toNat :=
        Nat.mod_eq_of_lt (by omega)
      have h2 : ¬ (UInt64.ofNat n.toNat + msgLen < UInt64.ofNat n.toNat) := by
        rw [UInt64.lt_iff_toNat_lt, hend, hvl, hmod]; omega
      have hsub : (UInt64.ofNat n.toNat + msgLen - UInt64.ofNat n.toNat).toNat = msgLen.toNat := by
        rw [UInt64.toNat_sub, hend, hvl, hmod]
        have : 2 ^ 64 - n.toNat + (n.toNat + msgLen.toNat) = 2 ^ 64 + msgLen.toNat := by omega
        rw [this, Nat.add_mod_left]; exact Nat.mod_eq_of_lt hm
      by_cases hgt : UInt64.ofNat n.toNat + msgLen > UInt64.ofNat p.length
      · have hg : msgLen > UInt64.ofNat (p.length - n.toNat) := by
          rw [GT.gt, UInt64.lt_iff_toNat_lt, hend, hpl, hmod] at hgt
          rw [GT.gt, UInt64.lt_iff_toNat_lt, hpl']; omega
        simp [hgt, hg]
      · have hg : ¬ (msgLen > UInt64.ofNat (p.length - n.toNat)) := by
          rw [GT.gt, UInt64.lt_iff_toNat_lt, hend, hpl, hmod] at hgt
          rw [GT.gt, UInt64.lt_iff_toNat_lt, hpl']; omega
        simp [hgt, h2, hg, hsub]

end Juno.C19
