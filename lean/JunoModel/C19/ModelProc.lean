import JunoModel.C19.ModelUnits
/-
C19 — model, part 3:
  consensus/propeller/unit.go       (UnitFromProto / ToProto: the wire form of a unit)
  consensus/propeller/processor.go  (subprocessor: beforeMessageBuiltStage /
                                     beforeMessageReceivedStage; Processor: routing by message key,
                                     finalized cache)
Core Lean only.

The goroutines, channels and time-outs of processor.go are abstracted: the model is the
sequential semantics of "one unit is handed to the subprocessor of its message key and processed
to completion" — which is what the code does whenever `ProcessMessage` manages to hand the unit
over (an unbuffered channel with a non-blocking send). The `timecache` of finalized keys is a
set (no expiry inside one run).
-/
namespace Juno.C19

/-- Which of the repairs of the wire/processor layer the code under test carries (probed by the
harness, like `Cfg`). -/
structure PCfg where
  /-- UnitFromProto returns an error for a unit without shards / with a Merkle root that is not
  32 bytes (instead of panicking). -/
  wireGuard : Bool
  /-- A subprocessor that ends because its FIRST unit was invalid does not put the message key into
  the finalized cache. -/
  noPoison : Bool
  /-- After building the message the local unit is filled from any received unit (instead of
  `unitsReceived[0]`, which is nil unless shard 0 was received). -/
  localFromPresent : Bool
  /-- No subprocessor is created for a publisher whose peer id does not embed a public key
  (instead of `NewValidator` panicking in the new goroutine). -/
  keyGuard : Bool
  deriving DecidableEq, Repr

/-- The tree as of 8f80b72 (none of them). -/
def PCfg.pinned : PCfg := ⟨false, false, false, false⟩
/-- /repo: all four are in — a0ebef4 (UnitFromProto guard), 5ab3121 (no poisoning), d8826cb (local
unit from a present unit), 76dcbab (publisher key check). -/
def PCfg.current : PCfg := ⟨true, true, true, true⟩
def PCfg.repaired : PCfg := ⟨true, true, true, true⟩

/-! ## unit.go: wire form -/

/-- `pb.PropellerUnit` as protobuf-go hands it over (absent sub-messages read as empty through the
generated getters). -/
structure ProtoUnit where
  shards : List Bytes      -- Shards.GetShards()[i].Data
  index : Nat              -- uint64
  merkleRoot : Bytes       -- MerkleRoot.GetElements()
  siblings : List Bytes    -- MerkleProof.GetSiblings()[i].Elements
  publisher : Bytes        -- Publisher.GetId()
  signature : Bytes
  committeeId : Bytes      -- CommitteeId.GetElements()
  nonce : Nat              -- uint64
  deriving DecidableEq, Repr

/-- `copy(dst[:], src)` into a zeroed 32-byte array. -/
def fix32 (b : Bytes) : Bytes := (b ++ List.replicate 32 0).take 32

/-- Errors of UnitFromProto. -/
inductive WireErr where
  | noShards | shardLen | rootLen
  deriving DecidableEq, Repr

inductive WOut (α : Type) where
  | ok (a : α) | err (e : WireErr) | panic
  deriving DecidableEq, Repr

/-- `UnitFromProto`. Hashes are raw 32-byte strings here (`PUnit Bytes`).
* `shards[0]` of an empty list: index-out-of-range panic (guard: error);
* the length check loop `for i := range shards[1:] { if len(shards[i]) != shardLen …` compares
  shards `0 … n-2` with shard 0 (the last one is never looked at);
* `MessageRoot(slice)` is a slice-to-array conversion: run-time panic when the slice is shorter
  than 32 bytes, the first 32 bytes otherwise (guard: an error unless exactly 32 bytes, checked
  BEFORE the shard lengths);
* `ShardIndex(uint64)` truncates to 32 bits. -/
def unitFromProto (guard : Bool) (pu : ProtoUnit) : WOut (PUnit Bytes) :=
  let lenLoop := fun (s0 : Bytes) =>
    (pu.shards.take (pu.shards.length - 1)).any (fun s => s.length != s0.length)
  let unit : PUnit Bytes := {
      committee := fix32 pu.committeeId, publisher := pu.publisher, root := pu.merkleRoot.take 32,
      proof := pu.siblings.map fix32, sig := pu.signature, index := pu.index % 2 ^ 32,
      shards := pu.shards, nonce := pu.nonce % 2 ^ 64 }
  match pu.shards with
  | [] => if guard then .err .noShards else .panic
  | s0 :: _ =>
    if guard then
      -- since a0ebef4: no shards, root length, then the shard-length loop
      if pu.merkleRoot.length != 32 then .err .rootLen
      else if lenLoop s0 then .err .shardLen
      else .ok unit
    else
      -- before: the loop first, the root conversion (panic if short) when the Unit is built
      if lenLoop s0 then .err .shardLen
      else if pu.merkleRoot.length < 32 then .panic
      else .ok unit

/-- `(*Unit).ToProto`. -/
def unitToProto (u : PUnit Bytes) : ProtoUnit :=
  { shards := u.shards, index := u.index, merkleRoot := u.root, siblings := u.proof,
    publisher := u.publisher, signature := u.sig, committeeId := u.committee, nonce := u.nonce }

/-! ## processor.go: the subprocessor of one message key -/

/-- State of a running subprocessor. `built = none`: before the message is built
(`beforeMessageBuiltStage`); `built = some msg`: after (`beforeMessageReceivedStage`). -/
structure SubState (H : Type) where
  v : VState
  units : List (Option (PUnit H))    -- unitsReceived, one slot per shard index
  count : Nat                        -- unitCount
  localSent : Bool                   -- localShardWasBroadcast
  built : Option Bytes
  deriving DecidableEq, Repr

def SubState.fresh {H : Type} (total : Nat) : SubState H :=
  ⟨VState.fresh, List.replicate total none, 0, false, none⟩

/-- What one unit does to a subprocessor. -/
inductive SubRes (H : Type) where
  /-- keeps running; `bcast`: units handed to `broadcastUnit` (in order); `builtNow`: the message
  was built in this step -/
  | running (st : SubState H) (bcast : List (PUnit H)) (builtNow : Option Bytes)
  /-- `Run` returned: `err = false` means the receive threshold was reached -/
  | finished (err : Bool) (bcast : List (PUnit H)) (builtNow : Option Bytes)
  /-- `Run` returned because the first unit was invalid -/
  | firstInvalid
  /-- run-time panic in the subprocessor goroutine (takes the process down) -/
  | panic

/-- `ReceiveThreshold()`. -/
def Sched.receiveThreshold (s : Sched) : Nat := if s.peers.length ≤ 3 then s.k else s.k * 2

/-- The unit whose common fields fill the local unit after the build. -/
def fillUnit {H : Type} (pc : PCfg) (units : List (Option (PUnit H))) : Option (PUnit H) :=
  if pc.localFromPresent then (units.filterMap id).head? else units.headD none

/-- One unit arriving at a subprocessor for publisher `publisher` with local shard index `li`. -/
def subStep {H : Type} [DecidableEq H] (cfg : Cfg) (pc : PCfg) (f : HashFns H) (rs : RS)
    (sg : SigScheme H) (s : Sched) (publisher : Bytes) (li : Nat) (st : SubState H) (u : PUnit H)
    (sender : Bytes) : SubRes H :=
  match st.built with
  | none =>
    -- beforeMessageBuiltStage
    match validate cfg f sg s publisher st.v u sender with
    | .error _ => if st.count = 0 then .firstInvalid else .running st [] none
    | .ok v' =>
      let units := st.units.set u.index (some u)
      let count := st.count + 1
      let sendNow := !st.localSent && li == u.index
      let bc1 := if sendNow then [u] else []
      let sent := st.localSent || sendNow
      if count ≠ s.k then .running ⟨v', units, count, sent, none⟩ bc1 none
      else
        match construct cfg f rs units li s.k s.c with
        | .panic => .panic
        | .err _ => .finished true bc1 none
        | .ok (msg, shard, proof) =>
          if sent then
            if count = s.receiveThreshold then .finished false bc1 (some msg)
            else .running ⟨v', units, count, sent, some msg⟩ bc1 (some msg)
          else
            match fillUnit pc units with
            | none => .panic      -- unitsReceived[0] == nil
            | some u0 =>
              -- CommitteeID, Publisher, MessageRoot, Nonce, Signature of u0; local proof/index/shard
              let lu : PUnit H := ⟨u0.committee, u0.publisher, u0.root, proof, u0.sig, li, [shard], u0.nonce⟩
              if count + 1 = s.receiveThreshold then .finished false (bc1 ++ [lu]) (some msg)
              else .running ⟨v', units, count + 1, true, some msg⟩ (bc1 ++ [lu]) (some msg)
  | some _ =>
    -- beforeMessageReceivedStage
    match validate cfg f sg s publisher st.v u sender with
    | .error _ => .running st [] none
    | .ok v' =>
      if u.index = li then .running { st with v := v' } [] none
      else if st.count + 1 = s.receiveThreshold then .finished false [] none
      else .running { st with v := v', count := st.count + 1 } [] none

/-! ## processor.go: routing and the finalized cache -/

structure Proc (H : Type) where
  finalized : List (MsgKey H)
  subs : List (MsgKey H × SubState H)

def Proc.empty {H : Type} : Proc H := ⟨[], []⟩

def Proc.findSub {H : Type} [DecidableEq H] (p : Proc H) (key : MsgKey H) : Option (SubState H) :=
  (p.subs.find? (fun e => e.1 = key)).map (·.2)

def Proc.setSub {H : Type} [DecidableEq H] (p : Proc H) (key : MsgKey H) (st : SubState H) : Proc H :=
  { p with subs := (key, st) :: p.subs.filter (fun e => e.1 ≠ key) }

def Proc.dropSub {H : Type} [DecidableEq H] (p : Proc H) (key : MsgKey H) : Proc H :=
  { p with subs := p.subs.filter (fun e => e.1 ≠ key) }

/-- Observable outcome of handing one unit to the processor. -/
inductive ProcOut (H : Type) where
  /-- `ProcessMessage` returned nil; what the subprocessor did with the unit -/
  | handled (bcast : List (PUnit H)) (builtNow : Option Bytes) (ended : Option Bool)
  /-- the key is in the finalized cache: silently ignored -/
  | ignored
  /-- no subprocessor can be created (publisher unknown or the local peer) -/
  | noRoute
  | panic

/-- `Processor.ProcessMessage(unit, sender, scheduler)` followed by the subprocessor processing
the unit and `Processor.Run` handling its termination — for a publisher whose validator can be
built (see `procStep`). -/
def procStepCore {H : Type} [DecidableEq H] (cfg : Cfg) (pc : PCfg) (f : HashFns H) (rs : RS)
    (sg : SigScheme H) (s : Sched) (p : Proc H) (u : PUnit H) (sender : Bytes) :
    Proc H × ProcOut H :=
  if p.finalized.contains (keyOf u) then (p, .ignored)
  else
    match s.shardIndexFor (keyOf u).publisher with
    | .error _ =>
      -- only consulted when there is no subprocessor yet; one exists only if this succeeded
      (p, .noRoute)
    | .ok li =>
      match subStep cfg pc f rs sg s (keyOf u).publisher li
          ((p.findSub (keyOf u)).getD (SubState.fresh s.total)) u sender with
      | .running st' bc b => (p.setSub (keyOf u) st', .handled bc b none)
      | .finished err bc b =>
        (⟨keyOf u :: p.finalized, (p.dropSub (keyOf u)).subs⟩, .handled bc b (some err))
      | .firstInvalid =>
        if pc.noPoison then (p.dropSub (keyOf u), .handled [] none (some true))
        else (⟨keyOf u :: p.finalized, (p.dropSub (keyOf u)).subs⟩, .handled [] none (some true))
      | .panic => (p, .panic)

/-- The unit would start a NEW subprocessor (key not finalized, no subprocessor yet, local shard
index known) for a publisher whose peer id does not embed a public key. -/
def keylessNew {H : Type} [DecidableEq H] (sg : SigScheme H) (s : Sched) (p : Proc H) (u : PUnit H) : Bool :=
  !p.finalized.contains (keyOf u) &&
  (match s.shardIndexFor (keyOf u).publisher with | .ok _ => true | .error _ => false) &&
  (p.findSub (keyOf u)).isNone && !sg.hasKey (keyOf u).publisher

/-- `Processor.ProcessMessage` … as `procStepCore`, except that creating a subprocessor calls
`NewValidator(key.Publisher, …)`, which PANICS (in the new goroutine: the process dies) when the
public key cannot be extracted from the publisher's peer id; with `keyGuard` no subprocessor is
created for such a publisher. -/
def procStep {H : Type} [DecidableEq H] (cfg : Cfg) (pc : PCfg) (f : HashFns H) (rs : RS)
    (sg : SigScheme H) (s : Sched) (p : Proc H) (u : PUnit H) (sender : Bytes) :
    Proc H × ProcOut H :=
  if keylessNew sg s p u then (p, if pc.keyGuard then .noRoute else .panic)
  else procStepCore cfg pc f rs sg s p u sender

/-! ## processor.go: task accounting (`concurrentTasksBounds`, `increaseTasks` / `decreaseTask`) -/

/-- `concurrentTasksBounds`. -/
structure Bounds where
  maxWorkers : Nat
  maxPerPublisher : Nat
  deriving DecidableEq, Repr

/-- The values `NewProcessor` sets. -/
def Bounds.real : Bounds := ⟨1000, 250⟩

/-- The processor with its task counters: `tasks` and `publisherTasks`. -/
structure TProc (H : Type) where
  core : Proc H
  tasks : Nat
  ptasks : Bytes → Nat

def TProc.empty {H : Type} : TProc H := ⟨Proc.empty, 0, fun _ => 0⟩

/-- `ProcessMessage` is about to call `createSubprocessor` and reach `increaseTasks`: the key is not
finalized, no subprocessor exists for it, the local shard index for the publisher is known and (since
76dcbab) the publisher's key can be extracted — the checks `createSubprocessor` makes BEFORE it
takes a task slot. -/
def wouldCreate {H : Type} [DecidableEq H] (pc : PCfg) (sg : SigScheme H) (s : Sched) (p : Proc H)
    (u : PUnit H) : Bool :=
  !p.finalized.contains (keyOf u) &&
  (match s.shardIndexFor (keyOf u).publisher with | .ok _ => true | .error _ => false) &&
  (p.findSub (keyOf u)).isNone && !(pc.keyGuard && !sg.hasKey (keyOf u).publisher)

def bump (m : Bytes → Nat) (P : Bytes) : Bytes → Nat := fun q => if q = P then m q + 1 else m q
def drop1 (m : Bytes → Nat) (P : Bytes) : Bytes → Nat := fun q => if q = P then m q - 1 else m q

/-- `procStep` with the task accounting of processor.go:
* `increaseTasks` when a subprocessor is created — refused (`ProcessMessage` returns an error, no
  subprocessor) when the publisher's count EQUALS `maxWorkersPerPublisher` or the total equals
  `maxWorkers`;
* `decreaseTask` when `Run` is told that a subprocessor ended: `finalize` and `discard` alike.
A subprocessor that is created and ends in the same step (its first unit is invalid, or completes
the receive threshold) takes and releases its slot. -/
def tprocStep {H : Type} [DecidableEq H] (b : Bounds) (cfg : Cfg) (pc : PCfg) (f : HashFns H) (rs : RS)
    (sg : SigScheme H) (s : Sched) (tp : TProc H) (u : PUnit H) (sender : Bytes) :
    TProc H × ProcOut H :=
  if wouldCreate pc sg s tp.core u then
    if tp.ptasks (keyOf u).publisher = b.maxPerPublisher ∨ tp.tasks = b.maxWorkers then (tp, .noRoute)
    else
      match procStep cfg pc f rs sg s tp.core u sender with
      | (p', .handled bc bu none) =>
        (⟨p', tp.tasks + 1, bump tp.ptasks (keyOf u).publisher⟩, .handled bc bu none)
      | (p', out) => (⟨p', tp.tasks, tp.ptasks⟩, out)
  else
    match procStep cfg pc f rs sg s tp.core u sender with
    | (p', .handled bc bu (some e)) =>
      (⟨p', tp.tasks - 1, drop1 tp.ptasks (keyOf u).publisher⟩, .handled bc bu (some e))
    | (p', out) => (⟨p', tp.tasks, tp.ptasks⟩, out)

/-- The subprocessor of `key` reaches its time-out (`StaleMessageTimeout`): `Run` returns the context
error, `Processor.Run` finalizes the key (cache, forget the subprocessor, release the slot). -/
def tprocExpire {H : Type} [DecidableEq H] (tp : TProc H) (key : MsgKey H) : TProc H :=
  match tp.core.findSub key with
  | none => tp
  | some _ =>
    ⟨⟨key :: tp.core.finalized, (tp.core.dropSub key).subs⟩, tp.tasks - 1, drop1 tp.ptasks key.publisher⟩

end Juno.C19
